(* C09 — entry points of the extracted driver. *)
(* DISPATCH 900 c09_model *)
(* DISPATCH 901 c09_holds *)
From Coq Require Import List ZArith NArith Bool Arith.
From MV Require Import Common.Sx Queue.Model Queue.Spec Queue.Wire C01.Codec.
Import ListNotations.

Definition c09_model (x : sx) : sx := q_model x.

(* The specification replayed over what is visible from outside: the appends (in their linearisation order),
   the moments at which the writer takes an entry (it arrives at `consume`), the stream's `next` calls and
   the recorder's overflow increments.  The queue must behave as [ring_push]/[ring_take] say. *)
Definition is_over (e : ev) : bool := match e with EOver => true | _ => false end.
Definition stream_side (e : ev) : bool := match e with EWake _ => false | _ => true end.

Fixpoint feed_nexts (evs : list ev) (hand : option ent) : option (option ent) :=
  match evs with
  | [] => Some hand
  | ENext e _ :: r => match hand with
                      | Some h => if ent_eqb h e then feed_nexts r None else None
                      | None => None
                      end
  | EOver :: r => None
  | _ :: r => feed_nexts r hand
  end.

Fixpoint ring_check (cap_ : nat) (steps : list (option label * Z * list ev)) (ring : list ent)
         (hand : option ent) : bool :=
  match steps with
  | [] => true
  | (l, pc_after, evs) :: r =>
    match l with
    | Some (LPush t n) =>
      let '(ring', d) := ring_push cap_ ring (t, n) in
      (* the overflow counter moves exactly when an entry was displaced, nothing else happens *)
      match filter stream_side evs, d with
      | [], None => ring_check cap_ r ring' hand
      | [EOver], Some _ => ring_check cap_ r ring' hand
      | _, _ => false
      end
    | Some (LW _) =>
      if Z.eqb pc_after 1 then
        match ring_take ring, hand with
        | Some (h, t), None => match feed_nexts evs (Some h) with
                               | Some hand' => ring_check cap_ r t hand'
                               | None => false
                               end
        | _, _ => false       (* took from an empty ring, or while still holding an entry *)
        end
      else match feed_nexts evs hand with
           | Some hand' => ring_check cap_ r ring hand'
           | None => false
           end
    | _ => match feed_nexts evs hand with
           | Some hand' => ring_check cap_ r ring hand'
           | None => false
           end
    end
  end.

Definition dec_steps (case i : sx) : list (option label * Z * list ev) :=
  map (fun p => (dec_label (fst p), sx_z (sx_nth (snd p) 0),
                 flat_map (fun e => opt_list (dec_ev e)) (sx_list (sx_nth (snd p) 2))))
      (combine (dec_labels case) (sx_list i)).

(* unscheduled runs *)
Definition suffix_of (a b : list ent) : bool :=
  is_subseq a b && is_subseq a (skipn (length b - length a) b) && Nat.leb (length a) (length b).

Definition c09_stress_spec (case i : sx) : bool :=
  let cap_ := sx_nat (sx_arg case 0) in
  let threads := sx_nat (sx_arg case 2) in
  let per := sx_nat (sx_arg case 3) in
  let stalled := sx_bool (sx_arg case 4) in
  let log := stress_events i in
  let d := nexts log in
  let total := threads * per in
  c01_stress_spec case i &&
  (* the counter the recorder saw = overflow events = entries that never reached the stream *)
  Nat.eqb (count_over log) (total - length d) && Nat.eqb (sx_nat (sx_nth i 2)) (count_over log) &&
  (* nothing is lost unless the ring was full: at most `total - cap` losses, none when cap >= total *)
  Nat.leb (count_over log) (total - cap_) &&
  (* writer held inside `next` during all appends: what survives is the newest entries of every producer *)
  (if stalled then
     let d' := tl d in
     Nat.leb (length d') cap_ && (Nat.leb total cap_ || Nat.leb cap_ (length d)) &&
     forallb (fun t => suffix_of (by_thread (N.of_nat t) d') (thread_seq (N.of_nat t) per)) (seq 1 threads)
   else true).

Definition c09_holds (x : sx) : sx :=
  let case := sx_nth x 0 in let i := sx_nth x 1 in
  of_bool match sx_tag case with
          | 0%Z => ring_check (sx_nat (sx_arg case 0)) (dec_steps case i) [] None &&
                   c01_spec (sx_bool (sx_arg case 1)) (pushes (all_labels case)) (impl_events i)
          | _ => c09_stress_spec case i
          end.
