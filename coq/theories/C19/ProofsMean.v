(* C19 — Mean<U> fed by record_value calls: a rejected value leaves no trace, and the mean that is written is that
   of the accepted observations only (exact occurrences; the total is their binary64 running sum, within an explicit
   bound of their exact sum). *)
From Coq Require Import List ZArith NArith Reals QArith Qreals Lra Lia Bool.
From Flocq Require Import Core.Core Relative IEEE754.BinarySingleNaN IEEE754.Binary IEEE754.Bits.
From MV Require Import SFloat.Defs SFloat.Facts SFloat.Str C19.UnitsGen C19.Model C19.Spec C19.Proofs C19.ProofsFloat C19.ProofsValue.
Import ListNotations.

(* ---------------------------------------------------------------- accepted / rejected *)
(* the observations a call contributes to a mean of unit [expected]: all of them if it is a metric in that unit
   without dimensions, none otherwise *)
Definition accepted_obs_of (expected : unit_) (c : vcall) : list obs :=
  match c with
  | VMetric os u [] _ => if unit_eqb u expected then os else []
  | _ => []
  end.
Definition accepted_obs (expected : unit_) (cs : list vcall) : list obs := flat_map (accepted_obs_of expected) cs.
Definition rejected (expected : unit_) (acc : mean_acc) (c : vcall) : Prop := snd (record_call expected acc c) <> [].

Lemma record_call_acc : forall expected acc c,
  fst (record_call expected acc c) = fold_left mean_add_obs (accepted_obs_of expected c) acc.
Proof.
  intros expected acc c. destruct c as [|s|e|os u dims fl]; cbn [record_call accepted_obs_of fst fold_left]; try reflexivity.
  destruct (unit_eqb u expected); cbn [negb]; destruct dims; reflexivity.
Qed.

(* whether a call is rejected does not depend on the accumulator *)
Lemma record_call_result_indep : forall expected acc acc' c,
  snd (record_call expected acc c) = snd (record_call expected acc' c).
Proof.
  intros expected acc acc' c. destruct c as [|s|e|os u dims fl]; cbn [record_call snd]; try reflexivity.
  destruct (negb (unit_eqb u expected)); [reflexivity|]. destruct dims; reflexivity.
Qed.

(* a rejected record_value leaves (total, occurrences) exactly as they were *)
Theorem rejected_leaves_accumulator : forall expected acc c,
  rejected expected acc c -> fst (record_call expected acc c) = acc.
Proof.
  intros expected acc c R. unfold rejected in R. destruct c as [|s|e|os u dims fl]; cbn [record_call fst snd] in *; try reflexivity.
  destruct (negb (unit_eqb u expected)); [reflexivity|]. destruct dims; [contradiction R; reflexivity | reflexivity].
Qed.

Lemma fold_record_app : forall expected cs1 cs2 acc,
  fold_left (fun a c => fst (record_call expected a c)) (cs1 ++ cs2) acc =
  fold_left (fun a c => fst (record_call expected a c)) cs2 (fold_left (fun a c => fst (record_call expected a c)) cs1 acc).
Proof. intros. apply fold_left_app. Qed.

(* ... at any position of any sequence: deleting the rejected call changes nothing *)
Theorem rejected_call_can_be_deleted : forall expected pre c post,
  rejected expected mean_zero c ->
  mean_run_calls expected (pre ++ c :: post) = mean_run_calls expected (pre ++ post).
Proof.
  intros expected pre c post R. unfold mean_run_calls. rewrite !fold_record_app. cbn [fold_left].
  rewrite rejected_leaves_accumulator; [reflexivity|].
  unfold rejected in *. rewrite (record_call_result_indep expected _ mean_zero c). exact R.
Qed.

(* the accumulator after any sequence is the fold over the accepted observations only *)
Theorem mean_run_is_accepted_only : forall expected cs,
  mean_run_calls expected cs = fold_left mean_add_obs (accepted_obs expected cs) mean_zero.
Proof.
  intros expected cs. unfold mean_run_calls, accepted_obs. generalize mean_zero.
  induction cs as [|c cs IH]; intros acc; cbn [fold_left flat_map]; [reflexivity|].
  rewrite IH, record_call_acc, fold_left_app. reflexivity.
Qed.

Corollary mean_seq_writes_accepted_only : forall u vs,
  write (MeanSeq u vs) = mean_write (tag_unit u) (fold_left mean_add_obs (accepted_obs (tag_unit u) (map write vs)) mean_zero).
Proof. intros u vs. cbn [write]. rewrite mean_run_is_accepted_only. reflexivity. Qed.

(* ---------------------------------------------------------------- occurrences: exact *)
Definition sum_occurrences (os : list obs) : N := fold_right (fun o n => (obs_occurrences o + n)%N) 0%N os.
Lemma occurrences_exact : forall os acc,
  snd (fold_left mean_add_obs os acc) = (snd acc + sum_occurrences os)%N.
Proof.
  induction os as [|o os IH]; intros acc; [cbn; lia|].
  change (sum_occurrences (o :: os)) with (obs_occurrences o + sum_occurrences os)%N. cbn [fold_left].
  rewrite IH. destruct o; cbn [mean_add_obs obs_occurrences snd]; lia.
Qed.

(* ---------------------------------------------------------------- total: the binary64 running sum *)
Local Open Scope R_scope.
Definition number_of (o : obs) : R := R64 (float_of o).
(* the running sum as the code computes it, over the reals: one rounding per addition *)
Fixpoint rounded_sum (s : R) (os : list obs) : R :=
  match os with [] => s | o :: r => rounded_sum (rnd64 (s + number_of o)) r end.
(* no number is infinite/NaN and no partial sum overflows *)
Fixpoint sum_safe (s : R) (os : list obs) : Prop :=
  match os with
  | [] => True
  | o :: r => Binary.is_finite 53 1024 (float_of o) = true /\ Rabs (rnd64 (s + number_of o)) < bpow radix2 1024 /\
              sum_safe (rnd64 (s + number_of o)) r
  end.

Lemma mean_add_total : forall o acc, fst (mean_add_obs acc o) = f64_add (fst acc) (float_of o).
Proof. intros [u|f|t n] acc; reflexivity. Qed.

Theorem total_is_rounded_sum : forall os acc,
  Binary.is_finite 53 1024 (fst acc) = true -> sum_safe (R64 (fst acc)) os ->
  R64 (fst (fold_left mean_add_obs os acc)) = rounded_sum (R64 (fst acc)) os /\
  Binary.is_finite 53 1024 (fst (fold_left mean_add_obs os acc)) = true.
Proof.
  induction os as [|o os IH]; intros acc F S; cbn [fold_left rounded_sum]; [split; [reflexivity|exact F]|].
  cbn [sum_safe] in S. destruct S as (Fo & B & S).
  pose proof (Binary.Bplus_correct 53 1024 (eq_refl _) (eq_refl _) binop_nan_pl64 mode_NE (fst acc) (float_of o) F Fo) as C.
  cbn [round_mode] in C. change (SpecFloat.fexp 53 1024) with fmt64 in C. fold (number_of o) in C.
  rewrite (Rlt_bool_true _ _ B) in C. destruct C as (C1 & C2 & _).
  assert (V1 : R64 (fst (mean_add_obs acc o)) = rnd64 (R64 (fst acc) + number_of o)).
  { rewrite mean_add_total. exact C1. }
  assert (F1 : Binary.is_finite 53 1024 (fst (mean_add_obs acc o)) = true).
  { rewrite mean_add_total. exact C2. }
  assert (S1 : sum_safe (R64 (fst (mean_add_obs acc o))) os) by (rewrite V1; exact S).
  rewrite <- V1. apply IH; [exact F1 | exact S1].
Qed.

(* one rounding: |rnd y - y| <= 2^-53 |y| + 2^-1075 for every real y *)
Definition u53 : R := bpow radix2 (-53).
Definition eta : R := bpow radix2 (-1075).
Lemma rnd64_error : forall y, Rabs (rnd64 y - y) <= u53 * Rabs y + eta.
Proof.
  intros y. destruct (error_N_FLT radix2 (-1074) 53 ltac:(lia) (fun x => negb (Z.even x)) y) as (eps & et & He & Ht & _ & E).
  change (round radix2 (FLT_exp (-1074) 53) (Znearest (fun x => negb (Z.even x))) y) with (rnd64 y) in E. rewrite E.
  replace (y * (1 + eps) + et - y) with (y * eps + et) by ring.
  assert (U : / 2 * bpow radix2 (- (53) + 1) = u53).
  { unfold u53. change (- (53) + 1)%Z with (1 + -53)%Z. rewrite bpow_plus. change (bpow radix2 1) with 2. field. }
  assert (T : / 2 * bpow radix2 (-1074) = eta).
  { unfold eta. change (-1074)%Z with (1 + -1075)%Z. rewrite bpow_plus. change (bpow radix2 1) with 2. field. }
  rewrite U in He. rewrite T in Ht.
  eapply Rle_trans; [apply Rabs_triang|]. rewrite Rabs_mult.
  apply Rplus_le_compat; [|exact Ht]. rewrite Rmult_comm. apply Rmult_le_compat_r; [apply Rabs_pos | exact He].
Qed.

(* the exact sum of the numbers and the accumulated error bound: with e bounding |T - S| before an addition,
   e (1 + u) + u |S + x| + eta bounds it afterwards *)
Fixpoint exact_sum (S : R) (os : list obs) : R :=
  match os with [] => S | o :: r => exact_sum (S + number_of o) r end.
Fixpoint error_bound (e S : R) (os : list obs) : R :=
  match os with
  | [] => e
  | o :: r => error_bound (e * (1 + u53) + u53 * Rabs (S + number_of o) + eta) (S + number_of o) r
  end.

Theorem rounded_sum_error : forall os T S e, Rabs (T - S) <= e ->
  Rabs (rounded_sum T os - exact_sum S os) <= error_bound e S os.
Proof.
  induction os as [|o os IH]; intros T S e H; cbn [rounded_sum exact_sum error_bound]; [exact H|].
  apply IH. set (x := number_of o).
  pose proof (rnd64_error (T + x)) as R1.
  assert (U : 0 < u53) by apply bpow_gt_0.
  replace (rnd64 (T + x) - (S + x)) with ((rnd64 (T + x) - (T + x)) + (T - S)) by ring.
  eapply Rle_trans; [apply Rabs_triang|].
  assert (A : Rabs (T + x) <= Rabs (S + x) + e).
  { replace (T + x) with ((S + x) + (T - S)) by ring. eapply Rle_trans; [apply Rabs_triang|]. lra. }
  assert (M : u53 * Rabs (T + x) <= u53 * (Rabs (S + x) + e)) by (apply Rmult_le_compat_l; lra).
  lra.
Qed.

(* the written mean: nothing when no occurrence was accepted; otherwise one Repeated observation in the mean's unit
   whose occurrences are exactly those of the accepted observations and whose total is within the bound of their
   exact sum - rejected values contribute to neither *)
Theorem mean_seq_quantity : forall u vs,
  let os := accepted_obs (tag_unit u) (map write vs) in
  sum_safe 0 os ->
  (sum_occurrences os = 0%N -> write (MeanSeq u vs) = VNone) /\
  (sum_occurrences os <> 0%N ->
     exists t : f64,
       write (MeanSeq u vs) = VMetric [ORepeated t (sum_occurrences os)] (tag_unit u) [] None /\
       Binary.is_finite 53 1024 t = true /\
       R64 t = rounded_sum 0 os /\
       Rabs (R64 t - exact_sum 0 os) <= error_bound 0 0 os).
Proof.
  intros u vs os S. rewrite mean_seq_writes_accepted_only. fold os. unfold mean_write.
  rewrite occurrences_exact. cbn [mean_zero snd]. rewrite N.add_0_l.
  destruct (total_is_rounded_sum os mean_zero (eq_refl _) S) as [V F]. change (R64 (fst mean_zero)) with 0 in V.
  split; intros H.
  - rewrite H. reflexivity.
  - destruct (N.eqb (sum_occurrences os) 0) eqn:E; [apply N.eqb_eq in E; contradiction|].
    eexists. split; [reflexivity|]. split; [exact F|]. split; [exact V|].
    rewrite V. apply rounded_sum_error. rewrite Rminus_0_r, Rabs_R0. lra.
Qed.

(* with nothing to round (every partial sum representable) the total is the exact sum *)
Lemma rounded_sum_exact : forall os s, (forall pre o post, os = pre ++ o :: post ->
     generic_format radix2 fmt64 (exact_sum s (pre ++ [o]))) -> rounded_sum s os = exact_sum s os.
Proof.
  induction os as [|o os IH]; intros s H; cbn [rounded_sum exact_sum]; [reflexivity|].
  assert (G : rnd64 (s + number_of o) = s + number_of o).
  { apply round_generic; [apply valid_rnd_N|]. apply (H [] o os eq_refl). }
  rewrite G. apply IH. intros pre o' post E. apply (H (o :: pre) o' post). rewrite E. reflexivity.
Qed.

(* ---------------------------------------------------------------- non-vacuity of [sum_safe] *)
Lemma small_int_sum_safe : forall (a b : N), (a <= 2 ^ 52)%N -> (b <= 2 ^ 52)%N ->
  sum_safe 0 [OFloat (u64_as_f64 a); OFloat (u64_as_f64 b)].
Proof.
  intros a b Ha Hb.
  destruct (u64_as_f64_exact a ltac:(lia)) as [Va Fa]. destruct (u64_as_f64_exact b ltac:(lia)) as [Vb Fb].
  assert (G : forall z : Z, (0 <= z <= 2 ^ 53)%Z -> rnd64 (IZR z) = IZR z /\ Rabs (IZR z) < bpow radix2 1024).
  { intros z Hz. split.
    - apply round_generic; [apply valid_rnd_N|]. apply (format_Z 53 1024 (eq_refl _) (eq_refl _)). lia.
    - rewrite Rabs_pos_eq by (apply IZR_le; lia). apply Rle_lt_trans with (bpow radix2 53); [|apply bpow_lt; lia].
      change (bpow radix2 53) with (IZR (2 ^ 53)). apply IZR_le. lia. }
  cbn [sum_safe]. unfold number_of. cbn [float_of]. rewrite Va, Vb, Rplus_0_l.
  destruct (G (Z.of_N a) ltac:(lia)) as [R1 B1]. rewrite R1.
  rewrite <- plus_IZR. destruct (G (Z.of_N a + Z.of_N b)%Z ltac:(lia)) as [R2 B2]. rewrite R2.
  repeat split; assumption.
Qed.
