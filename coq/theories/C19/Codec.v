(* C19 — wire codec and entry points. Depends on Model/Spec/UnitsGen only. *)
(* DISPATCH 1900 c19_pair_model *)
(* DISPATCH 1901 c19_pair_spec *)
(* DISPATCH 1902 c19_census_holds *)
(* DISPATCH 1903 c19_value_model *)
(* DISPATCH 1904 c19_value_holds *)
(* DISPATCH 1905 c19_mean_model *)
(* DISPATCH 1906 c19_mean_holds *)
From Coq Require Import List ZArith NArith QArith Bool.
From Flocq Require Import IEEE754.Binary IEEE754.Bits.
From MV Require Import Common.Sx SFloat.Defs SFloat.Str C19.UnitsGen C19.Model C19.Spec.
Import ListNotations.
Local Close Scope Q_scope.

Definition of_string (s : str) : sx := B (str_bytes s).
Definition sx_string (x : sx) : str := str_of_bytes (sx_bytes x).
Definition sx_tagid (x : sx) : tag := match find_tag (sx_string x) with Some t => t | None => T_None end.

(* ---------------------------------------------------------------------------- pairs: RATIO and names *)
(* case (0 from_ident to_ident) -> (convertible ratio_bits from_name to_name) *)
Definition c19_pair_model (x : sx) : sx :=
  match find_tag (sx_string (sx_arg x 0)), find_tag (sx_string (sx_arg x 1)) with
  | Some a, Some b =>
      if convertible a b
      then L [of_bool true; of_n (f64_bits (ratio_f64 a b));
              of_string (unit_name (tag_unit a)); of_string (unit_name (tag_unit b))]
      else L []          (* no Convert impl: nothing the implementation could be asked *)
  | _, _ => L []
  end.

(* the same from the specification only: documented dimension rule, nearest binary64 of the exact ratio of the
   documented unit sizes, CloudWatch's names *)
Definition nearest_f64 (q : Q) : f64 :=
  let r := Qred q in f64_div (u64_as_f64 (Z.to_N (Qnum r))) (u64_as_f64 (Npos (Qden r))).
Definition c19_pair_spec (x : sx) : sx :=
  match find_tag (sx_string (sx_arg x 0)), find_tag (sx_string (sx_arg x 1)) with
  | Some a, Some b =>
      let ua := tag_unit a in let ub := tag_unit b in
      if spec_convertible ua ub
      then L [of_bool true; of_n (f64_bits (nearest_f64 (spec_ratio ua ub)));
              of_string (cloudwatch_name ua); of_string (cloudwatch_name ub)]
      else L []
  | _, _ => L []
  end.

(* census: (case impl) where impl = list of (from_ident to_ident) pairs the harness could instantiate
   `<From as Convert<To>>` for; holds iff that is exactly the set of convertible pairs of the tables *)
Definition pair_in (l : list (str * str)) (p : str * str) : bool :=
  existsb (fun q => str_eqb (fst p) (fst q) && str_eqb (snd p) (snd q)) l.
Definition model_pairs : list (str * str) :=
  flat_map (fun a => flat_map (fun b => if convertible a b then [(tag_ident a, tag_ident b)] else []) all_tags) all_tags.
Definition c19_census_holds (x : sx) : sx :=
  let impl := map (fun p => (sx_string (sx_nth p 0), sx_string (sx_nth p 1))) (sx_list (sx_nth x 1)) in
  of_bool (Nat.eqb (List.length impl) (List.length model_pairs)
           && forallb (pair_in impl) model_pairs && forallb (pair_in model_pairs) impl).

(* ---------------------------------------------------------------------------- values *)
Definition dec_nscale (i : nat) : nscale := nth i all_nscale NS_One.
Definition dec_pscale (i : nat) : pscale := nth i all_pscale PS_One.
Definition dec_unit (x : sx) : unit_ :=
  match sx_tag x with
  | 0%Z => U_None
  | 1%Z => U_Count
  | 2%Z => U_Percent
  | 3%Z => U_Second (dec_nscale (sx_nat (sx_arg x 0)))
  | 4%Z => U_Byte (dec_pscale (sx_nat (sx_arg x 0)))
  | 5%Z => U_BytePerSecond (dec_pscale (sx_nat (sx_arg x 0)))
  | 6%Z => U_Bit (dec_pscale (sx_nat (sx_arg x 0)))
  | 7%Z => U_BitPerSecond (dec_pscale (sx_nat (sx_arg x 0)))
  | _ => U_Custom (sx_string (sx_arg x 0))
  end.
Definition dec_obs (x : sx) : obs :=
  match sx_tag x with
  | 0%Z => OUnsigned (sx_n (sx_arg x 0))
  | 1%Z => OFloat (f64_of_bits (sx_n (sx_arg x 0)))
  | _ => ORepeated (f64_of_bits (sx_n (sx_arg x 0))) (sx_n (sx_arg x 1))
  end.
Definition dec_dims (x : sx) : list (bytes * bytes) :=
  map (fun p => (sx_bytes (sx_nth p 0), sx_bytes (sx_nth p 1))) (sx_list x).
Definition dec_flags (x : sx) : option N := sx_option sx_n x.
Definition dec_vcall (x : sx) : vcall :=
  match sx_tag x with
  | 0%Z => VNone
  | 1%Z => VString (sx_bytes (sx_arg x 0))
  | 2%Z => VError (map sx_string (sx_list (sx_arg x 0)))
  | _ => VMetric (map dec_obs (sx_list (sx_arg x 0))) (dec_unit (sx_arg x 1)) (dec_dims (sx_arg x 2)) (dec_flags (sx_arg x 3))
  end.

Fixpoint dec_value (fuel : nat) (x : sx) : value :=
  match fuel with
  | O => PUnsigned 0
  | Datatypes.S f =>
    match sx_tag x with
    | 0%Z => Script (sx_tagid (sx_arg x 0)) (dec_vcall (sx_arg x 1))
    | 1%Z => PUnsigned (sx_n (sx_arg x 0))
    | 2%Z => PFloat (f64_of_bits (sx_n (sx_arg x 0)))
    | 3%Z => PDuration (sx_n (sx_arg x 0)) (sx_n (sx_arg x 1))
    | 4%Z => WithUnit (dec_value f (sx_arg x 0)) (sx_tagid (sx_arg x 1))
    | 5%Z => Distribution (sx_tagid (sx_arg x 0)) (map (dec_value f) (sx_list (sx_arg x 1)))
    | 6%Z => MeanOf (sx_tagid (sx_arg x 0)) (f64_of_bits (sx_n (sx_arg x 1))) (sx_n (sx_arg x 2))
    | 8%Z => MeanSeq (sx_tagid (sx_arg x 0)) (map (dec_value f) (sx_list (sx_arg x 1)))
    | _ => Opt (sx_tagid (sx_arg x 0)) (sx_option (dec_value f) (sx_arg x 1))
    end
  end.

Definition enc_obs (o : obs) : sx :=
  match o with
  | OUnsigned n => tagged 0 [of_n n]
  | OFloat f => tagged 1 [of_n (f64_bits f)]
  | ORepeated t n => tagged 2 [of_n (f64_bits t); of_n n]
  end.
Definition enc_dims (d : list (bytes * bytes)) : sx := L (map (fun p => L [B (fst p); B (snd p)]) d).
(* the unit travels as the name a formatter prints; a ValidationError as a fixed token *)
Definition enc_vcall (c : vcall) : sx :=
  match c with
  | VNone => tagged 0 []
  | VString s => tagged 1 [B s]
  | VError _ => tagged 2 [of_string "error"%str]   (* the wording is not compared: a fixed token on both sides *)
  | VMetric os u dims fl => tagged 3 [L (map enc_obs os); of_string (unit_name u); enc_dims dims; of_option of_n fl]
  end.

(* case (2 tree) -> the call; case (3 ((name tree) ..)) -> ((name call) ..), the fields of a #[metrics] entry *)
Definition c19_value_model (x : sx) : sx :=
  match sx_tag x with
  | 2%Z => enc_vcall (write (dec_value 64 (sx_arg x 0)))
  | _ => L (map (fun f => L [sx_nth f 0; enc_vcall (write (dec_value 64 (sx_nth f 1)))]) (sx_list (sx_arg x 0)))
  end.

Definition dec_ocall (x : sx) : ocall :=
  match sx_tag x with
  | 0%Z => ONone
  | 1%Z => OString (sx_bytes (sx_arg x 0))
  | 2%Z => OError (sx_bytes (sx_arg x 0))
  | _ => OMetric (map dec_obs (sx_list (sx_arg x 0))) (sx_string (sx_arg x 1)) (dec_dims (sx_arg x 2)) (dec_flags (sx_arg x 3))
  end.
(* property predicate on the implementation's observation: (case impl) -> 1 iff it meets the specification.
   Ill-typed trees (which rustc rejects and the harness never builds) are vacuously fine. *)
Definition value_holds (tree impl : sx) : bool :=
  let v := dec_value 64 tree in
  negb (well_typed v) || meets (spec_write v) (dec_ocall impl).
Definition c19_value_holds (x : sx) : sx :=
  let case := sx_nth x 0 in
  let impl := sx_nth x 1 in
  match sx_tag case with
  | 2%Z => of_bool (value_holds (sx_arg case 0) impl)
  | _ =>
      let fs := sx_list (sx_arg case 0) in
      let rs := sx_list impl in
      of_bool (Nat.eqb (List.length fs) (List.length rs)
               && forallb (fun p => nbytes_eqb (sx_bytes (sx_nth (fst p) 0)) (sx_bytes (sx_nth (snd p) 0))
                                    && value_holds (sx_nth (fst p) 1) (sx_nth (snd p) 1)) (combine fs rs))
  end.

(* ---------------------------------------------------------------------------- a Mean fed by record_value calls *)
(* case (4 tree), tree = (8 u (v ..)) or (4 (8 u (v ..)) to): -> ((result ..) call), result = () for Ok or ("error")
   for Err, call = what the final Mean (bare, or wrapped in the target unit) writes *)
Definition mean_seq_of (v : value) : option (tag * list value) :=
  match v with
  | MeanSeq u vs => Some (u, vs)
  | WithUnit (MeanSeq u vs) _ => Some (u, vs)
  | _ => None
  end.
Definition enc_result (msgs : list str) : sx :=
  match msgs with [] => L [] | _ => L [of_string "error"%str] end.
Definition c19_mean_model (x : sx) : sx :=
  let v := dec_value 64 (sx_arg x 0) in
  match mean_seq_of v with
  | Some (u, vs) => L [L (map enc_result (mean_results u vs)); enc_vcall (write v)]
  | None => L []
  end.
(* property predicate: exactly the acceptable values are accepted, and the written mean is that of the accepted
   observations only (exact occurrences; total within the rounding allowance of the additions) *)
Definition c19_mean_holds (x : sx) : sx :=
  let case := sx_nth x 0 in
  let impl := sx_nth x 1 in
  let tree := sx_arg case 0 in
  let v := dec_value 64 tree in
  match mean_seq_of v with
  | Some (u, vs) =>
      let want := spec_mean_results u vs in
      let got := map (fun r => match sx_list r with [] => true | _ => false end) (sx_list (sx_nth impl 0)) in
      of_bool (negb (well_typed v) ||
               (Nat.eqb (List.length want) (List.length got) && forallb (fun p => Bool.eqb (fst p) (snd p)) (combine want got)
                && value_holds tree (sx_nth impl 1)))
  | None => of_bool false
  end.
