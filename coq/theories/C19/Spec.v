(* C19 — specification: what the user is promised, written by hand and independently of the numeric tables,
   formulas and strings that UnitsGen.v regenerates from unit.rs.  It is keyed by *names* - the Rust tag type's
   identifier and CloudWatch's unit name - and never pattern-matches on the generated enumerations, so it keeps
   compiling (and the correspondence keeps running) whatever the translator emits; a unit the tables below do not
   know simply fails the specification. Every number and string is the documented meaning (SI prefixes, 8 bits per
   byte, CloudWatch's MetricDatum unit names). *)
From Coq Require Import List ZArith NArith QArith Qabs Bool.
From Flocq Require Import IEEE754.Binary IEEE754.Bits.
From MV Require Import SFloat.Defs SFloat.Str C19.UnitsGen C19.Model.
Import ListNotations.
Local Open Scope Q_scope.
Local Open Scope str_scope.

Inductive dimension := D_Unitless | D_Plain | D_Time | D_Data | D_Unknown.

(* CloudWatch's units: dimension, and the size of one unit in seconds / bits / bits per second (1 if dimensionless).
   Data and data-rate units form one family here, as in the property's quantifier and the source's single BitTag. *)
Definition cloudwatch_units : list (str * (dimension * Q)) :=
  [ ("None", (D_Unitless, 1)); ("Count", (D_Plain, 1)); ("Percent", (D_Plain, 1));
    ("Seconds", (D_Time, 1)); ("Milliseconds", (D_Time, 1 # 1000)); ("Microseconds", (D_Time, 1 # 1000000));
    ("Bytes", (D_Data, 8)); ("Kilobytes", (D_Data, 8000)); ("Megabytes", (D_Data, 8000000));
    ("Gigabytes", (D_Data, 8000000000)); ("Terabytes", (D_Data, 8000000000000));
    ("Bits", (D_Data, 1)); ("Kilobits", (D_Data, 1000)); ("Megabits", (D_Data, 1000000));
    ("Gigabits", (D_Data, 1000000000)); ("Terabits", (D_Data, 1000000000000));
    ("Bytes/Second", (D_Data, 8)); ("Kilobytes/Second", (D_Data, 8000)); ("Megabytes/Second", (D_Data, 8000000));
    ("Gigabytes/Second", (D_Data, 8000000000)); ("Terabytes/Second", (D_Data, 8000000000000));
    ("Bits/Second", (D_Data, 1)); ("Kilobits/Second", (D_Data, 1000)); ("Megabits/Second", (D_Data, 1000000));
    ("Gigabits/Second", (D_Data, 1000000000)); ("Terabits/Second", (D_Data, 1000000000000)) ].

(* the unit each Rust tag type declares, by the type's identifier *)
Definition declared_names : list (str * str) :=
  [ ("None", "None"); ("Count", "Count"); ("Percent", "Percent");
    ("Second", "Seconds"); ("Millisecond", "Milliseconds"); ("Microsecond", "Microseconds");
    ("Byte", "Bytes"); ("Kilobyte", "Kilobytes"); ("Megabyte", "Megabytes"); ("Gigabyte", "Gigabytes"); ("Terabyte", "Terabytes");
    ("Bit", "Bits"); ("Kilobit", "Kilobits"); ("Megabit", "Megabits"); ("Gigabit", "Gigabits"); ("Terabit", "Terabits");
    ("BytePerSecond", "Bytes/Second"); ("KilobytePerSecond", "Kilobytes/Second"); ("MegabytePerSecond", "Megabytes/Second");
    ("GigabytePerSecond", "Gigabytes/Second"); ("TerabytePerSecond", "Terabytes/Second");
    ("BitPerSecond", "Bits/Second"); ("KilobitPerSecond", "Kilobits/Second"); ("MegabitPerSecond", "Megabits/Second");
    ("GigabitPerSecond", "Gigabits/Second"); ("TerabitPerSecond", "Terabits/Second") ].

Fixpoint lookup {V : Type} (k : str) (l : list (str * V)) : option V :=
  match l with
  | [] => None
  | (k', v) :: r => if str_eqb k k' then Some v else lookup k r
  end.

(* the name the declared tag promises; "?" for a tag the specification does not know *)
Definition spec_name_of_tag (t : tag) : str :=
  match lookup (tag_ident t) declared_names with Some n => n | None => "?" end.

(* the CloudWatch name of a unit value: that of the tag which declares it; a custom unit prints its own string *)
Definition cloudwatch_name (u : unit_) : str :=
  match find (fun t => unit_eqb (tag_unit t) u) all_tags with
  | Some t => spec_name_of_tag t
  | None => unit_name u
  end.

Definition unit_info (u : unit_) : option (dimension * Q) := lookup (cloudwatch_name u) cloudwatch_units.
(* physical size of one unit; 0 marks a unit the specification does not know (every law about it then fails) *)
Definition phys (u : unit_) : Q := match unit_info u with Some (_, q) => q | None => 0 end.
Definition dimension_of (u : unit_) : dimension := match unit_info u with Some (d, _) => d | None => D_Unknown end.

(* the documented conversion rule: a unitless value can be *declared* to be in any unit (the number is kept),
   time converts to time, data to data; nothing else *)
Definition spec_convertible (a b : unit_) : bool :=
  match dimension_of a, dimension_of b with
  | D_Unitless, D_Unknown => false
  | D_Unitless, _ => true
  | D_Time, D_Time => true
  | D_Data, D_Data => true
  | _, _ => false
  end.

(* the factor by which the *number* changes so that number x unit size stays the same quantity *)
Definition spec_ratio (a b : unit_) : Q :=
  match dimension_of a with
  | D_Unitless => 1
  | _ => phys a / phys b
  end.

(* ------------------------------------------------------------------------------------------------
   Specification of a whole value tree (syntax shared with the model): the *exact* numbers, as rationals,
   that should reach the formatter, and how many floating-point roundings the implementation is allowed
   on the way ("up to floating-point rounding").  Declaring or converting a unit never changes
   number x unit size. *)
Local Close Scope str_scope.
Local Open Scope Q_scope.

Inductive xq := XQ (q : Q) | XInf (neg : bool) | XNaN.          (* extended rational *)
Definition xq_of_f64 (x : f64) : xq :=
  match f64_to_Q x with
  | Some q => XQ q
  | None => match f64_is_inf x with Some s => XInf s | None => XNaN end
  end.
Definition xq_scale (r : Q) (x : xq) : xq :=
  match x with
  | XQ q => XQ (Qred (q * r))
  | XInf s => XInf s                 (* all ratios are positive *)
  | XNaN => XNaN
  end.

Inductive sobs :=
| SUnsigned (n : N)                          (* an integer that nothing touched stays an integer *)
| SNumber (x : xq)
| SRepeated (total : xq) (occ : N).

(* rounding allowance: [rel] roundings of relative size 2^-53 each, plus an absolute slack for results that passed
   through the subnormal range (2^-1074 per rounding there, amplified by later conversions) *)
Definition tolerance := (N * Q)%type.
Definition tol_exact : tolerance := (0%N, 0).
Definition min_subnormal : Q := Qmake 1 (Pos.pow 2 1074).
Definition tol_after_scaling (r : Q) (t : tolerance) : tolerance :=
  ((fst t + 3)%N, Qred (snd t * r + min_subnormal)).
Definition tol_max (a b : tolerance) : tolerance :=
  (N.max (fst a) (fst b), if Qle_bool (snd a) (snd b) then snd b else snd a).

Inductive sres :=
| SRNone
| SRString (s : bytes)
| SRError
| SRMetric (os : list sobs) (u : unit_) (dims : list (bytes * bytes)) (flags : option N) (tol : tolerance).

Definition sobs_of_obs (o : obs) : sobs :=
  match o with
  | OUnsigned n => SUnsigned n
  | OFloat x => SNumber (xq_of_f64 x)
  | ORepeated t n => SRepeated (xq_of_f64 t) n
  end.
Definition sobs_scale (r : Q) (o : sobs) : sobs :=
  match o with
  | SUnsigned n => SNumber (XQ (Qred (inject_Z (Z.of_N n) * r)))
  | SNumber x => SNumber (xq_scale r x)
  | SRepeated t n => SRepeated (xq_scale r t) n
  end.

Definition sres_of_vcall (c : vcall) : sres :=
  match c with
  | VNone => SRNone
  | VString s => SRString s
  | VError _ => SRError
  | VMetric os u dims fl => SRMetric (map sobs_of_obs os) u dims fl tol_exact
  end.

(* attaching unit [to] to a value that promised unit [from] *)
Definition spec_with_unit (from to : unit_) (r : sres) : sres :=
  match r with
  | SRNone => SRNone
  | SRString _ => SRError                       (* a unit on a string is an error, never a number *)
  | SRError => SRError
  | SRMetric os u dims fl k =>
      if negb (unit_eqb u from) then SRError    (* wrote another unit than promised: error, never a number *)
      else if Qeq_bool (spec_ratio from to) 1 then SRMetric os to dims fl k
      else SRMetric (map (sobs_scale (spec_ratio from to)) os) to dims fl (tol_after_scaling (spec_ratio from to) k)
  end.

Definition spec_collect (expected : unit_) (acc : option (list sobs * tolerance)) (r : sres) : option (list sobs * tolerance) :=
  match acc, r with
  | None, _ => None
  | Some a, SRNone => Some a
  | Some _, (SRString _ | SRError) => None
  | Some (os, k), SRMetric os' u dims _ k' =>
      if negb (unit_eqb u expected) then None
      else match dims with _ :: _ => None | [] => Some (os ++ os', tol_max k k') end
  end.

(* ---- a Mean fed by a sequence of record_value calls: only accepted values count ----
   A value is accepted iff it makes no call, or writes a metric in the mean's own unit without dimensions; a string,
   an error, another unit or dimensions is a validation error and must leave the mean untouched ("a validation error
   rather than a wrongly scaled number"). *)
Definition xq_add (a b : xq) : xq :=
  match a, b with
  | XNaN, _ | _, XNaN => XNaN
  | XInf s, XInf s' => if Bool.eqb s s' then XInf s else XNaN
  | XInf s, _ | _, XInf s => XInf s
  | XQ x, XQ y => XQ (Qred (x + y))
  end.
Definition xq_abs_q (a : xq) : Q := match a with XQ x => Qabs x | _ => 0 end.
Record smean := mk_smean {
  sm_sum : xq;          (* exact sum of the accepted numbers *)
  sm_abs : Q;           (* sum of their magnitudes (for the rounding allowance) *)
  sm_occ : N;           (* exact occurrences *)
  sm_adds : N;          (* additions performed *)
  sm_rel : N;           (* largest relative allowance of an accepted element *)
  sm_slack : Q          (* sum of the elements' absolute allowances *)
}.
Definition smean_zero : smean := mk_smean (XQ 0) 0 0 0 0 0.
Definition smean_add_obs (t : tolerance) (m : smean) (o : sobs) : smean :=
  let '(x, n) := match o with
                 | SUnsigned u => (XQ (inject_Z (Z.of_N u)), 1%N)
                 | SNumber x => (x, 1%N)
                 | SRepeated x n => (x, n)
                 end in
  mk_smean (xq_add (sm_sum m) x) (Qred (sm_abs m + xq_abs_q x)) (sm_occ m + n) (sm_adds m + 1)
           (N.max (sm_rel m) (fst t)) (Qred (sm_slack m + snd t)).
Definition spec_accepts (expected : unit_) (r : sres) : bool :=
  match r with
  | SRNone => true
  | SRMetric _ u dims _ _ => unit_eqb u expected && match dims with [] => true | _ => false end
  | _ => false
  end.
Definition spec_record (expected : unit_) (m : smean) (r : sres) : smean :=
  match r with
  | SRMetric os u dims _ t => if spec_accepts expected r then fold_left (smean_add_obs t) os m else m
  | _ => m
  end.
Definition smean_tolerance (m : smean) : tolerance :=
  let k := (sm_adds m + sm_rel m)%N in
  (k, Qred (inject_Z (Z.of_N (k + 1)) * Qmake 1 (Pos.pow 2 53) * sm_abs m + sm_slack m
            + inject_Z (Z.of_N (sm_adds m)) * min_subnormal)).
Definition smean_write (u : unit_) (m : smean) : sres :=
  if N.eqb (sm_occ m) 0 then SRNone else SRMetric [SRepeated (sm_sum m) (sm_occ m)] u [] None (smean_tolerance m).

Definition millis_exact (secs nanos : N) : Q :=
  Qred (inject_Z (Z.of_N secs) * 1000 + Qmake (Z.of_N nanos) 1000000).

Fixpoint spec_write (v : value) : sres :=
  match v with
  | Script _ c => sres_of_vcall c
  | PUnsigned n => SRMetric [SUnsigned n] U_None [] None tol_exact
  | PFloat x => SRMetric [SNumber (xq_of_f64 x)] U_None [] None tol_exact
  | PDuration s n => SRMetric [SNumber (XQ (millis_exact s n))] (U_Second NS_Milli) [] None (4%N, 0)
  | WithUnit v to => spec_with_unit (tag_unit (declared v)) (tag_unit to) (spec_write v)
  | Distribution e vs =>
      match vs with
      | [] => SRNone
      | _ => match fold_left (spec_collect (tag_unit e)) (map spec_write vs) (Some ([], tol_exact)) with
             | Some (os, k) => SRMetric os (tag_unit e) [] None k
             | None => SRError
             end
      end
  | MeanOf u t n => if N.eqb n 0 then SRNone else SRMetric [SRepeated (xq_of_f64 t) n] (tag_unit u) [] None tol_exact
  | MeanSeq u vs => smean_write (tag_unit u) (fold_left (spec_record (tag_unit u)) (map spec_write vs) smean_zero)
  | Opt _ None => SRNone
  | Opt _ (Some v) => spec_write v
  end.

(* which record_value calls of a MeanSeq must succeed *)
Definition spec_mean_results (u : tag) (vs : list value) : list bool :=
  map (fun v => spec_accepts (tag_unit u) (spec_write v)) vs.

(* ---- does an observed call meet the specification?  (the executable property predicate) ---- *)
Definition qmax (a b : Q) : Q := if Qle_bool a b then b else a.
Definition two_pow_neg (k : positive) : Q := Qmake 1 (Pos.pow 2 k).
Definition q_of_N (n : N) : Q := inject_Z (Z.of_N n).
(* |x - q| <= rel * 2^-53 * |q| or <= the absolute slack; a result beyond the binary64 range may be an infinity
   of the right sign *)
Definition close_enough (t : tolerance) (want : xq) (got : f64) : bool :=
  let k := fst t in
  match want with
  | XNaN => f64_is_nan got
  | XInf s => match f64_is_inf got with Some s' => Bool.eqb s s' | None => false end
  | XQ q =>
      match f64_to_Q got with
      | Some x =>
          if N.eqb k 0 then Qeq_bool x q
          else Qle_bool (Qabs (x - q)) (qmax (q_of_N k * two_pow_neg 53 * Qabs q) (snd t))
      | None =>
          match f64_is_inf got with
          | Some s => negb (N.eqb k 0) && Qle_bool (inject_Z (Z.pow_pos 2 1023)) (Qabs q)
                      && Bool.eqb s (negb (Qle_bool 0 q))
          | None => false
          end
      end
  end.

Definition obs_meets (k : tolerance) (want : sobs) (got : obs) : bool :=
  match want, got with
  | SUnsigned n, OUnsigned m => N.eqb n m
  | SNumber x, OFloat g => close_enough k x g
  | SRepeated t n, ORepeated g m => close_enough k t g && N.eqb n m
  | _, _ => false
  end.
Fixpoint all2 {X Y} (f : X -> Y -> bool) (xs : list X) (ys : list Y) : bool :=
  match xs, ys with
  | [], [] => true
  | x :: xr, y :: yr => f x y && all2 f xr yr
  | _, _ => false
  end.

(* what a recording ValueWriter saw; the unit as the name a formatter would print *)
Inductive ocall :=
| ONone | OString (s : bytes) | OError (msg : bytes)
| OMetric (os : list obs) (unit_name : str) (dims : list (bytes * bytes)) (flags : option N).

Definition nbytes_eqb (a b : bytes) : bool := all2 N.eqb a b.
Definition dims_eqb (a b : list (bytes * bytes)) : bool :=
  all2 (fun x y => nbytes_eqb (fst x) (fst y) && nbytes_eqb (snd x) (snd y)) a b.
Definition flags_eqb (a b : option N) : bool :=
  match a, b with None, None => true | Some x, Some y => N.eqb x y | _, _ => false end.

Definition meets (want : sres) (got : ocall) : bool :=
  match want, got with
  | SRNone, ONone => true
  | SRString s, OString s' => nbytes_eqb s s'
  | SRError, OError msg => negb (match msg with [] => true | _ => false end)
  | SRMetric os u dims fl k, OMetric os' name dims' fl' =>
      str_eqb (cloudwatch_name u) name && dims_eqb dims dims' && flags_eqb fl fl' && all2 (obs_meets k) os os'
  | _, _ => false
  end.
