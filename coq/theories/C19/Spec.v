(* C19 — specification: what the user is promised, written by hand and independently of the numeric tables
   and formulas that UnitsGen.v regenerates from unit.rs.  Only the *shape* of the source's enums (the names
   of the scale and unit variants) is shared; every number and every string below is the documented meaning
   (SI prefixes, 8 bits per byte, CloudWatch's unit names). *)
From Coq Require Import List ZArith NArith QArith Qabs Bool.
From MV Require Import SFloat.Str C19.UnitsGen.
Import ListNotations.
Local Open Scope Q_scope.

(* SI prefixes *)
Definition nscale_q (s : nscale) : Q :=
  match s with NS_Micro => 1 # 1000000 | NS_Milli => 1 # 1000 | NS_One => 1 end.
Definition pscale_q (s : pscale) : Q :=
  match s with
  | PS_One => 1 | PS_Kilo => 1000 | PS_Mega => 1000000 | PS_Giga => 1000000000 | PS_Tera => 1000000000000
  end.

(* physical size of one unit, in seconds / bits / bits per second; 1 for the dimensionless units *)
Definition phys (u : unit_) : Q :=
  match u with
  | U_Second s => nscale_q s
  | U_Byte s => 8 * pscale_q s
  | U_BytePerSecond s => 8 * pscale_q s
  | U_Bit s => pscale_q s
  | U_BitPerSecond s => pscale_q s
  | U_None | U_Count | U_Percent | U_Custom _ => 1
  end.

Inductive dimension := D_Unitless | D_Plain | D_Time | D_Data.
(* data and data-rate units form one family in the source (`BitTag`), as the property's quantifier says *)
Definition dimension_of (u : unit_) : dimension :=
  match u with
  | U_None => D_Unitless
  | U_Second _ => D_Time
  | U_Byte _ | U_BytePerSecond _ | U_Bit _ | U_BitPerSecond _ => D_Data
  | U_Count | U_Percent | U_Custom _ => D_Plain
  end.

(* the documented conversion rule: a unitless value can be *declared* to be in any unit (the number is kept),
   time converts to time, data to data; nothing else *)
Definition spec_convertible (a b : unit_) : bool :=
  match dimension_of a, dimension_of b with
  | D_Unitless, _ => true
  | D_Time, D_Time => true
  | D_Data, D_Data => true
  | _, _ => false
  end.

(* the factor by which the *number* changes so that number x unit size stays the same quantity *)
Definition spec_ratio (a b : unit_) : Q :=
  match dimension_of a with
  | D_Unitless => 1
  | _ => phys a / phys b
  end.

(* the names CloudWatch defines (MetricDatum.Unit) *)
Local Open Scope str_scope.
Definition pscale_prefix (s : pscale) : str :=
  match s with PS_One => "" | PS_Kilo => "Kilo" | PS_Mega => "Mega" | PS_Giga => "Giga" | PS_Tera => "Tera" end.
Definition scaled_name (s : pscale) (cap low suffix : str) : str :=
  match s with
  | PS_One => cap +++ suffix
  | _ => pscale_prefix s +++ low +++ suffix
  end.
Definition cloudwatch_name (u : unit_) : str :=
  match u with
  | U_None => "None"
  | U_Count => "Count"
  | U_Percent => "Percent"
  | U_Second NS_One => "Seconds"
  | U_Second NS_Milli => "Milliseconds"
  | U_Second NS_Micro => "Microseconds"
  | U_Byte s => scaled_name s "Bytes" "bytes" ""
  | U_Bit s => scaled_name s "Bits" "bits" ""
  | U_BytePerSecond s => scaled_name s "Bytes" "bytes" "/Second"
  | U_BitPerSecond s => scaled_name s "Bits" "bits" "/Second"
  | U_Custom n => n
  end.

(* ------------------------------------------------------------------------------------------------
   Specification of a whole value tree (syntax shared with the model): the *exact* numbers, as rationals,
   that should reach the formatter, and how many floating-point roundings the implementation is allowed
   on the way ("up to floating-point rounding").  Declaring or converting a unit never changes
   number x unit size. *)
From Flocq Require Import IEEE754.Binary IEEE754.Bits.
From MV Require Import SFloat.Defs C19.Model.
Local Close Scope str_scope.
Local Open Scope Q_scope.

Inductive xq := XQ (q : Q) | XInf (neg : bool) | XNaN.          (* extended rational *)
Definition xq_of_f64 (x : f64) : xq :=
  match f64_to_Q x with
  | Some q => XQ q
  | None => match f64_is_inf x with Some s => XInf s | None => XNaN end
  end.
Definition xq_scale (r : Q) (x : xq) : xq :=
  match x with
  | XQ q => XQ (Qred (q * r))
  | XInf s => XInf s                 (* all ratios are positive *)
  | XNaN => XNaN
  end.

Inductive sobs :=
| SUnsigned (n : N)                          (* an integer that nothing touched stays an integer *)
| SNumber (x : xq)
| SRepeated (total : xq) (occ : N).

(* rounding allowance: [rel] roundings of relative size 2^-53 each, plus an absolute slack for results that passed
   through the subnormal range (2^-1074 per rounding there, amplified by later conversions) *)
Definition tolerance := (N * Q)%type.
Definition tol_exact : tolerance := (0%N, 0).
Definition min_subnormal : Q := Qmake 1 (Pos.pow 2 1074).
Definition tol_after_scaling (r : Q) (t : tolerance) : tolerance :=
  ((fst t + 3)%N, Qred (snd t * r + min_subnormal)).
Definition tol_max (a b : tolerance) : tolerance :=
  (N.max (fst a) (fst b), if Qle_bool (snd a) (snd b) then snd b else snd a).

Inductive sres :=
| SRNone
| SRString (s : bytes)
| SRError
| SRMetric (os : list sobs) (u : unit_) (dims : list (bytes * bytes)) (flags : option N) (tol : tolerance).

Definition sobs_of_obs (o : obs) : sobs :=
  match o with
  | OUnsigned n => SUnsigned n
  | OFloat x => SNumber (xq_of_f64 x)
  | ORepeated t n => SRepeated (xq_of_f64 t) n
  end.
Definition sobs_scale (r : Q) (o : sobs) : sobs :=
  match o with
  | SUnsigned n => SNumber (XQ (Qred (inject_Z (Z.of_N n) * r)))
  | SNumber x => SNumber (xq_scale r x)
  | SRepeated t n => SRepeated (xq_scale r t) n
  end.

Definition sres_of_vcall (c : vcall) : sres :=
  match c with
  | VNone => SRNone
  | VString s => SRString s
  | VError _ => SRError
  | VMetric os u dims fl => SRMetric (map sobs_of_obs os) u dims fl tol_exact
  end.

(* attaching unit [to] to a value that promised unit [from] *)
Definition spec_with_unit (from to : unit_) (r : sres) : sres :=
  match r with
  | SRNone => SRNone
  | SRString _ => SRError                       (* a unit on a string is an error, never a number *)
  | SRError => SRError
  | SRMetric os u dims fl k =>
      if negb (unit_eqb u from) then SRError    (* wrote another unit than promised: error, never a number *)
      else if Qeq_bool (spec_ratio from to) 1 then SRMetric os to dims fl k
      else SRMetric (map (sobs_scale (spec_ratio from to)) os) to dims fl (tol_after_scaling (spec_ratio from to) k)
  end.

Definition spec_collect (expected : unit_) (acc : option (list sobs * tolerance)) (r : sres) : option (list sobs * tolerance) :=
  match acc, r with
  | None, _ => None
  | Some a, SRNone => Some a
  | Some _, (SRString _ | SRError) => None
  | Some (os, k), SRMetric os' u dims _ k' =>
      if negb (unit_eqb u expected) then None
      else match dims with _ :: _ => None | [] => Some (os ++ os', tol_max k k') end
  end.

Definition millis_exact (secs nanos : N) : Q :=
  Qred (inject_Z (Z.of_N secs) * 1000 + Qmake (Z.of_N nanos) 1000000).

Fixpoint spec_write (v : value) : sres :=
  match v with
  | Script _ c => sres_of_vcall c
  | PUnsigned n => SRMetric [SUnsigned n] U_None [] None tol_exact
  | PFloat x => SRMetric [SNumber (xq_of_f64 x)] U_None [] None tol_exact
  | PDuration s n => SRMetric [SNumber (XQ (millis_exact s n))] (U_Second NS_Milli) [] None (4%N, 0)
  | WithUnit v to => spec_with_unit (tag_unit (declared v)) (tag_unit to) (spec_write v)
  | Distribution e vs =>
      match vs with
      | [] => SRNone
      | _ => match fold_left (spec_collect (tag_unit e)) (map spec_write vs) (Some ([], tol_exact)) with
             | Some (os, k) => SRMetric os (tag_unit e) [] None k
             | None => SRError
             end
      end
  | MeanOf u t n => if N.eqb n 0 then SRNone else SRMetric [SRepeated (xq_of_f64 t) n] (tag_unit u) [] None tol_exact
  | Opt _ None => SRNone
  | Opt _ (Some v) => spec_write v
  end.

(* ---- does an observed call meet the specification?  (the executable property predicate) ---- *)
Definition qmax (a b : Q) : Q := if Qle_bool a b then b else a.
Definition two_pow_neg (k : positive) : Q := Qmake 1 (Pos.pow 2 k).
Definition q_of_N (n : N) : Q := inject_Z (Z.of_N n).
(* |x - q| <= rel * 2^-53 * |q| or <= the absolute slack; a result beyond the binary64 range may be an infinity
   of the right sign *)
Definition close_enough (t : tolerance) (want : xq) (got : f64) : bool :=
  let k := fst t in
  match want with
  | XNaN => f64_is_nan got
  | XInf s => match f64_is_inf got with Some s' => Bool.eqb s s' | None => false end
  | XQ q =>
      match f64_to_Q got with
      | Some x =>
          if N.eqb k 0 then Qeq_bool x q
          else Qle_bool (Qabs (x - q)) (qmax (q_of_N k * two_pow_neg 53 * Qabs q) (snd t))
      | None =>
          match f64_is_inf got with
          | Some s => negb (N.eqb k 0) && Qle_bool (inject_Z (Z.pow_pos 2 1023)) (Qabs q)
                      && Bool.eqb s (negb (Qle_bool 0 q))
          | None => false
          end
      end
  end.

Definition obs_meets (k : tolerance) (want : sobs) (got : obs) : bool :=
  match want, got with
  | SUnsigned n, OUnsigned m => N.eqb n m
  | SNumber x, OFloat g => close_enough k x g
  | SRepeated t n, ORepeated g m => close_enough k t g && N.eqb n m
  | _, _ => false
  end.
Fixpoint all2 {X Y} (f : X -> Y -> bool) (xs : list X) (ys : list Y) : bool :=
  match xs, ys with
  | [], [] => true
  | x :: xr, y :: yr => f x y && all2 f xr yr
  | _, _ => false
  end.

(* what a recording ValueWriter saw; the unit as the name a formatter would print *)
Inductive ocall :=
| ONone | OString (s : bytes) | OError (msg : bytes)
| OMetric (os : list obs) (unit_name : str) (dims : list (bytes * bytes)) (flags : option N).

Definition nbytes_eqb (a b : bytes) : bool := all2 N.eqb a b.
Definition dims_eqb (a b : list (bytes * bytes)) : bool :=
  all2 (fun x y => nbytes_eqb (fst x) (fst y) && nbytes_eqb (snd x) (snd y)) a b.
Definition flags_eqb (a b : option N) : bool :=
  match a, b with None, None => true | Some x, Some y => N.eqb x y | _, _ => false end.

Definition meets (want : sres) (got : ocall) : bool :=
  match want, got with
  | SRNone, ONone => true
  | SRString s, OString s' => nbytes_eqb s s'
  | SRError, OError msg => negb (match msg with [] => true | _ => false end)
  | SRMetric os u dims fl k, OMetric os' name dims' fl' =>
      str_eqb (cloudwatch_name u) name && dims_eqb dims dims' && flags_eqb fl fl' && all2 (obs_meets k) os os'
  | _, _ => false
  end.
