(* C19 — mechanism model of metrique-writer-core/src/unit.rs (Convert, WithUnit), value/primitive.rs
   (primitive values, Duration), metrique-writer/src/value/distribution.rs (Distribution, Mean) and the
   Option delegation, over the unit tables regenerated from unit.rs (UnitsGen.v).
   Floats are Flocq binary64, bit-exact. No proofs here. *)
From Coq Require Import List ZArith NArith Bool.
From Flocq Require Import Core.Core IEEE754.Binary IEEE754.BinarySingleNaN IEEE754.Bits.
From MV Require Import SFloat.Defs SFloat.Str C19.UnitsGen.
Import ListNotations.
Local Open Scope N_scope.

Definition bytes := list N.
(* ---------------------------------------------------------------- decidable equalities on the tables *)
Definition unit_eq_dec : forall a b : unit_, {a = b} + {a <> b}.
Proof. decide equality; try apply str_eq_dec; decide equality. Defined.
Definition unit_eqb (a b : unit_) : bool := if unit_eq_dec a b then true else false.
Definition tag_eq_dec : forall a b : tag, {a = b} + {a <> b}.
Proof. decide equality. Defined.
Definition tag_eqb (a b : tag) : bool := if tag_eq_dec a b then true else false.

Definition find_tag (ident : str) : option tag :=
  find (fun t => str_eqb (tag_ident t) ident) all_tags.

(* ---------------------------------------------------------------- Convert: which impls exist, RATIO *)

(* `impl Convert<b> for a` exists *)
Definition convertible (a b : tag) : bool :=
  match tag_family a, tag_family b with
  | F_Any _, _ => true
  | F_Time _, F_Time _ => true
  | F_Bit _, F_Bit _ => true
  | _, _ => false
  end.

(* how the constant is written in the source: a literal, or a quotient of two u64 constants *)
Inductive ratio_expr := RLit (n : N) | RQuot (num den : N).

Definition ratio_of (a b : tag) : option ratio_expr :=
  match tag_family a, tag_family b with
  | F_Any r, _ => Some (RLit r)
  | F_Time fa, F_Time fb => Some (if time_ratio_num_is_source then RQuot fa fb else RQuot fb fa)
  | F_Bit fa, F_Bit fb => Some (if bit_ratio_num_is_source then RQuot fa fb else RQuot fb fa)
  | _, _ => None
  end.

(* the f64 the compiler computes for the constant: `(x as f64)/(y as f64)` is one correctly rounded division *)
Definition ratio_expr_f64 (r : ratio_expr) : f64 :=
  match r with
  | RLit n => u64_as_f64 n
  | RQuot x y => f64_div (u64_as_f64 x) (u64_as_f64 y)
  end.
Definition ratio_f64 (a b : tag) : f64 :=
  match ratio_of a b with Some r => ratio_expr_f64 r | None => f64_one end.

(* ---------------------------------------------------------------- observations and Convert::convert *)
Inductive obs := OUnsigned (n : N) | OFloat (x : f64) | ORepeated (total : f64) (occ : N).

Definition convert (ratio : f64) (o : obs) : obs :=
  if f64_eq ratio f64_one then o          (* "Avoid any u64 => f64 conversions if the value doesn't change" *)
  else match o with
       | OUnsigned u => OFloat (f64_mul (u64_as_f64 u) ratio)
       | OFloat f => OFloat (f64_mul f ratio)
       | ORepeated t n => ORepeated (f64_mul t ratio) n
       end.

(* ---------------------------------------------------------------- what a Value does to its ValueWriter *)
Inductive vcall :=
| VNone                                                       (* no call at all *)
| VString (s : bytes)
| VError (msgs : list str)                                    (* ValidationError(Vec<String>) *)
| VMetric (os : list obs) (u : unit_) (dims : list (bytes * bytes)) (flags : option N).

Definition msg_unit_on_string : str := "can't apply a unit to a string value"%str.
Definition msg_dist_of_strings : str := "can't construct a distribution of strings"%str.
Definition msg_dist_dims : str := "dimensions must be added after collecting into a distribution"%str.
Definition msg_wrong_unit (promised wrote : unit_) : str :=
  ("value promised to write unit `" +++ unit_name promised +++ "` but wrote `" +++ unit_name wrote +++ "` instead")%str.

(* WithUnit<V, To>::write with V::Unit = from: the Wrapper value writer *)
Definition with_unit (from to : tag) (inner : vcall) : vcall :=
  match inner with
  | VNone => VNone
  | VString _ => VError [msg_unit_on_string]
  | VError e => VError e
  | VMetric os u dims fl =>
      if unit_eqb u (tag_unit from)
      then VMetric (map (convert (ratio_f64 from to)) os) (tag_unit to) dims fl
      else VError [msg_wrong_unit (tag_unit from) u]
  end.

(* Duration::as_secs_f64() * 1000.0 *)
Definition nanos_per_sec : N := 1000000000.
Definition duration_as_secs_f64 (secs nanos : N) : f64 :=
  f64_add (u64_as_f64 secs) (f64_div (u64_as_f64 nanos) (u64_as_f64 nanos_per_sec)).
Definition duration_millis (secs nanos : N) : f64 :=
  f64_mul (duration_as_secs_f64 secs nanos) (u64_as_f64 (reduction_factor NS_Milli)).

(* the Collector of distribution.rs: one value's call folded into (errors, observations) *)
Definition collect (expected : unit_) (acc : list str * list obs) (c : vcall) : list str * list obs :=
  match c with
  | VNone => acc
  | VString _ => (fst acc ++ [msg_dist_of_strings], snd acc)
  | VError e => (fst acc ++ e, snd acc)
  | VMetric os u dims _ =>
      if negb (unit_eqb u expected) then (fst acc ++ [msg_wrong_unit expected u], snd acc)
      else match dims with
           | _ :: _ => (fst acc ++ [msg_dist_dims], snd acc)
           | [] => (fst acc, snd acc ++ os)
           end
  end.

(* Values as a deep embedding. [Script u c] is an arbitrary `impl MetricValue<Unit = u>` whose write performs
   exactly the call c (any unit, any observations, a string, an error, nothing): every MetricValue denotes one.
   (`String`/`str` are Values but not MetricValues, so the type system keeps them out of WithUnit; a string can
   only reach the unit wrapper through a MetricValue that writes one, i.e. a Script.) *)
Inductive value :=
| Script (u : tag) (c : vcall)
| PUnsigned (n : N)                         (* u64, u32, u16, u8, bool, usize *)
| PFloat (x : f64)                          (* f64, f32 (widened by the caller) *)
| PDuration (secs nanos : N)
| WithUnit (v : value) (to : tag)
| Distribution (elem : tag) (vs : list value)   (* Distribution<V>: elem = V::Unit *)
| MeanOf (u : tag) (total : f64) (occ : N)      (* Mean<U> *)
| MeanSeq (u : tag) (vs : list value)           (* Mean::<U>::default() fed by one record_value(&v) per element *)
| Opt (elem : tag) (o : option value).          (* Option<V>: elem = V::Unit *)

(* V::Unit *)
Definition millisecond_tag : tag :=
  match find (fun t => unit_eqb (tag_unit t) (U_Second NS_Milli)) all_tags with Some t => t | None => T_None end.
Definition declared (v : value) : tag :=
  match v with
  | Script u _ => u
  | PUnsigned _ | PFloat _ => T_None
  | PDuration _ _ => millisecond_tag
  | WithUnit _ to => to
  | Distribution e _ => e
  | MeanOf u _ _ => u
  | MeanSeq u _ => u
  | Opt e _ => e
  end.

(* Mean<U>::record_value (distribution.rs): the closure handed to the Collector adds every observation of an
   accepted call to (total, occurrences) *in place*; a rejected call (string, error, another unit than U::UNIT,
   dimensions) must not reach the closure at all. *)
Definition mean_acc := (f64 * N)%type.
Definition f64_pzero : f64 := Binary.B754_zero 53 1024 false.
Definition mean_zero : mean_acc := (f64_pzero, 0).                 (* Mean::default(): total 0.0, occurrences 0 *)
Definition mean_add_obs (acc : mean_acc) (o : obs) : mean_acc :=
  match o with
  | OUnsigned u => (f64_add (fst acc) (u64_as_f64 u), snd acc + 1)   (* total += u as f64; occurrences += 1 *)
  | OFloat f => (f64_add (fst acc) f, snd acc + 1)
  | ORepeated t n => (f64_add (fst acc) t, snd acc + n)
  end.
(* one record_value call on the call the value makes: (new accumulator, Ok = [] / Err = its messages) *)
Definition record_call (expected : unit_) (acc : mean_acc) (c : vcall) : mean_acc * list str :=
  match c with
  | VNone => (acc, [])
  | VString _ => (acc, [msg_dist_of_strings])
  | VError e => (acc, e)
  | VMetric os u dims _ =>
      if negb (unit_eqb u expected) then (acc, [msg_wrong_unit expected u])
      else match dims with
           | _ :: _ => (acc, [msg_dist_dims])
           | [] => (fold_left mean_add_obs os acc, [])
           end
  end.
(* the accumulator after a sequence of calls, and the per-call results *)
Definition mean_run_calls (expected : unit_) (cs : list vcall) : mean_acc :=
  fold_left (fun acc c => fst (record_call expected acc c)) cs mean_zero.
Fixpoint mean_results_calls (expected : unit_) (acc : mean_acc) (cs : list vcall) : list (list str) :=
  match cs with
  | [] => []
  | c :: r => let rc := record_call expected acc c in snd rc :: mean_results_calls expected (fst rc) r
  end.
Definition mean_write (u : unit_) (acc : mean_acc) : vcall :=
  if N.eqb (snd acc) 0 then VNone else VMetric [ORepeated (fst acc) (snd acc)] u [] None.

Fixpoint write (v : value) : vcall :=
  match v with
  | Script _ c => c
  | PUnsigned n => VMetric [OUnsigned n] U_None [] None
  | PFloat x => VMetric [OFloat x] U_None [] None
  | PDuration s n => VMetric [OFloat (duration_millis s n)] (U_Second NS_Milli) [] None
  | WithUnit v to => with_unit (declared v) to (write v)
  | Distribution e vs =>
      match vs with
      | [] => VNone
      | _ =>
        let r := fold_left (collect (tag_unit e)) (map write vs) ([], []) in
        match fst r with
        | [] => VMetric (snd r) (tag_unit e) [] None
        | errs => VError errs
        end
      end
  | MeanOf u t n => if N.eqb n 0 then VNone else VMetric [ORepeated t n] (tag_unit u) [] None
  | MeanSeq u vs => mean_write (tag_unit u) (mean_run_calls (tag_unit u) (map write vs))
  | Opt _ None => VNone
  | Opt _ (Some v) => write v
  end.

(* Rust's type system admits the tree: every conversion has a Convert impl, element types agree *)
Fixpoint well_typed (v : value) : bool :=
  match v with
  | WithUnit v to => well_typed v && convertible (declared v) to
  | Distribution e vs => forallb (fun x => well_typed x && tag_eqb (declared x) e) vs
  | Opt e (Some v) => well_typed v && tag_eqb (declared v) e
  | MeanSeq _ vs => forallb well_typed vs           (* record_value takes any Value, whatever unit it promises *)
  | _ => true
  end.

(* the Ok / Err(messages) results of the record_value calls of a MeanSeq *)
Definition mean_results (u : tag) (vs : list value) : list (list str) :=
  mean_results_calls (tag_unit u) mean_zero (map write vs).
