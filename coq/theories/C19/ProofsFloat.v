(* C19 — the binary64 side: the RATIO constant is the correctly rounded documented ratio, and converting an
   observation preserves number x unit size up to the two roundings involved (exactly when RATIO = 1). *)
From Coq Require Import List ZArith NArith Reals QArith Qreals Lra Lia Bool.
From Flocq Require Import Core.Core Relative IEEE754.BinarySingleNaN IEEE754.Binary IEEE754.Bits.
From MV Require Import SFloat.Defs SFloat.Facts SFloat.Str C19.UnitsGen C19.Model C19.Spec C19.Proofs.
Import ListNotations.
Local Open Scope R_scope.

Lemma Q2R_q_of_n : forall n, Q2R (q_of_n n) = IZR (Z.of_N n).
Proof. intros n. unfold q_of_n, Q2R. cbn. field. Qed.

(* ---------------------------------------------------------------- one correctly rounded division *)
Lemma quot_f64_correct : forall x y : N, (0 < x <= 2 ^ 53)%N -> (0 < y <= 2 ^ 53)%N ->
  R64 (f64_div (u64_as_f64 x) (u64_as_f64 y)) = rnd64 (IZR (Z.of_N x) / IZR (Z.of_N y)) /\
  Binary.is_finite 53 1024 (f64_div (u64_as_f64 x) (u64_as_f64 y)) = true.
Proof.
  intros x y Hx Hy. destruct (u64_as_f64_exact x ltac:(lia)) as [XV XF]. destruct (u64_as_f64_exact y ltac:(lia)) as [YV YF].
  assert (Ypos : 0 < IZR (Z.of_N y)) by (apply IZR_lt; lia).
  assert (Xpos : 0 < IZR (Z.of_N x)) by (apply IZR_lt; lia).
  assert (NZ : R64 (u64_as_f64 y) <> 0) by (rewrite YV; lra).
  pose proof (Binary.Bdiv_correct 53 1024 (eq_refl _) (eq_refl _) binop_nan_pl64 mode_NE (u64_as_f64 x) (u64_as_f64 y) NZ) as C.
  cbn [round_mode] in C. change (SpecFloat.fexp 53 1024) with fmt64 in C. rewrite XV, YV in C.
  assert (B : Rabs (rnd64 (IZR (Z.of_N x) / IZR (Z.of_N y))) < bpow radix2 1024).
  { apply Rle_lt_trans with (bpow radix2 53); [|apply bpow_lt; lia].
    apply abs_round_le_generic; [apply FLT_exp_valid; reflexivity | apply valid_rnd_N | |].
    - apply generic_format_bpow. unfold FLT_exp. lia.
    - rewrite Rabs_pos_eq by (apply Rlt_le, Rdiv_lt_0_compat; lra).
      apply Rle_trans with (IZR (Z.of_N x) / 1).
      + unfold Rdiv. apply Rmult_le_compat_l; [lra|]. apply Rinv_le_contravar; [lra|].
        change 1 with (IZR 1). apply IZR_le. lia.
      + unfold Rdiv. rewrite Rinv_1, Rmult_1_r. change (bpow radix2 53) with (IZR (2 ^ 53)). apply IZR_le. lia. }
  rewrite (Rlt_bool_true _ _ B) in C. destruct C as (C1 & C2 & _). unfold f64_div, b64_div.
  split; [exact C1 | rewrite C2; exact XF].
Qed.

(* every constant in the tables is built from integers below 2^53 *)
Definition expr_small (r : ratio_expr) : bool :=
  match r with
  | RLit n => (0 <? n)%N && (n <=? 2 ^ 53)%N
  | RQuot x y => (0 <? x)%N && (x <=? 2 ^ 53)%N && (0 <? y)%N && (y <=? 2 ^ 53)%N
  end.
Definition chk_small a b := match ratio_of a b with Some r => expr_small r | None => negb (convertible a b) end.
Lemma all_chk_small : forall a b, chk_small a b = true.
Proof. apply sweep2. vm_compute. reflexivity. Qed.

Lemma ratio_expr_f64_correct : forall r, expr_small r = true ->
  R64 (ratio_expr_f64 r) = rnd64 (Q2R (ratio_expr_q r)) /\ Binary.is_finite 53 1024 (ratio_expr_f64 r) = true.
Proof.
  intros [n|x y] H; cbn [expr_small ratio_expr_f64 ratio_expr_q] in *.
  - apply andb_prop in H. destruct H as [H1 H2]. apply N.ltb_lt in H1. apply N.leb_le in H2.
    destruct (u64_as_f64_exact n H2) as [V F]. split; [|exact F]. rewrite V, Q2R_q_of_n.
    symmetry. apply round_generic; [apply valid_rnd_N|]. apply (format_Z 53 1024 (eq_refl _) (eq_refl _)). lia.
  - apply andb_prop in H. destruct H as [H H4]. apply andb_prop in H. destruct H as [H H3]. apply andb_prop in H. destruct H as [H1 H2].
    apply N.ltb_lt in H1, H3. apply N.leb_le in H2, H4.
    destruct (quot_f64_correct x y ltac:(lia) ltac:(lia)) as [V F]. split; [|exact F]. rewrite V. f_equal.
    unfold Qdiv. rewrite Q2R_mult, Q2R_inv, !Q2R_q_of_n; [reflexivity|].
    unfold q_of_n. intros E. apply Qeq_bool_iff in E. cbn in E. unfold Qeq_bool, Zeq_bool in E. cbn in E.
    destruct (Z.of_N y) eqn:Ey; try discriminate. lia.
Qed.

(* the constant of every Convert impl is the correctly rounded binary64 of the rational the source denotes ... *)
Theorem ratio_f64_correct : forall a b, convertible a b = true ->
  R64 (ratio_f64 a b) = rnd64 (Q2R (ratio_q a b)) /\ Binary.is_finite 53 1024 (ratio_f64 a b) = true.
Proof.
  intros a b H. pose proof (all_chk_small a b) as S. unfold chk_small, ratio_f64, ratio_q in *.
  destruct (ratio_of a b) as [r|].
  - apply ratio_expr_f64_correct. exact S.
  - rewrite H in S. discriminate.
Qed.

(* ... hence of the documented ratio of unit sizes *)
Theorem ratio_f64_is_rounded_spec : forall a b, convertible a b = true ->
  R64 (ratio_f64 a b) = rnd64 (Q2R (spec_ratio (tag_unit a) (tag_unit b))).
Proof.
  intros a b H. destruct (ratio_f64_correct a b H) as [V _]. rewrite V. f_equal.
  apply Qeq_eqR. apply ratio_is_spec. exact H.
Qed.

Lemma spec_ratio_pos : forall a b, convertible a b = true -> 0 < Q2R (spec_ratio (tag_unit a) (tag_unit b)).
Proof.
  intros a b H. rewrite <- (Qeq_eqR _ _ (ratio_is_spec a b H)).
  replace 0 with (Q2R 0) by (unfold Q2R; cbn; field). apply Qlt_Rlt. apply ratio_positive.
Qed.

(* every documented ratio is 1, at least 2, or at most 1/2 (so rounding cannot confuse it with 1) *)
Definition chk_one a b :=
  implb (convertible a b)
        (let rho := spec_ratio (tag_unit a) (tag_unit b) in (Qeq_bool rho 1 || (Qle_bool 2 rho || Qle_bool rho (1 # 2)))%bool).
Lemma all_chk_one : forall a b, chk_one a b = true.
Proof. apply sweep2. vm_compute. reflexivity. Qed.

(* every documented ratio is far inside the normal range of binary64 *)
Definition chk_normal a b :=
  implb (convertible a b) (Qle_bool (1 # 2 ^ 60) (spec_ratio (tag_unit a) (tag_unit b))).
Lemma all_chk_normal : forall a b, chk_normal a b = true.
Proof. apply sweep2. vm_compute. reflexivity. Qed.

(* ---------------------------------------------------------------- converting one number *)
Section Convert.
  Variables a b : tag.
  Hypothesis Hconv : convertible a b = true.
  Let rho := Q2R (spec_ratio (tag_unit a) (tag_unit b)).      (* the exact documented factor *)
  Let r := ratio_f64 a b.

  Lemma r_props : R64 r = rnd64 rho /\ Binary.is_finite 53 1024 r = true /\ 0 < rho.
  Proof.
    split; [apply ratio_f64_is_rounded_spec; exact Hconv|]. split; [apply ratio_f64_correct; exact Hconv|].
    apply spec_ratio_pos. exact Hconv.
  Qed.

  Lemma one_value : R64 f64_one = 1 /\ Binary.is_finite 53 1024 f64_one = true.
  Proof. unfold f64_one. destruct (u64_as_f64_exact 1 ltac:(lia)) as [A B]. split; [rewrite A; reflexivity|exact B]. Qed.

  (* RATIO == 1.0 in the code <-> the documented factor is exactly 1 ... *)
  Lemma ratio_is_one_iff : f64_eq r f64_one = true <-> rho = 1.
  Proof.
    destruct r_props as (RV & RF & RP). destruct one_value as [OV OF].
    rewrite (f64_eq_correct r f64_one RF OF), RV, OV. split; intros H.
    - (* all ratios are integers or reciprocals of integers below 2^53, so rounding cannot produce 1 from rho <> 1;
         argued through the sweep below *)
      revert H. unfold rho.
      generalize (all_chk_one a b). unfold chk_one. rewrite Hconv. cbn [implb]. cbv zeta.
      intros S H. destruct (Qeq_bool (spec_ratio (tag_unit a) (tag_unit b)) 1) eqn:E.
      + apply Qeq_bool_iff in E. apply Qeq_eqR in E. rewrite E. unfold Q2R. cbn. field.
      + exfalso. cbn [orb] in S.
        (* rho >= 2 or rho <= 1/2 *)
        apply orb_prop in S. destruct S as [S|S]; apply Qle_bool_iff in S; apply Qle_Rle in S.
        * assert (2 <= rnd64 (Q2R (spec_ratio (tag_unit a) (tag_unit b)))).
          { apply round_ge_generic; [apply FLT_exp_valid; reflexivity | apply valid_rnd_N | |].
            - change 2 with (bpow radix2 1). apply generic_format_bpow. unfold FLT_exp. lia.
            - replace 2 with (Q2R 2) by (unfold Q2R; cbn; field). exact S. }
          lra.
        * assert (rnd64 (Q2R (spec_ratio (tag_unit a) (tag_unit b))) <= / 2).
          { apply round_le_generic; [apply FLT_exp_valid; reflexivity | apply valid_rnd_N | |].
            - change (/ 2) with (bpow radix2 (-1)). apply generic_format_bpow. unfold FLT_exp. lia.
            - replace (/ 2) with (Q2R (1 # 2)) by (unfold Q2R; cbn; field). exact S. }
          lra.
    - rewrite H. apply round_generic; [apply valid_rnd_N|]. change 1 with (bpow radix2 0). apply generic_format_bpow. unfold FLT_exp. lia.
  Qed.

  (* ... and then the observation is handed on untouched (no u64 -> f64 conversion, no multiplication) *)
  Theorem convert_identity : rho = 1 -> forall o, convert r o = o.
  Proof. intros H o. unfold convert. apply ratio_is_one_iff in H. rewrite H. reflexivity. Qed.

  (* otherwise every kind of observation is multiplied by the constant, in binary64 *)
  Theorem convert_scales : rho <> 1 -> forall o,
    convert r o = match o with
                  | OUnsigned u => OFloat (f64_mul (u64_as_f64 u) r)
                  | OFloat f => OFloat (f64_mul f r)
                  | ORepeated t n => ORepeated (f64_mul t r) n
                  end.
  Proof.
    intros H o. unfold convert. destruct (f64_eq r f64_one) eqn:E; [|reflexivity].
    apply ratio_is_one_iff in E. contradiction.
  Qed.

  Lemma rho_normal : bpow radix2 (-1022) <= Rabs rho.
  Proof.
    destruct r_props as (_ & _ & RP). rewrite Rabs_pos_eq by lra.
    generalize (all_chk_normal a b). unfold chk_normal. rewrite Hconv. cbn [implb]. intros S.
    apply Qle_bool_iff in S. apply Qle_Rle in S. fold rho in S.
    apply Rle_trans with (bpow radix2 (-60)); [apply bpow_le; lia|].
    replace (bpow radix2 (-60)) with (Q2R (1 # 2 ^ 60)); [exact S|].
    unfold Q2R. cbn [Qnum Qden]. change (bpow radix2 (-60)) with (/ IZR (Z.pow_pos 2 60)). rewrite Rmult_1_l. reflexivity.
  Qed.

  Lemma rho_rounding : Rabs (rnd64 rho - rho) <= bpow radix2 (-53) * Rabs rho.
  Proof.
    pose proof (relative_error_N_FLT radix2 (-1074) 53 ltac:(lia) (fun x => negb (Z.even x)) rho rho_normal) as H.
    replace (bpow radix2 (-53)) with (/ 2 * bpow radix2 (-53 + 1)); [exact H|].
    change (-53 + 1)%Z with (1 + -53)%Z. rewrite bpow_plus. change (bpow radix2 1) with 2. field.
  Qed.

  (* the product as computed: one correctly rounded multiplication by the correctly rounded constant *)
  Theorem scaled_value : forall x : f64, Binary.is_finite 53 1024 x = true ->
    Rabs (rnd64 (R64 x * rnd64 rho)) < bpow radix2 1024 ->
    R64 (f64_mul x r) = rnd64 (R64 x * rnd64 rho) /\ Binary.is_finite 53 1024 (f64_mul x r) = true.
  Proof.
    intros x F B. destruct r_props as (RV & RF & _).
    pose proof (Binary.Bmult_correct 53 1024 (eq_refl _) (eq_refl _) binop_nan_pl64 mode_NE x r) as C.
    cbn [round_mode] in C. change (SpecFloat.fexp 53 1024) with fmt64 in C. rewrite RV in C.
    rewrite (Rlt_bool_true _ _ B) in C. destruct C as (C1 & C2 & _). unfold f64_mul, b64_mult.
    split; [exact C1 | rewrite C2, F, RF; reflexivity].
  Qed.

  (* quantity preserved up to the two roundings: |emitted - original * rho| <= (2^-52 + 2^-106) |original * rho|,
     for results in the normal range *)
  Theorem scaled_error : forall x : f64, Binary.is_finite 53 1024 x = true ->
    Rabs (rnd64 (R64 x * rnd64 rho)) < bpow radix2 1024 ->
    bpow radix2 (-1022) <= Rabs (R64 x * rnd64 rho) ->
    Rabs (R64 (f64_mul x r) - R64 x * rho) <= (bpow radix2 (-52) + bpow radix2 (-106)) * Rabs (R64 x * rho).
  Proof.
    intros x F B N. destruct (scaled_value x F B) as [V _]. rewrite V.
    destruct r_props as (_ & _ & RP).
    pose proof rho_rounding as E1.
    pose proof (relative_error_N_FLT radix2 (-1074) 53 ltac:(lia) (fun x => negb (Z.even x)) (R64 x * rnd64 rho) N) as E2.
    set (X := R64 x) in *. set (rr := rnd64 rho) in *.
    set (u := bpow radix2 (-53)) in *.
    assert (U : / 2 * bpow radix2 (Z.opp 53 + 1) = u).
    { unfold u. change (Z.opp 53 + 1)%Z with (1 + -53)%Z. rewrite bpow_plus. change (bpow radix2 1) with 2. field. }
    rewrite U in E2.
    assert (U2 : bpow radix2 (-52) + bpow radix2 (-106) = u + u * (1 + u)).
    { unfold u. change (-52)%Z with (1 + -53)%Z. change (-106)%Z with (-53 + -53)%Z. rewrite !bpow_plus. change (bpow radix2 1) with 2. ring. }
    rewrite U2.
    assert (Upos : 0 < u) by apply bpow_gt_0.
    rewrite (Rabs_pos_eq rho) in E1 by lra.
    (* |rr| <= rho (1 + u) *)
    assert (RR : Rabs rr <= rho * (1 + u)).
    { replace rr with ((rr - rho) + rho) by ring. eapply Rle_trans; [apply Rabs_triang|]. rewrite (Rabs_pos_eq rho) by lra. lra. }
    replace (rnd64 (X * rr) - X * rho) with ((rnd64 (X * rr) - X * rr) + X * (rr - rho)) by ring.
    eapply Rle_trans; [apply Rabs_triang|].
    rewrite !Rabs_mult in *. rewrite (Rabs_pos_eq rho) by lra.
    assert (AX : 0 <= Rabs X) by apply Rabs_pos.
    assert (T1 : Rabs (rnd64 (X * rr) - X * rr) <= u * (Rabs X * (rho * (1 + u)))).
    { eapply Rle_trans; [exact E2|]. apply Rmult_le_compat_l; [lra|]. apply Rmult_le_compat_l; assumption. }
    assert (T2 : Rabs X * Rabs (rr - rho) <= Rabs X * (u * rho)) by (apply Rmult_le_compat_l; assumption).
    nra.
  Qed.
End Convert.

(* every documented ratio is at most 2^60 *)
Definition chk_upper a b :=
  implb (convertible a b) (Qle_bool (spec_ratio (tag_unit a) (tag_unit b)) (inject_Z (2 ^ 60))).
Lemma all_chk_upper : forall a b, chk_upper a b = true.
Proof. apply sweep2. vm_compute. reflexivity. Qed.

(* the same bound with premises on the observation only: any finite number of moderate magnitude *)
Theorem scaled_error_moderate : forall a b, convertible a b = true ->
  forall x : f64, Binary.is_finite 53 1024 x = true ->
  bpow radix2 (-900) <= Rabs (R64 x) <= bpow radix2 900 ->
  let rho := Q2R (spec_ratio (tag_unit a) (tag_unit b)) in
  Rabs (R64 (f64_mul x (ratio_f64 a b)) - R64 x * rho) <= (bpow radix2 (-52) + bpow radix2 (-106)) * Rabs (R64 x * rho).
Proof.
  intros a b H x F [XL XU] rho.
  destruct (r_props a b H) as (_ & _ & RP). fold rho in RP.
  assert (RL : bpow radix2 (-60) <= rho).
  { generalize (all_chk_normal a b). unfold chk_normal. rewrite H. cbn [implb]. intros S.
    apply Qle_bool_iff in S. apply Qle_Rle in S. fold rho in S.
    replace (bpow radix2 (-60)) with (Q2R (1 # 2 ^ 60)); [exact S|].
    unfold Q2R. cbn [Qnum Qden]. change (bpow radix2 (-60)) with (/ IZR (Z.pow_pos 2 60)). rewrite Rmult_1_l. reflexivity. }
  assert (RU : rho <= bpow radix2 60).
  { generalize (all_chk_upper a b). unfold chk_upper. rewrite H. cbn [implb]. intros S.
    apply Qle_bool_iff in S. apply Qle_Rle in S. fold rho in S.
    replace (bpow radix2 60) with (Q2R (inject_Z (2 ^ 60))); [exact S|].
    unfold Q2R, inject_Z. cbn [Qnum Qden]. change (bpow radix2 60) with (IZR (2 ^ 60)). field. }
  (* the rounded constant stays within [2^-60, 2^60] *)
  assert (RRL : bpow radix2 (-60) <= rnd64 rho).
  { apply round_ge_generic; [apply FLT_exp_valid; reflexivity | apply valid_rnd_N | | exact RL].
    apply generic_format_bpow. unfold FLT_exp. lia. }
  assert (RRU : rnd64 rho <= bpow radix2 60).
  { apply round_le_generic; [apply FLT_exp_valid; reflexivity | apply valid_rnd_N | | exact RU].
    apply generic_format_bpow. unfold FLT_exp. lia. }
  assert (P60 : 0 < bpow radix2 (-60)) by apply bpow_gt_0.
  assert (PL : bpow radix2 (-960) <= Rabs (R64 x * rnd64 rho)).
  { rewrite Rabs_mult, (Rabs_pos_eq (rnd64 rho)) by lra.
    change (-960)%Z with (-900 + -60)%Z. rewrite bpow_plus.
    apply Rmult_le_compat; try assumption; apply Rlt_le, bpow_gt_0. }
  assert (PU : Rabs (R64 x * rnd64 rho) <= bpow radix2 960).
  { rewrite Rabs_mult, (Rabs_pos_eq (rnd64 rho)) by lra.
    change 960%Z with (900 + 60)%Z. rewrite bpow_plus.
    apply Rmult_le_compat; try assumption; [apply Rabs_pos | lra]. }
  apply scaled_error; try assumption.
  - apply Rle_lt_trans with (bpow radix2 960); [|apply bpow_lt; lia].
    apply abs_round_le_generic; [apply FLT_exp_valid; reflexivity | apply valid_rnd_N | | exact PU].
    apply generic_format_bpow. unfold FLT_exp. lia.
  - apply Rle_trans with (bpow radix2 (-960)); [apply bpow_le; lia | exact PL].
Qed.

(* discharging the premises for a concrete float through its rational value *)
Lemma f64_moderate_by_Q : forall (x : f64) (q : Q), f64_to_Q x = Some q ->
  Qle_bool (1 # 2 ^ 900) (Qabs.Qabs q) = true -> Qle_bool (Qabs.Qabs q) (inject_Z (2 ^ 900)) = true ->
  Binary.is_finite 53 1024 x = true /\ bpow radix2 (-900) <= Rabs (R64 x) <= bpow radix2 900.
Proof.
  intros x q HQ L U. destruct (f64_to_Q_correct x q HQ) as [V F]. split; [exact F|].
  apply Qle_bool_iff in L. apply Qle_bool_iff in U. apply Qle_Rle in L. apply Qle_Rle in U.
  assert (A : Q2R (Qabs.Qabs q) = Rabs (R64 x)).
  { rewrite <- V. unfold Qabs.Qabs. destruct q as [n d]. unfold Q2R. cbn [Qnum Qden].
    rewrite abs_IZR. unfold Rdiv. rewrite Rabs_mult. f_equal. symmetry. apply Rabs_pos_eq.
    apply Rlt_le, Rinv_0_lt_compat. apply IZR_lt. reflexivity. }
  rewrite A in L, U. split.
  - replace (bpow radix2 (-900)) with (Q2R (1 # 2 ^ 900)); [exact L|].
    unfold Q2R. cbn [Qnum Qden]. change (bpow radix2 (-900)) with (/ IZR (Z.pow_pos 2 900)). rewrite Rmult_1_l. reflexivity.
  - replace (bpow radix2 900) with (Q2R (inject_Z (2 ^ 900))); [exact U|].
    unfold Q2R, inject_Z. cbn [Qnum Qden]. change (bpow radix2 900) with (IZR (2 ^ 900)). field.
Qed.
