(* C19 — theorems over the unit tables regenerated from unit.rs (UnitsGen.v): they are re-checked against
   what the source says on every run.  The [tag], [nscale], [pscale] types are finite, so the laws are proved by
   exhaustive case analysis (boolean sweep evaluated by vm_compute, lifted through completeness of [all_tags]). *)
From Coq Require Import List ZArith NArith QArith Bool Lia.
From MV Require Import SFloat.Defs SFloat.Str C19.UnitsGen C19.Model C19.Spec.
Import ListNotations.
Local Open Scope Q_scope.

(* ---------------------------------------------------------------- the enumerations are complete *)
Lemma all_tags_complete : forall t : tag, In t all_tags.
Proof. destruct t; vm_compute; tauto. Qed.
Lemma all_nscale_complete : forall s : nscale, In s all_nscale.
Proof. destruct s; vm_compute; tauto. Qed.
Lemma all_pscale_complete : forall s : pscale, In s all_pscale.
Proof. destruct s; vm_compute; tauto. Qed.

Lemma sweep1 : forall P : tag -> bool, forallb P all_tags = true -> forall t, P t = true.
Proof. intros P H t. rewrite forallb_forall in H. apply H, all_tags_complete. Qed.
Lemma sweep2 : forall P : tag -> tag -> bool,
  forallb (fun a => forallb (P a) all_tags) all_tags = true -> forall a b, P a b = true.
Proof. intros P H a b. apply (sweep1 (P a)). apply (sweep1 (fun a => forallb (P a) all_tags) H). Qed.
Lemma sweep3 : forall P : tag -> tag -> tag -> bool,
  forallb (fun a => forallb (fun b => forallb (P a b) all_tags) all_tags) all_tags = true -> forall a b c, P a b c = true.
Proof.
  intros P H a b c. apply (sweep1 (P a b)).
  apply (sweep2 (fun a b => forallb (P a b) all_tags) H).
Qed.

(* ---------------------------------------------------------------- the rational the source's constant denotes *)
Definition q_of_n (n : N) : Q := inject_Z (Z.of_N n).
Definition ratio_expr_q (r : ratio_expr) : Q :=
  match r with RLit n => q_of_n n | RQuot x y => q_of_n x / q_of_n y end.
Definition ratio_q (a b : tag) : Q :=
  match ratio_of a b with Some r => ratio_expr_q r | None => 1 end.

Definition unitless_source (a : tag) : bool := match tag_family a with F_Any _ => true | _ => false end.

(* boolean sweeps, each evaluated once by vm_compute over all 26 x 26 (x 26) tags *)
Definition chk_convertible a b := Bool.eqb (convertible a b) (spec_convertible (tag_unit a) (tag_unit b)).
Definition chk_ratio a b := implb (convertible a b) (Qeq_bool (ratio_q a b) (spec_ratio (tag_unit a) (tag_unit b))).
Definition chk_quantity a b :=
  implb (convertible a b && negb (unitless_source a)) (Qeq_bool (ratio_q a b * phys (tag_unit b)) (phys (tag_unit a))).
Definition chk_declare a b := implb (convertible a b && unitless_source a) (Qeq_bool (ratio_q a b) 1).
Definition chk_positive a b := negb (Qle_bool (ratio_q a b) 0).
Definition chk_inverse a b := implb (convertible a b && convertible b a) (Qeq_bool (ratio_q a b * ratio_q b a) 1).
Definition chk_compose a b c :=
  implb (convertible a b && convertible b c && negb (unitless_source a))
        (convertible a c && Qeq_bool (ratio_q a b * ratio_q b c) (ratio_q a c)).
Definition chk_self a := implb (convertible a a) (Qeq_bool (ratio_q a a) 1).
Definition chk_names a b := implb (str_eqb (unit_name (tag_unit a)) (unit_name (tag_unit b))) (tag_eqb a b).

Lemma all_chk_convertible : forall a b, chk_convertible a b = true.
Proof. apply sweep2. vm_compute. reflexivity. Qed.
Lemma all_chk_ratio : forall a b, chk_ratio a b = true.
Proof. apply sweep2. vm_compute. reflexivity. Qed.
Lemma all_chk_quantity : forall a b, chk_quantity a b = true.
Proof. apply sweep2. vm_compute. reflexivity. Qed.
Lemma all_chk_declare : forall a b, chk_declare a b = true.
Proof. apply sweep2. vm_compute. reflexivity. Qed.
Lemma all_chk_positive : forall a b, chk_positive a b = true.
Proof. apply sweep2. vm_compute. reflexivity. Qed.
Lemma all_chk_inverse : forall a b, chk_inverse a b = true.
Proof. apply sweep2. vm_compute. reflexivity. Qed.
Lemma all_chk_compose : forall a b c, chk_compose a b c = true.
Proof. apply sweep3. vm_compute. reflexivity. Qed.
Lemma all_chk_self : forall a, chk_self a = true.
Proof. apply sweep1. vm_compute. reflexivity. Qed.
Lemma all_chk_names : forall a b, chk_names a b = true.
Proof. apply sweep2. vm_compute. reflexivity. Qed.

(* which conversions exist is exactly the documented dimension rule *)
Lemma convertible_is_spec : forall a b, convertible a b = spec_convertible (tag_unit a) (tag_unit b).
Proof. intros a b. apply eqb_prop. apply all_chk_convertible. Qed.

(* RATIO, as a rational, is the documented factor: the quotient of the unit sizes, or 1 when a unitless number is
   declared to be in a unit *)
Lemma ratio_is_spec : forall a b, convertible a b = true ->
  ratio_q a b == spec_ratio (tag_unit a) (tag_unit b).
Proof.
  intros a b H. apply Qeq_bool_eq. generalize (all_chk_ratio a b). unfold chk_ratio. rewrite H. trivial.
Qed.

(* quantity preservation in its direct form: (number x RATIO) x size of the new unit = number x size of the old *)
Lemma ratio_preserves_quantity : forall a b, convertible a b = true -> unitless_source a = false ->
  forall x : Q, (x * ratio_q a b) * phys (tag_unit b) == x * phys (tag_unit a).
Proof.
  intros a b H NA x.
  assert (E : ratio_q a b * phys (tag_unit b) == phys (tag_unit a)).
  { apply Qeq_bool_eq. generalize (all_chk_quantity a b). unfold chk_quantity. rewrite H, NA. trivial. }
  rewrite <- Qmult_assoc, E. reflexivity.
Qed.

(* declaring a unit on a unitless value keeps the number *)
Lemma declare_keeps_number : forall a b, convertible a b = true -> unitless_source a = true -> ratio_q a b == 1.
Proof.
  intros a b H U. apply Qeq_bool_eq. generalize (all_chk_declare a b). unfold chk_declare. rewrite H, U. trivial.
Qed.

Lemma ratio_positive : forall a b, 0 < ratio_q a b.
Proof.
  intros a b. generalize (all_chk_positive a b). unfold chk_positive. intros S.
  destruct (Qlt_le_dec 0 (ratio_q a b)) as [L|L]; [exact L|].
  apply Qle_bool_iff in L. rewrite L in S. discriminate.
Qed.

Lemma ratio_inverse : forall a b, convertible a b = true -> convertible b a = true ->
  ratio_q a b * ratio_q b a == 1.
Proof.
  intros a b H1 H2. apply Qeq_bool_eq. generalize (all_chk_inverse a b). unfold chk_inverse. rewrite H1, H2. trivial.
Qed.

Lemma ratio_compose : forall a b c, convertible a b = true -> convertible b c = true -> unitless_source a = false ->
  convertible a c = true /\ ratio_q a b * ratio_q b c == ratio_q a c.
Proof.
  intros a b c H1 H2 NA. generalize (all_chk_compose a b c). unfold chk_compose. rewrite H1, H2, NA.
  cbn [andb implb negb]. intros S. apply andb_prop in S. destruct S as [S1 S2].
  split; [exact S1 | apply Qeq_bool_eq; exact S2].
Qed.

Lemma ratio_self : forall a, convertible a a = true -> ratio_q a a == 1.
Proof.
  intros a H. apply Qeq_bool_eq. generalize (all_chk_self a). unfold chk_self. rewrite H. trivial.
Qed.

(* ---------------------------------------------------------------- names *)
(* every tag's unit prints the name its Rust identifier promises (CloudWatch's), and that name is one CloudWatch
   defines *)
Definition chk_tag_name t :=
  str_eqb (unit_name (tag_unit t)) (spec_name_of_tag t)
  && match lookup (spec_name_of_tag t) cloudwatch_units with Some _ => true | None => false end
  && str_eqb (cloudwatch_name (tag_unit t)) (spec_name_of_tag t).
Lemma all_chk_tag_name : forall t, chk_tag_name t = true.
Proof. apply sweep1. vm_compute. reflexivity. Qed.
Lemma name_is_cloudwatch : forall t : tag,
  unit_name (tag_unit t) = spec_name_of_tag t /\ cloudwatch_name (tag_unit t) = spec_name_of_tag t /\
  exists info, lookup (spec_name_of_tag t) cloudwatch_units = Some info.
Proof.
  intros t. generalize (all_chk_tag_name t). unfold chk_tag_name. intros H.
  apply andb_prop in H. destruct H as [H H3]. apply andb_prop in H. destruct H as [H1 H2].
  apply str_eqb_eq in H1. apply str_eqb_eq in H3. repeat split; try assumption.
  destruct (lookup (spec_name_of_tag t) cloudwatch_units) as [i|]; [exists i; reflexivity|discriminate].
Qed.
(* a custom unit prints its own string *)
Lemma custom_name : forall n, unit_name (U_Custom n) = n /\ cloudwatch_name (U_Custom n) = n.
Proof. intros n. split; reflexivity. Qed.

Lemma names_distinct : forall a b : tag, unit_name (tag_unit a) = unit_name (tag_unit b) -> a = b.
Proof.
  intros a b H. generalize (all_chk_names a b). unfold chk_names.
  rewrite H, str_eqb_refl. cbn [implb]. unfold tag_eqb. destruct (tag_eq_dec a b); [trivial|discriminate].
Qed.

(* the translated shape of Convert::convert is the one Model.convert mirrors *)
Lemma convert_body_unchanged : convert_body_as_modelled = true.
Proof. reflexivity. Qed.
