(* C19 — the value-tree mechanism (WithUnit / Distribution / Mean / Option / Duration / primitives) refines the
   specification in everything but the floating-point digits: which call is made (nothing / string / error /
   metric), the unit, the dimensions and flags, the number and kind of observations, integers that stay integers,
   occurrences.  The digits are covered by ProofsFloat (per conversion). *)
From Coq Require Import List ZArith NArith Reals QArith Qreals Lra Lia Bool.
From Flocq Require Import Core.Core IEEE754.Binary IEEE754.Bits.
From MV Require Import SFloat.Defs SFloat.Facts SFloat.Str C19.UnitsGen C19.Model C19.Spec C19.Proofs C19.ProofsFloat.
Import ListNotations.

(* ---------------------------------------------------------------- induction over value trees *)
Section ValueInd.
  Variable P : value -> Prop.
  Hypothesis HS : forall u c, P (Script u c).
  Hypothesis HU : forall n, P (PUnsigned n).
  Hypothesis HF : forall x, P (PFloat x).
  Hypothesis HD : forall s n, P (PDuration s n).
  Hypothesis HW : forall v to, P v -> P (WithUnit v to).
  Hypothesis HDist : forall e vs, Forall P vs -> P (Distribution e vs).
  Hypothesis HM : forall u t n, P (MeanOf u t n).
  Hypothesis HMS : forall u vs, Forall P vs -> P (MeanSeq u vs).
  Hypothesis HON : forall e, P (Opt e None).
  Hypothesis HOS : forall e v, P v -> P (Opt e (Some v)).
  Fixpoint value_ind' (v : value) : P v :=
    match v with
    | Script u c => HS u c
    | PUnsigned n => HU n
    | PFloat x => HF x
    | PDuration s n => HD s n
    | WithUnit v to => HW v to (value_ind' v)
    | Distribution e vs =>
        HDist e vs ((fix go (l : list value) : Forall P l :=
                       match l with [] => Forall_nil P | x :: r => Forall_cons x (value_ind' x) (go r) end) vs)
    | MeanOf u t n => HM u t n
    | MeanSeq u vs =>
        HMS u vs ((fix go (l : list value) : Forall P l :=
                     match l with [] => Forall_nil P | x :: r => Forall_cons x (value_ind' x) (go r) end) vs)
    | Opt e None => HON e
    | Opt e (Some v) => HOS e v (value_ind' v)
    end.
End ValueInd.

(* ---------------------------------------------------------------- agreement up to the digits *)
Inductive obs_agrees : obs -> sobs -> Prop :=
| AgU : forall n, obs_agrees (OUnsigned n) (SUnsigned n)
| AgF : forall x q, obs_agrees (OFloat x) (SNumber q)
| AgR : forall t q n, obs_agrees (ORepeated t n) (SRepeated q n).

Inductive agrees : vcall -> sres -> Prop :=
| AgNone : agrees VNone SRNone
| AgString : forall s, agrees (VString s) (SRString s)
| AgError : forall msgs, agrees (VError msgs) SRError
| AgMetric : forall os sos u dims fl t, Forall2 obs_agrees os sos -> agrees (VMetric os u dims fl) (SRMetric sos u dims fl t).

Lemma unit_eqb_true : forall a b, unit_eqb a b = true <-> a = b.
Proof. intros a b. unfold unit_eqb. destruct (unit_eq_dec a b); split; intros; try assumption; try reflexivity; try discriminate; contradiction. Qed.
Lemma tag_eqb_true : forall a b, tag_eqb a b = true <-> a = b.
Proof. intros a b. unfold tag_eqb. destruct (tag_eq_dec a b); split; intros; try assumption; try reflexivity; try discriminate; contradiction. Qed.

Lemma sobs_of_obs_agrees : forall os, Forall2 obs_agrees os (map sobs_of_obs os).
Proof. induction os as [|o os IH]; cbn; constructor; [destruct o; constructor | exact IH]. Qed.

Lemma sres_of_vcall_agrees : forall c, agrees c (sres_of_vcall c).
Proof. destruct c; cbn; constructor. apply sobs_of_obs_agrees. Qed.

(* the code's `RATIO == 1.0` test and the specification's "the factor is 1" coincide *)
Lemma ratio_one_coincide : forall a b, convertible a b = true ->
  f64_eq (ratio_f64 a b) f64_one = Qeq_bool (spec_ratio (tag_unit a) (tag_unit b)) 1.
Proof.
  intros a b H. destruct (ratio_is_one_iff a b H) as [I1 I2].
  destruct (Qeq_bool (spec_ratio (tag_unit a) (tag_unit b)) 1) eqn:E.
  - apply I2. apply Qeq_bool_iff in E. apply Qeq_eqR in E. rewrite E. unfold Q2R. cbn. field.
  - destruct (f64_eq (ratio_f64 a b) f64_one) eqn:F; [|reflexivity].
    specialize (I1 eq_refl). assert (Q : (spec_ratio (tag_unit a) (tag_unit b) == 1)%Q).
    { apply eqR_Qeq. rewrite I1. unfold Q2R. cbn. field. }
    apply Qeq_bool_iff in Q. congruence.
Qed.

Lemma convert_agrees : forall a b os sos, convertible a b = true -> Forall2 obs_agrees os sos ->
  Forall2 obs_agrees (map (convert (ratio_f64 a b)) os)
    (if Qeq_bool (spec_ratio (tag_unit a) (tag_unit b)) 1 then sos else map (sobs_scale (spec_ratio (tag_unit a) (tag_unit b))) sos).
Proof.
  intros a b os sos H A. pose proof (ratio_one_coincide a b H) as E.
  destruct (Qeq_bool (spec_ratio (tag_unit a) (tag_unit b)) 1).
  - induction A; cbn; constructor; [|assumption]. unfold convert. rewrite E. assumption.
  - induction A as [|o so os sos Ho A IH]; cbn; constructor; [|exact IH]. unfold convert. rewrite E.
    destruct Ho; cbn; constructor.
Qed.

Lemma with_unit_agrees : forall from to c r, convertible from to = true -> agrees c r ->
  agrees (with_unit from to c) (spec_with_unit (tag_unit from) (tag_unit to) r).
Proof.
  intros from to c r H A. destruct A as [|s|msgs|os sos u dims fl t A]; cbn; try constructor.
  destruct (unit_eqb u (tag_unit from)) eqn:E; cbn [negb]; [|constructor].
  pose proof (convert_agrees from to os sos H A) as CA.
  destruct (Qeq_bool (spec_ratio (tag_unit from) (tag_unit to)) 1); constructor; exact CA.
Qed.

(* the Collector: errors on one side iff failure on the other; otherwise the observations agree *)
Definition collect_inv (acc : list str * list obs) (sacc : option (list sobs * tolerance)) : Prop :=
  match sacc with
  | None => fst acc <> []
  | Some (sos, _) => fst acc = [] /\ Forall2 obs_agrees (snd acc) sos
  end.

Lemma app_not_nil_l : forall (X : Type) (l r : list X), l <> [] -> l ++ r <> [].
Proof. intros X l r H E. apply app_eq_nil in E. tauto. Qed.
Lemma app_not_nil_r : forall (X : Type) (l r : list X), r <> [] -> l ++ r <> [].
Proof. intros X l r H E. apply app_eq_nil in E. tauto. Qed.

Lemma collect_step : forall expected acc sacc c r, collect_inv acc sacc -> agrees c r ->
  (forall msgs, c = VError msgs -> msgs <> []) ->
  collect_inv (collect expected acc c) (spec_collect expected sacc r).
Proof.
  intros expected [errs os] sacc c r I A NE. destruct sacc as [[sos t]|]; cbn [collect_inv fst snd] in *.
  - destruct I as [I1 I2]. subst errs. destruct A as [|s|msgs|os' sos' u dims fl t' A]; cbn [collect spec_collect fst snd].
    + split; [reflexivity|assumption].
    + cbn. discriminate.
    + cbn. apply (NE msgs eq_refl).
    + destruct (unit_eqb u expected); cbn [negb].
      * destruct dims; cbn; [split; [reflexivity | apply Forall2_app; assumption] | discriminate].
      * cbn. discriminate.
  - destruct A as [|s|msgs|os' sos' u dims fl t' A]; cbn [collect spec_collect fst snd]; try assumption.
    + apply app_not_nil_l. assumption.
    + apply app_not_nil_l. assumption.
    + destruct (negb (unit_eqb u expected)); cbn; [apply app_not_nil_l; assumption|].
      destruct dims; cbn; [assumption | apply app_not_nil_l; assumption].
Qed.

(* no value of the model ever reports an error without a message *)
Definition error_has_message (c : vcall) : Prop := forall msgs, c = VError msgs -> msgs <> [].

Fixpoint script_errors_ok (v : value) : Prop :=
  match v with
  | Script _ c => error_has_message c
  | WithUnit v _ => script_errors_ok v
  | Distribution _ vs => (fix all (l : list value) : Prop := match l with [] => True | x :: r => script_errors_ok x /\ all r end) vs
  | MeanSeq _ vs => (fix all (l : list value) : Prop := match l with [] => True | x :: r => script_errors_ok x /\ all r end) vs
  | Opt _ (Some v) => script_errors_ok v
  | _ => True
  end.

Lemma write_error_has_message : forall v, script_errors_ok v -> error_has_message (write v).
Proof.
  induction v using value_ind'; cbn [write script_errors_ok]; intros S msgs E; try discriminate.
  - apply (S msgs E).
  - unfold with_unit in E. destruct (write v) as [|s|e|os u dims fl] eqn:W; try discriminate.
    + inversion E. discriminate.
    + inversion E; subst. apply (IHv S msgs eq_refl).
    + destruct (unit_eqb u (tag_unit (declared v))); [discriminate|]. inversion E. discriminate.
  - destruct vs as [|x vs]; [discriminate|].
    destruct (fst (fold_left (collect (tag_unit e)) (map write (x :: vs)) ([], []))) eqn:F; [discriminate|].
    inversion E; subst. discriminate.
  - destruct (N.eqb n 0); discriminate.
  - unfold mean_write in E. destruct (N.eqb _ 0); discriminate.
  - apply (IHv S msgs E).
Qed.

Lemma fold_collect_agrees : forall expected vs acc sacc,
  Forall (fun v => script_errors_ok v /\ agrees (write v) (spec_write v)) vs ->
  collect_inv acc sacc ->
  collect_inv (fold_left (collect expected) (map write vs) acc) (fold_left (spec_collect expected) (map spec_write vs) sacc).
Proof.
  intros expected vs. induction vs as [|v vs IH]; intros acc sacc F I; cbn; [exact I|].
  inversion F as [|? ? [S A] F']; subst. apply IH; [exact F'|].
  apply collect_step; [exact I | exact A | apply write_error_has_message; exact S].
Qed.

Lemma script_errors_ok_dist : forall e vs, script_errors_ok (Distribution e vs) -> Forall script_errors_ok vs.
Proof. intros e vs. cbn. induction vs as [|x vs IH]; intros H; constructor; [tauto | apply IH; tauto]. Qed.
Lemma script_errors_ok_mean : forall e vs, script_errors_ok (MeanSeq e vs) -> Forall script_errors_ok vs.
Proof. intros e vs. cbn. induction vs as [|x vs IH]; intros H; constructor; [tauto | apply IH; tauto]. Qed.

(* the Mean accumulator: the occurrences of model and specification coincide, and a value is accepted by the one iff by
   the other *)
Lemma mean_add_agrees : forall os sos t acc m, Forall2 obs_agrees os sos -> snd acc = sm_occ m ->
  snd (fold_left mean_add_obs os acc) = sm_occ (fold_left (smean_add_obs t) sos m).
Proof.
  intros os sos t acc m A. revert acc m. induction A as [|o so os sos Ho A IH]; intros acc m E; cbn [fold_left]; [exact E|].
  apply IH. destruct Ho; cbn; rewrite E; reflexivity.
Qed.
Lemma record_agrees : forall expected c r acc m, agrees c r -> snd acc = sm_occ m ->
  snd (fst (record_call expected acc c)) = sm_occ (spec_record expected m r).
Proof.
  intros expected c r acc m A E. destruct A as [|s|msgs|os sos u dims fl t A]; cbn [record_call spec_record fst snd]; try exact E.
  cbn [spec_accepts]. destruct (unit_eqb u expected); cbn [negb andb fst]; [|exact E].
  destruct dims; cbn [fst]; [apply mean_add_agrees; assumption | exact E].
Qed.
Lemma mean_fold_agrees : forall expected vs acc m,
  Forall (fun v => agrees (write v) (spec_write v)) vs -> snd acc = sm_occ m ->
  snd (fold_left (fun acc c => fst (record_call expected acc c)) (map write vs) acc)
  = sm_occ (fold_left (spec_record expected) (map spec_write vs) m).
Proof.
  intros expected vs. induction vs as [|v vs IH]; intros acc m F E; cbn [map fold_left]; [exact E|].
  inversion F as [|? ? A F']; subst. apply IH; [exact F'|]. apply record_agrees; assumption.
Qed.

(* ---------------------------------------------------------------- the refinement *)
Theorem write_agrees_spec : forall v, well_typed v = true -> script_errors_ok v -> agrees (write v) (spec_write v).
Proof.
  induction v using value_ind'; intros WT SE; cbn [write spec_write].
  - apply sres_of_vcall_agrees.
  - constructor. repeat constructor.
  - constructor. repeat constructor.
  - constructor. repeat constructor.
  - cbn [well_typed] in WT. apply andb_prop in WT. destruct WT as [W1 W2].
    apply with_unit_agrees; [exact W2 | apply IHv; [exact W1 | exact SE]].
  - destruct vs as [|x vs]; [constructor|].
    set (l := x :: vs) in *.
    assert (FA : Forall (fun v => script_errors_ok v /\ agrees (write v) (spec_write v)) l).
    { cbn [well_typed] in WT. rewrite forallb_forall in WT. pose proof (script_errors_ok_dist e l SE) as SD.
      rewrite Forall_forall in H, SD |- *. intros v I. specialize (WT v I). apply andb_prop in WT. destruct WT as [W1 _].
      split; [apply SD; exact I | apply H; [exact I | exact W1 | apply SD; exact I]]. }
    pose proof (fold_collect_agrees (tag_unit e) l ([], []) (Some ([], tol_exact)) FA) as C.
    specialize (C (conj eq_refl (Forall2_nil _))).
    destruct (fold_left (spec_collect (tag_unit e)) (map spec_write l) (Some ([], tol_exact))) as [[sos t]|]; cbn [collect_inv] in C.
    + destruct C as [C1 C2]. rewrite C1. constructor. exact C2.
    + destruct (fst (fold_left (collect (tag_unit e)) (map write l) ([], []))); [congruence|constructor].
  - destruct (N.eqb n 0); constructor. repeat constructor.
  - assert (FA : Forall (fun v => agrees (write v) (spec_write v)) vs).
    { cbn [well_typed] in WT. rewrite forallb_forall in WT. pose proof (script_errors_ok_mean u vs SE) as SD.
      rewrite Forall_forall in H, SD |- *. intros v I. apply H; [exact I | apply WT; exact I | apply SD; exact I]. }
    pose proof (mean_fold_agrees (tag_unit u) vs mean_zero smean_zero FA eq_refl) as O.
    unfold mean_write, smean_write, mean_run_calls. rewrite O.
    destruct (N.eqb _ 0); constructor. repeat constructor.
  - constructor.
  - cbn [well_typed] in WT. apply andb_prop in WT. destruct WT as [W1 _]. apply IHv; assumption.
Qed.

(* ---------------------------------------------------------------- corollaries in the property's words *)

(* the emitted unit is the declared one *)
Corollary with_unit_emits_declared_unit : forall v to os u dims fl,
  write (WithUnit v to) = VMetric os u dims fl -> u = tag_unit to.
Proof.
  intros v to os u dims fl H. cbn [write] in H. unfold with_unit in H.
  destruct (write v) as [|s|e|os' u' dims' fl']; try discriminate.
  destruct (unit_eqb u' (tag_unit (declared v))); [|discriminate]. inversion H. reflexivity.
Qed.

(* attaching a unit to a string yields a validation error, never a metric *)
Corollary unit_on_string_is_error : forall v to s, write v = VString s ->
  write (WithUnit v to) = VError [msg_unit_on_string].
Proof. intros v to s H. cbn [write]. rewrite H. reflexivity. Qed.

(* a value that writes another unit than it promised yields a validation error naming both, never a metric *)
Corollary wrong_unit_is_error : forall v to os u dims fl, write v = VMetric os u dims fl ->
  u <> tag_unit (declared v) ->
  write (WithUnit v to) = VError [msg_wrong_unit (tag_unit (declared v)) u].
Proof.
  intros v to os u dims fl H N. cbn [write]. rewrite H. cbn [with_unit].
  destruct (unit_eqb u (tag_unit (declared v))) eqn:E; [apply unit_eqb_true in E; contradiction|reflexivity].
Qed.

(* a correct value is converted: same dimensions, flags and number of observations, the target's unit *)
Corollary right_unit_is_converted : forall v to os dims fl, write v = VMetric os (tag_unit (declared v)) dims fl ->
  write (WithUnit v to) = VMetric (map (convert (ratio_f64 (declared v) to)) os) (tag_unit to) dims fl.
Proof.
  intros v to os dims fl H. cbn [write]. rewrite H. cbn [with_unit].
  destruct (unit_eqb (tag_unit (declared v)) (tag_unit (declared v))) eqn:E; [reflexivity|].
  assert (T : unit_eqb (tag_unit (declared v)) (tag_unit (declared v)) = true) by (apply unit_eqb_true; reflexivity). congruence.
Qed.

(* durations are reported in milliseconds unless another time unit is declared *)
Corollary duration_default_unit : forall s n, exists x, write (PDuration s n) = VMetric [OFloat x] (U_Second NS_Milli) [] None.
Proof. intros s n. eexists. reflexivity. Qed.
Corollary duration_declared_unit : forall s n to, convertible millisecond_tag to = true ->
  exists x, write (WithUnit (PDuration s n) to) = VMetric [x] (tag_unit to) [] None.
Proof.
  intros s n to H. cbn [write declared with_unit].
  assert (E : unit_eqb (U_Second NS_Milli) (tag_unit millisecond_tag) = true) by (vm_compute; reflexivity).
  rewrite E. eexists. reflexivity.
Qed.
Lemma millisecond_tag_is : tag_unit millisecond_tag = U_Second NS_Milli /\ unit_name (tag_unit millisecond_tag) = "Milliseconds"%str.
Proof. split; vm_compute; reflexivity. Qed.

(* ---------------------------------------------------------------- the property's main clause, end to end *)
Local Open Scope R_scope.

Definition chk_phys_pos t := negb (Qle_bool (phys (tag_unit t)) 0).
Lemma all_chk_phys_pos : forall t, chk_phys_pos t = true.
Proof. apply sweep1. vm_compute. reflexivity. Qed.
Lemma phys_pos : forall t, 0 < Q2R (phys (tag_unit t)).
Proof.
  intros t. generalize (all_chk_phys_pos t). unfold chk_phys_pos. intros H.
  destruct (Qle_bool (phys (tag_unit t)) 0) eqn:E; [discriminate|].
  replace 0 with (Q2R 0) by (unfold Q2R; cbn; field). apply Qlt_Rlt. apply Qnot_le_lt. intros L.
  apply Qle_bool_iff in L. congruence.
Qed.

Definition chk_ratio_phys a b :=
  implb (convertible a b && negb (unitless_source a))
        (Qeq_bool (spec_ratio (tag_unit a) (tag_unit b)) (phys (tag_unit a) / phys (tag_unit b))).
Lemma all_chk_ratio_phys : forall a b, chk_ratio_phys a b = true.
Proof. apply sweep2. vm_compute. reflexivity. Qed.

(* A value that promised unit a and writes one finite number of moderate magnitude in unit a, wrapped as unit b:
   the wrapper emits one number in unit b, same dimensions and flags, and
     | emitted x size(b) - original x size(a) |  <=  (2^-52 + 2^-106) x | original x size(a) |. *)
Theorem with_unit_preserves_quantity : forall (a b : tag) (x : f64) dims fl,
  convertible a b = true -> unitless_source a = false ->
  Binary.is_finite 53 1024 x = true -> bpow radix2 (-900) <= Rabs (R64 x) <= bpow radix2 900 ->
  exists y : f64,
    write (WithUnit (Script a (VMetric [OFloat x] (tag_unit a) dims fl)) b) = VMetric [OFloat y] (tag_unit b) dims fl /\
    Rabs (R64 y * Q2R (phys (tag_unit b)) - R64 x * Q2R (phys (tag_unit a)))
      <= (bpow radix2 (-52) + bpow radix2 (-106)) * Rabs (R64 x * Q2R (phys (tag_unit a))).
Proof.
  intros a b x dims fl H NU F M.
  set (rho := Q2R (spec_ratio (tag_unit a) (tag_unit b))).
  set (pa := Q2R (phys (tag_unit a))). set (pb := Q2R (phys (tag_unit b))).
  pose proof (phys_pos a) as PA. pose proof (phys_pos b) as PB. fold pa in PA. fold pb in PB.
  assert (RHO : rho = pa / pb).
  { unfold rho, pa, pb. generalize (all_chk_ratio_phys a b). unfold chk_ratio_phys. rewrite H, NU. cbn [andb negb implb].
    intros E. apply Qeq_bool_iff in E. apply Qeq_eqR in E. rewrite E. unfold Qdiv. rewrite Q2R_mult, Q2R_inv; [reflexivity|].
    intros Z. apply Qeq_eqR in Z. fold pb in Z. replace (Q2R 0) with 0 in Z by (unfold Q2R; cbn; field). lra. }
  pose proof (scaled_error_moderate a b H x F M) as E. cbv zeta in E. fold rho in E.
  pose proof (right_unit_is_converted (Script a (VMetric [OFloat x] (tag_unit a) dims fl)) b [OFloat x] dims fl eq_refl) as W.
  cbn [declared map] in W.
  destruct (Req_dec rho 1) as [One|NotOne].
  - (* the factor is 1: the number is untouched *)
    exists x. rewrite W, (convert_identity a b H One). split; [reflexivity|].
    assert (pa = pb) by (rewrite RHO in One; apply (Rmult_eq_compat_r pb) in One; field_simplify in One; lra).
    rewrite H0. replace (R64 x * pb - R64 x * pb) with 0 by ring. rewrite Rabs_R0.
    apply Rmult_le_pos; [|apply Rabs_pos]. pose proof (bpow_gt_0 radix2 (-52)). pose proof (bpow_gt_0 radix2 (-106)). lra.
  - exists (f64_mul x (ratio_f64 a b)). rewrite W, (convert_scales a b H NotOne). split; [reflexivity|].
    replace (R64 (f64_mul x (ratio_f64 a b)) * pb - R64 x * pa) with ((R64 (f64_mul x (ratio_f64 a b)) - R64 x * rho) * pb)
      by (rewrite RHO; field; lra).
    replace (R64 x * pa) with ((R64 x * rho) * pb) by (rewrite RHO; field; lra).
    rewrite !Rabs_mult. rewrite (Rabs_pos_eq pb) by lra. rewrite <- Rabs_mult, <- Rmult_assoc.
    apply Rmult_le_compat_r; [lra|exact E].
Qed.

(* declaring a unit on a unitless value keeps every observation, of every kind, bit for bit *)
Theorem declare_unit_keeps_observations : forall (a b : tag) os dims fl,
  convertible a b = true -> unitless_source a = true ->
  write (WithUnit (Script a (VMetric os (tag_unit a) dims fl)) b) = VMetric os (tag_unit b) dims fl.
Proof.
  intros a b os dims fl H U.
  pose proof (right_unit_is_converted (Script a (VMetric os (tag_unit a) dims fl)) b os dims fl eq_refl) as W.
  cbn [declared] in W. rewrite W. f_equal.
  assert (One : Q2R (spec_ratio (tag_unit a) (tag_unit b)) = 1).
  { rewrite <- (Qeq_eqR _ _ (ratio_is_spec a b H)). rewrite (Qeq_eqR _ _ (declare_keeps_number a b H U)). unfold Q2R. cbn. field. }
  clear W. induction os as [|o os IH]; [reflexivity|]. cbn [map]. rewrite (convert_identity a b H One), IH. reflexivity.
Qed.

(* ---------------------------------------------------------------- the same for every kind of observation *)
(* the number an observation carries (the total, for a repeated one) and its multiplicity *)
Definition obs_number (o : obs) : R :=
  match o with OUnsigned u => IZR (Z.of_N u) | OFloat f => R64 f | ORepeated t _ => R64 t end.
Definition obs_occurrences (o : obs) : N :=
  match o with ORepeated _ n => n | _ => 1%N end.
(* finite, of moderate magnitude; an integer must be exactly representable (at most 2^53) *)
Definition obs_moderate (o : obs) : Prop :=
  match o with
  | OUnsigned u => (1 <= u <= 2 ^ 53)%N
  | OFloat f | ORepeated f _ => Binary.is_finite 53 1024 f = true /\ bpow radix2 (-900) <= Rabs (R64 f) <= bpow radix2 900
  end.

(* the binary64 an observation's number is computed from *)
Definition float_of (o : obs) : f64 :=
  match o with OUnsigned u => u64_as_f64 u | OFloat f => f | ORepeated t _ => t end.

Lemma float_of_moderate : forall o, obs_moderate o ->
  Binary.is_finite 53 1024 (float_of o) = true /\
  bpow radix2 (-900) <= Rabs (R64 (float_of o)) <= bpow radix2 900 /\ R64 (float_of o) = obs_number o.
Proof.
  intros [u|f|t n] M; cbn [obs_moderate float_of obs_number] in *.
  - destruct (u64_as_f64_exact u ltac:(lia)) as [V F]. split; [exact F|]. split; [|exact V].
    rewrite V. rewrite Rabs_pos_eq by (apply IZR_le; lia). split.
    + apply Rle_trans with 1; [change 1 with (bpow radix2 0); apply bpow_le; lia | change 1 with (IZR 1); apply IZR_le; lia].
    + apply Rle_trans with (bpow radix2 53); [change (bpow radix2 53) with (IZR (2 ^ 53)); apply IZR_le; lia | apply bpow_le; lia].
  - destruct M as [F B]. repeat split; try assumption; tauto.
  - destruct M as [F B]. repeat split; try assumption; tauto.
Qed.

(* converting an observation of any kind computes the same number as converting its float, and keeps the occurrences *)
Lemma convert_number : forall r o, R64 (float_of o) = obs_number o ->
  obs_number (convert r o) = obs_number (convert r (OFloat (float_of o))) /\
  obs_occurrences (convert r o) = obs_occurrences o.
Proof.
  intros r o V. unfold convert. destruct (f64_eq r f64_one).
  - split; [|reflexivity]. cbn [obs_number]. symmetry. exact V.
  - destruct o; split; reflexivity.
Qed.

Theorem with_unit_preserves_quantity_any_kind : forall (a b : tag) (o : obs) dims fl,
  convertible a b = true -> unitless_source a = false -> obs_moderate o ->
  exists o' : obs,
    write (WithUnit (Script a (VMetric [o] (tag_unit a) dims fl)) b) = VMetric [o'] (tag_unit b) dims fl /\
    obs_occurrences o' = obs_occurrences o /\
    Rabs (obs_number o' * Q2R (phys (tag_unit b)) - obs_number o * Q2R (phys (tag_unit a)))
      <= (bpow radix2 (-52) + bpow radix2 (-106)) * Rabs (obs_number o * Q2R (phys (tag_unit a))).
Proof.
  intros a b o dims fl H NU M.
  destruct (float_of_moderate o M) as (F & B & V).
  destruct (with_unit_preserves_quantity a b (float_of o) dims fl H NU F B) as (y & Wy & Ey).
  pose proof (right_unit_is_converted (Script a (VMetric [o] (tag_unit a) dims fl)) b [o] dims fl eq_refl) as W.
  cbn [declared map] in W.
  pose proof (right_unit_is_converted (Script a (VMetric [OFloat (float_of o)] (tag_unit a) dims fl)) b [OFloat (float_of o)] dims fl eq_refl) as Wx.
  cbn [declared map] in Wx. rewrite Wx in Wy. injection Wy as Y.
  destruct (convert_number (ratio_f64 a b) o V) as [CN CO].
  exists (convert (ratio_f64 a b) o). split; [exact W|]. split; [exact CO|].
  rewrite CN, Y. cbn [obs_number]. rewrite <- V. exact Ey.
Qed.
