From Coq Require Import List NArith Bool Lia.
From MV Require Import Common.Sx Common.Bytes Emf.Model C16.Model.
Import ListNotations.

(* ------------------------------------------------------------------ write_all_vectored *)

Lemma advance_concat slices n :
  n <= length (concat slices) -> concat (advance slices n) = skipn n (concat slices).
Proof.
  revert n; induction slices as [|s r IH]; intros n Hn; cbn [advance concat].
  - destruct n; reflexivity.
  - cbn [concat] in Hn. rewrite app_length in Hn.
    destruct (Nat.leb (length s) n) eqn:Hle.
    + apply PeanoNat.Nat.leb_le in Hle. rewrite IH by lia.
      rewrite skipn_app. rewrite (skipn_all2 s) by lia. reflexivity.
    + apply PeanoNat.Nat.leb_gt in Hle. cbn [concat].
      rewrite skipn_app. replace (n - length s) with 0 by lia. reflexivity.
Qed.

Lemma advance_zero slices : concat (advance slices 0) = concat slices.
Proof. rewrite advance_concat by lia. reflexivity. Qed.

(* after advance, the slice list is empty exactly when nothing remains *)
Lemma advance_nil_iff slices n :
  n <= length (concat slices) -> (advance slices n = [] <-> n = length (concat slices)).
Proof.
  revert n; induction slices as [|s r IH]; intros n Hn; cbn [advance concat length] in *.
  - split; intros; [lia | reflexivity].
  - rewrite app_length in *. destruct (Nat.leb (length s) n) eqn:Hle.
    + apply PeanoNat.Nat.leb_le in Hle. rewrite IH by lia. lia.
    + apply PeanoNat.Nat.leb_gt in Hle. split; [discriminate | lia].
Qed.

(* Loop invariant: what was received so far followed by what is still pending is the whole payload. *)
Lemma write_all_invariant script : forall slices received payload,
  received ++ concat slices = payload ->
  let '(_, rec, res) := write_all script slices received in
  (exists rest, rec ++ rest = payload /\ (res = WOk -> rest = [])) /\
  (res = WOk -> rec = payload).
Proof.
  induction script as [|r sc IH]; intros slices received payload Hinv.
  - destruct slices as [|s sl]; cbn [write_all].
    + cbn [concat] in Hinv. rewrite app_nil_r in Hinv. subst. split; [exists []; rewrite app_nil_r; auto | auto].
    + split; [exists []; rewrite app_nil_r; auto | auto].
  - destruct slices as [|s sl]; cbn [write_all].
    + cbn [concat] in Hinv. rewrite app_nil_r in Hinv. subst. split; [exists []; rewrite app_nil_r; auto | auto].
    + destruct r as [k| | |].
      * set (slices := s :: sl) in *.
        set (n := Nat.min (Nat.max 1 (N.to_nat k)) (total_len slices)).
        assert (Hn : n <= length (concat slices)) by (unfold n, total_len; lia).
        apply IH. rewrite advance_concat by exact Hn.
        rewrite <- app_assoc, firstn_skipn. exact Hinv.
      * apply IH. exact Hinv.
      * split; [exists (concat (s :: sl)); split; [exact Hinv | discriminate] | discriminate].
      * split; [exists (concat (s :: sl)); split; [exact Hinv | discriminate] | discriminate].
Qed.

Lemma write_all_vectored_prefix script bufs received :
  let '(_, rec, res) := write_all_vectored script bufs received in
  (exists rest, rec ++ rest = received ++ concat bufs) /\ (res = WOk -> rec = received ++ concat bufs).
Proof.
  unfold write_all_vectored.
  pose proof (write_all_invariant script (advance bufs 0) received (received ++ concat bufs)) as H.
  rewrite advance_zero in H. specialize (H eq_refl).
  destruct (write_all script (advance bufs 0) received) as [[sc rec] res].
  destruct H as [[rest [H1 _]] H2]. split; [exists rest; exact H1 | exact H2].
Qed.

(* an Interrupted response changes nothing but the script position *)
Lemma write_all_interrupted sc slices received :
  slices <> [] -> write_all (Interrupted :: sc) slices received = write_all sc slices received.
Proof. destruct slices; [congruence | reflexivity]. Qed.

(* a zero-length write on a non-empty remainder is reported as WriteZero and nothing more is received *)
Lemma write_all_zero sc slices received :
  slices <> [] -> write_all (Zero :: sc) slices received = (sc, received, WZero).
Proof. destruct slices; [congruence | reflexivity]. Qed.

Lemma write_all_fail sc slices received :
  slices <> [] -> write_all (Fail :: sc) slices received = (sc, received, WFail).
Proof. destruct slices; [congruence | reflexivity]. Qed.

(* a writer that eventually accepts everything (no Zero/Fail responses) always ends in WOk with the exact payload *)
Definition benign (r : wresp) : bool := match r with Accept _ | Interrupted => true | _ => false end.
Lemma write_all_benign script : forall slices received,
  forallb benign script = true ->
  let '(_, rec, res) := write_all script slices received in res = WOk /\ rec = received ++ concat slices.
Proof.
  induction script as [|r sc IH]; intros slices received Hb.
  - destruct slices; cbn [write_all concat]; rewrite ?app_nil_r; auto.
  - cbn [forallb] in Hb. apply andb_prop in Hb as [Hr Hsc].
    destruct slices as [|s sl]; [cbn [write_all concat]; rewrite app_nil_r; auto|].
    destruct r as [k| | |]; try discriminate; cbn [write_all].
    + set (slices := s :: sl) in *.
      set (n := Nat.min (Nat.max 1 (N.to_nat k)) (total_len slices)).
      assert (Hn : n <= length (concat slices)) by (unfold n, total_len; lia).
      specialize (IH (advance slices n) (received ++ firstn n (concat slices)) Hsc).
      destruct (write_all sc (advance slices n) (received ++ firstn n (concat slices))) as [[sc' rec] res].
      destruct IH as [-> ->]. split; [reflexivity|].
      rewrite advance_concat by exact Hn. rewrite <- app_assoc, firstn_skipn. reflexivity.
    + apply IH. exact Hsc.
Qed.

(* ------------------------------------------------------------------ sinks *)

Lemma immediate_nexts cs : nexts_of 0 (immediate cs) = map sc_id cs.
Proof. induction cs as [|c cs IH]; [reflexivity|]. cbn. f_equal. exact IH. Qed.

Lemma immediate_flushes cs : flushes_of 0 (immediate cs) = length cs.
Proof. induction cs as [|c cs IH]; [reflexivity|]. cbn. f_equal. exact IH. Qed.

Lemma tee_nexts_0 cs : nexts_of 0 (tee cs) = map sc_id cs.
Proof. induction cs as [|c cs IH]; [reflexivity|]. cbn. f_equal. exact IH. Qed.

Lemma tee_nexts_1 cs : nexts_of 1 (tee cs) = map sc_id cs.
Proof. induction cs as [|c cs IH]; [reflexivity|]. cbn. f_equal. exact IH. Qed.

(* the event sequence does not depend on any result: errors neither stop, repeat nor reorder later entries *)
Definition with_results (f : scall -> scall) (cs : list scall) := map f cs.
Lemma immediate_result_independent cs f :
  (forall c, sc_id (f c) = sc_id c) -> immediate (map f cs) = immediate cs.
Proof.
  intros Hid. induction cs as [|c cs IH]; [reflexivity|]. cbn. unfold immediate in IH. rewrite IH.
  rewrite Hid. reflexivity.
Qed.
Lemma tee_result_independent cs f :
  (forall c, sc_id (f c) = sc_id c) -> tee (map f cs) = tee cs.
Proof.
  intros Hid. induction cs as [|c cs IH]; [reflexivity|]. cbn. unfold tee in IH. rewrite IH.
  rewrite Hid. reflexivity.
Qed.
