(* C16 (sink half) — how the sinks drive a stream: FlushImmediately (next, then flush, errors only logged),
   Tee (both sides evaluated, first error wins), and a formatter-backed stream whose entries may fail. *)
From Coq Require Import List NArith Bool.
Import ListNotations.

Inductive sres := SOk | SValidation | SIo.
(* one scripted stream call: entry id, result of next on stream 1, (tee only) result on stream 2, flush results *)
Record scall := mk_scall { sc_id : N; sc_r1 : sres; sc_r2 : sres; sc_f1 : bool; sc_f2 : bool }.

Inductive sev :=
| ENext (stream : nat) (id : N)
| EFlush (stream : nat).

(* FlushImmediately / AnyFlushImmediately over a single stream: lock; next; flush — whatever next returned *)
Definition immediate_one (c : scall) : list sev := [ENext 0 (sc_id c); EFlush 0].
Definition immediate (cs : list scall) : list sev := flat_map immediate_one cs.

(* FlushImmediately over Tee(s1, s2): s1.next(e).and(s2.next(e)) evaluates both; flush flushes both *)
Definition tee_one (c : scall) : list sev := [ENext 0 (sc_id c); ENext 1 (sc_id c); EFlush 0; EFlush 1].
Definition tee (cs : list scall) : list sev := flat_map tee_one cs.
(* A background queue with room for every entry (no overflow), one producer: what its stream is handed — each entry
   once, in append order, whatever the stream answered (the `next` calls only; when the queue flushes is a matter of
   time).  The mechanism behind it is the transition system of Queue/Model.v. *)
Definition background (cs : list scall) : list sev := map (fun c => ENext 0 (sc_id c)) cs.
Definition tee_result (c : scall) : sres := match sc_r1 c with SOk => sc_r2 c | r => r end.

Definition nexts_of (stream : nat) (evs : list sev) : list N :=
  flat_map (fun e => match e with ENext s id => if Nat.eqb s stream then [id] else [] | _ => [] end) evs.
Definition flushes_of (stream : nat) (evs : list sev) : nat :=
  length (filter (fun e => match e with EFlush s => Nat.eqb s stream | _ => false end) evs).
