(* C16 — wire codec for the sink scenarios (the writer scenarios use Emf.Codec's emf_run). *)
(* DISPATCH 1600 c16_sinks *)
From Coq Require Import List ZArith NArith.
From MV Require Import Common.Sx C16.Model.
Import ListNotations.

Definition dec_sres (x : sx) : sres := match sx_z x with 0%Z => SOk | 1%Z => SValidation | _ => SIo end.
Definition dec_scall (x : sx) : scall :=
  mk_scall (sx_n (sx_nth x 0)) (dec_sres (sx_nth x 1)) (dec_sres (sx_nth x 2)) (sx_bool (sx_nth x 3)) (sx_bool (sx_nth x 4)).
Definition enc_sev (e : sev) : sx :=
  match e with
  | ENext s id => L [A 0%Z; of_nat s; of_n id]
  | EFlush s => L [A 1%Z; of_nat s]
  end.
(* case = (kind (call…)); kind 0 = immediate-flush sink over one stream, 1 = over a tee of two streams *)
Definition c16_sinks (x : sx) : sx :=
  let cs := map dec_scall (sx_list (sx_nth x 1)) in
  match sx_z (sx_nth x 0) with
  | 0%Z => L (map enc_sev (immediate cs))
  | 1%Z => L (map enc_sev (tee cs))
  | _ => L (map enc_sev (background cs))    (* 2, 3: a background queue with room for everything; `next` calls only *)
  end.
