(* C20 — `LHRec k b t` (t consecutive Histogram::record calls of one thread) is t single-record labels in a row. *)
From Coq Require Import List NArith ZArith Bool Lia.
From MV Require Import Common.Sx C11.Model C11.HistProofs C20.Model C20.Proofs.
Import ListNotations.
Local Open Scope N_scope.

Lemma upd_upd l i f g : upd (upd l i f) i g = upd l i (fun x => g (f x)).
Proof. revert i; induction l as [|x l IH]; intros [|i]; simpl; try reflexivity. f_equal. apply IH. Qed.

Lemma upd_ext l i f g : (forall x, f x = g x) -> upd l i f = upd l i g.
Proof. intros H. revert i; induction l as [|x l IH]; intros [|i]; simpl; try reflexivity; f_equal; auto. Qed.

Lemma hist_add_succ h v c : hist_add 32 (hist_add 32 h v c) v 1 = hist_add 32 h v (c + 1).
Proof.
  unfold hist_add. destruct (value_to_index 32 v) as [i|]; [|reflexivity].
  rewrite upd_upd. apply upd_ext. intros x. rewrite wrap64_add. f_equal. lia.
Qed.

Lemma update_update {V} k (f g : V -> V) l : update k g (update k f l) = update k (fun x => g (f x)) l.
Proof.
  induction l as [|[k' v] r IH]; simpl; [reflexivity|].
  destruct (key_eqb k k') eqn:E; simpl; rewrite E; [reflexivity|]. f_equal. exact IH.
Qed.

Lemma update_ext {V} k (f g : V -> V) l : (forall x, f x = g x) -> update k f l = update k g l.
Proof.
  intros H. induction l as [|[k' v] r IH]; simpl; [reflexivity|].
  destruct (key_eqb k k'); [rewrite H; reflexivity|]. f_equal. exact IH.
Qed.

Lemma hrec_then_one s k b c s1 s2 :
  step s (LHRec k b c) = Some s1 -> step s1 (LHRec k b 1) = Some s2 -> step s (LHRec k b (c + 1)) = Some s2.
Proof.
  simpl. destruct (has k (hs s)) eqn:Hh; [|discriminate]. intros H1. injection H1 as <-. simpl.
  unfold has in *. rewrite find_update_same. destruct (find k (hs s)); [|discriminate]. simpl.
  intros H2. injection H2 as <-. f_equal. destruct s. unfold set_hs. simpl. f_equal.
  rewrite update_update. apply update_ext. intros h. symmetry. apply hist_add_succ.
Qed.

(* c records followed by t single records = c + t records *)
Theorem hrec_repeat k b t : forall s c s1, step s (LHRec k b c) = Some s1 ->
  run s1 (repeat (LHRec k b 1) t) = step s (LHRec k b (c + N.of_nat t)).
Proof.
  induction t as [|t IH]; intros s c s1 H1.
  - simpl. rewrite N.add_0_r. symmetry. exact H1.
  - cbn [repeat run].
    destruct (step s1 (LHRec k b 1)) as [s2|] eqn:H2.
    + pose proof (hrec_then_one s k b c s1 s2 H1 H2) as H3.
      rewrite (IH s (c + 1) s2 H3). f_equal. f_equal. lia.
    + exfalso. simpl in H1, H2. destruct (has k (hs s)) eqn:Hh; [|discriminate]. injection H1 as <-.
      simpl in H2. unfold has in *. rewrite find_update_same in H2. destruct (find k (hs s)); discriminate.
Qed.
