(* C20 — mechanism model of the metrics.rs bridge (metrique-metricsrs): accumulator.rs (registry storage,
   describe map, MetricAccumulatorEntry and its Entry impl), generic.rs (readout), metrics_histogram.rs
   (atomic histogram, u32 casts), unit.rs (unit table), reporter.rs (periodic + final readout).

   Shared state: three registries key -> cell (counters: AtomicU64; gauges: AtomicU64 holding f64 bits;
   histograms: 464 AtomicU64 slots of histogram::Config::new(4, 32)) and the describe map.  Every label is one
   atomic action of one thread.  The reporter's readout is a *sequence* of such actions (one swap per counter,
   one load per gauge, one swap per histogram slot, then the units clone and the timestamp), so updates by
   other threads interleave between them.  The registry's iteration order is unspecified in the code: the
   visited key is carried by the label.  Floats travel as bit patterns. *)
From Coq Require Import List NArith ZArith Bool.
From MV Require Import Common.Sx C11.Model C11.Float.
From Flocq Require Import IEEE754.Binary IEEE754.Bits.
Import ListNotations.
Local Open Scope N_scope.

(* ---------------------------------------------------------------- keys *)

Definition label_ := (bytes * bytes)%type.
Definition key := (bytes * list label_)%type.            (* name, labels (the generator keeps them sorted) *)

Fixpoint bytes_cmp (a b : bytes) : comparison :=
  match a, b with
  | [], [] => Eq
  | [], _ :: _ => Lt
  | _ :: _, [] => Gt
  | x :: a', y :: b' => match x ?= y with Eq => bytes_cmp a' b' | c => c end
  end.
Definition bytes_eqb (a b : bytes) : bool := match bytes_cmp a b with Eq => true | _ => false end.

Definition label_cmp (a b : label_) : comparison :=
  match bytes_cmp (fst a) (fst b) with Eq => bytes_cmp (snd a) (snd b) | c => c end.
Fixpoint labels_cmp (a b : list label_) : comparison :=
  match a, b with
  | [], [] => Eq
  | [], _ :: _ => Lt
  | _ :: _, [] => Gt
  | x :: a', y :: b' => match label_cmp x y with Eq => labels_cmp a' b' | c => c end
  end.
(* metrics::Key's Ord: (name, number of labels), then the labels pairwise *)
Definition key_cmp (a b : key) : comparison :=
  match bytes_cmp (fst a) (fst b) with
  | Eq => match N.of_nat (length (snd a)) ?= N.of_nat (length (snd b)) with
          | Eq => labels_cmp (snd a) (snd b)
          | c => c
          end
  | c => c
  end.
Definition key_eqb (a b : key) : bool := match key_cmp a b with Eq => true | _ => false end.
Definition key_leb (a b : key) : bool := match key_cmp a b with Gt => false | _ => true end.

(* association lists: lookup by key equality, insertion at the end *)
Fixpoint find {V} (k : key) (l : list (key * V)) : option V :=
  match l with
  | [] => None
  | (k', v) :: r => if key_eqb k k' then Some v else find k r
  end.
Fixpoint update {V} (k : key) (f : V -> V) (l : list (key * V)) : list (key * V) :=
  match l with
  | [] => []
  | (k', v) :: r => if key_eqb k k' then (k', f v) :: r else (k', v) :: update k f r
  end.
Definition has {V} (k : key) (l : list (key * V)) : bool := match find k l with Some _ => true | None => false end.
Definition mem (k : key) (l : list key) : bool := existsb (key_eqb k) l.

(* Vec::sort_by(|u, v| u.0.cmp(&v.0)): stable; keys are distinct here *)
Fixpoint insert_key {V} (p : key * V) (l : list (key * V)) : list (key * V) :=
  match l with
  | [] => [p]
  | q :: r => if key_leb (fst p) (fst q) then p :: q :: r else q :: insert_key p r
  end.
Definition sort_keys {V} (l : list (key * V)) : list (key * V) := fold_right insert_key [] l.

(* ---------------------------------------------------------------- metrics_histogram.rs *)

Definition hist_slots : nat := 464.
Definition u32_max : N := 2 ^ 32 - 1.

(* HistogramFn::record(f64): values above u32::MAX are clamped, otherwise `value as u32` *)
Definition f2p32m1 : f64 := of_u64 u32_max.
Definition hist_value (bits : N) : N :=
  let x := of_bits bits in
  match b64_compare x f2p32m1 with
  | Some Gt => u32_max
  | _ => to_u32 x
  end.
(* Histogram::record(u32): one fetch_add(1) on the slot of the value *)
Definition hist_rec (h : list N) (v : N) : list N := hist_add 32 h v 1.

(* one slot swapped out of the histogram during a drain *)
Definition swap_slot (h : list N) (i : nat) : list N * N := (upd h i (fun _ => 0), nth i h 0).

(* what drain() makes of the swapped-out counts: non-empty buckets, midpoint as u32; a count above u32::MAX
   is reported as several buckets of the same value (repository commit "fix: metrics.rs bridge histogram
   drain no longer truncates a bucket count to u32"; before it the count was cast with `as u32`) *)
Fixpoint chunks (fuel : nat) (c : N) : list N :=
  match fuel with
  | O => []
  | Datatypes.S f => if c =? 0 then [] else let x := N.min c u32_max in x :: chunks f (c - x)
  end.
Definition bucket_of (ic : N * N) : list (N * N) :=
  let value := wrap32 (midpoint' (index_to_lower_bound (fst ic)) (index_to_upper_bound 32 (fst ic))) in
  map (fun x => (value, x)) (chunks (Datatypes.S (N.to_nat (snd ic / u32_max))) (snd ic)).
Definition drained_buckets (raw : list (N * N)) : list (N * N) :=
  flat_map bucket_of (filter (fun ic => 0 <? snd ic) raw).

(* ---------------------------------------------------------------- unit.rs *)

(* metrics::Unit as a code: 0 = no unit given (None), 1.. = the variants in declaration order (Count,
   Percent, Seconds, Milliseconds, Microseconds, Nanoseconds, Tebibytes, Gibibytes, Mebibytes, Kibibytes,
   Bytes, TerabitsPerSecond, GigabitsPerSecond, MegabitsPerSecond, KilobitsPerSecond, BitsPerSecond,
   CountPerSecond).  metrics_024_unit_to_metrique_unit, with the metrique unit written as its Debug text
   (the harness prints the real value the same way). *)
Definition unit_debug (code : N) : bytes :=
  match code with
  | 0 => [78; 111; 110; 101]   (* None *)
  | 1 => [67; 111; 117; 110; 116]   (* Count *)
  | 2 => [80; 101; 114; 99; 101; 110; 116]   (* Percent *)
  | 3 => [83; 101; 99; 111; 110; 100; 40; 79; 110; 101; 41]   (* Second(One) *)
  | 4 => [83; 101; 99; 111; 110; 100; 40; 77; 105; 108; 108; 105; 41]   (* Second(Milli) *)
  | 5 => [83; 101; 99; 111; 110; 100; 40; 77; 105; 99; 114; 111; 41]   (* Second(Micro) *)
  | 6 => [67; 117; 115; 116; 111; 109; 40; 34; 78; 97; 110; 111; 115; 101; 99; 111; 110; 100; 115; 34; 41]   (* Custom("Nanoseconds") *)
  | 7 => [67; 117; 115; 116; 111; 109; 40; 34; 84; 101; 98; 105; 98; 121; 116; 101; 115; 34; 41]   (* Custom("Tebibytes") *)
  | 8 => [67; 117; 115; 116; 111; 109; 40; 34; 71; 105; 98; 105; 98; 121; 116; 101; 115; 34; 41]   (* Custom("Gibibytes") *)
  | 9 => [67; 117; 115; 116; 111; 109; 40; 34; 77; 101; 98; 105; 98; 121; 116; 101; 115; 34; 41]   (* Custom("Mebibytes") *)
  | 10 => [67; 117; 115; 116; 111; 109; 40; 34; 75; 105; 98; 105; 98; 121; 116; 101; 115; 34; 41]   (* Custom("Kibibytes") *)
  | 11 => [66; 121; 116; 101; 40; 79; 110; 101; 41]   (* Byte(One) *)
  | 12 => [66; 105; 116; 80; 101; 114; 83; 101; 99; 111; 110; 100; 40; 84; 101; 114; 97; 41]   (* BitPerSecond(Tera) *)
  | 13 => [66; 105; 116; 80; 101; 114; 83; 101; 99; 111; 110; 100; 40; 71; 105; 103; 97; 41]   (* BitPerSecond(Giga) *)
  | 14 => [66; 105; 116; 80; 101; 114; 83; 101; 99; 111; 110; 100; 40; 77; 101; 103; 97; 41]   (* BitPerSecond(Mega) *)
  | 15 => [66; 105; 116; 80; 101; 114; 83; 101; 99; 111; 110; 100; 40; 75; 105; 108; 111; 41]   (* BitPerSecond(Kilo) *)
  | 16 => [66; 105; 116; 80; 101; 114; 83; 101; 99; 111; 110; 100; 40; 79; 110; 101; 41]   (* BitPerSecond(One) *)
  | 17 => [67; 117; 115; 116; 111; 109; 40; 34; 67; 111; 117; 110; 116; 47; 83; 101; 99; 111; 110; 100; 34; 41]   (* Custom("Count/Second") *)
  | _ => [63]
  end.

(* ---------------------------------------------------------------- state *)

Inductive phase := Idle | PCounters | PGauges | PHists.

Record entry_ := mk_entry {
  e_counters : list (key * N);
  e_gauges : list (key * N);
  e_hists : list (key * list (N * N));      (* per histogram the swapped-out (slot index, count) pairs *)
  e_units : list (bytes * N);
  e_ts : N
}.

Record st := mk_st {
  emit_zero : bool;
  units : list (bytes * N);              (* describe map: metric name -> metrics::Unit code *)
  cs : list (key * N);                   (* counter cells *)
  gs : list (key * N);                   (* gauge cells (f64 bits) *)
  hs : list (key * list N);              (* histogram cells *)
  pc : phase;
  todo : list key;                       (* registered when the phase started, not yet visited *)
  seen : list key;                       (* visited in this phase *)
  acc_c : list (key * N);                (* the readout's local vectors *)
  acc_g : list (key * N);
  acc_h : list (key * list (N * N));     (* (slot index, count) pairs; filter and casts are applied in entry_items *)
  drain : option (key * nat * list (N * N));   (* histogram being drained: next slot, (index, count) so far *)
  out : list entry_                      (* completed readouts, oldest first *)
}.

Definition init (ez : bool) : st := mk_st ez [] [] [] [] Idle [] [] [] [] [] None [].

Inductive kind := KCounter | KGauge | KHist.

Inductive label :=
| LRegister (kd : kind) (k : key)          (* get_or_create_*: inserts a zeroed cell when absent *)
| LDescribe (name : bytes) (u : N)         (* describe_*: units.insert(name, unit) *)
| LCInc (k : key) (n : N)                  (* Counter::increment: fetch_add *)
| LGSet (k : key) (bits : N)               (* Gauge::set *)
| LGAdd (k : key) (bits : N)               (* Gauge::increment: CAS loop, i.e. an atomic f64 add *)
| LGSub (k : key) (bits : N)               (* Gauge::decrement *)
| LHRec (k : key) (bits : N) (times : N)   (* `times` consecutive Histogram::record calls of one thread *)
| RBegin                                   (* reporter enters readout: visit_counters starts *)
| RCounter (k : key)                       (* the closure on one counter: swap(0), push unless zero && !emit_zero *)
| RGauges                                  (* counters.sort_by; visit_gauges starts *)
| RGauge (k : key)                         (* load *)
| RHists                                   (* gauges.sort_by; visit_histograms starts *)
| RHistStart (k : key)                     (* histogram.drain() begins on k *)
| RHistSwap (n : nat)                      (* the next n slots are swapped to 0, one atomic action each *)
| RHistDone                                (* all slots swapped: push (the pure filter / u32 casts of drain() are applied where the entry is written) *)
| RFinish (ts : N).                        (* histograms.sort_by; units(); timestamp; entry complete *)

Definition set_cs s v := mk_st (emit_zero s) (units s) v (gs s) (hs s) (pc s) (todo s) (seen s) (acc_c s) (acc_g s) (acc_h s) (drain s) (out s).
Definition set_gs s v := mk_st (emit_zero s) (units s) (cs s) v (hs s) (pc s) (todo s) (seen s) (acc_c s) (acc_g s) (acc_h s) (drain s) (out s).
Definition set_hs s v := mk_st (emit_zero s) (units s) (cs s) (gs s) v (pc s) (todo s) (seen s) (acc_c s) (acc_g s) (acc_h s) (drain s) (out s).
Definition set_units s v := mk_st (emit_zero s) v (cs s) (gs s) (hs s) (pc s) (todo s) (seen s) (acc_c s) (acc_g s) (acc_h s) (drain s) (out s).

Definition remove_key (k : key) (l : list key) : list key := filter (fun k' => negb (key_eqb k k')) l.

Definition fsub (a b : f64) : f64 := b64_minus mode_NE a b.
Definition fop (op : f64 -> f64 -> f64) (cell arg : N) : N := to_bits (op (of_bits cell) (of_bits arg)).

(* n consecutive slot swaps of the drain in progress *)
Fixpoint swap_n (n : nat) (h : list N) (i : nat) (raw : list (N * N)) : list N * nat * list (N * N) :=
  match n with
  | O => (h, i, raw)
  | Datatypes.S n' =>
      if Nat.ltb i hist_slots then
        let '(h', c) := swap_slot h i in
        swap_n n' h' (Datatypes.S i) (raw ++ [(N.of_nat i, c)])
      else (h, i, raw)
  end.

Definition step (s : st) (l : label) : option st :=
  match l with
  | LRegister KCounter k => Some (if has k (cs s) then s else set_cs s (cs s ++ [(k, 0)]))
  | LRegister KGauge k => Some (if has k (gs s) then s else set_gs s (gs s ++ [(k, 0)]))
  | LRegister KHist k => Some (if has k (hs s) then s else set_hs s (hs s ++ [(k, hist_empty 32)]))
  | LDescribe name u =>
      Some (set_units s ((name, u) :: filter (fun p => negb (bytes_eqb name (fst p))) (units s)))
  | LCInc k n => if has k (cs s) then Some (set_cs s (update k (fun c => wrap64 (c + n)) (cs s))) else None
  | LGSet k b => if has k (gs s) then Some (set_gs s (update k (fun _ => b) (gs s))) else None
  | LGAdd k b => if has k (gs s) then Some (set_gs s (update k (fun c => fop fadd c b) (gs s))) else None
  | LGSub k b => if has k (gs s) then Some (set_gs s (update k (fun c => fop fsub c b) (gs s))) else None
  | LHRec k b times =>
      if has k (hs s)
      then Some (set_hs s (update k (fun h => hist_add 32 h (hist_value b) times) (hs s)))
      else None
  | RBegin =>
      match pc s with
      | Idle => Some (mk_st (emit_zero s) (units s) (cs s) (gs s) (hs s) PCounters (map fst (cs s)) [] [] [] [] None (out s))
      | _ => None
      end
  | RCounter k =>
      match pc s, find k (cs s) with
      | PCounters, Some c =>
          if mem k (seen s) then None
          else Some (mk_st (emit_zero s) (units s) (update k (fun _ => 0) (cs s)) (gs s) (hs s) PCounters
                           (remove_key k (todo s)) (k :: seen s)
                           (if emit_zero s || negb (c =? 0) then acc_c s ++ [(k, c)] else acc_c s)
                           (acc_g s) (acc_h s) (drain s) (out s))
      | _, _ => None
      end
  | RGauges =>
      match pc s, todo s with
      | PCounters, [] => Some (mk_st (emit_zero s) (units s) (cs s) (gs s) (hs s) PGauges (map fst (gs s)) []
                                     (sort_keys (acc_c s)) (acc_g s) (acc_h s) (drain s) (out s))
      | _, _ => None
      end
  | RGauge k =>
      match pc s, find k (gs s) with
      | PGauges, Some g =>
          if mem k (seen s) then None
          else Some (mk_st (emit_zero s) (units s) (cs s) (gs s) (hs s) PGauges (remove_key k (todo s)) (k :: seen s)
                           (acc_c s) (acc_g s ++ [(k, g)]) (acc_h s) (drain s) (out s))
      | _, _ => None
      end
  | RHists =>
      match pc s, todo s with
      | PGauges, [] => Some (mk_st (emit_zero s) (units s) (cs s) (gs s) (hs s) PHists (map fst (hs s)) []
                                   (acc_c s) (sort_keys (acc_g s)) (acc_h s) (drain s) (out s))
      | _, _ => None
      end
  | RHistStart k =>
      match pc s, drain s, has k (hs s) with
      | PHists, None, true =>
          if mem k (seen s) then None
          else Some (mk_st (emit_zero s) (units s) (cs s) (gs s) (hs s) PHists (remove_key k (todo s)) (k :: seen s)
                           (acc_c s) (acc_g s) (acc_h s) (Some (k, O, [])) (out s))
      | _, _, _ => None
      end
  | RHistSwap n =>
      match pc s, drain s with
      | PHists, Some (k, i, raw) =>
          match find k (hs s) with
          | Some h =>
              let '(h', i', raw') := swap_n n h i raw in
              Some (mk_st (emit_zero s) (units s) (cs s) (gs s) (update k (fun _ => h') (hs s)) PHists (todo s) (seen s)
                          (acc_c s) (acc_g s) (acc_h s) (Some (k, i', raw')) (out s))
          | None => None
          end
      | _, _ => None
      end
  | RHistDone =>
      match pc s, drain s with
      | PHists, Some (k, i, raw) =>
          if Nat.eqb i hist_slots
          then Some (mk_st (emit_zero s) (units s) (cs s) (gs s) (hs s) PHists (todo s) (seen s)
                           (acc_c s) (acc_g s) (acc_h s ++ [(k, raw)]) None (out s))
          else None
      | _, _ => None
      end
  | RFinish ts =>
      match pc s, drain s, todo s with
      | PHists, None, [] =>
          Some (mk_st (emit_zero s) (units s) (cs s) (gs s) (hs s) Idle [] [] [] [] [] None
                      (out s ++ [mk_entry (acc_c s) (acc_g s) (sort_keys (acc_h s)) (units s) ts]))
      | _, _, _ => None
      end
  end.

Fixpoint run (s : st) (ls : list label) : option st :=
  match ls with
  | [] => Some s
  | l :: r => match step s l with Some s' => run s' r | None => None end
  end.

(* ---------------------------------------------------------------- the Entry impl of a readout *)

Inductive obs_ := OU (v : N) | OF (bits : N) | OR (total_bits : N) (occ : N).
Inductive item :=
| ITimestamp (ts : N)
| IConfigSplit                                             (* AllowSplitEntries *)
| IMetric (name : bytes) (os : list obs_) (unit_code : N) (dims : list label_).

Definition unit_of (us : list (bytes * N)) (name : bytes) : N :=
  match filter (fun p => bytes_eqb name (fst p)) us with
  | (_, u) :: _ => u
  | [] => 0
  end.

(* Observation::Repeated { total: value as f64 * count as f64, occurrences: count as u64 } *)
Definition bucket_obs (b : N * N) : obs_ :=
  OR (to_bits (fmul (of_u64 (fst b)) (of_u64 (snd b)))) (snd b).

Definition entry_items (e : entry_) : list item :=
  [ITimestamp (e_ts e); IConfigSplit] ++
  map (fun kv => IMetric (fst (fst kv)) [OU (snd kv)] (unit_of (e_units e) (fst (fst kv))) (snd (fst kv))) (e_counters e) ++
  map (fun kv => IMetric (fst (fst kv)) [OF (snd kv)] (unit_of (e_units e) (fst (fst kv))) (snd (fst kv))) (e_gauges e) ++
  map (fun kv => IMetric (fst (fst kv)) (map bucket_obs (drained_buckets (snd kv))) (unit_of (e_units e) (fst (fst kv))) (snd (fst kv))) (e_hists e).
