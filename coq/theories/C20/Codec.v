(* C20 — wire codec.
   case   ::= (emit_zero (label ...))
   label  ::= (0 kind key) | (1 name unit) | (2 key n) | (3 key bits) | (4 key bits) | (5 key bits)
            | (6 key bits times) | (7) | (8 key) | (9) | (a key) | (b) | (c key) | (d n) | (e) | (f ts)
   key    ::= (name ((label_key label_value) ...))
   output ::= (1 (entry ...)) with entry ::= (item ...), item ::= (0 ts) | (1) | (2 name (obs ...) unit_text dims)
            | (0 i) when the machine does not accept the i-th label (the trace is not a run of the model) *)
(* DISPATCH 2000 c20_model *)
(* DISPATCH 2001 c20_spec *)
From Coq Require Import List ZArith NArith Bool.
From MV Require Import Common.Sx C11.Model C11.Float C20.Model C20.Spec.
Import ListNotations.
Local Open Scope N_scope.

Definition dec_key (x : sx) : key :=
  (sx_bytes (sx_nth x 0), map (fun p => (sx_bytes (sx_nth p 0), sx_bytes (sx_nth p 1))) (sx_list (sx_nth x 1))).
Definition dec_kind (x : sx) : kind := match sx_z x with 0%Z => KCounter | 1%Z => KGauge | _ => KHist end.

Definition dec_label (x : sx) : label :=
  match sx_tag x with
  | 0%Z => LRegister (dec_kind (sx_arg x 0)) (dec_key (sx_arg x 1))
  | 1%Z => LDescribe (sx_bytes (sx_arg x 0)) (sx_n (sx_arg x 1))
  | 2%Z => LCInc (dec_key (sx_arg x 0)) (sx_n (sx_arg x 1))
  | 3%Z => LGSet (dec_key (sx_arg x 0)) (sx_n (sx_arg x 1))
  | 4%Z => LGAdd (dec_key (sx_arg x 0)) (sx_n (sx_arg x 1))
  | 5%Z => LGSub (dec_key (sx_arg x 0)) (sx_n (sx_arg x 1))
  | 6%Z => LHRec (dec_key (sx_arg x 0)) (sx_n (sx_arg x 1)) (sx_n (sx_arg x 2))
  | 7%Z => RBegin
  | 8%Z => RCounter (dec_key (sx_arg x 0))
  | 9%Z => RGauges
  | 10%Z => RGauge (dec_key (sx_arg x 0))
  | 11%Z => RHists
  | 12%Z => RHistStart (dec_key (sx_arg x 0))
  | 13%Z => RHistSwap (sx_nat (sx_arg x 0))
  | 14%Z => RHistDone
  | _ => RFinish (sx_n (sx_arg x 0))
  end.

Definition enc_obs (o : obs_) : sx :=
  match o with
  | OU v => tagged 0 [of_n v]
  | OF b => tagged 1 [of_n b]
  | OR t c => tagged 2 [of_n t; of_n c]
  end.
Definition enc_dims (d : list label_) : sx := L (map (fun p => L [B (fst p); B (snd p)]) d).
Definition enc_item (it : item) : sx :=
  match it with
  | ITimestamp ts => tagged 0 [of_n ts]
  | IConfigSplit => tagged 1 []
  | IMetric name os u dims => tagged 2 [B name; L (map enc_obs os); B (unit_debug u); enc_dims dims]
  end.

(* index of the first label the machine rejects *)
Fixpoint run_idx (s : st) (ls : list label) (i : N) : st + N :=
  match ls with
  | [] => inl s
  | l :: r => match step s l with Some s' => run_idx s' r (i + 1) | None => inr i end
  end.

Definition c20_model (x : sx) : sx :=
  let ez := sx_bool (sx_nth x 0) in
  let ls := map dec_label (sx_list (sx_nth x 1)) in
  match run_idx (init ez) ls 0 with
  | inl s => tagged 1 [L (map (fun e => L (map enc_item (entry_items e))) (out s))]
  | inr i => tagged 0 [of_n i]
  end.

(* ---- the specification side: the implementation's entries are decoded; the unit text is mapped back to the
   code by searching the table *)
Definition dec_obs (x : sx) : obs_ :=
  match sx_tag x with
  | 0%Z => OU (sx_n (sx_arg x 0))
  | 1%Z => OF (sx_n (sx_arg x 0))
  | _ => OR (sx_n (sx_arg x 0)) (sx_n (sx_arg x 1))
  end.
Definition unit_code_of (text : bytes) : N :=
  match filter (fun c => bytes_eqb text (unit_debug c)) (map N.of_nat (seq 0 18)) with
  | c :: _ => c
  | [] => 99
  end.
Definition dec_item (x : sx) : item :=
  match sx_tag x with
  | 0%Z => ITimestamp (sx_n (sx_arg x 0))
  | 1%Z => IConfigSplit
  | _ => IMetric (sx_bytes (sx_arg x 0)) (map dec_obs (sx_list (sx_arg x 1))) (unit_code_of (sx_bytes (sx_arg x 2)))
                 (map (fun p => (sx_bytes (sx_nth p 0), sx_bytes (sx_nth p 1))) (sx_list (sx_arg x 3)))
  end.

Definition c20_spec (pair : sx) : sx :=
  let x := sx_nth pair 0 in
  let imp := sx_nth pair 1 in
  let ls := map dec_label (sx_list (sx_nth x 1)) in
  of_bool
  match sx_tag imp with
  | 1%Z =>
      (* anything but a timestamp, a config or a metric item (e.g. the harness's panic marker) is a failure *)
      forallb (fun e => forallb (fun it => (0 <=? sx_tag it)%Z && (sx_tag it <=? 2)%Z) (sx_list e)) (sx_list (sx_arg imp 0)) &&
      run_ok (sx_bool (sx_nth x 0)) ls (map (fun e => map dec_item (sx_list e)) (sx_list (sx_arg imp 0)))
  | _ => false
  end.
