(* C20 — the entries: every key at most once per kind, every gauge and histogram registered before the readout
   reached its phase is written. *)
From Coq Require Import List NArith ZArith Bool Lia Permutation.
From MV Require Import Common.Sx C11.Model C20.Model C20.Proofs.
Import ListNotations.
Local Open Scope N_scope.

Definition keys {V} (l : list (key * V)) : list key := map fst l.

Lemma mem_false k l : mem k l = false <-> ~ In k l.
Proof.
  unfold mem. split.
  - intros H Hin. assert (existsb (key_eqb k) l = true); [|congruence].
    apply existsb_exists. exists k. split; [assumption|apply key_eqb_refl].
  - intros H. destruct (existsb (key_eqb k) l) eqn:E; [|reflexivity].
    apply existsb_exists in E. destruct E as (k' & Hin & Hk). apply key_eqb_eq in Hk. subst. contradiction.
Qed.

Lemma keys_app {V} (a b : list (key * V)) : keys (a ++ b) = keys a ++ keys b.
Proof. apply map_app. Qed.

Lemma keys_sort_perm {V} (l : list (key * V)) : Permutation (keys (sort_keys l)) (keys l).
Proof. apply Permutation_map. apply sort_keys_perm. Qed.

Lemma NoDup_snoc {A} (l : list A) x : NoDup l -> ~ In x l -> NoDup (l ++ [x]).
Proof.
  induction l as [|y l IH]; intros Hn Hx; simpl.
  - constructor; [intros []|constructor].
  - inversion Hn as [|? ? Hy Hl]; subst. constructor.
    + intros Hin. apply in_app_or in Hin. destruct Hin as [Hin|[->|[]]]; [contradiction|]. apply Hx. left. reflexivity.
    + apply IH; [assumption|]. intros Hin. apply Hx. right. assumption.
Qed.

Definition drain_key (s : st) : list key := match drain s with Some (k, _, _) => [k] | None => [] end.

(* per phase: what has been pushed so far was visited in this phase, once *)
Record entry_inv (s : st) : Prop := {
  ei_c : NoDup (keys (acc_c s));
  ei_g : NoDup (keys (acc_g s));
  ei_h : NoDup (keys (acc_h s) ++ drain_key s);
  ei_seen_c : pc s = PCounters -> incl (keys (acc_c s)) (seen s);
  ei_seen_g : pc s = PGauges -> incl (keys (acc_g s)) (seen s);
  ei_seen_h : pc s = PHists -> incl (keys (acc_h s) ++ drain_key s) (seen s);
  ei_early_g : pc s = PCounters -> acc_g s = [];
  ei_early_h : pc s = PCounters \/ pc s = PGauges -> acc_h s = [] /\ drain s = None;
  ei_out : Forall (fun e => NoDup (keys (e_counters e)) /\ NoDup (keys (e_gauges e)) /\ NoDup (keys (e_hists e))) (out s)
}.

Lemma entry_inv_init ez : entry_inv (init ez).
Proof. constructor; simpl; try constructor; try discriminate; auto; intros; try (split; reflexivity); intros ? []. Qed.

Lemma entry_inv_ext s s' :
  pc s' = pc s -> seen s' = seen s -> acc_c s' = acc_c s -> acc_g s' = acc_g s -> acc_h s' = acc_h s ->
  drain s' = drain s -> out s' = out s -> entry_inv s -> entry_inv s'.
Proof.
  intros E1 E2 E3 E4 E5 E6 E7 [Hc Hg Hh Sc Sg Sh Eg Eh Ho].
  constructor; unfold drain_key in *; rewrite ?E1, ?E2, ?E3, ?E4, ?E5, ?E6, ?E7; assumption.
Qed.

Ltac side := try solve [ assumption | discriminate | (intros [?Hp|?Hp]; congruence) | (intros _; auto) | constructor ].
Ltac same_fields := match goal with Hinv : entry_inv ?s |- _ => apply (entry_inv_ext s); [reflexivity ..|exact Hinv] end.

Lemma entry_inv_step s l s' : step s l = Some s' -> idle_clean s -> entry_inv s -> entry_inv s'.
Proof.
  intros H HI Hinv.
  destruct l; simpl in H.
  - (* LRegister *)
    destruct kd; simpl in H; injection H as <-;
      match goal with |- context [if ?b then _ else _] => destruct b end; try assumption; same_fields.
  - injection H as <-. same_fields.
  - break_step H. injection H as <-. same_fields.
  - break_step H. injection H as <-. same_fields.
  - break_step H. injection H as <-. same_fields.
  - break_step H. injection H as <-. same_fields.
  - break_step H. injection H as <-. same_fields.
  - (* RBegin *)
    break_step H. injection H as <-. destruct Hinv as [Hc Hg Hh Sc Sg Sh Eg Eh Ho].
    constructor; simpl; [constructor|constructor|constructor|intros _ ? []|discriminate|discriminate|reflexivity|intros _; split; reflexivity|assumption].
  - (* RCounter *)
    break_step H. injection H as <-. destruct Hinv as [Hc Hg Hh Sc Sg Sh Eg Eh Ho].
    match goal with E : mem _ _ = false |- _ => apply mem_false in E; rename E into Hnew end.
    match goal with E : pc s = PCounters |- _ => rename E into Hpc end.
    specialize (Sc Hpc).
    constructor; simpl; try assumption; try discriminate; auto.
    + destruct (emit_zero s || negb (n =? 0)); [|assumption].
      unfold keys. rewrite map_app. simpl. apply NoDup_snoc; [assumption|]. intros Hin. apply Hnew. apply Sc. assumption.
    + intros _. destruct (emit_zero s || negb (n =? 0)).
      * unfold keys. rewrite map_app. simpl. intros x Hx. apply in_app_or in Hx.
        destruct Hx as [Hx|[<-|[]]]; [right; apply Sc; assumption|left; reflexivity].
      * intros x Hx. right. apply Sc. assumption.
  - (* RGauges *)
    break_step H. injection H as <-. destruct Hinv as [Hc Hg Hh Sc Sg Sh Eg Eh Ho].
    match goal with E : pc s = PCounters |- _ => rename E into Hpc end.
    constructor; simpl; try assumption; try discriminate; auto.
    + eapply Permutation_NoDup; [symmetry; apply keys_sort_perm|assumption].
    + intros _. rewrite (Eg Hpc). intros ? [].
  - (* RGauge *)
    break_step H. injection H as <-. destruct Hinv as [Hc Hg Hh Sc Sg Sh Eg Eh Ho].
    match goal with E : mem _ _ = false |- _ => apply mem_false in E; rename E into Hnew end.
    match goal with E : pc s = PGauges |- _ => rename E into Hpc end.
    specialize (Sg Hpc).
    constructor; simpl; try assumption; try discriminate; auto.
    + unfold keys. rewrite map_app. simpl. apply NoDup_snoc; [assumption|]. intros Hin. apply Hnew. apply Sg. assumption.
    + intros _. unfold keys. rewrite map_app. simpl. intros x Hx. apply in_app_or in Hx.
      destruct Hx as [Hx|[<-|[]]]; [right; apply Sg; assumption|left; reflexivity].
  - (* RHists *)
    break_step H. injection H as <-. destruct Hinv as [Hc Hg Hh Sc Sg Sh Eg Eh Ho].
    match goal with E : pc s = PGauges |- _ => rename E into Hpc end.
    destruct (Eh (or_intror Hpc)) as [Hah Hd].
    constructor; simpl; side.
    + eapply Permutation_NoDup; [symmetry; apply keys_sort_perm|assumption].
    + intros _. unfold drain_key. simpl. rewrite Hah, Hd. intros ? [].
  - (* RHistStart *)
    break_step H. injection H as <-. destruct Hinv as [Hc Hg Hh Sc Sg Sh Eg Eh Ho].
    match goal with E : mem _ _ = false |- _ => apply mem_false in E; rename E into Hnew end.
    match goal with E : pc s = PHists |- _ => rename E into Hpc end.
    match goal with E : drain s = None |- _ => rename E into Hd end.
    specialize (Sh Hpc). unfold drain_key in *. rewrite Hd in *. rewrite app_nil_r in *.
    constructor; simpl; side.
    + apply NoDup_snoc; [assumption|]. intros Hin. apply Hnew. apply Sh. assumption.
    + intros _ x Hx. apply in_app_or in Hx. destruct Hx as [Hx|[<-|[]]]; [right; apply Sh; assumption|left; reflexivity].
  - (* RHistSwap *)
    break_step H. injection H as <-. destruct Hinv as [Hc Hg Hh Sc Sg Sh Eg Eh Ho].
    match goal with E : pc s = PHists |- _ => rename E into Hpc end.
    match goal with E : drain s = Some _ |- _ => rename E into Hd end.
    unfold drain_key in *. rewrite Hd in *.
    constructor; simpl; side.
  - (* RHistDone *)
    break_step H. injection H as <-. destruct Hinv as [Hc Hg Hh Sc Sg Sh Eg Eh Ho].
    match goal with E : pc s = PHists |- _ => rename E into Hpc end.
    match goal with E : drain s = Some _ |- _ => rename E into Hd end.
    unfold drain_key in *. rewrite Hd in *.
    constructor; simpl; side.
    + unfold keys in *. rewrite map_app. simpl. rewrite app_nil_r. assumption.
    + intros Hp. unfold keys in *. rewrite map_app. simpl. rewrite app_nil_r. apply Sh. assumption.
  - (* RFinish *)
    break_step H. injection H as <-. destruct Hinv as [Hc Hg Hh Sc Sg Sh Eg Eh Ho].
    match goal with E : drain s = None |- _ => rename E into Hd end.
    unfold drain_key in *. rewrite Hd in *. rewrite app_nil_r in *.
    constructor; simpl; side.
    apply Forall_app. split; [assumption|]. constructor; [|constructor]. simpl.
      split; [assumption|]. split; [assumption|].
      eapply Permutation_NoDup; [symmetry; apply keys_sort_perm|assumption].
Qed.

(* c20_entry_no_duplicates: in every entry of every run, every key appears at most once per kind *)
Theorem entries_no_duplicates ls : forall s s', run s ls = Some s' -> idle_clean s -> entry_inv s -> entry_inv s'.
Proof.
  induction ls as [|l ls IH]; intros s s' Hrun HI Hinv; simpl in *.
  - injection Hrun as <-. assumption.
  - destruct (step s l) as [s1|] eqn:Hs; [|discriminate].
    apply (IH s1 s' Hrun); [eapply idle_clean_step; eassumption|eapply entry_inv_step; eassumption].
Qed.

Corollary entries_no_duplicates_init ez ls s : run (init ez) ls = Some s ->
  Forall (fun e => NoDup (keys (e_counters e)) /\ NoDup (keys (e_gauges e)) /\ NoDup (keys (e_hists e))) (out s).
Proof.
  intros H. apply (ei_out s). eapply entries_no_duplicates; [eassumption|apply idle_clean_init|apply entry_inv_init].
Qed.

(* ------------------------------------------------------------ completeness *)

Lemma has_in_keys {V} k (l : list (key * V)) : has k l = true -> In k (keys l).
Proof.
  unfold has. induction l as [|[k' v] r IH]; simpl; [discriminate|].
  destruct (key_eqb k k') eqn:E; [apply key_eqb_eq in E; subst; auto|]. intros H. right. apply IH. assumption.
Qed.

Lemma has_app {V} k (l l' : list (key * V)) : has k l = true -> has k (l ++ l') = true.
Proof. unfold has. rewrite find_app. destruct (find k l); [reflexivity|discriminate]. Qed.

Lemma has_update {V} k k' (f : V -> V) l : has k (update k' f l) = has k l.
Proof.
  unfold has. destruct (key_eqb k k') eqn:E.
  - apply key_eqb_eq in E. subst. rewrite find_update_same. destruct (find k' l); reflexivity.
  - apply key_eqb_neq in E. rewrite find_update_other by assumption. reflexivity.
Qed.

Lemma in_remove_key k k0 l : In k l -> k = k0 \/ In k (remove_key k0 l).
Proof.
  intros Hin. destruct (key_eqb k0 k) eqn:E.
  - apply key_eqb_eq in E. auto.
  - right. unfold remove_key. apply filter_In. split; [assumption|]. rewrite E. reflexivity.
Qed.

Definition gauges_pending (K : list key) (s : st) : Prop :=
  match pc s with
  | PGauges => forall k, In k K -> In k (todo s) \/ In k (keys (acc_g s))
  | PHists => forall k, In k K -> In k (keys (acc_g s))
  | _ => True
  end.
Definition hists_pending (K : list key) (s : st) : Prop :=
  match pc s with
  | PHists => forall k, In k K -> In k (todo s) \/ In k (keys (acc_h s) ++ drain_key s)
  | _ => True
  end.
Definition all_gauges (K : list key) (s : st) : Prop := forall k, In k K -> has k (gs s) = true.
Definition all_hists (K : list key) (s : st) : Prop := forall k, In k K -> has k (hs s) = true.

Lemma registered_step K s l s' : step s l = Some s' ->
  (all_gauges K s -> all_gauges K s') /\ (all_hists K s -> all_hists K s').
Proof.
  intros H. unfold all_gauges, all_hists.
  assert (Hmono : (forall k, has k (gs s) = true -> has k (gs s') = true) /\
                  (forall k, has k (hs s) = true -> has k (hs s') = true)).
  { destruct l; simpl in H; try (destruct kd; simpl in H); break_step H; injection H as <-;
      repeat match goal with |- context [if has ?a ?b then _ else _] => destruct (has a b) end;
      simpl; split; intros kk Hk; try assumption;
      try (apply has_app; assumption); try (rewrite has_update; assumption). }
  destruct Hmono as [Mg Mh]. split; intros HK kk Hk; auto.
Qed.

Lemma gauges_pending_ext K s s' : pc s' = pc s -> todo s' = todo s -> acc_g s' = acc_g s ->
  gauges_pending K s -> gauges_pending K s'.
Proof. unfold gauges_pending. intros -> -> ->. auto. Qed.
Lemma hists_pending_ext K s s' : pc s' = pc s -> todo s' = todo s -> acc_h s' = acc_h s -> drain s' = drain s ->
  hists_pending K s -> hists_pending K s'.
Proof. unfold hists_pending, drain_key. intros -> -> -> ->. auto. Qed.

Ltac gp_same := match goal with HP : gauges_pending ?K ?s |- _ => apply (gauges_pending_ext K s); [reflexivity ..|exact HP] end.
Ltac hp_same := match goal with HP : hists_pending ?K ?s |- _ => apply (hists_pending_ext K s); [reflexivity ..|exact HP] end.

Lemma gauges_pending_step K s l s' : step s l = Some s' -> all_gauges K s -> gauges_pending K s -> gauges_pending K s'.
Proof.
  intros H HK HP.
  destruct l; simpl in H.
  - destruct kd; simpl in H; injection H as <-;
      match goal with |- context [if ?b then _ else _] => destruct b end; try assumption; gp_same.
  - injection H as <-. gp_same.
  - break_step H. injection H as <-. gp_same.
  - break_step H. injection H as <-. gp_same.
  - break_step H. injection H as <-. gp_same.
  - break_step H. injection H as <-. gp_same.
  - break_step H. injection H as <-. gp_same.
  - break_step H. injection H as <-. exact I.
  - break_step H. injection H as <-. exact I.
  - (* RGauges *)
    break_step H. injection H as <-. unfold gauges_pending. simpl.
    intros kk Hk. left. apply has_in_keys. apply HK. assumption.
  - (* RGauge *)
    break_step H. injection H as <-. unfold gauges_pending in *. simpl.
    match goal with E : pc s = PGauges |- _ => rewrite E in HP end.
    intros k1 Hk. destruct (HP k1 Hk) as [Ht|Ha].
    + destruct (in_remove_key k1 k _ Ht) as [->|Hr]; [|left; assumption].
      right. unfold keys. rewrite map_app. apply in_or_app. right. left. reflexivity.
    + right. unfold keys. rewrite map_app. apply in_or_app. left. assumption.
  - (* RHists *)
    break_step H. injection H as <-. unfold gauges_pending in *. simpl.
    match goal with E : pc s = PGauges |- _ => rewrite E in HP end.
    match goal with E : todo s = [] |- _ => rewrite E in HP end.
    intros kk Hk. destruct (HP kk Hk) as [[]|Ha].
    apply (Permutation_in _ (Permutation_sym (keys_sort_perm (acc_g s)))). assumption.
  - (* RHistStart *)
    break_step H. injection H as <-. unfold gauges_pending in *. simpl.
    match goal with E : pc s = PHists |- _ => rewrite E in HP end. assumption.
  - break_step H. injection H as <-. unfold gauges_pending in *. simpl.
    match goal with E : pc s = PHists |- _ => rewrite E in HP end. assumption.
  - break_step H. injection H as <-. unfold gauges_pending in *. simpl.
    match goal with E : pc s = PHists |- _ => rewrite E in HP end. assumption.
  - break_step H. injection H as <-. exact I.
Qed.

Lemma hists_pending_step K s l s' : step s l = Some s' -> all_hists K s -> hists_pending K s -> hists_pending K s'.
Proof.
  intros H HK HP.
  destruct l; simpl in H.
  - destruct kd; simpl in H; injection H as <-;
      match goal with |- context [if ?b then _ else _] => destruct b end; try assumption; hp_same.
  - injection H as <-. hp_same.
  - break_step H. injection H as <-. hp_same.
  - break_step H. injection H as <-. hp_same.
  - break_step H. injection H as <-. hp_same.
  - break_step H. injection H as <-. hp_same.
  - break_step H. injection H as <-. hp_same.
  - break_step H. injection H as <-. exact I.
  - break_step H. injection H as <-. exact I.
  - break_step H. injection H as <-. exact I.
  - break_step H. injection H as <-. exact I.
  - (* RHists *)
    break_step H. injection H as <-. unfold hists_pending. simpl.
    intros kk Hk. left. apply has_in_keys. apply HK. assumption.
  - (* RHistStart *)
    break_step H. injection H as <-. unfold hists_pending, drain_key in *. simpl.
    match goal with E : pc s = PHists |- _ => rewrite E in HP end.
    match goal with E : drain s = None |- _ => rewrite E in HP end. rewrite app_nil_r in HP.
    intros k1 Hk. destruct (HP k1 Hk) as [Ht|Ha].
    + destruct (in_remove_key k1 k _ Ht) as [->|Hr]; [|left; assumption].
      right. apply in_or_app. right. left. reflexivity.
    + right. apply in_or_app. left. assumption.
  - (* RHistSwap *)
    break_step H. injection H as <-. unfold hists_pending, drain_key in *. simpl.
    match goal with E : pc s = PHists |- _ => rewrite E in HP end.
    match goal with E : drain s = Some _ |- _ => rewrite E in HP end. assumption.
  - (* RHistDone *)
    break_step H. injection H as <-. unfold hists_pending, drain_key in *. simpl.
    match goal with E : pc s = PHists |- _ => rewrite E in HP end.
    match goal with E : drain s = Some _ |- _ => rewrite E in HP end.
    intros k1 Hk. destruct (HP k1 Hk) as [Ht|Ha]; [left; assumption|right].
    unfold keys in *. rewrite map_app. simpl. rewrite app_nil_r. assumption.
  - break_step H. injection H as <-. exact I.
Qed.

Lemma pending_run K ls : forall s s', run s ls = Some s' ->
  all_gauges K s -> all_hists K s -> gauges_pending K s -> hists_pending K s ->
  all_gauges K s' /\ all_hists K s' /\ gauges_pending K s' /\ hists_pending K s'.
Proof.
  induction ls as [|l ls IH]; intros s s' Hrun Hg Hh Pg Ph; simpl in *.
  - injection Hrun as <-. auto.
  - destruct (step s l) as [s1|] eqn:Hs; [|discriminate].
    destruct (registered_step K s l s1 Hs) as [Rg Rh].
    apply (IH s1 s' Hrun); auto.
    + eapply gauges_pending_step; eassumption.
    + eapply hists_pending_step; eassumption.
Qed.

(* c20_entry_complete: take any moment at which the reporter is idle or still visiting counters; every gauge and
   every histogram registered by then is written by the entry that the next (and every later) RFinish completes *)
Theorem entry_complete K ls ts s0 s1 s2 :
  pc s0 = Idle \/ pc s0 = PCounters -> all_gauges K s0 -> all_hists K s0 ->
  run s0 ls = Some s1 -> step s1 (RFinish ts) = Some s2 ->
  exists e, out s2 = out s1 ++ [e] /\ e_ts e = ts /\
            (forall k, In k K -> In k (keys (e_gauges e))) /\ (forall k, In k K -> In k (keys (e_hists e))).
Proof.
  intros Hpc Hg Hh Hrun Hfin.
  assert (Pg : gauges_pending K s0) by (unfold gauges_pending; destruct Hpc as [-> | ->]; exact I).
  assert (Ph : hists_pending K s0) by (unfold hists_pending; destruct Hpc as [-> | ->]; exact I).
  destruct (pending_run K ls s0 s1 Hrun Hg Hh Pg Ph) as (_ & _ & Pg1 & Ph1).
  simpl in Hfin. break_step Hfin. injection Hfin as <-. simpl.
  eexists. split; [reflexivity|]. simpl. split; [reflexivity|].
  unfold gauges_pending, hists_pending, drain_key in *.
  repeat match goal with E : pc s1 = _ |- _ => rewrite E in * end.
  match goal with E : drain s1 = None |- _ => rewrite E in * end.
  match goal with E : todo s1 = [] |- _ => rewrite E in * end.
  split; [exact Pg1|].
  intros k Hk. destruct (Ph1 k Hk) as [[]|Ha]. rewrite app_nil_r in Ha.
  apply (Permutation_in _ (Permutation_sym (keys_sort_perm (acc_h s1)))). assumption.
Qed.

(* ------------------------------------------------------------ units *)

(* the unit written for a name is the one last described for it, in whatever order describes and registrations
   happened; 0 (= None) when it was never described *)
Definition described (name : bytes) (ls : list label) (u0 : N) : N :=
  fold_left (fun acc l => match l with LDescribe n u => if bytes_eqb name n then u else acc | _ => acc end) ls u0.

Lemma bytes_eqb_eq a b : bytes_eqb a b = true <-> a = b.
Proof. unfold bytes_eqb. destruct (bytes_cmp a b) eqn:E; split; intros H; try discriminate; try reflexivity;
  try (apply bytes_cmp_eq; assumption); apply bytes_cmp_eq in H; congruence. Qed.

Lemma unit_of_step name s l s' : step s l = Some s' ->
  unit_of (units s') name = match l with
                            | LDescribe n u => if bytes_eqb name n then u else unit_of (units s) name
                            | _ => unit_of (units s) name
                            end.
Proof.
  intros H.
  destruct l; simpl in H; try (destruct kd; simpl in H); break_step H; injection H as <-;
    repeat match goal with |- context [if has ?a ?b then _ else _] => destruct (has a b) end; simpl; try reflexivity.
  unfold unit_of. simpl. destruct (bytes_eqb name name0) eqn:E; [reflexivity|].
  (* the filter that removed the old entries of name0 does not touch entries of name *)
  induction (units s) as [|[n1 u1] r IH]; simpl; [reflexivity|].
  destruct (bytes_eqb name0 n1) eqn:E1; simpl.
  - apply bytes_eqb_eq in E1. subst n1. rewrite E. exact IH.
  - destruct (bytes_eqb name n1); [reflexivity|exact IH].
Qed.

Theorem units_last_described name ls : forall s s', run s ls = Some s' ->
  unit_of (units s') name = described name ls (unit_of (units s) name).
Proof.
  induction ls as [|l ls IH]; intros s s' H; simpl in *.
  - injection H as <-. reflexivity.
  - destruct (step s l) as [s1|] eqn:Hs; [|discriminate].
    rewrite (IH s1 s' H). rewrite (unit_of_step name s l s1 Hs). destruct l; reflexivity.
Qed.
