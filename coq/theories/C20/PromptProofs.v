(* C20 — promptness: every increment made before a readout begins is reported at the latest by that readout
   (and, by the accounting equation, never before it was made and never twice). *)
From Coq Require Import List NArith ZArith Bool Lia Permutation.
From MV Require Import Common.Sx C11.Model C20.Model C20.Proofs C20.EntryProofs.
Import ListNotations.
Local Open Scope N_scope.

Definition reported (k : key) (s : st) : N := out_csum k (out s) + csum k (acc_c s).

(* while the readout that is in progress has not visited k yet, or else B is already reported *)
Definition prompt_inv (k : key) (B : N) (s : st) : Prop :=
  (pc s = PCounters /\ In k (todo s)) \/ B <= reported k s.

Lemma in_remove_other k k0 l : k <> k0 -> In k l -> In k (remove_key k0 l).
Proof.
  intros Hne Hin. unfold remove_key. apply filter_In. split; [assumption|].
  apply negb_true_iff. apply key_eqb_neq. congruence.
Qed.

Lemma prompt_step k B s l s' : step s l = Some s' -> l <> RBegin ->
  B <= accounted k s -> prompt_inv k B s -> prompt_inv k B s'.
Proof.
  intros H Hnb Hacc HP. unfold prompt_inv, reported, accounted, cell in *.
  destruct l; simpl in H.
  - destruct kd; simpl in H; injection H as <-;
      match goal with |- context [if ?b then _ else _] => destruct b end; exact HP.
  - injection H as <-. exact HP.
  - break_step H. injection H as <-. exact HP.
  - break_step H. injection H as <-. exact HP.
  - break_step H. injection H as <-. exact HP.
  - break_step H. injection H as <-. exact HP.
  - break_step H. injection H as <-. exact HP.
  - congruence.
  - (* RCounter *)
    break_step H; injection H as <-; simpl.
    destruct (key_eqb k k0) eqn:Ek.
    + apply key_eqb_eq in Ek. subst k0. right.
      try match goal with F : find k (cs s) = Some _ |- _ => rewrite F in Hacc end.
      destruct (emit_zero s || negb (n =? 0)) eqn:E2.
      * rewrite csum_app. simpl. rewrite key_eqb_refl. lia.
      * apply orb_false_iff in E2. destruct E2 as [_ E2]. apply negb_false_iff in E2. apply N.eqb_eq in E2. lia.
    + apply key_eqb_neq in Ek. destruct HP as [[Hpc Hin]|HB].
      * left. split; [reflexivity|]. apply in_remove_other; assumption.
      * right. destruct (emit_zero s || negb (n =? 0)); [|assumption].
        rewrite csum_app. lia.
  - (* RGauges *)
    break_step H. injection H as <-. simpl. destruct HP as [[Hpc Hin]|HB].
    + exfalso. repeat match goal with E : todo s = [] |- _ => rewrite E in Hin end. destruct Hin.
    + right. rewrite csum_sort. assumption.
  - break_step H. injection H as <-. simpl. destruct HP as [[Hpc Hin]|HB]; [congruence|right; assumption].
  - break_step H. injection H as <-. simpl. destruct HP as [[Hpc Hin]|HB]; [congruence|right; assumption].
  - break_step H. injection H as <-. simpl. destruct HP as [[Hpc Hin]|HB]; [congruence|right; assumption].
  - break_step H. injection H as <-. simpl. destruct HP as [[Hpc Hin]|HB]; [congruence|right; assumption].
  - break_step H. injection H as <-. simpl. destruct HP as [[Hpc Hin]|HB]; [congruence|right; assumption].
  - (* RFinish *)
    break_step H. injection H as <-. simpl. destruct HP as [[Hpc Hin]|HB]; [congruence|right].
    rewrite out_csum_app. simpl. lia.
Qed.

Lemma accounted_mono k ls : forall s s' total, run s ls = Some s' -> idle_clean s ->
  accounted k s = total -> total + incs k ls < 2 ^ 64 -> total <= accounted k s'.
Proof.
  intros s s' total Hrun HI Hacc Hb. rewrite (counter_accounted k ls s s' total Hrun HI Hacc Hb). lia.
Qed.

(* along a run without RBegin the invariant is kept *)
Lemma prompt_run k B ls : forall s s' total, run s ls = Some s' -> ~ In RBegin ls -> idle_clean s ->
  accounted k s = total -> B <= total -> total + incs k ls < 2 ^ 64 -> prompt_inv k B s -> prompt_inv k B s'.
Proof.
  induction ls as [|l ls IH]; intros s s' total Hrun Hnb HI Hacc HB Hb HP; simpl in *.
  - injection Hrun as <-. assumption.
  - destruct (step s l) as [s1|] eqn:Hs; [|discriminate].
    assert (Hl : l <> RBegin) by (intros ->; apply Hnb; left; reflexivity).
    assert (Hacc1 : accounted k s1 = total + inc_of k l).
    { eapply accounted_step; try eassumption. lia. }
    apply (IH s1 s' (total + inc_of k l)); try assumption.
    + intros Hin. apply Hnb. right. assumption.
    + eapply idle_clean_step; eassumption.
    + lia.
    + lia.
    + eapply prompt_step; try eassumption. lia.
Qed.

(* c20_counter_prompt: whatever was incremented on a registered counter before a readout begins has been
   reported once that readout finishes; it may already have been reported by earlier readouts, never more than
   once in total (c20_counter_once) *)
Theorem counter_prompt ez k pre mid ts s :
  run (init ez) (pre ++ RBegin :: mid ++ [RFinish ts]) = Some s -> ~ In RBegin mid ->
  In (LRegister KCounter k) pre -> incs k (pre ++ RBegin :: mid ++ [RFinish ts]) < 2 ^ 64 ->
  incs k pre <= out_csum k (out s) /\ out_csum k (out s) <= incs k (pre ++ RBegin :: mid).
Proof.
  intros Hrun Hnb Hreg Hb.
  (* split the run *)
  assert (Hsplit : forall a b s0 sz, run s0 (a ++ b) = Some sz -> exists sm, run s0 a = Some sm /\ run sm b = Some sz).
  { induction a as [|x a IHa]; intros b s0 sz Hr; simpl in *; [eauto|].
    destruct (step s0 x) as [s1|]; [|discriminate]. apply IHa. assumption. }
  destruct (Hsplit _ _ _ _ Hrun) as (s0 & Hpre & Hrest).
  cbn [run] in Hrest. destruct (step s0 RBegin) as [s1|] eqn:Hbeg; [|discriminate].
  destruct (Hsplit _ _ _ _ Hrest) as (s2 & Hmid & Hfin).
  assert (Hincs : forall a b, incs k (a ++ b) = incs k a + incs k b).
  { induction a; intros; simpl; [reflexivity|]. rewrite IHa. lia. }
  rewrite Hincs in Hb. simpl in Hb. rewrite Hincs in Hb. simpl in Hb.
  pose proof (counter_accounted_init ez k pre s0 Hpre ltac:(lia)) as Hacc0.
  assert (HI0 : idle_clean s0).
  { clear - Hpre. assert (G : forall ls s s', run s ls = Some s' -> idle_clean s -> idle_clean s').
    { induction ls; intros s s' Hr Hi; simpl in *; [injection Hr as <-; assumption|].
      destruct (step s a) eqn:E; [|discriminate]. eapply IHls; [eassumption|]. eapply idle_clean_step; eassumption. }
    eapply G; [eassumption|apply idle_clean_init]. }
  assert (Hacc1 : accounted k s1 = incs k pre).
  { rewrite <- Hacc0. replace (accounted k s0) with (accounted k s0 + inc_of k RBegin) by (simpl; lia).
    eapply accounted_step; try eassumption; [reflexivity|simpl; lia]. }
  assert (HI1 : idle_clean s1) by (eapply idle_clean_step; eassumption).
  (* k is registered, hence in the todo list of this readout *)
  assert (Hhas : has k (cs s0) = true).
  { clear - Hpre Hreg.
    assert (G : forall ls s s', run s ls = Some s' -> (has k (cs s) = true \/ In (LRegister KCounter k) ls) -> has k (cs s') = true).
    { induction ls as [|l ls IH]; intros s s' Hr Hor; simpl in *.
      - injection Hr as <-. destruct Hor as [H|[]]. assumption.
      - destruct (step s l) as [s1|] eqn:E; [|discriminate]. apply (IH s1 s' Hr).
        destruct Hor as [Hh|[->|Hin]]; [left|left|right; assumption].
        + destruct l; simpl in E; try (destruct kd; simpl in E); break_step E; injection E as <-;
            repeat match goal with |- context [if has ?a ?b then _ else _] => destruct (has a b) eqn:? end;
            simpl; try assumption; try (apply has_app; assumption); try (rewrite has_update; assumption).
        + simpl in E. injection E as <-. destruct (has k (cs s)) eqn:Hk; [assumption|].
          simpl. unfold has. rewrite find_app. unfold has in Hk. destruct (find k (cs s)); [discriminate|].
          simpl. rewrite key_eqb_refl. reflexivity. }
    eapply G; [eassumption|right; assumption]. }
  assert (HP1 : prompt_inv k (incs k pre) s1).
  { simpl in Hbeg. break_step Hbeg. injection Hbeg as <-. left. simpl. split; [reflexivity|].
    apply has_in_keys. assumption. }
  assert (HP2 : prompt_inv k (incs k pre) s2).
  { eapply (prompt_run k (incs k pre) mid s1 s2 (incs k pre)); try eassumption; lia. }
  assert (HI2 : idle_clean s2).
  { clear - Hmid HI1. revert s1 HI1 Hmid. induction mid; intros s1 HI1 Hmid; simpl in *; [injection Hmid as <-; assumption|].
    destruct (step s1 a) eqn:E; [|discriminate]. eapply IHmid; [|eassumption]. eapply idle_clean_step; eassumption. }
  assert (Hacc2 : accounted k s2 = incs k pre + incs k mid).
  { eapply counter_accounted; try eassumption. lia. }
  cbn [run] in Hfin. destruct (step s2 (RFinish ts)) as [s3|] eqn:Hf; [|discriminate]. injection Hfin as <-.
  assert (HP3 : prompt_inv k (incs k pre) s3).
  { eapply prompt_step; try eassumption; [discriminate|lia]. }
  assert (Hacc3 : accounted k s3 = incs k pre + incs k mid).
  { rewrite <- Hacc2. replace (accounted k s2) with (accounted k s2 + inc_of k (RFinish ts)) by (simpl; lia).
    eapply accounted_step; try eassumption; [reflexivity|simpl; lia]. }
  simpl in Hf. break_step Hf. injection Hf as <-.
  unfold prompt_inv, reported, accounted in *. simpl in *.
  destruct HP3 as [[Hpc _]|HB]; [discriminate|].
  rewrite Hincs. simpl. split; lia.
Qed.
