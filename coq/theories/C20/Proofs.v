(* C20 — proofs: for every interleaving of updates and readout steps (every label list the machine accepts)
   counters and histogram slots are accounted for exactly once, gauges report the last value, entries are
   complete and duplicate-free. *)
From Coq Require Import List NArith ZArith Bool Lia Permutation.
From Flocq Require Import IEEE754.Binary IEEE754.Bits.
From MV Require Import Common.Sx C11.Model C11.Float C11.BucketProofs C11.HistProofs C20.Model.
Import ListNotations.
Local Open Scope N_scope.

(* ------------------------------------------------------------ keys *)

Lemma bytes_cmp_eq a : forall b, bytes_cmp a b = Eq <-> a = b.
Proof.
  induction a as [|x a IH]; intros [|y b]; simpl; split; intros H; try discriminate; try reflexivity.
  - destruct (x ?= y) eqn:E; try discriminate. apply N.compare_eq in E. subst. f_equal. apply IH. assumption.
  - injection H as -> ->. rewrite N.compare_refl. apply IH. reflexivity.
Qed.

Lemma label_cmp_eq a b : label_cmp a b = Eq <-> a = b.
Proof.
  destruct a as [a1 a2], b as [b1 b2]. unfold label_cmp. simpl. split; intros H.
  - destruct (bytes_cmp a1 b1) eqn:E; try discriminate. apply bytes_cmp_eq in E. apply bytes_cmp_eq in H. subst. reflexivity.
  - injection H as -> ->. destruct (bytes_cmp b1 b1) eqn:E.
    + apply bytes_cmp_eq. reflexivity.
    + assert (bytes_cmp b1 b1 = Eq) by (apply bytes_cmp_eq; reflexivity). congruence.
    + assert (bytes_cmp b1 b1 = Eq) by (apply bytes_cmp_eq; reflexivity). congruence.
Qed.

Lemma labels_cmp_eq a : forall b, labels_cmp a b = Eq <-> a = b.
Proof.
  induction a as [|x a IH]; intros [|y b]; simpl; split; intros H; try discriminate; try reflexivity.
  - destruct (label_cmp x y) eqn:E; try discriminate. apply label_cmp_eq in E. subst. f_equal. apply IH. assumption.
  - injection H as -> ->. assert (E : label_cmp y y = Eq) by (apply label_cmp_eq; reflexivity). rewrite E. apply IH. reflexivity.
Qed.

Lemma key_eqb_eq a b : key_eqb a b = true <-> a = b.
Proof.
  destruct a as [an al], b as [bn bl]. unfold key_eqb, key_cmp. simpl. split; intros H.
  - destruct (bytes_cmp an bn) eqn:E1; try discriminate. apply bytes_cmp_eq in E1. subst.
    destruct (N.of_nat (length al) ?= N.of_nat (length bl)) eqn:E2; try discriminate.
    destruct (labels_cmp al bl) eqn:E3; try discriminate. apply labels_cmp_eq in E3. subst. reflexivity.
  - injection H as -> ->.
    assert (E1 : bytes_cmp bn bn = Eq) by (apply bytes_cmp_eq; reflexivity). rewrite E1.
    rewrite N.compare_refl.
    assert (E3 : labels_cmp bl bl = Eq) by (apply labels_cmp_eq; reflexivity). rewrite E3. reflexivity.
Qed.

Lemma key_eqb_refl a : key_eqb a a = true.
Proof. apply key_eqb_eq. reflexivity. Qed.

Lemma key_eqb_neq a b : key_eqb a b = false <-> a <> b.
Proof.
  split; intros H.
  - intros E. apply key_eqb_eq in E. congruence.
  - destruct (key_eqb a b) eqn:E; [apply key_eqb_eq in E; contradiction|reflexivity].
Qed.

Lemma key_eqb_sym a b : key_eqb a b = key_eqb b a.
Proof.
  destruct (key_eqb a b) eqn:E.
  - apply key_eqb_eq in E. subst. symmetry. apply key_eqb_refl.
  - symmetry. apply key_eqb_neq. apply key_eqb_neq in E. congruence.
Qed.

(* ------------------------------------------------------------ association lists *)

Section Assoc.
Context {V : Type}.

Lemma find_update_same k (f : V -> V) l : find k (update k f l) = option_map f (find k l).
Proof.
  induction l as [|[k' v] r IH]; simpl; [reflexivity|].
  destruct (key_eqb k k') eqn:E; simpl; rewrite E; [reflexivity|exact IH].
Qed.

Lemma find_update_other k k' (f : V -> V) l : k <> k' -> find k (update k' f l) = find k l.
Proof.
  intros Hne. induction l as [|[k2 v] r IH]; simpl; [reflexivity|].
  destruct (key_eqb k' k2) eqn:E; simpl.
  - apply key_eqb_eq in E. subst k2.
    assert (E2 : key_eqb k k' = false) by (apply key_eqb_neq; assumption). rewrite E2. reflexivity.
  - destruct (key_eqb k k2); [reflexivity|exact IH].
Qed.

Lemma find_app k (l l' : list (key * V)) : find k (l ++ l') = match find k l with Some v => Some v | None => find k l' end.
Proof.
  induction l as [|[k' v] r IH]; simpl; [reflexivity|]. destruct (key_eqb k k'); [reflexivity|exact IH].
Qed.

Lemma update_keys (f : V -> V) k l : map fst (update k f l) = map fst l.
Proof.
  induction l as [|[k' v] r IH]; simpl; [reflexivity|]. destruct (key_eqb k k'); simpl; [reflexivity|]. f_equal. exact IH.
Qed.

Lemma insert_key_perm (p : key * V) l : Permutation (insert_key p l) (p :: l).
Proof.
  induction l as [|q r IH]; simpl; [reflexivity|].
  destruct (key_leb (fst p) (fst q)); [reflexivity|]. rewrite IH. apply perm_swap.
Qed.

Lemma sort_keys_perm (l : list (key * V)) : Permutation (sort_keys l) l.
Proof.
  induction l as [|p r IH]; simpl; [reflexivity|]. rewrite insert_key_perm. constructor. exact IH.
Qed.
End Assoc.

(* ------------------------------------------------------------ sums over reports *)

(* what a list of (key, value) pairs holds for key k *)
Definition csum (k : key) (l : list (key * N)) : N :=
  fold_right (fun kv acc => if key_eqb k (fst kv) then snd kv + acc else acc) 0 l.

Lemma csum_app k l l' : csum k (l ++ l') = csum k l + csum k l'.
Proof. induction l as [|kv r IH]; simpl; [reflexivity|]. destruct (key_eqb k (fst kv)); lia. Qed.

Lemma csum_perm k l l' : Permutation l l' -> csum k l = csum k l'.
Proof.
  induction 1; simpl; try lia.
  - destruct (key_eqb k (fst x)); lia.
  - destruct (key_eqb k (fst x)), (key_eqb k (fst y)); lia.
Qed.

Lemma csum_sort k l : csum k (sort_keys l) = csum k l.
Proof. apply csum_perm. apply sort_keys_perm. Qed.

Definition cell (k : key) (s : st) : N := match find k (cs s) with Some c => c | None => 0 end.
Definition out_csum (k : key) (es : list entry_) : N := fold_right (fun e acc => csum k (e_counters e) + acc) 0 es.
Definition inc_of (k : key) (l : label) : N :=
  match l with LCInc k' n => if key_eqb k k' then n else 0 | _ => 0 end.
Definition incs (k : key) (ls : list label) : N := fold_right (fun l acc => inc_of k l + acc) 0 ls.

Lemma out_csum_app k a b : out_csum k (a ++ b) = out_csum k a + out_csum k b.
Proof. induction a; simpl; lia. Qed.

(* everything reported for k so far (completed readouts and the readout in progress) plus what the cell holds *)
Definition accounted (k : key) (s : st) : N := out_csum k (out s) + csum k (acc_c s) + cell k s.

Definition idle_clean (s : st) : Prop :=
  pc s = Idle -> acc_c s = [] /\ acc_g s = [] /\ acc_h s = [] /\ drain s = None.

Ltac break_step H :=
  repeat match type of H with
         | (match ?x with _ => _ end) = Some _ => let E := fresh "E" in destruct x eqn:E; try discriminate H
         | (if ?x then _ else _) = Some _ => let E := fresh "E" in destruct x eqn:E; try discriminate H
         | (let '(_, _) := ?x in _) = Some _ => let E := fresh "E" in destruct x eqn:E
         end.

Lemma idle_clean_step s l s' : step s l = Some s' -> idle_clean s -> idle_clean s'.
Proof.
  intros H HI. unfold idle_clean in *.
  destruct l; simpl in H; try (destruct kd; simpl in H); break_step H; injection H as <-;
    repeat match goal with |- context [if ?b then _ else _] => destruct b end;
    simpl; intros Hpc; try discriminate; try (apply HI; assumption); auto.
Qed.

Lemma cell_update_same k f s : cell k (set_cs s (update k f (cs s))) = match find k (cs s) with Some c => f c | None => 0 end.
Proof. unfold cell. simpl. rewrite find_update_same. destruct (find k (cs s)); reflexivity. Qed.

(* one step: exact accounting, as long as the total incremented stays below 2^64 *)
Lemma accounted_step k s l s' total : step s l = Some s' -> idle_clean s ->
  accounted k s = total -> total + inc_of k l < 2 ^ 64 -> accounted k s' = total + inc_of k l.
Proof.
  intros H HI Hacc Hb. unfold accounted, cell in *.
  destruct l; simpl in H.
  - (* LRegister *)
    destruct kd; simpl in H; injection H as <-;
      match goal with |- context [if ?b then _ else _] => destruct b eqn:E end; simpl; try lia.
    rewrite find_app. simpl. destruct (find k (cs s)) eqn:F; [lia|].
    destruct (key_eqb k k0); lia.
  - injection H as <-. simpl. lia.
  - (* LCInc *)
    break_step H. injection H as <-. simpl. simpl in Hb.
    destruct (key_eqb k k0) eqn:Ek.
    + apply key_eqb_eq in Ek. subst k0. rewrite find_update_same.
      unfold has in E. destruct (find k (cs s)) eqn:F; [|discriminate]. simpl.
      rewrite wrap64_small by lia. lia.
    + apply key_eqb_neq in Ek. rewrite find_update_other by assumption. lia.
  - break_step H. injection H as <-. simpl. lia.
  - break_step H. injection H as <-. simpl. lia.
  - break_step H. injection H as <-. simpl. lia.
  - break_step H. injection H as <-. simpl. lia.
  - (* RBegin *)
    break_step H. injection H as <-. simpl. destruct (HI E) as (Hc & _). rewrite Hc in Hacc. simpl in *. lia.
  - (* RCounter *)
    break_step H; injection H as <-; simpl.
    destruct (key_eqb k k0) eqn:Ek.
    + apply key_eqb_eq in Ek. subst k0. rewrite find_update_same, E0. simpl.
      destruct (emit_zero s || negb (n =? 0)) eqn:E2.
      * rewrite csum_app. simpl. rewrite key_eqb_refl. rewrite E0 in Hacc. lia.
      * apply orb_false_iff in E2. destruct E2 as [_ E2]. apply negb_false_iff in E2. apply N.eqb_eq in E2.
        rewrite E0 in Hacc. lia.
    + pose proof Ek as Ek'. apply key_eqb_neq in Ek. rewrite find_update_other by assumption.
      destruct (emit_zero s || negb (n =? 0)); [|lia].
      rewrite csum_app. simpl. rewrite Ek'. lia.
  - (* RGauges *)
    break_step H. injection H as <-. simpl. rewrite csum_sort. lia.
  - break_step H. injection H as <-. simpl. lia.
  - break_step H. injection H as <-. simpl. lia.
  - break_step H. injection H as <-. simpl. lia.
  - break_step H. injection H as <-. simpl. lia.
  - break_step H. injection H as <-. simpl. lia.
  - (* RFinish *)
    break_step H. injection H as <-. simpl. rewrite out_csum_app. simpl. lia.
Qed.

Lemma idle_clean_init ez : idle_clean (init ez).
Proof. intros _. simpl. auto. Qed.

Lemma incs_nonneg_mono k l ls : incs k ls <= incs k (l :: ls).
Proof. simpl. lia. Qed.

(* c20_counter_once: for every interleaving, reported deltas + residual cell = total incremented *)
Theorem counter_accounted k ls : forall s s' total, run s ls = Some s' -> idle_clean s ->
  accounted k s = total -> total + incs k ls < 2 ^ 64 -> accounted k s' = total + incs k ls.
Proof.
  induction ls as [|l ls IH]; intros s s' total Hrun HI Hacc Hb; simpl in *.
  - injection Hrun as <-. lia.
  - destruct (step s l) as [s1|] eqn:Hs; [|discriminate].
    rewrite (IH s1 s' (total + inc_of k l)); try assumption.
    + lia.
    + eapply idle_clean_step; eassumption.
    + eapply accounted_step; try eassumption. lia.
    + lia.
Qed.

Corollary counter_accounted_init ez k ls s : run (init ez) ls = Some s -> incs k ls < 2 ^ 64 ->
  accounted k s = incs k ls.
Proof.
  intros Hrun Hb. rewrite (counter_accounted k ls (init ez) s 0); try assumption; try reflexivity; try lia.
  apply idle_clean_init.
Qed.

(* ------------------------------------------------------------ histograms: every slot, exactly once *)

Definition hslot (k : key) (i : nat) (s : st) : N := match find k (hs s) with Some h => nth i h 0 | None => 0 end.
Definition rawsum (i : nat) (raw : list (N * N)) : N :=
  fold_right (fun ic acc => if fst ic =? N.of_nat i then snd ic + acc else acc) 0 raw.
Definition hsum (k : key) (i : nat) (l : list (key * list (N * N))) : N :=
  fold_right (fun kr acc => if key_eqb k (fst kr) then rawsum i (snd kr) + acc else acc) 0 l.
Definition out_hsum (k : key) (i : nat) (es : list entry_) : N := fold_right (fun e acc => hsum k i (e_hists e) + acc) 0 es.
Definition drain_sum (k : key) (i : nat) (s : st) : N :=
  match drain s with
  | Some (k', _, raw) => if key_eqb k k' then rawsum i raw else 0
  | None => 0
  end.
(* observations recorded into slot i of histogram k by one label *)
Definition hrec_of (k : key) (i : nat) (l : label) : N :=
  match l with
  | LHRec k' b times =>
      if key_eqb k k'
      then match value_to_index 32 (hist_value b) with
           | Some j => if j =? N.of_nat i then times else 0
           | None => 0
           end
      else 0
  | _ => 0
  end.
Definition hrecs (k : key) (i : nat) (ls : list label) : N := fold_right (fun l acc => hrec_of k i l + acc) 0 ls.

Definition haccounted (k : key) (i : nat) (s : st) : N :=
  out_hsum k i (out s) + hsum k i (acc_h s) + drain_sum k i s + hslot k i s.

Definition hs_wf (s : st) : Prop := Forall (fun kh => length (snd kh) = hist_slots) (hs s).

Lemma rawsum_app i a b : rawsum i (a ++ b) = rawsum i a + rawsum i b.
Proof. induction a as [|x a IH]; simpl; [reflexivity|]. destruct (fst x =? N.of_nat i); lia. Qed.

Lemma hsum_app k i a b : hsum k i (a ++ b) = hsum k i a + hsum k i b.
Proof. induction a as [|x a IH]; simpl; [reflexivity|]. destruct (key_eqb k (fst x)); lia. Qed.

Lemma hsum_perm k i l l' : Permutation l l' -> hsum k i l = hsum k i l'.
Proof.
  induction 1; simpl; try lia.
  - destruct (key_eqb k (fst x)); lia.
  - destruct (key_eqb k (fst x)), (key_eqb k (fst y)); lia.
Qed.

Lemma out_hsum_app k i a b : out_hsum k i (a ++ b) = out_hsum k i a + out_hsum k i b.
Proof. induction a; simpl; lia. Qed.

Lemma find_in {V} k (l : list (key * V)) v : find k l = Some v -> exists k', In (k', v) l.
Proof.
  induction l as [|[k' v'] r IH]; simpl; [discriminate|].
  destruct (key_eqb k k'); intros H.
  - injection H as ->. eauto.
  - destruct (IH H) as [k2 Hk]. eauto.
Qed.

Lemma hs_wf_find s k h : hs_wf s -> find k (hs s) = Some h -> length h = hist_slots.
Proof.
  intros Hwf Hf. destruct (find_in _ _ _ Hf) as [k' Hin]. unfold hs_wf in Hwf. rewrite Forall_forall in Hwf.
  apply (Hwf (k', h) Hin).
Qed.

Lemma update_wf (f : list N -> list N) k l :
  (forall h, length h = hist_slots -> length (f h) = hist_slots) ->
  Forall (fun kh : key * list N => length (snd kh) = hist_slots) l ->
  Forall (fun kh : key * list N => length (snd kh) = hist_slots) (update k f l).
Proof.
  intros Hf. induction 1 as [|[k' h] r Hh Hr IH]; simpl; [constructor|].
  destruct (key_eqb k k'); constructor; simpl in *; try assumption. apply Hf. assumption.
Qed.

(* n consecutive swaps move slot contents into the raw list, nothing else *)
Lemma swap_n_spec n : forall h i0 raw h' i' raw', swap_n n h i0 raw = (h', i', raw') ->
  length h' = length h /\ forall i, nth i h' 0 + rawsum i raw' = nth i h 0 + rawsum i raw.
Proof.
  induction n as [|n IH]; intros h i0 raw h' i' raw' H; simpl in H.
  - injection H as <- <- <-. auto.
  - destruct (Nat.ltb i0 hist_slots) eqn:E.
    + unfold swap_slot in H.
      destruct (IH _ _ _ _ _ _ H) as [Hlen Hsum]. rewrite upd_length in Hlen. split; [assumption|].
      intros i. rewrite Hsum. rewrite rawsum_app. simpl.
      destruct (Nat.eq_dec i0 i) as [->|Hne].
      * rewrite N.eqb_refl.
        destruct (Nat.lt_ge_cases i (length h)).
        -- rewrite upd_nth_same by assumption. lia.
        -- rewrite upd_out by assumption. rewrite nth_overflow by assumption. lia.
      * rewrite upd_nth_other by assumption.
        destruct (N.eqb_spec (N.of_nat i0) (N.of_nat i)); [lia|]. lia.
    + injection H as <- <- <-. auto.
Qed.

Lemma hist_value_le b : hist_value b <= u32_max.
Proof.
  unfold hist_value. destruct (b64_compare (of_bits b) f2p32m1) as [[]|]; try lia;
    unfold to_u32; change (2 ^ 32 - 1) with u32_max; lia.
Qed.

Lemma hs_wf_step s l s' : step s l = Some s' -> hs_wf s -> hs_wf s'.
Proof.
  intros H Hwf. unfold hs_wf in *.
  destruct l; simpl in H; try (destruct kd; simpl in H); break_step H; injection H as <-;
    repeat match goal with |- context [if ?b then _ else _] => destruct b end; simpl; try assumption.
  - apply Forall_app. split; [assumption|]. constructor; [|constructor]. simpl. reflexivity.
  - apply update_wf; [|assumption]. intros h Hh. unfold hist_add.
    destruct (value_to_index 32 (hist_value bits)); [rewrite upd_length|]; assumption.
  - apply update_wf; [|assumption]. intros h _.
    match goal with E : swap_n _ _ _ _ = _ |- _ => pose proof (swap_n_spec _ _ _ _ _ _ _ E) as [Hlen _] end.
    rewrite Hlen. eapply hs_wf_find; [exact Hwf|eassumption].
Qed.

Lemma hs_wf_init ez : hs_wf (init ez).
Proof. constructor. Qed.

Lemma hist_index_in_range b : exists j, value_to_index 32 (hist_value b) = Some j /\ j < 464.
Proof.
  pose proof (hist_value_le b) as Hle.
  destruct (index_total 32 (hist_value b)) as [j Hj]; [exact Hle|].
  exists j. split; [assumption|].
  destruct (index_range 32 _ _ ltac:(lia) Hj) as (Hb & _). exact Hb.
Qed.

Lemma haccounted_step k i s l s' total : step s l = Some s' -> idle_clean s -> hs_wf s ->
  haccounted k i s = total -> total + hrec_of k i l < 2 ^ 64 -> haccounted k i s' = total + hrec_of k i l.
Proof.
  intros H HI Hwf Hacc Hb. unfold haccounted, hslot, drain_sum in *.
  destruct l; simpl in H.
  - (* LRegister *)
    destruct kd; simpl in H; injection H as <-;
      match goal with |- context [if ?b then _ else _] => destruct b eqn:E end; simpl; try lia.
    rewrite find_app. simpl. destruct (find k (hs s)) eqn:F; [lia|].
    destruct (key_eqb k k0); [|lia]. rewrite nth_hist_empty. lia.
  - injection H as <-. simpl. lia.
  - break_step H. injection H as <-. simpl. lia.
  - break_step H. injection H as <-. simpl. lia.
  - break_step H. injection H as <-. simpl. lia.
  - break_step H. injection H as <-. simpl. lia.
  - (* LHRec *)
    break_step H. injection H as <-. simpl. simpl in Hb.
    destruct (key_eqb k k0) eqn:Ek.
    + apply key_eqb_eq in Ek. subst k0. rewrite find_update_same.
      unfold has in E. destruct (find k (hs s)) as [h|] eqn:F; [|discriminate]. simpl.
      assert (Hlen : length h = hist_slots) by (eapply hs_wf_find; eassumption).
      destruct (hist_index_in_range bits) as (j & Hj & Hjb).
      unfold hist_add. rewrite Hj. rewrite Hj in Hb.
      destruct (N.eqb_spec j (N.of_nat i)) as [Hje|Hne].
      * subst j. rewrite Nat2N.id. rewrite upd_nth_same by (rewrite Hlen; unfold hist_slots; lia).
        rewrite wrap64_small by lia. lia.
      * rewrite upd_nth_other by lia. lia.
    + apply key_eqb_neq in Ek. rewrite find_update_other by assumption. lia.
  - (* RBegin *)
    break_step H. injection H as <-. simpl. destruct (HI E) as (_ & _ & Hh & Hd). rewrite Hh, Hd in Hacc. simpl in *. lia.
  - break_step H; injection H as <-; simpl; lia.
  - break_step H. injection H as <-. simpl. lia.
  - break_step H. injection H as <-. simpl. lia.
  - break_step H. injection H as <-. simpl. lia.
  - (* RHistStart *)
    break_step H. injection H as <-. simpl. destruct (key_eqb k k0); simpl; lia.
  - (* RHistSwap *)
    break_step H. injection H as <-. simpl.
    match goal with E : swap_n _ _ _ _ = _ |- _ => pose proof (swap_n_spec _ _ _ _ _ _ _ E) as [_ Hsum] end.
    destruct (key_eqb k k0) eqn:Ek.
    + apply key_eqb_eq in Ek. subst k0. rewrite find_update_same.
      match goal with F : find k (hs s) = Some _ |- _ => rewrite F in *; simpl end.
      specialize (Hsum i). lia.
    + apply key_eqb_neq in Ek. rewrite find_update_other by assumption. lia.
  - (* RHistDone *)
    break_step H. injection H as <-. simpl. rewrite hsum_app. simpl.
    destruct (key_eqb k k0); lia.
  - (* RFinish *)
    break_step H. injection H as <-. simpl. rewrite out_hsum_app. simpl.
    rewrite (hsum_perm k i _ _ (sort_keys_perm (acc_h s))). lia.
Qed.

(* c20_histogram_once: for every interleaving, every slot's swapped-out counts (all readouts, the one in
   progress, the drain in progress) plus what the slot still holds = the observations recorded into it *)
Theorem hist_accounted k i ls : forall s s' total, run s ls = Some s' -> idle_clean s -> hs_wf s ->
  haccounted k i s = total -> total + hrecs k i ls < 2 ^ 64 -> haccounted k i s' = total + hrecs k i ls.
Proof.
  induction ls as [|l ls IH]; intros s s' total Hrun HI Hwf Hacc Hb; simpl in *.
  - injection Hrun as <-. lia.
  - destruct (step s l) as [s1|] eqn:Hs; [|discriminate].
    rewrite (IH s1 s' (total + hrec_of k i l)); try assumption.
    + lia.
    + eapply idle_clean_step; eassumption.
    + eapply hs_wf_step; eassumption.
    + eapply haccounted_step; try eassumption. lia.
    + lia.
Qed.

Corollary hist_accounted_init ez k i ls s : run (init ez) ls = Some s -> hrecs k i ls < 2 ^ 64 ->
  haccounted k i s = hrecs k i ls.
Proof.
  intros Hrun Hb. rewrite (hist_accounted k i ls (init ez) s 0); try assumption; try reflexivity; try lia.
  - apply idle_clean_init.
  - apply hs_wf_init.
Qed.

(* ------------------------------------------------------------ gauges *)

(* the value a gauge holds: the fold of the operations applied to it, from +0.0 *)
Definition gauge_step (k : key) (g : N) (l : label) : N :=
  match l with
  | LGSet k' b => if key_eqb k k' then b else g
  | LGAdd k' b => if key_eqb k k' then fop fadd g b else g
  | LGSub k' b => if key_eqb k k' then fop fsub g b else g
  | _ => g
  end.
Definition gauge_at (k : key) (g0 : N) (ls : list label) : N := fold_left (gauge_step k) ls g0.
Definition gcell (k : key) (s : st) : N := match find k (gs s) with Some g => g | None => 0 end.

Lemma gcell_step k s l s' : step s l = Some s' -> gcell k s' = gauge_step k (gcell k s) l.
Proof.
  intros H. unfold gcell.
  destruct l; simpl in H; try (destruct kd; simpl in H); break_step H; injection H as <-;
    repeat match goal with |- context [if has ?a ?b then _ else _] => destruct (has a b) eqn:? end; simpl; try reflexivity.
  - (* register gauge, new *)
    rewrite find_app. simpl. unfold has in *. destruct (find k (gs s)); [reflexivity|]. destruct (key_eqb k k0); reflexivity.
  - destruct (key_eqb k k0) eqn:Ek.
    + apply key_eqb_eq in Ek. subst k0. rewrite find_update_same. unfold has in E. destruct (find k (gs s)); [reflexivity|discriminate].
    + apply key_eqb_neq in Ek. rewrite find_update_other by assumption. reflexivity.
  - destruct (key_eqb k k0) eqn:Ek.
    + apply key_eqb_eq in Ek. subst k0. rewrite find_update_same. unfold has in E. destruct (find k (gs s)); [reflexivity|discriminate].
    + apply key_eqb_neq in Ek. rewrite find_update_other by assumption. reflexivity.
  - destruct (key_eqb k k0) eqn:Ek.
    + apply key_eqb_eq in Ek. subst k0. rewrite find_update_same. unfold has in E. destruct (find k (gs s)); [reflexivity|discriminate].
    + apply key_eqb_neq in Ek. rewrite find_update_other by assumption. reflexivity.
Qed.

(* c20_gauge: for every interleaving the cell holds the fold of the gauge's own operations *)
Theorem gauge_holds_fold k ls : forall s s', run s ls = Some s' -> gcell k s' = gauge_at k (gcell k s) ls.
Proof.
  induction ls as [|l ls IH]; intros s s' H; simpl in *.
  - injection H as <-. reflexivity.
  - destruct (step s l) as [s1|] eqn:Hs; [|discriminate].
    rewrite (IH s1 s' H). rewrite (gcell_step k s l s1 Hs). reflexivity.
Qed.

(* the load of a readout reports what the cell holds at that moment *)
Theorem gauge_load_reports k s s' : step s (RGauge k) = Some s' ->
  acc_g s' = acc_g s ++ [(k, gcell k s)].
Proof.
  intros H. simpl in H. break_step H. injection H as <-. simpl. unfold gcell.
  match goal with F : find k (gs s) = Some _ |- _ => rewrite F end. reflexivity.
Qed.

(* ... which is the last value set when only other keys were touched since *)
Definition touches_gauge (k : key) (l : label) : bool :=
  match l with
  | LGSet k' _ | LGAdd k' _ | LGSub k' _ => key_eqb k k'
  | _ => false
  end.
Theorem gauge_last_set k b g0 pre mid : forallb (fun l => negb (touches_gauge k l)) mid = true ->
  gauge_at k g0 (pre ++ LGSet k b :: mid) = b.
Proof.
  intros Hmid. unfold gauge_at. rewrite fold_left_app. simpl. rewrite key_eqb_refl.
  induction mid as [|l mid IH]; simpl in *; [reflexivity|].
  apply andb_prop in Hmid. destruct Hmid as [Hl Hmid].
  assert (Hs : gauge_step k b l = b).
  { destruct l; simpl in *; try reflexivity; apply negb_true_iff in Hl; rewrite Hl; reflexivity. }
  rewrite Hs. apply IH. assumption.
Qed.

(* ------------------------------------------------------------ what is written for a bucket *)

(* the u32 cast of the value in drain() never loses anything: every midpoint of the (4, 32) layout fits *)
Lemma mid32_fits i : i < 464 -> bucket_mid 32 i < 2 ^ 32.
Proof.
  intros Hi. pose proof (mid_in_bucket 32 i ltac:(lia)) as [_ Hhi].
  pose proof (upper_fits 32 i ltac:(lia) Hi) as Hfit. unfold max_value in Hfit.
  assert (0 < 2 ^ 32) by (apply pow2_pos). lia.
Qed.

Lemma midpoint'_mid i : midpoint' (index_to_lower_bound i) (index_to_upper_bound 32 i) = bucket_mid 32 i.
Proof. unfold bucket_mid. apply midpoint_same. apply bounds_ordered. lia. Qed.

(* every recorded u32 value v is reported at the midpoint m of its bucket with |m - v| <= v/32 + 1 *)
Theorem bucket_value_error b i : value_to_index 32 (hist_value b) = Some i ->
  32 * bucket_mid 32 i <= 33 * hist_value b + 32 /\ 31 * hist_value b <= 32 * bucket_mid 32 i + 32.
Proof.
  intros Hi. pose proof (mid_error 32 (hist_value b) 1 i ltac:(lia) ltac:(lia)) as H.
  rewrite N.div_1_r in H. specialize (H Hi). cbv zeta in H. rewrite !N.mul_1_r in H. lia.
Qed.


(* ------------------------------------------------------------ the count of a drained bucket (after the fix) *)

Definition chunk_total (l : list N) : N := fold_right N.add 0 l.

Lemma chunks_spec fuel : forall c, c <= N.of_nat fuel * u32_max ->
  chunk_total (chunks fuel c) = c /\ Forall (fun x => 0 < x <= u32_max) (chunks fuel c).
Proof.
  induction fuel as [|f IH]; intros c Hc.
  - simpl in *. assert (c = 0) by lia. subst. split; [reflexivity|constructor].
  - cbn [chunks]. destruct (N.eqb_spec c 0) as [->|Hne]; [split; [reflexivity|constructor]|].
    cbv zeta.
    assert (Hm : N.min c u32_max <= c /\ 0 < N.min c u32_max <= u32_max) by (unfold u32_max; lia).
    destruct (IH (c - N.min c u32_max)) as [Hs Hf].
    { unfold u32_max in *. lia. }
    split.
    + cbn [chunk_total fold_right]. fold (chunk_total (chunks f (c - N.min c u32_max))). rewrite Hs. lia.
    + constructor; [lia|assumption].
Qed.

Definition bucket_count (bs : list (N * N)) : N := fold_right (fun b acc => snd b + acc) 0 bs.

(* every swapped-out count is written completely, whatever its size, in pieces that fit the u32 field, all
   at the bucket's midpoint *)
Theorem bucket_written i c : i < 464 ->
  bucket_count (bucket_of (i, c)) = c /\
  Forall (fun b => fst b = bucket_mid 32 i /\ 0 < snd b <= u32_max) (bucket_of (i, c)).
Proof.
  intros Hi. unfold bucket_of. cbn [fst snd].
  rewrite midpoint'_mid. unfold wrap32. rewrite N.mod_small by (apply mid32_fits; assumption).
  assert (Hfuel : c <= N.of_nat (Datatypes.S (N.to_nat (c / u32_max))) * u32_max).
  { rewrite Nat2N.inj_succ, N2Nat.id. pose proof (N.mul_succ_div_gt c u32_max ltac:(unfold u32_max; lia)). lia. }
  destruct (chunks_spec _ c Hfuel) as [Hs Hf].
  split.
  - clear Hf Hfuel. revert Hs. generalize (chunks (Datatypes.S (N.to_nat (c / u32_max))) c). intros l.
    generalize c. induction l as [|x l IH]; intros c' Hs; simpl in *; [assumption|].
    rewrite (IH (c' - x)); lia.
  - clear Hs. induction Hf; simpl; constructor; auto.
Qed.

(* an ordinary count is one bucket *)
Lemma chunks_zero f : chunks f 0 = [].
Proof. destruct f; reflexivity. Qed.

Lemma chunks_small f c : 0 < c <= u32_max -> chunks (Datatypes.S f) c = [c].
Proof.
  intros Hc. cbn [chunks]. destruct (N.eqb_spec c 0); [lia|]. cbv zeta.
  rewrite N.min_l by lia. replace (c - c) with 0 by lia. rewrite chunks_zero. reflexivity.
Qed.

Theorem bucket_written_small i c : i < 464 -> 0 < c <= u32_max -> bucket_of (i, c) = [(bucket_mid 32 i, c)].
Proof.
  intros Hi Hc. unfold bucket_of. cbn [fst snd].
  rewrite midpoint'_mid. unfold wrap32. rewrite N.mod_small by (apply mid32_fits; assumption).
  rewrite chunks_small by assumption. reflexivity.
Qed.

(* before the fix the count was `count as u32`: 2^32 observations in one bucket were written as 0 *)
Definition bucket_of_before_fix (ic : N * N) : N * N :=
  (wrap32 (midpoint' (index_to_lower_bound (fst ic)) (index_to_upper_bound 32 (fst ic))), wrap32 (snd ic)).
Theorem u32_truncation_refuted : exists i c, i < 464 /\ 0 < c /\ snd (bucket_of_before_fix (i, c)) <> c.
Proof. exists 5, (2 ^ 32). vm_compute. repeat split; discriminate. Qed.
