(* C20 — specification: what a user of the bridge is promised, judged on the entries the implementation
   wrote, knowing only when updates and readouts happened (the label list) — no cells, no swaps.

   For every readout j (RBegin_j ... RFinish_j) and every key:
   - counters: the deltas reported up to and including readout j add up to at least everything incremented
     before RBegin_j and at most everything incremented before RFinish_j (nothing is reported before it
     happened, nothing waits longer than one readout, nothing is reported twice);
   - histograms: the same for the occurrence counts; and over the whole run every recorded value is reported at
     a value within 1/16 of it (values below 64: exactly or one below);
   - gauges: the value reported is a value the gauge held at some moment between RBegin_j and RFinish_j; in
     particular the last value set when nothing touched it during the readout;
   - every gauge and histogram registered before RBegin_j is written, each key at most once per kind, under
     its name, labels as dimensions, with the unit last described for its name before RFinish_j (None if never);
   - the entry starts with the readout's timestamp and the split-entries config. *)
From Coq Require Import List NArith ZArith QArith Bool.
From MV Require Import Common.Sx C11.Model C11.Float C20.Model.
Import ListNotations.
Local Open Scope N_scope.

(* ---------------------------------------------------------------- the run as seen from outside *)

Fixpoint prefixes_at (p : label -> bool) (before : list label) (ls : list label) : list (list label) :=
  match ls with
  | [] => []
  | l :: r => (if p l then [rev before] else []) ++ prefixes_at p (l :: before) r
  end.
Definition is_begin (l : label) := match l with RBegin => true | _ => false end.
Definition is_finish (l : label) := match l with RFinish _ => true | _ => false end.
Definition begins (ls : list label) : list (list label) := prefixes_at is_begin [] ls.
Definition finishes (ls : list label) : list (list label) := prefixes_at is_finish [] ls.
Definition finish_ts (ls : list label) : list N :=
  flat_map (fun l => match l with RFinish ts => [ts] | _ => [] end) ls.

Definition incremented (k : key) (ls : list label) : N :=
  fold_right (fun l acc => match l with LCInc k' n => if key_eqb k k' then n + acc else acc | _ => acc end) 0 ls.
Definition recorded_count (k : key) (ls : list label) : N :=
  fold_right (fun l acc => match l with LHRec k' _ t => if key_eqb k k' then t + acc else acc | _ => acc end) 0 ls.
Definition registered (kd : kind) (ls : list label) : list key :=
  flat_map (fun l => match l, kd with
                     | LRegister KCounter k, KCounter => [k]
                     | LRegister KGauge k, KGauge => [k]
                     | LRegister KHist k, KHist => [k]
                     | _, _ => []
                     end) ls.
Definition described (name : bytes) (ls : list label) : N :=
  fold_left (fun acc l => match l with LDescribe n u => if bytes_eqb name n then u else acc | _ => acc end) ls 0.

(* the values a gauge holds along a run, after every label (initially +0.0) *)
Definition gauge_step (k : key) (g : N) (l : label) : N :=
  match l with
  | LGSet k' b => if key_eqb k k' then b else g
  | LGAdd k' b => if key_eqb k k' then fop fadd g b else g
  | LGSub k' b => if key_eqb k k' then fop fsub g b else g
  | _ => g
  end.
Definition gauge_at (k : key) (ls : list label) : N := fold_left (gauge_step k) ls 0.
(* all values held from the end of [pre] through [pre ++ during] *)
Fixpoint gauge_values (k : key) (g : N) (during : list label) : list N :=
  g :: match during with
       | [] => []
       | l :: r => gauge_values k (gauge_step k g l) r
       end.

(* ---------------------------------------------------------------- what the entries say *)

Definition item_key (it : item) : option key :=
  match it with IMetric name _ _ dims => Some (name, dims) | _ => None end.
Definition counter_delta (k : key) (it : item) : N :=
  match it with
  | IMetric name [OU v] _ dims => if key_eqb k (name, dims) then v else 0
  | _ => 0
  end.
Definition hist_count (k : key) (it : item) : N :=
  match it with
  | IMetric name os _ dims =>
      if key_eqb k (name, dims)
      then fold_right (fun o acc => match o with OR _ c => c + acc | _ => acc end) 0 os
      else 0
  | _ => 0
  end.
Definition sum_items (f : item -> N) (e : list item) : N := fold_right (fun it acc => f it + acc) 0 e.
Definition sum_entries (f : item -> N) (es : list (list item)) : N := fold_right (fun e acc => sum_items f e + acc) 0 es.

Definition gauge_reports (k : key) (e : list item) : list N :=
  flat_map (fun it => match it with
                      | IMetric name [OF b] _ dims => if key_eqb k (name, dims) then [b] else []
                      | _ => []
                      end) e.
Definition is_hist_item (it : item) : bool :=
  match it with
  | IMetric _ os _ _ => forallb (fun o => match o with OR _ _ => true | _ => false end) os
  | _ => false
  end.
Definition hist_reports (k : key) (e : list item) : list item :=
  filter (fun it => is_hist_item it && match item_key it with Some k' => key_eqb k k' | None => false end) e.

Fixpoint drop_len {A B} (a : list A) (b : list B) : list B :=
  match a, b with
  | _ :: a', _ :: b' => drop_len a' b'
  | _, _ => b
  end.

(* ---------------------------------------------------------------- the predicates *)

Definition between (lo x hi : N) : bool := (lo <=? x) && (x <=? hi).

(* per readout j: cumulative sums of the first j+1 entries lie between what happened before RBegin_j and before
   RFinish_j *)
Fixpoint cumulative_ok (f : item -> N) (g : list label -> N) (done : N)
         (es : list (list item)) (bs fs : list (list label)) : bool :=
  match es, bs, fs with
  | [], _, _ => true
  | e :: es', b :: bs', fl :: fs' =>
      let done' := done + sum_items f e in
      between (g b) done' (g fl) && cumulative_ok f g done' es' bs' fs'
  | _, _, _ => false
  end.

Definition nodup_keys (ks : list key) : bool :=
  (fix go (l : list key) : bool := match l with [] => true | k :: r => negb (mem k r) && go r end) ks.

Definition kind_items (kd : kind) (e : list item) : list item :=
  filter (fun it => match it, kd with
                    | IMetric _ [OU _] _ _, KCounter => true
                    | IMetric _ [OF _] _ _, KGauge => true
                    | IMetric _ _ _ _, KHist => is_hist_item it
                    | _, _ => false
                    end) e.

Definition keys_of (its : list item) : list key :=
  flat_map (fun it => match item_key it with Some k => [k] | None => [] end) its.

Definition counter_reports (k : key) (e : list item) : list N :=
  flat_map (fun it => match it with
                      | IMetric name [OU v] _ dims => if key_eqb k (name, dims) then [v] else []
                      | _ => []
                      end) e.

Definition entry_shape_ok (ez : bool) (ts : N) (e : list item) (before_begin before_finish : list label) : bool :=
  match e with
  | ITimestamp t :: IConfigSplit :: metrics =>
      (t =? ts) &&
      forallb (fun it => match it with IMetric _ _ _ _ => true | _ => false end) metrics &&
      (* at most once per kind *)
      nodup_keys (keys_of (kind_items KCounter metrics)) &&
      nodup_keys (keys_of (kind_items KGauge metrics)) &&
      nodup_keys (keys_of (kind_items KHist metrics)) &&
      (* every metric carries the unit last described for its name *)
      forallb (fun it => match it with
                         | IMetric name _ u _ => u =? described name before_finish
                         | _ => true
                         end) metrics &&
      (* with emit_zero_counters every counter registered before the readout began is written, zero or not;
         without it a zero is never written *)
      (if ez then forallb (fun k => negb (match counter_reports k metrics with [] => true | _ => false end)) (registered KCounter before_begin)
       else forallb (fun it => match it with IMetric _ [OU v] _ _ => negb (v =? 0) | _ => true end) metrics) &&
      (* every gauge / histogram registered before the readout began is written *)
      forallb (fun k => negb (match gauge_reports k metrics with [] => true | _ => false end)) (registered KGauge before_begin) &&
      forallb (fun k => negb (match hist_reports k metrics with [] => true | _ => false end)) (registered KHist before_begin)
  | _ => false
  end.

Definition gauges_ok (e : list item) (before_begin before_finish : list label) (all_keys : list key) : bool :=
  forallb (fun k =>
    let held := gauge_values k (gauge_at k before_begin) (drop_len before_begin before_finish) in
    forallb (fun b => existsb (N.eqb b) held) (gauge_reports k e)) all_keys.

(* histogram values: every recorded u32 value v is reported at r with |r - v| <= v/16; poured in ascending order *)
Definition hist_admissible (v r : N) : bool := (16 * (r - v) <=? v) && (16 * (v - r) <=? v).
Fixpoint pour (fuel : nat) (ins outs : list (N * N)) : bool :=
  match fuel with
  | O => false
  | Datatypes.S f =>
    match ins, outs with
    | [], [] => true
    | [], _ :: _ => false
    | _ :: _, [] => false
    | (v, c) :: ins', (r, cap) :: outs' =>
        if hist_admissible v r then
          match c ?= cap with
          | Lt => pour f ins' ((r, cap - c) :: outs')
          | Eq => pour f ins' outs'
          | Gt => pour f ((v, c - cap) :: ins') outs'
          end
        else false
    end
  end.
Fixpoint insert_vc (p : N * N) (l : list (N * N)) : list (N * N) :=
  match l with
  | [] => [p]
  | q :: r => if fst p <=? fst q then p :: q :: r else q :: insert_vc p r
  end.
Definition sort_vc (l : list (N * N)) : list (N * N) := fold_right insert_vc [] l.

Definition recorded_values (k : key) (ls : list label) : list (N * N) :=
  flat_map (fun l => match l with
                     | LHRec k' b t => if key_eqb k k' && (0 <? t) then [(hist_value b, t)] else []
                     | _ => []
                     end) ls.
(* reported (value, count): Repeated { total, occurrences } with total = value * occurrences rounded to binary64;
   the value is recovered as the nearest integer quotient, exact up to that rounding *)
Definition reported_values (k : key) (es : list (list item)) : option (list (N * N)) :=
  let obs := flat_map (fun e => flat_map (fun it => match it with
                                                    | IMetric name os _ dims => if key_eqb k (name, dims) && is_hist_item it then os else []
                                                    | _ => []
                                                    end) e) es in
  fold_right (fun o acc =>
    match o, acc with
    | OR t c, Some l =>
        if c =? 0 then Some l
        else let total := to_u64 (of_bits t) in          (* an integer: a product of two integers, rounded *)
             let v := (total + c / 2) / c in
             let err := if v * c <=? total then total - v * c else v * c - total in
             if (to_bits (of_u64 total) =? t) && (err * 2 ^ 52 <=? total) then Some ((v, c) :: l) else None
    | _, _ => None
    end) (Some []) obs.

Definition hist_values_ok (k : key) (ls : list label) (es : list (list item)) (residual_free : bool) : bool :=
  match reported_values k es with
  | None => false
  | Some outs =>
      if residual_free
      then let ins := sort_vc (recorded_values k ls) in
           let outs := sort_vc outs in
           pour (length ins + length outs + 1) ins outs
      else true
  end.

(* the whole run: [quiescent] says the run ends with a complete readout after the last update *)
Definition run_ok (ez : bool) (ls : list label) (es : list (list item)) : bool :=
  let bs := begins ls in
  let fs := finishes ls in
  let tss := finish_ts ls in
  let ckeys := registered KCounter ls in
  let gkeys := registered KGauge ls in
  let hkeys := registered KHist ls in
  (length es =? length fs)%nat &&
  forallb (fun k => cumulative_ok (counter_delta k) (incremented k) 0 es bs fs) ckeys &&
  forallb (fun k => cumulative_ok (hist_count k) (recorded_count k) 0 es bs fs) hkeys &&
  (fix shapes (es : list (list item)) (tss : list N) (bs fs : list (list label)) : bool :=
     match es, tss, bs, fs with
     | [], _, _, _ => true
     | e :: es', t :: tss', b :: bs', f :: fs' =>
         entry_shape_ok ez t e b f && gauges_ok e b f gkeys && shapes es' tss' bs' fs'
     | _, _, _, _ => false
     end) es tss bs fs &&
  forallb (fun k => hist_values_ok k ls es (sum_entries (hist_count k) es =? recorded_count k ls)) hkeys.
