(* C10 — the worker loop AS FOUND (fixed = false: every Err of recv_timeout is handled like a timeout)
   never terminates: under no schedule does the thread return, and once the last handle is gone and the
   channel is drained it is not even blocked — recv_timeout returns Disconnected at once, so the loop
   flushes the (empty) inner sink again and again. *)
From Coq Require Import List NArith Bool Lia.
From MV Require Import C10.Model C10.Roots.
Import ListNotations.

Section Spin.
  Variable h : key -> N.
  Variable sh : shape.

  Lemma enqueue_exited : forall s m, w_exited (enqueue s m) = w_exited s.
  Proof. intros s m. unfold enqueue. destruct (w_exited s) eqn:E; [assumption|reflexivity]. Qed.

  Lemma wstep_v0_never_exits : forall s l s',
    wstep false h sh s l = Some s' -> w_exited s = false -> w_exited s' = false.
  Proof.
    intros s l s' H He. destruct l; cbn [wstep] in H.
    - destruct (Nat.ltb 0 (w_senders s)); inversion H; subst; exact He.
    - destruct (w_senders s); inversion H; subst; exact He.
    - destruct (Nat.ltb 0 (w_senders s)); inversion H; subst. now rewrite enqueue_exited.
    - destruct (Nat.ltb 0 (w_senders s) && negb (msg_in id (w_sent s))); inversion H; subst. now rewrite enqueue_exited.
    - destruct (Nat.ltb 0 (w_senders s)); inversion H; subst; exact He.
    - destruct (nth_error (w_guards s) g) as [[v|]|]; inversion H; subst; exact He.
    - destruct (nth_error (w_guards s) g) as [[v|]|]; try discriminate.
      destruct (Nat.ltb 0 (w_senders s)); inversion H; subst. cbn. now rewrite enqueue_exited.
    - rewrite He in H. destruct (w_chan s) as [|[e|id] r]; try discriminate.
      + destruct timed; inversion H; subst; reflexivity.
      + inversion H; subst; reflexivity.
    - rewrite He in H. destruct (w_chan s); try discriminate. destruct (w_senders s); inversion H; subst; reflexivity.
    - rewrite He in H. destruct (w_chan s); try discriminate. destruct (w_senders s); inversion H; subst; reflexivity.
  Qed.

  (* under every schedule whatsoever the thread never returns and the inner sink is never dropped *)
  Theorem worker_v0_never_exits : forall ls s s',
    wrun false h sh s ls = Some s' -> w_exited s = false -> w_exited s' = false.
  Proof.
    induction ls as [|l ls IH]; intros s s' H He; cbn [wrun] in H.
    - inversion H; subst; exact He.
    - destruct (wstep false h sh s l) as [s1|] eqn:E; [|discriminate].
      eapply IH; [exact H|]. eapply wstep_v0_never_exits; eassumption.
  Qed.

  (* the busy loop: with no handle left and an empty channel, n further iterations are possible for every
     n (none of them blocks), each one a flush call on the inner sink *)
  Theorem worker_v0_spins : forall n s,
    w_exited s = false -> w_senders s = 0%nat -> w_chan s = [] ->
    exists s', wrun false h sh s (repeat WDisc n) = Some s' /\
               w_exited s' = false /\ w_senders s' = 0%nat /\ w_chan s' = [] /\
               w_trace s' = w_trace s ++ repeat TFlushTimed n.
  Proof.
    induction n as [|n IH]; intros s He Hs Hc.
    - exists s. cbn. now rewrite app_nil_r.
    - cbn [repeat wrun wstep]. rewrite He, Hc, Hs.
      edestruct (IH (worker_calls s [] (sink_flush (w_inner s)) false (w_acks s) [TFlushTimed])) as (s' & R & E1 & E2 & E3 & E4);
        [reflexivity|exact Hs|reflexivity|].
      exists s'. rewrite R. repeat split; try assumption.
      rewrite E4. cbn [worker_calls w_trace]. now rewrite <- app_assoc.
  Qed.
End Spin.
