(* C10 — mechanism model of metrique-aggregation: generated Merge impls (value.rs strategies),
   KeyedAggregator (aggregator.rs), Aggregate, TeeSink / NonAggregatedSink (sink.rs).
   The concurrent wrappers (MutexSink, WorkerSink, merge-on-drop guards) are in Roots.v.

   Numbers are unbounded N (u64 fields; overflow is outside this property).  An input entry carries its
   key material and, per strategy class, one value per field:
     sums   : fields with strategy Sum                  (also those reached through Flatten, which just
                                                          recurses into the nested Merge impl)
     lasts  : KeepLast / MergeOptions<KeepLast> fields  (None = the option was None and is ignored)
     dists  : Distribution / Histogram fields, as the list of observations the value writes
              (one for a plain number, several when a closed histogram is re-aggregated, none for None). *)
From Coq Require Import List NArith Bool.
Import ListNotations.
Local Open Scope N_scope.

(* ---------------------------------------------------------------- keys *)
Definition key := (list N * N)%type.          (* (bytes of the String key field, u8 key field) *)

Fixpoint bytes_eqb (a b : list N) : bool :=
  match a, b with
  | [], [] => true
  | x :: a', y :: b' => N.eqb x y && bytes_eqb a' b'
  | _, _ => false
  end.
(* derived PartialEq of the generated key struct, used by static_key_matches (owned == borrowed) *)
Definition key_eqb (a b : key) : bool := bytes_eqb (fst a) (fst b) && N.eqb (snd a) (snd b).

(* ---------------------------------------------------------------- entries and accumulators *)
Record entry := mkE {
  e_id : N;                         (* harness bookkeeping (an #[aggregate(ignore)] field); never merged *)
  e_key : key;
  e_sums : list N;
  e_lasts : list (option N);
  e_dists : list (list N)
}.

Record accum := mkA {
  a_sums : list N;
  a_lasts : list (option N);
  a_dists : list (list N)           (* SortAndMerge.values: observations in arrival order *)
}.

Record shape := mkS { n_sums : nat; n_lasts : nat; n_dists : nat }.

(* Merge::new_merged = Default of the generated Aggregated struct *)
Definition new_merged (sh : shape) : accum :=
  mkA (repeat 0 (n_sums sh)) (repeat None (n_lasts sh)) (repeat [] (n_dists sh)).

(* field-by-field application of a strategy's insert; the accumulator keeps its fields *)
Fixpoint zipk {A B} (f : A -> B -> A) (acc : list A) (vals : list B) : list A :=
  match acc, vals with
  | a :: acc', v :: vals' => f a v :: zipk f acc' vals'
  | _, _ => acc
  end.

(* Sum::insert: *accum += value *)
Definition sum_insert (a v : N) : N := a + v.
(* KeepLast::insert: *accum = Some(value); under MergeOptions a None input is skipped *)
Definition last_insert (a : option N) (v : option N) : option N :=
  match v with Some x => Some x | None => a end.
(* Histogram::add_value: every observation written by the value is recorded *)
Definition dist_insert (a : list N) (v : list N) : list N := a ++ v.

(* generated Merge::merge (and MergeRef::merge_ref, which copies/clones each field and inserts it) *)
Definition merge_entry (a : accum) (e : entry) : accum :=
  mkA (zipk sum_insert (a_sums a) (e_sums e))
      (zipk last_insert (a_lasts a) (e_lasts e))
      (zipk dist_insert (a_dists a) (e_dists e)).
Definition merge_entry_ref (a : accum) (e : entry) : accum := merge_entry a e.

(* ---------------------------------------------------------------- closing an accumulator *)
(* SortAndMerge::drain: sort, then run-length encode with (current_value, current_count) *)
Fixpoint insert_sorted (x : N) (l : list N) : list N :=
  match l with
  | [] => [x]
  | y :: r => if x <=? y then x :: l else y :: insert_sorted x r
  end.
Definition sort (l : list N) : list N := fold_right insert_sorted [] l.

Fixpoint rle_go (cur cnt : N) (l : list N) : list (N * N) :=
  match l with
  | [] => [(cur, cnt)]
  | x :: r => if x =? cur then rle_go cur (cnt + 1) r else (cur, cnt) :: rle_go x 1 r
  end.
Definition rle (l : list N) : list (N * N) :=
  match l with [] => [] | x :: r => rle_go x 1 r end.
Definition close_dist (l : list N) : list (N * N) := rle (sort l).     (* (value, occurrences) *)

Record closed := mkC {
  c_sums : list N;
  c_lasts : list (option N);
  c_dists : list (list (N * N))
}.
Definition close_acc (a : accum) : closed :=
  mkC (a_sums a) (a_lasts a) (map close_dist (a_dists a)).

Definition emitted := (key * closed)%type.    (* AggregationResult { key.close(), aggregated.close() } *)

(* ---------------------------------------------------------------- KeyedAggregator *)
Definition slot := (key * accum)%type.

Section Keyed.
  Variable h : key -> N.          (* the map's hasher applied to a key (borrowed and owned hash alike) *)
  Variable sh : shape.

  (* get_or_create_accum + merge: probe by hash, compare candidates with static_key_matches;
     occupied -> merge in place; vacant -> insert (static_key, new_merged) and merge *)
  Fixpoint merge_into (st : list slot) (k : key) (e : entry) : list slot :=
    match st with
    | [] => [(k, merge_entry (new_merged sh) e)]
    | (k', a) :: r =>
        if (h k' =? h k) && key_eqb k' k then (k', merge_entry a e) :: r
        else (k', a) :: merge_into r k e
    end.

  (* flush: drain the map, close key and accumulator, append one result per slot *)
  Definition drain (st : list slot) : list emitted := map (fun s => (fst s, close_acc (snd s))) st.
End Keyed.

(* ---------------------------------------------------------------- key extraction strategies *)
Inductive keyfn :=
| KFull                   (* the generated extractor: every #[aggregate(key)] field *)
| KName                   (* a hand-written strategy keyed by the string field only *)
| KThresh (t : N).        (* hand-written: string field + whether the first sum field reaches t *)

Definition apply_kf (f : keyfn) (e : entry) : key :=
  match f with
  | KFull => e_key e
  | KName => (fst (e_key e), 0)
  | KThresh t => (fst (e_key e), if t <=? nth 0 (e_sums e) 0 then 1 else 0)
  end.

(* ---------------------------------------------------------------- sink trees *)
Inductive sink :=
| SKeyed (f : keyfn) (st : list slot) (out : list (list emitted))  (* KeyedAggregator + what it appended downstream, one batch per flush *)
| SRaw (out : list entry)                                         (* NonAggregatedSink over an entry sink *)
| STee (a b : sink).                                              (* TeeSink { sink_by_ref: a, sink_owned: b } *)

Inductive op := OMerge (e : entry) | OFlush.

Section Sinks.
  Variable h : key -> N.
  Variable sh : shape.

  Fixpoint sink_merge (s : sink) (e : entry) : sink :=
    match s with
    | SKeyed f st out => SKeyed f (merge_into h sh st (apply_kf f e) e) out
    | SRaw out => SRaw (out ++ [e])
    | STee a b => STee (sink_merge a e) (sink_merge b e)     (* a.merge_ref(&entry); b.merge(entry) *)
    end.

  Fixpoint sink_flush (s : sink) : sink :=
    match s with
    | SKeyed f st out => SKeyed f [] (out ++ [drain st])
    | SRaw out => SRaw out                                     (* flushing is a no-op *)
    | STee a b => STee (sink_flush a) (sink_flush b)
    end.

  Definition sink_step (s : sink) (o : op) : sink :=
    match o with OMerge e => sink_merge s e | OFlush => sink_flush s end.
  Definition sink_run (s : sink) (ops : list op) : sink := fold_left sink_step ops s.
End Sinks.

(* ---------------------------------------------------------------- Aggregate<T> (no key, embedded) *)
Definition agg_insert (a : accum) (e : entry) : accum := merge_entry a e.
Definition agg_run (sh : shape) (es : list entry) : accum := fold_left agg_insert es (new_merged sh).

(* ---------------------------------------------------------------- the table's stored hashes *)
(* A closer look at hashbrown's raw-entry use in get_or_create_accum: the lookup hashes the BORROWED key
   (hb) and only visits slots whose stored hash agrees; a vacant insert stores that same hash
   (insert_hashed_nocheck); when the table grows, every stored hash is recomputed from the OWNED key (ho).
   Resizes are modelled as an operation that may happen at any time. *)
Definition hslot := (N * key * accum)%type.
Inductive hop := HMerge (e : entry) | HRehash | HFlushOp.

Section StoredHashes.
  Variable hb ho : key -> N.
  Variable sh : shape.

  Fixpoint hmerge_into (st : list hslot) (k : key) (e : entry) : list hslot :=
    match st with
    | [] => [(hb k, k, merge_entry (new_merged sh) e)]
    | (hs, k', a) :: r =>
        if (hs =? hb k) && key_eqb k' k then (hs, k', merge_entry a e) :: r
        else (hs, k', a) :: hmerge_into r k e
    end.
  Definition rehash (st : list hslot) : list hslot := map (fun s => (ho (snd (fst s)), snd (fst s), snd s)) st.
  Definition erase (st : list hslot) : list slot := map (fun s => (snd (fst s), snd s)) st.

  (* a keyed aggregator over such a table: (storage, batches emitted) *)
  Definition hstep (kf : entry -> key) (s : list hslot * list (list emitted)) (o : hop) :=
    match o with
    | HMerge e => (hmerge_into (fst s) (kf e) e, snd s)
    | HRehash => (rehash (fst s), snd s)
    | HFlushOp => ([], snd s ++ [drain (erase (fst s))])
    end.
  Definition hrun (kf : entry -> key) (ops : list hop) := fold_left (hstep kf) ops ([], []).
End StoredHashes.

Definition hop_op (o : hop) : list op :=
  match o with HMerge e => [OMerge e] | HRehash => [] | HFlushOp => [OFlush] end.
