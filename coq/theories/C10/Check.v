(* C10 — the executable form of the specification: a boolean checker that decides, for an OBSERVED
   output (of the implementation or of the model), whether it is what Spec.v promises for the given
   input history.  It shares nothing with the mechanism (no map, no accumulators, no sorting).
   Soundness (checker = true -> the Prop of Spec.v) is proved in CheckSound.v. *)
From Coq Require Import List NArith Bool.
From MV Require Import C10.Model C10.Spec.
Import ListNotations.
Local Open Scope N_scope.

Fixpoint list_eqb {A} (eqb : A -> A -> bool) (a b : list A) : bool :=
  match a, b with
  | [], [] => true
  | x :: a', y :: b' => eqb x y && list_eqb eqb a' b'
  | _, _ => false
  end.
Definition opt_eqb (a b : option N) : bool :=
  match a, b with Some x, Some y => x =? y | None, None => true | _, _ => false end.

Fixpoint ascending (l : list N) : bool :=
  match l with
  | x :: ((y :: _) as r) => (x <? y) && ascending r
  | _ => true
  end.

Definition dist_okb (l : list N) (d : list (N * N)) : bool :=
  ascending (map fst d) &&
  forallb (fun p => (snd p =? count (fst p) l) && (0 <? snd p)) d &&
  (sum_list (map snd d) =? N.of_nat (length l)).

Definition agg_okb (sh : shape) (es : list entry) (c : closed) : bool :=
  list_eqb N.eqb (c_sums c) (map (fun i => spec_sum i es) (seq 0 (n_sums sh))) &&
  list_eqb opt_eqb (c_lasts c) (map (fun i => spec_last i es) (seq 0 (n_lasts sh))) &&
  Nat.eqb (length (c_dists c)) (n_dists sh) &&
  forallb (fun i => dist_okb (spec_obs i es) (nth i (c_dists c) [])) (seq 0 (n_dists sh)).

Fixpoint nodup_keys (l : list key) : bool :=
  match l with
  | [] => true
  | k :: r => negb (existsb (key_eqb k) r) && nodup_keys r
  end.

Section Keyed.
  Variable kf : entry -> key.
  Variable sh : shape.

  Definition batch_okb (ep : list entry) (b : list emitted) : bool :=
    nodup_keys (map fst b) &&
    forallb (fun e => existsb (key_eqb (kf e)) (map fst b)) ep &&
    forallb (fun kc => match group kf (fst kc) ep with
                       | [] => false
                       | g => agg_okb sh g (snd kc)
                       end) b.

  Fixpoint batches_okb (eps : list (list entry)) (out : list (list emitted)) : bool :=
    match eps, out with
    | [], [] => true
    | ep :: eps', b :: out' => batch_okb ep b && batches_okb eps' out'
    | _, _ => false
    end.
End Keyed.
