(* C10 — what the user is promised, stated over the HISTORY of inputs (no map, no accumulators):
   the inputs between two flushes form an epoch; per epoch and per distinct key exactly one aggregate is
   emitted, and it is the aggregate of exactly the inputs carrying that key. *)
From Coq Require Import List NArith Bool Sorting.Sorted.
From MV Require Import C10.Model.
Import ListNotations.
Local Open Scope N_scope.

(* ---------------------------------------------------------------- per-field promises *)
Definition sum_list (l : list N) : N := fold_right N.add 0 l.
(* summed field i = the sum of the inputs' field i *)
Definition spec_sum (i : nat) (es : list entry) : N := sum_list (map (fun e => nth i (e_sums e) 0) es).

Fixpoint first_some (l : list (option N)) : option N :=
  match l with [] => None | Some x :: _ => Some x | None :: r => first_some r end.
(* keep-last field i = the value of the last input that has one *)
Definition spec_last (i : nat) (es : list entry) : option N :=
  first_some (rev (map (fun e => nth i (e_lasts e) None) es)).

(* all observations the inputs wrote to distribution field i *)
Definition spec_obs (i : nat) (es : list entry) : list N := concat (map (fun e => nth i (e_dists e) []) es).

Fixpoint count (v : N) (l : list N) : N :=
  match l with [] => 0 | x :: r => (if x =? v then 1 else 0) + count v r end.

(* a closed distribution d represents the observation multiset l exactly, by count:
   strictly ascending values (so one pair per value), each with its number of occurrences, none missing *)
Definition dist_is (l : list N) (d : list (N * N)) : Prop :=
  StronglySorted N.lt (map fst d) /\
  (forall v c, In (v, c) d -> c = count v l /\ 0 < c) /\
  (forall v, In v l -> In v (map fst d)).

Definition agg_ok (sh : shape) (es : list entry) (c : closed) : Prop :=
  c_sums c = map (fun i => spec_sum i es) (seq 0 (n_sums sh)) /\
  c_lasts c = map (fun i => spec_last i es) (seq 0 (n_lasts sh)) /\
  length (c_dists c) = n_dists sh /\
  (forall i, (i < n_dists sh)%nat -> dist_is (spec_obs i es) (nth i (c_dists c) [])).

(* ---------------------------------------------------------------- epochs and groups *)
(* the inputs of every completed flush epoch, and the inputs merged since the last flush *)
Fixpoint epochs_from (cur : list entry) (ops : list op) : list (list entry) * list entry :=
  match ops with
  | [] => ([], cur)
  | OMerge e :: r => epochs_from (cur ++ [e]) r
  | OFlush :: r => let p := epochs_from [] r in (cur :: fst p, snd p)
  end.
Definition complete_epochs (ops : list op) : list (list entry) := fst (epochs_from [] ops).
Definition open_epoch (ops : list op) : list entry := snd (epochs_from [] ops).

Section Keyed.
  Variable kf : entry -> key.
  Variable sh : shape.

  (* the inputs of an epoch selected by key k *)
  Definition group (k : key) (es : list entry) : list entry := filter (fun e => key_eqb (kf e) k) es.

  (* one flush batch against its epoch: one aggregate per distinct key, every input's key is present,
     and the aggregate under key k aggregates exactly the inputs with key k *)
  Definition batch_ok (ep : list entry) (b : list emitted) : Prop :=
    NoDup (map fst b) /\
    (forall e, In e ep -> In (kf e) (map fst b)) /\
    (forall k c, In (k, c) b -> group k ep <> [] /\ agg_ok sh (group k ep) c).

  (* the same for what is still held between flushes *)
  Definition held_ok (ep : list entry) (st : list slot) : Prop :=
    batch_ok ep (map (fun s => (fst s, close_acc (snd s))) st).
End Keyed.

(* ---------------------------------------------------------------- the whole sink tree *)
(* every keyed leaf of a (tee) tree satisfies the promise for its own key function, against the SAME
   history; every raw leaf has received every input, in order *)
Fixpoint tree_ok (sh : shape) (ops : list op) (s : sink) : Prop :=
  match s with
  | SKeyed f st out =>
      Forall2 (batch_ok (apply_kf f) sh) (complete_epochs ops) out /\
      held_ok (apply_kf f) sh (open_epoch ops) st
  | SRaw out => out = concat (complete_epochs ops) ++ open_epoch ops
  | STee a b => tree_ok sh ops a /\ tree_ok sh ops b
  end.

(* initial trees: nothing held, nothing emitted *)
Fixpoint tree_empty (s : sink) : Prop :=
  match s with
  | SKeyed _ st out => st = [] /\ out = []
  | SRaw out => out = []
  | STee a b => tree_empty a /\ tree_empty b
  end.

(* Aggregate<T>: a single aggregate of everything inserted *)
Definition embedded_ok (sh : shape) (es : list entry) (a : accum) : Prop := agg_ok sh es (close_acc a).
