(* C10 — hash-equal borrowed and owned keys.  If the owned key hashes like the borrowed key (Cow's Hash
   forwards to the borrowed form), resizes at arbitrary moments are invisible: the table with stored
   hashes behaves exactly like the plain keyed aggregator, hence conserves.  If the two hashes may
   differ, a resize splits a key into two aggregates of the same flush. *)
From Coq Require Import List NArith Bool Lia.
From MV Require Import C10.Model C10.Spec C10.Fields C10.Keyed.
Import ListNotations.
Local Open Scope N_scope.

Section HK.
  Variable hb ho : key -> N.
  Variable sh : shape.
  Hypothesis hash_equal : forall k, ho k = hb k.

  (* every stored hash is the borrowed-key hash of its slot's key *)
  Definition hashes_ok (st : list hslot) : Prop := Forall (fun s => fst (fst s) = hb (snd (fst s))) st.

  Lemma hmerge_into_ok : forall st k e, hashes_ok st -> hashes_ok (hmerge_into hb sh st k e).
  Proof.
    induction st as [|[[hs k'] a] st IH]; intros k e H; cbn [hmerge_into].
    - constructor; [reflexivity|constructor].
    - inversion H as [|? ? Hh Ht]; subst. destruct ((hs =? hb k) && key_eqb k' k).
      + constructor; assumption.
      + constructor; [assumption|now apply IH].
  Qed.

  Lemma rehash_ok : forall st, hashes_ok (rehash ho st).
  Proof. induction st as [|[[hs k] a] st IH]; cbn; constructor; [cbn; apply hash_equal|exact IH]. Qed.

  Lemma rehash_erase : forall st, erase (rehash ho st) = erase st.
  Proof. induction st as [|[[hs k] a] st IH]; cbn; [reflexivity|]. f_equal. exact IH. Qed.

  Lemma hmerge_into_erase : forall st k e, hashes_ok st ->
    erase (hmerge_into hb sh st k e) = merge_into hb sh (erase st) k e.
  Proof.
    induction st as [|[[hs k'] a] st IH]; intros k e H; cbn [hmerge_into erase map merge_into fst snd]; [reflexivity|].
    inversion H as [|? ? Hh Ht]; subst. cbn [fst snd] in Hh. subst hs.
    destruct ((hb k' =? hb k) && key_eqb k' k); cbn [erase map fst snd]; [reflexivity|].
    f_equal. now apply IH.
  Qed.

  (* simulation: with hash-equal keys the table with stored hashes, resized at arbitrary moments, is the
     plain keyed aggregator on the same merges and flushes *)
  Theorem stored_hashes_simulate : forall f ops,
    let r := hrun hb ho sh (apply_kf f) ops in
    hashes_ok (fst r) /\
    SKeyed f (erase (fst r)) (snd r) = sink_run hb sh (SKeyed f [] []) (flat_map hop_op ops).
  Proof.
    intros f ops. unfold hrun, sink_run.
    assert (G : forall st out, hashes_ok st ->
              let r := fold_left (hstep hb ho sh (apply_kf f)) ops (st, out) in
              hashes_ok (fst r) /\
              SKeyed f (erase (fst r)) (snd r)
              = fold_left (sink_step hb sh) (flat_map hop_op ops) (SKeyed f (erase st) out)).
    { induction ops as [|o ops IH]; intros st out H; cbn zeta.
      - cbn. auto.
      - destruct o as [e| |]; cbn [fold_left hstep flat_map hop_op app fst snd sink_step sink_merge sink_flush].
        + rewrite <- hmerge_into_erase by assumption. apply IH. now apply hmerge_into_ok.
        + rewrite <- (rehash_erase st). apply IH. apply rehash_ok.
        + change (@nil slot) with (erase []). apply IH. constructor. }
    apply (G [] []). constructor.
  Qed.

  (* hence conservation holds for it *)
  Corollary stored_hashes_conserve : forall f ops,
    let r := hrun hb ho sh (apply_kf f) ops in
    tree_ok sh (flat_map hop_op ops) (SKeyed f (erase (fst r)) (snd r)).
  Proof.
    intros f ops r. destruct (stored_hashes_simulate f ops) as [_ E]. fold r in E. rewrite E.
    apply tree_run_ok. cbn. auto.
  Qed.
End HK.

(* without hash equality: one key, merged before and after a resize, is emitted twice by one flush *)
Theorem stored_hashes_need_equality :
  exists (hb ho : key -> N) (e : entry),
    let r := hrun hb ho (mkS 1 0 0) e_key [HMerge e; HRehash; HMerge e; HFlushOp] in
    snd r = [[(e_key e, mkC [1] [] []); (e_key e, mkC [1] [] [])]].
Proof.
  exists (fun _ => 0), (fun _ => 1), (mkE 1 ([97], 0) [1] [] []). vm_compute. reflexivity.
Qed.
