(* C10 — proofs, part 1: the per-field strategies.  Folding the generated Merge over any list of inputs
   yields, field by field, the sum / the last value / all observations; closing a SortAndMerge
   distribution represents its observations exactly, by count. *)
From Coq Require Import List NArith Bool Lia Sorting.Sorted.
From MV Require Import C10.Model C10.Spec.
Import ListNotations.
Local Open Scope N_scope.

(* ---------------------------------------------------------------- zipk *)
Lemma zipk_length : forall A B (f : A -> B -> A) acc vals, length (zipk f acc vals) = length acc.
Proof.
  induction acc as [|a acc IH]; intros vals; [reflexivity|].
  destruct vals as [|v vals]; cbn [zipk length]; [reflexivity|]. now rewrite IH.
Qed.

Lemma nth_zipk : forall A B (f : A -> B -> A) (da : A) (dv : B),
  (forall a, f a dv = a) ->
  forall acc vals i, (i < length acc)%nat ->
  nth i (zipk f acc vals) da = f (nth i acc da) (nth i vals dv).
Proof.
  intros A B f da dv Hn. induction acc as [|a acc IH]; intros vals i Hi; [cbn in Hi; lia|].
  destruct vals as [|v vals].
  - cbn [zipk]. destruct i; cbn [nth]; now rewrite Hn.
  - cbn [zipk]. destruct i as [|i]; cbn [nth]; [reflexivity|]. apply IH. cbn in Hi. lia.
Qed.

Lemma fold_zipk_length : forall A B (f : A -> B -> A) (g : entry -> list B) es acc,
  length (fold_left (fun a e => zipk f a (g e)) es acc) = length acc.
Proof.
  induction es as [|e es IH]; intros acc; [reflexivity|]. cbn [fold_left]. now rewrite IH, zipk_length.
Qed.

Lemma nth_fold_zipk : forall A B (f : A -> B -> A) (da : A) (dv : B) (g : entry -> list B),
  (forall a, f a dv = a) ->
  forall es acc i, (i < length acc)%nat ->
  nth i (fold_left (fun a e => zipk f a (g e)) es acc) da
  = fold_left (fun x e => f x (nth i (g e) dv)) es (nth i acc da).
Proof.
  intros A B f da dv g Hn. induction es as [|e es IH]; intros acc i Hi; [reflexivity|].
  cbn [fold_left]. rewrite IH by (now rewrite zipk_length). now rewrite (nth_zipk _ _ f da dv Hn).
Qed.

(* ---------------------------------------------------------------- merge_entry, field by field *)
Lemma fold_merge_sums : forall es a,
  a_sums (fold_left merge_entry es a) = fold_left (fun x e => zipk sum_insert x (e_sums e)) es (a_sums a).
Proof. induction es as [|e es IH]; intros a; [reflexivity|]. cbn [fold_left]. now rewrite IH. Qed.
Lemma fold_merge_lasts : forall es a,
  a_lasts (fold_left merge_entry es a) = fold_left (fun x e => zipk last_insert x (e_lasts e)) es (a_lasts a).
Proof. induction es as [|e es IH]; intros a; [reflexivity|]. cbn [fold_left]. now rewrite IH. Qed.
Lemma fold_merge_dists : forall es a,
  a_dists (fold_left merge_entry es a) = fold_left (fun x e => zipk dist_insert x (e_dists e)) es (a_dists a).
Proof. induction es as [|e es IH]; intros a; [reflexivity|]. cbn [fold_left]. now rewrite IH. Qed.

Lemma fold_sum : forall (v : entry -> N) es x, fold_left (fun x e => sum_insert x (v e)) es x = x + sum_list (map v es).
Proof.
  intros v. induction es as [|e es IH]; intros x; cbn [fold_left map sum_list fold_right]; [lia|].
  rewrite IH. unfold sum_insert, sum_list. lia.
Qed.

Lemma first_some_app : forall l1 l2,
  first_some (l1 ++ l2) = match first_some l1 with Some y => Some y | None => first_some l2 end.
Proof. induction l1 as [|[x|] l1 IH]; intros l2; cbn; auto. Qed.

Lemma fold_last : forall (v : entry -> option N) es x,
  fold_left (fun x e => last_insert x (v e)) es x
  = match first_some (rev (map v es)) with Some y => Some y | None => x end.
Proof.
  intros v. induction es as [|e es IH]; intros x; cbn [fold_left map rev]; [reflexivity|].
  rewrite IH, first_some_app. destruct (first_some (rev (map v es))); [reflexivity|].
  unfold last_insert. cbn. destruct (v e); reflexivity.
Qed.

Lemma fold_dist : forall (v : entry -> list N) es x,
  fold_left (fun x e => dist_insert x (v e)) es x = x ++ concat (map v es).
Proof.
  intros v. induction es as [|e es IH]; intros x; cbn [fold_left map concat]; [now rewrite app_nil_r|].
  rewrite IH. unfold dist_insert. now rewrite app_assoc.
Qed.

Lemma list_eq_map_seq : forall A (d : A) (f : nat -> A) l n,
  length l = n -> (forall i, (i < n)%nat -> nth i l d = f i) -> l = map f (seq 0 n).
Proof.
  intros A d f l n Hl Hn. apply (nth_ext _ _ d (f 0%nat)).
  - now rewrite map_length, seq_length.
  - intros i Hi. rewrite Hl in Hi. rewrite Hn by assumption.
    rewrite (nth_indep _ _ (f (nth i (seq 0 n) 0%nat))) by (now rewrite map_length, seq_length).
    rewrite map_nth. now rewrite seq_nth.
Qed.

Lemma nth_repeat_lt : forall A (x d : A) n i, (i < n)%nat -> nth i (repeat x n) d = x.
Proof. induction n; intros i Hi; [lia|]. destruct i; cbn; [reflexivity|]. apply IHn. lia. Qed.

(* the accumulator after merging the inputs es into a fresh one *)
Definition acc_of (sh : shape) (es : list entry) : accum := fold_left merge_entry es (new_merged sh).

Lemma acc_of_snoc : forall sh es e, acc_of sh (es ++ [e]) = merge_entry (acc_of sh es) e.
Proof. intros. unfold acc_of. now rewrite fold_left_app. Qed.

Lemma acc_of_sums : forall sh es, a_sums (acc_of sh es) = map (fun i => spec_sum i es) (seq 0 (n_sums sh)).
Proof.
  intros sh es. unfold acc_of. rewrite fold_merge_sums. cbn [new_merged a_sums].
  apply (list_eq_map_seq _ 0).
  - now rewrite fold_zipk_length, repeat_length.
  - intros i Hi. rewrite (nth_fold_zipk _ _ sum_insert 0 0) by (rewrite ?repeat_length; auto; intros; unfold sum_insert; lia).
    rewrite nth_repeat_lt by assumption.
    rewrite (fold_sum (fun e => nth i (e_sums e) 0)). unfold spec_sum. lia.
Qed.

Lemma acc_of_lasts : forall sh es, a_lasts (acc_of sh es) = map (fun i => spec_last i es) (seq 0 (n_lasts sh)).
Proof.
  intros sh es. unfold acc_of. rewrite fold_merge_lasts. cbn [new_merged a_lasts].
  apply (list_eq_map_seq _ None).
  - now rewrite fold_zipk_length, repeat_length.
  - intros i Hi. rewrite (nth_fold_zipk _ _ last_insert None None) by (rewrite ?repeat_length; auto).
    rewrite nth_repeat_lt by assumption.
    rewrite (fold_last (fun e => nth i (e_lasts e) None)). unfold spec_last.
    now destruct (first_some _).
Qed.

Lemma acc_of_dists : forall sh es, a_dists (acc_of sh es) = map (fun i => spec_obs i es) (seq 0 (n_dists sh)).
Proof.
  intros sh es. unfold acc_of. rewrite fold_merge_dists. cbn [new_merged a_dists].
  apply (list_eq_map_seq _ []).
  - now rewrite fold_zipk_length, repeat_length.
  - intros i Hi. rewrite (nth_fold_zipk _ _ dist_insert [] []) by (rewrite ?repeat_length; auto; intros; unfold dist_insert; apply app_nil_r).
    rewrite nth_repeat_lt by assumption.
    now rewrite (fold_dist (fun e => nth i (e_dists e) [])).
Qed.

(* ---------------------------------------------------------------- SortAndMerge::drain *)
Lemma count_app : forall v l1 l2, count v (l1 ++ l2) = count v l1 + count v l2.
Proof. induction l1 as [|x l1 IH]; intros l2; cbn [count app]; [reflexivity|]. rewrite IH. lia. Qed.

Lemma count_insert_sorted : forall v x l, count v (insert_sorted x l) = (if x =? v then 1 else 0) + count v l.
Proof.
  induction l as [|y l IH]; cbn [insert_sorted count]; [reflexivity|].
  destruct (x <=? y); cbn [count]; [reflexivity|]. rewrite IH. lia.
Qed.
Lemma count_sort : forall v l, count v (sort l) = count v l.
Proof.
  induction l as [|x l IH]; [reflexivity|]. unfold sort in *. cbn [fold_right count].
  now rewrite count_insert_sorted, IH.
Qed.

Lemma count_pos_in : forall v l, 0 < count v l <-> In v l.
Proof.
  induction l as [|x l IH]; cbn [count In]; [split; [lia|tauto]|].
  destruct (N.eqb_spec x v) as [->|Hne]; split; intros H; auto; try lia.
  - right. apply IH. lia.
  - destruct H as [H|H]; [congruence|]. apply IH in H. lia.
Qed.

Lemma in_insert_sorted : forall v x l, In v (insert_sorted x l) <-> v = x \/ In v l.
Proof.
  induction l as [|y l IH]; cbn [insert_sorted In].
  - intuition.
  - destruct (x <=? y); cbn [In]; intuition.
Qed.

Lemma insert_sorted_sorted : forall x l, StronglySorted N.le l -> StronglySorted N.le (insert_sorted x l).
Proof.
  induction l as [|y l IH]; intros Hs; cbn [insert_sorted].
  - constructor; constructor.
  - inversion Hs as [|? ? Hs' Hall]; subst. destruct (N.leb_spec x y) as [Hle|Hgt].
    + constructor; [assumption|]. constructor; [assumption|].
      rewrite Forall_forall in *. intros z Hz. specialize (Hall z Hz). lia.
    + constructor; [now apply IH|]. rewrite Forall_forall in *. intros z Hz.
      apply in_insert_sorted in Hz. destruct Hz as [->|Hz]; [lia|now apply Hall].
Qed.
Lemma sort_sorted : forall l, StronglySorted N.le (sort l).
Proof.
  induction l as [|x l IH]; unfold sort in *; cbn [fold_right]; [constructor|].
  now apply insert_sorted_sorted.
Qed.

Lemma rle_go_spec : forall l cur cnt,
  StronglySorted N.le (cur :: l) -> 0 < cnt ->
  let d := rle_go cur cnt l in
  StronglySorted N.lt (map fst d) /\
  (forall v c, In (v, c) d -> c = (if v =? cur then cnt else 0) + count v l /\ 0 < c) /\
  (forall v, v = cur \/ In v l -> In v (map fst d)) /\
  (forall v, In v (map fst d) -> cur <= v).
Proof.
  induction l as [|x l IH]; intros cur cnt Hs Hc; cbn zeta.
  - cbn [rle_go map fst]. repeat split.
    + constructor; constructor.
    + cbn in H. destruct H as [H|[]]. inversion H; subst. rewrite N.eqb_refl. cbn [count]. lia.
    + cbn in H. destruct H as [H|[]]. inversion H; subst. assumption.
    + intros v [->|[]]. cbn. auto.
    + intros v [<-|[]]. lia.
  - inversion Hs as [|? ? Hs' Hall]; subst. cbn [rle_go].
    assert (Hcx : cur <= x) by (rewrite Forall_forall in Hall; apply Hall; now left).
    destruct (N.eqb_spec x cur) as [->|Hne].
    + assert (Hs2 : StronglySorted N.le (cur :: l)).
      { constructor; [now inversion Hs'|]. rewrite Forall_forall in *. intros z Hz. apply Hall. now right. }
      destruct (IH cur (cnt + 1) Hs2 ltac:(lia)) as (I1 & I2 & I3 & I4). repeat split.
      * exact I1.
      * destruct (I2 v c H) as [E _]. cbn [count]. destruct (N.eqb_spec v cur) as [->|Hv].
        -- rewrite N.eqb_refl. lia.
        -- destruct (N.eqb_spec cur v); [congruence|]. lia.
      * now destruct (I2 v c H).
      * intros v [->|[->|Hv]]; apply I3; auto.
      * exact I4.
    + assert (Hlt : cur < x) by lia.
      destruct (IH x 1 Hs' ltac:(lia)) as (I1 & I2 & I3 & I4).
      cbn [map fst]. repeat split.
      * constructor; [exact I1|]. rewrite Forall_forall. intros z Hz. specialize (I4 z Hz). lia.
      * destruct H as [H|H].
        -- inversion H; subst. rewrite N.eqb_refl. cbn [count].
           destruct (N.eqb_spec x v); [lia|].
           assert (count v l = 0); [|lia].
           destruct (N.eq_dec (count v l) 0) as [E|E]; [assumption|].
           assert (Hin : In v l) by (apply count_pos_in; lia).
           inversion Hs' as [|? ? _ Hall']; subst. rewrite Forall_forall in Hall'. specialize (Hall' v Hin). lia.
        -- destruct (I2 v c H) as [E _]. cbn [count].
           assert (Hv : x <= v) by (apply I4; apply in_map_iff; exists (v, c); auto).
           destruct (N.eqb_spec v cur); [lia|].
           destruct (N.eqb_spec v x) as [->|Hvx].
           ++ rewrite N.eqb_refl. lia.
           ++ destruct (N.eqb_spec x v); [congruence|]. lia.
      * destruct H as [H|H]; [inversion H; subst; assumption|]. now destruct (I2 v c H).
      * intros v [->|[->|Hv]]; [now left|right; apply I3; auto|right; apply I3; auto].
      * intros v [<-|Hv]; [lia|]. specialize (I4 v Hv). lia.
Qed.

Theorem close_dist_exact : forall l, dist_is l (close_dist l).
Proof.
  intros l. unfold dist_is, close_dist, rle.
  pose proof (sort_sorted l) as Hs.
  destruct (sort l) as [|x r] eqn:E.
  - assert (Hl : forall v, ~ In v l).
    { intros v Hv. apply count_pos_in in Hv. rewrite <- count_sort, E in Hv. cbn in Hv. lia. }
    repeat split.
    + constructor.
    + destruct H.
    + destruct H.
    + intros v Hv. now apply Hl in Hv.
  - destruct (rle_go_spec r x 1 Hs ltac:(lia)) as (I1 & I2 & I3 & I4). repeat split.
    + exact I1.
    + destruct (I2 v c H) as [Ec _]. rewrite <- (count_sort v l), E. cbn [count].
      rewrite Ec. destruct (N.eqb_spec v x) as [->|Hv].
      * now rewrite N.eqb_refl.
      * destruct (N.eqb_spec x v); [congruence|]. reflexivity.
    + now destruct (I2 v c H).
    + intros v Hv. apply I3. apply count_pos_in in Hv. rewrite <- count_sort, E in Hv.
      cbn [count] in Hv. destruct (N.eqb_spec x v) as [->|Hne]; [now left|].
      right. apply count_pos_in. lia.
Qed.

(* ---------------------------------------------------------------- a whole aggregate *)
Theorem acc_of_ok : forall sh es, agg_ok sh es (close_acc (acc_of sh es)).
Proof.
  intros sh es. unfold agg_ok, close_acc. cbn [c_sums c_lasts c_dists].
  rewrite acc_of_sums, acc_of_lasts, acc_of_dists. split; [reflexivity|]. split; [reflexivity|]. split.
  - now rewrite !map_length, seq_length.
  - intros i Hi. rewrite map_map.
    rewrite (nth_indep _ _ (close_dist (spec_obs (nth i (seq 0 (n_dists sh)) 0%nat) es)))
      by (now rewrite map_length, seq_length).
    rewrite (map_nth (fun i => close_dist (spec_obs i es))). rewrite seq_nth by assumption.
    apply close_dist_exact.
Qed.
