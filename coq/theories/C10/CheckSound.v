(* C10 — the executable checker of Check.v decides the specification of Spec.v:
   whatever output it accepts (from the implementation or from the model) satisfies the Prop. *)
From Coq Require Import List NArith Bool Lia Sorting.Sorted.
From MV Require Import C10.Model C10.Spec C10.Check C10.Fields C10.Keyed.
Import ListNotations.
Local Open Scope N_scope.

Lemma list_eqb_eq : forall A (eqb : A -> A -> bool),
  (forall x y, eqb x y = true -> x = y) -> forall a b, list_eqb eqb a b = true -> a = b.
Proof.
  intros A eqb He. induction a as [|x a IH]; destruct b as [|y b]; cbn [list_eqb]; try discriminate; [reflexivity|].
  intros H. apply andb_true_iff in H. destruct H as [H1 H2]. f_equal; [now apply He|now apply IH].
Qed.
Lemma opt_eqb_eq : forall a b, opt_eqb a b = true -> a = b.
Proof. intros [x|] [y|]; cbn; try discriminate; [|reflexivity]. intros H. apply N.eqb_eq in H. now subst. Qed.

Lemma ascending_sorted : forall l, ascending l = true -> StronglySorted N.lt l.
Proof.
  induction l as [|x l IH]; intros H; [constructor|].
  destruct l as [|y r]; [constructor; constructor|].
  cbn [ascending] in H. apply andb_true_iff in H. destruct H as [Hxy Hr]. apply N.ltb_lt in Hxy.
  specialize (IH Hr). constructor; [assumption|].
  inversion IH as [|? ? _ Hall]; subst. constructor; [assumption|].
  rewrite Forall_forall in *. intros z Hz. specialize (Hall z Hz). lia.
Qed.

Lemma sorted_lt_nodup : forall l, StronglySorted N.lt l -> NoDup l.
Proof.
  induction l as [|x l IH]; intros H; [constructor|]. inversion H as [|? ? Hs Hall]; subst.
  constructor; [|now apply IH]. intros Hin. rewrite Forall_forall in Hall. specialize (Hall x Hin). lia.
Qed.

Lemma sum_list_app : forall a b, sum_list (a ++ b) = sum_list a + sum_list b.
Proof. induction a as [|x a IH]; intros b; cbn [app sum_list fold_right]; [reflexivity|]. fold (sum_list (a ++ b)) (sum_list a). rewrite IH. lia. Qed.

(* the occurrences of the values vs in l, plus the elements of l outside vs, make up l *)
Lemma count_partition : forall vs l, NoDup vs ->
  sum_list (map (fun v => count v l) vs)
  + N.of_nat (length (filter (fun x => negb (existsb (N.eqb x) vs)) l)) = N.of_nat (length l).
Proof.
  intros vs l Hnd. induction l as [|x l IH].
  - cbn. induction vs as [|v vs IHv]; cbn; [reflexivity|]. inversion Hnd; subst.
    fold (sum_list (map (fun _ : N => 0) vs)). cbn in IHv. now apply IHv.
  - assert (Hx : sum_list (map (fun v => count v (x :: l)) vs)
                 = (if existsb (N.eqb x) vs then 1 else 0) + sum_list (map (fun v => count v l) vs)).
    { clear IH. induction vs as [|v vs IHv]; [reflexivity|]. inversion Hnd as [|? ? Hn Hnd']; subst.
      cbn [map sum_list fold_right existsb count].
      specialize (IHv Hnd'). unfold sum_list in IHv. cbn [count] in IHv. rewrite IHv.
      destruct (N.eqb_spec x v) as [->|Hne]; cbn [orb].
      - assert (E : existsb (N.eqb v) vs = false).
        { destruct (existsb (N.eqb v) vs) eqn:E; [|reflexivity]. apply existsb_exists in E.
          destruct E as (y & Hy & Ey). apply N.eqb_eq in Ey. subst. contradiction. }
        rewrite E. lia.
      - lia. }
    rewrite Hx. cbn [filter length]. destruct (existsb (N.eqb x) vs); cbn [negb length]; lia.
Qed.

Theorem dist_okb_sound : forall l d, dist_okb l d = true -> dist_is l d.
Proof.
  intros l d H. unfold dist_okb in H. apply andb_true_iff in H. destruct H as [H Hsum].
  apply andb_true_iff in H. destruct H as [Hasc Hall]. apply N.eqb_eq in Hsum.
  pose proof (ascending_sorted _ Hasc) as Hs. rewrite forallb_forall in Hall.
  assert (Hpairs : forall v c, In (v, c) d -> c = count v l /\ 0 < c).
  { intros v c Hin. specialize (Hall _ Hin). cbn [fst snd] in Hall. apply andb_true_iff in Hall.
    destruct Hall as [E P]. apply N.eqb_eq in E. apply N.ltb_lt in P. auto. }
  split; [exact Hs|]. split; [exact Hpairs|].
  intros v Hv.
  assert (Hmap : map snd d = map (fun v => count v l) (map fst d)).
  { rewrite map_map. apply map_ext_in. intros [v' c'] Hin. cbn. now destruct (Hpairs v' c' Hin). }
  pose proof (count_partition (map fst d) l (sorted_lt_nodup _ Hs)) as Hp.
  rewrite <- Hmap, Hsum in Hp.
  assert (Hf : filter (fun x => negb (existsb (N.eqb x) (map fst d))) l = []).
  { destruct (filter (fun x => negb (existsb (N.eqb x) (map fst d))) l); [reflexivity|]. cbn [length] in Hp. lia. }
  destruct (existsb (N.eqb v) (map fst d)) eqn:E.
  - apply existsb_exists in E. destruct E as (y & Hy & Ey). apply N.eqb_eq in Ey. now subst.
  - exfalso. assert (Hin : In v (filter (fun x => negb (existsb (N.eqb x) (map fst d))) l)).
    { apply filter_In. split; [assumption|]. now rewrite E. }
    rewrite Hf in Hin. destruct Hin.
Qed.

Theorem agg_okb_sound : forall sh es c, agg_okb sh es c = true -> agg_ok sh es c.
Proof.
  intros sh es c H. unfold agg_okb in H.
  apply andb_true_iff in H. destruct H as [H H4]. apply andb_true_iff in H. destruct H as [H H3].
  apply andb_true_iff in H. destruct H as [H1 H2].
  split; [apply (list_eqb_eq _ N.eqb); [intros x y E; now apply N.eqb_eq in E|exact H1]|].
  split; [apply (list_eqb_eq _ opt_eqb opt_eqb_eq); exact H2|].
  split; [now apply PeanoNat.Nat.eqb_eq|].
  intros i Hi. rewrite forallb_forall in H4. apply dist_okb_sound. apply H4. apply in_seq. lia.
Qed.

Lemma nodup_keys_sound : forall l, nodup_keys l = true -> NoDup l.
Proof.
  induction l as [|k l IH]; intros H; [constructor|]. cbn [nodup_keys] in H.
  apply andb_true_iff in H. destruct H as [H1 H2]. constructor; [|now apply IH].
  intros Hin. apply existsb_key_in in Hin. rewrite Hin in H1. discriminate.
Qed.

Theorem batch_okb_sound : forall kf sh ep b, batch_okb kf sh ep b = true -> batch_ok kf sh ep b.
Proof.
  intros kf sh ep b H. unfold batch_okb in H.
  apply andb_true_iff in H. destruct H as [H H3]. apply andb_true_iff in H. destruct H as [H1 H2].
  split; [now apply nodup_keys_sound|]. split.
  - intros e He. rewrite forallb_forall in H2. specialize (H2 e He). now apply existsb_key_in.
  - intros k c Hin. rewrite forallb_forall in H3. specialize (H3 _ Hin). cbn [fst snd] in H3.
    destruct (group kf k ep) as [|e0 g] eqn:Eg; [discriminate|].
    split; [discriminate|]. now apply agg_okb_sound.
Qed.

Theorem batches_okb_sound : forall kf sh eps out,
  batches_okb kf sh eps out = true -> Forall2 (batch_ok kf sh) eps out.
Proof.
  intros kf sh. induction eps as [|ep eps IH]; destruct out as [|b out]; cbn [batches_okb]; try discriminate.
  - constructor.
  - intros H. apply andb_true_iff in H. destruct H as [H1 H2]. constructor; [now apply batch_okb_sound|now apply IH].
Qed.

(* ---------------------------------------------------------------- and conversely: no false alarms *)
Lemma list_eqb_refl : forall A (eqb : A -> A -> bool), (forall x, eqb x x = true) -> forall l, list_eqb eqb l l = true.
Proof. intros A eqb Hr. induction l as [|x l IH]; cbn; [reflexivity|]. now rewrite Hr, IH. Qed.
Lemma opt_eqb_refl : forall a, opt_eqb a a = true.
Proof. intros [x|]; cbn; [apply N.eqb_refl|reflexivity]. Qed.

Lemma sorted_ascending : forall l, StronglySorted N.lt l -> ascending l = true.
Proof.
  induction l as [|x l IH]; intros H; [reflexivity|]. inversion H as [|? ? Hs Hall]; subst.
  destruct l as [|y r]; [reflexivity|]. specialize (IH Hs).
  change (ascending (x :: y :: r)) with ((x <? y) && ascending (y :: r)). rewrite IH, andb_true_r.
  apply N.ltb_lt. rewrite Forall_forall in Hall. apply Hall. now left.
Qed.

Theorem dist_okb_complete : forall l d, dist_is l d -> dist_okb l d = true.
Proof.
  intros l d (Hs & Hpairs & Hall). unfold dist_okb.
  rewrite (sorted_ascending _ Hs). cbn [andb].
  assert (Hf : forallb (fun p => (snd p =? count (fst p) l) && (0 <? snd p)) d = true).
  { apply forallb_forall. intros [v c] Hin. cbn [fst snd]. destruct (Hpairs v c Hin) as [E P].
    apply andb_true_iff. split; [now apply N.eqb_eq|now apply N.ltb_lt]. }
  rewrite Hf. cbn [andb]. apply N.eqb_eq.
  assert (Hmap : map snd d = map (fun v => count v l) (map fst d)).
  { rewrite map_map. apply map_ext_in. intros [v' c'] Hin. cbn. now destruct (Hpairs v' c' Hin). }
  pose proof (count_partition (map fst d) l (sorted_lt_nodup _ Hs)) as Hp.
  assert (Hnil : filter (fun x => negb (existsb (N.eqb x) (map fst d))) l = []).
  { destruct (filter (fun x => negb (existsb (N.eqb x) (map fst d))) l) as [|z r] eqn:E; [reflexivity|]. exfalso.
    assert (Hz : In z (filter (fun x => negb (existsb (N.eqb x) (map fst d))) l)) by (rewrite E; now left).
    apply filter_In in Hz. destruct Hz as [Hz1 Hz2]. apply Hall in Hz1.
    assert (Hex : existsb (N.eqb z) (map fst d) = true) by (apply existsb_exists; exists z; split; [assumption|apply N.eqb_refl]).
    rewrite Hex in Hz2. discriminate. }
  rewrite Hnil in Hp. cbn [length] in Hp. rewrite Hmap. lia.
Qed.

Theorem agg_okb_complete : forall sh es c, agg_ok sh es c -> agg_okb sh es c = true.
Proof.
  intros sh es c (H1 & H2 & H3 & H4). unfold agg_okb. rewrite H1, H2, H3.
  rewrite (list_eqb_refl _ N.eqb N.eqb_refl), (list_eqb_refl _ opt_eqb opt_eqb_refl), PeanoNat.Nat.eqb_refl.
  cbn [andb]. apply forallb_forall. intros i Hi. apply in_seq in Hi. apply dist_okb_complete. apply H4. lia.
Qed.

Lemma nodup_keys_complete : forall l, NoDup l -> nodup_keys l = true.
Proof.
  induction l as [|k l IH]; intros H; [reflexivity|]. inversion H as [|? ? Hn Hnd]; subst. cbn [nodup_keys].
  rewrite (IH Hnd), andb_true_r. destruct (existsb (key_eqb k) l) eqn:E; [|reflexivity].
  apply existsb_key_in in E. contradiction.
Qed.

Theorem batch_okb_complete : forall kf sh ep b, batch_ok kf sh ep b -> batch_okb kf sh ep b = true.
Proof.
  intros kf sh ep b (H1 & H2 & H3). unfold batch_okb. rewrite (nodup_keys_complete _ H1). cbn [andb].
  assert (Ha : forallb (fun e => existsb (key_eqb (kf e)) (map fst b)) ep = true).
  { apply forallb_forall. intros e He. apply existsb_key_in. now apply H2. }
  rewrite Ha. cbn [andb]. apply forallb_forall. intros [k c] Hin. cbn [fst snd].
  destruct (H3 k c Hin) as [Hne Hok]. destruct (group kf k ep) as [|e0 g] eqn:Eg; [contradiction|].
  now apply agg_okb_complete.
Qed.

(* the checker DECIDES the promise *)
Theorem batch_okb_iff : forall kf sh ep b, batch_okb kf sh ep b = true <-> batch_ok kf sh ep b.
Proof. intros. split; [apply batch_okb_sound|apply batch_okb_complete]. Qed.
