(* C10 — proofs, part 2: the keyed aggregator and sink trees refine the history-based specification,
   for every hash function, key function, shape and operation sequence. *)
From Coq Require Import List NArith Bool Lia.
From MV Require Import C10.Model C10.Spec C10.Fields.
Import ListNotations.
Local Open Scope N_scope.

(* ---------------------------------------------------------------- key equality *)
Lemma bytes_eqb_spec : forall a b, bytes_eqb a b = true <-> a = b.
Proof.
  induction a as [|x a IH]; destruct b as [|y b]; cbn [bytes_eqb]; try (split; [discriminate|discriminate]); [tauto|].
  rewrite andb_true_iff, N.eqb_eq, IH. split; [intros [-> ->]; reflexivity|intros H; inversion H; auto].
Qed.
Lemma key_eqb_spec : forall a b, key_eqb a b = true <-> a = b.
Proof.
  intros [a1 a2] [b1 b2]. unfold key_eqb. cbn [fst snd].
  rewrite andb_true_iff, bytes_eqb_spec, N.eqb_eq. split; [intros [-> ->]; reflexivity|intros H; inversion H; auto].
Qed.
Lemma key_eqb_refl : forall a, key_eqb a a = true.
Proof. intros. now apply key_eqb_spec. Qed.
Lemma key_eqb_neq : forall a b, a <> b -> key_eqb a b = false.
Proof. intros a b H. destruct (key_eqb a b) eqn:E; [apply key_eqb_spec in E; contradiction|reflexivity]. Qed.
Lemma key_eqb_sym : forall a b, key_eqb a b = key_eqb b a.
Proof.
  intros a b. destruct (key_eqb a b) eqn:E.
  - apply key_eqb_spec in E. subst. now rewrite key_eqb_refl.
  - destruct (key_eqb b a) eqn:E2; [|reflexivity]. apply key_eqb_spec in E2. subst. now rewrite key_eqb_refl in E.
Qed.
Lemma existsb_key_in : forall k ks, existsb (key_eqb k) ks = true <-> In k ks.
Proof.
  intros k ks. rewrite existsb_exists. split.
  - intros (x & Hx & E). apply key_eqb_spec in E. now subst.
  - intros H. exists k. split; [assumption|apply key_eqb_refl].
Qed.

Lemma NoDup_snoc : forall A (l : list A) x, NoDup l -> ~ In x l -> NoDup (l ++ [x]).
Proof.
  induction l as [|y l IH]; intros x Hnd Hn; cbn [app].
  - constructor; [intros []|constructor].
  - inversion Hnd as [|? ? Hy Hnd']; subst. constructor.
    + rewrite in_app_iff. cbn [In]. intros [H|[H|[]]]; [contradiction|]. subst. apply Hn. now left.
    + apply IH; [assumption|]. intros H. apply Hn. now right.
Qed.

Section Keyed.
  Variable kf : entry -> key.
  Variable sh : shape.

  (* distinct keys of a history, in order of first occurrence *)
  Definition add_key (k : key) (ks : list key) : list key :=
    if existsb (key_eqb k) ks then ks else ks ++ [k].
  Definition keys_of (es : list entry) : list key := fold_left (fun ks e => add_key (kf e) ks) es [].

  Lemma keys_of_snoc : forall es e, keys_of (es ++ [e]) = add_key (kf e) (keys_of es).
  Proof. intros. unfold keys_of. now rewrite fold_left_app. Qed.

  Lemma add_key_nodup : forall k ks, NoDup ks -> NoDup (add_key k ks).
  Proof.
    intros k ks H. unfold add_key. destruct (existsb (key_eqb k) ks) eqn:E; [assumption|].
    apply NoDup_snoc; [assumption|]. intros Hin. apply existsb_key_in in Hin. congruence.
  Qed.

  Lemma keys_of_nodup : forall es, NoDup (keys_of es).
  Proof.
    intros es. pattern es. apply rev_ind; [constructor|].
    intros e l IH. rewrite keys_of_snoc. now apply add_key_nodup.
  Qed.

  Lemma in_add_key : forall k k' ks, In k' (add_key k ks) <-> k' = k \/ In k' ks.
  Proof.
    intros k k' ks. unfold add_key. destruct (existsb (key_eqb k) ks) eqn:E.
    - apply existsb_key_in in E. split; [auto|]. intros [->|H]; assumption.
    - rewrite in_app_iff. cbn [In]. intuition.
  Qed.

  Lemma keys_of_in : forall es k, In k (keys_of es) <-> exists e, In e es /\ kf e = k.
  Proof.
    intros es. pattern es. apply rev_ind.
    - intros k. cbn. split; [tauto|]. intros (e & [] & _).
    - intros e l IH k. rewrite keys_of_snoc, in_add_key, IH. split.
      + intros [->|(e' & Hin & E)].
        * exists e. split; [apply in_or_app; right; now left|reflexivity].
        * exists e'. split; [apply in_or_app; now left|assumption].
      + intros (e' & Hin & E). apply in_app_or in Hin. destruct Hin as [Hin|[<-|[]]].
        * right. now exists e'.
        * left. now symmetry.
  Qed.

  Lemma group_snoc : forall k es e,
    group kf k (es ++ [e]) = group kf k es ++ (if key_eqb (kf e) k then [e] else []).
  Proof. intros. unfold group. rewrite filter_app. reflexivity. Qed.

  Lemma in_group : forall k es e, In e (group kf k es) <-> In e es /\ kf e = k.
  Proof. intros. unfold group. rewrite filter_In, key_eqb_spec. tauto. Qed.

  Lemma group_nil_notin : forall k es, ~ In k (keys_of es) -> group kf k es = [].
  Proof.
    intros k es Hn. destruct (group kf k es) as [|e r] eqn:E; [reflexivity|].
    exfalso. apply Hn. apply keys_of_in. exists e.
    apply in_group. rewrite E. now left.
  Qed.

  (* the storage that the history es (since the last flush) must have produced *)
  Definition st_of (es : list entry) : list slot := map (fun k => (k, acc_of sh (group kf k es))) (keys_of es).

  Section WithHash.
  Variable h : key -> N.

  Lemma merge_into_map : forall (A : key -> accum) k0 e ks,
    NoDup ks ->
    merge_into h sh (map (fun k => (k, A k)) ks) k0 e =
      if existsb (key_eqb k0) ks
      then map (fun k => (k, if key_eqb k0 k then merge_entry (A k) e else A k)) ks
      else map (fun k => (k, A k)) ks ++ [(k0, merge_entry (new_merged sh) e)].
  Proof.
    intros A k0 e. induction ks as [|k ks IH]; intros Hnd; [reflexivity|].
    inversion Hnd as [|? ? Hnotin Hnd']; subst.
    cbn [map merge_into existsb].
    destruct (key_eqb k k0) eqn:E.
    - apply key_eqb_spec in E. subst k0. rewrite N.eqb_refl, key_eqb_refl. cbn [andb orb].
      f_equal. apply map_ext_in. intros k' Hk'.
      rewrite key_eqb_neq by (intros ->; contradiction). reflexivity.
    - rewrite andb_false_r. rewrite (key_eqb_sym k0 k), E. cbn [orb].
      rewrite IH by assumption. destruct (existsb (key_eqb k0) ks); reflexivity.
  Qed.

  Lemma merge_into_st_of : forall es e, merge_into h sh (st_of es) (kf e) e = st_of (es ++ [e]).
  Proof.
    intros es e. unfold st_of. rewrite merge_into_map by apply keys_of_nodup.
    rewrite keys_of_snoc. unfold add_key.
    destruct (existsb (key_eqb (kf e)) (keys_of es)) eqn:E.
    - apply map_ext_in. intros k Hk. f_equal. rewrite group_snoc.
      destruct (key_eqb (kf e) k); [now rewrite acc_of_snoc|now rewrite app_nil_r].
    - rewrite map_app. cbn [map]. f_equal.
      + apply map_ext_in. intros k Hk. f_equal. rewrite group_snoc.
        rewrite key_eqb_neq; [now rewrite app_nil_r|].
        intros <-. apply existsb_key_in in Hk. congruence.
      + f_equal. f_equal. rewrite group_snoc, key_eqb_refl.
        rewrite group_nil_notin by (rewrite <- existsb_key_in; congruence).
        reflexivity.
  Qed.

  End WithHash.

  Lemma st_of_nil : st_of [] = [].
  Proof. reflexivity. Qed.

  (* what a flush emits for an epoch *)
  Lemma drain_st_of_ok : forall ep, batch_ok kf sh ep (drain (st_of ep)).
  Proof.
    intros ep. unfold batch_ok, drain, st_of. rewrite !map_map. cbn [fst snd].
    rewrite map_id. split; [apply keys_of_nodup|]. split.
    - intros e He. apply keys_of_in. now exists e.
    - intros k c Hin. apply in_map_iff in Hin. destruct Hin as (k' & E & Hk'). inversion E; subst. split.
      + apply keys_of_in in Hk'. destruct Hk' as (e & He & Ek).
        intros Hnil. assert (Hin : In e (group kf k ep)) by (now apply in_group).
        rewrite Hnil in Hin. destruct Hin.
      + apply acc_of_ok.
  Qed.
End Keyed.

(* ---------------------------------------------------------------- sink trees *)
Section Trees.
  Variable h : key -> N.
  Variable sh : shape.

  Lemma keyed_run : forall f ops cur out,
    sink_run h sh (SKeyed f (st_of (apply_kf f) sh cur) out) ops
    = SKeyed f (st_of (apply_kf f) sh (snd (epochs_from cur ops)))
               (out ++ map (fun ep => drain (st_of (apply_kf f) sh ep)) (fst (epochs_from cur ops))).
  Proof.
    intros f. induction ops as [|o ops IH]; intros cur out.
    - cbn. now rewrite app_nil_r.
    - destruct o as [e|]; cbn [sink_run fold_left sink_step sink_merge sink_flush epochs_from].
      + rewrite merge_into_st_of. apply IH.
      + change [] with (st_of (apply_kf f) sh []) at 1. unfold sink_run in IH. rewrite IH.
        cbn [fst snd map]. now rewrite <- app_assoc.
  Qed.

  Lemma raw_run : forall ops cur out,
    sink_run h sh (SRaw (out ++ cur)) ops
    = SRaw (out ++ concat (fst (epochs_from cur ops)) ++ snd (epochs_from cur ops)).
  Proof.
    induction ops as [|o ops IH]; intros cur out.
    - reflexivity.
    - destruct o as [e|]; cbn [sink_run fold_left sink_step sink_merge sink_flush epochs_from].
      + rewrite <- app_assoc. apply IH.
      + cbn [fst snd concat]. unfold sink_run in IH. rewrite app_assoc.
        rewrite <- (app_nil_r (out ++ cur)) at 1. rewrite IH. now rewrite <- !app_assoc.
  Qed.

  (* a tee hands every operation to both branches: each sees the whole history *)
  Theorem tee_run : forall ops a b, sink_run h sh (STee a b) ops = STee (sink_run h sh a ops) (sink_run h sh b ops).
  Proof. induction ops as [|o ops IH]; intros a b; [reflexivity|]. destruct o; cbn; apply IH. Qed.

  Theorem tree_run_ok : forall t ops, tree_empty t -> tree_ok sh ops (sink_run h sh t ops).
  Proof.
    induction t as [f st out|out|a IHa b IHb]; intros ops He; cbn [tree_empty] in He.
    - destruct He as [-> ->]. change [] with (st_of (apply_kf f) sh []) at 1.
      rewrite keyed_run. cbn [tree_ok app]. unfold complete_epochs, open_epoch. split.
      + induction (fst (epochs_from [] ops)) as [|ep eps IH]; cbn [map]; constructor; [apply drain_st_of_ok|assumption].
      + apply drain_st_of_ok.
    - subst out. change [] with (@nil entry ++ []) at 1. rewrite raw_run. reflexivity.
    - destruct He as [Ha Hb]. rewrite tee_run. cbn [tree_ok]. split; [now apply IHa|now apply IHb].
  Qed.
End Trees.

(* ---------------------------------------------------------------- consequences of the promise *)
(* each input of an epoch contributes to exactly one aggregate of the batch: the one under its key *)
Theorem batch_exactly_one : forall kf sh ep b, batch_ok kf sh ep b ->
  forall e, In e ep ->
  exists c, In (kf e, c) b /\ agg_ok sh (group kf (kf e) ep) c /\ In e (group kf (kf e) ep) /\
            forall k' c', In (k', c') b -> In e (group kf k' ep) -> (k', c') = (kf e, c).
Proof.
  intros kf sh ep b (Hnd & Hall & Hagg) e He.
  specialize (Hall e He). apply in_map_iff in Hall. destruct Hall as ([k c] & Ek & Hin). cbn in Ek. subst k.
  exists c. split; [assumption|]. split; [apply (proj2 (Hagg _ _ Hin))|]. split; [apply in_group; split; [assumption|reflexivity]|].
  intros k' c' Hin' Hg. apply in_group in Hg. destruct Hg as [_ Ek]. subst k'.
  f_equal. clear - Hnd Hin Hin'. induction b as [|[k0 c0] b IH]; [destruct Hin|].
  cbn [map fst] in Hnd. inversion Hnd as [|? ? Hn Hnd']; subst.
  destruct Hin as [E|Hin]; destruct Hin' as [E'|Hin'].
  - congruence.
  - inversion E; subst. exfalso. apply Hn. apply in_map_iff. now exists (kf e, c').
  - inversion E'; subst. exfalso. apply Hn. apply in_map_iff. now exists (kf e, c).
  - now apply IH.
Qed.

