(* C10 — schedule independence without timer events: if the flush interval never elapses (no timed flush,
   no timeout), then under EVERY interleaving of clients and worker the calls made on the inner sink are
   exactly the first n messages sent, in order (plus the final flush once the thread has returned).  This
   is why the single-client correspondence cases can be compared under one canonical schedule. *)
From Coq Require Import List NArith Bool Lia.
From MV Require Import C10.Model C10.Spec C10.Roots C10.Worker.
Import ListNotations.

Definition tev_of_msg (m : msg) : tev := match m with MEntry e => TMerge e | MFlush id => TFlushMsg id end.
Definition untimed (l : wlabel) : bool := match l with WRecv true | WTimeout => false | _ => true end.

Section Untimed.
  Variable h : key -> N.
  Variable sh : shape.
  Variable t0 : sink.

  Definition uinv (s : wstate) : Prop :=
    w_trace s = map tev_of_msg (tev_msgs (w_trace s)) ++ (if w_exited s then [TFlushTimed] else []).

  Lemma uinv_enqueue : forall s m, uinv s -> uinv (enqueue s m).
  Proof. intros s m H. unfold enqueue. destruct (w_exited s) eqn:E; [assumption|]. unfold uinv in *. cbn. now rewrite E in H. Qed.

  Lemma uinv_step : forall s l s', untimed l = true -> wstep true h sh s l = Some s' -> uinv s -> uinv s'.
  Proof.
    intros s l s' Hu H U. destruct l; cbn [wstep] in H; cbn [untimed] in Hu.
    - destruct (Nat.ltb 0 (w_senders s)); inversion H; subst; exact U.
    - destruct (w_senders s); inversion H; subst; exact U.
    - destruct (Nat.ltb 0 (w_senders s)); inversion H; subst. now apply uinv_enqueue.
    - destruct (Nat.ltb 0 (w_senders s) && negb (msg_in id (w_sent s))); inversion H; subst. now apply uinv_enqueue.
    - destruct (Nat.ltb 0 (w_senders s)); inversion H; subst; exact U.
    - destruct (nth_error (w_guards s) g) as [[v|]|]; inversion H; subst; exact U.
    - destruct (nth_error (w_guards s) g) as [[v|]|]; try discriminate.
      destruct (Nat.ltb 0 (w_senders s)); inversion H; subst.
      pose proof (uinv_enqueue s (MEntry v) U) as U'. unfold uinv in *. cbn. exact U'.
    - destruct timed; [discriminate|]. destruct (w_exited s) eqn:He; [discriminate|].
      unfold uinv in U. rewrite He, app_nil_r in U.
      destruct (w_chan s) as [|[e|id] r]; [discriminate| |]; inversion H; subst; unfold uinv; cbn [worker_calls w_trace w_exited];
        rewrite tev_msgs_app, map_app, <- U; cbn; now rewrite app_nil_r.
    - discriminate.
    - destruct (w_exited s) eqn:He; [discriminate|].
      unfold uinv in U. rewrite He, app_nil_r in U.
      destruct (w_chan s); [|discriminate]. destruct (w_senders s); inversion H; subst.
      unfold uinv. cbn [worker_calls w_trace w_exited]. rewrite tev_msgs_app. cbn. rewrite app_nil_r. now rewrite <- U.
  Qed.

  Lemma uinv_run : forall ls s s', forallb untimed ls = true -> wrun true h sh s ls = Some s' -> uinv s -> uinv s'.
  Proof.
    induction ls as [|l ls IH]; intros s s' Hu H U; cbn [wrun] in H.
    - now inversion H; subst.
    - cbn [forallb] in Hu. apply andb_true_iff in Hu. destruct Hu as [Hl Hls].
      destruct (wstep true h sh s l) as [s1|] eqn:E; [|discriminate].
      eapply IH; [exact Hls|exact H|]. eapply uinv_step; eassumption.
  Qed.

  Lemma firstn_app_exact : forall A (a b : list A), firstn (length a) (a ++ b) = a.
  Proof. induction a as [|x a IH]; intros b; cbn; [reflexivity|]. now rewrite IH. Qed.

  Theorem worker_untimed_deterministic : forall ls s,
    forallb untimed ls = true -> wrun true h sh (w_init t0) ls = Some s ->
    exists n,
      w_trace s = map tev_of_msg (firstn n (w_sent s)) ++ (if w_exited s then [TFlushTimed] else []) /\
      n = length (tev_msgs (w_trace s)) /\
      w_inner s = sink_run h sh t0 (map tev_op (w_trace s)).
  Proof.
    intros ls s Hu H.
    assert (U : uinv s) by (eapply uinv_run; [exact Hu|exact H|]; reflexivity).
    assert (I : winv true h sh t0 s) by (eapply winv_run; [exact H|apply winv_init]).
    exists (length (tev_msgs (w_trace s))). split; [|split; [reflexivity|apply (inv_inner _ _ _ _ s I)]].
    rewrite (inv_sent _ _ _ _ s I), firstn_app_exact. exact U.
  Qed.
End Untimed.
