(* C10 — mechanism model of the thread-safe roots: WorkerSink (sink/worker.rs), MutexSink (sink/mutex.rs)
   and the merge-on-drop guards (sink.rs), as labelled transition systems.  One label = one atomic action
   of one thread, carrying every resolved non-deterministic choice; a schedule is a list of labels.

   Ghost components (w_sent, w_trace, m_log) record history only; no transition reads them, except the
   freshness test of a flush id, which stands for the identity of the freshly created oneshot channel. *)
From Coq Require Import List NArith Bool.
From MV Require Import C10.Model.
Import ListNotations.
Local Open Scope N_scope.

Fixpoint set_nth {T} (l : list T) (i : nat) (x : T) : list T :=
  match l, i with
  | [], _ => []
  | _ :: r, O => x :: r
  | y :: r, Datatypes.S j => y :: set_nth r j x
  end.

(* ================================================================ WorkerSink *)
Inductive msg := MEntry (e : entry) | MFlush (id : N).          (* QueueMessage<T> *)

(* calls the worker thread makes on the inner sink (ghost trace) *)
Inductive tev := TMerge (e : entry) | TFlushMsg (id : N) | TFlushTimed.

Record wstate := mkWS {
  w_chan : list msg;                 (* the mpsc channel, FIFO *)
  w_senders : nat;                   (* live Sender clones = WorkerSink handles, also those owned by guards *)
  w_guards : list (option entry);    (* merge-on-drop guards: Some v while alive (value: Option<T>) *)
  w_inner : sink;                    (* the inner sink moved into the thread, with its downstream outputs *)
  w_exited : bool;                   (* the thread closure returned: inner (and the receiver) dropped *)
  w_acks : list N;                   (* oneshot acknowledgements sent, in order *)
  w_sent : list msg;                 (* ghost: every message ever enqueued *)
  w_trace : list tev                 (* ghost: every call made on inner *)
}.

Inductive wlabel :=
| HClone                       (* WorkerSink::clone *)
| HDrop                        (* drop of a handle (also: of the handle a finished guard owned) *)
| HSend (e : entry)            (* send / RootSink::merge *)
| HFlush (id : N)              (* flush(): enqueue Flush(tx); the caller then awaits the ack *)
| GNew (e : entry)             (* close_and_merge(handle.clone()) / merge(handle.clone()) *)
| GSet (g : nat) (e : entry)   (* mutation through DerefMut *)
| GDrop (g : nat)              (* Drop of the guard: value.take() -> target.merge(value) *)
| WRecv (timed : bool)         (* recv_timeout -> Ok(msg); timed = last_flush.elapsed() >= flush_interval *)
| WTimeout                     (* recv_timeout -> Err(Timeout) *)
| WDisc.                       (* recv_timeout -> Err(Disconnected) *)

Definition is_worker (l : wlabel) : bool :=
  match l with WRecv _ | WTimeout | WDisc => true | _ => false end.

Fixpoint msg_in (id : N) (l : list msg) : bool :=
  match l with
  | [] => false
  | MFlush i :: r => (i =? id) || msg_in id r
  | _ :: r => msg_in id r
  end.

Section Worker.
  Variable fixed : bool.     (* false: the loop as found (every Err is treated as a timeout);
                                true : the repaired loop (Disconnected: final flush, return) *)
  Variable h : key -> N.
  Variable sh : shape.

  Definition enqueue (s : wstate) (m : msg) : wstate :=
    (* a send after the receiver is gone fails and the message is dropped (the result is ignored) *)
    if w_exited s then s
    else mkWS (w_chan s ++ [m]) (w_senders s) (w_guards s) (w_inner s) (w_exited s) (w_acks s)
              (w_sent s ++ [m]) (w_trace s).

  Definition with_senders (s : wstate) (n : nat) : wstate :=
    mkWS (w_chan s) n (w_guards s) (w_inner s) (w_exited s) (w_acks s) (w_sent s) (w_trace s).
  Definition with_guards (s : wstate) (g : list (option entry)) : wstate :=
    mkWS (w_chan s) (w_senders s) g (w_inner s) (w_exited s) (w_acks s) (w_sent s) (w_trace s).

  (* the worker applies calls to inner *)
  Definition worker_calls (s : wstate) (chan : list msg) (inner : sink) (exited : bool) (acks : list N) (t : list tev) : wstate :=
    mkWS chan (w_senders s) (w_guards s) inner exited acks (w_sent s) (w_trace s ++ t).

  Definition wstep (s : wstate) (l : wlabel) : option wstate :=
    match l with
    | HClone => if Nat.ltb 0 (w_senders s) then Some (with_senders s (Datatypes.S (w_senders s))) else None
    | HDrop => match w_senders s with O => None | Datatypes.S n => Some (with_senders s n) end
    | HSend e => if Nat.ltb 0 (w_senders s) then Some (enqueue s (MEntry e)) else None
    | HFlush id =>
        if Nat.ltb 0 (w_senders s) && negb (msg_in id (w_sent s)) then Some (enqueue s (MFlush id)) else None
    | GNew e =>
        if Nat.ltb 0 (w_senders s)
        then Some (with_guards (with_senders s (Datatypes.S (w_senders s))) (w_guards s ++ [Some e]))
        else None
    | GSet g e =>
        match nth_error (w_guards s) g with
        | Some (Some _) => Some (with_guards s (set_nth (w_guards s) g (Some e)))
        | _ => None
        end
    | GDrop g =>
        (* the guard's own handle is dropped afterwards: a separate HDrop *)
        match nth_error (w_guards s) g with
        | Some (Some v) =>
            if Nat.ltb 0 (w_senders s)
            then Some (with_guards (enqueue s (MEntry v)) (set_nth (w_guards s) g None))
            else None
        | _ => None
        end
    | WRecv timed =>
        if w_exited s then None else
        match w_chan s with
        | [] => None
        | MEntry e :: r =>
            let i1 := sink_merge h sh (w_inner s) e in
            if timed
            then Some (worker_calls s r (sink_flush i1) false (w_acks s) [TMerge e; TFlushTimed])
            else Some (worker_calls s r i1 false (w_acks s) [TMerge e])
        | MFlush id :: r =>
            Some (worker_calls s r (sink_flush (w_inner s)) false (w_acks s ++ [id]) [TFlushMsg id])
        end
    | WTimeout =>
        if w_exited s then None else
        match w_chan s, w_senders s with
        | [], Datatypes.S _ => Some (worker_calls s [] (sink_flush (w_inner s)) false (w_acks s) [TFlushTimed])
        | _, _ => None
        end
    | WDisc =>
        if w_exited s then None else
        match w_chan s, w_senders s with
        | [], O => Some (worker_calls s [] (sink_flush (w_inner s)) fixed (w_acks s) [TFlushTimed])
        | _, _ => None
        end
    end.

  Fixpoint wrun (s : wstate) (ls : list wlabel) : option wstate :=
    match ls with
    | [] => Some s
    | l :: r => match wstep s l with Some s' => wrun s' r | None => None end
    end.
End Worker.

(* WorkerSink::new(inner, interval): one handle, the thread running *)
Definition w_init (inner : sink) : wstate := mkWS [] 1 [] inner false [] [] [].

Definition tev_op (t : tev) : op := match t with TMerge e => OMerge e | _ => OFlush end.
Definition tev_msgs (t : list tev) : list msg :=
  flat_map (fun x => match x with TMerge e => [MEntry e] | TFlushMsg id => [MFlush id] | TFlushTimed => [] end) t.
Definition msg_entries (l : list msg) : list entry :=
  flat_map (fun m => match m with MEntry e => [e] | MFlush _ => [] end) l.

(* ================================================================ MutexSink<Aggregate<T>> + guards *)
Record mstate := mkMS {
  m_acc : accum;                       (* the Aggregate behind the mutex *)
  m_guards : list (option entry);
  m_closed : list closed;              (* what each close() returned, in order *)
  m_log : list entry                   (* ghost: entries merged since the last close, in lock order *)
}.

Inductive mlabel :=
| MMerge (e : entry)           (* RootSink::merge: lock; inner.merge(entry); unlock *)
| MGNew (e : entry)
| MGSet (g : nat) (e : entry)
| MGDrop (g : nat)
| MClose.                      (* CloseValue::close on some clone: lock; mem::take(inner).close() *)

Section Mutex.
  Variable sh : shape.

  Definition mstep (s : mstate) (l : mlabel) : option mstate :=
    match l with
    | MMerge e => Some (mkMS (merge_entry (m_acc s) e) (m_guards s) (m_closed s) (m_log s ++ [e]))
    | MGNew e => Some (mkMS (m_acc s) (m_guards s ++ [Some e]) (m_closed s) (m_log s))
    | MGSet g e =>
        match nth_error (m_guards s) g with
        | Some (Some _) => Some (mkMS (m_acc s) (set_nth (m_guards s) g (Some e)) (m_closed s) (m_log s))
        | _ => None
        end
    | MGDrop g =>
        match nth_error (m_guards s) g with
        | Some (Some v) =>
            Some (mkMS (merge_entry (m_acc s) v) (set_nth (m_guards s) g None) (m_closed s) (m_log s ++ [v]))
        | _ => None
        end
    | MClose => Some (mkMS (new_merged sh) (m_guards s) (m_closed s ++ [close_acc (m_acc s)]) [])
    end.

  Fixpoint mrun (s : mstate) (ls : list mlabel) : option mstate :=
    match ls with
    | [] => Some s
    | l :: r => match mstep s l with Some s' => mrun s' r | None => None end
    end.

  Definition m_init : mstate := mkMS (new_merged sh) [] [] [].
End Mutex.
