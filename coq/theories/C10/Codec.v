(* C10 — wire codec: s-expression <-> cases / observations. *)
(* DISPATCH 1000 c10_run *)
(* DISPATCH 1001 c10_check *)
From Coq Require Import List ZArith NArith Bool.
From MV Require Import Common.Sx C10.Model C10.Spec C10.Check.
Import ListNotations.
Local Open Scope N_scope.

(* ---------------------------------------------------------------- decoding *)
(* shape on the wire: (ns nl nd nh): the last nh distribution fields are bucketed histograms whose
   observable is the number of observations only *)
Record wshape := mkW { w_sh : shape; w_nd : nat; w_nh : nat }.
Definition dec_shape (x : sx) : wshape :=
  let nd := sx_nat (sx_nth x 2) in let nh := sx_nat (sx_nth x 3) in
  mkW (mkS (sx_nat (sx_nth x 0)) (sx_nat (sx_nth x 1)) (nd + nh)) nd nh.
Definition exact_shape (w : wshape) : shape := mkS (n_sums (w_sh w)) (n_lasts (w_sh w)) (w_nd w).

(* entry: (id name shard (sums) (lasts) (dists)) *)
Definition dec_entry (x : sx) : entry :=
  mkE (sx_n (sx_nth x 0))
      (sx_bytes (sx_nth x 1), sx_n (sx_nth x 2))
      (map sx_n (sx_list (sx_nth x 3)))
      (map (sx_option sx_n) (sx_list (sx_nth x 4)))
      (map (fun d => map sx_n (sx_list d)) (sx_list (sx_nth x 5))).

Definition dec_kf (x : sx) : keyfn :=
  match sx_tag x with
  | 0%Z => KFull
  | 1%Z => KName
  | _ => KThresh (sx_n (sx_arg x 0))
  end.

(* tree: (0 kf) keyed | (1) raw | (2 a b) tee *)
Fixpoint dec_tree (fuel : nat) (x : sx) : sink :=
  match fuel with
  | O => SRaw []
  | Datatypes.S fuel' =>
    match sx_tag x with
    | 0%Z => SKeyed (dec_kf (sx_arg x 0)) [] []
    | 1%Z => SRaw []
    | _ => STee (dec_tree fuel' (sx_arg x 0)) (dec_tree fuel' (sx_arg x 1))
    end
  end.

(* op: (0 entry) merge (owned) | (2 entry) merge_ref | (1) flush *)
Definition dec_op (x : sx) : op :=
  match sx_tag x with
  | 1%Z => OFlush
  | _ => OMerge (dec_entry (sx_arg x 0))
  end.

(* ---------------------------------------------------------------- canonical order of a batch *)
Fixpoint bytes_leb (a b : list N) : bool :=
  match a, b with
  | [], _ => true
  | _ :: _, [] => false
  | x :: a', y :: b' => if x <? y then true else if y <? x then false else bytes_leb a' b'
  end.
Definition key_leb (a b : key) : bool :=
  if bytes_eqb (fst a) (fst b) then snd a <=? snd b else bytes_leb (fst a) (fst b).
Fixpoint ins_by_key {T} (x : key * T) (l : list (key * T)) : list (key * T) :=
  match l with
  | [] => [x]
  | y :: r => if key_leb (fst x) (fst y) then x :: l else y :: ins_by_key x r
  end.
Definition sort_by_key {T} (l : list (key * T)) : list (key * T) := fold_right ins_by_key [] l.

(* ---------------------------------------------------------------- encoding *)
Definition enc_dist (d : list (N * N)) : sx := L (map (fun p => L [of_n (fst p * snd p); of_n (snd p)]) d).
Definition enc_count (d : list (N * N)) : sx := of_n (sum_list (map snd d)).
Definition enc_agg (w : wshape) (kc : emitted) : sx :=
  let c := snd kc in
  L [B (fst (fst kc)); of_n (snd (fst kc));
     L (map of_n (c_sums c));
     L (map (of_option of_n) (c_lasts c));
     L (map enc_dist (firstn (w_nd w) (c_dists c)) ++ map enc_count (skipn (w_nd w) (c_dists c)))].

(* what the raw leaf's recorder reads off an unaggregated entry: its first keep-last field
   (the generator stores the input's id there) *)
Definition raw_id (e : entry) : N := match nth 0 (e_lasts e) None with Some v => v | None => 0 end.

Fixpoint enc_tree (w : wshape) (s : sink) : list sx :=
  match s with
  | SKeyed _ _ out => [tagged 0 (map (fun b => L (map (enc_agg w) (sort_by_key b))) out)]
  | SRaw out => [tagged 1 (map (fun e => of_n (raw_id e)) out)]
  | STee a b => enc_tree w a ++ enc_tree w b
  end.

(* the map's hasher in the executed model: deliberately coarse, so that the hash-collision path of
   merge_into is exercised on every case (the theorems hold for every hash function) *)
Definition model_hash (k : key) : N := (N.of_nat (length (fst k)) + snd k) mod 3.

(* ---------------------------------------------------------------- entry points *)
(* case: (0 shape tree ops): operations on a sink tree, a final flush is appended by both sides
         (1 shape entries) : Aggregate<T> (no key), closed after the inserts *)
Definition c10_run (x : sx) : sx :=
  let w := dec_shape (sx_arg x 0) in
  match sx_tag x with
  | 0%Z =>
      let t := dec_tree 64 (sx_arg x 1) in
      let ops := map dec_op (sx_list (sx_arg x 2)) ++ [OFlush] in
      L (enc_tree w (sink_run model_hash (w_sh w) t ops))
  | _ =>
      let es := map dec_entry (sx_list (sx_arg x 1)) in
      enc_agg w (([], 0), close_acc (agg_run (w_sh w) es))
  end.

(* ---------------------------------------------------------------- the predicate on observed output *)
Definition dec_dist (x : sx) : list (N * N) :=
  map (fun p => let c := sx_n (sx_nth p 1) in ((sx_n (sx_nth p 0)) / (if c =? 0 then 1 else c), c)) (sx_list x).

(* an observed aggregate: the exact part as a [closed], the histogram counts separately.  A total that is
   not value*count decodes to a pair the checker rejects (the encoder prints value*count). *)
Definition dec_agg (w : wshape) (x : sx) : emitted * list N :=
  let ds := sx_list (sx_nth x 4) in
  (((sx_bytes (sx_nth x 0), sx_n (sx_nth x 1)),
    mkC (map sx_n (sx_list (sx_nth x 2)))
        (map (sx_option sx_n) (sx_list (sx_nth x 3)))
        (map dec_dist (firstn (w_nd w) ds))),
   map sx_n (skipn (w_nd w) ds)).

Definition totals_exact (x : sx) : bool :=
  forallb (fun d => forallb (fun p => let c := sx_n (sx_nth p 1) in
                                      (0 <? c) && ((sx_n (sx_nth p 0)) mod c =? 0)) (sx_list d))
          (sx_list (sx_nth x 4)).

Definition hist_okb (w : wshape) (es : list entry) (counts : list N) : bool :=
  Nat.eqb (length counts) (w_nh w) &&
  forallb (fun j => nth j counts 0 =? N.of_nat (length (spec_obs (w_nd w + j) es))) (seq 0 (w_nh w)).

Definition check_batch (w : wshape) (kf : entry -> key) (ep : list entry) (b : sx) : bool :=
  let aggs := map (dec_agg w) (sx_list b) in
  forallb totals_exact (sx_list b) &&
  batch_okb kf (exact_shape w) ep (map fst aggs) &&
  forallb (fun a => hist_okb w (group kf (fst (fst a)) ep) (snd a)) aggs.

Fixpoint check_batches (w : wshape) (kf : entry -> key) (eps : list (list entry)) (out : list sx) : bool :=
  match eps, out with
  | [], [] => true
  | ep :: eps', b :: out' => check_batch w kf ep b && check_batches w kf eps' out'
  | _, _ => false
  end.

(* walks the tree and the list of leaf observations in parallel *)
Fixpoint check_tree (w : wshape) (eps : list (list entry)) (s : sink) (obs : list sx) : bool * list sx :=
  match s with
  | SKeyed f _ _ =>
      match obs with
      | o :: r => (Z.eqb (sx_tag o) 0 && check_batches w (apply_kf f) eps (sx_args o), r)
      | [] => (false, [])
      end
  | SRaw _ =>
      match obs with
      | o :: r => (Z.eqb (sx_tag o) 1 &&
                   list_eqb N.eqb (map sx_n (sx_args o)) (map raw_id (concat eps)), r)
      | [] => (false, [])
      end
  | STee a b =>
      let ra := check_tree w eps a obs in
      let rb := check_tree w eps b (snd ra) in
      (fst ra && fst rb, snd rb)
  end.

(* input: (case observed) *)
Definition c10_check (x : sx) : sx :=
  let case := sx_nth x 0 in
  let obs := sx_nth x 1 in
  let w := dec_shape (sx_arg case 0) in
  match sx_tag case with
  | 0%Z =>
      let t := dec_tree 64 (sx_arg case 1) in
      let ops := map dec_op (sx_list (sx_arg case 2)) ++ [OFlush] in
      let r := check_tree w (complete_epochs ops) t (sx_list obs) in
      of_bool (fst r && match snd r with [] => true | _ => false end)
  | _ =>
      let es := map dec_entry (sx_list (sx_arg case 1)) in
      let a := dec_agg w obs in
      of_bool (totals_exact obs && agg_okb (exact_shape w) es (snd (fst a)) && hist_okb w es (snd a))
  end.
