(* C10 — wire codec: s-expression <-> cases / observations. *)
(* DISPATCH 1000 c10_model *)
(* DISPATCH 1001 c10_holds *)
(* DISPATCH 1002 c10_mech_observed *)
From Coq Require Import List ZArith NArith Bool.
From MV Require Import Common.Sx C10.Model C10.Spec C10.Check C10.Roots.
Import ListNotations.
Local Open Scope N_scope.

Fixpoint sx_eqb (a b : sx) : bool :=
  match a, b with
  | A x, A y => Z.eqb x y
  | B x, B y => list_eqb N.eqb x y
  | L x, L y =>
      (fix go (l1 l2 : list sx) : bool :=
         match l1, l2 with
         | [], [] => true
         | p :: l1', q :: l2' => sx_eqb p q && go l1' l2'
         | _, _ => false
         end) x y
  | _, _ => false
  end.

(* ---------------------------------------------------------------- decoding *)
(* shape on the wire: (ns nl nd nh): the last nh distribution fields are bucketed histograms whose
   observable is the number of observations only *)
Record wshape := mkW { w_sh : shape; w_nd : nat; w_nh : nat }.
Definition dec_shape (x : sx) : wshape :=
  let nd := sx_nat (sx_nth x 2) in let nh := sx_nat (sx_nth x 3) in
  mkW (mkS (sx_nat (sx_nth x 0)) (sx_nat (sx_nth x 1)) (nd + nh)) nd nh.
Definition exact_shape (w : wshape) : shape := mkS (n_sums (w_sh w)) (n_lasts (w_sh w)) (w_nd w).

(* entry: (id name shard (sums) (lasts) (dists)) *)
Definition dec_entry (x : sx) : entry :=
  mkE (sx_n (sx_nth x 0))
      (sx_bytes (sx_nth x 1), sx_n (sx_nth x 2))
      (map sx_n (sx_list (sx_nth x 3)))
      (map (sx_option sx_n) (sx_list (sx_nth x 4)))
      (map (fun d => map sx_n (sx_list d)) (sx_list (sx_nth x 5))).

Definition dec_kf (x : sx) : keyfn :=
  match sx_tag x with
  | 0%Z => KFull
  | 1%Z => KName
  | _ => KThresh (sx_n (sx_arg x 0))
  end.

(* tree: (0 kf) keyed | (1) raw | (2 a b) tee *)
Fixpoint dec_tree (fuel : nat) (x : sx) : sink :=
  match fuel with
  | O => SRaw []
  | Datatypes.S fuel' =>
    match sx_tag x with
    | 0%Z => SKeyed (dec_kf (sx_arg x 0)) [] []
    | 1%Z => SRaw []
    | _ => STee (dec_tree fuel' (sx_arg x 0)) (dec_tree fuel' (sx_arg x 1))
    end
  end.

(* op: (0 entry) merge (owned) | (2 entry) merge_ref | (1) flush *)
Definition dec_op (x : sx) : op :=
  match sx_tag x with
  | 1%Z => OFlush
  | _ => OMerge (dec_entry (sx_arg x 0))
  end.

(* ---------------------------------------------------------------- canonical order of a batch *)
Fixpoint bytes_leb (a b : list N) : bool :=
  match a, b with
  | [], _ => true
  | _ :: _, [] => false
  | x :: a', y :: b' => if x <? y then true else if y <? x then false else bytes_leb a' b'
  end.
Definition key_leb (a b : key) : bool :=
  if bytes_eqb (fst a) (fst b) then snd a <=? snd b else bytes_leb (fst a) (fst b).
Fixpoint ins_by_key {T} (x : key * T) (l : list (key * T)) : list (key * T) :=
  match l with
  | [] => [x]
  | y :: r => if key_leb (fst x) (fst y) then x :: l else y :: ins_by_key x r
  end.
Definition sort_by_key {T} (l : list (key * T)) : list (key * T) := fold_right ins_by_key [] l.

(* ---------------------------------------------------------------- encoding *)
Definition enc_dist (d : list (N * N)) : sx := L (map (fun p => L [of_n (fst p * snd p); of_n (snd p)]) d).
Definition enc_count (d : list (N * N)) : sx := of_n (sum_list (map snd d)).
Definition enc_agg (w : wshape) (kc : emitted) : sx :=
  let c := snd kc in
  L [B (fst (fst kc)); of_n (snd (fst kc));
     L (map of_n (c_sums c));
     L (map (of_option of_n) (c_lasts c));
     L (map enc_dist (firstn (w_nd w) (c_dists c)) ++ map enc_count (skipn (w_nd w) (c_dists c)))].

(* what the raw leaf's recorder reads off an unaggregated entry: its first keep-last field
   (the generator stores the input's id there) *)
Definition raw_id (e : entry) : N := match nth 0 (e_lasts e) None with Some v => v | None => 0 end.

Fixpoint enc_tree (w : wshape) (s : sink) : list sx :=
  match s with
  | SKeyed _ _ out => [tagged 0 (map (fun b => L (map (enc_agg w) (sort_by_key b))) out)]
  | SRaw out => [tagged 1 (map (fun e => of_n (raw_id e)) out)]
  | STee a b => enc_tree w a ++ enc_tree w b
  end.

(* the map's hasher in the executed model: deliberately coarse, so that the hash-collision path of
   merge_into is exercised on every case (the theorems hold for every hash function) *)
Definition model_hash (k : key) : N := (N.of_nat (length (fst k)) + snd k) mod 3.

(* embedded cases: the harness picks the API by the entry's id: for the type with keep-last fields,
   id mod 4 = 3 goes through Aggregate::insert_and_send_to, which also forwards the entry unaggregated *)
Definition forwarded (w : wshape) (es : list entry) : list entry :=
  match n_lasts (w_sh w) with
  | O => []
  | _ => filter (fun e => (e_id e) mod 4 =? 3) es
  end.

(* ---------------------------------------------------------------- entry points *)
(* case: (0 shape tree ops): operations on a sink tree, a final flush is appended by both sides
         (1 shape entries) : Aggregate<T> (no key), closed after the inserts *)
Definition c10_run_seq (x : sx) : sx :=
  let w := dec_shape (sx_arg x 0) in
  match sx_tag x with
  | 0%Z =>
      let t := dec_tree 64 (sx_arg x 1) in
      let ops := map dec_op (sx_list (sx_arg x 2)) ++ [OFlush] in
      L (enc_tree w (sink_run model_hash (w_sh w) t ops))
  | _ =>
      let es := map dec_entry (sx_list (sx_arg x 1)) in
      L [enc_agg w (([], 0), close_acc (agg_run (w_sh w) es)); L (map (fun e => of_n (raw_id e)) (forwarded w es))]
  end.

(* ---------------------------------------------------------------- the predicate on observed output *)
Definition dec_dist (x : sx) : list (N * N) :=
  map (fun p => let c := sx_n (sx_nth p 1) in ((sx_n (sx_nth p 0)) / (if c =? 0 then 1 else c), c)) (sx_list x).

(* an observed aggregate: the exact part as a [closed], the histogram counts separately.  A total that is
   not value*count decodes to a pair the checker rejects (the encoder prints value*count). *)
Definition dec_agg (w : wshape) (x : sx) : emitted * list N :=
  let ds := sx_list (sx_nth x 4) in
  (((sx_bytes (sx_nth x 0), sx_n (sx_nth x 1)),
    mkC (map sx_n (sx_list (sx_nth x 2)))
        (map (sx_option sx_n) (sx_list (sx_nth x 3)))
        (map dec_dist (firstn (w_nd w) ds))),
   map sx_n (skipn (w_nd w) ds)).

Definition totals_exact (x : sx) : bool :=
  forallb (fun d => forallb (fun p => let c := sx_n (sx_nth p 1) in
                                      (0 <? c) && ((sx_n (sx_nth p 0)) mod c =? 0)) (sx_list d))
          (sx_list (sx_nth x 4)).

Definition hist_okb (w : wshape) (es : list entry) (counts : list N) : bool :=
  Nat.eqb (length counts) (w_nh w) &&
  forallb (fun j => nth j counts 0 =? N.of_nat (length (spec_obs (w_nd w + j) es))) (seq 0 (w_nh w)).

Definition check_batch (w : wshape) (kf : entry -> key) (ep : list entry) (b : sx) : bool :=
  let aggs := map (dec_agg w) (sx_list b) in
  forallb totals_exact (sx_list b) &&
  batch_okb kf (exact_shape w) ep (map fst aggs) &&
  forallb (fun a => hist_okb w (group kf (fst (fst a)) ep) (snd a)) aggs.

Fixpoint check_batches (w : wshape) (kf : entry -> key) (eps : list (list entry)) (out : list sx) : bool :=
  match eps, out with
  | [], [] => true
  | ep :: eps', b :: out' => check_batch w kf ep b && check_batches w kf eps' out'
  | _, _ => false
  end.

(* walks the tree and the list of leaf observations in parallel *)
Fixpoint check_tree (w : wshape) (eps : list (list entry)) (s : sink) (obs : list sx) : bool * list sx :=
  match s with
  | SKeyed f _ _ =>
      match obs with
      | o :: r => (Z.eqb (sx_tag o) 0 && check_batches w (apply_kf f) eps (sx_args o), r)
      | [] => (false, [])
      end
  | SRaw _ =>
      match obs with
      | o :: r => (Z.eqb (sx_tag o) 1 &&
                   list_eqb N.eqb (map sx_n (sx_args o)) (map raw_id (concat eps)), r)
      | [] => (false, [])
      end
  | STee a b =>
      let ra := check_tree w eps a obs in
      let rb := check_tree w eps b (snd ra) in
      (fst ra && fst rb, snd rb)
  end.

(* input: (case observed) *)
Definition c10_check_seq (x : sx) : sx :=
  let case := sx_nth x 0 in
  let obs := sx_nth x 1 in
  let w := dec_shape (sx_arg case 0) in
  match sx_tag case with
  | 0%Z =>
      let t := dec_tree 64 (sx_arg case 1) in
      let ops := map dec_op (sx_list (sx_arg case 2)) ++ [OFlush] in
      let r := check_tree w (complete_epochs ops) t (sx_list obs) in
      of_bool (fst r && match snd r with [] => true | _ => false end)
  | _ =>
      let es := map dec_entry (sx_list (sx_arg case 1)) in
      let o := sx_nth obs 0 in
      let a := dec_agg w o in
      of_bool (totals_exact o && agg_okb (exact_shape w) es (snd (fst a)) && hist_okb w es (snd a) &&
               list_eqb N.eqb (map sx_n (sx_list (sx_nth obs 1))) (map raw_id (forwarded w es)))
  end.

(* ================================================================ worker / mutex cases *)

(* run a schedule, skipping labels that are not enabled (the harness skips the same actions) *)
Fixpoint wrun_skip (fixed : bool) (sh : shape) (s : wstate) (ls : list wlabel) : wstate :=
  match ls with
  | [] => s
  | l :: r => match wstep fixed model_hash sh s l with
              | Some s' => wrun_skip fixed sh s' r
              | None => wrun_skip fixed sh s r
              end
  end.

(* the worker alone, until it has nothing left to receive: at most fuel receives *)
Fixpoint drain_worker (fixed : bool) (sh : shape) (timed : bool) (fuel : nat) (s : wstate) : wstate :=
  match fuel with
  | O => s
  | Datatypes.S f =>
      match wstep fixed model_hash sh s (WRecv timed) with
      | Some s' => drain_worker fixed sh timed f s'
      | None => s
      end
  end.

(* client action: (0 e) send | (1) flush+await | (2) clone | (3) drop handle | (4 e) guard new
                  | (5 g e) guard set | (6 g) guard drop (send, then its handle goes) *)
Definition dec_action (nflush : N) (x : sx) : list wlabel :=
  match sx_tag x with
  | 0%Z => [HSend (dec_entry (sx_arg x 0))]
  | 1%Z => [HFlush nflush]
  | 2%Z => [HClone]
  | 3%Z => [HDrop]
  | 4%Z => [GNew (dec_entry (sx_arg x 0))]
  | 5%Z => [GSet (sx_nat (sx_arg x 0)) (dec_entry (sx_arg x 1))]
  | _ => [GDrop (sx_nat (sx_arg x 0))]
  end.

(* a guard drop releases the guard's handle only if the guard was alive *)
Definition guard_alive (s : wstate) (g : nat) : bool :=
  match nth_error (w_guards s) g with Some (Some _) => true | _ => false end.

(* canonical schedule of a single client: after each client action the worker drains the channel *)
Fixpoint run_script (fixed : bool) (sh : shape) (timed : bool) (nflush : N) (s : wstate) (script : list sx) : wstate :=
  match script with
  | [] => s
  | x :: r =>
      let ls := dec_action nflush x in
      let extra := match ls with [GDrop g] => if guard_alive s g then [HDrop] else [] | _ => [] end in
      let s1 := wrun_skip fixed sh s (ls ++ extra) in
      let s2 := drain_worker fixed sh timed (Datatypes.S (length (w_chan s1))) s1 in
      run_script fixed sh timed (match ls with [HFlush _] => nflush + 1 | _ => nflush end) s2 r
  end.

(* end of a case: remaining guards are dropped in order, then every handle; the worker drains and sees
   the disconnect *)
Fixpoint drop_guards (fixed : bool) (sh : shape) (timed : bool) (n : nat) (g : nat) (s : wstate) : wstate :=
  match n with
  | O => s
  | Datatypes.S n' =>
      let s1 := if guard_alive s g then wrun_skip fixed sh s [GDrop g; HDrop] else s in
      drop_guards fixed sh timed n' (Datatypes.S g) (drain_worker fixed sh timed (Datatypes.S (length (w_chan s1))) s1)
  end.
Definition finish_worker (fixed : bool) (sh : shape) (timed : bool) (s : wstate) : wstate :=
  let s1 := drop_guards fixed sh timed (length (w_guards s)) 0 s in
  let s2 := wrun_skip fixed sh s1 (repeat HDrop (w_senders s1)) in
  let s3 := drain_worker fixed sh timed (Datatypes.S (length (w_chan s2))) s2 in
  wrun_skip fixed sh s3 [WDisc].

Definition nonempty_batch (x : sx) : bool := match x with L [] => false | _ => true end.
Definition drop_empty_batches (leaf : sx) : sx :=
  match sx_tag leaf with
  | 0%Z => tagged 0 (filter nonempty_batch (sx_args leaf))
  | _ => leaf
  end.

(* case: (3 shape tree mode script); mode 0: interval never elapses, 1: interval zero (every entry is
   flushed at once; empty batches are not compared, their number depends on wall-clock timeouts) *)
Definition c10_worker_det (x : sx) : sx :=
  let w := dec_shape (sx_arg x 0) in
  let t := dec_tree 64 (sx_arg x 1) in
  let timed := sx_bool (sx_arg x 2) in
  let s := run_script true (w_sh w) timed 0 (w_init t) (sx_list (sx_arg x 3)) in
  let s' := finish_worker true (w_sh w) timed s in
  let leaves := enc_tree w (w_inner s') in
  L [L (if timed then map drop_empty_batches leaves else leaves);
     of_nat (length (w_acks s')); of_bool (w_exited s')].

(* ---------------------------------------------------------------- the promise for a single client *)
(* What the client of a worker sink is promised, read off its own script (no channel, no thread): the
   history is its sends in program order, a guard contributing its value at the time it is dropped, with a
   flush wherever it awaited one and a final flush when the last handle is gone.  With a zero interval
   every merge is flushed at once. *)
Fixpoint script_ops (timed : bool) (gs : list (option entry)) (handles : nat) (script : list sx) : list op * (list (option entry) * nat) :=
  match script with
  | [] => ([], (gs, handles))
  | x :: r =>
      let emit (e : entry) := if timed then [OMerge e; OFlush] else [OMerge e] in
      let '(now, gs', handles') :=
        match sx_tag x with
        | 0%Z => (if Nat.ltb 0 handles then emit (dec_entry (sx_arg x 0)) else [], gs, handles)
        | 1%Z => (if Nat.ltb 0 handles then [OFlush] else [], gs, handles)
        | 2%Z => ([], gs, if Nat.ltb 0 handles then Datatypes.S handles else handles)
        | 3%Z => ([], gs, Nat.pred handles)
        | 4%Z => if Nat.ltb 0 handles then ([], gs ++ [Some (dec_entry (sx_arg x 0))], Datatypes.S handles) else ([], gs, handles)
        | 5%Z => let g := sx_nat (sx_arg x 0) in
                 match nth_error gs g with
                 | Some (Some _) => ([], set_nth gs g (Some (dec_entry (sx_arg x 1))), handles)
                 | _ => ([], gs, handles)
                 end
        | _ => let g := sx_nat (sx_arg x 0) in
               match nth_error gs g with
               | Some (Some v) => if Nat.ltb 0 handles then (emit v, set_nth gs g None, Nat.pred handles) else ([], gs, handles)
               | _ => ([], gs, handles)
               end
        end in
      let rest := script_ops timed gs' handles' r in
      (now ++ fst rest, snd rest)
  end.

Definition remaining_guard_ops (timed : bool) (gs : list (option entry)) : list op :=
  flat_map (fun g => match g with Some v => if timed then [OMerge v; OFlush] else [OMerge v] | None => [] end) gs.

Definition count_flush_reqs (script : list sx) : nat :=
  length (filter (fun x => Z.eqb (sx_tag x) 1) script).

Definition nonempty_epoch (ep : list entry) : bool := match ep with [] => false | _ => true end.

Definition c10_check_worker_det (case obs : sx) : bool :=
  let w := dec_shape (sx_arg case 0) in
  let t := dec_tree 64 (sx_arg case 1) in
  let timed := sx_bool (sx_arg case 2) in
  let script := sx_list (sx_arg case 3) in
  let r := script_ops timed [] 1 script in
  let ops := fst r ++ remaining_guard_ops timed (fst (snd r)) ++ [OFlush] in
  let eps := complete_epochs ops in
  let eps' := if timed then filter nonempty_epoch eps else eps in
  let rt := check_tree w eps' t (sx_list (sx_nth obs 0)) in
  fst rt && (match snd rt with [] => true | _ => false end) &&
  Nat.eqb (sx_nat (sx_nth obs 1)) (count_flush_reqs script) &&
  sx_bool (sx_nth obs 2).

(* ================================================================ cases on real threads *)
(* The interleaving is chosen by the OS; the harness OBSERVES the linearisation (the order of calls on
   the inner sink, recorded on the worker thread resp. under the mutex).  Entries are identified by their
   first keep-last field; id / 2^20 is the index of the thread that produced the entry. *)
Definition tid_of (id : N) : N := id / 1048576.
Definition mark : N := 18446744073709551615.     (* a flush / close in the observed log *)

(* what a thread's script sends (worker) or merges (mutex), in program order: Some e, or None for an
   awaited flush request; guards contribute the last value written, at their drop; guards still alive at
   the end of the script are dropped in creation order; sleeps and closes contribute nothing *)
Fixpoint thread_events (gs : list (option entry)) (script : list sx) : list (option entry) :=
  match script with
  | [] => flat_map (fun g => match g with Some v => [Some v] | None => [] end) gs
  | x :: r =>
      match sx_tag x with
      | 0%Z => Some (dec_entry (sx_arg x 0)) :: thread_events gs r
      | 1%Z => None :: thread_events gs r
      | 4%Z => thread_events (gs ++ [Some (dec_entry (sx_arg x 0))]) r
      | 5%Z => let g := sx_nat (sx_arg x 0) in
               match nth_error gs g with
               | Some (Some _) => thread_events (set_nth gs g (Some (dec_entry (sx_arg x 1)))) r
               | _ => thread_events gs r
               end
      | 6%Z => let g := sx_nat (sx_arg x 0) in
               match nth_error gs g with
               | Some (Some v) => Some v :: thread_events (set_nth gs g None) r
               | _ => thread_events gs r
               end
      | _ => thread_events gs r
      end
  end.
Definition only_entries (l : list (option entry)) : list entry :=
  flat_map (fun o => match o with Some e => [e] | None => [] end) l.

(* every entry value occurring in a script (sends, guard creations, guard mutations) *)
Definition script_entries (script : list sx) : list entry :=
  flat_map (fun x => match sx_tag x with
                     | 0%Z | 4%Z => [dec_entry (sx_arg x 0)]
                     | 5%Z => [dec_entry (sx_arg x 1)]
                     | _ => []
                     end) script.
Fixpoint lookup_entry (id : N) (tab : list entry) : option entry :=
  match tab with
  | [] => None
  | e :: r => if raw_id e =? id then Some e else lookup_entry id r
  end.
(* observed log -> operations; None when the log mentions an entry nobody sent *)
Fixpoint log_ops (tab : list entry) (log : list N) : option (list op) :=
  match log with
  | [] => Some []
  | i :: r =>
      match log_ops tab r with
      | None => None
      | Some ops =>
          if i =? mark then Some (OFlush :: ops)
          else match lookup_entry i tab with Some e => Some (OMerge e :: ops) | None => None end
      end
  end.

(* per-thread FIFO: the thread's entries appear in the log in program order, all of them, nothing else *)
Fixpoint threads_fifo (t : N) (scripts : list sx) (log : list N) : bool :=
  match scripts with
  | [] => true
  | sc :: r =>
      list_eqb N.eqb (filter (fun i => negb (i =? mark) && (tid_of i =? t)) log)
                     (map raw_id (only_entries (thread_events [] (sx_list sc)))) &&
      threads_fifo (t + 1) r log
  end.
Definition log_tids_ok (n : N) (log : list N) : bool :=
  forallb (fun i => (i =? mark) || (tid_of i <? n)) log.

(* flush barrier, observed: when the j-th awaited flush of a thread returned, the log (of length n_j at
   that moment) already contained the thread's last earlier entry FOLLOWED by a flush *)
Fixpoint after_last (id : N) (l : list N) (acc : option (list N)) : option (list N) :=
  match l with
  | [] => acc
  | x :: r => after_last id r (if x =? id then Some r else acc)
  end.
Fixpoint barrier_ok (strict : bool) (evs : list (option entry)) (last_sent : option N) (snaps : list sx) (log : list N) : bool :=
  match evs with
  | [] => match snaps with [] => true | _ => false end
  | Some e :: r => barrier_ok strict r (Some (raw_id e)) snaps log
  | None :: r =>
      match snaps with
      | [] => false
      | n :: snaps' =>
          let pre := firstn (sx_nat n) log in
          (match last_sent with
           | Some id => match after_last id pre None with
                        | Some rest => existsb (N.eqb mark) rest
                        | None => false
                        end
           | None => if strict then existsb (N.eqb mark) pre else true
           end) && barrier_ok strict r last_sent snaps' log
      end
  end.
Fixpoint barriers_ok (strict : bool) (scripts snaps : list sx) (log : list N) : bool :=
  match scripts, snaps with
  | [], [] => true
  | sc :: r, sn :: r' =>
      barrier_ok strict (thread_events [] (sx_list sc)) None (sx_list sn) log && barriers_ok strict r r' log
  | _, _ => false
  end.

Definition ends_with_mark (log : list N) : bool :=
  match rev log with [] => true | x :: _ => x =? mark end.

(* case (4 shape tree mode (script ...)); observed (log leaves (snaps ...) exited) *)
Definition worker_thr_parts (case obs : sx) :=
  let w := dec_shape (sx_arg case 0) in
  let t := dec_tree 64 (sx_arg case 1) in
  let mode := sx_n (sx_arg case 2) in
  let scripts := sx_list (sx_arg case 3) in
  let log := map sx_n (sx_list (sx_nth obs 0)) in
  let tab := flat_map (fun sc => script_entries (sx_list sc)) scripts in
  (w, t, mode, scripts, log, log_ops tab log).

(* predicate: FIFO per producer, nothing invented, barrier, exit with everything emitted, and the
   emitted batches are what Spec.v promises for the epochs of the observed history *)
Definition c10_check_worker_thr (case obs : sx) : bool :=
  let '(w, t, mode, scripts, log, oops) := worker_thr_parts case obs in
  match oops with
  | None => false
  | Some ops =>
      let eps := complete_epochs ops in
      let eps' := if mode =? 0 then eps else filter nonempty_epoch eps in
      let rt := check_tree w eps' t (sx_list (sx_nth obs 1)) in
      fst rt && (match snd rt with [] => true | _ => false end) &&
      threads_fifo 0 scripts log && log_tids_ok (N.of_nat (length scripts)) log &&
      barriers_ok (mode =? 0) scripts (sx_list (sx_nth obs 2)) log &&
      sx_bool (sx_nth obs 3) && ends_with_mark log &&
      match open_epoch ops with [] => true | _ => false end
  end.

(* mechanism: the inner tree of the model, run on the observed history, emits the observed batches *)
Definition c10_mech_worker_thr (case obs : sx) : bool :=
  let '(w, t, mode, scripts, log, oops) := worker_thr_parts case obs in
  match oops with
  | None => false
  | Some ops =>
      let leaves := enc_tree w (sink_run model_hash (w_sh w) t ops) in
      let leaves' := if mode =? 0 then leaves else map drop_empty_batches leaves in
      sx_eqb (L leaves') (sx_nth obs 1)
  end.

(* case (2 shape (script ...)); observed (log (closed aggregate ...)): MutexSink<Aggregate<T>>, closes by
   any thread; the log ends with the final close *)
Definition mutex_parts (case obs : sx) :=
  let w := dec_shape (sx_arg case 0) in
  let scripts := sx_list (sx_arg case 1) in
  let log := map sx_n (sx_list (sx_nth obs 0)) in
  let tab := flat_map (fun sc => script_entries (sx_list sc)) scripts in
  (w, scripts, log, log_ops tab log).

Fixpoint check_closes (w : wshape) (eps : list (list entry)) (out : list sx) : bool :=
  match eps, out with
  | [], [] => true
  | ep :: eps', o :: out' =>
      let a := dec_agg w o in
      totals_exact o && agg_okb (exact_shape w) ep (snd (fst a)) && hist_okb w ep (snd a) && check_closes w eps' out'
  | _, _ => false
  end.

Definition c10_check_mutex (case obs : sx) : bool :=
  let '(w, scripts, log, oops) := mutex_parts case obs in
  match oops with
  | None => false
  | Some ops =>
      check_closes w (complete_epochs ops) (sx_list (sx_nth obs 1)) &&
      threads_fifo 0 scripts log && log_tids_ok (N.of_nat (length scripts)) log &&
      ends_with_mark log
  end.

Definition c10_mech_mutex (case obs : sx) : bool :=
  let '(w, scripts, log, oops) := mutex_parts case obs in
  match oops with
  | None => false
  | Some ops =>
      let ls := map (fun o => match o with OMerge e => MMerge e | OFlush => MClose end) ops in
      match mrun (w_sh w) (m_init (w_sh w)) ls with
      | Some s => sx_eqb (L (map (fun c => enc_agg w (([], 0), c)) (m_closed s))) (sx_nth obs 1)
      | None => false
      end
  end.

(* ---------------------------------------------------------------- mutex schedules executed in order *)
(* case (5 shape (label ...)): a schedule of the mutex LTS; every label is one critical section or a
   thread-local guard action, so executing the labels in order on the real MutexSink IS that schedule.
   label: (0 e) merge | (4 e) guard new | (5 g e) guard set | (6 g) guard drop | (7) close on a clone.
   Labels that are not enabled (dead guard) are skipped by both sides; a final close is appended. *)
Definition dec_mlabel (x : sx) : mlabel :=
  match sx_tag x with
  | 0%Z => MMerge (dec_entry (sx_arg x 0))
  | 4%Z => MGNew (dec_entry (sx_arg x 0))
  | 5%Z => MGSet (sx_nat (sx_arg x 0)) (dec_entry (sx_arg x 1))
  | 6%Z => MGDrop (sx_nat (sx_arg x 0))
  | _ => MClose
  end.
Fixpoint mrun_skip (sh : shape) (s : mstate) (ls : list mlabel) : mstate :=
  match ls with
  | [] => s
  | l :: r => match mstep sh s l with Some s' => mrun_skip sh s' r | None => mrun_skip sh s r end
  end.
Definition c10_mutex_seq (x : sx) : sx :=
  let w := dec_shape (sx_arg x 0) in
  let ls := map dec_mlabel (sx_list (sx_arg x 1)) ++ [MClose] in
  let s := mrun_skip (w_sh w) (m_init (w_sh w)) ls in
  L (map (fun c => enc_agg w (([], 0), c)) (m_closed s)).

(* the promise, read off the schedule (Guards.v's history: a guard contributes the last value written to it
   when it is dropped): thread_events already implements exactly that reading for one script, with
   (7) read as an awaited flush, i.e. the end of an epoch *)
Fixpoint mutex_seq_ops (evs : list (option entry)) : list op :=
  match evs with
  | [] => []
  | Some e :: r => OMerge e :: mutex_seq_ops r
  | None :: r => OFlush :: mutex_seq_ops r
  end.
Definition close_as_flush (x : sx) : sx := match sx_tag x with 7%Z => tagged 1 [] | _ => x end.
(* guards still alive at the final close are never merged: cut the trailing drops thread_events appends *)
Fixpoint script_events_no_final_drops (gs : list (option entry)) (script : list sx) : list (option entry) :=
  match script with
  | [] => []
  | x :: r =>
      match sx_tag x with
      | 0%Z => Some (dec_entry (sx_arg x 0)) :: script_events_no_final_drops gs r
      | 1%Z => None :: script_events_no_final_drops gs r
      | 4%Z => script_events_no_final_drops (gs ++ [Some (dec_entry (sx_arg x 0))]) r
      | 5%Z => let g := sx_nat (sx_arg x 0) in
               match nth_error gs g with
               | Some (Some _) => script_events_no_final_drops (set_nth gs g (Some (dec_entry (sx_arg x 1)))) r
               | _ => script_events_no_final_drops gs r
               end
      | 6%Z => let g := sx_nat (sx_arg x 0) in
               match nth_error gs g with
               | Some (Some v) => Some v :: script_events_no_final_drops (set_nth gs g None) r
               | _ => script_events_no_final_drops gs r
               end
      | _ => script_events_no_final_drops gs r
      end
  end.
Definition c10_check_mutex_seq (case obs : sx) : bool :=
  let w := dec_shape (sx_arg case 0) in
  let script := map close_as_flush (sx_list (sx_arg case 1)) in
  let ops := mutex_seq_ops (script_events_no_final_drops [] script) ++ [OFlush] in
  check_closes w (complete_epochs ops) (sx_list obs).

(* threaded cases (tags 2, 4) have no schedule-independent output: they are compared through c10_holds and
   c10_mech_observed only (suite "-thr") *)
Definition c10_model (x : sx) : sx :=
  match sx_tag x with
  | 3%Z => c10_worker_det x
  | 5%Z => c10_mutex_seq x
  | _ => c10_run_seq x
  end.

Definition c10_holds (x : sx) : sx :=
  match sx_tag (sx_nth x 0) with
  | 2%Z => of_bool (c10_check_mutex (sx_nth x 0) (sx_nth x 1))
  | 4%Z => of_bool (c10_check_worker_thr (sx_nth x 0) (sx_nth x 1))
  | 3%Z => of_bool (c10_check_worker_det (sx_nth x 0) (sx_nth x 1))
  | 5%Z => of_bool (c10_check_mutex_seq (sx_nth x 0) (sx_nth x 1))
  | _ => c10_check_seq x
  end.

(* DISPATCH-like second predicate: the mechanism model run on the OBSERVED linearisation of a threaded
   case reproduces the observed output (cases without threads: compared by c10_model already) *)
Definition c10_mech_observed (x : sx) : sx :=
  let case := sx_nth x 0 in
  let obs := sx_nth x 1 in
  match sx_tag case with
  | 2%Z => of_bool (c10_mech_mutex case obs)
  | 4%Z => of_bool (c10_mech_worker_thr case obs)
  | _ => of_bool true
  end.
