(* C10 — wire codec: s-expression <-> cases / observations. *)
(* DISPATCH 1000 c10_model *)
(* DISPATCH 1001 c10_holds *)
From Coq Require Import List ZArith NArith Bool.
From MV Require Import Common.Sx C10.Model C10.Spec C10.Check C10.Roots.
Import ListNotations.
Local Open Scope N_scope.

(* ---------------------------------------------------------------- decoding *)
(* shape on the wire: (ns nl nd nh): the last nh distribution fields are bucketed histograms whose
   observable is the number of observations only *)
Record wshape := mkW { w_sh : shape; w_nd : nat; w_nh : nat }.
Definition dec_shape (x : sx) : wshape :=
  let nd := sx_nat (sx_nth x 2) in let nh := sx_nat (sx_nth x 3) in
  mkW (mkS (sx_nat (sx_nth x 0)) (sx_nat (sx_nth x 1)) (nd + nh)) nd nh.
Definition exact_shape (w : wshape) : shape := mkS (n_sums (w_sh w)) (n_lasts (w_sh w)) (w_nd w).

(* entry: (id name shard (sums) (lasts) (dists)) *)
Definition dec_entry (x : sx) : entry :=
  mkE (sx_n (sx_nth x 0))
      (sx_bytes (sx_nth x 1), sx_n (sx_nth x 2))
      (map sx_n (sx_list (sx_nth x 3)))
      (map (sx_option sx_n) (sx_list (sx_nth x 4)))
      (map (fun d => map sx_n (sx_list d)) (sx_list (sx_nth x 5))).

Definition dec_kf (x : sx) : keyfn :=
  match sx_tag x with
  | 0%Z => KFull
  | 1%Z => KName
  | _ => KThresh (sx_n (sx_arg x 0))
  end.

(* tree: (0 kf) keyed | (1) raw | (2 a b) tee *)
Fixpoint dec_tree (fuel : nat) (x : sx) : sink :=
  match fuel with
  | O => SRaw []
  | Datatypes.S fuel' =>
    match sx_tag x with
    | 0%Z => SKeyed (dec_kf (sx_arg x 0)) [] []
    | 1%Z => SRaw []
    | _ => STee (dec_tree fuel' (sx_arg x 0)) (dec_tree fuel' (sx_arg x 1))
    end
  end.

(* op: (0 entry) merge (owned) | (2 entry) merge_ref | (1) flush *)
Definition dec_op (x : sx) : op :=
  match sx_tag x with
  | 1%Z => OFlush
  | _ => OMerge (dec_entry (sx_arg x 0))
  end.

(* ---------------------------------------------------------------- canonical order of a batch *)
Fixpoint bytes_leb (a b : list N) : bool :=
  match a, b with
  | [], _ => true
  | _ :: _, [] => false
  | x :: a', y :: b' => if x <? y then true else if y <? x then false else bytes_leb a' b'
  end.
Definition key_leb (a b : key) : bool :=
  if bytes_eqb (fst a) (fst b) then snd a <=? snd b else bytes_leb (fst a) (fst b).
Fixpoint ins_by_key {T} (x : key * T) (l : list (key * T)) : list (key * T) :=
  match l with
  | [] => [x]
  | y :: r => if key_leb (fst x) (fst y) then x :: l else y :: ins_by_key x r
  end.
Definition sort_by_key {T} (l : list (key * T)) : list (key * T) := fold_right ins_by_key [] l.

(* ---------------------------------------------------------------- encoding *)
Definition enc_dist (d : list (N * N)) : sx := L (map (fun p => L [of_n (fst p * snd p); of_n (snd p)]) d).
Definition enc_count (d : list (N * N)) : sx := of_n (sum_list (map snd d)).
Definition enc_agg (w : wshape) (kc : emitted) : sx :=
  let c := snd kc in
  L [B (fst (fst kc)); of_n (snd (fst kc));
     L (map of_n (c_sums c));
     L (map (of_option of_n) (c_lasts c));
     L (map enc_dist (firstn (w_nd w) (c_dists c)) ++ map enc_count (skipn (w_nd w) (c_dists c)))].

(* what the raw leaf's recorder reads off an unaggregated entry: its first keep-last field
   (the generator stores the input's id there) *)
Definition raw_id (e : entry) : N := match nth 0 (e_lasts e) None with Some v => v | None => 0 end.

Fixpoint enc_tree (w : wshape) (s : sink) : list sx :=
  match s with
  | SKeyed _ _ out => [tagged 0 (map (fun b => L (map (enc_agg w) (sort_by_key b))) out)]
  | SRaw out => [tagged 1 (map (fun e => of_n (raw_id e)) out)]
  | STee a b => enc_tree w a ++ enc_tree w b
  end.

(* the map's hasher in the executed model: deliberately coarse, so that the hash-collision path of
   merge_into is exercised on every case (the theorems hold for every hash function) *)
Definition model_hash (k : key) : N := (N.of_nat (length (fst k)) + snd k) mod 3.

(* ---------------------------------------------------------------- entry points *)
(* case: (0 shape tree ops): operations on a sink tree, a final flush is appended by both sides
         (1 shape entries) : Aggregate<T> (no key), closed after the inserts *)
Definition c10_run_seq (x : sx) : sx :=
  let w := dec_shape (sx_arg x 0) in
  match sx_tag x with
  | 0%Z =>
      let t := dec_tree 64 (sx_arg x 1) in
      let ops := map dec_op (sx_list (sx_arg x 2)) ++ [OFlush] in
      L (enc_tree w (sink_run model_hash (w_sh w) t ops))
  | _ =>
      let es := map dec_entry (sx_list (sx_arg x 1)) in
      enc_agg w (([], 0), close_acc (agg_run (w_sh w) es))
  end.

(* ---------------------------------------------------------------- the predicate on observed output *)
Definition dec_dist (x : sx) : list (N * N) :=
  map (fun p => let c := sx_n (sx_nth p 1) in ((sx_n (sx_nth p 0)) / (if c =? 0 then 1 else c), c)) (sx_list x).

(* an observed aggregate: the exact part as a [closed], the histogram counts separately.  A total that is
   not value*count decodes to a pair the checker rejects (the encoder prints value*count). *)
Definition dec_agg (w : wshape) (x : sx) : emitted * list N :=
  let ds := sx_list (sx_nth x 4) in
  (((sx_bytes (sx_nth x 0), sx_n (sx_nth x 1)),
    mkC (map sx_n (sx_list (sx_nth x 2)))
        (map (sx_option sx_n) (sx_list (sx_nth x 3)))
        (map dec_dist (firstn (w_nd w) ds))),
   map sx_n (skipn (w_nd w) ds)).

Definition totals_exact (x : sx) : bool :=
  forallb (fun d => forallb (fun p => let c := sx_n (sx_nth p 1) in
                                      (0 <? c) && ((sx_n (sx_nth p 0)) mod c =? 0)) (sx_list d))
          (sx_list (sx_nth x 4)).

Definition hist_okb (w : wshape) (es : list entry) (counts : list N) : bool :=
  Nat.eqb (length counts) (w_nh w) &&
  forallb (fun j => nth j counts 0 =? N.of_nat (length (spec_obs (w_nd w + j) es))) (seq 0 (w_nh w)).

Definition check_batch (w : wshape) (kf : entry -> key) (ep : list entry) (b : sx) : bool :=
  let aggs := map (dec_agg w) (sx_list b) in
  forallb totals_exact (sx_list b) &&
  batch_okb kf (exact_shape w) ep (map fst aggs) &&
  forallb (fun a => hist_okb w (group kf (fst (fst a)) ep) (snd a)) aggs.

Fixpoint check_batches (w : wshape) (kf : entry -> key) (eps : list (list entry)) (out : list sx) : bool :=
  match eps, out with
  | [], [] => true
  | ep :: eps', b :: out' => check_batch w kf ep b && check_batches w kf eps' out'
  | _, _ => false
  end.

(* walks the tree and the list of leaf observations in parallel *)
Fixpoint check_tree (w : wshape) (eps : list (list entry)) (s : sink) (obs : list sx) : bool * list sx :=
  match s with
  | SKeyed f _ _ =>
      match obs with
      | o :: r => (Z.eqb (sx_tag o) 0 && check_batches w (apply_kf f) eps (sx_args o), r)
      | [] => (false, [])
      end
  | SRaw _ =>
      match obs with
      | o :: r => (Z.eqb (sx_tag o) 1 &&
                   list_eqb N.eqb (map sx_n (sx_args o)) (map raw_id (concat eps)), r)
      | [] => (false, [])
      end
  | STee a b =>
      let ra := check_tree w eps a obs in
      let rb := check_tree w eps b (snd ra) in
      (fst ra && fst rb, snd rb)
  end.

(* input: (case observed) *)
Definition c10_check_seq (x : sx) : sx :=
  let case := sx_nth x 0 in
  let obs := sx_nth x 1 in
  let w := dec_shape (sx_arg case 0) in
  match sx_tag case with
  | 0%Z =>
      let t := dec_tree 64 (sx_arg case 1) in
      let ops := map dec_op (sx_list (sx_arg case 2)) ++ [OFlush] in
      let r := check_tree w (complete_epochs ops) t (sx_list obs) in
      of_bool (fst r && match snd r with [] => true | _ => false end)
  | _ =>
      let es := map dec_entry (sx_list (sx_arg case 1)) in
      let a := dec_agg w obs in
      of_bool (totals_exact obs && agg_okb (exact_shape w) es (snd (fst a)) && hist_okb w es (snd a))
  end.

(* ================================================================ worker / mutex cases *)

(* run a schedule, skipping labels that are not enabled (the harness skips the same actions) *)
Fixpoint wrun_skip (fixed : bool) (sh : shape) (s : wstate) (ls : list wlabel) : wstate :=
  match ls with
  | [] => s
  | l :: r => match wstep fixed model_hash sh s l with
              | Some s' => wrun_skip fixed sh s' r
              | None => wrun_skip fixed sh s r
              end
  end.

(* the worker alone, until it has nothing left to receive: at most fuel receives *)
Fixpoint drain_worker (fixed : bool) (sh : shape) (timed : bool) (fuel : nat) (s : wstate) : wstate :=
  match fuel with
  | O => s
  | Datatypes.S f =>
      match wstep fixed model_hash sh s (WRecv timed) with
      | Some s' => drain_worker fixed sh timed f s'
      | None => s
      end
  end.

(* client action: (0 e) send | (1) flush+await | (2) clone | (3) drop handle | (4 e) guard new
                  | (5 g e) guard set | (6 g) guard drop (send, then its handle goes) *)
Definition dec_action (nflush : N) (x : sx) : list wlabel :=
  match sx_tag x with
  | 0%Z => [HSend (dec_entry (sx_arg x 0))]
  | 1%Z => [HFlush nflush]
  | 2%Z => [HClone]
  | 3%Z => [HDrop]
  | 4%Z => [GNew (dec_entry (sx_arg x 0))]
  | 5%Z => [GSet (sx_nat (sx_arg x 0)) (dec_entry (sx_arg x 1))]
  | _ => [GDrop (sx_nat (sx_arg x 0))]
  end.

(* a guard drop releases the guard's handle only if the guard was alive *)
Definition guard_alive (s : wstate) (g : nat) : bool :=
  match nth_error (w_guards s) g with Some (Some _) => true | _ => false end.

(* canonical schedule of a single client: after each client action the worker drains the channel *)
Fixpoint run_script (fixed : bool) (sh : shape) (timed : bool) (nflush : N) (s : wstate) (script : list sx) : wstate :=
  match script with
  | [] => s
  | x :: r =>
      let ls := dec_action nflush x in
      let extra := match ls with [GDrop g] => if guard_alive s g then [HDrop] else [] | _ => [] end in
      let s1 := wrun_skip fixed sh s (ls ++ extra) in
      let s2 := drain_worker fixed sh timed (Datatypes.S (length (w_chan s1))) s1 in
      run_script fixed sh timed (match ls with [HFlush _] => nflush + 1 | _ => nflush end) s2 r
  end.

(* end of a case: remaining guards are dropped in order, then every handle; the worker drains and sees
   the disconnect *)
Fixpoint drop_guards (fixed : bool) (sh : shape) (timed : bool) (n : nat) (g : nat) (s : wstate) : wstate :=
  match n with
  | O => s
  | Datatypes.S n' =>
      let s1 := if guard_alive s g then wrun_skip fixed sh s [GDrop g; HDrop] else s in
      drop_guards fixed sh timed n' (Datatypes.S g) (drain_worker fixed sh timed (Datatypes.S (length (w_chan s1))) s1)
  end.
Definition finish_worker (fixed : bool) (sh : shape) (timed : bool) (s : wstate) : wstate :=
  let s1 := drop_guards fixed sh timed (length (w_guards s)) 0 s in
  let s2 := wrun_skip fixed sh s1 (repeat HDrop (w_senders s1)) in
  let s3 := drain_worker fixed sh timed (Datatypes.S (length (w_chan s2))) s2 in
  wrun_skip fixed sh s3 [WDisc].

Definition nonempty_batch (x : sx) : bool := match x with L [] => false | _ => true end.
Definition drop_empty_batches (leaf : sx) : sx :=
  match sx_tag leaf with
  | 0%Z => tagged 0 (filter nonempty_batch (sx_args leaf))
  | _ => leaf
  end.

(* case: (3 shape tree mode script); mode 0: interval never elapses, 1: interval zero (every entry is
   flushed at once; empty batches are not compared, their number depends on wall-clock timeouts) *)
Definition c10_worker_det (x : sx) : sx :=
  let w := dec_shape (sx_arg x 0) in
  let t := dec_tree 64 (sx_arg x 1) in
  let timed := sx_bool (sx_arg x 2) in
  let s := run_script true (w_sh w) timed 0 (w_init t) (sx_list (sx_arg x 3)) in
  let s' := finish_worker true (w_sh w) timed s in
  let leaves := enc_tree w (w_inner s') in
  L [L (if timed then map drop_empty_batches leaves else leaves);
     of_nat (length (w_acks s')); of_bool (w_exited s')].

(* ---------------------------------------------------------------- the promise for a single client *)
(* What the client of a worker sink is promised, read off its own script (no channel, no thread): the
   history is its sends in program order, a guard contributing its value at the time it is dropped, with a
   flush wherever it awaited one and a final flush when the last handle is gone.  With a zero interval
   every merge is flushed at once. *)
Fixpoint script_ops (timed : bool) (gs : list (option entry)) (handles : nat) (script : list sx) : list op * (list (option entry) * nat) :=
  match script with
  | [] => ([], (gs, handles))
  | x :: r =>
      let emit (e : entry) := if timed then [OMerge e; OFlush] else [OMerge e] in
      let '(now, gs', handles') :=
        match sx_tag x with
        | 0%Z => (if Nat.ltb 0 handles then emit (dec_entry (sx_arg x 0)) else [], gs, handles)
        | 1%Z => (if Nat.ltb 0 handles then [OFlush] else [], gs, handles)
        | 2%Z => ([], gs, if Nat.ltb 0 handles then Datatypes.S handles else handles)
        | 3%Z => ([], gs, Nat.pred handles)
        | 4%Z => if Nat.ltb 0 handles then ([], gs ++ [Some (dec_entry (sx_arg x 0))], Datatypes.S handles) else ([], gs, handles)
        | 5%Z => let g := sx_nat (sx_arg x 0) in
                 match nth_error gs g with
                 | Some (Some _) => ([], set_nth gs g (Some (dec_entry (sx_arg x 1))), handles)
                 | _ => ([], gs, handles)
                 end
        | _ => let g := sx_nat (sx_arg x 0) in
               match nth_error gs g with
               | Some (Some v) => if Nat.ltb 0 handles then (emit v, set_nth gs g None, Nat.pred handles) else ([], gs, handles)
               | _ => ([], gs, handles)
               end
        end in
      let rest := script_ops timed gs' handles' r in
      (now ++ fst rest, snd rest)
  end.

Definition remaining_guard_ops (timed : bool) (gs : list (option entry)) : list op :=
  flat_map (fun g => match g with Some v => if timed then [OMerge v; OFlush] else [OMerge v] | None => [] end) gs.

Definition count_flush_reqs (script : list sx) : nat :=
  length (filter (fun x => Z.eqb (sx_tag x) 1) script).

Definition nonempty_epoch (ep : list entry) : bool := match ep with [] => false | _ => true end.

Definition c10_check_worker_det (case obs : sx) : bool :=
  let w := dec_shape (sx_arg case 0) in
  let t := dec_tree 64 (sx_arg case 1) in
  let timed := sx_bool (sx_arg case 2) in
  let script := sx_list (sx_arg case 3) in
  let r := script_ops timed [] 1 script in
  let ops := fst r ++ remaining_guard_ops timed (fst (snd r)) ++ [OFlush] in
  let eps := complete_epochs ops in
  let eps' := if timed then filter nonempty_epoch eps else eps in
  let rt := check_tree w eps' t (sx_list (sx_nth obs 0)) in
  fst rt && (match snd rt with [] => true | _ => false end) &&
  Nat.eqb (sx_nat (sx_nth obs 1)) (count_flush_reqs script) &&
  sx_bool (sx_nth obs 2).

Definition c10_model (x : sx) : sx :=
  match sx_tag x with
  | 3%Z => c10_worker_det x
  | _ => c10_run_seq x
  end.

Definition c10_holds (x : sx) : sx :=
  match sx_tag (sx_nth x 0) with
  | 3%Z => of_bool (c10_check_worker_det (sx_nth x 0) (sx_nth x 1))
  | _ => c10_check_seq x
  end.
