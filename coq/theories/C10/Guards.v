(* C10 — proofs, part 4: merge-on-drop guards and the mutex sink.
   History-based reading of a schedule: a guard contributes, when it is dropped, the LAST value written
   to it (its creation value or a later mutation through DerefMut), exactly once; a guard that is never
   dropped contributes nothing.  Proved once for the guard table and instantiated for both roots. *)
From Coq Require Import List NArith Bool Lia.
From MV Require Import C10.Model C10.Spec C10.Fields C10.Keyed C10.Roots C10.Worker.
Import ListNotations.

(* ---------------------------------------------------------------- guard actions of a schedule *)
Inductive gact := ANew (e : entry) | ASet (g : nat) (e : entry) | ADrop (g : nat) | AOther.

Definition last_opt {T} (l : list T) : option T := match rev l with [] => None | x :: _ => Some x end.

Lemma last_opt_snoc : forall T (l : list T) x, last_opt (l ++ [x]) = Some x.
Proof. intros. unfold last_opt. now rewrite rev_app_distr. Qed.

Definition count_new (acts : list gact) : nat :=
  length (filter (fun a => match a with ANew _ => true | _ => false end) acts).

(* the values written to the g-th created guard, in program order; [created] = guards created before *)
Fixpoint writes (g : nat) (created : nat) (acts : list gact) : list entry :=
  match acts with
  | [] => []
  | ANew e :: r => (if Nat.eqb created g then [e] else []) ++ writes g (Datatypes.S created) r
  | ASet g' e :: r => (if Nat.eqb g' g then [e] else []) ++ writes g created r
  | _ :: r => writes g created r
  end.
Definition dropped (g : nat) (acts : list gact) : bool :=
  existsb (fun a => match a with ADrop g' => Nat.eqb g' g | _ => false end) acts.

(* what a drop of guard g contributes after the actions [pre] *)
Definition drop_value (pre : list gact) (g : nat) : option entry := last_opt (writes g 0 pre).

(* the guard table of the mechanism *)
Definition gstep (t : list (option entry)) (a : gact) : option (list (option entry)) :=
  match a with
  | ANew e => Some (t ++ [Some e])
  | ASet g e => match nth_error t g with Some (Some _) => Some (set_nth t g (Some e)) | _ => None end
  | ADrop g => match nth_error t g with Some (Some _) => Some (set_nth t g None) | _ => None end
  | AOther => Some t
  end.

Lemma writes_app : forall g acts1 acts2 c,
  writes g c (acts1 ++ acts2) = writes g c acts1 ++ writes g (c + count_new acts1) acts2.
Proof.
  induction acts1 as [|a acts1 IH]; intros acts2 c; cbn [app writes].
  - unfold count_new. cbn. now rewrite PeanoNat.Nat.add_0_r.
  - destruct a as [e|g' e|g'|]; cbn [writes]; rewrite IH; unfold count_new; cbn [filter length];
      rewrite <- ?app_assoc; try reflexivity.
    now rewrite <- plus_n_Sm.
Qed.

Lemma nth_error_set_nth_eq : forall T (l : list T) i x, (i < length l)%nat -> nth_error (set_nth l i x) i = Some x.
Proof. induction l as [|y l IH]; intros i x Hi; [cbn in Hi; lia|]. destruct i; cbn; [reflexivity|]. apply IH. cbn in Hi. lia. Qed.
Lemma nth_error_set_nth_neq : forall T (l : list T) i j x, i <> j -> nth_error (set_nth l i x) j = nth_error l j.
Proof.
  induction l as [|y l IH]; intros i j x Hij; [destruct i; reflexivity|].
  destruct i, j; cbn; try reflexivity; try congruence. apply IH. congruence.
Qed.
Lemma set_nth_length : forall T (l : list T) i x, length (set_nth l i x) = length l.
Proof. induction l as [|y l IH]; intros i x; [destruct i; reflexivity|]. destruct i; cbn; [reflexivity|]. now rewrite IH. Qed.

(* table t is what the actions pre produce *)
Record ginv (pre : list gact) (t : list (option entry)) : Prop := {
  g_len : length t = count_new pre;
  g_live : forall g v, nth_error t g = Some (Some v) -> drop_value pre g = Some v;
  g_dead : forall g, dropped g pre = true -> nth_error t g = Some None
}.

Lemma ginv_nil : ginv [] [].
Proof. constructor; [reflexivity| |]; intros g; [destruct g; cbn; discriminate|cbn; discriminate]. Qed.

Lemma dropped_snoc : forall g pre a,
  dropped g (pre ++ [a]) = dropped g pre || match a with ADrop g' => Nat.eqb g' g | _ => false end.
Proof. intros. unfold dropped. rewrite existsb_app. cbn. now rewrite orb_false_r. Qed.

Lemma count_new_snoc : forall pre a,
  count_new (pre ++ [a]) = (count_new pre + match a with ANew _ => 1 | _ => 0 end)%nat.
Proof. intros. unfold count_new. rewrite filter_app, app_length. destruct a; cbn; lia. Qed.

Lemma writes_snoc : forall g pre a,
  writes g 0 (pre ++ [a]) = writes g 0 pre ++
    match a with
    | ANew e => if Nat.eqb (count_new pre) g then [e] else []
    | ASet g' e => if Nat.eqb g' g then [e] else []
    | _ => []
    end.
Proof. intros. rewrite writes_app. cbn [plus]. destruct a; cbn [writes]; now rewrite ?app_nil_r. Qed.

Lemma nth_error_lt : forall T (l : list T) i x, nth_error l i = Some x -> (i < length l)%nat.
Proof. intros T l i x H. apply nth_error_Some. congruence. Qed.

Lemma ginv_step : forall pre t a t', ginv pre t -> gstep t a = Some t' -> ginv (pre ++ [a]) t'.
Proof.
  intros pre t a t' [L V D] H. destruct a as [e|g0 e|g0|]; cbn [gstep] in H.
  - inversion H; subst; clear H. constructor.
    + rewrite app_length, count_new_snoc. cbn. lia.
    + intros g v Hn. unfold drop_value. rewrite writes_snoc.
      destruct (PeanoNat.Nat.eqb_spec (count_new pre) g) as [<-|Hne].
      * rewrite nth_error_app2 in Hn by lia. rewrite L, PeanoNat.Nat.sub_diag in Hn. cbn in Hn. inversion Hn; subst.
        apply last_opt_snoc.
      * rewrite app_nil_r. assert (Hlt : (g < length t)%nat).
        { apply nth_error_lt in Hn. rewrite app_length in Hn. cbn in Hn. lia. }
        rewrite nth_error_app1 in Hn by assumption. now apply V.
    + intros g Hd. rewrite dropped_snoc, orb_false_r in Hd. specialize (D g Hd).
      rewrite nth_error_app1 by (eapply nth_error_lt; eassumption). assumption.
  - destruct (nth_error t g0) as [[v0|]|] eqn:E0; inversion H; subst; clear H.
    assert (Hlt0 : (g0 < length t)%nat) by (eapply nth_error_lt; eassumption).
    constructor.
    + now rewrite set_nth_length, count_new_snoc, PeanoNat.Nat.add_0_r.
    + intros g v Hn. unfold drop_value. rewrite writes_snoc.
      destruct (PeanoNat.Nat.eqb_spec g0 g) as [<-|Hne].
      * rewrite nth_error_set_nth_eq in Hn by assumption. inversion Hn; subst. apply last_opt_snoc.
      * rewrite app_nil_r. rewrite nth_error_set_nth_neq in Hn by assumption. now apply V.
    + intros g Hd. rewrite dropped_snoc, orb_false_r in Hd. specialize (D g Hd).
      destruct (PeanoNat.Nat.eq_dec g0 g) as [<-|Hne]; [congruence|].
      now rewrite nth_error_set_nth_neq.
  - destruct (nth_error t g0) as [[v0|]|] eqn:E0; inversion H; subst; clear H.
    assert (Hlt0 : (g0 < length t)%nat) by (eapply nth_error_lt; eassumption).
    constructor.
    + now rewrite set_nth_length, count_new_snoc, PeanoNat.Nat.add_0_r.
    + intros g v Hn. unfold drop_value. rewrite writes_snoc, app_nil_r.
      destruct (PeanoNat.Nat.eq_dec g0 g) as [<-|Hne].
      * rewrite nth_error_set_nth_eq in Hn by assumption. discriminate.
      * rewrite nth_error_set_nth_neq in Hn by assumption. now apply V.
    + intros g Hd. rewrite dropped_snoc in Hd.
      destruct (PeanoNat.Nat.eqb_spec g0 g) as [Heq|Hne].
      * subst g. now apply nth_error_set_nth_eq.
      * rewrite orb_false_r in Hd. rewrite nth_error_set_nth_neq by assumption. now apply D.
  - inversion H; subst; clear H. constructor.
    + now rewrite count_new_snoc, PeanoNat.Nat.add_0_r.
    + intros g v Hn. unfold drop_value. rewrite writes_snoc, app_nil_r. now apply V.
    + intros g Hd. rewrite dropped_snoc, orb_false_r in Hd. now apply D.
Qed.

(* a live guard has not been dropped before: every guard contributes at most once *)
Lemma ginv_live_not_dropped : forall pre t g v, ginv pre t -> nth_error t g = Some (Some v) -> dropped g pre = false.
Proof.
  intros pre t g v I Hn. destruct (dropped g pre) eqn:E; [|reflexivity].
  rewrite (g_dead pre t I g E) in Hn. discriminate.
Qed.

(* ---------------------------------------------------------------- epochs, extended at the end *)
Lemma epochs_from_snoc_merge : forall ops cur e,
  epochs_from cur (ops ++ [OMerge e]) = (fst (epochs_from cur ops), snd (epochs_from cur ops) ++ [e]).
Proof. induction ops as [|[e'|] ops IH]; intros cur e; cbn [app epochs_from fst snd]; [reflexivity|apply IH|now rewrite IH]. Qed.
Lemma epochs_from_snoc_flush : forall ops cur,
  epochs_from cur (ops ++ [OFlush]) = (fst (epochs_from cur ops) ++ [snd (epochs_from cur ops)], []).
Proof. induction ops as [|[e'|] ops IH]; intros cur; cbn [app epochs_from fst snd]; [reflexivity|apply IH|now rewrite IH]. Qed.

(* ================================================================ MutexSink<Aggregate<T>> + guards *)
Definition m_gact (l : mlabel) : gact :=
  match l with MGNew e => ANew e | MGSet g e => ASet g e | MGDrop g => ADrop g | _ => AOther end.

(* the history a schedule amounts to for the aggregate behind the mutex: direct merges, guard drops with
   the last value written to the guard, and closes (each close ends an epoch, like a flush) *)
Fixpoint mhistory (pre : list gact) (ls : list mlabel) : list op :=
  match ls with
  | [] => []
  | l :: r =>
      match l with
      | MMerge e => [OMerge e]
      | MGDrop g => match drop_value pre g with Some v => [OMerge v] | None => [] end
      | MClose => [OFlush]
      | _ => []
      end ++ mhistory (pre ++ [m_gact l]) r
  end.

Section MutexProofs.
  Variable sh : shape.

  Record minv (pre : list gact) (hist : list op) (s : mstate) : Prop := {
    mi_g : ginv pre (m_guards s);
    mi_acc : m_acc s = acc_of sh (m_log s);
    mi_log : m_log s = open_epoch hist;
    mi_closed : m_closed s = map (fun ep => close_acc (acc_of sh ep)) (complete_epochs hist)
  }.

  Lemma minv_init : minv [] [] (m_init sh).
  Proof. constructor; cbn; try reflexivity. apply ginv_nil. Qed.

  Lemma minv_step : forall pre hist s l s',
    minv pre hist s -> mstep sh s l = Some s' ->
    minv (pre ++ [m_gact l]) (hist ++ mhistory pre [l]) s'.
  Proof.
    intros pre hist s l s' [G A Lg C] H. unfold open_epoch, complete_epochs in *.
    destruct l as [e|e|g e|g|]; cbn [mstep] in H; cbn [mhistory m_gact app].
    - inversion H; subst; clear H. constructor; cbn [m_guards m_acc m_log m_closed].
      + eapply ginv_step; [exact G|reflexivity].
      + now rewrite acc_of_snoc, A.
      + unfold open_epoch. rewrite epochs_from_snoc_merge. cbn [snd]. now rewrite Lg.
      + unfold complete_epochs. rewrite epochs_from_snoc_merge. exact C.
    - inversion H; subst; clear H. rewrite app_nil_r. constructor; cbn [m_guards m_acc m_log m_closed]; try assumption.
      eapply ginv_step; [exact G|reflexivity].
    - destruct (nth_error (m_guards s) g) as [[v|]|] eqn:En; inversion H; subst; clear H.
      rewrite app_nil_r. constructor; cbn [m_guards m_acc m_log m_closed]; try assumption.
      eapply ginv_step; [exact G|]. cbn [gstep]. now rewrite En.
    - destruct (nth_error (m_guards s) g) as [[v|]|] eqn:En; inversion H; subst; clear H.
      rewrite (g_live pre _ G g v En). cbn [app]. constructor; cbn [m_guards m_acc m_log m_closed].
      + eapply ginv_step; [exact G|]. cbn [gstep]. now rewrite En.
      + now rewrite acc_of_snoc, A.
      + unfold open_epoch. rewrite epochs_from_snoc_merge. cbn [snd]. now rewrite Lg.
      + unfold complete_epochs. rewrite epochs_from_snoc_merge. exact C.
    - inversion H; subst; clear H. constructor; cbn [m_guards m_acc m_log m_closed].
      + eapply ginv_step; [exact G|reflexivity].
      + reflexivity.
      + unfold open_epoch. now rewrite epochs_from_snoc_flush.
      + unfold complete_epochs. rewrite epochs_from_snoc_flush. cbn [fst]. rewrite map_app. cbn [map].
        rewrite C, <- Lg, A. reflexivity.
  Qed.

  Lemma mhistory_cons : forall pre l r, mhistory pre (l :: r) = mhistory pre [l] ++ mhistory (pre ++ [m_gact l]) r.
  Proof. intros. cbn [mhistory]. now rewrite app_nil_r. Qed.

  Lemma minv_run : forall ls pre hist s s',
    minv pre hist s -> mrun sh s ls = Some s' ->
    minv (pre ++ map m_gact ls) (hist ++ mhistory pre ls) s'.
  Proof.
    induction ls as [|l ls IH]; intros pre hist s s' I H; cbn [mrun] in H.
    - inversion H; subst. cbn [map mhistory]. now rewrite !app_nil_r.
    - destruct (mstep sh s l) as [s1|] eqn:E; [|discriminate].
      pose proof (minv_step _ _ _ _ _ I E) as I1. specialize (IH _ _ _ _ I1 H).
      rewrite (mhistory_cons pre l ls). cbn [map]. rewrite app_assoc.
      replace (pre ++ m_gact l :: map m_gact ls) with ((pre ++ [m_gact l]) ++ map m_gact ls) by (now rewrite <- app_assoc).
      exact IH.
  Qed.

  (* For every schedule of direct merges, guard creations / mutations / drops and closes on any clones:
     every close returned the aggregate of exactly the entries merged since the previous close, where a
     guard contributed the last value written to it, at its drop; what is held is the aggregate of the
     open epoch. *)
  Theorem mutex_conservation : forall ls s, mrun sh (m_init sh) ls = Some s ->
    let hist := mhistory [] ls in
    m_closed s = map (fun ep => close_acc (acc_of sh ep)) (complete_epochs hist) /\
    Forall2 (agg_ok sh) (complete_epochs hist) (m_closed s) /\
    m_log s = open_epoch hist /\
    embedded_ok sh (open_epoch hist) (m_acc s).
  Proof.
    intros ls s H hist. pose proof (minv_run ls [] [] _ _ minv_init H) as [G A Lg C]. cbn [app] in *.
    fold hist in Lg, C. split; [exact C|]. split; [|split; [exact Lg|]].
    - rewrite C. clear. generalize (complete_epochs hist).
      induction l as [|ep eps IH]; cbn [map]; constructor; [apply acc_of_ok|exact IH].
    - unfold embedded_ok. rewrite A, Lg. apply acc_of_ok.
  Qed.

  (* a guard is merged at most once: its drop is enabled only if it was not dropped before *)
  Theorem mutex_guard_once : forall ls1 g ls2 s,
    mrun sh (m_init sh) (ls1 ++ MGDrop g :: ls2) = Some s -> dropped g (map m_gact ls1) = false.
  Proof.
    intros ls1 g ls2 s H.
    assert (Hsplit : exists s1, mrun sh (m_init sh) ls1 = Some s1 /\ mrun sh s1 (MGDrop g :: ls2) = Some s).
    { clear - H. revert H. generalize (m_init sh). induction ls1 as [|l ls1 IH]; intros s0 H; cbn [app mrun] in *.
      - now exists s0.
      - destruct (mstep sh s0 l) as [s1|]; [|discriminate]. now apply IH. }
    destruct Hsplit as (s1 & H1 & H2).
    pose proof (minv_run ls1 [] [] _ _ minv_init H1) as [G _ _ _]. cbn [app] in G.
    cbn [mrun mstep] in H2. destruct (nth_error (m_guards s1) g) as [[v|]|] eqn:En; try discriminate.
    eapply ginv_live_not_dropped; eassumption.
  Qed.
End MutexProofs.

(* ================================================================ WorkerSink: what was sent *)
Definition w_gact (l : wlabel) : gact :=
  match l with GNew e => ANew e | GSet g e => ASet g e | GDrop g => ADrop g | _ => AOther end.

(* the messages a schedule enqueues, read off the clients' actions: a guard drop sends the last value
   written to that guard *)
Fixpoint whistory (pre : list gact) (ls : list wlabel) : list msg :=
  match ls with
  | [] => []
  | l :: r =>
      match l with
      | HSend e => [MEntry e]
      | HFlush id => [MFlush id]
      | GDrop g => match drop_value pre g with Some v => [MEntry v] | None => [] end
      | _ => []
      end ++ whistory (pre ++ [w_gact l]) r
  end.

Section WorkerSent.
  Variable fixed : bool.
  Variable h : key -> N.
  Variable sh : shape.
  Variable t0 : sink.

  Lemma enqueue_live : forall s m, w_exited s = false ->
    w_sent (enqueue s m) = w_sent s ++ [m] /\ w_guards (enqueue s m) = w_guards s.
  Proof. intros s m He. unfold enqueue. rewrite He. cbn. auto. Qed.

  Lemma wsent_step : forall pre s l s',
    winv fixed h sh t0 s -> ginv pre (w_guards s) -> wstep fixed h sh s l = Some s' ->
    ginv (pre ++ [w_gact l]) (w_guards s') /\ w_sent s' = w_sent s ++ whistory pre [l].
  Proof.
    intros pre s l s' I G H.
    assert (Hlive : (0 < w_senders s)%nat -> w_exited s = false).
    { intros Hp. destruct (w_exited s) eqn:He; [|reflexivity]. apply (exited_senders fixed h sh t0 s I) in He. lia. }
    destruct l; cbn [wstep] in H; cbn [whistory w_gact]; rewrite ?app_nil_r.
    - destruct (Nat.ltb 0 (w_senders s)); inversion H; subst. cbn. split; [eapply ginv_step; [exact G|reflexivity]|reflexivity].
    - destruct (w_senders s); inversion H; subst. cbn. split; [eapply ginv_step; [exact G|reflexivity]|reflexivity].
    - destruct (Nat.ltb 0 (w_senders s)) eqn:E; inversion H; subst. apply PeanoNat.Nat.ltb_lt in E.
      destruct (enqueue_live s (MEntry e) (Hlive E)) as [-> ->]. split; [eapply ginv_step; [exact G|reflexivity]|reflexivity].
    - destruct (Nat.ltb 0 (w_senders s)) eqn:E; cbn [andb] in H; [|discriminate].
      destruct (negb (msg_in id (w_sent s))); inversion H; subst. apply PeanoNat.Nat.ltb_lt in E.
      destruct (enqueue_live s (MFlush id) (Hlive E)) as [-> ->]. split; [eapply ginv_step; [exact G|reflexivity]|reflexivity].
    - destruct (Nat.ltb 0 (w_senders s)); inversion H; subst. cbn. split; [eapply ginv_step; [exact G|reflexivity]|reflexivity].
    - destruct (nth_error (w_guards s) g) as [[v|]|] eqn:En; inversion H; subst. cbn.
      split; [eapply ginv_step; [exact G|cbn [gstep]; now rewrite En]|reflexivity].
    - destruct (nth_error (w_guards s) g) as [[v|]|] eqn:En; try discriminate.
      destruct (Nat.ltb 0 (w_senders s)) eqn:E; inversion H; subst. apply PeanoNat.Nat.ltb_lt in E.
      destruct (enqueue_live s (MEntry v) (Hlive E)) as [Es Eg]. cbn [with_guards w_guards w_sent].
      rewrite (g_live pre _ G g v En), Es. split; [|reflexivity].
      eapply ginv_step; [exact G|]. cbn [gstep]. now rewrite En.
    - destruct (w_exited s); [discriminate|]. destruct (w_chan s) as [|[e|id] r]; [discriminate| |].
      + destruct timed; inversion H; subst; cbn; (split; [eapply ginv_step; [exact G|reflexivity]|reflexivity]).
      + inversion H; subst; cbn. split; [eapply ginv_step; [exact G|reflexivity]|reflexivity].
    - destruct (w_exited s); [discriminate|]. destruct (w_chan s); [|discriminate]. destruct (w_senders s); inversion H; subst; cbn.
      split; [eapply ginv_step; [exact G|reflexivity]|reflexivity].
    - destruct (w_exited s); [discriminate|]. destruct (w_chan s); [|discriminate]. destruct (w_senders s); inversion H; subst; cbn.
      split; [eapply ginv_step; [exact G|reflexivity]|reflexivity].
  Qed.

  Lemma whistory_cons : forall pre l r, whistory pre (l :: r) = whistory pre [l] ++ whistory (pre ++ [w_gact l]) r.
  Proof. intros. cbn [whistory]. now rewrite app_nil_r. Qed.

  Lemma wsent_run : forall ls pre s s',
    winv fixed h sh t0 s -> ginv pre (w_guards s) -> wrun fixed h sh s ls = Some s' ->
    w_sent s' = w_sent s ++ whistory pre ls.
  Proof.
    induction ls as [|l ls IH]; intros pre s s' I G H; cbn [wrun] in H.
    - inversion H; subst. cbn. now rewrite app_nil_r.
    - destruct (wstep fixed h sh s l) as [s1|] eqn:E; [|discriminate].
      destruct (wsent_step pre s l s1 I G E) as [G1 S1].
      rewrite (IH _ _ _ (winv_step fixed h sh t0 _ _ _ E I) G1 H), S1, (whistory_cons pre l ls). now rewrite <- app_assoc.
  Qed.

  (* what is ever enqueued is exactly what the clients' actions say, in schedule order: sends, flush
     requests, and for each dropped guard the last value written to it *)
  Theorem worker_sent_history : forall ls s, wrun fixed h sh (w_init t0) ls = Some s -> w_sent s = whistory [] ls.
  Proof. intros ls s H. now rewrite (wsent_run ls [] _ _ (winv_init fixed h sh t0) ginv_nil H). Qed.
End WorkerSent.
