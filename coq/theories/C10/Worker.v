(* C10 — proofs, part 3: the worker sink, for every schedule (list of labels), every hasher, shape and
   inner sink tree.  FIFO processing, conservation, the flush barrier, and — for the repaired loop —
   termination with a final flush once the last handle is gone. *)
From Coq Require Import List NArith Bool Lia.
From MV Require Import C10.Model C10.Spec C10.Fields C10.Keyed C10.Roots.
Import ListNotations.

(* ---------------------------------------------------------------- list helpers *)
Definition flush_ids (t : list tev) : list N :=
  flat_map (fun x => match x with TFlushMsg id => [id] | _ => [] end) t.
Definition msg_flush_ids (l : list msg) : list N :=
  flat_map (fun m => match m with MFlush id => [id] | _ => [] end) l.
Definition op_entries (ops : list op) : list entry :=
  flat_map (fun o => match o with OMerge e => [e] | OFlush => [] end) ops.

Lemma tev_msgs_app : forall a b, tev_msgs (a ++ b) = tev_msgs a ++ tev_msgs b.
Proof. intros. unfold tev_msgs. apply flat_map_app. Qed.
Lemma flush_ids_app : forall a b, flush_ids (a ++ b) = flush_ids a ++ flush_ids b.
Proof. intros. unfold flush_ids. apply flat_map_app. Qed.
Lemma msg_flush_ids_app : forall a b, msg_flush_ids (a ++ b) = msg_flush_ids a ++ msg_flush_ids b.
Proof. intros. unfold msg_flush_ids. apply flat_map_app. Qed.
Lemma msg_entries_app : forall a b, msg_entries (a ++ b) = msg_entries a ++ msg_entries b.
Proof. intros. unfold msg_entries. apply flat_map_app. Qed.

Lemma msg_in_spec : forall id l, msg_in id l = true <-> In id (msg_flush_ids l).
Proof.
  induction l as [|[e|i] l IH]; cbn [msg_in msg_flush_ids flat_map app In].
  - split; [discriminate|tauto].
  - exact IH.
  - rewrite orb_true_iff, N.eqb_eq. fold (msg_flush_ids l). rewrite IH. tauto.
Qed.

Lemma msg_flush_ids_tev : forall t, msg_flush_ids (tev_msgs t) = flush_ids t.
Proof.
  unfold msg_flush_ids, tev_msgs, flush_ids.
  induction t as [|[e|id|] t IH]; cbn; rewrite ?IH; reflexivity.
Qed.

Lemma in_flush_ids_split : forall id t, In id (flush_ids t) -> exists t1 t2, t = t1 ++ TFlushMsg id :: t2.
Proof.
  induction t as [|x t IH]; cbn [flush_ids flat_map]; [intros []|].
  fold (flush_ids t). intros H. apply in_app_or in H. destruct H as [H|H].
  - destruct x as [e|i|]; [destruct H| |destruct H]. destruct H as [H|[]]. subst. exists [], t. reflexivity.
  - destruct (IH H) as (t1 & t2 & ->). exists (x :: t1), t2. reflexivity.
Qed.

(* a flush id that occurs once determines the prefix before it *)
Lemma unique_flush_prefix : forall id l a b a' b',
  NoDup (msg_flush_ids l) -> l = a ++ MFlush id :: b -> l = a' ++ MFlush id :: b' -> a = a'.
Proof.
  intros id l a. revert l. induction a as [|x a IH]; intros l b a' b' Hnd E E'.
  - destruct a' as [|y a']; [reflexivity|]. exfalso. subst l. cbn [app] in E'. inversion E'; subst.
    cbn [msg_flush_ids flat_map app] in Hnd. fold (msg_flush_ids (a' ++ MFlush id :: b')) in Hnd.
    inversion Hnd as [|? ? Hn _]; subst. apply Hn. rewrite msg_flush_ids_app, in_app_iff. right. now left.
  - destruct a' as [|y a'].
    + exfalso. subst l. cbn [app] in E'. inversion E'; subst.
      cbn [msg_flush_ids flat_map app] in Hnd. fold (msg_flush_ids (a ++ MFlush id :: b)) in Hnd.
      inversion Hnd as [|? ? Hn _]; subst. apply Hn. rewrite msg_flush_ids_app, in_app_iff. right. now left.
    + subst l. cbn [app] in E'. inversion E'; subst. f_equal.
      eapply (IH (a ++ MFlush id :: b)); [|reflexivity|eassumption].
      cbn [msg_flush_ids flat_map] in Hnd. fold (msg_flush_ids (a ++ MFlush id :: b)) in Hnd.
      destruct y; cbn [app] in Hnd; [assumption|now inversion Hnd].
Qed.

(* ---------------------------------------------------------------- epochs *)
Lemma epochs_flatten : forall ops cur,
  concat (fst (epochs_from cur ops)) ++ snd (epochs_from cur ops) = cur ++ op_entries ops.
Proof.
  induction ops as [|[e|] ops IH]; intros cur; cbn [epochs_from op_entries flat_map fst snd concat app].
  - now rewrite app_nil_r.
  - fold (op_entries ops). rewrite IH. now rewrite <- app_assoc.
  - fold (op_entries ops). rewrite <- app_assoc. now rewrite IH.
Qed.

Lemma epochs_from_app_flush : forall ops1 ops2 cur,
  epochs_from cur (ops1 ++ OFlush :: ops2)
  = (fst (epochs_from cur (ops1 ++ [OFlush])) ++ fst (epochs_from [] ops2), snd (epochs_from [] ops2)).
Proof.
  induction ops1 as [|[e|] ops1 IH]; intros ops2 cur; cbn [app epochs_from fst snd].
  - reflexivity.
  - apply IH.
  - rewrite IH. reflexivity.
Qed.

Lemma open_epoch_flush : forall ops1 cur, snd (epochs_from cur (ops1 ++ [OFlush])) = [].
Proof. induction ops1 as [|[e|] ops1 IH]; intros cur; cbn [app epochs_from snd]; auto. Qed.

Section Worker.
  Variable fixed : bool.
  Variable h : key -> N.
  Variable sh : shape.
  Variable t0 : sink.           (* the inner sink given to WorkerSink::new *)

  Definition trace_ops (s : wstate) : list op := map tev_op (w_trace s).

  Record winv (s : wstate) : Prop := {
    inv_sent : w_sent s = tev_msgs (w_trace s) ++ w_chan s;
    inv_inner : w_inner s = sink_run h sh t0 (trace_ops s);
    inv_acks : w_acks s = flush_ids (w_trace s);
    inv_fresh : NoDup (msg_flush_ids (w_sent s));
    inv_exit : w_exited s = true ->
               w_chan s = [] /\ w_senders s = 0%nat /\ fixed = true /\
               exists t, w_trace s = t ++ [TFlushTimed]
  }.

  Lemma winv_init : winv (w_init t0).
  Proof. constructor; cbn; try reflexivity; [constructor|discriminate]. Qed.

  Lemma winv_enqueue_entry : forall s e, winv s -> winv (enqueue s (MEntry e)).
  Proof.
    intros s e [I1 I2 I3 I4 I5]. unfold enqueue. destruct (w_exited s) eqn:He; [constructor; auto|].
    constructor; cbn [w_sent w_trace w_chan w_inner w_acks w_exited w_senders]; unfold trace_ops; cbn [w_trace].
    - rewrite I1. now rewrite app_assoc.
    - exact I2.
    - exact I3.
    - rewrite msg_flush_ids_app. cbn. now rewrite app_nil_r.
    - discriminate.
  Qed.

  Lemma winv_enqueue_flush : forall s id, winv s -> msg_in id (w_sent s) = false -> winv (enqueue s (MFlush id)).
  Proof.
    intros s id [I1 I2 I3 I4 I5] Hf. unfold enqueue. destruct (w_exited s) eqn:He; [constructor; auto|].
    constructor; cbn [w_sent w_trace w_chan w_inner w_acks w_exited w_senders]; unfold trace_ops; cbn [w_trace].
    - rewrite I1. now rewrite app_assoc.
    - exact I2.
    - exact I3.
    - rewrite msg_flush_ids_app. cbn. apply NoDup_snoc; [assumption|].
      intros Hin. apply msg_in_spec in Hin. congruence.
    - discriminate.
  Qed.

  Lemma winv_with_senders : forall s n, winv s -> (w_exited s = true -> n = 0%nat) -> winv (with_senders s n).
  Proof.
    intros s n [I1 I2 I3 I4 I5] Hn. constructor; cbn; try assumption.
    intros He. destruct (I5 He) as (A & B & C & D). repeat split; auto.
  Qed.

  Lemma winv_with_guards : forall s g, winv s -> winv (with_guards s g).
  Proof. intros s g [I1 I2 I3 I4 I5]. constructor; cbn; assumption. Qed.

  Lemma exited_senders : forall s, winv s -> w_exited s = true -> w_senders s = 0%nat.
  Proof. intros s I He. now destruct (inv_exit s I He) as (_ & ? & _). Qed.

  Lemma sink_run_snoc : forall t ops o, sink_run h sh t (ops ++ [o]) = sink_step h sh (sink_run h sh t ops) o.
  Proof. intros. unfold sink_run. now rewrite fold_left_app. Qed.

  Theorem winv_step : forall s l s', wstep fixed h sh s l = Some s' -> winv s -> winv s'.
  Proof.
    intros s l s' H I. destruct l; cbn [wstep] in H.
    - (* HClone *)
      destruct (Nat.ltb 0 (w_senders s)) eqn:E; inversion H; subst.
      apply winv_with_senders; [assumption|]. intros He. apply (exited_senders s I) in He.
      apply PeanoNat.Nat.ltb_lt in E. lia.
    - (* HDrop *)
      destruct (w_senders s) eqn:E; inversion H; subst.
      apply winv_with_senders; [assumption|]. intros He. apply (exited_senders s I) in He. lia.
    - (* HSend *)
      destruct (Nat.ltb 0 (w_senders s)); inversion H; subst. now apply winv_enqueue_entry.
    - (* HFlush *)
      destruct (Nat.ltb 0 (w_senders s)); cbn [andb] in H; [|discriminate].
      destruct (msg_in id (w_sent s)) eqn:Hf; cbn [negb] in H; inversion H; subst.
      now apply winv_enqueue_flush.
    - (* GNew *)
      destruct (Nat.ltb 0 (w_senders s)) eqn:E; inversion H; subst.
      apply winv_with_guards. apply winv_with_senders; [assumption|].
      intros He. apply (exited_senders s I) in He. apply PeanoNat.Nat.ltb_lt in E. lia.
    - (* GSet *)
      destruct (nth_error (w_guards s) g) as [[v|]|]; inversion H; subst. now apply winv_with_guards.
    - (* GDrop *)
      destruct (nth_error (w_guards s) g) as [[v|]|]; try discriminate.
      destruct (Nat.ltb 0 (w_senders s)); inversion H; subst.
      apply winv_with_guards. now apply winv_enqueue_entry.
    - (* WRecv *)
      destruct (w_exited s) eqn:He; [discriminate|].
      destruct I as [I1 I2 I3 I4 I5]. unfold trace_ops in I2.
      destruct (w_chan s) as [|[e|id] r] eqn:Ec; [discriminate| |].
      + destruct timed; inversion H; subst; clear H;
          (constructor; cbn [worker_calls w_sent w_trace w_chan w_inner w_acks w_exited w_senders]; unfold trace_ops;
           cbn [worker_calls w_trace]; [| | | assumption | discriminate]).
        * rewrite I1, tev_msgs_app. cbn. now rewrite <- app_assoc.
        * rewrite map_app. cbn [map tev_op]. change [OMerge e; OFlush] with ([OMerge e] ++ [OFlush]).
          rewrite app_assoc, !sink_run_snoc. cbn [sink_step]. now rewrite <- I2.
        * rewrite flush_ids_app. cbn. now rewrite app_nil_r.
        * rewrite I1, tev_msgs_app. cbn. now rewrite <- app_assoc.
        * rewrite map_app. cbn [map tev_op]. rewrite sink_run_snoc. cbn [sink_step]. now rewrite <- I2.
        * rewrite flush_ids_app. cbn. now rewrite app_nil_r.
      + inversion H; subst; clear H.
        constructor; cbn [worker_calls w_sent w_trace w_chan w_inner w_acks w_exited w_senders]; unfold trace_ops;
          cbn [worker_calls w_trace]; [| | | assumption | discriminate].
        * rewrite I1, tev_msgs_app. cbn. now rewrite <- app_assoc.
        * rewrite map_app. cbn [map tev_op]. rewrite sink_run_snoc. cbn [sink_step]. now rewrite <- I2.
        * rewrite flush_ids_app. cbn. now rewrite I3.
    - (* WTimeout *)
      destruct (w_exited s) eqn:He; [discriminate|].
      destruct I as [I1 I2 I3 I4 I5]. unfold trace_ops in I2.
      destruct (w_chan s) eqn:Ec; [|discriminate]. destruct (w_senders s) eqn:Es; [discriminate|].
      inversion H; subst; clear H.
      constructor; cbn [worker_calls w_sent w_trace w_chan w_inner w_acks w_exited w_senders]; unfold trace_ops;
        cbn [worker_calls w_trace]; [| | | assumption | discriminate].
      + rewrite I1, tev_msgs_app. cbn. now rewrite !app_nil_r.
      + rewrite map_app. cbn [map tev_op]. rewrite sink_run_snoc. cbn [sink_step]. now rewrite <- I2.
      + rewrite flush_ids_app. cbn. now rewrite app_nil_r.
    - (* WDisc *)
      destruct (w_exited s) eqn:He; [discriminate|].
      destruct I as [I1 I2 I3 I4 I5]. unfold trace_ops in I2.
      destruct (w_chan s) eqn:Ec; [|discriminate]. destruct (w_senders s) eqn:Es; [|discriminate].
      inversion H; subst; clear H.
      constructor; cbn [worker_calls w_sent w_trace w_chan w_inner w_acks w_exited w_senders]; unfold trace_ops;
        cbn [worker_calls w_trace]; [| | | assumption | ].
      + rewrite I1, tev_msgs_app. cbn. now rewrite !app_nil_r.
      + rewrite map_app. cbn [map tev_op]. rewrite sink_run_snoc. cbn [sink_step]. now rewrite <- I2.
      + rewrite flush_ids_app. cbn. now rewrite app_nil_r.
      + intros Hf. repeat split; auto. now exists (w_trace s).
  Qed.

  Theorem winv_run : forall ls s s', wrun fixed h sh s ls = Some s' -> winv s -> winv s'.
  Proof.
    induction ls as [|l ls IH]; intros s s' H I; cbn [wrun] in H.
    - now inversion H; subst.
    - destruct (wstep fixed h sh s l) as [s1|] eqn:E; [|discriminate].
      eapply IH; [exact H|]. eapply winv_step; eassumption.
  Qed.

  (* ---------------------------------------------------------------- what the invariant gives *)
  (* FIFO: the messages processed so far are exactly the first ones sent, in order; the rest is pending *)
  Theorem worker_fifo : forall ls s, wrun fixed h sh (w_init t0) ls = Some s ->
    w_sent s = tev_msgs (w_trace s) ++ w_chan s.
  Proof. intros ls s H. apply (inv_sent s). eapply winv_run; [exact H|apply winv_init]. Qed.

  (* conservation: the inner tree is exactly what the processed history promises, and every entry ever
     sent is either still in the channel, or held, or in one completed flush epoch *)
  Theorem worker_conservation : forall ls s, tree_empty t0 -> wrun fixed h sh (w_init t0) ls = Some s ->
    tree_ok sh (trace_ops s) (w_inner s) /\
    msg_entries (w_sent s)
    = concat (complete_epochs (trace_ops s)) ++ open_epoch (trace_ops s) ++ msg_entries (w_chan s).
  Proof.
    intros ls s He H. assert (I : winv s) by (eapply winv_run; [exact H|apply winv_init]).
    split.
    - rewrite (inv_inner s I). now apply tree_run_ok.
    - rewrite (inv_sent s I), msg_entries_app. rewrite app_assoc. f_equal.
      unfold complete_epochs, open_epoch. rewrite epochs_flatten. cbn [app].
      unfold trace_ops. clear. induction (w_trace s) as [|[e|id|] t IHt]; cbn; auto.
      fold (tev_msgs t). fold (msg_entries (tev_msgs t)). fold (op_entries (map tev_op t)). now rewrite IHt.
  Qed.

  (* the flush barrier: an acknowledged flush request was served by a flush call before which every
     message sent before the request had been processed, and after which nothing was held; those
     epochs stay completed ever after *)
  Theorem worker_flush_barrier : forall ls s id, wrun fixed h sh (w_init t0) ls = Some s ->
    In id (w_acks s) ->
    exists t1 t2,
      w_trace s = t1 ++ TFlushMsg id :: t2 /\
      (forall m1 m2, w_sent s = m1 ++ MFlush id :: m2 -> m1 = tev_msgs t1) /\
      open_epoch (map tev_op (t1 ++ [TFlushMsg id])) = [] /\
      complete_epochs (trace_ops s)
      = complete_epochs (map tev_op (t1 ++ [TFlushMsg id])) ++ complete_epochs (map tev_op t2).
  Proof.
    intros ls s id H Hin. assert (I : winv s) by (eapply winv_run; [exact H|apply winv_init]).
    rewrite (inv_acks s I) in Hin. destruct (in_flush_ids_split _ _ Hin) as (t1 & t2 & Et).
    exists t1, t2. split; [assumption|]. split; [|split].
    - intros m1 m2 Es. eapply unique_flush_prefix; [apply (inv_fresh s I)|exact Es|].
      rewrite (inv_sent s I), Et, tev_msgs_app. cbn. now rewrite <- app_assoc.
    - rewrite map_app. cbn [map tev_op]. apply open_epoch_flush.
    - unfold trace_ops, complete_epochs. rewrite Et, !map_app. cbn [map tev_op].
      now rewrite epochs_from_app_flush.
  Qed.

  (* the worker is never blocked for good: while it runs, one of its three actions is enabled *)
  Theorem worker_progress : forall s, w_exited s = false ->
    exists l, is_worker l = true /\ wstep fixed h sh s l <> None.
  Proof.
    intros s He. destruct (w_chan s) as [|m r] eqn:Ec.
    - destruct (w_senders s) eqn:Es.
      + exists WDisc. split; [reflexivity|]. cbn [wstep]. now rewrite He, Ec, Es.
      + exists WTimeout. split; [reflexivity|]. cbn [wstep]. now rewrite He, Ec, Es.
    - exists (WRecv false). split; [reflexivity|]. cbn [wstep]. rewrite He, Ec. destruct m; discriminate.
  Qed.
End Worker.

(* ---------------------------------------------------------------- exit of the repaired loop *)
Section Exit.
  Variable h : key -> N.
  Variable sh : shape.

  Definition count_worker (ls : list wlabel) : nat := length (filter is_worker ls).

  (* with no handle left, only the worker (and mutations of orphaned guards) can move *)
  Lemma no_handle_steps : forall s l s', wstep true h sh s l = Some s' -> w_senders s = 0%nat ->
    w_senders s' = 0%nat /\
    (is_worker l = false -> w_chan s' = w_chan s /\ w_exited s' = w_exited s /\ w_trace s' = w_trace s /\ w_sent s' = w_sent s) /\
    (is_worker l = true -> w_exited s = false /\
       ((w_chan s <> [] /\ length (w_chan s') = pred (length (w_chan s)) /\ w_exited s' = false /\ w_sent s' = w_sent s)
        \/ (w_chan s = [] /\ w_chan s' = [] /\ w_exited s' = true /\ w_trace s' = w_trace s ++ [TFlushTimed] /\ w_sent s' = w_sent s))).
  Proof.
    intros s l s' H Hs. destruct l; cbn [wstep] in H; rewrite ?Hs in H; cbn in H; try discriminate.
    - destruct (nth_error (w_guards s) g) as [[v|]|]; inversion H; subst. cbn. repeat split; auto; discriminate.
    - destruct (nth_error (w_guards s) g) as [[v|]|]; discriminate.
    - destruct (w_exited s) eqn:He; [discriminate|].
      destruct (w_chan s) as [|[e|id] r] eqn:Ec; [discriminate| |].
      + destruct timed; inversion H; subst; cbn; (split; [assumption|]); (split; [discriminate|]);
          intros _; (split; [reflexivity|]); left; repeat split; auto; discriminate.
      + inversion H; subst; cbn. split; [assumption|]. split; [discriminate|].
        intros _. split; [reflexivity|]. left. repeat split; auto; discriminate.
    - destruct (w_exited s); [discriminate|]. destruct (w_chan s); discriminate.
    - destruct (w_exited s) eqn:He; [discriminate|]. destruct (w_chan s) eqn:Ec; [|discriminate].
      inversion H; subst; cbn. split; [assumption|]. split; [discriminate|].
      intros _. split; [reflexivity|]. right. repeat split; auto.
  Qed.

  (* Once the last handle is dropped: the worker can take at most |channel| + 1 more steps (no spinning),
     and when it has taken them it has processed every pending message, flushed, and returned. *)
  Theorem worker_exit_bound : forall ls s s',
    wrun true h sh s ls = Some s' -> w_senders s = 0%nat -> w_exited s = false ->
    (count_worker ls <= length (w_chan s) + 1)%nat /\
    (count_worker ls = (length (w_chan s) + 1)%nat ->
       w_exited s' = true /\ w_chan s' = [] /\ w_sent s' = w_sent s /\
       exists t, w_trace s' = t ++ [TFlushTimed]).
  Proof.
    induction ls as [|l ls IH]; intros s s' H Hs He; cbn [wrun] in H.
    - inversion H; subst. cbn. split; [lia|]. intros E. lia.
    - destruct (wstep true h sh s l) as [s1|] eqn:E; [|discriminate].
      destruct (no_handle_steps s l s1 E Hs) as (Hs1 & Hnw & Hw).
      unfold count_worker in *. cbn [filter]. destruct (is_worker l) eqn:Ew; cbn [length].
      + destruct (Hw eq_refl) as (_ & [(Hne & Hlen & He1 & Hsent1)|(Hc & Hc1 & He1 & Ht1 & Hsent1)]).
        * destruct (IH s1 s' H Hs1 He1) as (B1 & B2).
          destruct (w_chan s) as [|m r] eqn:Ec; [congruence|]. cbn [length] in *. rewrite Hlen in *. cbn [pred] in *.
          split; [lia|]. intros Eq. destruct B2 as (X1 & X2 & X3 & X4); [lia|].
          repeat split; auto. congruence.
        * (* the disconnect step: afterwards nothing is enabled for the worker *)
          assert (Hrest : count_worker ls = 0%nat /\ w_exited s' = true /\ w_chan s' = [] /\ w_sent s' = w_sent s1 /\ w_trace s' = w_trace s1).
          { clear IH Hw Hnw E Ht1 Hsent1. revert s1 H Hs1 He1 Hc1. unfold count_worker.
            induction ls as [|l2 ls IH2]; intros s1 H Hs1 He1 Hc1; cbn [wrun] in H.
            - inversion H; subst. cbn. auto.
            - destruct (wstep true h sh s1 l2) as [s2|] eqn:E2; [|discriminate].
              destruct (no_handle_steps s1 l2 s2 E2 Hs1) as (Hs2 & Hnw2 & Hw2).
              destruct (is_worker l2) eqn:Ew2.
              + destruct (Hw2 eq_refl) as (Hx & _). congruence.
              + destruct (Hnw2 eq_refl) as (Q1 & Q2 & Q3 & Q4).
                cbn [filter]. rewrite Ew2.
                destruct (IH2 s2 H Hs2 ltac:(congruence) ltac:(congruence)) as (R1 & R2 & R3 & R4 & R5).
                repeat split; auto; congruence. }
          destruct Hrest as (R1 & R2 & R3 & R4 & R5). unfold count_worker in R1. rewrite R1, Hc. cbn [length].
          split; [lia|]. intros _. repeat split; auto; [congruence|]. exists (w_trace s). congruence.
      + destruct (Hnw eq_refl) as (Q1 & Q2 & Q3 & Q4).
        destruct (IH s1 s' H Hs1 ltac:(congruence)) as (B1 & B2). rewrite Q1 in *.
        split; [assumption|]. intros Eq. destruct (B2 Eq) as (X1 & X2 & X3 & X4). repeat split; auto. congruence.
  Qed.
End Exit.

(* ---------------------------------------------------------------- exit, put together *)
Section ExitAll.
  Variable h : key -> N.
  Variable sh : shape.
  Variable t0 : sink.

  Lemma wrun_app : forall fixed ls1 ls2 s,
    wrun fixed h sh s (ls1 ++ ls2) = match wrun fixed h sh s ls1 with Some s1 => wrun fixed h sh s1 ls2 | None => None end.
  Proof.
    induction ls1 as [|l ls1 IH]; intros ls2 s; cbn [app wrun]; [reflexivity|].
    destruct (wstep fixed h sh s l); [apply IH|reflexivity].
  Qed.

  (* From any reachable state in which the last handle has just gone: after the worker's remaining
     |channel| + 1 steps (worker_progress: it is never blocked before; worker_exit_bound: it cannot take
     more) the thread has returned, nothing was sent or lost meanwhile, and EVERY entry ever sent is in a
     completed flush epoch of the inner tree, which satisfies the conservation promise. *)
  Theorem worker_exit_all_emitted : forall ls s ls2 s',
    tree_empty t0 ->
    wrun true h sh (w_init t0) ls = Some s -> w_senders s = 0%nat -> w_exited s = false ->
    wrun true h sh s ls2 = Some s' -> count_worker ls2 = (length (w_chan s) + 1)%nat ->
    w_exited s' = true /\ w_chan s' = [] /\ w_sent s' = w_sent s /\
    msg_entries (w_sent s') = concat (complete_epochs (trace_ops s')) /\
    open_epoch (trace_ops s') = [] /\
    tree_ok sh (trace_ops s') (w_inner s').
  Proof.
    intros ls s ls2 s' He H Hs Hx H2 Hc.
    destruct (worker_exit_bound h sh ls2 s s' H2 Hs Hx) as (_ & B). destruct (B Hc) as (X1 & X2 & X3 & (t & X4)).
    assert (Hall : wrun true h sh (w_init t0) (ls ++ ls2) = Some s') by (now rewrite wrun_app, H).
    destruct (worker_conservation true h sh t0 _ _ He Hall) as (C1 & C2).
    assert (Hopen : open_epoch (trace_ops s') = []).
    { unfold trace_ops, open_epoch. rewrite X4, map_app. cbn [map tev_op]. apply open_epoch_flush. }
    repeat split; auto. rewrite C2, Hopen, X2. cbn. now rewrite app_nil_r.
  Qed.
End ExitAll.
