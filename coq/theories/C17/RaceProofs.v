(* C17 — appends racing a detach: invariants of the transition system, for all schedules. *)
From Coq Require Import List NArith Bool Arith Lia.
From MV Require Import C17.Model C17.Race C17.Proofs.
Import ListNotations.
Local Open Scope N_scope.

Section Race.
Variable d : N.   (* the attached sink *)

Definition delivered (p : apc) : bool := match p with AAppended | AOk => true | _ => false end.
Definition want (a : appender) : N := match a_tl a with Some t => t | None => d end.
Definition b2n (b : bool) : nat := if b then 1%nat else 0%nat.

Lemma count_app1 : forall f l x, count f (l ++ [x]) = (count f l + b2n (f x))%nat.
Proof.
  intros; unfold count. rewrite filter_app, app_length. cbn. destruct (f x); cbn; lia.
Qed.

Lemma after_join_nojoin : forall l x, count (ev_is_joined d) l = 0%nat -> after_join d (l ++ [x]) = [].
Proof.
  induction l as [|y r IH]; intros x H; cbn.
  - destruct (ev_is_joined d x); reflexivity.
  - unfold count in H; cbn in H. destruct (ev_is_joined d y); [discriminate | apply IH; exact H].
Qed.
Lemma after_join_join : forall l x, count (ev_is_joined d) l <> 0%nat -> after_join d (l ++ [x]) = after_join d l ++ [x].
Proof.
  induction l as [|y r IH]; intros x H; cbn.
  - exfalso; apply H; reflexivity.
  - unfold count in H; cbn in H. destruct (ev_is_joined d y); [reflexivity | apply IH; exact H].
Qed.

Record RInv (s : rs) : Prop := mk_rinv {
  ri_nodup : NoDup (map a_entry (aps s));
  ri_tl : forall i a t, nth_error (aps s) i = Some a -> a_tl a = Some t -> t <> d;
  ri_d : match dp s with
         | DStart => slot s = Some d
         | DHeld => slot s = Some d /\ existsb (fun a => a_holds (a_pc a)) (aps s) = false
         | DTaken x => x = Some d /\ slot s = None /\ existsb (fun a => a_holds (a_pc a)) (aps s) = false
         | DJoined => slot s = None /\ existsb (fun a => a_holds (a_pc a)) (aps s) = false
         | DDone => slot s = None
         end;
  ri_joins : count (ev_is_joined d) (rlog s) = match dp s with DJoined | DDone => 1%nat | _ => 0%nat end;
  ri_safe : existsb (ev_to d) (after_join d (rlog s)) = false;
  ri_a : forall i a, nth_error (aps s) i = Some a ->
         match a_pc a with
         | ASome d' => d' = d /\ dp s = DStart
         | ANone => dp s = DDone
         | AHeld | AAppended => d_holds (dp s) = false
         | _ => True
         end;
  ri_tlpc : forall i a t, nth_error (aps s) i = Some a -> a_tl a = Some t -> a_pc a = AStart \/ a_pc a = AOk;
  ri_o : forall i a, nth_error (aps s) i = Some a ->
         count (ev_has_entry (a_entry a)) (rlog s) = b2n (delivered (a_pc a)) /\
         count (ev_is_recv (want a) (a_entry a)) (rlog s) = b2n (delivered (a_pc a))
}.

Lemma map_entry_set_nth : forall l i a a', nth_error l i = Some a -> a_entry a' = a_entry a ->
  map a_entry (set_nth l i a') = map a_entry l.
Proof.
  induction l as [|y r IH]; intros i a a' H E; destruct i; cbn in *; try discriminate.
  - inversion H; subst. rewrite E; reflexivity.
  - erewrite IH; eauto.
Qed.

Lemma nodup_entries_neq : forall l i j a b, NoDup (map a_entry l) -> nth_error l i = Some a -> nth_error l j = Some b ->
  i <> j -> a_entry a <> a_entry b.
Proof.
  intros l i j a b ND Hi Hj Ne E.
  apply Ne. eapply (proj1 (NoDup_nth_error (map a_entry l))); eauto.
  - apply nth_error_Some. rewrite nth_error_map, Hi. discriminate.
  - rewrite !nth_error_map, Hi, Hj. cbn. congruence.
Qed.

Lemma existsb_holds_set : forall l i a a', nth_error l i = Some a ->
  existsb (fun x => a_holds (a_pc x)) l = false -> a_holds (a_pc a') = false ->
  existsb (fun x => a_holds (a_pc x)) (set_nth l i a') = false.
Proof.
  induction l as [|y r IH]; intros i a a' H E E'; destruct i; cbn in *; try discriminate.
  - apply orb_false_iff in E as [_ E]. rewrite E', E; reflexivity.
  - apply orb_false_iff in E as [E1 E2]. rewrite E1. cbn. eapply IH; eauto.
Qed.
Lemma existsb_holds_nth : forall l i a, nth_error l i = Some a ->
  existsb (fun x => a_holds (a_pc x)) l = false -> a_holds (a_pc a) = false.
Proof.
  induction l as [|y r IH]; intros i a H E; destruct i; cbn in *; try discriminate.
  - inversion H; subst. apply orb_false_iff in E as [E _]; exact E.
  - apply orb_false_iff in E as [_ E]. eapply IH; eauto.
Qed.

Lemma ev_has_entry_recv : forall e t e', ev_has_entry e (Recv t e') = N.eqb e e'.
Proof. reflexivity. Qed.

(* an appender's own step: the facts about the other appenders carry over *)
Lemma rinv_init : forall es, NoDup (map fst es) -> (forall e t, In (e, Some t) es -> t <> d) -> RInv (rinit0 d es).
Proof.
  intros es ND TL. split; cbn.
  - rewrite map_map. cbn. exact ND.
  - intros i a t H Ht. rewrite nth_error_map in H. destruct (nth_error es i) as [[e o]|] eqn:E; cbn in H; [|discriminate].
    inversion H; subst a. cbn in Ht. subst o. apply (TL e). eapply nth_error_In; eauto.
  - reflexivity.
  - reflexivity.
  - reflexivity.
  - intros i a H. rewrite nth_error_map in H. destruct (nth_error es i); cbn in H; [inversion H; subst; cbn; auto | discriminate].
  - intros i a t H _. rewrite nth_error_map in H. destruct (nth_error es i); cbn in H; [inversion H; subst; cbn; auto | discriminate].
  - intros i a H. rewrite nth_error_map in H. destruct (nth_error es i); cbn in H; [inversion H; subst; cbn; auto | discriminate].
Qed.

Definition pc_ok (s_dp : dpc) (p : apc) : Prop :=
  match p with
  | ASome d' => d' = d /\ s_dp = DStart
  | ANone => s_dp = DDone
  | AHeld | AAppended => d_holds s_dp = false
  | _ => True
  end.

(* appender i moves to pc' without touching the log *)
Lemma rinv_pc_only : forall s i a pc' q,
  RInv s -> nth_error (aps s) i = Some a ->
  delivered pc' = delivered (a_pc a) -> pc_ok (dp s) pc' ->
  (d_holds (dp s) = true -> a_holds pc' = false) ->
  (forall t, a_tl a = Some t -> pc' = AStart \/ pc' = AOk) ->
  RInv (mk_rs (slot s) (set_nth (aps s) i (mk_app (a_entry a) (a_tl a) pc')) (dp s) (rlog s) q).
Proof.
  intros s i a pc' q [ND TL D J S A TP O] Hi Hd Hok Hh Htl.
  split; cbn [aps slot dp rlog acq].
  - erewrite map_entry_set_nth; eauto.
  - intros j b t Hj Ht. rewrite nth_error_set_nth, Hi in Hj.
    destruct (Nat.eqb i j); [inversion Hj; subst b; cbn in Ht; eauto | eauto].
  - destruct (dp s); auto.
    + destruct D as [D1 D2]. split; auto. eapply existsb_holds_set; eauto.
    + destruct D as [D1 [D2 D3]]. repeat split; auto. eapply existsb_holds_set; eauto.
    + destruct D as [D1 D2]. split; auto. eapply existsb_holds_set; eauto.
  - exact J.
  - exact S.
  - intros j b Hj. rewrite nth_error_set_nth, Hi in Hj.
    destruct (Nat.eqb i j); [inversion Hj; subst b; cbn; exact Hok | apply (A j b Hj)].
  - intros j b t Hj Hb. rewrite nth_error_set_nth, Hi in Hj.
    destruct (Nat.eqb i j); [inversion Hj; subst b; cbn in *; eauto | eauto].
  - intros j b Hj. rewrite nth_error_set_nth, Hi in Hj.
    destruct (Nat.eqb i j); [inversion Hj; subst b; cbn [a_entry a_pc]; rewrite Hd; apply (O i a Hi) | apply (O j b Hj)].
Qed.

(* appender i delivers its entry to sink t (= want a) *)
Lemma rinv_deliver : forall s i a pc' t,
  RInv s -> nth_error (aps s) i = Some a ->
  delivered (a_pc a) = false -> delivered pc' = true -> t = want a ->
  pc_ok (dp s) pc' -> (d_holds (dp s) = true -> a_holds pc' = false) ->
  (t = d -> count (ev_is_joined d) (rlog s) = 0%nat) ->
  (forall t', a_tl a = Some t' -> pc' = AStart \/ pc' = AOk) ->
  RInv (mk_rs (slot s) (set_nth (aps s) i (mk_app (a_entry a) (a_tl a) pc')) (dp s) (rlog s ++ [Recv t (a_entry a)]) (acq s)).
Proof.
  intros s i a pc' t [ND TL D J S A TP O] Hi Hnd Hd Ht Hok Hh Hj0 Htl.
  split; cbn [aps slot dp rlog acq].
  - erewrite map_entry_set_nth; eauto.
  - intros j b t' Hj Hb. rewrite nth_error_set_nth, Hi in Hj.
    destruct (Nat.eqb i j); [inversion Hj; subst b; cbn in Hb; eauto | eauto].
  - destruct (dp s); auto.
    + destruct D as [D1 D2]. split; auto. eapply existsb_holds_set; eauto.
    + destruct D as [D1 [D2 D3]]. repeat split; auto. eapply existsb_holds_set; eauto.
    + destruct D as [D1 D2]. split; auto. eapply existsb_holds_set; eauto.
  - rewrite count_app1. cbn. rewrite Nat.add_0_r. exact J.
  - destruct (Nat.eq_dec (count (ev_is_joined d) (rlog s)) 0) as [Z|NZ].
    + rewrite after_join_nojoin by exact Z. reflexivity.
    + rewrite after_join_join by exact NZ. rewrite existsb_app, S. cbn. rewrite orb_false_r.
      destruct (N.eqb d t) eqn:E; auto. apply N.eqb_eq in E. exfalso. apply NZ, Hj0. congruence.
  - intros j b Hj. rewrite nth_error_set_nth, Hi in Hj.
    destruct (Nat.eqb i j); [inversion Hj; subst b; cbn; exact Hok | apply (A j b Hj)].
  - intros j b t' Hj Hb. rewrite nth_error_set_nth, Hi in Hj.
    destruct (Nat.eqb i j); [inversion Hj; subst b; cbn in *; eauto | eauto].
  - intros j b Hj. rewrite nth_error_set_nth, Hi in Hj. rewrite !count_app1.
    destruct (Nat.eqb i j) eqn:Eij.
    + inversion Hj; subst b. cbn [a_entry a_pc a_tl want]. destruct (O i a Hi) as [O1 O2]. rewrite Hnd in O1, O2.
      unfold want in *. cbn [a_tl]. rewrite O1, O2, Hd. cbn [ev_has_entry ev_is_recv]. subst t. unfold want.
      rewrite !N.eqb_refl. split; reflexivity.
    + apply Nat.eqb_neq in Eij. destruct (O j b Hj) as [O1 O2]. rewrite O1, O2.
      assert (a_entry a <> a_entry b) as Ne by (eapply nodup_entries_neq; eauto).
      cbn [ev_has_entry ev_is_recv]. destruct (N.eqb (a_entry b) (a_entry a)) eqn:E; [apply N.eqb_eq in E; congruence|].
      rewrite andb_false_r. cbn. rewrite !Nat.add_0_r. split; reflexivity.
Qed.

Theorem rinv_step : forall s l s', RInv s -> rstep s l = Some s' -> RInv s'.
Proof.
  intros s l s' I H. destruct l as [i|]; cbn [rstep] in H.
  - destruct (nth_error (aps s) i) as [a|] eqn:Hi; [|discriminate].
    pose proof (ri_a s I i a Hi) as Ai. pose proof (ri_tlpc s I i a) as Tp. unfold set_app in H.
    destruct (a_tl a) as [t|] eqn:Tl.
    + (* a thread with a test sink: one action *)
      destruct (Tp t Hi eq_refl) as [Pc|Pc]; rewrite Pc in H; [|discriminate].
      inversion H; subst s'; clear H. rewrite <- Tl.
      apply rinv_deliver; [exact I | exact Hi | rewrite Pc; reflexivity | reflexivity | | exact Logic.I | reflexivity | | auto].
      * unfold want; rewrite Tl; reflexivity.
      * intros E. exfalso. eapply (ri_tl s I); eauto.
    + destruct (a_pc a) eqn:Pc; try discriminate; rewrite <- Tl in H.
      * (* acquire *) destruct (d_holds (dp s)) eqn:Dh; [discriminate|]. inversion H; subst s'; clear H.
        apply rinv_pc_only; [exact I | exact Hi | rewrite Pc; reflexivity | exact Dh | congruence | congruence].
      * (* check *) inversion H; subst s'; clear H. cbn in Ai.
        apply rinv_pc_only; [exact I | exact Hi | | | congruence | congruence].
        -- rewrite Pc. destruct (slot s); reflexivity.
        -- pose proof (ri_d s I) as D. destruct (dp s); cbn in Ai; try discriminate; rewrite D; cbn; auto.
      * (* append *) cbn in Ai. destruct Ai as [-> Ds]. inversion H; subst s'; clear H.
        apply rinv_deliver; [exact I | exact Hi | rewrite Pc; reflexivity | reflexivity | | | | | congruence].
        -- unfold want; rewrite Tl; reflexivity.
        -- cbn. rewrite Ds; reflexivity.
        -- rewrite Ds; discriminate.
        -- intros _. rewrite (ri_joins s I), Ds. reflexivity.
      * (* release after None *) inversion H; subst s'; clear H.
        apply rinv_pc_only; [exact I | exact Hi | rewrite Pc; reflexivity | exact Logic.I | reflexivity | congruence].
      * (* release after append *) inversion H; subst s'; clear H.
        apply rinv_pc_only; [exact I | exact Hi | rewrite Pc; reflexivity | exact Logic.I | reflexivity | congruence].
  - (* the detacher *)
    destruct I as [ND TL D J S A TP O].
    assert (forall dp', existsb (fun a => a_holds (a_pc a)) (aps s) = false ->
            forall i a, nth_error (aps s) i = Some a -> pc_ok dp' (a_pc a)) as NH.
    { intros dp' E i a Hi. pose proof (existsb_holds_nth _ _ _ Hi E) as Hh. destruct (a_pc a); cbn in *; auto; discriminate. }
    destruct (dp s) eqn:Dp.
    + destruct (existsb (fun a => a_holds (a_pc a)) (aps s)) eqn:E; [discriminate|]. inversion H; subst s'; clear H.
      split; cbn [aps slot dp rlog acq]; auto. intros i a Hi. apply (NH DHeld eq_refl i a Hi).
    + destruct D as [D1 D2]. inversion H; subst s'; clear H.
      split; cbn [aps slot dp rlog acq]; auto. intros i a Hi. apply (NH (DTaken (slot s)) D2 i a Hi).
    + destruct D as [-> [D2 D3]]. inversion H; subst s'; clear H.
      split; cbn [aps slot dp rlog acq]; auto.
      * rewrite count_app1, J. cbn. rewrite N.eqb_refl. reflexivity.
      * rewrite after_join_nojoin by exact J. reflexivity.
      * intros i a Hi. apply (NH DJoined D3 i a Hi).
      * intros i a Hi. rewrite !count_app1. cbn. rewrite !Nat.add_0_r. apply (O i a Hi).
    + destruct D as [D1 D2]. inversion H; subst s'; clear H.
      split; cbn [aps slot dp rlog acq]; auto. intros i a Hi. apply (NH DDone D2 i a Hi).
    + discriminate.
Qed.

Lemma rinv_exec : forall ls s, RInv s -> RInv (rexec s ls).
Proof.
  induction ls as [|l r IH]; intros s I; cbn; auto. apply IH. unfold rexec1.
  destruct (rstep s l) eqn:E; [eapply rinv_step; eauto | exact I].
Qed.

(* what any observer can see at any point of any schedule satisfies the property *)
Lemma rinv_race_ok : forall s, RInv s -> race_ok d (outcomes_of d s) (rlog s) = true.
Proof.
  intros s [ND TL D J S A TP O]. unfold race_ok. rewrite S, J. cbn [negb andb].
  replace (Nat.leb match dp s with DJoined | DDone => 1%nat | _ => 0%nat end 1) with true by (destruct (dp s); reflexivity).
  cbn [andb]. apply forallb_forall. intros [[w e] ok] Hin. unfold outcomes_of in Hin.
  apply in_flat_map in Hin as [a [Ha Hx]]. apply In_nth_error in Ha as [i Hi].
  destruct (O i a Hi) as [O1 O2]. unfold want in O2.
  destruct (a_pc a) eqn:Pc; cbn in Hx; try contradiction; destruct Hx as [Hx|[]]; inversion Hx; subst w e ok; clear Hx; cbn [outcome_ok].
  - cbn in O1, O2. rewrite O1, O2. reflexivity.
  - cbn in O1. rewrite O1. reflexivity.
Qed.

Theorem race_all_schedules : forall es ls,
  NoDup (map fst es) -> (forall e t, In (e, Some t) es -> t <> d) ->
  let s := rexec (rinit0 d es) ls in
  race_ok d (outcomes_of d s) (rlog s) = true.
Proof. intros es ls ND TL. apply rinv_race_ok, rinv_exec, rinv_init; auto. Qed.

(* ---- linearisation: the outcome of an append is decided by who acquired the lock first ---- *)
Definition before_d (i : nat) (l : list who) := exists l1 l2, l = l1 ++ WA i :: l2 /\ ~ In WD l1.
Definition after_d (i : nat) (l : list who) := exists l1 l2, l = l1 ++ WD :: l2 /\ In (WA i) l2.
Lemma before_d_app : forall i l x, before_d i l -> before_d i (l ++ [x]).
Proof. intros i l x (l1 & l2 & -> & H). exists l1, (l2 ++ [x]). rewrite <- app_assoc. split; auto. Qed.
Lemma after_d_app : forall i l x, after_d i l -> after_d i (l ++ [x]).
Proof. intros i l x (l1 & l2 & -> & H). exists l1, (l2 ++ [x]). rewrite <- app_assoc. split; auto. apply in_or_app; auto. Qed.

Record LInv (s : rs) : Prop := mk_linv {
  li_d1 : dp s = DStart -> ~ In WD (acq s);
  li_d2 : dp s <> DStart -> In WD (acq s);
  li_a : forall i a, nth_error (aps s) i = Some a -> a_tl a = None ->
         match a_pc a with
         | AStart => True
         | AHeld => (dp s = DStart /\ before_d i (acq s)) \/ (dp s = DDone /\ after_d i (acq s))
         | ASome _ | AAppended | AOk => before_d i (acq s)
         | ANone | AErr => after_d i (acq s)
         end
}.

Lemma linv_init : forall es, LInv (rinit0 d es).
Proof.
  intros es. split; cbn; auto; try congruence.
  intros i a H _. rewrite nth_error_map in H. destruct (nth_error es i); cbn in H; [inversion H; subst; cbn; auto | discriminate].
Qed.

Lemma linv_step : forall s l s', RInv s -> LInv s -> rstep s l = Some s' -> LInv s'.
Proof.
  intros s l s' R [L1 L2 LA] H. destruct l as [i|]; cbn [rstep] in H.
  - destruct (nth_error (aps s) i) as [a|] eqn:Hi; [|discriminate]. unfold set_app in H.
    pose proof (ri_a s R i a Hi) as Ai. pose proof (ri_d s R) as D.
    assert (forall pc' q, (forall b, pc' = b -> a_tl a = None ->
              match b with
              | AStart => True
              | AHeld => (dp s = DStart /\ before_d i q) \/ (dp s = DDone /\ after_d i q)
              | ASome _ | AAppended | AOk => before_d i q
              | ANone | AErr => after_d i q end) ->
            (dp s = DStart -> ~ In WD q) -> (dp s <> DStart -> In WD q) ->
            (forall j, before_d j (acq s) -> before_d j q) -> (forall j, after_d j (acq s) -> after_d j q) ->
            forall lg, LInv (mk_rs (slot s) (set_nth (aps s) i (mk_app (a_entry a) (a_tl a) pc')) (dp s) lg q)) as K.
    { intros pc' q Hpc Q1 Q2 QB QA lg. split; cbn [aps slot dp rlog acq]; auto.
      intros j b Hj Hb. rewrite nth_error_set_nth, Hi in Hj. destruct (Nat.eqb i j) eqn:E.
      - apply Nat.eqb_eq in E; subst j. inversion Hj; subst b. cbn in *. apply (Hpc pc' eq_refl Hb).
      - specialize (LA j b Hj Hb). destruct (a_pc b); auto. destruct LA as [[X Y]|[X Y]]; [left|right]; auto. }
    destruct (a_pc a) eqn:Pc; destruct (a_tl a) as [t|] eqn:Tl;
      try (destruct (ri_tlpc s R i a t Hi Tl) as [X|X]; rewrite X in Pc; discriminate); try discriminate.
    + inversion H; subst s'; clear H. apply K; auto. intros b <- Hb; discriminate.
    + destruct (d_holds (dp s)) eqn:Dh; [discriminate|]. inversion H; subst s'; clear H.
      apply K; auto using before_d_app, after_d_app.
      * intros b <- _. destruct (dp s) eqn:Dp; try discriminate.
        -- left. split; auto. exists (acq s), []. split; auto.
        -- right. split; auto. destruct (in_split _ _ (L2 ltac:(congruence))) as (l1 & l2 & E).
           exists l1, (l2 ++ [WA i]). rewrite E, <- app_assoc. split; auto. apply in_or_app; right; left; auto.
      * intros Ds Hin. apply in_app_or in Hin as [Hin|[Hin|[]]]; [eapply L1; eauto | discriminate].
      * intros Ds. apply in_or_app; left; auto.
    + inversion H; subst s'; clear H. specialize (LA i a Hi Tl). rewrite Pc in LA. apply K; auto.
      intros b <- _. destruct LA as [[X Y]|[X Y]]; rewrite X in D; [rewrite D | rewrite D]; auto.
    + inversion H; subst s'; clear H. specialize (LA i a Hi Tl). rewrite Pc in LA. apply K; auto. intros b <- _; auto.
    + inversion H; subst s'; clear H. specialize (LA i a Hi Tl). rewrite Pc in LA. apply K; auto. intros b <- _; auto.
    + inversion H; subst s'; clear H. specialize (LA i a Hi Tl). rewrite Pc in LA. apply K; auto. intros b <- _; auto.
  - pose proof (ri_d s R) as D. destruct (dp s) eqn:Dp; try discriminate.
    + destruct (existsb (fun a => a_holds (a_pc a)) (aps s)) eqn:E; [discriminate|]. inversion H; subst s'; clear H.
      split; cbn [aps slot dp rlog acq]; [congruence | | ].
      * intros _. apply in_or_app; right; left; auto.
      * intros i a Hi Tl. specialize (LA i a Hi Tl). pose proof (existsb_holds_nth _ _ _ Hi E) as Hh.
        destruct (a_pc a); cbn in Hh; try discriminate; auto using before_d_app, after_d_app.
    + inversion H; subst s'; clear H. destruct D as [D1 D2]. split; cbn [aps slot dp rlog acq]; [congruence | intros _; apply L2; congruence | ].
      intros i a Hi Tl. specialize (LA i a Hi Tl). pose proof (existsb_holds_nth _ _ _ Hi D2) as Hh.
      destruct (a_pc a); cbn in Hh; try discriminate; auto.
    + inversion H; subst s'; clear H. destruct D as [D1 [D2 D3]]. split; cbn [aps slot dp rlog acq]; [congruence | intros _; apply L2; congruence | ].
      intros i a Hi Tl. specialize (LA i a Hi Tl). pose proof (existsb_holds_nth _ _ _ Hi D3) as Hh.
      destruct (a_pc a); cbn in Hh; try discriminate; auto.
    + inversion H; subst s'; clear H. destruct D as [D1 D2]. split; cbn [aps slot dp rlog acq]; [congruence | intros _; apply L2; congruence | ].
      intros i a Hi Tl. specialize (LA i a Hi Tl). pose proof (existsb_holds_nth _ _ _ Hi D2) as Hh.
      destruct (a_pc a); cbn in Hh; try discriminate; auto.
Qed.

Lemma both_exec : forall ls s, RInv s -> LInv s -> RInv (rexec s ls) /\ LInv (rexec s ls).
Proof.
  induction ls as [|l r IH]; intros s R L; cbn; auto. unfold rexec1 at 2 4.
  destruct (rstep s l) eqn:E; [apply IH; [eapply rinv_step | eapply linv_step]; eauto | apply IH; auto].
Qed.

(* An append that got the lock before the detacher is delivered; one that got it after finds nothing and
   hands the entry back - in every schedule. *)
Theorem race_linearisation : forall es ls i a,
  NoDup (map fst es) -> (forall e t, In (e, Some t) es -> t <> d) ->
  let s := rexec (rinit0 d es) ls in
  nth_error (aps s) i = Some a -> a_tl a = None ->
  (a_pc a = AOk -> before_d i (acq s)) /\ (a_pc a = AErr -> after_d i (acq s)).
Proof.
  intros es ls i a ND TL s Hi Tl.
  destruct (both_exec ls (rinit0 d es) (rinv_init es ND TL) (linv_init es)) as [_ L].
  pose proof (li_a _ L i a Hi Tl) as X. fold s in X. split; intros Pc; rewrite Pc in X; exact X.
Qed.
End Race.
