(* C17 — several threads attaching to one unattached global at the same moment.

   `attach` takes the SINK write lock, checks and stores under it: one atomic step of the model ([step] on [Attach]).
   A race of attaches is therefore some serial order of [Attach] operations; for every such order exactly the first
   succeeds, every other call panics (its rejected sink/handle pair is dropped: [Joined]), and the global ends up
   attached to the first caller's sink.  The same for runtime-scoped test sinks on one runtime.  The observation
   of a race on the implementation (real threads leaving a spinning rendezvous) is decided by [attach_race_ok]. *)
(* DISPATCH 1703 c17_attach_race_ok *)
From Coq Require Import List NArith Bool Lia Arith.
From MV Require Import Common.Sx C17.Model C17.Spec C17.Proofs.
Import ListNotations.
Local Open Scope N_scope.

Definition attach_ops (g : nat) (cs : list (ctx * N)) : list op := map (fun p => Attach g (fst p) (snd p)) cs.

Lemma getg_emit : forall s e g, getg (emit s e) g = getg s g.
Proof. reflexivity. Qed.
Lemma getg_with_handles : forall s h g, getg (with_handles s h) g = getg s g.
Proof. reflexivity. Qed.

Lemma attach_when_attached : forall g cs s sk0,
  att (getg s g) = Some sk0 ->
  att (getg (fst (run s (attach_ops g cs))) g) = Some sk0 /\
  snd (run s (attach_ops g cs)) = map (fun _ => RPanic) cs.
Proof.
  induction cs as [|[c sk] r IH]; intros s sk0 H; cbn [attach_ops map run].
  - cbn. auto.
  - cbn [step fst snd]. rewrite H.
    destruct (run (emit s [Joined sk]) (map (fun p => Attach g (fst p) (snd p)) r)) as [s2 xs] eqn:R.
    specialize (IH (emit s [Joined sk]) sk0). rewrite getg_emit in IH. specialize (IH H).
    unfold attach_ops in IH. rewrite R in IH. cbn [fst snd] in *. destruct IH as [A B]. split; [exact A|]. now rewrite B.
Qed.

Theorem attach_race_one_winner : forall g c sk rest s,
  att (getg s g) = None ->
  att (getg (fst (run s (attach_ops g ((c, sk) :: rest)))) g) = Some sk /\
  exists h, snd (run s (attach_ops g ((c, sk) :: rest))) = ROk h :: map (fun _ => RPanic) rest.
Proof.
  intros g c sk rest s H. cbn [attach_ops map run fst snd step]. rewrite H.
  set (s1 := with_handles _ _).
  assert (A : att (getg s1 g) = Some sk).
  { unfold s1. rewrite getg_with_handles, getg_setg, Nat.eqb_refl. reflexivity. }
  destruct (attach_when_attached g rest s1 sk A) as [P Q]. unfold attach_ops in P, Q.
  destruct (run s1 (map (fun p => Attach g (fst p) (snd p)) rest)) as [s2 xs]. cbn [fst snd] in *.
  split; [exact P|]. eexists. now rewrite Q.
Qed.

Definition is_ok (r : res) : bool := match r with ROk _ => true | _ => false end.
Lemma filter_panics : forall (T : Type) (l : list T), filter is_ok (map (fun _ => RPanic) l) = [].
Proof. induction l; cbn; auto. Qed.

(* every serial order: the callers are given as a list; whoever comes first wins *)
Corollary attach_race_exactly_one : forall g cs s,
  cs <> [] -> att (getg s g) = None ->
  length (filter is_ok (snd (run s (attach_ops g cs)))) = 1%nat.
Proof.
  intros g [|[c sk] rest] s NE H; [congruence|].
  destruct (attach_race_one_winner g c sk rest s H) as [_ [h E]]. rewrite E. cbn [filter is_ok].
  now rewrite filter_panics.
Qed.

(* the same for runtime-scoped test sinks installed on one runtime *)
Definition setrt_ops (g : nat) (r : N) (cs : list (ctx * N)) : list op := map (fun p => SetRT g (fst p) r (snd p)) cs.

Lemma getg_with_rtg : forall s h g, getg (with_rtg s h) g = getg s g.
Proof. reflexivity. Qed.

Lemma setrt_when_installed : forall g r cs s sk0,
  Model.lookup r (rts (getg s g)) = Some sk0 ->
  fst (run s (setrt_ops g r cs)) = s /\ snd (run s (setrt_ops g r cs)) = map (fun _ => RPanic) cs.
Proof.
  induction cs as [|[c sk] rest IH]; intros s sk0 H; cbn [setrt_ops map run]; [cbn; auto|].
  cbn [step fst snd]. unfold set_rt. rewrite H.
  destruct (IH s sk0 H) as [A B]. unfold setrt_ops in A, B.
  destruct (run s (map (fun p => SetRT g (fst p) r (snd p)) rest)) as [s2 xs]. cbn [fst snd] in *. subst. auto.
Qed.

Lemma run_cons_fst : forall s o r, fst (run s (o :: r)) = fst (run (fst (step s o)) r).
Proof. intros. cbn [run]. destruct (step s o) as [s1 x]. cbn [fst]. destruct (run s1 r). reflexivity. Qed.
Lemma run_cons_snd : forall s o r, snd (run s (o :: r)) = snd (step s o) :: snd (run (fst (step s o)) r).
Proof. intros. cbn [run]. destruct (step s o) as [s1 x]. cbn [fst snd]. destruct (run s1 r). reflexivity. Qed.

Theorem setrt_race_one_winner : forall g r c sk rest s,
  Model.lookup r (rts (getg s g)) = None ->
  Model.lookup r (rts (getg (fst (run s (setrt_ops g r ((c, sk) :: rest)))) g)) = Some sk /\
  exists h, snd (run s (setrt_ops g r ((c, sk) :: rest))) = ROk h :: map (fun _ => RPanic) rest.
Proof.
  intros g r c sk rest s H. cbn [setrt_ops map]. rewrite run_cons_fst, run_cons_snd. cbn [step fst snd].
  assert (E : set_rt s g r sk = (with_rtg (setg s g (mk_gst (att (getg s g)) (tls (getg s g)) (insert r sk (rts (getg s g)))))
                                   (rtg s ++ [mk_ent g r sk true true]), ROk (of_len (rtg s)))).
  { unfold set_rt. rewrite H. reflexivity. }
  rewrite E. cbn [fst snd]. set (s1 := with_rtg _ _).
  assert (A : Model.lookup r (rts (getg s1 g)) = Some sk).
  { unfold s1. rewrite getg_with_rtg, getg_setg, Nat.eqb_refl. cbn [rts]. apply lookup_insert_eq. }
  destruct (setrt_when_installed g r rest s1 sk A) as [P Q]. unfold setrt_ops in P, Q.
  rewrite P, Q. split; [exact A|]. eexists. reflexivity.
Qed.

(* ------------------------------------------------------------------ the observation of one race *)
(* results = (sink, succeeded?) per racing caller; probe = sinks that received the probe entry appended while the
   winner's handle was alive; back = after the winner's handle was dropped a second probe reached none of the racers *)
Definition attach_race_ok (results : list (N * bool)) (probe : list N) (back : bool) : bool :=
  match filter (fun p => snd p) results with
  | [(w, _)] => match probe with [d] => N.eqb d w | _ => false end && back
  | _ => false
  end.

(* what the model shows for a serial order: racers (sink k) in the order they got the lock *)
Definition model_results (order : list N) : list (N * bool) :=
  match order with [] => [] | w :: r => (w, true) :: map (fun k => (k, false)) r end.

Lemma filter_losers : forall r : list N, filter (fun p : N * bool => snd p) (map (fun k => (k, false)) r) = [].
Proof. induction r; cbn; auto. Qed.

Theorem attach_race_ok_of_model : forall w r, attach_race_ok (model_results (w :: r)) [w] true = true.
Proof.
  intros. unfold attach_race_ok, model_results. cbn [filter snd]. rewrite filter_losers. now rewrite N.eqb_refl.
Qed.

(* the predicate is invariant under the order in which the harness lists the callers *)
Definition dec_res (x : sx) : N * bool := (sx_n (sx_nth x 0), sx_bool (sx_nth x 1)).
Definition c17_attach_race_ok (x : sx) : sx :=
  let imp := sx_nth x 1 in
  of_bool (attach_race_ok (map dec_res (sx_list (sx_nth imp 0))) (map sx_n (sx_list (sx_nth imp 1))) (sx_bool (sx_nth imp 2))).

Example attach_race_example :
  snd (run init (attach_ops 0 [(mk_ctx 1 None, 11); (mk_ctx 2 None, 12); (mk_ctx 3 None, 13)])) = [ROk 0; RPanic; RPanic].
Proof. vm_compute. reflexivity. Qed.
