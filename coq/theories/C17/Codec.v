(* C17 — wire codec: s-expression <-> operation sequences / results and sink log. *)
(* DISPATCH 1700 c17_run *)
(* DISPATCH 1701 c17_spec *)
From Coq Require Import List ZArith NArith Bool.
From MV Require Import Common.Sx C17.Model C17.Spec.
Import ListNotations.

(* context: (thread runtime+1), 0 = no current runtime *)
Definition dec_ctx (x : sx) : ctx :=
  let r := sx_n (sx_nth x 1) in
  mk_ctx (sx_n (sx_nth x 0)) (if N.eqb r 0 then None else Some (N.pred r)).

Definition dec_op (x : sx) : op :=
  let a i := sx_arg x i in
  match sx_tag x with
  | 0%Z => Attach (sx_nat (a 0%nat)) (dec_ctx (a 1%nat)) (sx_n (a 2%nat))
  | 1%Z => DropHandle (dec_ctx (a 0%nat)) (sx_nat (a 1%nat))
  | 2%Z => ForgetHandle (dec_ctx (a 0%nat)) (sx_nat (a 1%nat))
  | 3%Z => SetTL (sx_nat (a 0%nat)) (dec_ctx (a 1%nat)) (sx_n (a 2%nat))
  | 4%Z => DropTL (sx_nat (a 0%nat))
  | 5%Z => SetRT (sx_nat (a 0%nat)) (dec_ctx (a 1%nat)) (sx_n (a 2%nat)) (sx_n (a 3%nat))
  | 6%Z => SetRTCur (sx_nat (a 0%nat)) (dec_ctx (a 1%nat)) (sx_n (a 2%nat))
  | 7%Z => DropRT (dec_ctx (a 0%nat)) (sx_nat (a 1%nat))
  | 8%Z => Append (sx_nat (a 0%nat)) (dec_ctx (a 1%nat)) (sx_n (a 2%nat))
  | 9%Z => TryAppend (sx_nat (a 0%nat)) (dec_ctx (a 1%nat)) (sx_n (a 2%nat))
  | 10%Z => Sink (sx_nat (a 0%nat)) (dec_ctx (a 1%nat))
  | 11%Z => TrySink (sx_nat (a 0%nat)) (dec_ctx (a 1%nat))
  | 12%Z => AppendVia (dec_ctx (a 0%nat)) (sx_nat (a 1%nat)) (sx_n (a 2%nat))
  | 13%Z => IsAttached (sx_nat (a 0%nat)) (dec_ctx (a 1%nat))
  | _ => WithTL (sx_nat (a 0%nat)) (dec_ctx (a 1%nat)) (sx_n (a 2%nat)) (sx_n (a 3%nat))
  end.

Definition enc_res (r : res) : sx :=
  match r with
  | ROk v => tagged 0 [of_n v]
  | RPanic => tagged 1 []
  | RErr e => tagged 2 [of_n e]
  | RNoop => tagged 3 []
  end.
Definition enc_ev (e : ev) : sx :=
  match e with Recv s x => tagged 0 [of_n s; of_n x] | Joined s => tagged 1 [of_n s] end.

(* case: (ops)  ->  ((results) (log)) *)
Definition c17_run (x : sx) : sx :=
  let '(s, rs) := run init (map dec_op (sx_list (sx_nth x 0))) in
  L [L (map enc_res rs); L (map enc_ev (log s))].
Definition c17_spec (x : sx) : sx :=
  let '(s, rs) := spec_run rinit (map dec_op (sx_list (sx_nth x 0))) in
  L [L (map enc_res rs); L (map enc_ev (r_log s))].
