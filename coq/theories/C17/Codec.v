(* C17 — wire codec: s-expression <-> operation sequences / results and sink log. *)
(* DISPATCH 1700 c17_run *)
(* DISPATCH 1701 c17_spec *)
(* DISPATCH 1702 c17_race_ok *)
From Coq Require Import List ZArith NArith Bool.
From MV Require Import Common.Sx C17.Model C17.Spec C17.Race.
Import ListNotations.

(* context: (thread runtime+1), 0 = no current runtime *)
Definition dec_ctx (x : sx) : ctx :=
  let r := sx_n (sx_nth x 1) in
  mk_ctx (sx_n (sx_nth x 0)) (if N.eqb r 0 then None else Some (N.pred r)).

Definition dec_op (x : sx) : op :=
  let a i := sx_arg x i in
  match sx_tag x with
  | 0%Z => Attach (sx_nat (a 0%nat)) (dec_ctx (a 1%nat)) (sx_n (a 2%nat))
  | 1%Z => DropHandle (dec_ctx (a 0%nat)) (sx_nat (a 1%nat))
  | 2%Z => ForgetHandle (dec_ctx (a 0%nat)) (sx_nat (a 1%nat))
  | 3%Z => SetTL (sx_nat (a 0%nat)) (dec_ctx (a 1%nat)) (sx_n (a 2%nat))
  | 4%Z => DropTL (sx_nat (a 0%nat))
  | 5%Z => SetRT (sx_nat (a 0%nat)) (dec_ctx (a 1%nat)) (sx_n (a 2%nat)) (sx_n (a 3%nat))
  | 6%Z => SetRTCur (sx_nat (a 0%nat)) (dec_ctx (a 1%nat)) (sx_n (a 2%nat))
  | 7%Z => DropRT (dec_ctx (a 0%nat)) (sx_nat (a 1%nat))
  | 8%Z => Append (sx_nat (a 0%nat)) (dec_ctx (a 1%nat)) (sx_n (a 2%nat))
  | 9%Z => TryAppend (sx_nat (a 0%nat)) (dec_ctx (a 1%nat)) (sx_n (a 2%nat))
  | 10%Z => Sink (sx_nat (a 0%nat)) (dec_ctx (a 1%nat))
  | 11%Z => TrySink (sx_nat (a 0%nat)) (dec_ctx (a 1%nat))
  | 12%Z => AppendVia (dec_ctx (a 0%nat)) (sx_nat (a 1%nat)) (sx_n (a 2%nat))
  | 13%Z => IsAttached (sx_nat (a 0%nat)) (dec_ctx (a 1%nat))
  | _ => WithTL (sx_nat (a 0%nat)) (dec_ctx (a 1%nat)) (sx_n (a 2%nat)) (sx_n (a 3%nat))
  end.

Definition enc_res (r : res) : sx :=
  match r with
  | ROk v => tagged 0 [of_n v]
  | RPanic => tagged 1 []
  | RErr e => tagged 2 [of_n e]
  | RNoop => tagged 3 []
  end.
Definition enc_ev (e : ev) : sx :=
  match e with Recv s x => tagged 0 [of_n s; of_n x] | Joined s => tagged 1 [of_n s] end.

(* case: (ops)  ->  ((results) (log)) *)
Definition c17_run (x : sx) : sx :=
  let '(s, rs) := run init (map dec_op (sx_list (sx_nth x 0))) in
  L [L (map enc_res rs); L (map enc_ev (log s))].
Definition c17_spec (x : sx) : sx :=
  let '(s, rs) := spec_run rinit (map dec_op (sx_list (sx_nth x 0))) in
  L [L (map enc_res rs); L (map enc_ev (r_log s))].

(* race runs: ((threads per tl) ((thread entry ok) ...) (log))  ->  1 when the observation satisfies the property.
   Sink 1 is the attached one, sink 2 the thread-local test sink of thread 0 (when tl = 1). *)
Definition dec_ev (x : sx) : ev :=
  match sx_tag x with 0%Z => Recv (sx_n (sx_arg x 0)) (sx_n (sx_arg x 1)) | _ => Joined (sx_n (sx_arg x 0)) end.
Definition c17_race_ok (x : sx) : sx :=
  let case := sx_nth x 0 in
  let imp := sx_nth x 1 in
  let tl := sx_bool (sx_nth case 2) in
  let outs := map (fun o => let t := sx_n (sx_nth o 0) in
                            ((if tl && N.eqb t 0 then 2 else 1)%N, sx_n (sx_nth o 1), sx_bool (sx_nth o 2)))
                  (sx_list (sx_nth imp 0)) in
  let log := map dec_ev (sx_list (sx_nth imp 1)) in
  of_bool (race_ok 1 outs log && Nat.eqb (count (ev_is_joined 1) log) 1).
