(* C17 — what the user is promised, phrased over the history of guards only (no slots, no locks):

   an override (attached sink, thread-local test sink, runtime test sink) is in force from the successful
   call that installed it until its guard is dropped (an attach handle that was forgotten: forever);
   an entry goes to the calling thread's test sink if one is in force, otherwise to the current runtime's,
   otherwise to the attached sink, otherwise try_append hands it back and append / sink() panic;
   installing an override of a kind that is in force panics and changes nothing. *)
From Coq Require Import List NArith Bool.
From MV Require Import C17.Model.
Import ListNotations.
Local Open Scope N_scope.

(* the sink of the override in force for (global, id) *)
Fixpoint find (g : nat) (i : N) (l : list ent) : option N :=
  match l with
  | [] => None
  | x :: r => if Nat.eqb g (eg x) && N.eqb i (eid x) && epres x then Some (esink x) else find g i r
  end.

Record rst := mk_rst { r_handles : list ent; r_tlg : list ent; r_rtg : list ent; r_held : list N; r_log : list ev }.
Definition rinit := mk_rst [] [] [] [] [].

Definition route (s : rst) (g : nat) (c : ctx) : option N :=
  match find g (th c) (r_tlg s) with
  | Some d => Some d
  | None =>
      match match rtc c with Some r => find g r (r_rtg s) | None => None end with
      | Some d => Some d
      | None => find g 0 (r_handles s)
      end
  end.

Definition remit (s : rst) (e : list ev) : rst := mk_rst (r_handles s) (r_tlg s) (r_rtg s) (r_held s) (r_log s ++ e).

(* drop of the k-th guard of a table: its override ends *)
Definition end_guard (l : list ent) (k : nat) : option (ent * list ent) :=
  match nth_error l k with
  | Some x => if eowned x then Some (x, set_nth l k (mk_ent (eg x) (eid x) (esink x) false false)) else None
  | None => None
  end.

Definition spec_set_rt (s : rst) (g : nat) (r sk : N) : rst * res :=
  match find g r (r_rtg s) with
  | Some _ => (s, RPanic)
  | None => (mk_rst (r_handles s) (r_tlg s) (r_rtg s ++ [mk_ent g r sk true true]) (r_held s) (r_log s), ROk (of_len (r_rtg s)))
  end.

Definition spec_step (s : rst) (o : op) : rst * res :=
  match o with
  | Attach g c sk =>
      match find g 0 (r_handles s) with
      | Some _ => (remit s [Joined sk], RPanic)     (* the rejected sink is dropped *)
      | None => (mk_rst (r_handles s ++ [mk_ent g 0 sk true true]) (r_tlg s) (r_rtg s) (r_held s) (r_log s), ROk (of_len (r_handles s)))
      end
  | DropHandle c h =>
      match end_guard (r_handles s) h with
      | Some (x, l) => (mk_rst l (r_tlg s) (r_rtg s) (r_held s) (r_log s ++ [Joined (esink x)]), ROk 0)
      | None => (s, RNoop)
      end
  | ForgetHandle c h =>
      match nth_error (r_handles s) h with
      | Some x => if eowned x
                  then (mk_rst (set_nth (r_handles s) h (mk_ent (eg x) (eid x) (esink x) (epres x) false)) (r_tlg s) (r_rtg s) (r_held s) (r_log s), ROk 0)
                  else (s, RNoop)
      | None => (s, RNoop)
      end
  | SetTL g c sk =>
      match find g (th c) (r_tlg s) with
      | Some _ => (s, RPanic)
      | None => (mk_rst (r_handles s) (r_tlg s ++ [mk_ent g (th c) sk true true]) (r_rtg s) (r_held s) (r_log s), ROk (of_len (r_tlg s)))
      end
  | DropTL k =>
      match end_guard (r_tlg s) k with
      | Some (_, l) => (mk_rst (r_handles s) l (r_rtg s) (r_held s) (r_log s), ROk 0)
      | None => (s, RNoop)
      end
  | SetRT g c r sk => spec_set_rt s g r sk
  | SetRTCur g c sk => match rtc c with Some r => spec_set_rt s g r sk | None => (s, RPanic) end
  | DropRT c k =>
      match end_guard (r_rtg s) k with
      | Some (_, l) => (mk_rst (r_handles s) (r_tlg s) l (r_held s) (r_log s), ROk 0)
      | None => (s, RNoop)
      end
  | Append g c e => match route s g c with Some d => (remit s [Recv d e], ROk d) | None => (s, RPanic) end
  | TryAppend g c e => match route s g c with Some d => (remit s [Recv d e], ROk d) | None => (s, RErr e) end
  | Sink g c =>
      match route s g c with
      | Some d => (mk_rst (r_handles s) (r_tlg s) (r_rtg s) (r_held s ++ [d]) (r_log s), ROk (of_len (r_held s)))
      | None => (s, RPanic)
      end
  | TrySink g c =>
      match route s g c with
      | Some d => (mk_rst (r_handles s) (r_tlg s) (r_rtg s) (r_held s ++ [d]) (r_log s), ROk (of_len (r_held s)))
      | None => (s, RErr 0)
      end
  | AppendVia c k e => match nth_error (r_held s) k with Some d => (remit s [Recv d e], ROk d) | None => (s, RNoop) end
  | IsAttached g c => (s, ROk (match route s g c with Some _ => 1 | None => 0 end))
  | WithTL g c sk e =>
      match find g (th c) (r_tlg s) with
      | Some _ => (s, RPanic)
      | None => (remit s [Recv sk e], ROk sk)
      end
  end.

Fixpoint spec_run (s : rst) (ops : list op) : rst * list res :=
  match ops with
  | [] => (s, [])
  | o :: r => let '(s1, x) := spec_step s o in let '(s2, xs) := spec_run s1 r in (s2, x :: xs)
  end.

(* the view of a mechanism state that the specification talks about *)
Definition erase (s : st) : rst := mk_rst (handles s) (tlg s) (rtg s) (held s) (log s).
