(* C17 — mechanism model of metrique-writer-core/src/global.rs (global_entry_sink! and its guards).

   Per macro-declared global:  SINK : RwLock<Option<(BoxEntrySink, handle)>>            -> [att]
                               THREAD_LOCAL_TEST_SINK : RefCell<Option<BoxEntrySink>>   -> [tls]  (one cell per OS thread)
                               RUNTIME_TEST_SINKS : Mutex<HashMap<runtime::Id, sink>>   -> [rts]
   The guards hold no sink: AttachHandle { join: Option<fn()> } runs `SINK.write().take()`, the thread-local
   guard runs `set_test_sink(None)` on the thread that drops it, the runtime guard removes its runtime id.
   Sinks are numbered recorders; the log lists what every sink received and when an attached sink was
   dropped (its handle joined).  Every operation is executed by one thread in one "current runtime"
   context and returns Ok / Panic / Err entry. *)
From Coq Require Import List NArith Bool.
Import ListNotations.
Local Open Scope N_scope.

(* ---- association lists keyed by N ---- *)
Fixpoint lookup (k : N) (l : list (N * N)) : option N :=
  match l with [] => None | (k', v) :: r => if N.eqb k k' then Some v else lookup k r end.
Fixpoint remove (k : N) (l : list (N * N)) : list (N * N) :=
  match l with [] => [] | (k', v) :: r => if N.eqb k k' then remove k r else (k', v) :: remove k r end.
Definition insert (k v : N) (l : list (N * N)) : list (N * N) := (k, v) :: remove k l.

Fixpoint set_nth {T} (l : list T) (i : nat) (x : T) : list T :=
  match l, i with
  | [], _ => []
  | _ :: r, O => x :: r
  | y :: r, Datatypes.S j => y :: set_nth r j x
  end.

(* ---- state ---- *)
Record gst := mk_gst {
  att : option N;            (* SINK: the attached sink *)
  tls : list (N * N);        (* thread -> its thread-local test sink *)
  rts : list (N * N)         (* runtime id -> its test sink *)
}.
Definition g0 := mk_gst None [] [].

Inductive ev := Recv (sink entry : N) | Joined (sink : N).

(* One guard object (AttachHandle / ThreadLocalTestSinkGuard / TokioRuntimeTestSinkGuard).
   The code's objects carry only [eg], [eid] and [eowned]; [esink] and [epres] are ghost history (which sink
   the guard was created for, and whether its override is still in force) that [step] never reads: the
   specification is phrased over them. *)
Record ent := mk_ent {
  eg : nat;        (* the global *)
  eid : N;         (* thread the guard lives on / runtime id / 0 for attach handles *)
  esink : N;       (* ghost *)
  epres : bool;    (* ghost: installed and not yet dropped (a forgotten attach handle stays present) *)
  eowned : bool    (* the guard still exists and will act when dropped (AttachHandle.join is Some) *)
}.

Record st := mk_st {
  gs : list gst;                    (* the globals *)
  handles : list ent;               (* k-th AttachHandle *)
  tlg : list ent;                   (* k-th ThreadLocalTestSinkGuard *)
  rtg : list ent;                   (* k-th TokioRuntimeTestSinkGuard *)
  held : list N;                    (* k-th BoxEntrySink clone handed out by sink() / try_sink(): the sink it is *)
  log : list ev                     (* newest last *)
}.
Definition init : st := mk_st [] [] [] [] [] [].

(* globals are created on demand (every declared global starts empty) *)
Fixpoint set_nth_d (l : list gst) (i : nat) (x : gst) : list gst :=
  match i, l with
  | O, [] => [x]
  | O, _ :: r => x :: r
  | Datatypes.S j, [] => g0 :: set_nth_d [] j x
  | Datatypes.S j, y :: r => y :: set_nth_d r j x
  end.
Definition getg (s : st) (g : nat) : gst := nth g (gs s) g0.
Definition setg (s : st) (g : nat) (x : gst) : st :=
  mk_st (set_nth_d (gs s) g x) (handles s) (tlg s) (rtg s) (held s) (log s).
Definition emit (s : st) (e : list ev) : st :=
  mk_st (gs s) (handles s) (tlg s) (rtg s) (held s) (log s ++ e).

(* who executes: OS thread, and the tokio runtime Handle::try_current() finds there (if any) *)
Record ctx := mk_ctx { th : N; rtc : option N }.

Inductive op :=
| Attach (g : nat) (c : ctx) (s : N)            (* G::attach((sink s, handle)) *)
| DropHandle (c : ctx) (h : nat)                (* drop(attach_handle) *)
| ForgetHandle (c : ctx) (h : nat)              (* attach_handle.forget() *)
| SetTL (g : nat) (c : ctx) (s : N)             (* G::set_test_sink(s) *)
| DropTL (k : nat)                              (* drop(guard) on the guard's own thread (it is !Send) *)
| SetRT (g : nat) (c : ctx) (r : N) (s : N)     (* G::set_test_sink_for_tokio_runtime(&handle_r, s) *)
| SetRTCur (g : nat) (c : ctx) (s : N)          (* G::set_test_sink_on_current_tokio_runtime(s) *)
| DropRT (c : ctx) (k : nat)
| Append (g : nat) (c : ctx) (e : N)            (* G::append(entry) *)
| TryAppend (g : nat) (c : ctx) (e : N)         (* G::try_append(entry) *)
| Sink (g : nat) (c : ctx)                      (* G::sink() *)
| TrySink (g : nat) (c : ctx)                   (* G::try_sink() *)
| AppendVia (c : ctx) (k : nat) (e : N)         (* held_sink.append(entry) *)
| IsAttached (g : nat) (c : ctx)
| WithTL (g : nat) (c : ctx) (s : N) (e : N).   (* G::with_test_sink(s, || G::append(e)) *)

Inductive res :=
| ROk (v : N)      (* value: new resource index / destination sink / boolean *)
| RPanic
| RErr (e : N)     (* try_append handed the entry back *)
| RNoop.           (* the harness no longer holds that resource (already consumed) *)

(* get_test_sink(): thread-local first, then the current runtime's *)
Definition get_test_sink (x : gst) (c : ctx) : option N :=
  match lookup (th c) (tls x) with
  | Some s => Some s
  | None => match rtc c with Some r => lookup r (rts x) | None => None end
  end.
Definition try_sink (x : gst) (c : ctx) : option N :=
  match get_test_sink x c with Some s => Some s | None => att x end.

Definition with_handles (s : st) (h : list ent) : st := mk_st (gs s) h (tlg s) (rtg s) (held s) (log s).
Definition with_tlg (s : st) (t : list ent) : st := mk_st (gs s) (handles s) t (rtg s) (held s) (log s).
Definition with_rtg (s : st) (t : list ent) : st := mk_st (gs s) (handles s) (tlg s) t (held s) (log s).
Definition with_held (s : st) (t : list N) : st := mk_st (gs s) (handles s) (tlg s) (rtg s) t (log s).
Definition of_len {T} (l : list T) : N := N.of_nat (length l).

Definition set_rt (s : st) (g : nat) (r sk : N) : st * res :=
  let x := getg s g in
  match lookup r (rts x) with
  | Some _ => (s, RPanic)                                  (* contains_key: panic after the mutex is released *)
  | None =>
      let s1 := setg s g (mk_gst (att x) (tls x) (insert r sk (rts x))) in
      (with_rtg s1 (rtg s1 ++ [mk_ent g r sk true true]), ROk (of_len (rtg s)))
  end.

Definition step (s : st) (o : op) : st * res :=
  match o with
  | Attach g c sk =>
      let x := getg s g in
      match att x with
      | Some _ => (emit s [Joined sk], RPanic)             (* drop(write); panic!("Already installed ..."): the state is
                                                              untouched; unwinding drops the rejected (sink, handle) *)
      | None =>
          let s1 := setg s g (mk_gst (Some sk) (tls x) (rts x)) in
          (with_handles s1 (handles s1 ++ [mk_ent g 0 sk true true]), ROk (of_len (handles s)))
      end
  | DropHandle c h =>
      match nth_error (handles s) h with
      | Some (mk_ent g i sk p true) =>                     (* join(): SINK.write().unwrap().take(); *)
          let x := getg s g in
          let s1 := setg s g (mk_gst None (tls x) (rts x)) in
          let s2 := with_handles s1 (set_nth (handles s1) h (mk_ent g i sk false false)) in
          (emit s2 (match att x with Some a => [Joined a] | None => [] end), ROk 0)
      | _ => (s, RNoop)
      end
  | ForgetHandle c h =>
      match nth_error (handles s) h with
      | Some (mk_ent g i sk p true) => (with_handles s (set_nth (handles s) h (mk_ent g i sk p false)), ROk 0)   (* self.join = None *)
      | _ => (s, RNoop)
      end
  | SetTL g c sk =>
      let x := getg s g in
      match lookup (th c) (tls x) with
      | Some _ => (s, RPanic)                              (* should_panic: borrow released first *)
      | None =>
          let s1 := setg s g (mk_gst (att x) (insert (th c) sk (tls x)) (rts x)) in
          (with_tlg s1 (tlg s1 ++ [mk_ent g (th c) sk true true]), ROk (of_len (tlg s)))
      end
  | DropTL k =>
      match nth_error (tlg s) k with
      | Some (mk_ent g t sk p true) =>                     (* set_test_sink(None): clears unconditionally *)
          let x := getg s g in
          let s1 := setg s g (mk_gst (att x) (remove t (tls x)) (rts x)) in
          (with_tlg s1 (set_nth (tlg s1) k (mk_ent g t sk false false)), ROk 0)
      | _ => (s, RNoop)
      end
  | SetRT g c r sk => set_rt s g r sk
  | SetRTCur g c sk =>
      match rtc c with
      | Some r => set_rt s g r sk
      | None => (s, RPanic)                                (* Handle::current() panics outside a runtime *)
      end
  | DropRT c k =>
      match nth_error (rtg s) k with
      | Some (mk_ent g r sk p true) =>                     (* map.lock().remove(&runtime_id) *)
          let x := getg s g in
          let s1 := setg s g (mk_gst (att x) (tls x) (remove r (rts x))) in
          (with_rtg s1 (set_nth (rtg s1) k (mk_ent g r sk false false)), ROk 0)
      | _ => (s, RNoop)
      end
  | Append g c e =>
      match try_sink (getg s g) c with
      | Some d => (emit s [Recv d e], ROk d)
      | None => (s, RPanic)                                (* "sink must be attach()ed before appending" *)
      end
  | TryAppend g c e =>
      match try_sink (getg s g) c with
      | Some d => (emit s [Recv d e], ROk d)
      | None => (s, RErr e)
      end
  | Sink g c =>
      match try_sink (getg s g) c with
      | Some d => (with_held s (held s ++ [d]), ROk (of_len (held s)))
      | None => (s, RPanic)                                (* expect("sink must be attach()ed before use") *)
      end
  | TrySink g c =>
      match try_sink (getg s g) c with
      | Some d => (with_held s (held s ++ [d]), ROk (of_len (held s)))
      | None => (s, RErr 0)
      end
  | AppendVia c k e =>
      match nth_error (held s) k with
      | Some d => (emit s [Recv d e], ROk d)
      | None => (s, RNoop)
      end
  | IsAttached g c => (s, ROk (match try_sink (getg s g) c with Some _ => 1 | None => 0 end))
  | WithTL g c sk e =>
      let x := getg s g in
      match lookup (th c) (tls x) with
      | Some _ => (s, RPanic)
      | None => (emit s [Recv sk e], ROk sk)               (* installed, appended to sk, guard dropped: cell empty again *)
      end
  end.

Fixpoint run (s : st) (ops : list op) : st * list res :=
  match ops with
  | [] => (s, [])
  | o :: r => let '(s1, x) := step s o in let '(s2, xs) := run s1 r in (s2, x :: xs)
  end.
