(* C17 — sequential histories: once a sink has been joined (its attach handle dropped, or it was the argument
   of a rejected attach), no append through the global delivers to it any more. *)
From Coq Require Import List NArith Bool Arith Lia Permutation.
From MV Require Import C17.Model C17.Spec C17.Proofs.
Import ListNotations.
Local Open Scope N_scope.

Definition op_sinks (o : op) : list N :=
  match o with
  | Attach _ _ s | SetTL _ _ s | SetRT _ _ _ s | SetRTCur _ _ s | WithTL _ _ s _ => [s]
  | _ => []
  end.
Definition is_via (o : op) : bool := match o with AppendVia _ _ _ => true | _ => false end.
Definition joined (l : list ev) : list N := flat_map (fun x => match x with Joined s => [s] | _ => [] end) l.
Definition memN (d : N) (l : list N) : bool := existsb (N.eqb d) l.

(* the log, read left to right: a Recv to a sink already joined is an error *)
Fixpoint okl (seen : list N) (l : list ev) : bool :=
  match l with
  | [] => true
  | Joined s :: r => okl (seen ++ [s]) r
  | Recv d _ :: r => negb (memN d seen) && okl seen r
  end.
Definition chk (seen : list N) (x : ev) : bool := match x with Joined _ => true | Recv d _ => negb (memN d seen) end.

Lemma okl_app1 : forall l seen x, okl seen (l ++ [x]) = okl seen l && chk (seen ++ joined l) x.
Proof.
  induction l as [|y r IH]; intros seen x; cbn.
  - rewrite app_nil_r. destruct x; cbn; rewrite ?andb_true_r; reflexivity.
  - destruct y; cbn.
    + rewrite IH, andb_assoc. reflexivity.
    + rewrite IH, <- app_assoc. reflexivity.
Qed.
Lemma joined_app : forall a b, joined (a ++ b) = joined a ++ joined b.
Proof. intros; unfold joined; apply flat_map_app. Qed.

Lemma memN_false : forall d l, memN d l = false <-> ~ In d l.
Proof.
  unfold memN; intros d l; split.
  - intros H Hin. assert (existsb (N.eqb d) l = true) by (apply existsb_exists; exists d; split; auto; apply N.eqb_refl). congruence.
  - intros H. destruct (existsb (N.eqb d) l) eqn:E; auto. apply existsb_exists in E as [x [Hx E]].
    apply N.eqb_eq in E; subst; contradiction.
Qed.

Lemma okl_in : forall l seen d e, okl seen l = true -> In (Recv d e) l -> ~ In d seen.
Proof.
  induction l as [|y r IH]; intros seen d e H Hin; [destruct Hin|].
  destruct y; cbn in H.
  - apply andb_true_iff in H as [H1 H2]. destruct Hin as [E|Hin].
    + inversion E; subst. apply memN_false. destruct (memN d seen); [discriminate | reflexivity].
    + eapply IH; eauto.
  - destruct Hin as [E|Hin]; [discriminate|]. intros X. eapply IH; eauto. apply in_or_app; auto.
Qed.
(* the reading used in the pinned statement *)
Lemma okl_spec : forall l, okl [] l = true ->
  forall l1 l2 sk e, l = l1 ++ Joined sk :: l2 -> ~ In (Recv sk e) l2.
Proof.
  assert (forall l1 seen sk l2, okl seen (l1 ++ Joined sk :: l2) = true -> okl ((seen ++ joined l1) ++ [sk]) l2 = true) as G.
  { induction l1 as [|y r IH]; intros seen sk l2 H; cbn in *.
    - rewrite app_nil_r; exact H.
    - destruct y; cbn in *.
      + apply andb_true_iff in H as [_ H]. apply IH; exact H.
      + specialize (IH (seen ++ [sink]) sk l2 H). rewrite <- (app_assoc seen [sink]) in IH. exact IH. }
  intros l H l1 l2 sk e -> Hin. apply G in H. eapply okl_in in H; eauto. apply H, in_or_app; right; left; auto.
Qed.

(* ------------------------------------------------------------------ the invariant *)
Definition tabs (s : st) : list ent := handles s ++ tlg s ++ rtg s.
Definition known (s : st) : list N := map esink (tabs s) ++ joined (log s).

Record K (s : st) : Prop := mk_k {
  k_force : forall x, In x (tabs s) -> epres x = true -> ~ In (esink x) (joined (log s));
  k_log : okl [] (log s) = true;
  k_nodup : NoDup (map esink (tabs s))
}.
Definition F (s : st) (ops : list op) : Prop :=
  NoDup (flat_map op_sinks ops) /\ forall sk, In sk (flat_map op_sinks ops) -> ~ In sk (known s).

Lemma find_some : forall g i l d, find g i l = Some d -> exists x, In x l /\ epres x = true /\ esink x = d.
Proof.
  induction l as [|y r IH]; cbn; intros d H; [discriminate|].
  destruct (Nat.eqb g (eg y) && N.eqb i (eid y) && epres y) eqn:E.
  - inversion H; subst. apply andb_true_iff in E as [_ E]. exists y; auto.
  - destruct (IH d H) as [x [X1 X2]]. exists x; auto.
Qed.
Lemma route_present : forall s g c d, Inv s -> try_sink (getg s g) c = Some d ->
  exists x, In x (tabs s) /\ epres x = true /\ esink x = d.
Proof.
  intros s g c d I H. rewrite (try_sink_route s g c I) in H. unfold route in H. cbn in H. unfold tabs.
  destruct (find g (th c) (tlg s)) eqn:E1.
  - inversion H; subst. destruct (find_some _ _ _ _ E1) as [x [X1 X2]]. exists x; split; auto. apply in_or_app; right; apply in_or_app; auto.
  - destruct (match rtc c with Some r => find g r (rtg s) | None => None end) eqn:E2.
    + inversion H; subst. destruct (rtc c); [|discriminate]. destruct (find_some _ _ _ _ E2) as [x [X1 X2]].
      exists x; split; auto. apply in_or_app; right; apply in_or_app; auto.
    + destruct (find_some _ _ _ _ H) as [x [X1 X2]]. exists x; split; auto. apply in_or_app; auto.
Qed.

Lemma in_set_nth : forall {T} (l : list T) k x y, In y (set_nth l k x) -> y = x \/ exists j, j <> k /\ nth_error l j = Some y.
Proof.
  induction l as [|z r IH]; intros k x y H; destruct k; cbn in H; try contradiction.
  - destruct H as [<-|H]; auto. right. apply In_nth_error in H as [j Hj]. exists (Datatypes.S j); split; auto.
  - destruct H as [<-|H]; [right; exists O; split; auto|].
    destruct (IH _ _ _ H) as [->|[j [Hn Hj]]]; auto. right. exists (Datatypes.S j); split; auto.
Qed.
Lemma map_esink_set_nth : forall l k x x', nth_error l k = Some x -> esink x' = esink x -> map esink (set_nth l k x') = map esink l.
Proof.
  induction l as [|y r IH]; intros k x x' H E; destruct k; cbn in *; try discriminate.
  - inversion H; subst. rewrite E; reflexivity.
  - erewrite IH; eauto.
Qed.

Lemma set_nth_app_l : forall {T} (a r : list T) k x x', nth_error a k = Some x -> set_nth (a ++ r) k x' = set_nth a k x' ++ r.
Proof. induction a as [|y a IH]; intros r k x x' H; destruct k; cbn in *; try discriminate; auto. erewrite IH; eauto. Qed.
Lemma set_nth_app_r : forall {T} (a r : list T) k x', set_nth (a ++ r) (length a + k) x' = a ++ set_nth r k x'.
Proof. induction a as [|y a IH]; intros; cbn; auto. rewrite IH; reflexivity. Qed.
Lemma nth_error_app_r : forall {T} (a r : list T) k, nth_error (a ++ r) (length a + k) = nth_error r k.
Proof. induction a; cbn; auto. Qed.
Lemma nth_error_app_l : forall {T} (a r : list T) k x, nth_error a k = Some x -> nth_error (a ++ r) k = Some x.
Proof. intros. rewrite nth_error_app1; auto. apply nth_error_Some; congruence. Qed.

Inductive shape (s : st) (o : op) (s' : st) : Prop :=
| sh_same : tabs s' = tabs s -> log s' = log s -> shape s o s'
| sh_recv d e : tabs s' = tabs s -> log s' = log s ++ [Recv d e] ->
    (exists x, In x (tabs s) /\ epres x = true /\ esink x = d) \/ In d (op_sinks o) -> shape s o s'
| sh_rej sk : tabs s' = tabs s -> log s' = log s ++ [Joined sk] -> In sk (op_sinks o) -> shape s o s'
| sh_add x : Permutation (tabs s') (x :: tabs s) -> log s' = log s -> In (esink x) (op_sinks o) -> shape s o s'
| sh_repl k x x' : nth_error (tabs s) k = Some x -> tabs s' = set_nth (tabs s) k x' -> esink x' = esink x ->
    (epres x' = true -> epres x = true) -> log s' = log s -> shape s o s'
| sh_drop k x x' : nth_error (tabs s) k = Some x -> tabs s' = set_nth (tabs s) k x' -> esink x' = esink x ->
    epres x' = false -> epres x = true -> log s' = log s ++ [Joined (esink x)] -> shape s o s'.

Lemma perm_add_h : forall (a b c : list ent) x, Permutation ((a ++ [x]) ++ b ++ c) (x :: a ++ b ++ c).
Proof. intros. rewrite <- app_assoc. cbn. symmetry. apply Permutation_middle. Qed.
Lemma perm_add_t : forall (a b c : list ent) x, Permutation (a ++ (b ++ [x]) ++ c) (x :: a ++ b ++ c).
Proof.
  intros. rewrite <- app_assoc. cbn. symmetry. rewrite (app_assoc a b (x :: c)). rewrite (app_assoc a b c).
  apply Permutation_middle.
Qed.
Lemma perm_add_r : forall (a b c : list ent) x, Permutation (a ++ b ++ c ++ [x]) (x :: a ++ b ++ c).
Proof.
  intros. rewrite !app_assoc. symmetry. apply Permutation_cons_append.
Qed.

Lemma step_shape : forall s o, Inv s -> is_via o = false -> shape s o (fst (step s o)).
Proof.
  intros s o I V. destruct o; cbn [is_via] in V; try discriminate; cbn [step].
  - (* Attach *) destruct (att (getg s g)) eqn:A; cbn [fst].
    + eapply sh_rej; [reflexivity | reflexivity | cbn; auto].
    + eapply (sh_add _ _ _ (mk_ent g 0 s0 true true)); [apply perm_add_h | reflexivity | cbn; auto].
  - (* DropHandle *) destruct (nth_error (handles s) h) as [[g i sk p ow]|] eqn:Hh; cbn [fst]; [|apply sh_same; reflexivity].
    destruct ow; cbn [fst]; [|apply sh_same; reflexivity].
    destruct I as [A B C [UH OH] T R Z].
    assert (p = true) as -> by (apply (OH _ _ Hh); reflexivity).
    assert (i = 0) as -> by (apply (Z _ _ Hh)).
    assert (find g 0 (handles s) = Some sk) as Fd by (apply (find_present _ _ _ UH Hh); reflexivity).
    rewrite A, Fd.
    eapply (sh_drop _ _ _ h (mk_ent g 0 sk true true) (mk_ent g 0 sk false false)); try reflexivity.
    + unfold tabs. apply nth_error_app_l; exact Hh.
    + unfold tabs. norm. cbn [fst handles tlg rtg]. symmetry. eapply set_nth_app_l; eauto.
  - (* ForgetHandle *) destruct (nth_error (handles s) h) as [[g i sk p ow]|] eqn:Hh; cbn [fst]; [|apply sh_same; reflexivity].
    destruct ow; cbn [fst]; [|apply sh_same; reflexivity].
    eapply (sh_repl _ _ _ h (mk_ent g i sk p true) (mk_ent g i sk p false)); try reflexivity; auto.
    + unfold tabs. apply nth_error_app_l; exact Hh.
    + unfold tabs. norm. symmetry. eapply set_nth_app_l; eauto.
  - (* SetTL *) destruct (lookup (th c) (tls (getg s g))); cbn [fst]; [apply sh_same; reflexivity|].
    eapply (sh_add _ _ _ (mk_ent g (th c) s0 true true)); [apply perm_add_t | reflexivity | cbn; auto].
  - (* DropTL *) destruct (nth_error (tlg s) k) as [[g t sk p ow]|] eqn:Hk; cbn [fst]; [|apply sh_same; reflexivity].
    destruct ow; cbn [fst]; [|apply sh_same; reflexivity].
    eapply (sh_repl _ _ _ (length (handles s) + k) (mk_ent g t sk p true) (mk_ent g t sk false false)); try reflexivity.
    + unfold tabs. rewrite nth_error_app_r. apply nth_error_app_l; exact Hk.
    + unfold tabs. norm. rewrite set_nth_app_r. f_equal. symmetry. eapply set_nth_app_l; eauto.
    + discriminate.
  - (* SetRT *) unfold set_rt. destruct (lookup r (rts (getg s g))); cbn [fst]; [apply sh_same; reflexivity|].
    eapply (sh_add _ _ _ (mk_ent g r s0 true true)); [apply perm_add_r | reflexivity | cbn; auto].
  - (* SetRTCur *) destruct (rtc c) as [r|]; cbn [fst]; [|apply sh_same; reflexivity].
    unfold set_rt. destruct (lookup r (rts (getg s g))); cbn [fst]; [apply sh_same; reflexivity|].
    eapply (sh_add _ _ _ (mk_ent g r s0 true true)); [apply perm_add_r | reflexivity | cbn; auto].
  - (* DropRT *) destruct (nth_error (rtg s) k) as [[g r sk p ow]|] eqn:Hk; cbn [fst]; [|apply sh_same; reflexivity].
    destruct ow; cbn [fst]; [|apply sh_same; reflexivity].
    eapply (sh_repl _ _ _ (length (handles s) + (length (tlg s) + k)) (mk_ent g r sk p true) (mk_ent g r sk false false)); try reflexivity.
    + unfold tabs. rewrite nth_error_app_r, nth_error_app_r. exact Hk.
    + unfold tabs. norm. rewrite set_nth_app_r, set_nth_app_r. reflexivity.
    + discriminate.
  - (* Append *) destruct (try_sink (getg s g) c) eqn:E; cbn [fst]; [|apply sh_same; reflexivity].
    eapply sh_recv; [reflexivity | reflexivity | left; eapply route_present; eauto].
  - (* TryAppend *) destruct (try_sink (getg s g) c) eqn:E; cbn [fst]; [|apply sh_same; reflexivity].
    eapply sh_recv; [reflexivity | reflexivity | left; eapply route_present; eauto].
  - (* Sink *) destruct (try_sink (getg s g) c); cbn [fst]; apply sh_same; reflexivity.
  - (* TrySink *) destruct (try_sink (getg s g) c); cbn [fst]; apply sh_same; reflexivity.
  - (* IsAttached *) apply sh_same; reflexivity.
  - (* WithTL *) destruct (lookup (th c) (tls (getg s g))); cbn [fst]; [apply sh_same; reflexivity|].
    eapply sh_recv; [reflexivity | reflexivity | right; cbn; auto].
Qed.

Lemma nodup_map_inj : forall (l : list ent) i j x y, NoDup (map esink l) -> nth_error l i = Some x -> nth_error l j = Some y ->
  esink x = esink y -> i = j.
Proof.
  intros l i j x y ND Hi Hj E. eapply (proj1 (NoDup_nth_error (map esink l))); eauto.
  - apply nth_error_Some. rewrite nth_error_map, Hi. discriminate.
  - rewrite !nth_error_map, Hi, Hj. cbn. congruence.
Qed.

Lemma nodup_app_r : forall {T} (a b : list T), NoDup (a ++ b) -> NoDup b.
Proof. induction a; cbn; intros b H; auto. inversion H; auto. Qed.
Lemma nodup_app_disj : forall {T} (a b : list T) x, NoDup (a ++ b) -> In x a -> ~ In x b.
Proof.
  induction a as [|y a IH]; cbn; intros b x H Hin; [destruct Hin|]. inversion H; subst.
  destruct Hin as [->|Hin]; [intros X; apply H2, in_or_app; auto | eapply IH; eauto].
Qed.

Lemma shape_K : forall s o ops s', K s -> F s (o :: ops) -> shape s o s' -> K s' /\ F s' ops.
Proof.
  intros s o ops s' [KF KL KN] [FN FK] Sh.
  assert (NoDup (flat_map op_sinks ops)) as FN' by (cbn in FN; apply nodup_app_r in FN; exact FN).
  assert (forall sk, In sk (flat_map op_sinks ops) -> ~ In sk (op_sinks o)) as Fresh
    by (intros sk H1 H2; cbn in FN; eapply nodup_app_disj; eauto).
  assert (forall sk, In sk (flat_map op_sinks ops) -> ~ In sk (known s)) as FK'
    by (intros sk H; apply FK; cbn; apply in_or_app; auto).
  assert (forall sk, In sk (op_sinks o) -> ~ In sk (known s)) as FO
    by (intros sk H; apply FK; cbn; apply in_or_app; auto).
  destruct Sh as [Et El | d e Et El Hd | sk Et El Hs | x Pm El Hx | k x x' Hk Et Es Ep El | k x x' Hk Et Es Ep Epx El].
  - (* same *) split; [split; rewrite ?Et, ?El; auto | split; auto; unfold known; rewrite Et, El; auto].
  - (* recv *) split.
    + split; rewrite ?Et, ?El; auto.
      * intros y Hy Py. rewrite joined_app. cbn. rewrite app_nil_r. auto.
      * rewrite okl_app1, KL. cbn. apply negb_true_iff, memN_false.
        destruct Hd as [[y [Y1 [Y2 <-]]]|Hd]; [apply KF; auto|].
        intros X. apply (FO d Hd). unfold known. apply in_or_app; auto.
    + split; auto. unfold known. rewrite Et, El, joined_app. cbn. rewrite app_nil_r. auto.
  - (* rejected attach *) split.
    + split; rewrite ?Et, ?El; auto.
      * intros y Hy Py. rewrite joined_app. cbn. intros X. apply in_app_or in X as [X|[X|[]]]; [eapply KF; eauto|].
        apply (FO sk Hs). unfold known. apply in_or_app; left. subst sk. apply in_map; auto.
      * rewrite okl_app1, KL. reflexivity.
    + split; auto. intros z Hz. unfold known. rewrite Et, El, joined_app. cbn. intros X.
      apply in_app_or in X as [X|X]; [apply (FK' z Hz); unfold known; apply in_or_app; auto|].
      apply in_app_or in X as [X|[X|[]]]; [apply (FK' z Hz); unfold known; apply in_or_app; auto | subst; eapply Fresh; eauto].
  - (* add *) assert (~ In (esink x) (known s)) as Nx by (apply FO; auto). split.
    + split; rewrite ?El; auto.
      * intros y Hy Py. apply (Permutation_in _ Pm) in Hy. destruct Hy as [<-|Hy]; [|auto].
        intros X. apply Nx. unfold known. apply in_or_app; auto.
      * apply (Permutation_NoDup (l := esink x :: map esink (tabs s))).
        -- symmetry. change (esink x :: map esink (tabs s)) with (map esink (x :: tabs s)). apply Permutation_map; exact Pm.
        -- constructor; auto. intros X. apply Nx. unfold known. apply in_or_app; auto.
    + split; auto. intros z Hz. unfold known. rewrite El. intros X. apply in_app_or in X as [X|X].
      * apply (Permutation_in _ (Permutation_map esink Pm)) in X. cbn in X. destruct X as [X|X].
        -- subst z. eapply Fresh; eauto.
        -- apply (FK' z Hz). unfold known. apply in_or_app; auto.
      * apply (FK' z Hz). unfold known. apply in_or_app; auto.
  - (* replace *) split.
    + split; rewrite ?Et, ?El; auto.
      * intros y Hy Py. apply in_set_nth in Hy as [->|[j [Hn Hj]]].
        -- rewrite Es. apply KF; [eapply nth_error_In; eauto | auto].
        -- apply KF; [eapply nth_error_In; eauto | auto].
      * erewrite map_esink_set_nth; eauto.
    + split; auto. unfold known. rewrite Et, El. erewrite map_esink_set_nth; eauto.
  - (* drop handle *) split.
    + split; rewrite ?Et, ?El; auto.
      * intros y Hy Py. rewrite joined_app. cbn. apply in_set_nth in Hy as [->|[j [Hn Hj]]]; [congruence|].
        intros X. apply in_app_or in X as [X|[X|[]]].
        -- eapply KF; [eapply nth_error_In; eauto | auto | exact X].
        -- apply Hn. eapply nodup_map_inj; eauto.
      * rewrite okl_app1, KL. reflexivity.
      * erewrite map_esink_set_nth; eauto.
    + split; auto. intros z Hz. unfold known. rewrite Et, El, joined_app. erewrite map_esink_set_nth; eauto. cbn.
      intros X. apply (FK' z Hz). unfold known. apply in_app_or in X as [X|X]; [apply in_or_app; auto|].
      apply in_app_or in X as [X|[X|[]]]; [apply in_or_app; auto|]. subst z.
      apply in_or_app; left. apply in_map. eapply nth_error_In; eauto.
Qed.

Lemma K_init : K init.
Proof. split; cbn; auto. constructor. Qed.

Theorem run_K : forall ops s, Inv s -> K s -> F s ops -> forallb (fun o => negb (is_via o)) ops = true -> K (fst (run s ops)).
Proof.
  induction ops as [|o r IH]; intros s I Ks Fs V; cbn [run]; auto.
  cbn in V. apply andb_true_iff in V as [V1 V2]. apply negb_true_iff in V1.
  pose proof (step_shape s o I V1) as Sh. destruct (sim_step s o I) as [_ I1].
  destruct (shape_K s o r _ Ks Fs Sh) as [K1 F1].
  destruct (step s o) as [s1 x]; cbn [fst snd] in *.
  specialize (IH s1 I1 K1 F1 V2). destruct (run s1 r); exact IH.
Qed.

(* For every history of the global's own operations in which every installed sink is a different one: once a
   sink has been joined, nothing is delivered to it any more. *)
Theorem no_delivery_after_join : forall ops,
  NoDup (flat_map op_sinks ops) -> forallb (fun o => negb (is_via o)) ops = true ->
  forall l1 l2 sk e, log (fst (run init ops)) = l1 ++ Joined sk :: l2 -> ~ In (Recv sk e) l2.
Proof.
  intros ops ND V. apply okl_spec. apply (k_log _ (run_K ops init inv_init K_init (conj ND (fun _ _ X => X)) V)).
Qed.
