(* C17 — appends racing a detach, as a labelled transition system over the atomic actions of the code:

   try_append (no test sink):  let read = SINK.read();          acquire   (waits while the detacher holds the lock)
                               if let Some((sink, _)) = &*read   check
                                   sink.append(entry)            append    (under the read lock)
                               drop(read)                        release   -> Ok(()) / Err(entry)
   try_append (test sink on the calling thread): one action, never touches the lock.
   drop(AttachHandle):         SINK.write()                      acquire   (waits while any reader holds the lock)
                               .take()                           take
                               drop((sink, handle))              join      (still under the write lock)
                               drop(write guard)                 release

   The RwLock is modelled by its specification (readers exclude the writer and vice versa); who holds it is
   read off the program counters.  A schedule is any list of labels; a label whose action is not enabled is
   a stutter, so "for all schedules" is "for all lists of labels". *)
From Coq Require Import List NArith Bool Arith.
From MV Require Import C17.Model.
Import ListNotations.
Local Open Scope N_scope.

Inductive apc := AStart | AHeld | ASome (d : N) | ANone | AAppended | AOk | AErr.
Inductive dpc := DStart | DHeld | DTaken (x : option N) | DJoined | DDone.
Inductive who := WA (i : nat) | WD.

Record appender := mk_app { a_entry : N; a_tl : option N (* its thread-local test sink *); a_pc : apc }.
Record rs := mk_rs {
  slot : option N;
  aps : list appender;
  dp : dpc;
  rlog : list ev;
  acq : list who      (* ghost: the order in which the lock was acquired *)
}.

Definition a_holds (p : apc) : bool := match p with AHeld | ASome _ | ANone | AAppended => true | _ => false end.
Definition d_holds (p : dpc) : bool := match p with DHeld | DTaken _ | DJoined => true | _ => false end.

Definition set_app (s : rs) (i : nat) (a : appender) : list appender := set_nth (aps s) i a.

Definition rstep (s : rs) (l : who) : option rs :=
  match l with
  | WA i =>
      match nth_error (aps s) i with
      | None => None
      | Some a =>
          let upd pc := set_app s i (mk_app (a_entry a) (a_tl a) pc) in
          match a_pc a, a_tl a with
          | AStart, Some t => Some (mk_rs (slot s) (upd AOk) (dp s) (rlog s ++ [Recv t (a_entry a)]) (acq s))
          | AStart, None => if d_holds (dp s) then None
                            else Some (mk_rs (slot s) (upd AHeld) (dp s) (rlog s) (acq s ++ [WA i]))
          | AHeld, _ => Some (mk_rs (slot s) (upd (match slot s with Some d => ASome d | None => ANone end)) (dp s) (rlog s) (acq s))
          | ASome d, _ => Some (mk_rs (slot s) (upd AAppended) (dp s) (rlog s ++ [Recv d (a_entry a)]) (acq s))
          | AAppended, _ => Some (mk_rs (slot s) (upd AOk) (dp s) (rlog s) (acq s))
          | ANone, _ => Some (mk_rs (slot s) (upd AErr) (dp s) (rlog s) (acq s))
          | AOk, _ | AErr, _ => None
          end
      end
  | WD =>
      match dp s with
      | DStart => if existsb (fun a => a_holds (a_pc a)) (aps s) then None
                  else Some (mk_rs (slot s) (aps s) DHeld (rlog s) (acq s ++ [WD]))
      | DHeld => Some (mk_rs None (aps s) (DTaken (slot s)) (rlog s) (acq s))
      | DTaken x => Some (mk_rs (slot s) (aps s) DJoined (rlog s ++ match x with Some d => [Joined d] | None => [] end) (acq s))
      | DJoined => Some (mk_rs (slot s) (aps s) DDone (rlog s) (acq s))
      | DDone => None
      end
  end.

Definition rexec1 (s : rs) (l : who) : rs := match rstep s l with Some s' => s' | None => s end.
Definition rexec (s : rs) (ls : list who) : rs := fold_left rexec1 ls s.

(* d attached; one appender per (entry, optional thread-local test sink) *)
Definition rinit0 (d : N) (es : list (N * option N)) : rs :=
  mk_rs (Some d) (map (fun p => mk_app (fst p) (snd p) AStart) es) DStart [] [].

(* ---- the property, as a decidable reading of what an observer sees: outcomes and the recorders' log ---- *)
Definition ev_is_recv (d e : N) (x : ev) : bool := match x with Recv d' e' => N.eqb d d' && N.eqb e e' | _ => false end.
Definition ev_has_entry (e : N) (x : ev) : bool := match x with Recv _ e' => N.eqb e e' | _ => false end.
Definition ev_is_joined (d : N) (x : ev) : bool := match x with Joined d' => N.eqb d d' | _ => false end.
Definition ev_to (d : N) (x : ev) : bool := match x with Recv d' _ => N.eqb d d' | _ => false end.
Definition count (f : ev -> bool) (l : list ev) : nat := length (filter f l).
Fixpoint after_join (d : N) (l : list ev) : list ev :=
  match l with [] => [] | x :: r => if ev_is_joined d x then r else after_join d r end.

(* outcome of one try_append: (destination it should have had, entry, Ok?) *)
Definition outcome_ok (log : list ev) (o : N * N * bool) : bool :=
  let '(want, e, ok) := o in
  if ok then Nat.eqb (count (ev_is_recv want e) log) 1 && Nat.eqb (count (ev_has_entry e) log) 1
  else Nat.eqb (count (ev_has_entry e) log) 0.
Definition race_ok (d : N) (outs : list (N * N * bool)) (log : list ev) : bool :=
  Nat.leb (count (ev_is_joined d) log) 1 && negb (existsb (ev_to d) (after_join d log)) && forallb (outcome_ok log) outs.

(* what an observer of a final (or any) state of the system sees *)
Definition outcomes_of (d : N) (s : rs) : list (N * N * bool) :=
  flat_map (fun a => match a_pc a with
                     | AOk => [(match a_tl a with Some t => t | None => d end, a_entry a, true)]
                     | AErr => [(d, a_entry a, false)]
                     | _ => [] end) (aps s).
