(* C17 — the slot mechanism refines the guard-history specification; consequences. *)
From Coq Require Import List NArith Bool Lia Arith.
From MV Require Import C17.Model C17.Spec.
Import ListNotations.
Local Open Scope N_scope.

(* ------------------------------------------------------------------ association lists *)
Lemma lookup_remove_eq : forall k l, lookup k (remove k l) = None.
Proof.
  induction l as [|[k' v] r IH]; cbn; auto. destruct (N.eqb k k') eqn:E; auto. cbn; rewrite E; auto.
Qed.
Lemma lookup_remove_neq : forall k k' l, k <> k' -> lookup k' (remove k l) = lookup k' l.
Proof.
  induction l as [|[k2 v] r IH]; intros H; cbn; auto.
  destruct (N.eqb k k2) eqn:E.
  - apply N.eqb_eq in E; subst k2. rewrite IH by auto.
    destruct (N.eqb k' k) eqn:E2; auto. apply N.eqb_eq in E2; congruence.
  - cbn. rewrite IH by auto. reflexivity.
Qed.
Lemma lookup_insert_eq : forall k v l, lookup k (insert k v l) = Some v.
Proof. intros; unfold insert; cbn. rewrite N.eqb_refl; auto. Qed.
Lemma lookup_insert_neq : forall k k' v l, k <> k' -> lookup k' (insert k v l) = lookup k' l.
Proof.
  intros; unfold insert; cbn. destruct (N.eqb k' k) eqn:E.
  - apply N.eqb_eq in E; congruence.
  - apply lookup_remove_neq; auto.
Qed.

Lemma nth_nil_g0 : forall j, nth j (@nil gst) g0 = g0.
Proof. destruct j; reflexivity. Qed.
Lemma nth_set_nth_d : forall l i x j, nth j (set_nth_d l i x) g0 = if Nat.eqb i j then x else nth j l g0.
Proof.
  intros l i; revert l; induction i as [|i IH]; intros l x j.
  - destruct l, j; cbn; try reflexivity. destruct j; reflexivity.
  - destruct l as [|y r], j as [|j]; cbn [set_nth_d nth Nat.eqb]; try reflexivity.
    + rewrite IH, !nth_nil_g0. reflexivity.
    + apply IH.
Qed.
Lemma getg_setg : forall s g x g', getg (setg s g x) g' = if Nat.eqb g g' then x else getg s g'.
Proof. intros; unfold getg, setg; cbn. apply nth_set_nth_d. Qed.

Lemma nth_error_set_nth : forall {T} (l : list T) i x j,
  nth_error (set_nth l i x) j = if Nat.eqb i j then (match nth_error l i with Some _ => Some x | None => None end) else nth_error l j.
Proof.
  induction l as [|y r IH]; intros i x j.
  - destruct (Nat.eqb i j); destruct i, j; reflexivity.
  - destruct i as [|i]; destruct j as [|j]; cbn; auto.
Qed.
Lemma set_nth_length : forall {T} (l : list T) i x, length (set_nth l i x) = length l.
Proof. induction l; destruct i; cbn; auto. Qed.

(* ------------------------------------------------------------------ guard tables *)
Definition hit (g : nat) (i : N) (x : ent) : bool := Nat.eqb g (eg x) && N.eqb i (eid x) && epres x.
Lemma hit_true : forall g i x, hit g i x = true <-> g = eg x /\ i = eid x /\ epres x = true.
Proof.
  unfold hit; intros. rewrite !andb_true_iff, Nat.eqb_eq, N.eqb_eq. tauto.
Qed.

(* at most one override in force per (global, id) *)
Definition uniq (l : list ent) := forall i j x y,
  nth_error l i = Some x -> nth_error l j = Some y -> epres x = true -> epres y = true ->
  eg x = eg y -> eid x = eid y -> i = j.

Lemma uniq_tail : forall x l, uniq (x :: l) -> uniq l.
Proof. intros x l U i j a b Hi Hj; intros. apply (U (Datatypes.S i) (Datatypes.S j) a b) in Hi; auto. Qed.

Lemma find_none : forall g i l, find g i l = None <-> (forall k x, nth_error l k = Some x -> hit g i x = false).
Proof.
  induction l as [|y r [IH1 IH2]]; cbn [find].
  - split; auto. intros _ k x H; destruct k; discriminate.
  - fold (hit g i y). destruct (hit g i y) eqn:E; split.
    + discriminate.
    + intros H. specialize (H O y eq_refl). congruence.
    + intros H k x Hk. destruct k; cbn in Hk; [congruence|]. eapply IH1; eauto.
    + intros H. apply IH2. intros k x Hk. apply (H (Datatypes.S k)); auto.
Qed.

Lemma find_present : forall l k x, uniq l -> nth_error l k = Some x -> epres x = true ->
  find (eg x) (eid x) l = Some (esink x).
Proof.
  induction l as [|y r IH]; intros k x U Hk Hp; [destruct k; discriminate|].
  cbn. fold (hit (eg x) (eid x) y). destruct (hit (eg x) (eid x) y) eqn:E.
  - apply hit_true in E as (E1 & E2 & E3).
    assert (k = O) by (apply (U k O x y); auto). subst k. cbn in Hk. congruence.
  - destruct k as [|k]; cbn in Hk.
    + inversion Hk; subst y. unfold hit in E. rewrite Nat.eqb_refl, N.eqb_refl, Hp in E. discriminate.
    + eapply IH; eauto using uniq_tail.
Qed.

Lemma find_app : forall g i l x,
  find g i (l ++ [x]) = match find g i l with Some d => Some d | None => if hit g i x then Some (esink x) else None end.
Proof.
  induction l as [|y r IH]; intros; cbn.
  - fold (hit g i x). destruct (hit g i x); auto.
  - fold (hit g i y). destruct (hit g i y); auto.
Qed.

Lemma find_set_same : forall g i l k x x', nth_error l k = Some x ->
  eg x' = eg x -> eid x' = eid x -> esink x' = esink x -> epres x' = epres x ->
  find g i (set_nth l k x') = find g i l.
Proof.
  induction l as [|y r IH]; intros k x x' Hk E1 E2 E3 E4; [destruct k; discriminate|].
  destruct k as [|k]; cbn in *.
  - inversion Hk; subst y. rewrite E1, E2, E3, E4. reflexivity.
  - erewrite IH; eauto.
Qed.

Lemma find_set_absent : forall l k x g i, uniq l -> nth_error l k = Some x -> epres x = true ->
  find g i (set_nth l k (mk_ent (eg x) (eid x) (esink x) false false)) =
  if Nat.eqb g (eg x) && N.eqb i (eid x) then None else find g i l.
Proof.
  induction l as [|y r IH]; intros k x g i U Hk Hp; [destruct k; discriminate|].
  destruct k as [|k]; cbn in Hk.
  - inversion Hk; subst y. cbn [set_nth find epres eg eid]. rewrite andb_false_r.
    cbn [find]. rewrite Hp, andb_true_r.
    destruct (Nat.eqb g (eg x) && N.eqb i (eid x)) eqn:E; auto.
    apply find_none. intros j z Hj. destruct (hit g i z) eqn:Hz; auto.
    apply hit_true in Hz as (Z1 & Z2 & Z3). apply andb_true_iff in E as [E1 E2].
    apply Nat.eqb_eq in E1. apply N.eqb_eq in E2.
    assert (O = Datatypes.S j) by (apply (U O (Datatypes.S j) x z); auto; congruence). discriminate.
  - cbn [set_nth find]. fold (hit g i y). destruct (hit g i y) eqn:Hy.
    + apply hit_true in Hy as (Y1 & Y2 & Y3).
      destruct (Nat.eqb g (eg x) && N.eqb i (eid x)) eqn:E; auto.
      apply andb_true_iff in E as [E1 E2]. apply Nat.eqb_eq in E1. apply N.eqb_eq in E2.
      assert (Datatypes.S k = O) by (apply (U (Datatypes.S k) O x y); auto; congruence). discriminate.
    + apply IH; eauto using uniq_tail.
Qed.

Lemma uniq_app : forall l x, uniq l -> (epres x = true -> find (eg x) (eid x) l = None) -> uniq (l ++ [x]).
Proof.
  intros l x U F i j a b Hi Hj Pa Pb Eg Ei.
  assert (forall k z, nth_error (l ++ [x]) k = Some z -> (nth_error l k = Some z /\ (k < length l)%nat) \/ (k = length l /\ z = x)) as Split.
  { intros k z H. destruct (Nat.lt_ge_cases k (length l)).
    - left. rewrite nth_error_app1 in H; auto.
    - right. rewrite nth_error_app2 in H; auto. destruct (k - length l)%nat eqn:D; cbn in H.
      + inversion H. split; auto. lia.
      + destruct n; discriminate. }
  destruct (Split _ _ Hi) as [[Hi' Li]|[Li Ea]]; destruct (Split _ _ Hj) as [[Hj' Lj]|[Lj Eb]].
  - eapply U; eauto.
  - subst b. specialize (F Pb). rewrite find_none in F. specialize (F _ _ Hi').
    unfold hit in F. rewrite <- Eg, <- Ei, Nat.eqb_refl, N.eqb_refl, Pa in F. discriminate.
  - subst a. specialize (F Pa). rewrite find_none in F. specialize (F _ _ Hj').
    unfold hit in F. rewrite Eg, Ei, Nat.eqb_refl, N.eqb_refl, Pb in F. discriminate.
  - lia.
Qed.

Lemma uniq_set : forall l k x x', uniq l -> nth_error l k = Some x ->
  eg x' = eg x -> eid x' = eid x -> (epres x' = true -> epres x = true) -> uniq (set_nth l k x').
Proof.
  intros l k x x' U Hk E1 E2 E3 i j a b Hi Hj Pa Pb Eg Ei.
  rewrite nth_error_set_nth in Hi, Hj. rewrite Hk in Hi, Hj.
  destruct (Nat.eqb k i) eqn:Ki; destruct (Nat.eqb k j) eqn:Kj.
  - apply Nat.eqb_eq in Ki, Kj; congruence.
  - apply Nat.eqb_eq in Ki. inversion Hi; subst a. subst i.
    apply (U k j x b); auto; congruence.
  - apply Nat.eqb_eq in Kj. inversion Hj; subst b. subst j.
    apply (U i k a x); auto; congruence.
  - eapply U; eauto.
Qed.

(* ------------------------------------------------------------------ the invariant tying slots to guards *)
Definition table_ok (l : list ent) := uniq l /\ (forall k x, nth_error l k = Some x -> eowned x = true -> epres x = true).

Record Inv (s : st) : Prop := mk_inv {
  inv_att : forall g, att (getg s g) = find g 0 (handles s);
  inv_tls : forall g t, lookup t (tls (getg s g)) = find g t (tlg s);
  inv_rts : forall g r, lookup r (rts (getg s g)) = find g r (rtg s);
  inv_h : table_ok (handles s);
  inv_t : table_ok (tlg s);
  inv_r : table_ok (rtg s);
  inv_h0 : forall k x, nth_error (handles s) k = Some x -> eid x = 0
}.

Lemma inv_init : Inv init.
Proof.
  split; intros; cbn; try (destruct g; reflexivity);
    try (split; [intros i j x y H; destruct i; discriminate | intros k x H; destruct k; discriminate]).
  destruct k; discriminate.
Qed.

Lemma table_ok_app : forall l x, table_ok l -> (epres x = true -> find (eg x) (eid x) l = None) ->
  (eowned x = true -> epres x = true) -> table_ok (l ++ [x]).
Proof.
  intros l x [U O] F P. split; [apply uniq_app; auto|].
  intros k z H Hz. destruct (Nat.lt_ge_cases k (length l)).
  - rewrite nth_error_app1 in H; eauto.
  - rewrite nth_error_app2 in H; auto. destruct (k - length l)%nat; cbn in H; [inversion H; subst; auto|destruct n; discriminate].
Qed.
Lemma table_ok_set : forall l k x x', table_ok l -> nth_error l k = Some x ->
  eg x' = eg x -> eid x' = eid x -> (epres x' = true -> epres x = true) -> (eowned x' = true -> epres x' = true) ->
  table_ok (set_nth l k x').
Proof.
  intros l k x x' [U O] Hk E1 E2 E3 E4. split; [eapply uniq_set; eauto|].
  intros j z H Hz. rewrite nth_error_set_nth, Hk in H. destruct (Nat.eqb k j); [inversion H; subst; auto | eauto].
Qed.

Lemma try_sink_route : forall s g c, Inv s -> try_sink (getg s g) c = route (erase s) g c.
Proof.
  intros s g c I. unfold try_sink, get_test_sink, route; cbn.
  rewrite (inv_tls s I), (inv_att s I). destruct (find g (th c) (tlg s)); auto.
  destruct (rtc c); auto. rewrite (inv_rts s I). reflexivity.
Qed.

(* states that differ only in held sinks and log *)
Lemma inv_same : forall s s', Inv s -> gs s' = gs s -> handles s' = handles s -> tlg s' = tlg s -> rtg s' = rtg s -> Inv s'.
Proof.
  intros s s' [A B C H T R Z] E1 E2 E3 E4.
  split; unfold getg in *; rewrite ?E1, ?E2, ?E3, ?E4; auto.
Qed.

Definition sim (s : st) (o : op) : Prop :=
  spec_step (erase s) o = (erase (fst (step s o)), snd (step s o)) /\ Inv (fst (step s o)).

Ltac norm :=
  unfold with_rtg, with_tlg, with_handles, with_held, emit, getg, setg in *;
  cbn [gs handles tlg rtg held log] in *; rewrite ?nth_set_nth_d.

Ltac case_g g g' :=
  let E := fresh "E" in destruct (Nat.eqb g g') eqn:E; [apply Nat.eqb_eq in E; subst g'|]; cbn [att tls rts].

Lemma sim_set_rt : forall s g r sk, Inv s ->
  spec_set_rt (erase s) g r sk = (erase (fst (set_rt s g r sk)), snd (set_rt s g r sk)) /\ Inv (fst (set_rt s g r sk)).
Proof.
  intros s g r sk I. unfold set_rt, spec_set_rt. cbn [erase r_rtg r_handles r_tlg r_held r_log].
  rewrite (inv_rts s I). destruct (find g r (rtg s)) eqn:F; cbn [fst snd]; [split; auto|].
  split; [reflexivity|]. destruct I as [A B C H T R Z].
  split; [intros g' | intros g' t' | intros g' r' | | | | ]; norm; auto.
  - case_g g g'; auto.
  - case_g g g'; auto.
  - rewrite find_app. destruct (Nat.eqb g g') eqn:E; cbn [rts].
    + apply Nat.eqb_eq in E; subst g'. unfold hit; cbn. rewrite Nat.eqb_refl. cbn.
      destruct (N.eq_dec r r') as [<-|Ne].
      * rewrite F, N.eqb_refl. reflexivity.
      * destruct (N.eqb r' r) eqn:E2; [apply N.eqb_eq in E2; congruence|].
        rewrite lookup_remove_neq, C by auto. destruct (find g r' (rtg s)); auto.
    + rewrite C. destruct (find g' r' (rtg s)); auto. unfold hit; cbn.
      rewrite Nat.eqb_sym, E. reflexivity.
  - apply table_ok_app; auto.
Qed.

Lemma sim_attach : forall s g c sk, Inv s -> sim s (Attach g c sk).
Proof.
  intros s g c sk I. unfold sim, step, spec_step. cbn [erase r_rtg r_handles r_tlg r_held r_log].
  rewrite (inv_att s I). destruct (find g 0 (handles s)) eqn:F; cbn [fst snd]; [split; [reflexivity | eapply inv_same; eauto]|].
  split; [reflexivity|]. destruct I as [A B C H T R Z].
  split; [intros g' | intros g' t' | intros g' r' | | | | ]; norm; auto.
  - rewrite find_app. destruct (Nat.eqb g g') eqn:E; cbn [att].
    + apply Nat.eqb_eq in E; subst g'. rewrite F. unfold hit; cbn. rewrite Nat.eqb_refl. reflexivity.
    + rewrite A. destruct (find g' 0 (handles s)); auto. unfold hit; cbn. rewrite Nat.eqb_sym, E. reflexivity.
  - case_g g g'; auto.
  - case_g g g'; auto.
  - apply table_ok_app; auto.
  - intros k x Hk. destruct (Nat.lt_ge_cases k (length (handles s))).
    + rewrite nth_error_app1 in Hk; eauto.
    + rewrite nth_error_app2 in Hk; auto. destruct (k - length (handles s))%nat; cbn in Hk; [inversion Hk; reflexivity | destruct n; discriminate].
Qed.

Lemma sim_set_tl : forall s g c sk, Inv s -> sim s (SetTL g c sk).
Proof.
  intros s g c sk I. unfold sim, step, spec_step. cbn [erase r_rtg r_handles r_tlg r_held r_log].
  rewrite (inv_tls s I). destruct (find g (th c) (tlg s)) eqn:F; cbn [fst snd]; [split; auto|].
  split; [reflexivity|]. destruct I as [A B C H T R Z].
  split; [intros g' | intros g' t' | intros g' r' | | | | ]; norm; auto.
  - case_g g g'; auto.
  - rewrite find_app. destruct (Nat.eqb g g') eqn:E; cbn [tls].
    + apply Nat.eqb_eq in E; subst g'. unfold hit; cbn. rewrite Nat.eqb_refl. cbn.
      destruct (N.eq_dec (th c) t') as [<-|Ne].
      * rewrite F, N.eqb_refl. reflexivity.
      * destruct (N.eqb t' (th c)) eqn:E2; [apply N.eqb_eq in E2; congruence|].
        rewrite lookup_remove_neq, B by auto. destruct (find g t' (tlg s)); auto.
    + rewrite B. destruct (find g' t' (tlg s)); auto. unfold hit; cbn.
      rewrite Nat.eqb_sym, E. reflexivity.
  - case_g g g'; auto.
  - apply table_ok_app; auto.
Qed.

Lemma sim_drop_handle : forall s c h, Inv s -> sim s (DropHandle c h).
Proof.
  intros s c h I. unfold sim, step, spec_step, end_guard. cbn [erase r_rtg r_handles r_tlg r_held r_log].
  destruct (nth_error (handles s) h) as [[g i sk p ow]|] eqn:Hh; cbn [fst snd eowned]; [|split; auto].
  destruct ow; cbn [fst snd]; [|split; auto].
  destruct I as [A B C [UH OH] T R Z].
  assert (p = true) as -> by (apply (OH _ _ Hh); reflexivity).
  assert (i = 0) as -> by (apply (Z _ _ Hh)).
  assert (find g 0 (handles s) = Some sk) as F by (apply (find_present _ _ _ UH Hh); reflexivity).
  rewrite A, F. split; [norm; reflexivity|].
  split; [intros g' | intros g' t' | intros g' r' | | | | ]; norm; auto.
  - pose proof (find_set_absent _ _ _ g' 0 UH Hh eq_refl) as FA. cbn [eg eid esink] in FA. rewrite FA.
    rewrite (Nat.eqb_sym g' g). destruct (Nat.eqb g g') eqn:E; cbn [att andb]; auto.
  - case_g g g'; auto.
  - case_g g g'; auto.
  - apply (table_ok_set _ h (mk_ent g 0 sk true true)); [split; auto | exact Hh | reflexivity | reflexivity | discriminate | discriminate].
  - intros k x Hk. rewrite nth_error_set_nth, Hh in Hk. destruct (Nat.eqb h k); [inversion Hk; reflexivity | eauto].
Qed.

Lemma sim_forget : forall s c h, Inv s -> sim s (ForgetHandle c h).
Proof.
  intros s c h I. unfold sim, step, spec_step. cbn [erase r_rtg r_handles r_tlg r_held r_log].
  destruct (nth_error (handles s) h) as [[g i sk p ow]|] eqn:Hh; cbn [fst snd eowned]; [|split; auto].
  destruct ow; cbn [fst snd]; [|split; auto].
  split; [reflexivity|]. destruct I as [A B C [UH OH] T R Z].
  split; [intros g' | intros g' t' | intros g' r' | | | | ]; norm; auto.
  - rewrite A. symmetry. eapply find_set_same; eauto.
  - apply (table_ok_set _ h (mk_ent g i sk p true)); [split; auto | exact Hh | reflexivity | reflexivity | auto | discriminate].
  - intros k x Hk. rewrite nth_error_set_nth, Hh in Hk. destruct (Nat.eqb h k); [inversion Hk; cbn; apply (Z _ _ Hh) | eauto].
Qed.

Lemma sim_drop_tl : forall s k, Inv s -> sim s (DropTL k).
Proof.
  intros s k I. unfold sim, step, spec_step, end_guard. cbn [erase r_rtg r_handles r_tlg r_held r_log].
  destruct (nth_error (tlg s) k) as [[g t sk p ow]|] eqn:Hk; cbn [fst snd eowned]; [|split; auto].
  destruct ow; cbn [fst snd]; [|split; auto].
  split; [reflexivity|]. destruct I as [A B C H [UT OT] R Z].
  assert (p = true) as -> by (apply (OT _ _ Hk); reflexivity).
  split; [intros g' | intros g' t' | intros g' r' | | | | ]; norm; auto.
  - case_g g g'; auto.
  - pose proof (find_set_absent _ _ _ g' t' UT Hk eq_refl) as FA. cbn [eg eid esink] in FA. rewrite FA.
    rewrite (Nat.eqb_sym g' g). destruct (Nat.eqb g g') eqn:E; cbn [tls andb]; auto.
    apply Nat.eqb_eq in E; subst g'.
    destruct (N.eqb t' t) eqn:E2.
    + apply N.eqb_eq in E2; subst t'. apply lookup_remove_eq.
    + rewrite lookup_remove_neq; auto. intros ->. rewrite N.eqb_refl in E2; discriminate.
  - case_g g g'; auto.
  - apply (table_ok_set _ k (mk_ent g t sk true true)); [split; auto | exact Hk | reflexivity | reflexivity | discriminate | discriminate].
Qed.

Lemma sim_drop_rt : forall s c k, Inv s -> sim s (DropRT c k).
Proof.
  intros s c k I. unfold sim, step, spec_step, end_guard. cbn [erase r_rtg r_handles r_tlg r_held r_log].
  destruct (nth_error (rtg s) k) as [[g r sk p ow]|] eqn:Hk; cbn [fst snd eowned]; [|split; auto].
  destruct ow; cbn [fst snd]; [|split; auto].
  split; [reflexivity|]. destruct I as [A B C H T [UR OR] Z].
  assert (p = true) as -> by (apply (OR _ _ Hk); reflexivity).
  split; [intros g' | intros g' t' | intros g' r' | | | | ]; norm; auto.
  - case_g g g'; auto.
  - case_g g g'; auto.
  - pose proof (find_set_absent _ _ _ g' r' UR Hk eq_refl) as FA. cbn [eg eid esink] in FA. rewrite FA.
    rewrite (Nat.eqb_sym g' g). destruct (Nat.eqb g g') eqn:E; cbn [rts andb]; auto.
    apply Nat.eqb_eq in E; subst g'.
    destruct (N.eqb r' r) eqn:E2.
    + apply N.eqb_eq in E2; subst r'. apply lookup_remove_eq.
    + rewrite lookup_remove_neq; auto. intros ->. rewrite N.eqb_refl in E2; discriminate.
  - apply (table_ok_set _ k (mk_ent g r sk true true)); [split; auto | exact Hk | reflexivity | reflexivity | discriminate | discriminate].
Qed.

Theorem sim_step : forall s o, Inv s -> sim s o.
Proof.
  intros s o I. destruct o;
    try solve [ auto using sim_attach, sim_set_tl, sim_drop_handle, sim_forget, sim_drop_tl, sim_drop_rt ].
  - (* SetRT *) apply sim_set_rt; auto.
  - (* SetRTCur *) unfold sim, step, spec_step. destruct (rtc c); [apply sim_set_rt; auto | split; auto].
  - (* Append *) unfold sim, step, spec_step. rewrite try_sink_route by auto.
    destruct (route (erase s) g c); cbn [fst snd]; split; auto. eapply inv_same; eauto.
  - (* TryAppend *) unfold sim, step, spec_step. rewrite try_sink_route by auto.
    destruct (route (erase s) g c); cbn [fst snd]; split; auto. eapply inv_same; eauto.
  - (* Sink *) unfold sim, step, spec_step. rewrite try_sink_route by auto.
    destruct (route (erase s) g c); cbn [fst snd]; split; auto. eapply inv_same; eauto.
  - (* TrySink *) unfold sim, step, spec_step. rewrite try_sink_route by auto.
    destruct (route (erase s) g c); cbn [fst snd]; split; auto. eapply inv_same; eauto.
  - (* AppendVia *) unfold sim, step, spec_step. cbn [erase r_held].
    destruct (nth_error (held s) k); cbn [fst snd]; split; auto. eapply inv_same; eauto.
  - (* IsAttached *) unfold sim, step, spec_step. rewrite try_sink_route by auto. split; auto.
  - (* WithTL *) unfold sim, step, spec_step. cbn [erase r_tlg]. rewrite (inv_tls s I).
    destruct (find g (th c) (tlg s)); cbn [fst snd]; split; auto. eapply inv_same; eauto.
Qed.

(* every operation sequence: same results, same log, same guard history *)
Theorem run_refines : forall ops s, Inv s ->
  spec_run (erase s) ops = (erase (fst (run s ops)), snd (run s ops)) /\ Inv (fst (run s ops)).
Proof.
  induction ops as [|o r IH]; intros s I; cbn [run spec_run]; [split; auto|].
  destruct (sim_step s o I) as [E I1]. rewrite E.
  destruct (step s o) as [s1 x]; cbn [fst snd] in *.
  destruct (IH s1 I1) as [E2 I2]. rewrite E2.
  destruct (run s1 r) as [s2 xs]; cbn [fst snd] in *. split; auto.
Qed.

(* ------------------------------------------------------------------ consequences *)

Definition reach (s : st) := exists ops, s = fst (run init ops).
Lemma reach_inv : forall s, reach s -> Inv s.
Proof. intros s [ops ->]. apply (run_refines ops init inv_init). Qed.

(* a panicking (or refusing) operation leaves every slot and every guard as it was: nothing is poisoned, nothing
   half-installed; the only trace is that unwinding drops the sink a rejected attach was given *)
Definition rejected (o : op) : list ev := match o with Attach _ _ sk => [Joined sk] | _ => [] end.
Lemma emit_nil : forall s, emit s [] = s.
Proof. destruct s; unfold emit; cbn. rewrite app_nil_r; reflexivity. Qed.
Theorem panic_preserves : forall s o, (snd (step s o) = RPanic \/ exists e, snd (step s o) = RErr e) ->
  fst (step s o) = emit s (rejected o).
Proof.
  intros s o H.
  destruct o; cbn [step rejected] in *; unfold set_rt in *; rewrite ?emit_nil;
    repeat match goal with
    | |- context [match ?x with _ => _ end] => destruct x eqn:?; cbn [fst snd] in *
    | H : context [match ?x with _ => _ end] |- _ => destruct x eqn:?; cbn [fst snd] in *
    end; try reflexivity;
    try (exfalso; destruct H as [H|[e' H]]; cbn in H; discriminate).
Qed.

(* the log is write-only: no operation's result or effect on slots and guards depends on it *)
Definition set_log (s : st) (l : list ev) : st := mk_st (gs s) (handles s) (tlg s) (rtg s) (held s) l.
Definition routing (s : st) := (gs s, handles s, tlg s, rtg s, held s).
Lemma skipn_app_exact : forall {T} (a b : list T), skipn (length a) (a ++ b) = b.
Proof. induction a; cbn; auto. Qed.
Lemma skipn_all_exact : forall {T} (a : list T), skipn (length a) a = [].
Proof. induction a; cbn; auto. Qed.
Lemma step_set_log : forall s l o,
  step (set_log s l) o =
  (set_log (fst (step s o)) (l ++ skipn (length (log s)) (log (fst (step s o)))), snd (step s o)).
Proof.
  intros s l o. destruct o; cbn [step]; unfold set_rt, getg, set_log; cbn [gs handles tlg rtg held log];
    repeat match goal with
    | |- context [match ?x with _ => _ end] => destruct x eqn:?; cbn [fst snd]
    end; norm; cbn [fst snd gs handles tlg rtg held log];
    rewrite ?skipn_app_exact, ?skipn_all_exact, ?app_nil_r; reflexivity.
Qed.
Lemma run_set_log : forall ops s l,
  snd (run (set_log s l) ops) = snd (run s ops) /\ routing (fst (run (set_log s l) ops)) = routing (fst (run s ops)).
Proof.
  induction ops as [|o r IH]; intros s l; cbn [run]; [split; reflexivity|].
  rewrite step_set_log. destruct (step s o) as [s1 x]; cbn [fst snd].
  destruct (IH s1 (l ++ skipn (length (log s)) (log s1))) as [E1 E2].
  destruct (run (set_log s1 _) r) as [s2 xs]; destruct (run s1 r) as [s3 ys]; cbn [fst snd] in *.
  split; congruence.
Qed.

(* so the rest of a history runs as if the panicking operation had never been issued *)
Corollary panic_is_skipped : forall s o ops,
  (snd (step s o) = RPanic \/ exists e, snd (step s o) = RErr e) ->
  snd (run s (o :: ops)) = snd (step s o) :: snd (run s ops) /\
  routing (fst (run s (o :: ops))) = routing (fst (run s ops)).
Proof.
  intros s o ops H. cbn [run]. pose proof (panic_preserves s o H) as E.
  destruct (step s o) as [s1 x]; cbn [fst snd] in *; subst s1.
  change (emit s (rejected o)) with (set_log s (log s ++ rejected o)).
  destruct (run_set_log ops s (log s ++ rejected o)) as [E1 E2].
  destruct (run (set_log s _) ops) as [s2 xs]; cbn [fst snd] in *. split; congruence.
Qed.

(* precedence, on every reachable state: thread-local test sink, else the current runtime's, else the attached
   sink, else the entry comes back (try_append) / the call panics (append, sink()) *)
Definition precedence (s : st) (g : nat) (c : ctx) : option N :=
  match find g (th c) (tlg s) with
  | Some d => Some d
  | None => match match rtc c with Some r => find g r (rtg s) | None => None end with
            | Some d => Some d
            | None => find g 0 (handles s)
            end
  end.
Theorem precedence_holds : forall s g c e, reach s ->
  step s (TryAppend g c e) = match precedence s g c with Some d => (emit s [Recv d e], ROk d) | None => (s, RErr e) end /\
  step s (Append g c e) = match precedence s g c with Some d => (emit s [Recv d e], ROk d) | None => (s, RPanic) end /\
  step s (Sink g c) = match precedence s g c with Some d => (with_held s (held s ++ [d]), ROk (of_len (held s))) | None => (s, RPanic) end /\
  step s (IsAttached g c) = (s, ROk (match precedence s g c with Some _ => 1 | None => 0 end)).
Proof.
  intros s g c e R. apply reach_inv in R. cbn [step]. rewrite (try_sink_route s g c R).
  change (route (erase s) g c) with (precedence s g c). repeat split; reflexivity.
Qed.

(* exactly one destination: an append-like operation adds exactly one Recv (to the sink it reports) or nothing;
   only a handle drop adds a Joined; nothing else touches the log *)
Definition log_effect (o : op) (r : res) : list ev :=
  match o, r with
  | (Append _ _ e | TryAppend _ _ e | AppendVia _ _ e | WithTL _ _ _ e), ROk d => [Recv d e]
  | _, _ => []
  end.
Theorem exactly_one : forall s o,
  match o with
  | DropHandle _ _ | Attach _ _ _ => exists j, log (fst (step s o)) = log s ++ j /\ (j = [] \/ exists sk, j = [Joined sk])
  | _ => log (fst (step s o)) = log s ++ log_effect o (snd (step s o))
  end.
Proof.
  intros s o; destruct o; cbn [step]; unfold set_rt;
    repeat match goal with
    | |- context [match ?x with _ => _ end] => destruct x eqn:?; cbn [fst snd log_effect]
    end; norm; rewrite ?app_nil_r; try reflexivity.
  - eexists; split; [reflexivity | right; eauto].
  - exists []; rewrite app_nil_r; auto.
  - eexists; split; [reflexivity | right; eauto].
  - exists []; rewrite app_nil_r; auto.
  - exists []; rewrite app_nil_r; auto.
  - exists []; rewrite app_nil_r; auto.
Qed.

(* restore: dropping a guard ends exactly its override; routing falls through to the next destination *)
Theorem restore_tl : forall s k x, reach s -> nth_error (tlg s) k = Some x -> eowned x = true ->
  let s' := fst (step s (DropTL k)) in
  forall g c, precedence s' g c =
    if Nat.eqb g (eg x) && N.eqb (th c) (eid x)
    then match match rtc c with Some r => find g r (rtg s) | None => None end with
         | Some d => Some d | None => find g 0 (handles s) end
    else precedence s g c.
Proof.
  intros s k x R Hk Ho s' g c. apply reach_inv in R. subst s'.
  destruct R as [A B C H [UT OT] RR Z]. pose proof (OT _ _ Hk Ho) as Hp.
  destruct x as [xg xt xs xp xo]; cbn in Ho, Hp; subst xp xo.
  unfold precedence. cbn [step]. rewrite Hk. norm. cbn [fst tlg rtg handles].
  pose proof (find_set_absent _ _ _ g (th c) UT Hk eq_refl) as FA. cbn [eg eid esink] in FA. rewrite FA.
  cbn [eg eid]. destruct (Nat.eqb g xg && N.eqb (th c) xt); reflexivity.
Qed.
Theorem restore_rt : forall s c0 k x, reach s -> nth_error (rtg s) k = Some x -> eowned x = true ->
  let s' := fst (step s (DropRT c0 k)) in
  forall g c, precedence s' g c =
    match find g (th c) (tlg s) with
    | Some d => Some d
    | None => match rtc c with
              | Some r => if Nat.eqb g (eg x) && N.eqb r (eid x) then find g 0 (handles s)
                          else match find g r (rtg s) with Some d => Some d | None => find g 0 (handles s) end
              | None => find g 0 (handles s)
              end
    end.
Proof.
  intros s c0 k x R Hk Ho s' g c. apply reach_inv in R. subst s'.
  destruct R as [A B C H T [UR OR] Z]. pose proof (OR _ _ Hk Ho) as Hp.
  destruct x as [xg xr xs xp xo]; cbn in Ho, Hp; subst xp xo.
  unfold precedence. cbn [step]. rewrite Hk. norm. cbn [fst tlg rtg handles].
  destruct (find g (th c) (tlg s)); auto. destruct (rtc c) as [r|]; auto.
  pose proof (find_set_absent _ _ _ g r UR Hk eq_refl) as FA. cbn [eg eid esink] in FA. rewrite FA.
  cbn [eg eid]. destruct (Nat.eqb g xg && N.eqb r xr); reflexivity.
Qed.
(* an attach handle: the log records that the sink it attached was dropped (joined), and the global has no
   attached sink afterwards, whatever test sinks are in force *)
Theorem restore_handle : forall s c0 h x, reach s -> nth_error (handles s) h = Some x -> eowned x = true ->
  let s' := fst (step s (DropHandle c0 h)) in
  log s' = log s ++ [Joined (esink x)] /\
  att (getg s (eg x)) = Some (esink x) /\
  forall g c, precedence s' g c =
    match find g (th c) (tlg s) with
    | Some d => Some d
    | None => match match rtc c with Some r => find g r (rtg s) | None => None end with
              | Some d => Some d
              | None => if Nat.eqb g (eg x) then None else find g 0 (handles s)
              end
    end.
Proof.
  intros s c0 h x R Hh Ho s'. apply reach_inv in R. subst s'.
  destruct R as [A B C [UH OH] T RR Z]. pose proof (OH _ _ Hh Ho) as Hp. pose proof (Z _ _ Hh) as Hz.
  destruct x as [xg xi xs xp xo]; cbn in Ho, Hp, Hz; subst xp xo xi.
  assert (find xg 0 (handles s) = Some xs) as F by (apply (find_present _ _ _ UH Hh); reflexivity).
  cbn [step]. rewrite Hh. cbn [eg esink fst]. rewrite A, F. split; [norm; reflexivity|]. split; [reflexivity|].
  intros g c. unfold precedence. norm. cbn [fst tlg rtg handles].
  destruct (find g (th c) (tlg s)); auto.
  destruct (match rtc c with Some r => find g r (rtg s) | None => None end); auto.
  pose proof (find_set_absent _ _ _ g 0 UH Hh eq_refl) as FA. cbn [eg eid esink] in FA. rewrite FA.
  cbn. rewrite andb_true_r. reflexivity.
Qed.
