(* C01 — entry points of the extracted driver. *)
(* DISPATCH 100 c01_model *)
(* DISPATCH 101 c01_holds *)
From Coq Require Import List ZArith NArith Bool Arith.
From MV Require Import Common.Sx Queue.Model Queue.Spec Queue.Wire Queue.ExitComplete.
Import ListNotations.

(* the mechanism model replayed on the recorded schedule: per label (writer pc, data word, events) *)
Definition c01_model (x : sx) : sx := q_model x.

(* unscheduled runs: thread t appended (t,0) .. (t,n-1) in this order *)
Definition thread_seq (t : N) (n : nat) : list ent := map (fun i => (t, N.of_nat i)) (seq 0 n).
Definition stress_events (i : sx) : list ev := flat_map (fun e => opt_list (dec_ev e)) (sx_list (sx_nth i 0)).

Definition c01_stress_spec (case i : sx) : bool :=
  let threads := sx_nat (sx_arg case 2) in
  let per := sx_nat (sx_arg case 3) in
  let log := stress_events i in
  let d := nexts log in
  forallb (fun t => is_subseq (by_thread (N.of_nat t) d) (thread_seq (N.of_nat t) per)) (seq 1 threads) &&
  forallb (fun e => (N.leb 1 (fst e)) && (N.leb (fst e) (N.of_nat threads))) d &&
  nodup_ent d &&
  reports_ok false log && nothing_after_drop log &&
  (* ample capacity: nothing overflowed, so after the shutdown everything was delivered *)
  (if Nat.ltb (threads * per) (sx_nat (sx_arg case 0)) then Nat.eqb (length d) (threads * per) else true).

(* property predicate on (case impl) *)
Definition c01_holds (x : sx) : sx :=
  let case := sx_nth x 0 in let i := sx_nth x 1 in
  of_bool match sx_tag case with
          | 0%Z => c01_spec (sx_bool (sx_arg case 1)) (pushes (all_labels case)) (impl_events i) &&
                   (* the writer ended without a shutdown request, nothing displaced, drain complete: everything delivered *)
                   exit_complete_b (all_labels case) (impl_events i)
          | _ => c01_stress_spec case i
          end.
