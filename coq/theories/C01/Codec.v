(* C01 — entry points of the extracted driver. *)
(* DISPATCH 100 c01_model *)
From MV Require Import Common.Sx Queue.Model Queue.Wire.

(* the mechanism model replayed on the recorded schedule: per label (writer pc, data word, events) *)
Definition c01_model (x : sx) : sx := q_model x.
