(* S-expressions over integers and byte strings: the wire format shared by the Rust harness,
   the extracted OCaml driver and the in-Coq (vm_compute) evaluation of the models. *)
From Coq Require Import List ZArith NArith Bool.
Import ListNotations.

Inductive sx : Type :=
| A (z : Z)
| B (b : list N)
| L (l : list sx).

Definition bytes := list N.

Definition sx_z (x : sx) : Z := match x with A z => z | _ => 0%Z end.
Definition sx_n (x : sx) : N := Z.to_N (sx_z x).
Definition sx_nat (x : sx) : nat := Z.to_nat (sx_z x).
Definition sx_bool (x : sx) : bool := negb (Z.eqb (sx_z x) 0).
Definition sx_bytes (x : sx) : bytes := match x with B b => b | _ => [] end.
Definition sx_list (x : sx) : list sx := match x with L l => l | _ => [] end.
Definition sx_nth (x : sx) (i : nat) : sx := nth i (sx_list x) (L []).
(* tagged node: (tag a b c) *)
Definition sx_tag (x : sx) : Z := match x with L (A t :: _) => t | A t => t | _ => (-1)%Z end.
Definition sx_args (x : sx) : list sx := match x with L (_ :: r) => r | _ => [] end.
Definition sx_arg (x : sx) (i : nat) : sx := nth i (sx_args x) (L []).

Definition of_n (n : N) : sx := A (Z.of_N n).
Definition of_nat (n : nat) : sx := A (Z.of_nat n).
Definition of_bool (b : bool) : sx := A (if b then 1 else 0)%Z.
Definition of_option {T} (f : T -> sx) (o : option T) : sx :=
  match o with None => L [] | Some x => L [f x] end.
Definition sx_option {T} (f : sx -> T) (x : sx) : option T :=
  match x with L [y] => Some (f y) | _ => None end.
Definition tagged (t : Z) (args : list sx) : sx := L (A t :: args).
