(* Byte strings: literals, decimal rendering of naturals (itoa), comparison. *)
From Coq Require Import List NArith ZArith Ascii String Bool DecimalString Decimal.
From MV Require Import Common.Sx.
Import ListNotations.
Local Open Scope N_scope.

Definition bs (s : string) : bytes := map N_of_ascii (list_ascii_of_string s).
Arguments bs s%string_scope.

(* itoa: shortest decimal, no leading zeros, "0" for zero *)
Fixpoint bytes_of_uint (u : Decimal.uint) : bytes :=
  match u with
  | Nil => []
  | D0 r => 48 :: bytes_of_uint r | D1 r => 49 :: bytes_of_uint r | D2 r => 50 :: bytes_of_uint r
  | D3 r => 51 :: bytes_of_uint r | D4 r => 52 :: bytes_of_uint r | D5 r => 53 :: bytes_of_uint r
  | D6 r => 54 :: bytes_of_uint r | D7 r => 55 :: bytes_of_uint r | D8 r => 56 :: bytes_of_uint r
  | D9 r => 57 :: bytes_of_uint r
  end.
Definition render_dec (n : N) : bytes := bytes_of_uint (N.to_uint n).

Fixpoint bytes_eqb (a b : bytes) : bool :=
  match a, b with
  | [], [] => true
  | x :: a', y :: b' => N.eqb x y && bytes_eqb a' b'
  | _, _ => false
  end.

(* lexicographic order on bytes: Rust's Ord for str *)
Fixpoint bytes_leb (a b : bytes) : bool :=
  match a, b with
  | [], _ => true
  | _ :: _, [] => false
  | x :: a', y :: b' => if N.ltb x y then true else if N.ltb y x then false else bytes_leb a' b'
  end.

Fixpoint ends_with (s suffix : bytes) : bool :=
  if bytes_eqb s suffix then true else match s with [] => false | _ :: r => ends_with r suffix end.

Definition strip_suffix (s suffix : bytes) : bytes :=
  if ends_with s suffix && Nat.leb (List.length suffix) (List.length s) then firstn (List.length s - List.length suffix) s else s.
