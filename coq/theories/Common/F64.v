(* IEEE-754 binary64 values as bit patterns (N < 2^64), with the few operations the models need.
   Classification and clamping work on the bits; division and integer conversion use Flocq's computable
   correctly rounded operations. *)
From Coq Require Import ZArith NArith Bool.
From Flocq Require Import Core.Core IEEE754.Binary IEEE754.Bits.
From Flocq Require IEEE754.BinarySingleNaN.
Notation mode_NE := BinarySingleNaN.mode_NE.
Local Open Scope N_scope.

Definition f64_exp (b : N) : N := N.land (N.shiftr b 52) 2047.
Definition f64_mant (b : N) : N := N.land b 4503599627370495.       (* 2^52 - 1 *)
Definition f64_sign (b : N) : bool := N.testbit b 63.
Definition f64_is_nan (b : N) : bool := N.eqb (f64_exp b) 2047 && negb (N.eqb (f64_mant b) 0).
Definition f64_is_inf (b : N) : bool := N.eqb (f64_exp b) 2047 && N.eqb (f64_mant b) 0.
Definition f64_max_bits : N := 9218868437227405311.                  (* 0x7FEFFFFFFFFFFFFF *)
Definition f64_neg_max_bits : N := 18442240474082181119.             (* 0xFFEFFFFFFFFFFFFF *)
Definition f64_zero_bits : N := 0.

(* f64::clamp(-MAX, MAX) followed by the is_finite test: None for NaN *)
Definition clamp_to_finite (b : N) : option N :=
  if f64_is_nan b then None
  else if f64_is_inf b then Some (if f64_sign b then f64_neg_max_bits else f64_max_bits)
  else Some b.

Definition b64_of_N (b : N) : binary64 := b64_of_bits (Z.of_N b).
Definition N_of_b64 (x : binary64) : N := Z.to_N (bits_of_b64 x).

(* `n as f64` for an unsigned integer: round to nearest, ties to even *)
Definition f64_of_u64 (n : N) : binary64 :=
  Binary.binary_normalize 53 1024 (eq_refl _) (eq_refl _) mode_NE (Z.of_N n) 0 false.

(* total / (occ as f64) *)
Definition f64_div_bits (a : N) (d : N) : N :=
  N_of_b64 (b64_div mode_NE (b64_of_N a) (f64_of_u64 d)).

(* Duration::as_secs_f64 for a duration given in nanoseconds: (secs as f64) + (nanos as f64) / 1e9 *)
Definition f64_of_duration_nanos (d : N) : binary64 :=
  b64_plus mode_NE (f64_of_u64 (d / 1000000000)) (b64_div mode_NE (f64_of_u64 (d mod 1000000000)) (f64_of_u64 1000000000)).
Definition f64_secs_bits (d : N) : N := N_of_b64 (f64_of_duration_nanos d).
(* duration.as_secs_f64() * 1000.0 *)
Definition f64_millis_bits (d : N) : N := N_of_b64 (b64_mult mode_NE (f64_of_duration_nanos d) (f64_of_u64 1000)).
