(* The only file with extraction commands. ExtrOcamlBasic only: bool, option, unit, list, prod,
   sumbool, sumor are mapped to their OCaml counterparts; numbers stay Coq's inductive N / Z / positive. *)
From Coq Require Extraction.
From Coq Require Import ExtrOcamlBasic.
From MV Require Import Extract.Dispatch.
Extraction Language OCaml.
Extraction "model.ml" dispatch.
