(* One entry point for the extracted driver and for in-Coq evaluation: code -> function on s-expressions. *)
From Coq Require Import List ZArith NArith.
From MV Require Import Common.Sx.
From MV Require C18.Codec.
Import ListNotations.

Definition dispatch (code : N) (x : sx) : sx :=
  match code with
  | 1800%N => C18.Codec.c18_run x
  | 1801%N => C18.Codec.c18_spec x
  | _ => L []
  end.
