(* C18 — mechanism model of metrique/src/timers.rs: Stopwatch, its guards, Timer.
   Durations and instants are nanosecond counts in N (the manually advanced time source). *)
From Coq Require Import List NArith ZArith Bool.
From MV Require Import Common.F64.
Import ListNotations.
Local Open Scope N_scope.

Inductive op :=
| Adv (d : N)            (* advance the injected clock *)
| StartB                 (* Stopwatch::start        -> borrowed TimerGuard *)
| StartO                 (* Stopwatch::start_owned  -> OwnedTimerGuard *)
| Stop (g : nat)         (* guard.stop() or drop(guard): both run stop_ref then Drop *)
| Overwrite (g : nat)    (* guard.overwrite() *)
| Discard (g : nat)      (* guard.discard() *)
| Clear.                 (* Stopwatch::clear *)

(* MaybeGuardedDuration *)
Inductive cell := Exclusive (d : option N) | Shared (d : option N).

Definition cell_take (c : cell) : cell :=
  match c with Exclusive _ => Exclusive None | Shared _ => Shared None end.
Definition odef (o : option N) : N := match o with Some x => x | None => 0 end.
Definition cell_add (c : cell) (rhs : N) : cell :=
  match c with
  | Exclusive d => Exclusive (Some (odef d + rhs))
  | Shared d => Shared (Some (odef d + rhs))
  end.
(* shared_cloned: the first owned guard moves the stored duration into the shared cell *)
Definition cell_share (c : cell) : cell :=
  match c with Exclusive d => Shared d | Shared d => Shared d end.

Record sw := mk_sw {
  now : N;
  sw_start : option N;          (* Stopwatch.start: never set by any method, only taken by clear *)
  dur : cell;                   (* Stopwatch.duration (and the Arc it shares with owned guards) *)
  guards : list (option N)      (* k-th created guard: Some start while live, None once consumed *)
}.

Definition sw_init : sw := mk_sw 0 None (Exclusive None) [].

Fixpoint set_nth {T} (l : list T) (i : nat) (x : T) : list T :=
  match l, i with
  | [], _ => []
  | _ :: r, O => x :: r
  | y :: r, Datatypes.S j => y :: set_nth r j x
  end.

Definition guard_start (s : sw) (g : nat) : option N :=
  match nth_error (guards s) g with Some (Some t) => Some t | _ => None end.

Definition consume (s : sw) (g : nat) (c : cell) : sw :=
  mk_sw (now s) (sw_start s) c (set_nth (guards s) g None).

Definition step (s : sw) (o : op) : sw :=
  match o with
  | Adv d => mk_sw (now s + d) (sw_start s) (dur s) (guards s)
  | StartB => mk_sw (now s) (sw_start s) (dur s) (guards s ++ [Some (now s)])
  | StartO => mk_sw (now s) (sw_start s) (cell_share (dur s)) (guards s ++ [Some (now s)])
  | Stop g =>
      match guard_start s g with
      | Some t => consume s g (cell_add (dur s) (now s - t))       (* stop_ref; Drop adds self_time *)
      | None => s
      end
  | Overwrite g =>
      match guard_start s g with
      | Some t => consume s g (cell_add (cell_take (dur s)) (now s - t))  (* take(); then Drop adds *)
      | None => s
      end
  | Discard g =>
      match guard_start s g with
      | Some _ => consume s g (dur s)                              (* both fields taken: Drop adds nothing *)
      | None => s
      end
  | Clear => mk_sw (now s) None (cell_take (dur s)) (guards s)
  end.

(* CloseValue for &Stopwatch *)
Definition sw_close (s : sw) : option N :=
  match dur s with
  | Exclusive (Some d) => Some d
  | Shared d => d
  | Exclusive None => match sw_start s with Some t => Some (now s - t) | None => None end
  end.

Definition run (ops : list op) : sw := fold_left step ops sw_init.

(* the value observable after every prefix of the operation sequence *)
Fixpoint observe (s : sw) (ops : list op) : list (option N) :=
  match ops with
  | [] => []
  | o :: r => let s' := step s o in sw_close s' :: observe s' r
  end.

(* ---- Timer ---- *)
Inductive top := TAdv (d : N) | TStop.
Record timer := mk_timer { t_now : N; t_start : N; t_dur : option N }.
Definition timer_init (t0 : N) : timer := mk_timer t0 t0 None.
Definition tstep (t : timer) (o : top) : timer :=
  match o with
  | TAdv d => mk_timer (t_now t + d) (t_start t) (t_dur t)
  | TStop => match t_dur t with
             | Some _ => t
             | None => mk_timer (t_now t) (t_start t) (Some (t_now t - t_start t))
             end
  end.
Definition timer_close (t : timer) : N :=
  match t_dur t with Some d => d | None => t_now t - t_start t end.
Fixpoint tobserve (t : timer) (ops : list top) : list N :=
  match ops with
  | [] => []
  | o :: r => let t' := tstep t o in timer_close t' :: tobserve t' r
  end.

(* ---- Timestamps ----
   The injected wall clock is a signed nanosecond count relative to the epoch.  `Timestamp` samples it at creation,
   `TimestampOnClose` at close; both close to `duration_since(UNIX_EPOCH).unwrap_or_default()`. *)
Definition since_epoch (wall : Z) : N := if (wall <? 0)%Z then 0 else Z.to_N wall.
(* mode: false = Timestamp (at creation), true = TimestampOnClose *)
Definition ts_value (on_close : bool) (wall_at_creation wall_at_close : Z) : N :=
  since_epoch (if on_close then wall_at_close else wall_at_creation).
(* the three epoch formats: integer microseconds; seconds and milliseconds as binary64 values *)
Definition ts_micros (d : N) : N := d / 1000.
Definition ts_secs_bits (d : N) : N := f64_secs_bits d.
Definition ts_millis_bits (d : N) : N := f64_millis_bits d.
