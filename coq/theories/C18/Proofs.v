From Coq Require Import List NArith ZArith Bool Lia.
From MV Require Import C18.Model C18.Spec.
Import ListNotations.
Local Open Scope N_scope.

Definition cell_val (c : cell) : option N := match c with Exclusive d => d | Shared d => d end.

Record Rel (s : sw) (h : hist) (acc : option N) : Prop := {
  r_now : now s = h_now h;
  r_guards : guards s = h_guards h;
  r_start : sw_start s = None;
  r_val : cell_val (dur s) = acc
}.

Lemma close_val s : sw_start s = None -> sw_close s = cell_val (dur s).
Proof.
  intros Hs. unfold sw_close. destruct (dur s) as [[d|]|d]; cbn; try reflexivity.
  rewrite Hs. reflexivity.
Qed.

Lemma val_take c : cell_val (cell_take c) = None.
Proof. destruct c; reflexivity. Qed.
Lemma val_add c d : cell_val (cell_add c d) = Some (odef (cell_val c) + d).
Proof. destruct c; reflexivity. Qed.
Lemma val_share c : cell_val (cell_share c) = cell_val c.
Proof. destruct c; reflexivity. Qed.

Lemma rel_step s h acc o :
  Rel s h acc ->
  let '(h', es) := h_step h o in Rel (step s o) h' (total acc es).
Proof.
  intros [Hn Hg Hs Hv].
  destruct o as [d| | |g|g|g|]; cbn [h_step step].
  - constructor; cbn; congruence.
  - constructor; cbn; congruence.
  - constructor; cbn; rewrite ?val_share; congruence.
  - unfold guard_start, h_start. rewrite Hg.
    destruct (nth_error (h_guards h) g) as [[t|]|]; cbn [total];
      try (constructor; assumption).
    constructor; cbn; rewrite ?val_add; congruence.
  - unfold guard_start, h_start. rewrite Hg.
    destruct (nth_error (h_guards h) g) as [[t|]|]; cbn [total];
      try (constructor; assumption).
    constructor; cbn; rewrite ?val_add, ?val_take; cbn; congruence.
  - unfold guard_start, h_start. rewrite Hg.
    destruct (nth_error (h_guards h) g) as [[t|]|]; cbn [total];
      try (constructor; assumption).
    constructor; cbn; congruence.
  - constructor; cbn; rewrite ?val_take; congruence.
Qed.

Lemma total_app acc a b : total acc (a ++ b) = total (total acc a) b.
Proof. revert acc; induction a as [|[d|] a IH]; intros acc; cbn; auto. Qed.

Lemma rel_run ops : forall s h acc,
  Rel s h acc -> sw_close (fold_left step ops s) = total acc (events h ops).
Proof.
  induction ops as [|o ops IH]; intros s h acc HR.
  - cbn. rewrite close_val by apply HR. apply HR.
  - cbn [fold_left events]. pose proof (rel_step s h acc o HR) as Hstep.
    destruct (h_step h o) as [h' es]. rewrite total_app. apply IH. exact Hstep.
Qed.

Lemma rel_init : Rel sw_init h_init None.
Proof. constructor; reflexivity. Qed.

Lemma stopwatch_refines_spec ops : sw_close (run ops) = spec ops.
Proof. unfold run, spec. apply rel_run. exact rel_init. Qed.

(* every prefix: what [observe] lists is the spec of each prefix *)
Lemma observe_spec_gen ops : forall s h acc pre,
  Rel s h acc -> s = fold_left step pre sw_init ->
  observe s ops = map (fun k => spec (pre ++ firstn k ops)) (seq 1 (length ops)).
Proof.
  induction ops as [|o ops IH]; intros s h acc pre HR Hs; [reflexivity|].
  cbn [observe length seq map]. f_equal.
  - cbn [firstn]. rewrite <- stopwatch_refines_spec. unfold run. rewrite fold_left_app. subst s. reflexivity.
  - pose proof (rel_step s h acc o HR) as Hstep. destruct (h_step h o) as [h' es].
    rewrite (IH (step s o) h' (total acc es) (pre ++ [o]) Hstep).
    + rewrite <- (seq_shift (length ops) 1), map_map. apply map_ext. intros k. cbn [firstn]. rewrite <- app_assoc. reflexivity.
    + rewrite fold_left_app. subst s. reflexivity.
Qed.

Lemma observe_spec ops :
  observe sw_init ops = map (fun k => spec (firstn k ops)) (seq 1 (length ops)).
Proof. apply (observe_spec_gen ops sw_init h_init None []); [exact rel_init | reflexivity]. Qed.

(* the stored total never depends on whether guards were borrowed or owned *)
Definition erase_kind (o : op) : op := match o with StartO => StartB | _ => o end.
Lemma events_erase ops : forall h, events h (map erase_kind ops) = events h ops.
Proof.
  induction ops as [|o ops IH]; intros h; [reflexivity|].
  cbn [map events]. destruct o; cbn [erase_kind]; cbn [h_step];
  repeat match goal with |- context [match ?x with _ => _ end] => destruct x end; rewrite ?IH; reflexivity.
Qed.
Lemma borrowed_owned_same ops : sw_close (run (map erase_kind ops)) = sw_close (run ops).
Proof. rewrite !stopwatch_refines_spec. unfold spec. rewrite events_erase. reflexivity. Qed.

(* ---- Timer ---- *)
Lemma timer_run ops : forall t,
  t_start t <= t_now t ->
  timer_close (fold_left tstep ops t) =
    match t_dur t with
    | Some d => d
    | None => match until_first_stop ops with
              | Some x => (t_now t - t_start t) + x
              | None => (t_now t - t_start t) + t_elapsed ops
              end
    end.
Proof.
  induction ops as [|o ops IH]; intros t Hle.
  - cbn. unfold timer_close. destruct (t_dur t); lia.
  - cbn [fold_left]. destruct o as [d|].
    + rewrite IH by (cbn; lia). cbn. destruct (t_dur t); [reflexivity|].
      destruct (until_first_stop ops); lia.
    + cbn [tstep]. destruct (t_dur t) as [d|] eqn:Hd.
      * rewrite IH by assumption. rewrite Hd. reflexivity.
      * rewrite IH by (cbn; assumption). cbn. lia.
Qed.

Lemma timer_refines_spec t0 ops :
  timer_close (fold_left tstep ops (timer_init t0)) = timer_spec ops.
Proof.
  rewrite timer_run by (cbn; lia). cbn. unfold timer_spec.
  rewrite N.sub_diag. destruct (until_first_stop ops); reflexivity.
Qed.

Lemma timer_stop_idempotent t : tstep (tstep t TStop) TStop = tstep t TStop.
Proof. unfold tstep. destruct (t_dur t) eqn:H; cbn; rewrite ?H; reflexivity. Qed.

Lemma timer_stopped_is_fixed ops t d :
  t_dur t = Some d -> timer_close (fold_left tstep ops t) = d.
Proof.
  revert t; induction ops as [|o ops IH]; intros t H; cbn.
  - unfold timer_close. rewrite H. reflexivity.
  - apply IH. destruct o; cbn; rewrite ?H; auto.
Qed.

(* ---- Timestamps ---- *)
Lemma ts_at_creation w0 w1 : ts_value false w0 w1 = since_epoch w0.
Proof. reflexivity. Qed.
Lemma ts_on_close w0 w1 : ts_value true w0 w1 = since_epoch w1.
Proof. reflexivity. Qed.
Lemma since_epoch_before w : (w < 0)%Z -> since_epoch w = 0.
Proof. intros H. unfold since_epoch. apply Z.ltb_lt in H. rewrite H. reflexivity. Qed.
Lemma since_epoch_after w : (0 <= w)%Z -> Z.of_N (since_epoch w) = w.
Proof. intros H. unfold since_epoch. destruct (Z.ltb_spec w 0); [lia|]. apply Z2N.id. exact H. Qed.
Lemma micros_exact d : ts_micros d * 1000 <= d < (ts_micros d + 1) * 1000.
Proof.
  unfold ts_micros. assert (Hn : 1000 <> 0) by lia.
  pose proof (N.div_mod d 1000 Hn) as H1. pose proof (N.mod_lt d 1000 Hn) as H2.
  remember (d / 1000) as q. remember (d mod 1000) as r. clear Heqq Heqr. lia.
Qed.
