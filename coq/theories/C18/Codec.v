(* C18 — wire codec: s-expression <-> operation sequences / observations. *)
(* DISPATCH 1800 c18_run *)
(* DISPATCH 1801 c18_spec *)
From Coq Require Import List ZArith NArith.
From MV Require Import Common.Sx C18.Model C18.Spec.
Import ListNotations.

Definition dec_op (x : sx) : op :=
  match sx_tag x with
  | 0%Z => Adv (sx_n (sx_arg x 0))
  | 1%Z => StartB
  | 2%Z => StartO
  | 3%Z => Stop (sx_nat (sx_arg x 0))
  | 4%Z => Overwrite (sx_nat (sx_arg x 0))
  | 5%Z => Discard (sx_nat (sx_arg x 0))
  | _ => Clear
  end.
Definition dec_top (x : sx) : top :=
  match sx_tag x with 0%Z => TAdv (sx_n (sx_arg x 0)) | _ => TStop end.

(* Positions at which a borrowed guard is alive: the stopwatch itself is mutably borrowed there, so the
   harness cannot close it by reference; both sides report -1 for those positions. *)
Fixpoint mask (ops : list op) (nguards : nat) (borrowed : option nat) : list bool :=
  match ops with
  | [] => []
  | o :: r =>
    let '(ng, b) :=
      match o with
      | StartB => (Datatypes.S nguards, Some nguards)
      | StartO => (Datatypes.S nguards, borrowed)
      | Stop g | Overwrite g | Discard g =>
          (nguards, match borrowed with Some k => if Nat.eqb k g then None else borrowed | None => None end)
      | Adv _ | Clear => (nguards, borrowed)
      end : nat * option nat in
    (match b with Some _ => true | None => false end) :: mask r ng b
  end.
Definition masked (ops : list op) (obs : list (option N)) : list sx :=
  map (fun p : bool * option N => if fst p then A (-1)%Z else of_option of_n (snd p)) (combine (mask ops 0 None) obs).

(* model: the mechanism's observations after every prefix *)
(* timestamps: (2 on_close wall0 wall1) -> (micros secs_bits millis_bits) *)
Definition c18_ts (x : sx) : sx :=
  let d := ts_value (sx_bool (sx_arg x 0)) (sx_z (sx_arg x 1)) (sx_z (sx_arg x 2)) in
  L [of_n (ts_micros d); of_n (ts_secs_bits d); of_n (ts_millis_bits d)].

Definition c18_run (x : sx) : sx :=
  match sx_tag x with
  | 2%Z => c18_ts x
  | 0%Z => let ops := map dec_op (sx_list (sx_arg x 0)) in L (masked ops (observe sw_init ops))
  | _ => L (map of_n (tobserve (timer_init (sx_n (sx_arg x 0))) (map dec_top (sx_list (sx_arg x 1)))))
  end.

(* property predicate: the history-based specification of every prefix *)
Definition c18_spec (x : sx) : sx :=
  match sx_tag x with
  | 2%Z => c18_ts x
  | 0%Z => let ops := map dec_op (sx_list (sx_arg x 0)) in
           L (masked ops (map (fun k => spec (firstn k ops)) (seq 1 (length ops))))
  | _ => let ops := map dec_top (sx_list (sx_arg x 1)) in
           L (map (fun k => of_n (timer_spec (firstn k ops))) (seq 1 (length ops)))
  end.
