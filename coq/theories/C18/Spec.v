(* C18 — what the user is promised, as a function of the operation history only:
   the reported value is the total of the guard spans that completed (stop / drop / overwrite) and were
   not discarded, counted since the last clear or overwrite; absent if there is none. *)
From Coq Require Import List NArith Bool.
From MV Require Import C18.Model.
Import ListNotations.
Local Open Scope N_scope.

Inductive ev := Keep (span : N) | Reset.

(* history pass: only the clock and the table of guard start times are tracked *)
Record hist := mk_hist { h_now : N; h_guards : list (option N) }.
Definition h_init := mk_hist 0 [].
Definition h_start (h : hist) (g : nat) : option N :=
  match nth_error (h_guards h) g with Some (Some t) => Some t | _ => None end.
Definition h_step (h : hist) (o : op) : hist * list ev :=
  match o with
  | Adv d => (mk_hist (h_now h + d) (h_guards h), [])
  | StartB | StartO => (mk_hist (h_now h) (h_guards h ++ [Some (h_now h)]), [])
  | Stop g => match h_start h g with
              | Some t => (mk_hist (h_now h) (set_nth (h_guards h) g None), [Keep (h_now h - t)])
              | None => (h, []) end
  | Overwrite g => match h_start h g with
              | Some t => (mk_hist (h_now h) (set_nth (h_guards h) g None), [Reset; Keep (h_now h - t)])
              | None => (h, []) end
  | Discard g => match h_start h g with
              | Some t => (mk_hist (h_now h) (set_nth (h_guards h) g None), [])
              | None => (h, []) end
  | Clear => (h, [Reset])
  end.
Fixpoint events (h : hist) (ops : list op) : list ev :=
  match ops with
  | [] => []
  | o :: r => let '(h', es) := h_step h o in es ++ events h' r
  end.

(* total of the kept spans after the last Reset; None when there is none *)
Fixpoint total (acc : option N) (evs : list ev) : option N :=
  match evs with
  | [] => acc
  | Reset :: r => total None r
  | Keep d :: r => total (Some (odef acc + d)) r
  end.

Definition spec (ops : list op) : option N := total None (events h_init ops).

(* Timer: creation -> first stop, or creation -> now when never stopped *)
Fixpoint t_elapsed (ops : list top) : N :=
  match ops with [] => 0 | TAdv d :: r => d + t_elapsed r | TStop :: r => t_elapsed r end.
Fixpoint until_first_stop (ops : list top) : option N :=
  match ops with
  | [] => None
  | TStop :: _ => Some 0
  | TAdv d :: r => match until_first_stop r with Some x => Some (d + x) | None => None end
  end.
Definition timer_spec (ops : list top) : N :=
  match until_first_stop ops with Some x => x | None => t_elapsed ops end.
