(* C06 — what the user is promised, stated over the user-visible history only (no reference counts,
   no closure slot, no program counters): the entry is appended exactly when the owner and every handle
   clone have been dropped and (all flush guards have been dropped or some force-flush guard has been
   dropped), with the content as mutated until then. *)
From Coq Require Import List NArith Bool Arith.
From MV Require Import C06.Model.
Import ListNotations.

(* the bookkeeping a reader of the program text does: which objects exist *)
Record view := mk_view {
  v_owners : nat; v_handle : bool; v_fgs : nat; v_ffs : nat; v_forced : nat; v_log : list N
}.
Definition view_init : view := mk_view 1 false 0 0 0 [].

Definition view_step (v : view) (l : label) : view :=
  match l with
  | LMutate x => if Nat.ltb 0 (v_owners v)
                 then mk_view (v_owners v) (v_handle v) (v_fgs v) (v_ffs v) (v_forced v) (v_log v ++ [x]) else v
  | LMakeHandle => if Nat.eqb (v_owners v) 1 && negb (v_handle v)
                   then mk_view (v_owners v) true (v_fgs v) (v_ffs v) (v_forced v) (v_log v) else v
  | LCloneHandle => if Nat.ltb 0 (v_owners v) && v_handle v
                    then mk_view (S (v_owners v)) (v_handle v) (v_fgs v) (v_ffs v) (v_forced v) (v_log v) else v
  | LNewFlush => if Nat.ltb 0 (v_owners v) && negb (v_handle v)
                 then mk_view (v_owners v) (v_handle v) (S (v_fgs v)) (v_ffs v) (v_forced v) (v_log v) else v
  | LNewForce => if Nat.ltb 0 (v_owners v) && negb (v_handle v)
                 then mk_view (v_owners v) (v_handle v) (v_fgs v) (S (v_ffs v)) (v_forced v) (v_log v) else v
  | LDropOwner => if Nat.ltb 0 (v_owners v)
                  then mk_view (pred (v_owners v)) (v_handle v) (v_fgs v) (v_ffs v) (v_forced v) (v_log v) else v
  | LDropFlush => if Nat.ltb 0 (v_fgs v)
                  then mk_view (v_owners v) (v_handle v) (pred (v_fgs v)) (v_ffs v) (v_forced v) (v_log v) else v
  | LDropForce => if Nat.ltb 0 (v_ffs v)
                  then mk_view (v_owners v) (v_handle v) (v_fgs v) (pred (v_ffs v)) (S (v_forced v)) (v_log v) else v
  | LStep _ => v
  end.
Definition view_of_history (ls : list label) : view := fold_left view_step ls view_init.

(* the moment of the promise *)
Definition due (v : view) : bool :=
  Nat.eqb (v_owners v) 0 && (Nat.eqb (v_fgs v) 0 || Nat.ltb 0 (v_forced v)).

(* everything has been dropped *)
Definition all_dropped (v : view) : bool :=
  Nat.eqb (v_owners v) 0 && Nat.eqb (v_fgs v) 0 && Nat.eqb (v_ffs v) 0.

(* sequential histories: the expected number of appends after every action *)
Fixpoint spec_observe (v : view) (ls : list label) : list nat :=
  match ls with
  | [] => []
  | l :: r => let v1 := view_step v l in (if due v1 then 1 else 0) :: spec_observe v1 r
  end.

(* the expected record of the counting sink for a sequential history: one append, made during the first
   action after which the promise is due, seeing the world and the content of that moment *)
Fixpoint spec_emits (v : view) (ls : list label) : list snapshot :=
  match ls with
  | [] => []
  | l :: r => let v1 := view_step v l in
              if due v1 then [mk_snap (v_owners v1) (v_fgs v1) (v_forced v1) (v_log v1)]
              else spec_emits v1 r
  end.

Definition view_of_state (s : state) : view :=
  mk_view (owners s) (handle_mode s) (fgs s) (ffs s) (forced s) (log s).
