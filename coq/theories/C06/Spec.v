(* C06 — what the user is promised, stated over the user-visible history only (no reference counts,
   no closure slot, no program counters): the entry is appended exactly when the owner and every handle
   clone have been dropped and (all flush guards have been dropped or some force-flush guard has been
   dropped), with the content as mutated until then. *)
From Coq Require Import List NArith Bool Arith.
From MV Require Import C06.Model.
Import ListNotations.

(* the bookkeeping a reader of the program text does: which objects exist *)
Record view := mk_view {
  v_owners : nat; v_handle : bool; v_fgs : nat; v_ffs : nat; v_forced : nat; v_log : list N
}.
Definition view_init : view := mk_view 1 false 0 0 0 [].

Definition view_step (v : view) (l : label) : view :=
  match l with
  | LMutate x => if Nat.ltb 0 (v_owners v)
                 then mk_view (v_owners v) (v_handle v) (v_fgs v) (v_ffs v) (v_forced v) (v_log v ++ [x]) else v
  | LMakeHandle => if Nat.eqb (v_owners v) 1 && negb (v_handle v)
                   then mk_view (v_owners v) true (v_fgs v) (v_ffs v) (v_forced v) (v_log v) else v
  | LCloneHandle => if Nat.ltb 0 (v_owners v) && v_handle v
                    then mk_view (S (v_owners v)) (v_handle v) (v_fgs v) (v_ffs v) (v_forced v) (v_log v) else v
  | LNewFlush => if Nat.ltb 0 (v_owners v) && negb (v_handle v)
                 then mk_view (v_owners v) (v_handle v) (S (v_fgs v)) (v_ffs v) (v_forced v) (v_log v) else v
  | LNewForce => if Nat.ltb 0 (v_owners v) && negb (v_handle v)
                 then mk_view (v_owners v) (v_handle v) (v_fgs v) (S (v_ffs v)) (v_forced v) (v_log v) else v
  | LDropOwner => if Nat.ltb 0 (v_owners v)
                  then mk_view (pred (v_owners v)) (v_handle v) (v_fgs v) (v_ffs v) (v_forced v) (v_log v) else v
  | LDropFlush => if Nat.ltb 0 (v_fgs v)
                  then mk_view (v_owners v) (v_handle v) (pred (v_fgs v)) (v_ffs v) (v_forced v) (v_log v) else v
  | LDropForce => if Nat.ltb 0 (v_ffs v)
                  then mk_view (v_owners v) (v_handle v) (v_fgs v) (pred (v_ffs v)) (S (v_forced v)) (v_log v) else v
  | LStep _ => v
  end.
Definition view_of_history (ls : list label) : view := fold_left view_step ls view_init.

(* the moment of the promise *)
Definition due (v : view) : bool :=
  Nat.eqb (v_owners v) 0 && (Nat.eqb (v_fgs v) 0 || Nat.ltb 0 (v_forced v)).

(* everything has been dropped *)
Definition all_dropped (v : view) : bool :=
  Nat.eqb (v_owners v) 0 && Nat.eqb (v_fgs v) 0 && Nat.eqb (v_ffs v) 0.

(* sequential histories: the expected number of appends after every action *)
Fixpoint spec_observe (v : view) (ls : list label) : list nat :=
  match ls with
  | [] => []
  | l :: r => let v1 := view_step v l in (if due v1 then 1 else 0) :: spec_observe v1 r
  end.

(* the expected record of the counting sink for a sequential history: one append, made during the first
   action after which the promise is due, seeing the world and the content of that moment *)
Fixpoint spec_emits (v : view) (ls : list label) : list snapshot :=
  match ls with
  | [] => []
  | l :: r => let v1 := view_step v l in
              if due v1 then [mk_snap (v_owners v1) (v_fgs v1) (v_forced v1) (v_log v1)]
              else spec_emits v1 r
  end.

Definition view_of_state (s : state) : view :=
  mk_view (owners s) (handle_mode s) (fgs s) (ffs s) (forced s) (log s).

(* ---- the promise checked on the observation of a scheduled (multi-thread) run.
   The run is a sequence of grants (thread, sync point reached, appends so far); a thread that is not in
   the middle of an action begins its next action when granted.  Only the user-visible history is used. *)
Fixpoint nth_default_list {T} (l : list (list T)) (t : nat) : list T :=
  match l, t with [], _ => [] | x :: _, O => x | _ :: r, S k => nth_default_list r k end.

Definition snap_of_view (v : view) : snapshot := mk_snap (v_owners v) (v_fgs v) (v_forced v) (v_log v).
Definition snap_eqb (a b : snapshot) : bool :=
  Nat.eqb (sn_owners a) (sn_owners b) && Nat.eqb (sn_fgs a) (sn_fgs b) && Nat.eqb (sn_forced a) (sn_forced b)
  && (if list_eq_dec N.eq_dec (sn_log a) (sn_log b) then true else false).

Fixpoint trace_ok (v : view) (rest : list (list label)) (mid : list bool) (prev : nat)
                  (tr : list (nat * nat * nat)) (recs : list snapshot) : bool :=
  match tr with
  | [] => forallb (fun m => negb m) mid &&
          Nat.eqb prev (if due v then 1 else 0) &&
          Nat.eqb (length recs) prev
  | (t, code, cnt) :: r =>
      let in_mid := nth t mid false in
      let v1 := if in_mid then v else match nth_default_list rest t with [] => v | l :: _ => view_step v l end in
      let rest1 := if in_mid then rest else set_nth t (tl (nth_default_list rest t)) rest in
      let mid1 := set_nth t (negb (Nat.eqb code 0)) mid in
      Nat.leb prev cnt && Nat.leb cnt 1 &&
      (* not early *)
      (if Nat.eqb cnt 1 then due v1 else true) &&
      (* the world and content at the instant of the append *)
      (if Nat.eqb cnt 1 && Nat.eqb prev 0
       then match recs with [sn] => snap_eqb sn (snap_of_view v1) | _ => false end else true) &&
      (* not late: nobody is inside a destructor *)
      (if forallb (fun m => negb m) mid1 then Nat.eqb cnt (if due v1 then 1 else 0) else true) &&
      trace_ok v1 rest1 mid1 cnt r recs
  end.
