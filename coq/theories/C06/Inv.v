(* C06 — the reference-count invariant of the keep-alive mechanism, for every label list. *)
From Coq Require Import List NArith Bool Arith Lia.
From MV Require Import C06.Model C06.Spec.
Import ListNotations.

Definition b2n (b : bool) : nat := if b then 1 else 0.
Fixpoint cnt (p : pc) (l : list pc) : nat :=
  match l with [] => 0 | q :: r => b2n (pc_eqb q p) + cnt p r end.

Lemma cnt_app : forall p l q, cnt p (l ++ [q]) = cnt p l + b2n (pc_eqb q p).
Proof. induction l as [|x r IH]; intros q; cbn [cnt app]. - lia. - rewrite IH. lia. Qed.

Lemma cnt_set_nth : forall p l i q r, nth_error l i = Some q ->
  cnt p (set_nth i r l) + b2n (pc_eqb q p) = cnt p l + b2n (pc_eqb r p).
Proof.
  induction l as [|x t IH]; intros i q r H.
  - destruct i; discriminate.
  - destruct i as [|j]; cbn in H.
    + inversion H; subst. cbn [set_nth cnt]. lia.
    + cbn [set_nth cnt]. specialize (IH j q r H). lia.
Qed.

Lemma length_set_nth : forall T i (x : T) l, length (set_nth i x l) = length l.
Proof. induction i; destruct l; cbn; auto. Qed.

Lemma nth_error_set_nth_same : forall T i (x : T) l, i < length l -> nth_error (set_nth i x l) i = Some x.
Proof. induction i; destruct l; cbn; intros; try lia; auto. apply IHi. lia. Qed.

Lemma nth_error_set_nth_other : forall T i j (x : T) l, i <> j -> nth_error (set_nth i x l) j = nth_error l j.
Proof. induction i; destruct l, j; cbn; intros; try congruence; auto. Qed.

Lemma quiescent_cnt : forall l, forallb (fun p => pc_eqb p PDone) l = true ->
  forall p, p <> PDone -> cnt p l = 0.
Proof.
  induction l as [|x r IH]; intros H p Hp; cbn in *; auto.
  apply andb_prop in H. destruct H as [Hx Hr]. rewrite (IH Hr p Hp).
  destruct x; try discriminate. destruct p; cbn; try reflexivity. congruence.
Qed.

Record inv (s : state) : Prop := mk_inv {
  i_v : vrc s = b2n (parent s) + b2n (closure s) + cnt PCall (tasks s);
  i_g : grc s = b2n (parent s) + fgs s + cnt PGDec (tasks s) + cnt PLock (tasks s)
                + cnt PCall (tasks s) + cnt PUnlock (tasks s);
  i_e : length (emits s) = b2n (Nat.eqb (vrc s) 0);
  i_lock : b2n (locked s) = cnt PCall (tasks s) + cnt PUnlock (tasks s);
  i_direct : b2n (handle_mode s) = 0 ->
             cnt PHDec (tasks s) = 0 /\ owners s + cnt PVDec (tasks s) + b2n (negb (parent s)) = 1;
  i_handle : b2n (handle_mode s) = 1 ->
             hrc s = owners s + cnt PHDec (tasks s) /\
             (hrc s > 0 -> cnt PVDec (tasks s) = 0 /\ b2n (parent s) = 1) /\
             (hrc s = 0 -> cnt PVDec (tasks s) + b2n (negb (parent s)) = 1);
  i_clo : b2n (closure s) = 0 -> forced s > 0 \/ grc s = 0;
  i_fo : forced s >= cnt PUpgrade (tasks s) + cnt PLock (tasks s);
  i_sd : cnt PSlotDrop (tasks s) > 0 -> grc s = 0;
  i_g0 : grc s = 0 -> b2n (closure s) = 0 \/ cnt PSlotDrop (tasks s) > 0;
  i_forced : forced s > cnt PUpgrade (tasks s) + cnt PLock (tasks s) ->
             b2n (closure s) = 0 \/ cnt PSlotDrop (tasks s) > 0;
  (* what the sink saw: nobody owned the entry any more, the guards were gone or overridden, and the
     content is the final content *)
  i_snap : Forall (fun sn => sn_owners sn = 0 /\ (sn_fgs sn = 0 \/ sn_forced sn > 0) /\ sn_log sn = log s
                             /\ owners s = 0)
                  (emits s)
}.

Lemma inv_init : inv init.
Proof. constructor; cbn; try lia; auto. Qed.

Ltac counts H r :=
  pose proof (cnt_set_nth PHDec _ _ _ r H);
  pose proof (cnt_set_nth PVDec _ _ _ r H);
  pose proof (cnt_set_nth PGDec _ _ _ r H);
  pose proof (cnt_set_nth PSlotDrop _ _ _ r H);
  pose proof (cnt_set_nth PUpgrade _ _ _ r H);
  pose proof (cnt_set_nth PLock _ _ _ r H);
  pose proof (cnt_set_nth PCall _ _ _ r H);
  pose proof (cnt_set_nth PUnlock _ _ _ r H);
  cbn [pc_eqb b2n] in *.

Ltac snap_same :=
  match goal with
  | H : Forall _ ?e |- Forall _ ?e =>
      eapply Forall_impl; [| exact H]; cbn; intros ? (?&?&?&?); repeat split; auto; try lia; try congruence
  end.

Ltac easy_inv := constructor; cbn [owners handle_mode fgs ffs forced log hrc vrc grc closure locked parent tasks emits b2n negb] in *;
  try lia; try snap_same.

Lemma len_emits_after : forall s, length (emits s) = b2n (Nat.eqb (vrc s) 0) -> vrc s > 0 ->
  length (emits_after_vdec s) = b2n (Nat.eqb (pred (vrc s)) 0).
Proof.
  intros s H Hv. unfold emits_after_vdec. destruct (vrc s) as [|[|v]]; try lia; cbn in *.
  - rewrite app_length, H. reflexivity.
  - exact H.
Qed.

Lemma forall_emits_after : forall (P : snapshot -> Prop) s,
  Forall P (emits s) -> (pred (vrc s) = 0 -> P (snap s)) -> Forall P (emits_after_vdec s).
Proof.
  intros P s H Hs. unfold emits_after_vdec. destruct (Nat.eqb (pred (vrc s)) 0) eqn:E; auto.
  apply Forall_app; split; auto. constructor; auto. apply Hs. apply Nat.eqb_eq; auto.
Qed.

Ltac emit_case :=
  constructor; cbn [owners handle_mode fgs ffs forced log hrc vrc grc closure locked parent tasks emits b2n negb] in *;
  try lia; try snap_same;
  try (match goal with |- length (emits_after_vdec ?s) = _ => apply (len_emits_after s); cbn; lia end);
  try (match goal with |- Forall _ (emits_after_vdec ?s) =>
      apply (forall_emits_after _ s); [ cbn [emits]; snap_same | cbn; intros; repeat split; auto; lia ] end).

Lemma inv_step_task : forall s i, inv s -> inv (step_task s i).
Proof.
  intros s i I. unfold step_task. destruct (nth_error (tasks s) i) as [p|] eqn:E; [|exact I].
  destruct I as [Iv Ig Ie Il Id Ih Ic Ifo Isd Ig0 If Isn].
  destruct s as [ow hm fg ff fo lg hr vr gr cl lk pa ts em]; cbn in *.
  destruct p.
  - (* PHDec *)
    destruct (Nat.eqb (pred hr) 0) eqn:Eh; [apply Nat.eqb_eq in Eh | apply Nat.eqb_neq in Eh].
    + counts E PVDec. destruct hm, cl, lk, pa; easy_inv.
    + counts E PDone. destruct hm, cl, lk, pa; easy_inv.
  - (* PVDec *)
    counts E PGDec. destruct hm, cl, lk, pa; emit_case.
  - (* PGDec *)
    destruct (Nat.eqb (pred gr) 0) eqn:Eg; [apply Nat.eqb_eq in Eg | apply Nat.eqb_neq in Eg].
    + counts E PSlotDrop. destruct hm, cl, lk, pa; easy_inv.
    + counts E PDone. destruct hm, cl, lk, pa; easy_inv.
  - (* PSlotDrop *)
    counts E PDone. destruct cl.
    + destruct hm, lk, pa; emit_case.
    + destruct hm, lk, pa; easy_inv.
  - (* PUpgrade *)
    destruct (Nat.eqb gr 0) eqn:Eg; [apply Nat.eqb_eq in Eg | apply Nat.eqb_neq in Eg].
    + counts E PDone. destruct hm, cl, lk, pa; easy_inv.
    + counts E PLock. destruct hm, cl, lk, pa; easy_inv.
  - (* PLock *)
    destruct lk.
    + constructor; cbn; auto.
    + destruct cl.
      * counts E PCall. destruct hm, pa; easy_inv.
      * counts E PUnlock. destruct hm, pa; easy_inv.
  - (* PCall *)
    counts E PUnlock. destruct hm, cl, lk, pa; emit_case.
  - (* PUnlock *)
    counts E PGDec. destruct hm, cl, lk, pa; easy_inv.
  - (* PDone *)
    constructor; cbn; auto.
Qed.

Ltac push_inv := constructor;
  cbn [owners handle_mode fgs ffs forced log hrc vrc grc closure locked parent tasks emits b2n negb] in *;
  unfold push; cbn [tasks]; repeat rewrite cnt_app; cbn [pc_eqb b2n]; try lia; try snap_same.

Lemma inv_step : forall s l, inv s -> inv (step s l).
Proof.
  intros s l I. destruct l; cbn [step]; try (apply inv_step_task; exact I).
  all: destruct I as [Iv Ig Ie Il Id Ih Ic Ifo Isd Ig0 If Isn];
       destruct s as [ow hm fg ff fo lg hr vr gr cl lk pa ts em];
       cbn [owners handle_mode fgs ffs forced log hrc vrc grc closure locked parent tasks emits] in *.
  - (* LMutate *)
    destruct (Nat.ltb 0 ow) eqn:Eo; [apply Nat.ltb_lt in Eo | constructor; auto].
    destruct hm, cl, lk, pa; easy_inv.
    all: eapply Forall_impl; [| exact Isn]; cbn; intros ? (?&?&?&?); lia.
  - (* LMakeHandle *)
    destruct (Nat.eqb ow 1 && negb hm) eqn:Eo; [| constructor; auto].
    apply andb_prop in Eo. destruct Eo as [Eo Eh]. apply Nat.eqb_eq in Eo. destruct hm; [discriminate|].
    destruct cl, lk, pa; easy_inv.
  - (* LCloneHandle *)
    destruct (Nat.ltb 0 ow && hm) eqn:Eo; [| constructor; auto].
    apply andb_prop in Eo. destruct Eo as [Eo Eh]. apply Nat.ltb_lt in Eo. subst hm.
    destruct cl, lk, pa; easy_inv.
    all: eapply Forall_impl; [| exact Isn]; cbn; intros ? (?&?&?&?); lia.
  - (* LNewFlush *)
    destruct (Nat.ltb 0 ow && negb hm) eqn:Eo; [| constructor; auto].
    apply andb_prop in Eo. destruct Eo as [Eo _]. apply Nat.ltb_lt in Eo.
    destruct hm, cl, lk, pa; easy_inv.
  - (* LNewForce *)
    destruct (Nat.ltb 0 ow && negb hm) eqn:Eo; [| constructor; auto].
    apply andb_prop in Eo. destruct Eo as [Eo _]. apply Nat.ltb_lt in Eo.
    destruct hm, cl, lk, pa; easy_inv.
  - (* LDropOwner *)
    destruct (Nat.ltb 0 ow) eqn:Eo; [apply Nat.ltb_lt in Eo | constructor; auto].
    destruct hm, cl, lk, pa; push_inv.
    all: eapply Forall_impl; [| exact Isn]; cbn; intros ? (?&?&?&?); lia.
  - (* LDropFlush *)
    destruct (Nat.ltb 0 fg) eqn:Eo; [apply Nat.ltb_lt in Eo | constructor; auto].
    destruct hm, cl, lk, pa; push_inv.
  - (* LDropForce *)
    destruct (Nat.ltb 0 ff) eqn:Eo; [apply Nat.ltb_lt in Eo | constructor; auto].
    destruct hm, cl, lk, pa; push_inv.
Qed.

Lemma inv_run_from : forall ls s, inv s -> inv (run_from s ls).
Proof. induction ls as [|l r IH]; intros s I; cbn; auto. apply IH. apply inv_step. exact I. Qed.

Theorem inv_run : forall ls, inv (run ls).
Proof. intros. apply inv_run_from. apply inv_init. Qed.
