(* C06 — wire codec: s-expression <-> histories / observations. *)
(* DISPATCH 600 c06_run *)
(* DISPATCH 601 c06_spec *)
From Coq Require Import List ZArith NArith Bool Arith.
From MV Require Import Common.Sx C06.Model C06.Spec.
Import ListNotations.

(* user actions; the object index an action carries (which of the live guards / handles) is for the
   harness only: guards of one kind are interchangeable in the mechanism *)
Definition dec_label (x : sx) : label :=
  match sx_tag x with
  | 0%Z => LMutate (sx_n (sx_arg x 0))
  | 1%Z => LMakeHandle
  | 2%Z => LCloneHandle
  | 3%Z => LNewFlush
  | 4%Z => LNewForce
  | 5%Z => LDropOwner
  | 6%Z => LDropFlush
  | 7%Z => LDropForce
  | _ => LStep (sx_nat (sx_arg x 0))
  end.

Definition enc_snap (sn : snapshot) : sx :=
  L [of_nat (sn_owners sn); of_nat (sn_fgs sn); of_nat (sn_forced sn); L (map of_n (sn_log sn))].

(* case (0 (actions…)): a sequential history; answer: ((appends so far after every action…) (sink records…)) *)
Definition c06_run (x : sx) : sx :=
  let ls := map dec_label (sx_list (sx_arg x 0)) in
  L [L (map of_nat (seq_observe init ls)); L (map enc_snap (emits (seq_run ls)))].

Definition c06_spec (x : sx) : sx :=
  let ls := map dec_label (sx_list (sx_arg x 0)) in
  L [L (map of_nat (spec_observe view_init ls)); L (map enc_snap (spec_emits view_init ls))].
