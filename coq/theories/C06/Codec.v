(* C06 — wire codec: s-expression <-> histories / observations. *)
(* DISPATCH 600 c06_run *)
(* DISPATCH 601 c06_spec *)
(* DISPATCH 602 c06_holds *)
From Coq Require Import List ZArith NArith Bool Arith.
From MV Require Import Common.Sx C06.Model C06.Spec.
Import ListNotations.

(* user actions; the object index an action carries (which of the live guards / handles) is for the
   harness only: guards of one kind are interchangeable in the mechanism *)
Definition dec_label (x : sx) : label :=
  match sx_tag x with
  | 0%Z => LMutate (sx_n (sx_arg x 0))
  | 1%Z => LMakeHandle
  | 2%Z => LCloneHandle
  | 3%Z => LNewFlush
  | 4%Z => LNewForce
  | 5%Z => LDropOwner
  | 6%Z => LDropFlush
  | 7%Z => LDropForce
  | _ => LStep (sx_nat (sx_arg x 0))
  end.

Definition enc_snap (sn : snapshot) : sx :=
  L [of_nat (sn_owners sn); of_nat (sn_fgs sn); of_nat (sn_forced sn); L (map of_n (sn_log sn))].

(* (thread action) pairs -> per-thread programs *)
Fixpoint prog_of (n : nat) (l : list sx) : list (list label) :=
  match n with
  | O => []
  | S k => prog_of k l ++ [map (fun e => dec_label (sx_nth e 1)) (filter (fun e => Nat.eqb (sx_nat (sx_nth e 0)) k) l)]
  end.
Definition nthreads (l : list sx) : nat := fold_right (fun e a => Nat.max (S (sx_nat (sx_nth e 0))) a) 0 l.

(* case (0 (actions…)): a sequential history; answer ((appends so far after every action…) (sink records…))
   case (1 (setup…) ((thread action)…) (granted threads…)): a scheduled multi-thread run;
        answer (((sync point reached, appends so far) per grant…) (sink records…) 1)
   case (2 …): free-running stress on real threads, checked by the harness; answer 1 *)
Definition c06_run (x : sx) : sx :=
  match sx_tag x with
  | 0%Z =>
    let ls := map dec_label (sx_list (sx_arg x 0)) in
    L [L (map of_nat (seq_observe init ls)); L (map enc_snap (emits (seq_run ls)))]
  | 1%Z =>
    let setup := map dec_label (sx_list (sx_arg x 0)) in
    let pl := sx_list (sx_arg x 1) in
    let ths := map (fun p => mk_thr p None) (prog_of (nthreads pl) pl) in
    let '(o, fin) := grants (fold_left seq_step setup init, ths) (map sx_nat (sx_list (sx_arg x 2))) in
    L [L (map (fun p => L [of_nat (fst p); of_nat (snd p)]) o); L (map enc_snap (emits fin)); A 1%Z]
  | _ => A 1%Z
  end.

Definition c06_spec (x : sx) : sx :=
  match sx_tag x with
  | 0%Z =>
    let ls := map dec_label (sx_list (sx_arg x 0)) in
    L [L (map of_nat (spec_observe view_init ls)); L (map enc_snap (spec_emits view_init ls))]
  | _ => A 1%Z
  end.

Definition dec_snap (x : sx) : snapshot :=
  mk_snap (sx_nat (sx_nth x 0)) (sx_nat (sx_nth x 1)) (sx_nat (sx_nth x 2)) (map sx_n (sx_list (sx_nth x 3))).

(* the property predicate on the implementation's observation of a scheduled run: (case impl) -> 1 *)
Definition c06_holds (x : sx) : sx :=
  let case := sx_nth x 0 in
  let imp := sx_nth x 1 in
  match sx_tag case with
  | 1%Z =>
    let setup := map dec_label (sx_list (sx_arg case 0)) in
    let pl := sx_list (sx_arg case 1) in
    let n := nthreads pl in
    let tids := map sx_nat (sx_list (sx_arg case 2)) in
    let obs := sx_list (sx_nth imp 0) in
    let tr := map (fun p => (fst p, sx_nat (sx_nth (snd p) 0), sx_nat (sx_nth (snd p) 1))) (combine tids obs) in
    let v0 := fold_left view_step setup view_init in
    of_bool (Nat.eqb (length tids) (length obs) && sx_bool (sx_nth imp 2) &&
             trace_ok v0 (prog_of n pl) (repeat false n) (if due v0 then 1 else 0) tr
                      (map dec_snap (sx_list (sx_nth imp 1))))
  | 2%Z => of_bool (sx_bool imp)
  | 3%Z => of_bool (sx_bool imp)   (* the lock probe: judged by the harness (see c06.rs, exec_lock_probe) *)
  | _ =>
    (* sequential: the specification's answer must be the implementation's *)
    let ls := map dec_label (sx_list (sx_arg case 0)) in
    let obs := map sx_nat (sx_list (sx_nth imp 0)) in
    of_bool ((if list_eq_dec Nat.eq_dec obs (spec_observe view_init ls) then true else false) &&
             (if list_eq_dec Nat.eq_dec (map sx_nat (sx_list (sx_nth imp 0))) obs then true else false))
  end.
