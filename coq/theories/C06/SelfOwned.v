(* C06 — known finding: an entry that owns a force-flush guard of ITSELF.

   `DropAll::drop` (metrique/src/keep_alive.rs) is
       if let Some(guard) = self.0.upgrade() { if let Some(f) = guard.lock().unwrap().take() { f() } }
   and the `MutexGuard` temporary lives until the end of the inner `if let`: the keep-alive closure `f` - and with it,
   once the owner is gone, the entry's destructor (close, then append) - runs while the guard mutex is held (that is
   the model's `PCall`, C06/Model.v).  If the entry owns a force-flush guard of itself (an ignored field), closing
   the entry drops that field first: a nested `DropAll::drop` on the same thread, whose `upgrade` succeeds (the outer
   drop still holds its upgraded `Arc`) and whose `lock()` then waits for a mutex held by its own thread.
   The thread never proceeds: the entry is never appended, although its owner is gone and a force-flush guard has
   been dropped.  The main model's alphabet has no such entry (its theorems are about entries that do not own their
   own guards); this file is the refutation for the excluded class, the harness replays it on the real types
   (probe case `(3 n 0 2)`), and known_findings.json lists it. *)
From Coq Require Import List Arith Bool Lia.
Import ListNotations.

Inductive spc :=
| SCall        (* outer DropAll::drop: holds the mutex and the taken closure, about to call it *)
| SInnerLock   (* inside the closure: entry.close() drops the entry's own DropAll; upgraded, about to lock *)
| SInnerTake   (* nested drop holds the mutex: take() finds None (the outer drop took the closure) *)
| SAppend      (* the rest of the destructor: sink.append(closed entry) *)
| SUnlock      (* outer drop: release the mutex *)
| SDone.

Record sst := mk_sst { s_locked : bool; s_pc : spc; s_appended : nat }.

(* one step of the only thread involved; a step that cannot be taken leaves the state unchanged (blocked) *)
Definition sstep (s : sst) : sst :=
  match s_pc s with
  | SCall => mk_sst (s_locked s) SInnerLock (s_appended s)
  | SInnerLock => if s_locked s then s else mk_sst true SInnerTake (s_appended s)
  | SInnerTake => mk_sst false SAppend (s_appended s)
  | SAppend => mk_sst (s_locked s) SUnlock (S (s_appended s))
  | SUnlock => mk_sst false SDone (s_appended s)
  | SDone => s
  end.

Fixpoint siter (n : nat) (s : sst) : sst := match n with O => s | S k => siter k (sstep s) end.

(* the code as it is: the closure is called with the mutex held *)
Definition s_as_found : sst := mk_sst true SCall 0.

Lemma stuck_fixpoint : forall n, siter n (mk_sst true SInnerLock 0) = mk_sst true SInnerLock 0.
Proof. induction n; cbn; auto. Qed.

Theorem self_owned_never_appended : forall n,
  s_appended (siter n s_as_found) = 0 /\ s_pc (siter n s_as_found) <> SDone.
Proof.
  destruct n as [|n]; cbn; [split; [reflexivity | discriminate]|].
  unfold s_as_found; cbn [sstep s_pc s_locked s_appended]. rewrite stuck_fixpoint. cbn. split; [reflexivity | discriminate].
Qed.

(* for contrast: were the mutex released before the closure is called, the same destructor finishes and appends once
   (not a repair: a second force-flush guard dropped meanwhile would then return before the entry is appended,
   which the lock probes of the C06 check rule out) *)
Theorem self_owned_appends_if_unlocked_first :
  siter 5 (mk_sst false SCall 0) = mk_sst false SDone 1.
Proof. reflexivity. Qed.
