(* C06 — theorems: at most once, not early, not late, final, content; for every label list
   (= every number of handles and guards, every creation/drop order, every interleaving of the
   destructors' atomic steps). *)
From Coq Require Import List NArith Bool Arith Lia.
From MV Require Import C06.Model C06.Spec C06.Inv.
Import ListNotations.

(* the ghost bookkeeping inside the mechanism state is exactly the reader's bookkeeping *)
Lemma view_step_agrees : forall s l, view_of_state (step s l) = view_step (view_of_state s) l.
Proof.
  intros s l. destruct l; cbn [step view_step]; unfold view_of_state; cbn [v_owners v_handle v_fgs v_ffs v_forced v_log].
  1-8: match goal with |- context [if ?c then _ else _] => destruct c; reflexivity end.
  unfold step_task. destruct (nth_error (tasks s) i) as [p|]; [|reflexivity].
  destruct p; cbn; try reflexivity.
  - destruct (closure s); reflexivity.
  - destruct (Nat.eqb (grc s) 0); reflexivity.
  - destruct (locked s); reflexivity.
Qed.

Lemma view_run_from : forall ls s, view_of_state (run_from s ls) = fold_left view_step ls (view_of_state s).
Proof. induction ls as [|l r IH]; intros s; cbn [run_from fold_left]; auto. fold (run_from (step s l) r). rewrite IH, view_step_agrees. reflexivity. Qed.

Theorem view_agrees : forall ls, view_of_state (run ls) = view_of_history ls.
Proof. intros. unfold run, view_of_history. rewrite view_run_from. reflexivity. Qed.

(* ---- state-level statements, from the invariant ---- *)

Lemma emitted_le_1 : forall s, inv s -> length (emits s) <= 1.
Proof. intros s I. rewrite (i_e s I). destruct (Nat.eqb (vrc s) 0); cbn; lia. Qed.

Lemma due_iff : forall v, due v = true <-> v_owners v = 0 /\ (v_fgs v = 0 \/ v_forced v > 0).
Proof.
  intros v. unfold due. rewrite andb_true_iff, orb_true_iff, !Nat.eqb_eq, Nat.ltb_lt. tauto.
Qed.

Lemma emitted_due : forall s, inv s -> length (emits s) = 1 -> due (view_of_state s) = true.
Proof.
  intros s I H. rewrite (i_e s I) in H. destruct (Nat.eqb (vrc s) 0) eqn:E; [|discriminate].
  apply Nat.eqb_eq in E.
  pose proof (i_v s I) as Hv. pose proof (i_g s I) as Hg. pose proof (i_clo s I) as Hc.
  pose proof (i_direct s I) as Hd. pose proof (i_handle s I) as Hh.
  apply due_iff. unfold view_of_state; cbn [v_owners v_fgs v_forced].
  destruct (parent s), (closure s), (handle_mode s); cbn [b2n negb] in *; lia.
Qed.

Lemma due_quiescent_emitted : forall s, inv s -> quiescent s = true -> due (view_of_state s) = true ->
  length (emits s) = 1.
Proof.
  intros s I Q D. unfold quiescent in Q.
  pose proof (quiescent_cnt _ Q) as C.
  assert (C1 := C PHDec ltac:(discriminate)). assert (C2 := C PVDec ltac:(discriminate)).
  assert (C3 := C PGDec ltac:(discriminate)). assert (C4 := C PSlotDrop ltac:(discriminate)).
  assert (C5 := C PUpgrade ltac:(discriminate)). assert (C6 := C PLock ltac:(discriminate)).
  assert (C7 := C PCall ltac:(discriminate)). assert (C8 := C PUnlock ltac:(discriminate)).
  apply due_iff in D. unfold view_of_state in D; cbn [v_owners v_fgs v_forced] in D.
  rewrite (i_e s I).
  pose proof (i_v s I) as Hv. pose proof (i_g s I) as Hg. pose proof (i_g0 s I) as Hg0.
  pose proof (i_forced s I) as Hf.
  pose proof (i_direct s I) as Hd. pose proof (i_handle s I) as Hh.
  assert (vrc s = 0).
  { destruct (parent s), (closure s), (handle_mode s); cbn [b2n negb] in *; lia. }
  rewrite H. reflexivity.
Qed.

Lemma snapshots_ok : forall s, inv s ->
  Forall (fun sn => sn_owners sn = 0 /\ (sn_fgs sn = 0 \/ sn_forced sn > 0) /\ sn_log sn = log s) (emits s).
Proof. intros s I. eapply Forall_impl; [| exact (i_snap s I)]. cbn. intros ? (?&?&?&?). auto. Qed.

(* ---- progress: every destructor in progress can be run to completion ---- *)

Definition rank (p : pc) : nat :=
  match p with
  | PDone => 0 | PSlotDrop => 1 | PGDec => 2 | PUnlock => 3 | PVDec => 3
  | PCall => 4 | PHDec => 4 | PLock => 5 | PUpgrade => 6
  end.
Definition weight (l : list pc) : nat := fold_right (fun p a => rank p + a) 0 l.

Lemma weight_set_nth : forall l i q r, nth_error l i = Some q ->
  weight (set_nth i r l) + rank q = weight l + rank r.
Proof.
  induction l as [|x t IH]; intros i q r H; destruct i; try discriminate; cbn in *.
  - inversion H; subst. lia.
  - specialize (IH _ _ r H). unfold weight in IH. lia.
Qed.

Lemma weight_pos_exists : forall l, weight l > 0 -> exists i p, nth_error l i = Some p /\ rank p > 0.
Proof.
  induction l as [|x t IH]; cbn; intros H; [lia|].
  destruct (rank x) eqn:E.
  - destruct IH as (i & p & H1 & H2); [unfold weight; lia|]. exists (S i), p. auto.
  - exists 0, x. cbn. split; auto. lia.
Qed.

Lemma cnt_pos_exists : forall p l, cnt p l > 0 -> exists i, nth_error l i = Some p.
Proof.
  induction l as [|x t IH]; cbn; intros H; [lia|].
  destruct (pc_eqb x p) eqn:E.
  - exists 0. cbn. destruct x, p; try discriminate; reflexivity.
  - cbn in H. destruct IH as (i & Hi); [lia|]. exists (S i). auto.
Qed.

Lemma weight0_quiescent : forall l, weight l = 0 -> forallb (fun p => pc_eqb p PDone) l = true.
Proof.
  induction l as [|x t IH]; cbn; intros H; auto.
  assert (rank x = 0) by lia. assert (weight t = 0) by (unfold weight; lia).
  rewrite IH by auto. destruct x; cbn in *; try lia; reflexivity.
Qed.

Lemma enabled_step_decreases : forall s i p, nth_error (tasks s) i = Some p -> rank p > 0 ->
  (p = PLock -> locked s = false) -> weight (tasks (step_task s i)) < weight (tasks s).
Proof.
  intros s i p H R Hl. unfold step_task. rewrite H.
  destruct p; cbn [rank] in R; try lia; cbn [tasks].
  - pose proof (weight_set_nth _ _ _ (if Nat.eqb (pred (hrc s)) 0 then PVDec else PDone) H).
    destruct (Nat.eqb (pred (hrc s)) 0); cbn [rank] in *; lia.
  - pose proof (weight_set_nth _ _ _ PGDec H). cbn [rank] in *; lia.
  - pose proof (weight_set_nth _ _ _ (if Nat.eqb (pred (grc s)) 0 then PSlotDrop else PDone) H).
    destruct (Nat.eqb (pred (grc s)) 0); cbn [rank] in *; lia.
  - pose proof (weight_set_nth _ _ _ PDone H). destruct (closure s); cbn [tasks rank] in *; lia.
  - destruct (Nat.eqb (grc s) 0); cbn [tasks].
    + pose proof (weight_set_nth _ _ _ PDone H). cbn [rank] in *; lia.
    + pose proof (weight_set_nth _ _ _ PLock H). cbn [rank] in *; lia.
  - rewrite (Hl eq_refl). cbn [tasks].
    pose proof (weight_set_nth _ _ _ (if closure s then PCall else PUnlock) H).
    destruct (closure s); cbn [rank] in *; lia.
  - pose proof (weight_set_nth _ _ _ PUnlock H). cbn [rank] in *; lia.
  - pose proof (weight_set_nth _ _ _ PGDec H). cbn [rank] in *; lia.
Qed.

Lemma can_finish_from : forall n s, inv s -> weight (tasks s) <= n ->
  exists sched, Forall (fun l => is_user l = false) sched /\ quiescent (run_from s sched) = true.
Proof.
  induction n as [|n IH]; intros s I W.
  - exists []. split; [constructor|]. cbn. apply weight0_quiescent. lia.
  - destruct (Nat.eq_dec (weight (tasks s)) 0) as [Z|NZ].
    { exists []. split; [constructor|]. cbn. apply weight0_quiescent. auto. }
    assert (Hex : exists i p, nth_error (tasks s) i = Some p /\ rank p > 0 /\ (p = PLock -> locked s = false)).
    { destruct (locked s) eqn:Lk.
      - pose proof (i_lock s I) as Hl. rewrite Lk in Hl. cbn in Hl.
        destruct (Nat.eq_dec (cnt PCall (tasks s)) 0) as [Hc|Hc].
        + destruct (cnt_pos_exists PUnlock (tasks s)) as (i & Hi); [lia|].
          exists i, PUnlock. repeat split; auto; cbn; try lia; discriminate.
        + destruct (cnt_pos_exists PCall (tasks s)) as (i & Hi); [lia|].
          exists i, PCall. repeat split; auto; cbn; try lia; discriminate.
      - destruct (weight_pos_exists (tasks s)) as (i & p & H1 & H2); [lia|].
        exists i, p. auto. }
    destruct Hex as (i & p & H1 & H2 & H3).
    pose proof (enabled_step_decreases s i p H1 H2 H3) as Hd.
    destruct (IH (step_task s i)) as (sched & Hs & Hq); [apply inv_step_task; auto | lia |].
    exists (LStep i :: sched). split; [constructor; auto|]. exact Hq.
Qed.

(* ---- sequential histories ---- *)

Lemma nth_error_last : forall (pre : list pc) p, nth_error (pre ++ [p]) (length pre) = Some p.
Proof. induction pre; cbn; auto. Qed.
Lemma set_nth_last : forall (pre : list pc) p x, set_nth (length pre) x (pre ++ [p]) = pre ++ [x].
Proof. induction pre; cbn; intros; auto. rewrite IHpre. reflexivity. Qed.

Lemma iter_step_run : forall n i s, iter_step n i s = run_from s (repeat (LStep i) n).
Proof. induction n; intros; cbn; auto. apply IHn. Qed.

Lemma step_task_tasks_last : forall s pre p, tasks s = pre ++ [p] ->
  exists p', tasks (step_task s (length pre)) = pre ++ [p'].
Proof.
  intros s pre p H. unfold step_task. rewrite H, nth_error_last.
  destruct p; cbn [tasks]; rewrite ?H, ?set_nth_last; eauto.
  - destruct (closure s); cbn [tasks]; rewrite ?H, ?set_nth_last; eauto.
  - destruct (Nat.eqb (grc s) 0); cbn [tasks]; rewrite ?H, ?set_nth_last; eauto.
  - destruct (locked s); cbn [tasks]; rewrite ?H, ?set_nth_last; eauto.
Qed.

Lemma weight_app : forall a b, weight (a ++ b) = weight a + weight b.
Proof. induction a; cbn; intros; auto. unfold weight in *. rewrite IHa. lia. Qed.

Lemma quiescent_weight0 : forall l, forallb (fun p => pc_eqb p PDone) l = true -> weight l = 0.
Proof.
  induction l as [|x t IH]; cbn; intros H; auto. apply andb_prop in H. destruct H as [Hx Ht].
  destruct x; try discriminate. cbn. apply IH; auto.
Qed.

Lemma iter_last : forall n s pre p, inv s -> tasks s = pre ++ [p] ->
  forallb (fun p => pc_eqb p PDone) pre = true -> rank p <= n ->
  tasks (iter_step n (length pre) s) = pre ++ [PDone].
Proof.
  induction n as [|n IH]; intros s pre p I H Q R.
  - cbn. destruct p; cbn in R; try lia. auto.
  - cbn [iter_step]. destruct (step_task_tasks_last s pre p H) as (p' & H').
    destruct (Nat.eq_dec (rank p) 0) as [Z|NZ].
    + destruct p; cbn in Z; try lia.
      assert (step_task s (length pre) = s) as ->.
      { unfold step_task. rewrite H, nth_error_last. reflexivity. }
      apply (IH s pre PDone); auto. cbn; lia.
    + assert (Hd : weight (tasks (step_task s (length pre))) < weight (tasks s)).
      { apply (enabled_step_decreases s (length pre) p); [rewrite H; apply nth_error_last | lia |].
        intros ->. pose proof (i_lock s I) as Hl. rewrite H, !cnt_app in Hl. cbn [pc_eqb b2n] in Hl.
        rewrite (quiescent_cnt _ Q PCall), (quiescent_cnt _ Q PUnlock) in Hl by discriminate.
        destruct (locked s); cbn in Hl; auto; lia. }
      rewrite H', H, !weight_app in Hd. cbn in Hd.
      apply (IH _ pre p'); auto; [apply inv_step_task; auto | lia].
Qed.

Lemma step_user_tasks : forall s l, is_user l = true ->
  tasks (step s l) = tasks s \/ exists p, tasks (step s l) = tasks s ++ [p] /\ rank p <= 6.
Proof.
  intros s l U. destruct l; try discriminate; cbn [step].
  1-5: left; match goal with |- context [if ?c then _ else _] => destruct c; reflexivity end.
  - destruct (Nat.ltb 0 (owners s)); [right | left; reflexivity]. cbn [tasks]. unfold push.
    eexists; split; [reflexivity|]. destruct (handle_mode s); cbn; lia.
  - destruct (Nat.ltb 0 (fgs s)); [right | left; reflexivity]. cbn [tasks]. unfold push.
    eexists; split; [reflexivity|]. cbn; lia.
  - destruct (Nat.ltb 0 (ffs s)); [right | left; reflexivity]. cbn [tasks]. unfold push.
    eexists; split; [reflexivity|]. cbn; lia.
Qed.

Lemma seq_step_as_run : forall s l, exists steps, seq_step s l = run_from s (l :: steps) /\
  Forall (fun x => is_user x = false) steps.
Proof.
  intros. unfold seq_step. destruct (Nat.ltb (length (tasks s)) (length (tasks (step s l)))).
  - exists (repeat (LStep (length (tasks s))) 6). rewrite iter_step_run. split; auto.
    apply Forall_forall. intros x Hx. apply repeat_spec in Hx. subst. reflexivity.
  - exists []. split; auto.
Qed.

Lemma seq_step_inv : forall s l, inv s -> inv (seq_step s l).
Proof.
  intros s l I. destruct (seq_step_as_run s l) as (st & -> & _). apply inv_run_from. exact I.
Qed.

Lemma seq_step_quiescent : forall s l, inv s -> quiescent s = true -> is_user l = true ->
  quiescent (seq_step s l) = true.
Proof.
  intros s l I Q U. unfold seq_step.
  destruct (step_user_tasks s l U) as [E | (p & E & R)].
  - rewrite E, Nat.ltb_irrefl. unfold quiescent. rewrite E. exact Q.
  - rewrite E, app_length. cbn [length].
    assert (Nat.ltb (length (tasks s)) (length (tasks s) + 1) = true) as -> by (apply Nat.ltb_lt; lia).
    unfold quiescent. rewrite (iter_last 6 (step s l) (tasks s) p); auto.
    + rewrite forallb_app. unfold quiescent in Q. rewrite Q. reflexivity.
    + apply inv_step; auto.
Qed.

Lemma view_steps_only : forall steps s, Forall (fun x => is_user x = false) steps ->
  view_of_state (run_from s steps) = view_of_state s.
Proof.
  induction steps as [|x r IH]; intros s F; cbn [run_from fold_left]; auto.
  inversion F; subst. fold (run_from (step s x) r). rewrite IH by auto.
  rewrite view_step_agrees. destruct x; try discriminate. reflexivity.
Qed.

Lemma seq_step_view : forall s l, view_of_state (seq_step s l) = view_step (view_of_state s) l.
Proof.
  intros. destruct (seq_step_as_run s l) as (st & -> & F). cbn [run_from fold_left].
  fold (run_from (step s l) st). rewrite view_steps_only by auto. apply view_step_agrees.
Qed.

(* in a quiescent state the number of appends is exactly "the promise is due" *)
Lemma quiescent_exact : forall s, inv s -> quiescent s = true ->
  length (emits s) = if due (view_of_state s) then 1 else 0.
Proof.
  intros s I Q. destruct (due (view_of_state s)) eqn:D.
  - apply due_quiescent_emitted; auto.
  - pose proof (emitted_le_1 s I). destruct (length (emits s)) as [|[|k]] eqn:E; auto; try lia.
    rewrite (emitted_due s I E) in D. discriminate.
Qed.

Lemma seq_observe_spec : forall ls s, inv s -> quiescent s = true -> Forall (fun l => is_user l = true) ls ->
  seq_observe s ls = spec_observe (view_of_state s) ls.
Proof.
  induction ls as [|l r IH]; intros s I Q F; cbn [seq_observe spec_observe]; auto.
  inversion F; subst.
  pose proof (seq_step_inv s l I) as I'. pose proof (seq_step_quiescent s l I Q H1) as Q'.
  rewrite (quiescent_exact _ I' Q'), seq_step_view. f_equal.
  rewrite IH by auto. rewrite seq_step_view. reflexivity.
Qed.

Lemma snap_view : forall s, snap s = mk_snap (v_owners (view_of_state s)) (v_fgs (view_of_state s))
                                       (v_forced (view_of_state s)) (v_log (view_of_state s)).
Proof. reflexivity. Qed.

Lemma step_task_emits : forall s i, exists k, emits (step_task s i) = emits s ++ repeat (snap s) k.
Proof.
  intros s i. unfold step_task. destruct (nth_error (tasks s) i) as [p|]; [| exists 0; cbn; rewrite app_nil_r; auto].
  assert (Hv : exists k, emits_after_vdec s = emits s ++ repeat (snap s) k).
  { unfold emits_after_vdec. destruct (Nat.eqb (pred (vrc s)) 0); [exists 1 | exists 0]; cbn; rewrite ?app_nil_r; auto. }
  assert (H0 : exists k, emits s = emits s ++ repeat (snap s) k) by (exists 0; cbn; rewrite app_nil_r; auto).
  destruct p; cbn [emits]; auto.
  - destruct (closure s); cbn [emits]; auto.
  - destruct (Nat.eqb (grc s) 0); cbn [emits]; auto.
  - destruct (locked s); cbn [emits]; auto.
Qed.

Lemma user_step_emits : forall s l, is_user l = true -> emits (step s l) = emits s.
Proof.
  intros s l U. destruct l; try discriminate; cbn [step];
  match goal with |- context [if ?c then _ else _] => destruct c; reflexivity end.
Qed.

Lemma steps_emits : forall steps s, Forall (fun x => is_user x = false) steps ->
  exists k, emits (run_from s steps) = emits s ++ repeat (snap s) k.
Proof.
  induction steps as [|x r IH]; intros s F.
  - exists 0. cbn. rewrite app_nil_r. auto.
  - inversion F; subst. destruct x; try discriminate. cbn [run_from fold_left step].
    fold (run_from (step_task s i) r).
    destruct (IH (step_task s i) H2) as (k2 & E2). destruct (step_task_emits s i) as (k1 & E1).
    assert (Hs : snap (step_task s i) = snap s).
    { rewrite !snap_view. change (step_task s i) with (step s (LStep i)). rewrite view_step_agrees. reflexivity. }
    exists (k1 + k2). rewrite E2, E1, Hs, repeat_app, app_assoc. reflexivity.
Qed.

Lemma step_emits_ext : forall s l, exists ext, emits (step s l) = emits s ++ ext.
Proof.
  intros s l. destruct (is_user l) eqn:U.
  - exists []. rewrite app_nil_r. apply user_step_emits; auto.
  - destruct l; try discriminate. cbn [step]. destruct (step_task_emits s i) as (k & E). eauto.
Qed.

Lemma emits_stable : forall ls s x, inv s -> emits s = [x] -> emits (run_from s ls) = [x].
Proof.
  induction ls as [|l r IH]; intros s x I E; cbn [run_from fold_left]; auto.
  fold (run_from (step s l) r). apply IH; [apply inv_step; auto|].
  destruct (step_emits_ext s l) as (ext & Ee).
  pose proof (emitted_le_1 _ (inv_step s l I)) as Hl. rewrite Ee, E in *. cbn in Hl.
  destruct ext; auto. cbn in Hl. lia.
Qed.

Lemma seq_step_emits : forall s l, inv s -> emits s = [] -> is_user l = true ->
  emits (seq_step s l) = [] \/
  emits (seq_step s l) = [let v := view_step (view_of_state s) l in
                          mk_snap (v_owners v) (v_fgs v) (v_forced v) (v_log v)].
Proof.
  intros s l I E U. destruct (seq_step_as_run s l) as (st & Hr & F).
  pose proof (emitted_le_1 _ (seq_step_inv s l I)) as Hl.
  rewrite Hr in *. cbn [run_from fold_left] in *. fold (run_from (step s l) st) in *.
  destruct (steps_emits st (step s l) F) as (k & Ek).
  rewrite Ek, (user_step_emits s l U), E in *. cbn [app] in *.
  destruct k as [|[|k]]; cbn in *; auto; [|lia].
  right. rewrite snap_view, view_step_agrees. reflexivity.
Qed.

Lemma seq_emits_spec : forall ls s, inv s -> quiescent s = true -> Forall (fun l => is_user l = true) ls ->
  emits s = [] -> emits (fold_left seq_step ls s) = spec_emits (view_of_state s) ls.
Proof.
  induction ls as [|l r IH]; intros s I Q F E; cbn [fold_left spec_emits]; auto.
  inversion F; subst.
  pose proof (seq_step_inv s l I) as I'. pose proof (seq_step_quiescent s l I Q H1) as Q'.
  pose proof (quiescent_exact _ I' Q') as Hx. rewrite seq_step_view in Hx.
  destruct (due (view_step (view_of_state s) l)) eqn:D.
  - destruct (seq_step_emits s l I E H1) as [E'|E']; [rewrite E' in Hx; discriminate|].
    (* after the append nothing is appended any more *)
    assert (Hst : forall r0 s0 x, inv s0 -> emits s0 = [x] -> emits (fold_left seq_step r0 s0) = [x]).
    { induction r0 as [|l0 r0 IH0]; intros s0 x I0 E0; cbn [fold_left]; auto.
      apply IH0; [apply seq_step_inv; auto|].
      destruct (seq_step_as_run s0 l0) as (st & -> & _). apply emits_stable; auto. }
    rewrite (Hst r _ _ I' E'). reflexivity.
  - rewrite <- seq_step_view. apply IH; auto.
    destruct (emits (seq_step s l)); auto. discriminate.
Qed.

(* ---- the theorems, for histories from the initial state ---- *)

Theorem at_most_once : forall ls, length (emits (run ls)) <= 1.
Proof. intros. apply emitted_le_1, inv_run. Qed.

Theorem not_early : forall ls, length (emits (run ls)) = 1 -> due (view_of_history ls) = true.
Proof. intros ls H. rewrite <- view_agrees. apply emitted_due; auto. apply inv_run. Qed.

Theorem not_late : forall ls, quiescent (run ls) = true -> due (view_of_history ls) = true ->
  length (emits (run ls)) = 1.
Proof. intros ls Q D. apply due_quiescent_emitted; auto. apply inv_run. rewrite view_agrees. exact D. Qed.

Lemma all_dropped_due : forall v, all_dropped v = true -> due v = true.
Proof.
  intros v H. unfold all_dropped in H. apply andb_prop in H. destruct H as [H _].
  apply andb_prop in H. destruct H as [H1 H2]. unfold due. rewrite H1, H2. reflexivity.
Qed.

Theorem final : forall ls, quiescent (run ls) = true -> all_dropped (view_of_history ls) = true ->
  length (emits (run ls)) = 1.
Proof. intros. apply not_late; auto. apply all_dropped_due; auto. Qed.

(* what the sink saw at the instant of the append, and what it received *)
Theorem append_instant : forall ls sn, In sn (emits (run ls)) ->
  sn_owners sn = 0 /\ (sn_fgs sn = 0 \/ sn_forced sn > 0) /\ sn_log sn = v_log (view_of_history ls).
Proof.
  intros ls sn H. pose proof (snapshots_ok _ (inv_run ls)) as F.
  rewrite Forall_forall in F. destruct (F sn H) as (H1 & H2 & H3).
  repeat split; auto. rewrite H3, <- view_agrees. reflexivity.
Qed.

(* the destructors in progress can always be completed (no deadlock on the guard mutex) *)
Theorem can_finish : forall ls, exists sched, Forall (fun l => is_user l = false) sched /\
  quiescent (run (ls ++ sched)) = true.
Proof.
  intros ls. destruct (can_finish_from (weight (tasks (run ls))) (run ls) (inv_run ls) (le_n _)) as (sched & F & Q).
  exists sched. split; auto. unfold run, run_from in *. rewrite fold_left_app. exact Q.
Qed.

(* once appended, never again, whatever happens afterwards *)
Theorem appended_is_final : forall ls more sn, emits (run ls) = [sn] -> emits (run (ls ++ more)) = [sn].
Proof.
  intros ls more sn H. unfold run, run_from. rewrite fold_left_app.
  apply (emits_stable more (run ls) sn (inv_run ls) H).
Qed.

Theorem sequential_exact : forall ls, Forall (fun l => is_user l = true) ls ->
  seq_observe init ls = spec_observe view_init ls /\ emits (seq_run ls) = spec_emits view_init ls.
Proof.
  intros ls F. split.
  - apply (seq_observe_spec ls init inv_init eq_refl F).
  - apply (seq_emits_spec ls init inv_init eq_refl F eq_refl).
Qed.
