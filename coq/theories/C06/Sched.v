(* C06 — scheduled (multi-thread) runs at sync-point granularity: every observation the model can produce
   under any schedule satisfies the promise-predicate [trace_ok] that is executed on the implementation's
   observations. *)
From Coq Require Import List NArith Bool Arith Lia.
From MV Require Import C06.Model C06.Spec C06.Inv C06.Proofs.
Import ListNotations.

(* ---------- [advance] is a run of destructor steps of one task ---------- *)
Lemma advance_run : forall fuel s i, exists k, advance fuel s i = run_from s (repeat (LStep i) k).
Proof.
  induction fuel; intros s i; cbn [advance].
  - exists 0. reflexivity.
  - destruct (stop_after (pc_at s i) (pc_at (step_task s i) i)).
    + exists 1. reflexivity.
    + destruct (IHfuel (step_task s i) i) as (k & E). exists (S k). rewrite E. reflexivity.
Qed.

Lemma lsteps_nonuser : forall i k, Forall (fun x => is_user x = false) (repeat (LStep i) k).
Proof. intros. apply Forall_forall. intros x Hx. apply repeat_spec in Hx. subst. reflexivity. Qed.

Lemma step_task_other : forall s i j, i <> j -> pc_at (step_task s i) j = pc_at s j.
Proof.
  intros s i j H. unfold pc_at, step_task. destruct (nth_error (tasks s) i) as [p|]; auto.
  destruct p; cbn [tasks]; rewrite ?nth_error_set_nth_other; auto.
  - destruct (closure s); cbn [tasks]; rewrite ?nth_error_set_nth_other; auto.
  - destruct (Nat.eqb (grc s) 0); cbn [tasks]; rewrite ?nth_error_set_nth_other; auto.
  - destruct (locked s); cbn [tasks]; rewrite ?nth_error_set_nth_other; auto.
Qed.

Lemma step_task_length : forall s i, length (tasks (step_task s i)) = length (tasks s).
Proof.
  intros s i. unfold step_task. destruct (nth_error (tasks s) i) as [p|]; auto.
  destruct p; cbn [tasks]; rewrite ?length_set_nth; auto.
  - destruct (closure s); cbn [tasks]; rewrite ?length_set_nth; auto.
  - destruct (Nat.eqb (grc s) 0); cbn [tasks]; rewrite ?length_set_nth; auto.
  - destruct (locked s); cbn [tasks]; rewrite ?length_set_nth; auto.
Qed.

Lemma lsteps_other : forall k s i j, i <> j -> pc_at (run_from s (repeat (LStep i) k)) j = pc_at s j.
Proof.
  induction k; intros s i j H; cbn [repeat run_from fold_left]; auto.
  fold (run_from (step s (LStep i)) (repeat (LStep i) k)). rewrite IHk by auto. apply step_task_other; auto.
Qed.

Lemma lsteps_length : forall k s i, length (tasks (run_from s (repeat (LStep i) k))) = length (tasks s).
Proof.
  induction k; intros s i; cbn [repeat run_from fold_left]; auto.
  fold (run_from (step s (LStep i)) (repeat (LStep i) k)). rewrite IHk. apply step_task_length.
Qed.

(* where a thread parks: done, before the lock, before the closure call, or after the unlock *)
Definition parked (p : pc) : bool :=
  match p with PDone | PLock | PCall | PGDec => true | _ => false end.

Lemma pc_at_step_self : forall s i p, nth_error (tasks s) i = Some p -> i < length (tasks s).
Proof. intros. apply nth_error_Some. congruence. Qed.

(* one step from a pc: the possible successors *)
Lemma step_task_succ : forall s i,
  let p0 := pc_at s i in let p1 := pc_at (step_task s i) i in
  match p0 with
  | PHDec => p1 = PVDec \/ p1 = PDone
  | PVDec => p1 = PGDec
  | PGDec => p1 = PSlotDrop \/ p1 = PDone
  | PSlotDrop => p1 = PDone
  | PUpgrade => p1 = PLock \/ p1 = PDone
  | PLock => p1 = PLock \/ p1 = PCall \/ p1 = PUnlock
  | PCall => p1 = PUnlock
  | PUnlock => p1 = PGDec
  | PDone => p1 = PDone
  end.
Proof.
  intros s i. unfold pc_at at 1. unfold step_task.
  destruct (nth_error (tasks s) i) as [p|] eqn:E.
  - assert (Hi : i < length (tasks s)) by (apply nth_error_Some; congruence).
    destruct p; cbn zeta; unfold pc_at; cbn [tasks]; rewrite ?nth_error_set_nth_same by auto; auto.
    + destruct (Nat.eqb (pred (hrc s)) 0); auto.
    + destruct (Nat.eqb (pred (grc s)) 0); auto.
    + destruct (closure s); cbn [tasks]; rewrite nth_error_set_nth_same by auto; auto.
    + destruct (Nat.eqb (grc s) 0); cbn [tasks]; rewrite nth_error_set_nth_same by auto; auto.
    + destruct (locked s); [rewrite E; auto|]. cbn [tasks]. rewrite nth_error_set_nth_same by auto.
      destruct (closure s); auto.
    + rewrite E. auto.
  - cbn zeta. unfold pc_at. rewrite E. auto.
Qed.

Lemma advance_S : forall f s i, advance (S f) s i =
  if stop_after (pc_at s i) (pc_at (step_task s i) i) then step_task s i else advance f (step_task s i) i.
Proof. reflexivity. Qed.

Lemma advance_parks : forall s i, parked (pc_at (advance 8 s i) i) = true.
Proof.
  intros s i.
  assert (H4 : forall s, pc_at s i = PSlotDrop -> forall f, parked (pc_at (advance (S f) s i) i) = true).
  { intros s0 H f. rewrite advance_S. pose proof (step_task_succ s0 i) as Sc. cbv zeta in Sc. rewrite H in *.
    rewrite Sc. cbn [stop_after]. rewrite Sc. reflexivity. }
  assert (H3 : forall s, pc_at s i = PGDec -> forall f, parked (pc_at (advance (S (S f)) s i) i) = true).
  { intros s0 H f. rewrite advance_S. pose proof (step_task_succ s0 i) as Sc. cbv zeta in Sc. rewrite H in *.
    destruct Sc as [Sc|Sc]; rewrite Sc; cbn [stop_after]; [apply H4; auto | rewrite Sc; reflexivity]. }
  assert (H2 : forall s, pc_at s i = PVDec -> forall f, parked (pc_at (advance (S (S (S f))) s i) i) = true).
  { intros s0 H f. rewrite advance_S. pose proof (step_task_succ s0 i) as Sc. cbv zeta in Sc. rewrite H in *.
    rewrite Sc. cbn [stop_after]. apply H3; auto. }
  assert (H5 : forall s, pc_at s i = PUnlock -> forall f, parked (pc_at (advance (S f) s i) i) = true).
  { intros s0 H f. rewrite advance_S. pose proof (step_task_succ s0 i) as Sc. cbv zeta in Sc. rewrite H in *.
    rewrite Sc. cbn [stop_after]. rewrite Sc. reflexivity. }
  pose proof (step_task_succ s i) as Sc. cbv zeta in Sc.
  destruct (pc_at s i) eqn:E.
  - change 8 with (S 7). rewrite advance_S. rewrite E. destruct Sc as [Sc|Sc]; rewrite Sc; cbn [stop_after].
    + apply (H2 (step_task s i) Sc 4).
    + rewrite Sc. reflexivity.
  - apply (H2 s E 5).
  - apply (H3 s E 6).
  - apply (H4 s E 7).
  - change 8 with (S 7). rewrite advance_S. rewrite E. destruct Sc as [Sc|Sc]; rewrite Sc; cbn [stop_after]; rewrite Sc; reflexivity.
  - change 8 with (S 7). rewrite advance_S. rewrite E. destruct Sc as [Sc|[Sc|Sc]]; rewrite Sc; cbn [stop_after].
    + rewrite Sc. reflexivity.
    + rewrite Sc. reflexivity.
    + apply (H5 (step_task s i) Sc 6).
  - change 8 with (S 7). rewrite advance_S. rewrite E. rewrite Sc. cbn [stop_after]. apply (H5 (step_task s i) Sc 6).
  - apply (H5 s E 7).
  - change 8 with (S 7). rewrite advance_S. rewrite E, Sc. cbn [stop_after]. rewrite Sc. reflexivity.
Qed.

(* ---------- the invariant linking the threads of the scheduled model with the predicate's bookkeeping ---------- *)
Definition cur_flag (th : thr) : bool := match t_cur th with Some _ => true | None => false end.

Record G (s : state) (ths : list thr) (v : view) (rest : list (list label)) (mid : list bool) : Prop := mk_G {
  g_inv : inv s;
  g_view : view_of_state s = v;
  g_thr : forall t th, nth_error ths t = Some th ->
          nth_error rest t = Some (t_rest th) /\ nth_error mid t = Some (cur_flag th) /\
          Forall (fun l => is_user l = true) (t_rest th) /\
          (forall i, t_cur th = Some i -> parked (pc_at s i) = true /\ pc_at s i <> PDone);
  g_none : forall t, nth_error ths t = None -> nth_error rest t = None /\ nth_error mid t = None;
  g_own : forall i, pc_at s i <> PDone -> exists t th, nth_error ths t = Some th /\ t_cur th = Some i;
  g_uniq : forall t t' th th' i, nth_error ths t = Some th -> nth_error ths t' = Some th' ->
           t_cur th = Some i -> t_cur th' = Some i -> t = t'
}.

Lemma nth_default_list_some : forall T (l : list (list T)) t x, nth_error l t = Some x -> nth_default_list l t = x.
Proof. induction l; intros t x H; destruct t; cbn in *; try discriminate; auto. inversion H; auto. Qed.
Lemma nth_default_list_none : forall T (l : list (list T)) t, nth_error l t = None -> nth_default_list l t = [].
Proof. induction l; intros t H; destruct t; cbn in *; try discriminate; auto. Qed.
Lemma nth_some : forall (l : list bool) t b, nth_error l t = Some b -> nth t l false = b.
Proof. induction l; intros t b H; destruct t; cbn in *; try discriminate; auto. inversion H; auto. Qed.
Lemma nth_none : forall (l : list bool) t, nth_error l t = None -> nth t l false = false.
Proof. induction l; intros t H; destruct t; cbn in *; try discriminate; auto. Qed.
Lemma set_nth_none : forall T t (x : T) l, nth_error l t = None -> set_nth t x l = l.
Proof. induction t; destruct l; cbn; intros; try discriminate; auto. f_equal. auto. Qed.
Lemma set_nth_same : forall T t (x : T) l, nth_error l t = Some x -> set_nth t x l = l.
Proof. induction t; destruct l; cbn; intros H; try discriminate; auto. - inversion H; auto. - f_equal; auto. Qed.
Lemma nth_error_set_nth_none : forall T t (x : T) l j, nth_error l j = None -> nth_error (set_nth t x l) j = None.
Proof. induction t; destruct l, j; cbn; intros; try discriminate; auto. Qed.

Lemma all_done_quiescent : forall s, (forall i, pc_at s i = PDone) -> quiescent s = true.
Proof.
  intros s H. unfold quiescent. apply forallb_forall. intros p Hp.
  apply In_nth_error in Hp. destruct Hp as (i & Hi). specialize (H i). unfold pc_at in H. rewrite Hi in H. subst. reflexivity.
Qed.

Lemma G_quiescent : forall s ths v rest mid, G s ths v rest mid -> forallb negb mid = true -> quiescent s = true.
Proof.
  intros s ths v rest mid g Hm. apply all_done_quiescent. intros i.
  destruct (pc_at s i) eqn:E; auto; exfalso.
  all: destruct (g_own _ _ _ _ _ g i) as (t & th & Ht & Hc); [congruence|];
       destruct (g_thr _ _ _ _ _ g t th Ht) as (_ & Hmid & _);
       apply nth_error_In in Hmid; rewrite forallb_forall in Hm; specialize (Hm _ Hmid);
       unfold cur_flag in Hm; rewrite Hc in Hm; discriminate.
Qed.

Lemma pc_at_user_step : forall s l j, is_user l = true -> j < length (tasks s) -> pc_at (step s l) j = pc_at s j.
Proof.
  intros s l j U Hj. unfold pc_at. destruct (step_user_tasks s l U) as [E | (p & E & _)]; rewrite E; auto.
  rewrite nth_error_app1; auto.
Qed.

Lemma pc_at_range : forall s i, pc_at s i <> PDone -> i < length (tasks s).
Proof.
  intros s i H. unfold pc_at in H. destruct (nth_error (tasks s) i) eqn:E; [|congruence].
  apply nth_error_Some. congruence.
Qed.

Lemma snap_run_lsteps : forall k s i, snap (run_from s (repeat (LStep i) k)) = snap s.
Proof.
  intros. rewrite !snap_view. rewrite view_steps_only by apply lsteps_nonuser. reflexivity.
Qed.

Definition parked_code : forall p, parked p = true -> p <> PDone -> Nat.eqb (pc_code p) 0 = false.
Proof. intros p H Hn. destruct p; cbn in *; try discriminate; congruence. Qed.

Definition upd_view (v : view) (rest : list (list label)) (mid : list bool) (t : nat) : view :=
  if nth t mid false then v else match nth_default_list rest t with [] => v | l :: _ => view_step v l end.
Definition upd_rest (rest : list (list label)) (mid : list bool) (t : nat) : list (list label) :=
  if nth t mid false then rest else set_nth t (tl (nth_default_list rest t)) rest.
Definition upd_mid (mid : list bool) (t : nat) (code : nat) : list bool := set_nth t (negb (Nat.eqb code 0)) mid.

Lemma snap_of_view_state : forall s, snap s = snap_of_view (view_of_state s).
Proof. reflexivity. Qed.

(* G after thread t moved: from a base state s0 that differs from s at most in task i (and in the view), task i was
   advanced by destructor steps; t's program is now r *)
Lemma G_after_lsteps : forall s ths v rest mid t th i k r s0 v',
  G s ths v rest mid -> nth_error ths t = Some th ->
  inv s0 -> view_of_state s0 = v' -> (forall j, j <> i -> pc_at s0 j = pc_at s j) ->
  Forall (fun l => is_user l = true) r ->
  (forall t' th', nth_error ths t' = Some th' -> t_cur th' = Some i -> t' = t) ->
  (forall j, t_cur th = Some j -> j = i) ->
  let s1 := run_from s0 (repeat (LStep i) k) in
  parked (pc_at s1 i) = true ->
  let th1 := mk_thr r (if pc_eqb (pc_at s1 i) PDone then None else Some i) in
  G s1 (set_nth t th1 ths) v' (set_nth t r rest) (set_nth t (negb (Nat.eqb (pc_code (pc_at s1 i)) 0)) mid).
Proof.
  intros s ths v rest mid t th i k r s0 v' g Ht I0 V0 Hoth Hu Huniq Hcur s1 Hp th1.
  assert (Hlen : t < length ths) by (apply nth_error_Some; congruence).
  destruct (g_thr _ _ _ _ _ g t th Ht) as (Hr0 & Hm0 & _ & _).
  assert (Hlr : t < length rest) by (apply nth_error_Some; congruence).
  assert (Hlm : t < length mid) by (apply nth_error_Some; congruence).
  assert (Hflag : negb (Nat.eqb (pc_code (pc_at s1 i)) 0) = cur_flag th1).
  { unfold th1, cur_flag. cbn. destruct (pc_at s1 i); cbn in *; try discriminate; reflexivity. }
  constructor.
  - apply inv_run_from. exact I0.
  - unfold s1. rewrite view_steps_only by apply lsteps_nonuser. exact V0.
  - intros t' th' H'. destruct (Nat.eq_dec t t') as [<-|Hne].
    + rewrite nth_error_set_nth_same in H' by auto. inversion H'; subst th'. cbn [t_rest t_cur].
      split; [apply nth_error_set_nth_same; auto|]. split; [rewrite nth_error_set_nth_same by auto; rewrite Hflag; reflexivity|].
      split; [exact Hu|]. intros j Hj. destruct (pc_eqb (pc_at s1 i) PDone) eqn:E; [discriminate|].
      inversion Hj; subst j. split; auto. intros Hd. rewrite Hd in E. discriminate.
    + rewrite nth_error_set_nth_other in H' by auto.
      destruct (g_thr _ _ _ _ _ g t' th' H') as (H1 & H2 & H3 & H4).
      split; [rewrite nth_error_set_nth_other; auto|]. split; [rewrite nth_error_set_nth_other; auto|]. split; [exact H3|].
      intros j Hj. assert (j <> i) by (intros ->; apply Hne; symmetry; eapply Huniq; eauto).
      unfold s1. rewrite lsteps_other by auto. rewrite Hoth by auto. apply H4; auto.
  - intros t' H'. assert (t' <> t) by (intros ->; rewrite nth_error_set_nth_same in H' by auto; discriminate).
    rewrite nth_error_set_nth_other in H' by auto.
    destruct (g_none _ _ _ _ _ g t' H') as (H1 & H2). split; apply nth_error_set_nth_none; auto.
  - intros j Hj. destruct (Nat.eq_dec j i) as [->|Hne].
    + exists t, th1. split; [apply nth_error_set_nth_same; auto|]. unfold th1. cbn.
      destruct (pc_eqb (pc_at s1 i) PDone) eqn:E; auto. destruct (pc_at s1 i); try discriminate. congruence.
    + unfold s1 in Hj. rewrite lsteps_other in Hj by auto. rewrite Hoth in Hj by auto.
      destruct (g_own _ _ _ _ _ g j Hj) as (t' & th' & Ht' & Hc').
      assert (t' <> t). { intros ->. rewrite Ht in Ht'. inversion Ht'; subst th'. apply Hne. apply Hcur; auto. }
      exists t', th'. split; auto. rewrite nth_error_set_nth_other; auto.
  - intros t1 t2 th1' th2' j H1 H2 C1 C2.
    destruct (Nat.eq_dec t t1) as [<-|N1]; destruct (Nat.eq_dec t t2) as [<-|N2]; auto.
    + rewrite nth_error_set_nth_same in H1 by auto. inversion H1; subst th1'.
      rewrite nth_error_set_nth_other in H2 by auto.
      unfold th1 in C1. cbn in C1. destruct (pc_eqb (pc_at s1 i) PDone); [discriminate|]. inversion C1; subst j.
      symmetry. eapply Huniq; eauto.
    + rewrite nth_error_set_nth_same in H2 by auto. inversion H2; subst th2'.
      rewrite nth_error_set_nth_other in H1 by auto.
      unfold th1 in C2. cbn in C2. destruct (pc_eqb (pc_at s1 i) PDone); [discriminate|]. inversion C2; subst j.
      eapply Huniq; eauto.
    + rewrite nth_error_set_nth_other in H1, H2 by auto. eapply (g_uniq _ _ _ _ _ g); eauto.
Qed.

Lemma emits_lsteps : forall k s i, exists n, emits (run_from s (repeat (LStep i) k)) = emits s ++ repeat (snap s) n.
Proof. intros. apply steps_emits. apply lsteps_nonuser. Qed.

Lemma pc_at_out : forall s j, length (tasks s) <= j -> pc_at s j = PDone.
Proof. intros s j H. unfold pc_at. apply nth_error_None in H. rewrite H. reflexivity. Qed.

Lemma grant_G : forall s ths v rest mid t, G s ths v rest mid ->
  match grant (s, ths) t with
  | ((s1, ths1), code) =>
      G s1 ths1 (upd_view v rest mid t) (upd_rest rest mid t) (upd_mid mid t code) /\
      (exists k, emits s1 = emits s ++ repeat (snap_of_view (upd_view v rest mid t)) k) /\
      (exists ls, s1 = run_from s ls)
  end.
Proof.
  intros s ths v rest mid t g. cbn [grant].
  destruct (nth_error ths t) as [th|] eqn:Ht.
  2: { destruct (g_none _ _ _ _ _ g t Ht) as (Hr & Hm).
       unfold upd_view, upd_rest, upd_mid. rewrite (nth_none _ _ Hm), (nth_default_list_none _ _ _ Hr).
       cbn [tl]. rewrite (set_nth_none _ _ _ _ Hr), (set_nth_none _ _ _ _ Hm).
       split; [exact g|]. split; [exists 0; cbn; rewrite app_nil_r; auto | exists []; reflexivity]. }
  destruct (g_thr _ _ _ _ _ g t th Ht) as (Hr & Hm & Hu & Hc).
  pose proof (g_view _ _ _ _ _ g) as Hv. pose proof (g_inv _ _ _ _ _ g) as Hi.
  destruct (t_cur th) as [i|] eqn:Ec.
  - (* in the middle of a destructor *)
    assert (Hmid : nth t mid false = true) by (rewrite (nth_some _ _ _ Hm); unfold cur_flag; rewrite Ec; reflexivity).
    unfold upd_view, upd_rest, upd_mid. rewrite Hmid.
    destruct (advance_run 8 s i) as (k & Ea).
    pose proof (advance_parks s i) as Hp. rewrite Ea in *.
    pose proof (G_after_lsteps s ths v rest mid t th i k (t_rest th) s v g Ht Hi Hv (fun j _ => eq_refl) Hu) as HG.
    cbv zeta in HG. rewrite (set_nth_same _ t (t_rest th) rest Hr) in HG.
    split; [apply HG; auto|].
    + intros t' th' H1 H2. eapply (g_uniq _ _ _ _ _ g); eauto.
    + intros j Hj. congruence.
    + split; [|eauto]. destruct (emits_lsteps k s i) as (n & En). exists n. rewrite En, snap_of_view_state, Hv. reflexivity.
  - assert (Hmid : nth t mid false = false) by (rewrite (nth_some _ _ _ Hm); unfold cur_flag; rewrite Ec; reflexivity).
    unfold upd_view, upd_rest, upd_mid. rewrite Hmid, (nth_default_list_some _ _ _ _ Hr).
    destruct (t_rest th) as [|l r] eqn:Er.
    + (* nothing left to do *)
      cbn [tl]. rewrite (set_nth_same _ t [] rest Hr).
      assert (Hm' : nth_error mid t = Some false) by (rewrite Hm; unfold cur_flag; rewrite Ec; reflexivity).
      cbn [Nat.eqb negb]. rewrite (set_nth_same _ t false mid Hm').
      split; [exact g|]. split; [exists 0; cbn; rewrite app_nil_r; auto | exists []; reflexivity].
    + (* a new action begins *)
      pose proof (Forall_inv Hu) as Ul. pose proof (Forall_inv_tail Hu) as Ur. cbn [tl].
      assert (Hown_none : forall t' th', nth_error ths t' = Some th' -> forall j, t_cur th' = Some j -> j < length (tasks s)).
      { intros t' th' H1 j H2. destruct (g_thr _ _ _ _ _ g t' th' H1) as (_ & _ & _ & H4).
        apply pc_at_range. apply (H4 j H2). }
      destruct (Nat.ltb (length (tasks s)) (length (tasks (step s l)))) eqn:Eg.
      * apply Nat.ltb_lt in Eg.
        destruct (step_user_tasks s l Ul) as [E | (p & E & _)]; [rewrite E in Eg; lia|].
        set (i := length (tasks s)).
        destruct (advance_run 8 (step s l) i) as (k & Ea).
        pose proof (advance_parks (step s l) i) as Hp. rewrite Ea in *.
        assert (Hoth : forall j, j <> i -> pc_at (step s l) j = pc_at s j).
        { intros j Hj. destruct (Nat.lt_ge_cases j i) as [Hlt|Hge]; [apply pc_at_user_step; auto|].
          rewrite (pc_at_out s j) by (unfold i in *; lia). apply pc_at_out. rewrite E, app_length. cbn. unfold i in *. lia. }
        pose proof (G_after_lsteps s ths v rest mid t th i k r (step s l) (view_step v l) g Ht (inv_step s l Hi)) as HG.
        cbv zeta in HG.
        split; [apply HG; auto|].
        -- rewrite view_step_agrees, Hv. reflexivity.
        -- intros t' th' H1 H2. exfalso. pose proof (Hown_none t' th' H1 i H2). unfold i in *. lia.
        -- intros j Hj. congruence.
        -- split.
           ++ destruct (emits_lsteps k (step s l) i) as (n & En). exists n.
              rewrite En, (user_step_emits s l Ul), snap_of_view_state, view_step_agrees, Hv. reflexivity.
           ++ exists (l :: repeat (LStep i) k). reflexivity.
      * apply Nat.ltb_ge in Eg.
        destruct (step_user_tasks s l Ul) as [E | (p & E & _)]; [|rewrite E, app_length in Eg; cbn in Eg; lia].
        set (i := length (tasks s)).
        assert (Hoth : forall j, j <> i -> pc_at (step s l) j = pc_at s j).
        { intros j _. unfold pc_at. rewrite E. reflexivity. }
        assert (Hpi : pc_at (step s l) i = PDone) by (apply pc_at_out; rewrite E; unfold i; lia).
        pose proof (G_after_lsteps s ths v rest mid t th i 0 r (step s l) (view_step v l) g Ht (inv_step s l Hi)) as HG.
        cbv zeta in HG. cbn [repeat run_from fold_left] in HG. rewrite Hpi in HG. cbn [pc_eqb pc_code Nat.eqb negb] in HG.
        cbn [Nat.eqb negb].
        split; [apply HG; auto|].
        -- rewrite view_step_agrees, Hv. reflexivity.
        -- intros t' th' H1 H2. exfalso. pose proof (Hown_none t' th' H1 i H2). unfold i in *. lia.
        -- intros j Hj. congruence.
        -- split; [exists 0; rewrite (user_step_emits s l Ul); cbn; rewrite app_nil_r; auto | exists [l]; reflexivity].
Qed.


Lemma final_is_run : forall ts s ths v rest mid, G s ths v rest mid ->
  exists ls, fst (final_st (s, ths) ts) = run_from s ls.
Proof.
  induction ts as [|t r IH]; intros s ths v rest mid g.
  - exists []. reflexivity.
  - cbn [final_st fold_left]. unfold gstep at 2.
    pose proof (grant_G s ths v rest mid t g) as H. destruct (grant (s, ths) t) as ((s1 & ths1) & code).
    destruct H as (g1 & _ & (ls1 & E1)). cbn [fst].
    destruct (IH s1 ths1 _ _ _ g1) as (ls2 & E2). exists (ls1 ++ ls2).
    unfold final_st in E2. rewrite E2, E1. unfold run_from. rewrite fold_left_app. reflexivity.
Qed.

Lemma snap_eqb_refl : forall sn, snap_eqb sn sn = true.
Proof.
  intros sn. unfold snap_eqb. rewrite !Nat.eqb_refl. cbn.
  destruct (list_eq_dec N.eq_dec (sn_log sn) (sn_log sn)); auto.
Qed.

Lemma mid_all_false : forall s ths v rest mid, G s ths v rest mid ->
  (forall th, In th ths -> t_cur th = None) -> forallb negb mid = true.
Proof.
  intros s ths v rest mid g H. apply forallb_forall. intros b Hb.
  apply In_nth_error in Hb. destruct Hb as (t & Ht).
  destruct (nth_error ths t) as [th|] eqn:E.
  - destruct (g_thr _ _ _ _ _ g t th E) as (_ & Hm & _). rewrite Hm in Ht. inversion Ht; subst.
    unfold cur_flag. rewrite (H th (nth_error_In _ _ E)). reflexivity.
  - destruct (g_none _ _ _ _ _ g t E) as (_ & Hm). congruence.
Qed.

Lemma forallb_negb_eta : forall l, forallb (fun m : bool => negb m) l = forallb negb l.
Proof. reflexivity. Qed.

(* every observation the scheduled model can produce, under any complete schedule, satisfies the predicate *)
Theorem trace_ok_of_grants : forall ts s ths v rest mid, G s ths v rest mid ->
  (forall th, In th (snd (final_st (s, ths) ts)) -> t_cur th = None) ->
  trace_ok v rest mid (length (emits s)) (zip3 ts (fst (grants (s, ths) ts)))
           (emits (fst (final_st (s, ths) ts))) = true.
Proof.
  induction ts as [|t r IH]; intros s ths v rest mid g Hfin.
  - cbn [grants fst zip3 combine map trace_ok final_st fold_left] in *.
    rewrite forallb_negb_eta, (mid_all_false _ _ _ _ _ g Hfin). cbn [andb].
    pose proof (G_quiescent _ _ _ _ _ g (mid_all_false _ _ _ _ _ g Hfin)) as Q.
    pose proof (quiescent_exact s (g_inv _ _ _ _ _ g) Q) as Hx. rewrite (g_view _ _ _ _ _ g) in Hx.
    rewrite Hx, !Nat.eqb_refl. reflexivity.
  - cbn [final_st fold_left] in *. unfold gstep at 2 in Hfin. unfold gstep at 2.
    cbn [grants].
    pose proof (grant_G s ths v rest mid t g) as H. destruct (grant (s, ths) t) as ((s1 & ths1) & code).
    destruct H as (g1 & (k & Ek) & (ls1 & E1)). cbn [fst] in *.
    destruct (grants (s1, ths1) r) as (o & fin) eqn:Eg.
    cbn [fst zip3 combine map]. fold (zip3 r o).
    cbn [trace_ok]. cbn [fst snd]. rewrite forallb_negb_eta. fold (upd_view v rest mid t). fold (upd_rest rest mid t).
    change (set_nth t (negb (Nat.eqb code 0)) mid) with (upd_mid mid t code).
    specialize (IH s1 ths1 _ _ _ g1 Hfin). rewrite Eg in IH. cbn [fst] in IH. unfold final_st in IH. rewrite IH.
    pose proof (g_inv _ _ _ _ _ g1) as I1. pose proof (g_view _ _ _ _ _ g1) as V1.
    pose proof (emitted_le_1 s1 I1) as Hle.
    assert (Hmono : length (emits s) <= length (emits s1)) by (rewrite Ek, app_length; lia).
    assert (C1 : Nat.leb (length (emits s)) (length (emits s1)) = true) by (apply Nat.leb_le; auto).
    assert (C2 : Nat.leb (length (emits s1)) 1 = true) by (apply Nat.leb_le; auto).
    assert (C3 : (if Nat.eqb (length (emits s1)) 1 then due (upd_view v rest mid t) else true) = true).
    { destruct (Nat.eqb (length (emits s1)) 1) eqn:E; auto. apply Nat.eqb_eq in E.
      rewrite <- V1. apply emitted_due; auto. }
    assert (C5 : (if forallb negb (upd_mid mid t code)
                  then Nat.eqb (length (emits s1)) (if due (upd_view v rest mid t) then 1 else 0) else true) = true).
    { destruct (forallb negb (upd_mid mid t code)) eqn:E; auto.
      pose proof (G_quiescent _ _ _ _ _ g1 E) as Q. rewrite (quiescent_exact s1 I1 Q), V1. apply Nat.eqb_refl. }
    assert (C4 : (if Nat.eqb (length (emits s1)) 1 && Nat.eqb (length (emits s)) 0
                  then match emits (fst (fold_left gstep r (s1, ths1))) with
                       | [sn] => snap_eqb sn (snap_of_view (upd_view v rest mid t)) | _ => false end
                  else true) = true).
    { destruct (Nat.eqb (length (emits s1)) 1 && Nat.eqb (length (emits s)) 0) eqn:E; auto.
      apply andb_prop in E. destruct E as (Ea & Eb). apply Nat.eqb_eq in Ea, Eb.
      destruct (emits s) eqn:Es; [|discriminate]. cbn [app] in Ek.
      assert (Hs1 : emits s1 = [snap_of_view (upd_view v rest mid t)]).
      { rewrite Ek in *. rewrite repeat_length in Ea. subst k. reflexivity. }
      destruct (final_is_run r s1 ths1 _ _ _ g1) as (ls2 & E2). unfold final_st in E2. rewrite E2.
      rewrite (emits_stable ls2 s1 _ I1 Hs1). apply snap_eqb_refl. }
    rewrite C1, C2, C3, C4, C5. reflexivity.
Qed.

Lemma grants_fin : forall ts st, snd (grants st ts) = fst (final_st st ts).
Proof.
  induction ts as [|t r IH]; intros st; cbn [grants final_st fold_left]; auto.
  unfold gstep at 2. destruct (grant st t) as (st1 & c). cbn [fst]. specialize (IH st1).
  destruct (grants st1 r) as (o & fin). cbn [snd] in *. exact IH.
Qed.

Lemma seq_fold_facts : forall ls s, inv s -> quiescent s = true -> Forall (fun l => is_user l = true) ls ->
  inv (fold_left seq_step ls s) /\ quiescent (fold_left seq_step ls s) = true /\
  view_of_state (fold_left seq_step ls s) = fold_left view_step ls (view_of_state s).
Proof.
  induction ls as [|l r IH]; intros s I Q F; cbn [fold_left]; auto.
  inversion F; subst.
  destruct (IH (seq_step s l) (seq_step_inv s l I) (seq_step_quiescent s l I Q H1) H2) as (A & B & C).
  split; auto. split; auto. rewrite C, seq_step_view. reflexivity.
Qed.

Lemma quiescent_all_done : forall s i, quiescent s = true -> pc_at s i = PDone.
Proof.
  intros s i Q. unfold pc_at. destruct (nth_error (tasks s) i) as [p|] eqn:E; auto.
  unfold quiescent in Q. rewrite forallb_forall in Q. specialize (Q p (nth_error_In _ _ E)).
  destruct p; try discriminate. reflexivity.
Qed.

Lemma nth_error_repeat_false : forall n t, t < n -> nth_error (repeat false n) t = Some false.
Proof. induction n; intros t H; [lia|]. destruct t; cbn; auto. apply IHn. lia. Qed.

Lemma G_start : forall s progs, inv s -> quiescent s = true ->
  Forall (Forall (fun l => is_user l = true)) progs ->
  G s (map (fun p => mk_thr p None) progs) (view_of_state s) progs (repeat false (length progs)).
Proof.
  intros s progs I Q F. constructor; auto.
  - intros t th H. rewrite nth_error_map in H. destruct (nth_error progs t) as [p|] eqn:E; [|discriminate].
    inversion H; subst th. cbn [t_rest t_cur cur_flag].
    split; auto. split.
    + unfold cur_flag. cbn. apply nth_error_repeat_false. apply nth_error_Some. congruence.
    + split; [|intros; discriminate]. rewrite Forall_forall in F. apply F. eapply nth_error_In; eauto.
  - intros t H. rewrite nth_error_map in H. destruct (nth_error progs t) eqn:E; [discriminate|].
    split; auto. apply nth_error_None. rewrite repeat_length. apply nth_error_None. auto.
  - intros i H. exfalso. apply H. apply quiescent_all_done; auto.
  - intros t t' th th' i H1 H2 C1. rewrite nth_error_map in H1. destruct (nth_error progs t); [|discriminate].
    inversion H1; subst th. discriminate.
Qed.

(* the top-level statement, in the terms of the harness's cases: a sequential prefix, per-thread programs of user
   actions, any thread sequence after which no thread is left inside a destructor *)
Theorem scheduled_observation_ok : forall (setup : list label) (progs : list (list label)) (ts : list nat),
  Forall (fun l => is_user l = true) setup ->
  Forall (Forall (fun l => is_user l = true)) progs ->
  let s0 := fold_left seq_step setup init in
  let ths := map (fun p => mk_thr p None) progs in
  let v0 := fold_left view_step setup view_init in
  (forall th, In th (snd (final_st (s0, ths) ts)) -> t_cur th = None) ->
  trace_ok v0 progs (repeat false (length progs)) (if due v0 then 1 else 0)
           (zip3 ts (fst (grants (s0, ths) ts))) (emits (snd (grants (s0, ths) ts))) = true.
Proof.
  intros setup progs ts Fs Fp s0 ths v0 Hfin.
  destruct (seq_fold_facts setup init inv_init eq_refl Fs) as (I0 & Q0 & V0). fold s0 in I0, Q0, V0.
  change (fold_left view_step setup (view_of_state init)) with v0 in V0.
  pose proof (G_start s0 progs I0 Q0 Fp) as g. rewrite V0 in g. fold ths in g.
  rewrite grants_fin.
  pose proof (trace_ok_of_grants ts s0 ths v0 progs _ g Hfin) as H.
  rewrite (quiescent_exact s0 I0 Q0), V0 in H. exact H.
Qed.
