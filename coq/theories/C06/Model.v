(* C06 — mechanism model of metrique/src/keep_alive.rs (Parent / Guard / DropAll) and of the
   append-on-drop wrapper in metrique/src/lib.rs (AppendAndCloseOnDrop, handle(), flush_guard(),
   force_flush_guard(), AppendAndCloseOnDropInner::drop).

   A labelled transition system.  One label per atomic action of one thread:
   - user-level actions (create a guard, clone a handle, mutate, *begin* dropping an object) and
   - [LStep i]: the i-th destructor in progress performs its next atomic action
     (an Arc decrement-and-test, Weak::upgrade, lock+take, the closure call, unlock).
   "For all schedules" is "for all label lists".

   What the code does (as read):
     Parent<T> { value: Arc<UnsafeCell<T>>, guard: Guard }      Guard { Arc<Mutex<Option<Box<closure>>>> }
     Parent::new: the closure owns the SECOND strong reference of the value Arc.
     new_guard = clone of the guard Arc;   force_drop_guard = Weak of the guard Arc.
     DropAll::drop: upgrade; lock; take(); call the closure UNDER THE LOCK; unlock; drop the upgraded Arc.
     drop(Parent): field order: value first, then guard.
     T = AppendAndCloseOnDropInner; its Drop closes the entry and appends it to the sink = [emit].
     handle(): Arc<AppendAndCloseOnDrop>, clones share it. *)
From Coq Require Import List NArith Bool Arith.
Import ListNotations.

(* program counter of a destructor in progress *)
Inductive pc :=
| PHDec       (* a handle clone: about to decrement the strong count of Arc<AppendAndCloseOnDrop> *)
| PVDec       (* drop(Parent): about to drop field [value] (decrement the value Arc) *)
| PGDec       (* about to decrement the strong count of the guard Arc (FlushGuard, Parent.guard, upgraded ref) *)
| PSlotDrop   (* the guard Arc reached 0: about to destroy Mutex<Option<closure>> *)
| PUpgrade    (* DropAll::drop: about to Weak::upgrade *)
| PLock       (* holds the upgraded reference: about to lock and take() *)
| PCall       (* holds the lock and the taken closure: about to call it *)
| PUnlock     (* holds the lock: about to release it *)
| PDone.

Definition pc_eqb (a b : pc) : bool :=
  match a, b with
  | PHDec, PHDec | PVDec, PVDec | PGDec, PGDec | PSlotDrop, PSlotDrop | PUpgrade, PUpgrade
  | PLock, PLock | PCall, PCall | PUnlock, PUnlock | PDone, PDone => true
  | _, _ => false
  end.

(* what the counting sink records when [append] is called: who is still alive, and the entry's content *)
Record snapshot := mk_snap {
  sn_owners : nat;      (* owner / handle clones whose drop has not begun *)
  sn_fgs : nat;         (* flush guards whose drop has not begun *)
  sn_forced : nat;      (* force-flush guards whose drop has begun *)
  sn_log : list N       (* the entry as mutated so far *)
}.

Record state := mk {
  (* the user-visible world: objects whose drop has not begun *)
  owners : nat;         (* 1 = the AppendAndCloseOnDrop itself, or the live clones of the handle *)
  handle_mode : bool;   (* handle() was called *)
  fgs : nat;            (* live FlushGuards *)
  ffs : nat;            (* live ForceFlushGuards *)
  forced : nat;         (* ForceFlushGuards whose drop has begun *)
  log : list N;         (* the entry: mutations applied so far, oldest first *)
  (* the mechanism *)
  hrc : nat;            (* strong count of Arc<AppendAndCloseOnDrop> (handle mode) *)
  vrc : nat;            (* strong count of the value Arc *)
  grc : nat;            (* strong count of the guard Arc *)
  closure : bool;       (* the Option in the guard's mutex is Some (the closure owns one value reference) *)
  locked : bool;        (* the guard's mutex is held *)
  parent : bool;        (* Parent's fields are intact (its drop has not yet dropped [value]) *)
  tasks : list pc;      (* destructors in progress (PDone once finished; indices are stable) *)
  (* observation *)
  emits : list snapshot (* calls of EntrySink::append, oldest first *)
}.

Definition init : state :=
  mk 1 false 0 0 0 [] 0 2 1 true false true [] [].

Inductive label :=
| LMutate (v : N)     (* DerefMut / interior mutation through an owner or handle *)
| LMakeHandle         (* AppendAndCloseOnDrop::handle(self) *)
| LCloneHandle        (* AppendAndCloseOnDropHandle::clone *)
| LNewFlush           (* flush_guard(&self): a method of AppendAndCloseOnDrop; a handle derefs to the entry only, *)
| LNewForce           (* force_flush_guard(&self): so no guard can be created once handle() consumed the owner *)
| LDropOwner          (* begin dropping the owner or one handle clone *)
| LDropFlush          (* begin dropping a FlushGuard *)
| LDropForce          (* begin dropping a ForceFlushGuard *)
| LStep (i : nat).    (* destructor i performs its next atomic action *)

Fixpoint set_nth {T} (i : nat) (x : T) (l : list T) : list T :=
  match l, i with
  | [], _ => []
  | _ :: r, O => x :: r
  | y :: r, S j => y :: set_nth j x r
  end.

Definition snap (s : state) : snapshot := mk_snap (owners s) (fgs s) (forced s) (log s).

(* dropping one strong reference of the value Arc; the thread that reaches 0 runs
   AppendAndCloseOnDropInner::drop, i.e. closes the entry and appends it *)
Definition emits_after_vdec (s : state) : list snapshot :=
  if Nat.eqb (pred (vrc s)) 0 then emits s ++ [snap s] else emits s.

Definition step_task (s : state) (i : nat) : state :=
  match nth_error (tasks s) i with
  | None => s
  | Some p =>
    match p with
    | PHDec =>
        let h := pred (hrc s) in
        mk (owners s) (handle_mode s) (fgs s) (ffs s) (forced s) (log s)
           h (vrc s) (grc s) (closure s) (locked s) (parent s)
           (set_nth i (if Nat.eqb h 0 then PVDec else PDone) (tasks s)) (emits s)
    | PVDec =>
        mk (owners s) (handle_mode s) (fgs s) (ffs s) (forced s) (log s)
           (hrc s) (pred (vrc s)) (grc s) (closure s) (locked s) false
           (set_nth i PGDec (tasks s)) (emits_after_vdec s)
    | PGDec =>
        let g := pred (grc s) in
        mk (owners s) (handle_mode s) (fgs s) (ffs s) (forced s) (log s)
           (hrc s) (vrc s) g (closure s) (locked s) (parent s)
           (set_nth i (if Nat.eqb g 0 then PSlotDrop else PDone) (tasks s)) (emits s)
    | PSlotDrop =>
        if closure s then
          mk (owners s) (handle_mode s) (fgs s) (ffs s) (forced s) (log s)
             (hrc s) (pred (vrc s)) (grc s) false (locked s) (parent s)
             (set_nth i PDone (tasks s)) (emits_after_vdec s)
        else
          mk (owners s) (handle_mode s) (fgs s) (ffs s) (forced s) (log s)
             (hrc s) (vrc s) (grc s) false (locked s) (parent s)
             (set_nth i PDone (tasks s)) (emits s)
    | PUpgrade =>
        if Nat.eqb (grc s) 0 then
          mk (owners s) (handle_mode s) (fgs s) (ffs s) (forced s) (log s)
             (hrc s) (vrc s) (grc s) (closure s) (locked s) (parent s)
             (set_nth i PDone (tasks s)) (emits s)
        else
          mk (owners s) (handle_mode s) (fgs s) (ffs s) (forced s) (log s)
             (hrc s) (vrc s) (S (grc s)) (closure s) (locked s) (parent s)
             (set_nth i PLock (tasks s)) (emits s)
    | PLock =>
        if locked s then s   (* blocked on the mutex *)
        else
          mk (owners s) (handle_mode s) (fgs s) (ffs s) (forced s) (log s)
             (hrc s) (vrc s) (grc s) false true (parent s)
             (set_nth i (if closure s then PCall else PUnlock) (tasks s)) (emits s)
    | PCall =>
        mk (owners s) (handle_mode s) (fgs s) (ffs s) (forced s) (log s)
           (hrc s) (pred (vrc s)) (grc s) (closure s) (locked s) (parent s)
           (set_nth i PUnlock (tasks s)) (emits_after_vdec s)
    | PUnlock =>
        mk (owners s) (handle_mode s) (fgs s) (ffs s) (forced s) (log s)
           (hrc s) (vrc s) (grc s) (closure s) false (parent s)
           (set_nth i PGDec (tasks s)) (emits s)
    | PDone => s
    end
  end.

Definition push (s : state) (p : pc) : list pc := tasks s ++ [p].

Definition step (s : state) (l : label) : state :=
  match l with
  | LMutate v =>
      if Nat.ltb 0 (owners s) then
        mk (owners s) (handle_mode s) (fgs s) (ffs s) (forced s) (log s ++ [v])
           (hrc s) (vrc s) (grc s) (closure s) (locked s) (parent s) (tasks s) (emits s)
      else s
  | LMakeHandle =>
      if Nat.eqb (owners s) 1 && negb (handle_mode s) then
        mk (owners s) true (fgs s) (ffs s) (forced s) (log s)
           1 (vrc s) (grc s) (closure s) (locked s) (parent s) (tasks s) (emits s)
      else s
  | LCloneHandle =>
      if Nat.ltb 0 (owners s) && handle_mode s then
        mk (S (owners s)) (handle_mode s) (fgs s) (ffs s) (forced s) (log s)
           (S (hrc s)) (vrc s) (grc s) (closure s) (locked s) (parent s) (tasks s) (emits s)
      else s
  | LNewFlush =>
      if Nat.ltb 0 (owners s) && negb (handle_mode s) then
        mk (owners s) (handle_mode s) (S (fgs s)) (ffs s) (forced s) (log s)
           (hrc s) (vrc s) (S (grc s)) (closure s) (locked s) (parent s) (tasks s) (emits s)
      else s
  | LNewForce =>
      if Nat.ltb 0 (owners s) && negb (handle_mode s) then
        mk (owners s) (handle_mode s) (fgs s) (S (ffs s)) (forced s) (log s)
           (hrc s) (vrc s) (grc s) (closure s) (locked s) (parent s) (tasks s) (emits s)
      else s
  | LDropOwner =>
      if Nat.ltb 0 (owners s) then
        mk (pred (owners s)) (handle_mode s) (fgs s) (ffs s) (forced s) (log s)
           (hrc s) (vrc s) (grc s) (closure s) (locked s) (parent s)
           (push s (if handle_mode s then PHDec else PVDec)) (emits s)
      else s
  | LDropFlush =>
      if Nat.ltb 0 (fgs s) then
        mk (owners s) (handle_mode s) (pred (fgs s)) (ffs s) (forced s) (log s)
           (hrc s) (vrc s) (grc s) (closure s) (locked s) (parent s)
           (push s PGDec) (emits s)
      else s
  | LDropForce =>
      if Nat.ltb 0 (ffs s) then
        mk (owners s) (handle_mode s) (fgs s) (pred (ffs s)) (S (forced s)) (log s)
           (hrc s) (vrc s) (grc s) (closure s) (locked s) (parent s)
           (push s PUpgrade) (emits s)
      else s
  | LStep i => step_task s i
  end.

Definition run_from (s : state) (ls : list label) : state := fold_left step ls s.
Definition run (ls : list label) : state := run_from init ls.

(* no destructor is in progress *)
Definition quiescent (s : state) : bool := forallb (fun p => pc_eqb p PDone) (tasks s).

(* ---- sequential execution: a user action whose destructor runs to completion before the next one.
   A destructor takes at most 6 atomic steps (upgrade, lock, call, unlock, decrement, slot drop). *)
Definition is_user (l : label) : bool := match l with LStep _ => false | _ => true end.

Fixpoint iter_step (n : nat) (i : nat) (s : state) : state :=
  match n with O => s | S k => iter_step k i (step_task s i) end.

Definition seq_step (s : state) (l : label) : state :=
  let s1 := step s l in
  if Nat.ltb (length (tasks s)) (length (tasks s1)) then iter_step 6 (length (tasks s)) s1 else s1.

(* the observation after every action of a sequential history: number of appends so far *)
Fixpoint seq_observe (s : state) (ls : list label) : list nat :=
  match ls with
  | [] => []
  | l :: r => let s1 := seq_step s l in length (emits s1) :: seq_observe s1 r
  end.
Definition seq_run (ls : list label) : state := fold_left seq_step ls init.

(* ---- scheduled execution at the granularity of the sync points.
   The harness parks each logical thread at the beginning of every action and at the sync points inside
   DropAll::drop ("upgraded" = before the lock, "taken" = before the closure call, "unlocked" = before the
   upgraded reference is released); one grant lets one thread run to its next sync point.  A grant is a
   short label list of the LTS. *)
Record thr := mk_thr { t_rest : list label; t_cur : option nat }.

Definition pc_at (s : state) (i : nat) : pc :=
  match nth_error (tasks s) i with Some p => p | None => PDone end.

(* does the thread park after the step p0 -> p1 ? *)
Definition stop_after (p0 p1 : pc) : bool :=
  match p1 with
  | PDone | PLock | PCall => true
  | PGDec => match p0 with PUnlock => true | _ => false end
  | _ => false
  end.

Fixpoint advance (fuel : nat) (s : state) (i : nat) : state :=
  match fuel with
  | O => s
  | S k => let s1 := step_task s i in
           if stop_after (pc_at s i) (pc_at s1 i) then s1 else advance k s1 i
  end.

(* the sync point a parked thread reports: 0 between actions, 1 upgraded, 2 taken, 3 unlocked *)
Definition pc_code (p : pc) : nat :=
  match p with PLock => 1 | PCall => 2 | PGDec => 3 | _ => 0 end.

Definition grant (st : state * list thr) (t : nat) : (state * list thr) * nat :=
  let '(s, ths) := st in
  match nth_error ths t with
  | None => (st, 0)
  | Some th =>
    match t_cur th with
    | Some i =>
        let s1 := advance 8 s i in
        let p := pc_at s1 i in
        ((s1, set_nth t (mk_thr (t_rest th) (if pc_eqb p PDone then None else Some i)) ths), pc_code p)
    | None =>
        match t_rest th with
        | [] => (st, 0)
        | l :: r =>
            let s0 := step s l in
            if Nat.ltb (length (tasks s)) (length (tasks s0)) then
              let i := length (tasks s) in
              let s1 := advance 8 s0 i in
              let p := pc_at s1 i in
              ((s1, set_nth t (mk_thr r (if pc_eqb p PDone then None else Some i)) ths), pc_code p)
            else ((s0, set_nth t (mk_thr r None) ths), 0)
        end
    end
  end.

(* observation of a scheduled run: after every grant, the sync point reached and the number of appends *)
Fixpoint grants (st : state * list thr) (ts : list nat) : list (nat * nat) * state :=
  match ts with
  | [] => ([], fst st)
  | t :: r => let '(st1, c) := grant st t in
              let '(o, fin) := grants st1 r in
              ((c, length (emits (fst st1))) :: o, fin)
  end.

(* the threads' states after a sequence of grants; the observation paired with the granted threads *)
Definition gstep (st : state * list thr) (t : nat) : state * list thr := fst (grant st t).
Definition final_st (st : state * list thr) (ts : list nat) : state * list thr := fold_left gstep ts st.
Definition zip3 (ts : list nat) (obs : list (nat * nat)) : list (nat * nat * nat) :=
  map (fun p => (fst p, fst (snd p), snd (snd p))) (combine ts obs).
