(* C15 — mechanism model of the entry / value wrappers.

   What the code does is *wrap the writer*: `WithDimensions<E>::write(w)` runs the inner entry against a
   `Wrapper { value: w, dimensions }` whose `value(name, v)` hands the next writer a `Wrapper { value: v, .. }`
   whose `write(vw)` runs `v` against a `Wrapper { value: vw, .. }` whose `metric(..)` finally chains the extra
   dimensions.  `BoxEntry` does the same with the Dyn* double-dispatch bridge, `ForceFlag` with flag merging,
   `WithGlobalDimensions` with a deny list.  The model follows that structure literally: entries and values are
   deep embeddings, writers are stacks of wrapper objects above the terminal (the format), and the trace is what
   the terminal records.  Nothing here says what a wrapper is *for*; that is Spec.v.

   Anchors: metrique-writer-core/src/entry/{mod,boxed,merged}.rs, value/{mod,dimensions,force,flags}.rs,
   metrique-writer/src/entry/dimensions.rs, metrique-writer/src/{stream,format}.rs, metrique/src/lib.rs (RootEntry),
   metrique-core/src/{close_value_impls,inflectable_entry_impls}.rs (InflectableEntry twins). *)
From Coq Require Import List NArith Bool.
From MV Require Import Common.Sx.
Import ListNotations.
Local Open Scope N_scope.

Definition str := bytes.
Definition dims := list (str * str).
Definition group := list (str * str).

(* Observation: floats travel as IEEE bit patterns; no wrapper computes with them *)
Inductive obs := OUnsigned (n : N) | OFloat (bits : N) | ORepeated (total_bits : N) (occ : N).

(* ---- MetricFlags (value/flags.rs) ----
   FEmf m    : metrique-writer-format-emf's EmfOptions, m = 0 HighStorageResolution, 1 NoMetric; merge = max
   FUser k   : a user-defined option type whose try_merge accepts its own type only and is not commutative:
               a.try_merge(b) = (2a + b + 1) mod 16  (defined in the harness; any user type is allowed)
   FOpaque k : option types that keep the trait's default try_merge (= None), e.g. test_util::TestFlagOpt *)
Inductive flagv := FEmf (m : N) | FUser (k : N) | FOpaque (k : N).
Definition flags := option flagv.

(* <dyn MetricOptions>::try_merge(f1, f2) *)
Definition opt_merge (f1 f2 : flagv) : option flagv :=
  match f1, f2 with
  | FEmf a, FEmf b => Some (FEmf (N.max b a))
  | FUser a, FUser b => Some (FUser ((2 * a + b + 1) mod 16))
  | _, _ => None
  end.
(* MetricFlags::try_merge; None = panic!("unable to merge") *)
Definition try_merge (a b : flags) : option flags :=
  match a, b with
  | None, None => Some None
  | Some _, None => Some a
  | None, Some _ => Some b
  | Some x, Some y => match opt_merge x y with Some m => Some (Some m) | None => None end
  end.

(* What the terminal ValueWriter records for one `value(name, v)` call on the terminal EntryWriter.
   VPanic: the call unwound before the ValueWriter was reached. *)
Inductive vcall :=
| VNone
| VString (s : str)
| VError (msgs : list str)
| VMetric (os : list obs) (u : N) (ds : dims) (fl : flags)
| VPanic.

Inductive item := ITimestamp (t : N) | IConfig (c : N) | IValue (name : str) (v : vcall).

(* ---- ValueWriter wrapper objects ---- *)
Inductive vwriter :=
| VWTerm
| VWDims (w : vwriter) (d : dims)     (* value/dimensions.rs  Wrapper<W> as ValueWriter *)
| VWGDims (w : vwriter) (d : dims)    (* metrique-writer entry/dimensions.rs  ValueWriterWrapper *)
| VWForce (w : vwriter) (f : flagv)   (* value/force.rs  Wrapper<W, FLAGS> *)
| VWDyn (w : vwriter).                (* boxed.rs  ValueWriterFromDyn(&mut ValueWriterToDyn(Some(w))) *)

Fixpoint vw_string (w : vwriter) (s : str) : vcall :=
  match w with
  | VWTerm => VString s
  | VWDims w' _ | VWGDims w' _ | VWForce w' _ | VWDyn w' => vw_string w' s
  end.
Fixpoint vw_error (w : vwriter) (e : list str) : vcall :=
  match w with
  | VWTerm => VError e
  | VWDims w' _ | VWGDims w' _ | VWForce w' _ | VWDyn w' => vw_error w' e
  end.
Fixpoint vw_metric (w : vwriter) (os : list obs) (u : N) (ds : dims) (fl : flags) : vcall :=
  match w with
  | VWTerm => VMetric os u ds fl
  | VWDims w' d => vw_metric w' os u (ds ++ d) fl            (* dimensions.chain(self.dimensions) *)
  | VWGDims w' d => vw_metric w' os u (ds ++ d) fl
  | VWForce w' f =>
      match try_merge fl (Some f) with                       (* flags.try_merge(FLAGS::construct()) *)
      | Some fl' => vw_metric w' os u ds fl'
      | None => VPanic
      end
  | VWDyn w' => vw_metric w' os u ds fl                      (* collected into SmallVecs, replayed as slices *)
  end.

(* ---- values ---- *)
Inductive cont := CRef | CBox | CArc | CCow.

(* ValueFormatter liftings (value/formatter.rs): the blanket impls for &V, Option<V>, Box<V>, Arc<V>, Cow<V> *)
Inductive lift := LRef | LSome | LNone | LBox | LArc | LCow.
Fixpoint reaches (ls : list lift) : bool :=
  match ls with [] => true | LNone :: _ => false | _ :: r => reaches r end.

Inductive wvalue :=
| PlainV (c : vcall)                  (* user value: performs exactly this call; VNone = no call; VPanic = panics *)
| ContV (k : cont) (v : wvalue)       (* &T, Box<T>, Arc<T>, Cow<T>  (value/mod.rs) *)
| OptNoneV
| OptSomeV (v : wvalue)
| WithDimsV (v : wvalue) (d : dims)   (* WithDimensions<V, N>  and the private Wrapper<V> *)
| ForceV (v : wvalue) (f : flagv)     (* ForceFlag<V, FLAGS> *)
| GDimsV (v : wvalue) (d : dims)      (* private ValueWrapper of WithGlobalDimensions *)
| DynV (v : wvalue)                   (* private ValueFromDyn(&ValueToDyn(v)) of BoxEntry *)
| FormattedV (ls : list lift) (c : vcall)  (* FormattedValue<T, F> where T = ls (outermost first) over a base type whose
                                              formatter F performs call c: Option = None stops, the others deref *)
| ToStringV (s : str).                (* FormattedValue<T, ToString, NotLifted>: writer.string(&value.to_string()) *)

Fixpoint vwrite (v : wvalue) (w : vwriter) : vcall :=
  match v with
  | PlainV VNone => VNone
  | PlainV (VString s) => vw_string w s
  | PlainV (VError e) => vw_error w e
  | PlainV (VMetric os u ds fl) => vw_metric w os u ds fl
  | PlainV VPanic => VPanic
  | ContV _ v' => vwrite v' w
  | OptNoneV => VNone
  | OptSomeV v' => vwrite v' w
  | WithDimsV v' d => vwrite v' (VWDims w d)
  | ForceV v' f => vwrite v' (VWForce w f)
  | GDimsV v' d => vwrite v' (VWGDims w d)
  | DynV v' => vwrite v' (VWDyn w)
  | FormattedV ls c =>
      if reaches ls then
        match c with
        | VNone => VNone
        | VString s => vw_string w s
        | VError e => vw_error w e
        | VMetric os u ds fl => vw_metric w os u ds fl
        | VPanic => VPanic
        end
      else VNone
  | ToStringV s => vw_string w s
  end.

(* ---- EntryWriter wrapper objects ---- *)
Fixpoint mem (n : str) (l : list str) : bool :=
  match l with [] => false | x :: r => if list_eq_dec N.eq_dec n x then true else mem n r end.

Inductive ewriter :=
| EWTerm
| EWMut (w : ewriter)                               (* impl EntryWriter for &mut W *)
| EWDims (w : ewriter) (d : dims)                   (* value/dimensions.rs Wrapper<W> as EntryWriter *)
| EWGDims (w : ewriter) (d : dims) (deny : list str)(* entry/dimensions.rs EntryWriterWrapper *)
| EWForce (w : ewriter) (f : flagv)                 (* ForceFlagEntryWriter (writer-core and metrique-core copies) *)
| EWDyn (w : ewriter).                              (* EntryWriterFromDyn(&mut EntryWriterToDyn(w)) *)

Fixpoint ew_timestamp (w : ewriter) (t : N) : item :=
  match w with
  | EWTerm => ITimestamp t
  | EWMut w' | EWDims w' _ | EWGDims w' _ _ | EWForce w' _ | EWDyn w' => ew_timestamp w' t
  end.
Fixpoint ew_config (w : ewriter) (c : N) : item :=
  match w with
  | EWTerm => IConfig c
  | EWMut w' | EWDims w' _ | EWGDims w' _ _ | EWForce w' _ | EWDyn w' => ew_config w' c
  end.
Fixpoint ew_value (w : ewriter) (n : str) (v : wvalue) : item :=
  match w with
  | EWTerm => IValue n (vwrite v VWTerm)
  | EWMut w' => ew_value w' n v
  | EWDims w' d => ew_value w' n (WithDimsV (ContV CRef v) d)
  | EWGDims w' d deny =>
      if mem n deny then ew_value w' n v else ew_value w' n (GDimsV (ContV CRef v) d)
  | EWForce w' f => ew_value w' n (ForceV (ContV CRef v) f)
  | EWDyn w' => ew_value w' n (DynV v)
  end.

(* ---- entries ---- *)
Inductive sitem := STimestamp (t : N) | SConfig (c : N) | SValue (n : str) (v : wvalue).

Inductive wentry :=
| Plain (s : list sitem) (g : group)     (* user entry: performs exactly these calls; sample_group = g *)
| Empty                                  (* EmptyEntry *)
| Boxed (e : wentry)                     (* BoxEntry *)
| Merged (a b : wentry)
| MergedRef (a b : wentry)
| ContE (k : cont) (e : wentry)          (* &T, Box<T>, Arc<T>, Cow<T>  (entry/mod.rs) *)
| OptNoneE
| OptSomeE (e : wentry)
| WithDimsE (e : wentry) (d : dims)      (* impl Entry for WithDimensions<E, N> *)
| WithGDimsE (e : wentry) (d : dims) (deny : list str)
| ForceE (e : wentry) (f : flagv)        (* impl Entry for ForceFlag<E, FLAGS> *)
| Root (e : wentry)                      (* RootEntry<M: InflectableEntry> *)
(* the InflectableEntry twins in metrique-core *)
| ContI (k : cont) (e : wentry)
| OptNoneI
| OptSomeI (e : wentry)
| WithDimsI (e : wentry) (d : dims)
| ForceI (e : wentry) (f : flagv).

Definition is_panic (i : item) : bool := match i with IValue _ VPanic => true | _ => false end.
Definition panicked (l : list item) : bool := existsb is_panic l.
(* a; b  where a panic in a unwinds past b *)
Definition seq (a b : list item) : list item := if panicked a then a else a ++ b.

Definition ew_item (w : ewriter) (it : sitem) : item :=
  match it with
  | STimestamp t => ew_timestamp w t
  | SConfig c => ew_config w c
  | SValue n v => ew_value w n v
  end.
Fixpoint run_script (s : list sitem) (w : ewriter) : list item :=
  match s with
  | [] => []
  | it :: r => let i := ew_item w it in if is_panic i then [i] else i :: run_script r w
  end.

Fixpoint ewrite (e : wentry) (w : ewriter) : list item :=
  match e with
  | Plain s _ => run_script s w
  | Empty | OptNoneE | OptNoneI => []
  | Boxed e' => ewrite e' (EWDyn (EWMut w))
  | Merged a b | MergedRef a b => seq (ewrite a w) (ewrite b w)
  | ContE _ e' | ContI _ e' | OptSomeE e' | OptSomeI e' | Root e' => ewrite e' w
  | WithDimsE e' d | WithDimsI e' d => ewrite e' (EWDims (EWMut w) d)
  | WithGDimsE e' d deny => ewrite e' (EWGDims (EWMut w) d deny)
  | ForceE e' f | ForceI e' f => ewrite e' (EWForce w f)
  end.

(* what a format sees *)
Definition calls (e : wentry) : list item := ewrite e EWTerm.

(* Entry::sample_group / InflectableEntry::sample_group, impl by impl (after the repair
   "fix: forward sample_group through WithDimensions, ForceFlag and WithGlobalDimensions") *)
Fixpoint sgroup (e : wentry) : group :=
  match e with
  | Plain _ g => g
  | Empty | OptNoneE | OptNoneI => []
  | Boxed e' => sgroup e'                                (* collected into a SmallVec, iterated *)
  | Merged a b | MergedRef a b => sgroup a ++ sgroup b   (* chain *)
  | ContE _ e' | ContI _ e' | OptSomeE e' | OptSomeI e' | Root e' => sgroup e'
  | WithDimsE e' _ | WithDimsI e' _ | WithGDimsE e' _ _ | ForceE e' _ | ForceI e' _ => sgroup e'
  end.

(* The mechanism as it was before the repair: these five impls had no sample_group method, so the trait
   default (the empty group) applied.  Kept for the refutation lemma and the corpus witnesses. *)
Fixpoint sgroup_before_fix (e : wentry) : group :=
  match e with
  | Plain _ g => g
  | Empty | OptNoneE | OptNoneI => []
  | Boxed e' => sgroup_before_fix e'
  | Merged a b | MergedRef a b => sgroup_before_fix a ++ sgroup_before_fix b
  | ContE _ e' | ContI _ e' | OptSomeE e' | OptSomeI e' | Root e' => sgroup_before_fix e'
  | WithDimsE _ _ | WithDimsI _ _ | WithGDimsE _ _ _ | ForceE _ _ | ForceI _ _ => []
  end.

(* ---- stream / format adapters (metrique-writer stream.rs, format.rs; ForceFlag<S> in force.rs) ----
   The entry a terminal stream (numbered) is handed for one `next(entry)` / `format(entry, out)`. *)
Inductive wstream :=
| STerm (id : N)
| SMergeGlobals (s : wstream) (g : wentry)
| SMergeGDims (s : wstream) (d : dims) (deny : list str)
| SForce (s : wstream) (f : flagv)
| STee (a b : wstream)
| SOutputTo (s : wstream).                 (* FormatExt::output_to: FormattedEntryIoStream; below it the adapters act as Formats *)

Fixpoint deliver (s : wstream) (e : wentry) : list (N * wentry) :=
  match s with
  | STerm id => [(id, e)]
  | SMergeGlobals s' g => deliver s' (MergedRef g e)              (* self.globals.merge_by_ref(entry) *)
  | SMergeGDims s' d deny =>
      match d with
      | [] => deliver s' (ContE CRef e)                           (* self.stream.next(&entry) *)
      | _ => deliver s' (WithGDimsE (ContE CRef e) d deny)        (* WithGlobalDimensions::new(entry, ..), entry : &E *)
      end
  | SForce s' f => deliver s' (ForceE (ContE CRef e) f)           (* ForceFlag(entry, PhantomData), entry : &E *)
  | STee a b => deliver a e ++ deliver b e
  | SOutputTo s' => deliver s' e                                  (* self.format.format(entry, &mut self.output) *)
  end.

(* The Result of `next` / `format`: terminals numbered 256 and up fail with their number.  Tee evaluates both
   sides (`s1.next(e).and(s2.next(e))`), so both are delivered to, and reports the first error. *)
Definition term_fails (id : N) : bool := 256 <=? id.
Fixpoint sresult (s : wstream) : option N :=
  match s with
  | STerm id => if term_fails id then Some id else None
  | SMergeGlobals s' _ | SMergeGDims s' _ _ | SForce s' _ | SOutputTo s' => sresult s'
  | STee a b => match sresult a with Some e => Some e | None => sresult b end
  end.

(* ---- an adapter instance fed a SEQUENCE of entries ----
   The adapters are structs (`MergeGlobals { stream, globals }`, `MergeGlobalDimensions { stream, global_dimensions,
   global_dimensions_denylist }`, `Tee { s1, s2 }`, `ForceFlag(S, _)`); `next(&mut self, entry)` / `format(&mut self, ..)`
   borrow their fields (the dimensions and the deny list are cloned into the per-entry wrapper) and assign none of
   them, whatever the inner stream returns.  [snext] is one call: it returns the adapter as it is afterwards, the
   Result and what each terminal was handed.  Terminals fail when told to: [fs] lists (terminal, index of the call,
   kind: 0 = IoStreamError::Validation, 1 = IoStreamError::Io); terminals numbered 256 and up always fail. *)
Definition failspec := list (N * nat * N).
Fixpoint fails_at (fs : failspec) (id : N) (k : nat) : option N :=
  match fs with
  | [] => None
  | (id', k', kind) :: r => if N.eqb id id' && Nat.eqb k k' then Some kind else fails_at r id k
  end.
Definition term_result (fs : failspec) (id : N) (k : nat) : option (N * N) :=
  if term_fails id then Some (id, 0) else match fails_at fs id k with Some kind => Some (id, kind) | None => None end.

Fixpoint snext (fs : failspec) (k : nat) (s : wstream) (e : wentry) : wstream * option (N * N) * list (N * wentry) :=
  match s with
  | STerm id => (s, term_result fs id k, [(id, e)])
  | SMergeGlobals s' g =>
      let '(s1, r, d) := snext fs k s' (MergedRef g e) in (SMergeGlobals s1 g, r, d)
  | SMergeGDims s' dm deny =>
      let '(s1, r, d) := snext fs k s' (match dm with [] => ContE CRef e | _ => WithGDimsE (ContE CRef e) dm deny end) in
      (SMergeGDims s1 dm deny, r, d)
  | SForce s' f => let '(s1, r, d) := snext fs k s' (ForceE (ContE CRef e) f) in (SForce s1 f, r, d)
  | STee a b =>
      let '(a1, r1, d1) := snext fs k a e in
      let '(b1, r2, d2) := snext fs k b e in          (* both sides evaluated: r1.and(r2) with eager r2 *)
      (STee a1 b1, match r1 with Some x => Some x | None => r2 end, d1 ++ d2)
  | SOutputTo s' => let '(s1, r, d) := snext fs k s' e in (SOutputTo s1, r, d)
  end.

(* entries k, k+1, ... through one instance *)
Fixpoint sfeed (fs : failspec) (k : nat) (s : wstream) (es : list wentry) : list (option (N * N) * list (N * wentry)) :=
  match es with
  | [] => []
  | e :: r => let '(s1, res, d) := snext fs k s e in (res, d) :: sfeed fs (Datatypes.S k) s1 r
  end.
