(* C15 — wire codec: s-expression <-> wrapped entries / recorded items. *)
(* DISPATCH 1500 c15_run *)
(* DISPATCH 1501 c15_spec *)
From Coq Require Import List ZArith NArith Bool.
From MV Require Import Common.Sx C15.Model C15.Spec.
Import ListNotations.

Definition dec_pair (x : sx) : str * str := (sx_bytes (sx_nth x 0), sx_bytes (sx_nth x 1)).
Definition dec_dims (x : sx) : dims := map dec_pair (sx_list x).
Definition dec_strs (x : sx) : list str := map sx_bytes (sx_list x).
Definition dec_obs (x : sx) : obs :=
  match sx_tag x with
  | 0%Z => OUnsigned (sx_n (sx_arg x 0))
  | 1%Z => OFloat (sx_n (sx_arg x 0))
  | _ => ORepeated (sx_n (sx_arg x 0)) (sx_n (sx_arg x 1))
  end.
Definition dec_flagv (x : sx) : flagv :=
  match sx_tag x with
  | 0%Z => FEmf (sx_n (sx_arg x 0))
  | 1%Z => FUser (sx_n (sx_arg x 0))
  | _ => FOpaque (sx_n (sx_arg x 0))
  end.
Definition dec_vcall (x : sx) : vcall :=
  match sx_tag x with
  | 0%Z => VNone
  | 1%Z => VString (sx_bytes (sx_arg x 0))
  | 2%Z => VError (dec_strs (sx_arg x 0))
  | 3%Z => VMetric (map dec_obs (sx_list (sx_arg x 0))) (sx_n (sx_arg x 1)) (dec_dims (sx_arg x 2))
                   (sx_option dec_flagv (sx_arg x 3))
  | _ => VPanic
  end.
Definition dec_cont (x : sx) : cont :=
  match sx_z x with 0%Z => CRef | 1%Z => CBox | 2%Z => CArc | _ => CCow end.

Definition dec_lift (x : sx) : lift :=
  match sx_z x with 0%Z => LRef | 1%Z => LSome | 2%Z => LNone | 3%Z => LBox | 4%Z => LArc | _ => LCow end.
Fixpoint dec_value (fuel : nat) (x : sx) : wvalue :=
  match fuel with
  | O => PlainV VNone
  | Datatypes.S k =>
    match sx_tag x with
    | 0%Z => PlainV (dec_vcall (sx_arg x 0))
    | 1%Z => ContV (dec_cont (sx_arg x 0)) (dec_value k (sx_arg x 1))
    | 2%Z => OptNoneV
    | 3%Z => OptSomeV (dec_value k (sx_arg x 0))
    | 4%Z => WithDimsV (dec_value k (sx_arg x 0)) (dec_dims (sx_arg x 1))
    | 5%Z => ForceV (dec_value k (sx_arg x 0)) (dec_flagv (sx_arg x 1))
    | 6%Z => GDimsV (dec_value k (sx_arg x 0)) (dec_dims (sx_arg x 1))
    | 7%Z => DynV (dec_value k (sx_arg x 0))
    | 8%Z => FormattedV (map dec_lift (sx_list (sx_arg x 0))) (dec_vcall (sx_arg x 1))
    | _ => ToStringV (sx_bytes (sx_arg x 0))
    end
  end.
Definition FUEL := 64%nat.

(* (2 name value flavour): the flavour (how the harness passes the name: borrowed / owned) is not modelled *)
Definition dec_sitem (x : sx) : sitem :=
  match sx_tag x with
  | 0%Z => STimestamp (sx_n (sx_arg x 0))
  | 1%Z => SConfig (sx_n (sx_arg x 0))
  | _ => SValue (sx_bytes (sx_arg x 0)) (dec_value FUEL (sx_arg x 1))
  end.

Fixpoint dec_entry (fuel : nat) (x : sx) : wentry :=
  match fuel with
  | O => Empty
  | Datatypes.S k =>
    let sub i := dec_entry k (sx_arg x i) in
    match sx_tag x with
    | 0%Z => Plain (map dec_sitem (sx_list (sx_arg x 0))) (dec_dims (sx_arg x 1))
    | 1%Z => Empty
    | 2%Z => Boxed (sub 0%nat)
    | 3%Z => Merged (sub 0%nat) (sub 1%nat)
    | 4%Z => MergedRef (sub 0%nat) (sub 1%nat)
    | 5%Z => ContE (dec_cont (sx_arg x 0)) (sub 1%nat)
    | 6%Z => OptNoneE
    | 7%Z => OptSomeE (sub 0%nat)
    | 8%Z => WithDimsE (sub 0%nat) (dec_dims (sx_arg x 1))
    | 9%Z => WithGDimsE (sub 0%nat) (dec_dims (sx_arg x 1)) (dec_strs (sx_arg x 2))
    | 10%Z => ForceE (sub 0%nat) (dec_flagv (sx_arg x 1))
    | 11%Z => Root (sub 0%nat)
    | 12%Z => ContI (dec_cont (sx_arg x 0)) (sub 1%nat)
    | 13%Z => OptNoneI
    | 14%Z => OptSomeI (sub 0%nat)
    | 15%Z => WithDimsI (sub 0%nat) (dec_dims (sx_arg x 1))
    | _ => ForceI (sub 0%nat) (dec_flagv (sx_arg x 1))
    end
  end.

Fixpoint dec_stream (fuel : nat) (x : sx) : wstream :=
  match fuel with
  | O => STerm 0
  | Datatypes.S k =>
    match sx_tag x with
    | 0%Z => STerm (sx_n (sx_arg x 0))
    | 1%Z => SMergeGlobals (dec_stream k (sx_arg x 0)) (dec_entry FUEL (sx_arg x 1))
    | 2%Z => SMergeGDims (dec_stream k (sx_arg x 0)) (dec_dims (sx_arg x 1)) (dec_strs (sx_arg x 2))
    | 3%Z => SForce (dec_stream k (sx_arg x 0)) (dec_flagv (sx_arg x 1))
    | 4%Z => STee (dec_stream k (sx_arg x 0)) (dec_stream k (sx_arg x 1))
    | _ => SOutputTo (dec_stream k (sx_arg x 0))
    end
  end.

(* ---- encoders for what the terminal recorded ---- *)
Definition enc_pair (p : str * str) : sx := L [B (fst p); B (snd p)].
Definition enc_dims (d : dims) : sx := L (map enc_pair d).
Definition enc_obs (o : obs) : sx :=
  match o with
  | OUnsigned n => tagged 0 [of_n n]
  | OFloat b => tagged 1 [of_n b]
  | ORepeated t n => tagged 2 [of_n t; of_n n]
  end.
Definition enc_flagv (f : flagv) : sx :=
  match f with
  | FEmf m => tagged 0 [of_n m]
  | FUser k => tagged 1 [of_n k]
  | FOpaque k => tagged 2 [of_n k]
  end.
Definition enc_vcall (c : vcall) : sx :=
  match c with
  | VNone => tagged 0 []
  | VString s => tagged 1 [B s]
  | VError e => tagged 2 [L (map B e)]
  | VMetric os u ds fl => tagged 3 [L (map enc_obs os); of_n u; enc_dims ds; of_option enc_flagv fl]
  | VPanic => tagged 4 []
  end.
Definition enc_item (i : item) : sx :=
  match i with
  | ITimestamp t => tagged 0 [of_n t]
  | IConfig c => tagged 1 [of_n c]
  | IValue n c => tagged 2 [B n; enc_vcall c]
  end.
Definition enc_seen (f : wentry -> list item) (g : wentry -> group) (e : wentry) : sx :=
  L [L (map enc_item (f e)); enc_dims (g e)].

(* case: (0 entry)  -> (items group)
         (1 stream entry) -> (result ((id items group) ...)) deliveries in order; result = () or (failing terminal) *)
Definition dec_fail (x : sx) : N * nat * N := (sx_n (sx_nth x 0), sx_nat (sx_nth x 1), sx_n (sx_nth x 2)).
Definition enc_result (r : option (N * N)) : sx := of_option (fun p : N * N => L [of_n (fst p); of_n (snd p)]) r.
Definition enc_deliveries (f : wentry -> list item) (g : wentry -> group) (d : list (N * wentry)) : sx :=
  L (map (fun p : N * wentry => L [of_n (fst p); enc_seen f g (snd p)]) d).

(* case: (0 entry)  -> (items group)
         (1 stream entry) -> (result ((id items group) ...)) deliveries in order; result = () or (failing terminal)
         (2 stream (entries) ((terminal position kind) ...)) -> ((result deliveries) ...) one per entry, through ONE adapter instance *)
Definition run_with (f : wentry -> list item) (g : wentry -> group)
                    (dl : wstream -> wentry -> list (N * wentry))
                    (fd : failspec -> nat -> wstream -> list wentry -> list (option (N * N) * list (N * wentry)))
                    (x : sx) : sx :=
  match sx_tag x with
  | 0%Z => enc_seen f g (dec_entry FUEL (sx_arg x 0))
  | 1%Z => let s := dec_stream FUEL (sx_arg x 0) in
           L [of_option of_n (sresult s); enc_deliveries f g (dl s (dec_entry FUEL (sx_arg x 1)))]
  | _ => let s := dec_stream FUEL (sx_arg x 0) in
         let es := map (dec_entry FUEL) (sx_list (sx_arg x 1)) in
         let fs := map dec_fail (sx_list (sx_arg x 2)) in
         L (map (fun p : option (N * N) * list (N * wentry) => L [enc_result (fst p); enc_deliveries f g (snd p)])
                (fd fs O s es))
  end.

(* mechanism *)
Definition c15_run (x : sx) : sx := run_with calls sgroup deliver sfeed x.
(* property: item-level specification *)
Definition c15_spec (x : sx) : sx := run_with spec_calls spec_group spec_deliver (spec_feed spec_deliver) x.
