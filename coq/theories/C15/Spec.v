(* C15 — what the user is promised, stated on the *items* a format sees (no writers, no bridge):

   - a wrapper never adds, removes, reorders or renames an item, and never touches timestamps, configs,
     strings, errors, observations or units;
   - the documented additions are: Merged = first's items then second's (globals first);
     WithDimensions = the extra dimensions appended after a metric's own; WithGlobalDimensions = the same except
     on deny-listed names; ForceFlag = the flag merged into a metric's flags (a merge the option types reject
     is a panic at that item, and nothing after it is written);
   - the sample group of a wrapped entry is the sample group of what it wraps (Merged: first's then second's). *)
From Coq Require Import List NArith Bool.
From MV Require Import Common.Sx C15.Model.
Import ListNotations.
Local Open Scope N_scope.

(* ---- additions on one recorded value ---- *)
Definition v_dims (d : dims) (c : vcall) : vcall :=
  match c with VMetric os u ds fl => VMetric os u (ds ++ d) fl | _ => c end.
Definition v_force (f : flagv) (c : vcall) : vcall :=
  match c with
  | VMetric os u ds fl =>
      match try_merge fl (Some f) with Some fl' => VMetric os u ds fl' | None => VPanic end
  | _ => c
  end.

Fixpoint spec_v (v : wvalue) : vcall :=
  match v with
  | PlainV c => c
  | ContV _ v' | OptSomeV v' | DynV v' => spec_v v'
  | OptNoneV => VNone
  | WithDimsV v' d | GDimsV v' d => v_dims d (spec_v v')
  | ForceV v' f => v_force f (spec_v v')
  | FormattedV ls c => if reaches ls then c else VNone
  | ToStringV s => VString s
  end.

(* ---- additions on one item ---- *)
Definition i_dims (d : dims) (i : item) : item :=
  match i with IValue n c => IValue n (v_dims d c) | _ => i end.
Definition i_gdims (d : dims) (deny : list str) (i : item) : item :=
  match i with IValue n c => if mem n deny then i else IValue n (v_dims d c) | _ => i end.
Definition i_force (f : flagv) (i : item) : item :=
  match i with IValue n c => IValue n (v_force f c) | _ => i end.

(* everything after the first panic is never written *)
Fixpoint cut (l : list item) : list item :=
  match l with [] => [] | i :: r => if is_panic i then [i] else i :: cut r end.

Definition s_item (it : sitem) : item :=
  match it with
  | STimestamp t => ITimestamp t
  | SConfig c => IConfig c
  | SValue n v => IValue n (spec_v v)
  end.

Fixpoint spec_calls (e : wentry) : list item :=
  match e with
  | Plain s _ => cut (map s_item s)
  | Empty | OptNoneE | OptNoneI => []
  | Boxed e' | ContE _ e' | ContI _ e' | OptSomeE e' | OptSomeI e' | Root e' => spec_calls e'
  | Merged a b | MergedRef a b => cut (spec_calls a ++ spec_calls b)
  | WithDimsE e' d | WithDimsI e' d => map (i_dims d) (spec_calls e')
  | WithGDimsE e' d deny => map (i_gdims d deny) (spec_calls e')
  | ForceE e' f | ForceI e' f => cut (map (i_force f) (spec_calls e'))
  end.

Fixpoint spec_group (e : wentry) : group :=
  match e with
  | Plain _ g => g
  | Empty | OptNoneE | OptNoneI => []
  | Merged a b | MergedRef a b => spec_group a ++ spec_group b
  | Boxed e' | ContE _ e' | ContI _ e' | OptSomeE e' | OptSomeI e' | Root e'
  | WithDimsE e' _ | WithDimsI e' _ | WithGDimsE e' _ _ | ForceE e' _ | ForceI e' _ => spec_group e'
  end.

(* ---- the wrapper-free reading: the user entries underneath, in order ---- *)
Fixpoint leaves (e : wentry) : list sitem :=
  match e with
  | Plain s _ => s
  | Empty | OptNoneE | OptNoneI => []
  | Merged a b | MergedRef a b => leaves a ++ leaves b
  | Boxed e' | ContE _ e' | ContI _ e' | OptSomeE e' | OptSomeI e' | Root e'
  | WithDimsE e' _ | WithDimsI e' _ | WithGDimsE e' _ _ | ForceE e' _ | ForceI e' _ => leaves e'
  end.
Fixpoint vleaf (v : wvalue) : vcall :=
  match v with
  | PlainV c => c
  | OptNoneV => VNone
  | ContV _ v' | OptSomeV v' | DynV v' | WithDimsV v' _ | GDimsV v' _ | ForceV v' _ => vleaf v'
  | FormattedV ls c => if reaches ls then c else VNone
  | ToStringV s => VString s
  end.
Definition leaf_item (it : sitem) : item :=
  match it with
  | STimestamp t => ITimestamp t
  | SConfig c => IConfig c
  | SValue n v => IValue n (vleaf v)
  end.
(* an item with its dimensions and flags forgotten *)
Definition v_skel (c : vcall) : vcall :=
  match c with VMetric os u _ _ => VMetric os u [] None | _ => c end.
Definition skel (i : item) : item :=
  match i with IValue n c => IValue n (v_skel c) | _ => i end.
(* the own dimensions of an item *)
Definition item_dims (i : item) : dims :=
  match i with IValue _ (VMetric _ _ ds _) => ds | _ => [] end.

(* stream adapters: what each terminal must see *)
Fixpoint spec_deliver (s : wstream) (e : wentry) : list (N * wentry) :=
  match s with
  | STerm id => [(id, e)]
  | SMergeGlobals s' g => spec_deliver s' (Merged g e)
  | SMergeGDims s' d deny => spec_deliver s' (WithGDimsE e d deny)
  | SForce s' f => spec_deliver s' (ForceE e f)
  | STee a b => spec_deliver a e ++ spec_deliver b e
  | SOutputTo s' => spec_deliver s' e
  end.

(* A sequence of entries through one adapter instance: entry number k is treated exactly as a first entry would
   be - what the terminals are handed depends on that entry and the adapter's construction parameters only, not
   on what happened to earlier entries; the Result is the first failing terminal's error. *)
Fixpoint spec_result (fs : failspec) (k : nat) (s : wstream) : option (N * N) :=
  match s with
  | STerm id => term_result fs id k
  | SMergeGlobals s' _ | SMergeGDims s' _ _ | SForce s' _ | SOutputTo s' => spec_result fs k s'
  | STee a b => match spec_result fs k a with Some x => Some x | None => spec_result fs k b end
  end.
Fixpoint spec_feed (dl : wstream -> wentry -> list (N * wentry)) (fs : failspec) (k : nat) (s : wstream) (es : list wentry)
  : list (option (N * N) * list (N * wentry)) :=
  match es with
  | [] => []
  | e :: r => (spec_result fs k s, dl s e) :: spec_feed dl fs (Datatypes.S k) s r
  end.
