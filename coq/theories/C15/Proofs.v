(* C15 — the writer-wrapping mechanism refines the item-level specification. *)
From Coq Require Import List NArith Bool Lia Arith.
From MV Require Import Common.Sx C15.Model C15.Spec.
Import ListNotations.
Local Open Scope N_scope.

(* ------------------------------------------------------------------ values *)

(* what a stack of ValueWriter wrappers does to the call made on its top *)
Fixpoint vw_xf (w : vwriter) (c : vcall) : vcall :=
  match w with
  | VWTerm => c
  | VWDims w' d | VWGDims w' d => vw_xf w' (v_dims d c)
  | VWForce w' f => vw_xf w' (v_force f c)
  | VWDyn w' => vw_xf w' c
  end.

Lemma vw_xf_none : forall w, vw_xf w VNone = VNone.
Proof. induction w; cbn; auto. Qed.
Lemma vw_xf_panic : forall w, vw_xf w VPanic = VPanic.
Proof. induction w; cbn; auto. Qed.
Lemma vw_xf_string : forall w s, vw_xf w (VString s) = vw_string w s.
Proof. induction w; intros; cbn; auto. Qed.
Lemma vw_xf_error : forall w e, vw_xf w (VError e) = vw_error w e.
Proof. induction w; intros; cbn; auto. Qed.
Lemma vw_xf_metric : forall w os u ds fl, vw_xf w (VMetric os u ds fl) = vw_metric w os u ds fl.
Proof.
  induction w; intros; cbn; auto.
  destruct (try_merge fl (Some f)); auto. apply vw_xf_panic.
Qed.

Lemma vwrite_spec : forall v w, vwrite v w = vw_xf w (spec_v v).
Proof.
  induction v; intros w; cbn [vwrite spec_v]; try (rewrite IHv; reflexivity).
  - destruct c; symmetry;
      auto using vw_xf_none, vw_xf_panic, vw_xf_string, vw_xf_error, vw_xf_metric.
  - symmetry; apply vw_xf_none.
  - destruct (reaches ls); [destruct c|]; symmetry;
      auto using vw_xf_none, vw_xf_panic, vw_xf_string, vw_xf_error, vw_xf_metric.
  - symmetry; apply vw_xf_string.
Qed.

Lemma vwrite_term : forall v, vwrite v VWTerm = spec_v v.
Proof. intros; rewrite vwrite_spec; reflexivity. Qed.

(* ------------------------------------------------------------------ entry writers *)

Fixpoint ew_xf (w : ewriter) (i : item) : item :=
  match w with
  | EWTerm => i
  | EWMut w' | EWDyn w' => ew_xf w' i
  | EWDims w' d => ew_xf w' (i_dims d i)
  | EWGDims w' d deny => ew_xf w' (i_gdims d deny i)
  | EWForce w' f => ew_xf w' (i_force f i)
  end.

Lemma ew_timestamp_spec : forall w t, ew_timestamp w t = ew_xf w (ITimestamp t).
Proof. induction w; intros; cbn; auto. Qed.
Lemma ew_config_spec : forall w c, ew_config w c = ew_xf w (IConfig c).
Proof. induction w; intros; cbn; auto. Qed.
Lemma ew_value_spec : forall w n v, ew_value w n v = ew_xf w (IValue n (spec_v v)).
Proof.
  induction w; intros; cbn [ew_value ew_xf].
  - rewrite vwrite_term; reflexivity.
  - apply IHw.
  - rewrite IHw; reflexivity.
  - cbn [i_gdims]. destruct (mem n deny); rewrite IHw; reflexivity.
  - rewrite IHw; reflexivity.
  - rewrite IHw; reflexivity.
Qed.
Lemma ew_item_spec : forall w it, ew_item w it = ew_xf w (s_item it).
Proof.
  destruct it; cbn; auto using ew_timestamp_spec, ew_config_spec, ew_value_spec.
Qed.

(* ------------------------------------------------------------------ panics and cut *)

Definition keeps_panic (f : item -> item) := forall i, is_panic i = true -> is_panic (f i) = true.

Lemma v_dims_panic : forall d c, v_dims d c = VPanic <-> c = VPanic.
Proof. destruct c; cbn; split; congruence. Qed.
Lemma i_dims_is_panic : forall d i, is_panic (i_dims d i) = is_panic i.
Proof. destruct i as [| |n c]; cbn; auto. destruct c; reflexivity. Qed.
Lemma i_gdims_is_panic : forall d deny i, is_panic (i_gdims d deny i) = is_panic i.
Proof.
  destruct i as [| |n c]; cbn; auto. destruct (mem n deny); auto. destruct c; reflexivity.
Qed.
Lemma i_force_keeps : forall f, keeps_panic (i_force f).
Proof. intros f [| |n c]; cbn; try discriminate. destruct c; cbn; congruence. Qed.
Lemma ew_xf_keeps : forall w, keeps_panic (ew_xf w).
Proof.
  induction w; intros i H; cbn; auto.
  - apply IHw. rewrite i_dims_is_panic; auto.
  - apply IHw. rewrite i_gdims_is_panic; auto.
  - apply IHw. apply i_force_keeps; auto.
Qed.

Lemma cut_idem : forall l, cut (cut l) = cut l.
Proof.
  induction l as [|i r IH]; cbn; auto.
  destruct (is_panic i) eqn:E; cbn; rewrite E; auto. rewrite IH; auto.
Qed.
Lemma cut_map_cut : forall f l, keeps_panic f -> cut (map f (cut l)) = cut (map f l).
Proof.
  intros f l K; induction l as [|i r IH]; cbn; auto.
  destruct (is_panic i) eqn:E; cbn.
  - rewrite (K i E); reflexivity.
  - destruct (is_panic (f i)); auto. rewrite IH; auto.
Qed.
Lemma cut_app_cut_l : forall a b, cut (cut a ++ b) = cut (a ++ b).
Proof.
  induction a as [|i r IH]; intros; cbn; auto.
  destruct (is_panic i) eqn:E; cbn; rewrite E; auto. rewrite IH; auto.
Qed.
Lemma cut_app_cut_r : forall a b, cut (a ++ cut b) = cut (a ++ b).
Proof.
  induction a as [|i r IH]; intros; cbn; auto using cut_idem.
  destruct (is_panic i); auto. rewrite IH; auto.
Qed.
Lemma seq_cut : forall a b, seq (cut a) (cut b) = cut (a ++ b).
Proof.
  unfold seq, panicked. induction a as [|i r IH]; intros b; cbn; auto.
  destruct (is_panic i) eqn:E; cbn; rewrite E; cbn; auto.
  specialize (IH b). destruct (existsb is_panic (cut r)); congruence.
Qed.
Lemma cut_no_panic : forall l, panicked l = false -> cut l = l.
Proof.
  unfold panicked; induction l as [|i r IH]; cbn; auto. intros H.
  apply orb_false_iff in H as [H1 H2]. rewrite H1, IH; auto.
Qed.
Lemma panicked_cut : forall l, panicked (cut l) = panicked l.
Proof.
  unfold panicked; induction l as [|i r IH]; cbn; auto.
  destruct (is_panic i) eqn:E; cbn; rewrite E; cbn; auto.
Qed.
Lemma map_cut_same : forall f l, (forall i, is_panic (f i) = is_panic i) -> map f (cut l) = cut (map f l).
Proof.
  intros f l H; induction l as [|i r IH]; cbn; auto.
  rewrite H. destruct (is_panic i); cbn; congruence.
Qed.

Lemma run_script_spec : forall s w, run_script s w = cut (map (ew_xf w) (map s_item s)).
Proof.
  induction s as [|it r IH]; intros; cbn; auto.
  rewrite ew_item_spec. destruct (is_panic (ew_xf w (s_item it))); auto. rewrite IH; auto.
Qed.

(* every spec trace is already cut *)
Lemma spec_calls_cut : forall e, cut (spec_calls e) = spec_calls e.
Proof.
  induction e; cbn [spec_calls]; auto using cut_idem;
    rewrite <- map_cut_same by (first [apply i_dims_is_panic | apply i_gdims_is_panic]);
    rewrite IHe; reflexivity.
Qed.

(* ------------------------------------------------------------------ the refinement *)

Theorem ewrite_spec : forall e w, ewrite e w = cut (map (ew_xf w) (spec_calls e)).
Proof.
  induction e; intros w; cbn [ewrite spec_calls]; auto.
  - (* Plain *) rewrite run_script_spec, cut_map_cut by apply ew_xf_keeps. reflexivity.
  - (* Boxed *) rewrite IHe; reflexivity.
  - (* Merged *) rewrite IHe1, IHe2, seq_cut, cut_map_cut, map_app by apply ew_xf_keeps. reflexivity.
  - (* MergedRef *) rewrite IHe1, IHe2, seq_cut, cut_map_cut, map_app by apply ew_xf_keeps. reflexivity.
  - (* WithDimsE *) rewrite IHe, map_map; reflexivity.
  - (* WithGDimsE *) rewrite IHe, map_map; reflexivity.
  - (* ForceE *) rewrite IHe, cut_map_cut, map_map by apply ew_xf_keeps. reflexivity.
  - (* WithDimsI *) rewrite IHe, map_map; reflexivity.
  - (* ForceI *) rewrite IHe, cut_map_cut, map_map by apply ew_xf_keeps. reflexivity.
Qed.

Theorem calls_spec : forall e, calls e = spec_calls e.
Proof.
  intros; unfold calls; rewrite ewrite_spec. cbn [ew_xf]. rewrite map_id. apply spec_calls_cut.
Qed.

(* ------------------------------------------------------------------ sample groups *)

Theorem sgroup_spec : forall e, sgroup e = spec_group e.
Proof. induction e; cbn; congruence. Qed.

(* the defect re-derived: before the repair a wrapped entry could lose its sample group *)
Theorem sgroup_before_fix_refuted :
  exists e, sgroup_before_fix e <> spec_group e /\ sgroup e = spec_group e.
Proof.
  exists (WithDimsE (Plain [] [([79; 112], [70; 111; 111])]) []). split; [cbn; discriminate | reflexivity].
Qed.

(* ------------------------------------------------------------------ per-wrapper corollaries *)

Lemma calls_boxed : forall e, calls (Boxed e) = calls e /\ sgroup (Boxed e) = sgroup e.
Proof. intros; rewrite !calls_spec; split; reflexivity. Qed.

Definition transparent (f : wentry -> wentry) :=
  forall e, calls (f e) = calls e /\ sgroup (f e) = sgroup e.
Lemma calls_containers :
  transparent Boxed /\ transparent Root /\ transparent OptSomeE /\ transparent OptSomeI /\
  (forall k, transparent (ContE k)) /\ (forall k, transparent (ContI k)).
Proof. unfold transparent; repeat split; intros; rewrite ?calls_spec; reflexivity. Qed.

Lemma seq_calls : forall a b, seq (calls a) (calls b) = cut (calls a ++ calls b).
Proof.
  intros. rewrite !calls_spec. rewrite <- (spec_calls_cut a) at 1. rewrite <- (spec_calls_cut b) at 1.
  apply seq_cut.
Qed.
Lemma calls_merged : forall a b,
  calls (Merged a b) = seq (calls a) (calls b) /\ calls (MergedRef a b) = seq (calls a) (calls b) /\
  sgroup (Merged a b) = sgroup a ++ sgroup b /\ sgroup (MergedRef a b) = sgroup a ++ sgroup b.
Proof.
  intros. rewrite seq_calls. rewrite !calls_spec. repeat split; reflexivity.
Qed.
Lemma calls_with_dims : forall e d,
  calls (WithDimsE e d) = map (i_dims d) (calls e) /\ calls (WithDimsI e d) = map (i_dims d) (calls e) /\
  sgroup (WithDimsE e d) = sgroup e /\ sgroup (WithDimsI e d) = sgroup e.
Proof. intros; rewrite !calls_spec; repeat split; reflexivity. Qed.
Lemma calls_global_dims : forall e d deny,
  calls (WithGDimsE e d deny) = map (i_gdims d deny) (calls e) /\ sgroup (WithGDimsE e d deny) = sgroup e.
Proof. intros; rewrite !calls_spec; split; reflexivity. Qed.
Lemma calls_force : forall e f,
  calls (ForceE e f) = cut (map (i_force f) (calls e)) /\ calls (ForceI e f) = cut (map (i_force f) (calls e)) /\
  sgroup (ForceE e f) = sgroup e /\ sgroup (ForceI e f) = sgroup e.
Proof. intros; rewrite !calls_spec; repeat split; reflexivity. Qed.
Lemma calls_none : calls Empty = [] /\ calls OptNoneE = [] /\ calls OptNoneI = [].
Proof. repeat split. Qed.

(* values: what the format records for a wrapped value *)
Lemma value_wrappers : forall v,
  (forall k, vwrite (ContV k v) VWTerm = vwrite v VWTerm) /\
  vwrite (OptSomeV v) VWTerm = vwrite v VWTerm /\ vwrite OptNoneV VWTerm = VNone /\
  (forall d, vwrite (WithDimsV v d) VWTerm = v_dims d (vwrite v VWTerm)) /\
  (forall f, vwrite (ForceV v f) VWTerm = v_force f (vwrite v VWTerm)).
Proof. intros; rewrite ?vwrite_term; repeat split; intros; rewrite ?vwrite_term; reflexivity. Qed.

(* ------------------------------------------------------------------ nothing but dimensions and flags changes *)

Lemma panicked_app : forall a b, panicked (a ++ b) = panicked a || panicked b.
Proof. intros; apply existsb_app. Qed.
Lemma panicked_map_same : forall f l, (forall i, is_panic (f i) = is_panic i) -> panicked (map f l) = panicked l.
Proof. unfold panicked; induction l as [|i r IH]; intros H; cbn; auto. rewrite H, IH; auto. Qed.
Lemma panicked_map_keeps : forall f l, keeps_panic f -> panicked (map f l) = false -> panicked l = false.
Proof.
  unfold panicked; induction l as [|i r IH]; intros K H; cbn in *; auto.
  apply orb_false_iff in H as [H1 H2]. rewrite (IH K H2), orb_false_r.
  destruct (is_panic i) eqn:E; auto. rewrite (K i E) in H1; discriminate.
Qed.

Lemma skel_i_dims : forall d i, skel (i_dims d i) = skel i.
Proof. destruct i as [| |n c]; cbn; auto. destruct c; reflexivity. Qed.
Lemma skel_i_gdims : forall d deny i, skel (i_gdims d deny i) = skel i.
Proof. destruct i as [| |n c]; cbn; auto. destruct (mem n deny); auto. destruct c; reflexivity. Qed.
Lemma skel_i_force : forall f i, is_panic (i_force f i) = false -> skel (i_force f i) = skel i.
Proof.
  destruct i as [| |n c]; cbn; auto. destruct c; cbn; auto.
  destruct (try_merge fl (Some f)); cbn; [reflexivity | discriminate].
Qed.
Lemma map_skel_force : forall f l, panicked (map (i_force f) l) = false -> map skel (map (i_force f) l) = map skel l.
Proof.
  unfold panicked; induction l as [|i r IH]; cbn; auto. intros H.
  apply orb_false_iff in H as [H1 H2]. rewrite skel_i_force, IH; auto.
Qed.

Lemma v_skel_dims : forall d c, v_skel (v_dims d c) = v_skel c.
Proof. destruct c; reflexivity. Qed.
(* a value whose recorded call is not a panic differs from its leaf only in dimensions and flags *)
Lemma spec_v_skel : forall v, spec_v v <> VPanic -> v_skel (spec_v v) = v_skel (vleaf v).
Proof.
  induction v; cbn [spec_v vleaf]; intros H; auto.
  - rewrite v_skel_dims. apply IHv. intros E; apply H; rewrite E; reflexivity.
  - assert (spec_v v <> VPanic) as H' by (intros E; apply H; rewrite E; reflexivity).
    rewrite <- (IHv H'). destruct (spec_v v); cbn in *; auto.
    destruct (try_merge fl (Some f)); cbn; [reflexivity | congruence].
  - rewrite v_skel_dims. apply IHv. intros E; apply H; rewrite E; reflexivity.
Qed.
Lemma s_item_skel : forall it, is_panic (s_item it) = false -> skel (s_item it) = skel (leaf_item it).
Proof.
  destruct it; cbn; auto. intros H. rewrite spec_v_skel; auto. intros E; rewrite E in H; discriminate.
Qed.
Lemma map_s_item_skel : forall s, panicked (map s_item s) = false ->
  map skel (map s_item s) = map skel (map leaf_item s).
Proof.
  unfold panicked; induction s as [|it r IH]; cbn; auto. intros H.
  apply orb_false_iff in H as [H1 H2]. rewrite s_item_skel, IH; auto.
Qed.

Theorem spec_skeleton : forall e, panicked (spec_calls e) = false ->
  map skel (spec_calls e) = map skel (map leaf_item (leaves e)).
Proof.
  induction e; cbn [spec_calls leaves]; intros H; auto.
  - rewrite panicked_cut in H. rewrite cut_no_panic by exact H. apply map_s_item_skel; exact H.
  - rewrite panicked_cut in H. rewrite cut_no_panic by exact H.
    rewrite panicked_app in H. apply orb_false_iff in H as [H1 H2].
    rewrite !map_app, IHe1, IHe2; auto.
  - rewrite panicked_cut in H. rewrite cut_no_panic by exact H.
    rewrite panicked_app in H. apply orb_false_iff in H as [H1 H2].
    rewrite !map_app, IHe1, IHe2; auto.
  - rewrite panicked_map_same in H by apply i_dims_is_panic.
    rewrite map_map. rewrite (map_ext _ skel) by apply skel_i_dims. auto.
  - rewrite panicked_map_same in H by apply i_gdims_is_panic.
    rewrite map_map. rewrite (map_ext _ skel) by apply skel_i_gdims. auto.
  - rewrite panicked_cut in H. rewrite cut_no_panic by exact H.
    rewrite map_skel_force by exact H. apply IHe. eapply panicked_map_keeps; [apply i_force_keeps | exact H].
  - rewrite panicked_map_same in H by apply i_dims_is_panic.
    rewrite map_map. rewrite (map_ext _ skel) by apply skel_i_dims. auto.
  - rewrite panicked_cut in H. rewrite cut_no_panic by exact H.
    rewrite map_skel_force by exact H. apply IHe. eapply panicked_map_keeps; [apply i_force_keeps | exact H].
Qed.

Theorem calls_skeleton : forall e, panicked (calls e) = false ->
  map skel (calls e) = map skel (map leaf_item (leaves e)).
Proof. intros e; rewrite calls_spec; apply spec_skeleton. Qed.

(* ------------------------------------------------------------------ stream / format adapters *)

Definition obs_eq (e1 e2 : wentry) := spec_calls e1 = spec_calls e2 /\ spec_group e1 = spec_group e2.

Lemma i_gdims_nil : forall deny i, i_gdims [] deny i = i.
Proof.
  destruct i as [| |n c]; cbn; auto. destruct (mem n deny); auto.
  destruct c; cbn; auto. rewrite app_nil_r; reflexivity.
Qed.

Lemma deliver_spec : forall s e1 e2, obs_eq e1 e2 ->
  Forall2 (fun p q : N * wentry => fst p = fst q /\ obs_eq (snd p) (snd q)) (deliver s e1) (spec_deliver s e2).
Proof.
  induction s; intros e1 e2 [Hc Hg]; cbn [deliver spec_deliver].
  - constructor; [split; [reflexivity | split; assumption] | constructor].
  - apply IHs. split; cbn; congruence.
  - destruct d as [|p d'].
    + apply IHs. split; cbn; [|assumption].
      rewrite (map_ext _ (fun i => i)) by apply i_gdims_nil. rewrite map_id; assumption.
    + apply IHs. split; cbn; congruence.
  - apply IHs. split; cbn; congruence.
  - apply Forall2_app; [apply IHs1 | apply IHs2]; split; assumption.
  - apply IHs. split; assumption.
Qed.

Theorem deliver_calls : forall s e,
  map (fun p : N * wentry => (fst p, calls (snd p), sgroup (snd p))) (deliver s e) =
  map (fun p : N * wentry => (fst p, calls (snd p), sgroup (snd p))) (spec_deliver s e).
Proof.
  intros s e. pose proof (deliver_spec s e e (conj eq_refl eq_refl)) as H.
  induction H as [|p q l1 l2 [Hid [Hc Hg]] _ IH]; cbn; auto.
  rewrite IH, !calls_spec, !sgroup_spec, Hid, Hc, Hg. reflexivity.
Qed.

(* ------------------------------------------------------------------ never adds, removes, reorders or renames *)
(* the key of an item: what it is and, for a value, its name *)
Definition key (i : item) : item := match i with IValue n _ => IValue n VNone | _ => i end.
Definition prefix {T} (a b : list T) := exists r, b = a ++ r.

Lemma prefix_refl : forall {T} (a : list T), prefix a a.
Proof. intros; exists []; rewrite app_nil_r; reflexivity. Qed.
Lemma prefix_trans : forall {T} (a b c : list T), prefix a b -> prefix b c -> prefix a c.
Proof. intros T a b c [r ->] [r' ->]. exists (r ++ r'). rewrite app_assoc; reflexivity. Qed.
Lemma prefix_app_r : forall {T} (a b c : list T), prefix a b -> prefix a (b ++ c).
Proof. intros T a b c [r ->]. exists (r ++ c). rewrite app_assoc; reflexivity. Qed.
Lemma prefix_app_l : forall {T} (a b c : list T), prefix b c -> prefix (a ++ b) (a ++ c).
Proof. intros T a b c [r ->]. exists r. rewrite app_assoc; reflexivity. Qed.
Lemma prefix_map : forall {T U} (f : T -> U) a b, prefix a b -> prefix (map f a) (map f b).
Proof. intros T U f a b [r ->]. exists (map f r). apply map_app. Qed.
Lemma prefix_cut : forall l, prefix (cut l) l.
Proof.
  induction l as [|i r [x IH]]; cbn; [apply prefix_refl|].
  destruct (is_panic i); [exists r; reflexivity | exists x; cbn; congruence].
Qed.
Lemma cut_app_panicked : forall a b, panicked a = true -> cut (a ++ b) = cut a.
Proof.
  unfold panicked; induction a as [|i r IH]; intros b H; cbn in *; [discriminate|].
  destruct (is_panic i); auto. cbn in H. rewrite IH; auto.
Qed.
Lemma cut_app_clean : forall a b, panicked a = false -> cut (a ++ b) = a ++ cut b.
Proof.
  unfold panicked; induction a as [|i r IH]; intros b H; cbn in *; auto.
  apply orb_false_iff in H as [H1 H2]. rewrite H1, IH; auto.
Qed.

Lemma key_i_dims : forall d i, key (i_dims d i) = key i.
Proof. destruct i; reflexivity. Qed.
Lemma key_i_gdims : forall d deny i, key (i_gdims d deny i) = key i.
Proof. destruct i as [| |n c]; cbn; auto. destruct (mem n deny); reflexivity. Qed.
Lemma key_i_force : forall f i, key (i_force f i) = key i.
Proof. destruct i; reflexivity. Qed.
Lemma key_s_item : forall it, key (s_item it) = key (leaf_item it).
Proof. destruct it; reflexivity. Qed.

Definition keys (l : list item) := map key l.
Definition leaf_keys (e : wentry) := keys (map leaf_item (leaves e)).

Lemma spec_keys : forall e,
  prefix (keys (spec_calls e)) (leaf_keys e) /\ (panicked (spec_calls e) = false -> keys (spec_calls e) = leaf_keys e).
Proof.
  unfold leaf_keys, keys.
  induction e; cbn [spec_calls leaves]; try (split; [apply prefix_refl | reflexivity]); auto.
  - (* Plain *)
    assert (map key (map s_item s) = map key (map leaf_item s)) as E
      by (rewrite !map_map; apply map_ext; apply key_s_item).
    split.
    + rewrite <- E. apply prefix_map, prefix_cut.
    + intros H. rewrite panicked_cut in H. rewrite cut_no_panic; auto.
  - (* Merged *)
    destruct IHe1 as [P1 F1], IHe2 as [P2 F2]. rewrite !map_app.
    destruct (panicked (spec_calls e1)) eqn:Pa.
    + rewrite cut_app_panicked, spec_calls_cut by exact Pa. split.
      * apply prefix_app_r; exact P1.
      * rewrite Pa; discriminate.
    + rewrite cut_app_clean, spec_calls_cut by exact Pa. rewrite map_app, F1 by reflexivity. split.
      * apply prefix_app_l; exact P2.
      * intros H. rewrite panicked_app, Pa in H. cbn in H. rewrite F2; auto.
  - (* MergedRef *)
    destruct IHe1 as [P1 F1], IHe2 as [P2 F2]. rewrite !map_app.
    destruct (panicked (spec_calls e1)) eqn:Pa.
    + rewrite cut_app_panicked, spec_calls_cut by exact Pa. split.
      * apply prefix_app_r; exact P1.
      * rewrite Pa; discriminate.
    + rewrite cut_app_clean, spec_calls_cut by exact Pa. rewrite map_app, F1 by reflexivity. split.
      * apply prefix_app_l; exact P2.
      * intros H. rewrite panicked_app, Pa in H. cbn in H. rewrite F2; auto.
  - (* WithDimsE *) destruct IHe as [P F]. rewrite map_map, (map_ext _ key) by apply key_i_dims.
    rewrite panicked_map_same by apply i_dims_is_panic. auto.
  - (* WithGDimsE *) destruct IHe as [P F]. rewrite map_map, (map_ext _ key) by apply key_i_gdims.
    rewrite panicked_map_same by apply i_gdims_is_panic. auto.
  - (* ForceE *) destruct IHe as [P F].
    assert (map key (map (i_force f) (spec_calls e)) = map key (spec_calls e)) as E
      by (rewrite map_map; apply map_ext; apply key_i_force).
    split.
    + eapply prefix_trans; [apply prefix_map, prefix_cut | rewrite E; exact P].
    + intros H. rewrite panicked_cut in H. rewrite cut_no_panic, E by exact H.
      apply F. eapply panicked_map_keeps; [apply i_force_keeps | exact H].
  - (* WithDimsI *) destruct IHe as [P F]. rewrite map_map, (map_ext _ key) by apply key_i_dims.
    rewrite panicked_map_same by apply i_dims_is_panic. auto.
  - (* ForceI *) destruct IHe as [P F].
    assert (map key (map (i_force f) (spec_calls e)) = map key (spec_calls e)) as E
      by (rewrite map_map; apply map_ext; apply key_i_force).
    split.
    + eapply prefix_trans; [apply prefix_map, prefix_cut | rewrite E; exact P].
    + intros H. rewrite panicked_cut in H. rewrite cut_no_panic, E by exact H.
      apply F. eapply panicked_map_keeps; [apply i_force_keeps | exact H].
Qed.

Theorem calls_keys : forall e,
  prefix (keys (calls e)) (leaf_keys e) /\ (panicked (calls e) = false -> keys (calls e) = leaf_keys e).
Proof. intros e; rewrite calls_spec; apply spec_keys. Qed.

(* ------------------------------------------------------------------ a metric's own dimensions always come first *)
Definition v_dims_of (c : vcall) : dims := match c with VMetric _ _ ds _ => ds | _ => [] end.
Definition extends (i l : item) : Prop := exists x, item_dims i = item_dims l ++ x.

Lemma spec_v_extends : forall v, spec_v v <> VPanic -> exists x, v_dims_of (spec_v v) = v_dims_of (vleaf v) ++ x.
Proof.
  induction v; cbn [spec_v vleaf]; intros H; try (exists []; rewrite app_nil_r; reflexivity); auto.
  - assert (spec_v v <> VPanic) as H' by (intros E; apply H; rewrite E; reflexivity).
    destruct (IHv H') as [x IH]. destruct (spec_v v); cbn in *; eauto.
    exists (x ++ d). rewrite IH, app_assoc; reflexivity.
  - assert (spec_v v <> VPanic) as H' by (intros E; apply H; rewrite E; reflexivity).
    destruct (IHv H') as [x IH]. destruct (spec_v v); cbn in *; eauto.
    destruct (try_merge fl (Some f)); cbn; [eauto | congruence].
  - assert (spec_v v <> VPanic) as H' by (intros E; apply H; rewrite E; reflexivity).
    destruct (IHv H') as [x IH]. destruct (spec_v v); cbn in *; eauto.
    exists (x ++ d). rewrite IH, app_assoc; reflexivity.
Qed.

Lemma extends_i_dims : forall d i l, extends i l -> extends (i_dims d i) l.
Proof.
  unfold extends. intros d i l [x H]. destruct i as [| |n c]; cbn in *; eauto. destruct c; cbn in *; eauto.
  exists (x ++ d). rewrite H, app_assoc; reflexivity.
Qed.
Lemma extends_i_gdims : forall d deny i l, extends i l -> extends (i_gdims d deny i) l.
Proof.
  intros d deny i l H. destruct i as [| |n c]; cbn [i_gdims]; auto. destruct (mem n deny); auto.
  apply (extends_i_dims d (IValue n c)); auto.
Qed.
Lemma extends_i_force : forall f i l, is_panic (i_force f i) = false -> extends i l -> extends (i_force f i) l.
Proof.
  unfold extends. intros f i l P [x H]. destruct i as [| |n c]; cbn in *; eauto. destruct c; cbn in *; eauto.
  destruct (try_merge fl (Some f)); cbn in *; [eauto | discriminate].
Qed.

Lemma Forall2_map_l : forall {A B C} (R : B -> C -> Prop) (f : A -> B) l l',
  Forall2 (fun a c => R (f a) c) l l' -> Forall2 R (map f l) l'.
Proof. induction 1; cbn; constructor; auto. Qed.

Lemma Forall2_imp : forall {A B} (R R' : A -> B -> Prop) l l', (forall a b, R a b -> R' a b) -> Forall2 R l l' -> Forall2 R' l l'.
Proof. induction 2; constructor; auto. Qed.

Theorem spec_dims_first : forall e, panicked (spec_calls e) = false ->
  Forall2 extends (spec_calls e) (map leaf_item (leaves e)).
Proof.
  induction e; cbn [spec_calls leaves]; intros H; try constructor; auto.
  - (* Plain *) rewrite panicked_cut in H. rewrite cut_no_panic by exact H.
    induction s as [|it r IH]; cbn in *; constructor.
    + unfold panicked in H; cbn in H. apply orb_false_iff in H as [H1 _].
      destruct it; cbn in *; try (exists []; reflexivity).
      destruct (spec_v_extends v) as [x E]; [intros X; rewrite X in H1; discriminate|].
      exists x. destruct (spec_v v), (vleaf v); cbn in *; auto.
    + apply IH. unfold panicked in *; cbn in H. apply orb_false_iff in H as [_ H2]; exact H2.
  - rewrite panicked_cut in H. rewrite cut_no_panic by exact H. rewrite panicked_app in H.
    apply orb_false_iff in H as [H1 H2]. rewrite map_app. apply Forall2_app; auto.
  - rewrite panicked_cut in H. rewrite cut_no_panic by exact H. rewrite panicked_app in H.
    apply orb_false_iff in H as [H1 H2]. rewrite map_app. apply Forall2_app; auto.
  - rewrite panicked_map_same in H by apply i_dims_is_panic. apply Forall2_map_l.
    eapply Forall2_imp; [|apply IHe; exact H]. intros; apply extends_i_dims; auto.
  - rewrite panicked_map_same in H by apply i_gdims_is_panic. apply Forall2_map_l.
    eapply Forall2_imp; [|apply IHe; exact H]. intros; apply extends_i_gdims; auto.
  - rewrite panicked_cut in H. rewrite cut_no_panic by exact H.
    assert (panicked (spec_calls e) = false) as H' by (eapply panicked_map_keeps; [apply i_force_keeps | exact H]).
    specialize (IHe H'). clear H'. revert H. induction IHe as [|i l r r' R _ IH]; cbn; intros H; constructor.
    + unfold panicked in H; cbn in H. apply orb_false_iff in H as [H1 _]. apply extends_i_force; auto.
    + apply IH. unfold panicked in *; cbn in H. apply orb_false_iff in H as [_ H2]; exact H2.
  - rewrite panicked_map_same in H by apply i_dims_is_panic. apply Forall2_map_l.
    eapply Forall2_imp; [|apply IHe; exact H]. intros; apply extends_i_dims; auto.
  - rewrite panicked_cut in H. rewrite cut_no_panic by exact H.
    assert (panicked (spec_calls e) = false) as H' by (eapply panicked_map_keeps; [apply i_force_keeps | exact H]).
    specialize (IHe H'). clear H'. revert H. induction IHe as [|i l r r' R _ IH]; cbn; intros H; constructor.
    + unfold panicked in H; cbn in H. apply orb_false_iff in H as [H1 _]. apply extends_i_force; auto.
    + apply IH. unfold panicked in *; cbn in H. apply orb_false_iff in H as [_ H2]; exact H2.
Qed.
Theorem calls_dims_first : forall e, panicked (calls e) = false ->
  Forall2 extends (calls e) (map leaf_item (leaves e)).
Proof. intros e; rewrite calls_spec; apply spec_dims_first. Qed.

(* ------------------------------------------------------------------ two algebraic laws *)
Lemma i_dims_nest : forall d1 d2 i, i_dims d2 (i_dims d1 i) = i_dims (d1 ++ d2) i.
Proof. destruct i as [| |n c]; cbn; auto. destruct c; cbn; auto. rewrite app_assoc; reflexivity. Qed.
Lemma i_dims_force_comm : forall d f i, i_dims d (i_force f i) = i_force f (i_dims d i).
Proof. destruct i as [| |n c]; cbn; auto. destruct c; cbn; auto. destruct (try_merge fl (Some f)); reflexivity. Qed.

(* nested WithDimensions: inner dimensions first *)
Lemma calls_dims_nest : forall e d1 d2, calls (WithDimsE (WithDimsE e d1) d2) = calls (WithDimsE e (d1 ++ d2)).
Proof. intros. rewrite !calls_spec. cbn. rewrite map_map. apply map_ext. apply i_dims_nest. Qed.
(* WithDimensions and ForceFlag commute *)
Lemma calls_dims_force_comm : forall e d f, calls (WithDimsE (ForceE e f) d) = calls (ForceE (WithDimsE e d) f).
Proof.
  intros. rewrite !calls_spec. cbn [spec_calls].
  rewrite map_cut_same by apply i_dims_is_panic. rewrite !map_map. f_equal. apply map_ext. apply i_dims_force_comm.
Qed.

(* ------------------------------------------------------------------ adapters keep their state *)
Lemma snext_spec : forall fs k s e, snext fs k s e = (s, spec_result fs k s, deliver s e).
Proof.
  intros fs k s; induction s; intros e; cbn [snext spec_result deliver]; try (rewrite IHs; reflexivity); auto.
  - destruct d; rewrite IHs; reflexivity.
  - rewrite IHs1, IHs2. reflexivity.
Qed.

(* for every history of results: entry number k through a used adapter = entry number k through a fresh one *)
Theorem sfeed_spec : forall fs es k s, sfeed fs k s es = spec_feed deliver fs k s es.
Proof.
  induction es as [|e r IH]; intros k s; cbn [sfeed spec_feed]; auto.
  rewrite snext_spec, IH. reflexivity.
Qed.
Corollary sfeed_nth : forall fs es k s i e, nth_error es i = Some e ->
  nth_error (sfeed fs k s es) i = Some (spec_result fs (k + i) s, deliver s e).
Proof.
  intros fs es; induction es as [|x r IH]; intros k s i e H; destruct i; cbn in H; try discriminate.
  - inversion H; subst. rewrite sfeed_spec. cbn. rewrite Nat.add_0_r. reflexivity.
  - rewrite sfeed_spec. cbn [spec_feed nth_error]. rewrite <- sfeed_spec, (IH (Datatypes.S k) s i e H).
    rewrite Nat.add_succ_r. reflexivity.
Qed.
