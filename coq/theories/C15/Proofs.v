(* C15 — the writer-wrapping mechanism refines the item-level specification. *)
From Coq Require Import List NArith Bool Lia.
From MV Require Import Common.Sx C15.Model C15.Spec.
Import ListNotations.
Local Open Scope N_scope.

(* ------------------------------------------------------------------ values *)

(* what a stack of ValueWriter wrappers does to the call made on its top *)
Fixpoint vw_xf (w : vwriter) (c : vcall) : vcall :=
  match w with
  | VWTerm => c
  | VWDims w' d | VWGDims w' d => vw_xf w' (v_dims d c)
  | VWForce w' f => vw_xf w' (v_force f c)
  | VWDyn w' => vw_xf w' c
  end.

Lemma vw_xf_none : forall w, vw_xf w VNone = VNone.
Proof. induction w; cbn; auto. Qed.
Lemma vw_xf_panic : forall w, vw_xf w VPanic = VPanic.
Proof. induction w; cbn; auto. Qed.
Lemma vw_xf_string : forall w s, vw_xf w (VString s) = vw_string w s.
Proof. induction w; intros; cbn; auto. Qed.
Lemma vw_xf_error : forall w e, vw_xf w (VError e) = vw_error w e.
Proof. induction w; intros; cbn; auto. Qed.
Lemma vw_xf_metric : forall w os u ds fl, vw_xf w (VMetric os u ds fl) = vw_metric w os u ds fl.
Proof.
  induction w; intros; cbn; auto.
  destruct (try_merge fl (Some f)); auto. apply vw_xf_panic.
Qed.

Lemma vwrite_spec : forall v w, vwrite v w = vw_xf w (spec_v v).
Proof.
  induction v; intros w; cbn [vwrite spec_v]; try (rewrite IHv; reflexivity).
  - destruct c; symmetry;
      auto using vw_xf_none, vw_xf_panic, vw_xf_string, vw_xf_error, vw_xf_metric.
  - symmetry; apply vw_xf_none.
Qed.

Lemma vwrite_term : forall v, vwrite v VWTerm = spec_v v.
Proof. intros; rewrite vwrite_spec; reflexivity. Qed.

(* ------------------------------------------------------------------ entry writers *)

Fixpoint ew_xf (w : ewriter) (i : item) : item :=
  match w with
  | EWTerm => i
  | EWMut w' | EWDyn w' => ew_xf w' i
  | EWDims w' d => ew_xf w' (i_dims d i)
  | EWGDims w' d deny => ew_xf w' (i_gdims d deny i)
  | EWForce w' f => ew_xf w' (i_force f i)
  end.

Lemma ew_timestamp_spec : forall w t, ew_timestamp w t = ew_xf w (ITimestamp t).
Proof. induction w; intros; cbn; auto. Qed.
Lemma ew_config_spec : forall w c, ew_config w c = ew_xf w (IConfig c).
Proof. induction w; intros; cbn; auto. Qed.
Lemma ew_value_spec : forall w n v, ew_value w n v = ew_xf w (IValue n (spec_v v)).
Proof.
  induction w; intros; cbn [ew_value ew_xf].
  - rewrite vwrite_term; reflexivity.
  - apply IHw.
  - rewrite IHw; reflexivity.
  - cbn [i_gdims]. destruct (mem n deny); rewrite IHw; reflexivity.
  - rewrite IHw; reflexivity.
  - rewrite IHw; reflexivity.
Qed.
Lemma ew_item_spec : forall w it, ew_item w it = ew_xf w (s_item it).
Proof.
  destruct it; cbn; auto using ew_timestamp_spec, ew_config_spec, ew_value_spec.
Qed.

(* ------------------------------------------------------------------ panics and cut *)

Definition keeps_panic (f : item -> item) := forall i, is_panic i = true -> is_panic (f i) = true.

Lemma v_dims_panic : forall d c, v_dims d c = VPanic <-> c = VPanic.
Proof. destruct c; cbn; split; congruence. Qed.
Lemma i_dims_is_panic : forall d i, is_panic (i_dims d i) = is_panic i.
Proof. destruct i as [| |n c]; cbn; auto. destruct c; reflexivity. Qed.
Lemma i_gdims_is_panic : forall d deny i, is_panic (i_gdims d deny i) = is_panic i.
Proof.
  destruct i as [| |n c]; cbn; auto. destruct (mem n deny); auto. destruct c; reflexivity.
Qed.
Lemma i_force_keeps : forall f, keeps_panic (i_force f).
Proof. intros f [| |n c]; cbn; try discriminate. destruct c; cbn; congruence. Qed.
Lemma ew_xf_keeps : forall w, keeps_panic (ew_xf w).
Proof.
  induction w; intros i H; cbn; auto.
  - apply IHw. rewrite i_dims_is_panic; auto.
  - apply IHw. rewrite i_gdims_is_panic; auto.
  - apply IHw. apply i_force_keeps; auto.
Qed.

Lemma cut_idem : forall l, cut (cut l) = cut l.
Proof.
  induction l as [|i r IH]; cbn; auto.
  destruct (is_panic i) eqn:E; cbn; rewrite E; auto. rewrite IH; auto.
Qed.
Lemma cut_map_cut : forall f l, keeps_panic f -> cut (map f (cut l)) = cut (map f l).
Proof.
  intros f l K; induction l as [|i r IH]; cbn; auto.
  destruct (is_panic i) eqn:E; cbn.
  - rewrite (K i E); reflexivity.
  - destruct (is_panic (f i)); auto. rewrite IH; auto.
Qed.
Lemma cut_app_cut_l : forall a b, cut (cut a ++ b) = cut (a ++ b).
Proof.
  induction a as [|i r IH]; intros; cbn; auto.
  destruct (is_panic i) eqn:E; cbn; rewrite E; auto. rewrite IH; auto.
Qed.
Lemma cut_app_cut_r : forall a b, cut (a ++ cut b) = cut (a ++ b).
Proof.
  induction a as [|i r IH]; intros; cbn; auto using cut_idem.
  destruct (is_panic i); auto. rewrite IH; auto.
Qed.
Lemma seq_cut : forall a b, seq (cut a) (cut b) = cut (a ++ b).
Proof.
  unfold seq, panicked. induction a as [|i r IH]; intros b; cbn; auto.
  destruct (is_panic i) eqn:E; cbn; rewrite E; cbn; auto.
  specialize (IH b). destruct (existsb is_panic (cut r)); congruence.
Qed.
Lemma cut_no_panic : forall l, panicked l = false -> cut l = l.
Proof.
  unfold panicked; induction l as [|i r IH]; cbn; auto. intros H.
  apply orb_false_iff in H as [H1 H2]. rewrite H1, IH; auto.
Qed.
Lemma panicked_cut : forall l, panicked (cut l) = panicked l.
Proof.
  unfold panicked; induction l as [|i r IH]; cbn; auto.
  destruct (is_panic i) eqn:E; cbn; rewrite E; cbn; auto.
Qed.
Lemma map_cut_same : forall f l, (forall i, is_panic (f i) = is_panic i) -> map f (cut l) = cut (map f l).
Proof.
  intros f l H; induction l as [|i r IH]; cbn; auto.
  rewrite H. destruct (is_panic i); cbn; congruence.
Qed.

Lemma run_script_spec : forall s w, run_script s w = cut (map (ew_xf w) (map s_item s)).
Proof.
  induction s as [|it r IH]; intros; cbn; auto.
  rewrite ew_item_spec. destruct (is_panic (ew_xf w (s_item it))); auto. rewrite IH; auto.
Qed.

(* every spec trace is already cut *)
Lemma spec_calls_cut : forall e, cut (spec_calls e) = spec_calls e.
Proof.
  induction e; cbn [spec_calls]; auto using cut_idem;
    rewrite <- map_cut_same by (first [apply i_dims_is_panic | apply i_gdims_is_panic]);
    rewrite IHe; reflexivity.
Qed.

(* ------------------------------------------------------------------ the refinement *)

Theorem ewrite_spec : forall e w, ewrite e w = cut (map (ew_xf w) (spec_calls e)).
Proof.
  induction e; intros w; cbn [ewrite spec_calls]; auto.
  - (* Plain *) rewrite run_script_spec, cut_map_cut by apply ew_xf_keeps. reflexivity.
  - (* Boxed *) rewrite IHe; reflexivity.
  - (* Merged *) rewrite IHe1, IHe2, seq_cut, cut_map_cut, map_app by apply ew_xf_keeps. reflexivity.
  - (* MergedRef *) rewrite IHe1, IHe2, seq_cut, cut_map_cut, map_app by apply ew_xf_keeps. reflexivity.
  - (* WithDimsE *) rewrite IHe, map_map; reflexivity.
  - (* WithGDimsE *) rewrite IHe, map_map; reflexivity.
  - (* ForceE *) rewrite IHe, cut_map_cut, map_map by apply ew_xf_keeps. reflexivity.
  - (* WithDimsI *) rewrite IHe, map_map; reflexivity.
  - (* ForceI *) rewrite IHe, cut_map_cut, map_map by apply ew_xf_keeps. reflexivity.
Qed.

Theorem calls_spec : forall e, calls e = spec_calls e.
Proof.
  intros; unfold calls; rewrite ewrite_spec. cbn [ew_xf]. rewrite map_id. apply spec_calls_cut.
Qed.
