(* C05 — entry points of the extracted driver. *)
(* DISPATCH 500 c05_model *)
(* DISPATCH 501 c05_holds *)
From Coq Require Import List ZArith NArith Bool Arith.
From MV Require Import Common.Sx Queue.Model Queue.Spec Queue.Wire C01.Codec.
Import ListNotations.

Definition c05_model (x : sx) : sx := q_model x.

Definition is_stream (e : ev) : bool := match e with EWake _ | EOver => false | _ => true end.
Definition stream_side (o : list ev) : list ev := filter is_stream o.

(* the stream's last two events are its flush and its drop *)
Definition closed_properly (o : list ev) : bool :=
  match rev (stream_side o) with
  | EDropStream :: EFlush _ :: _ => true
  | _ => false
  end.

(* every entry of P was handed to the stream, or never is and an overflow was counted for it *)
Definition all_accounted (P : list ent) (pre all : list ev) : bool :=
  let missing := filter (fun e => negb (mem_ent e (nexts pre))) P in
  forallb (fun e => negb (mem_ent e (nexts all))) missing && Nat.leb (length missing) (count_over pre).

(* labels up to (excluding) the first occurrence of a label satisfying p, with the events of those steps *)
Fixpoint split_at (p : label -> bool) (steps : list (option label * list ev)) (acc_l : list label) (acc_e : list ev)
  : option (list label * list ev * list (option label * list ev)) :=
  match steps with
  | [] => None
  | (l, evs) :: r =>
    match l with
    | Some l' => if p l' then Some (acc_l, acc_e, steps)
                 else split_at p r (acc_l ++ [l']) (acc_e ++ evs)
    | None => split_at p r acc_l (acc_e ++ evs)
    end
  end.

Definition is_jstore (l : label) : bool := match l with LJStore => true | _ => false end.
Definition is_jjoin (l : label) : bool := match l with LJJoin => true | _ => false end.
Definition is_forget (l : label) : bool := match l with LForget => true | _ => false end.

Definition steps_of (case i : sx) : list (option label * list ev) :=
  map (fun p => (dec_label (fst p), flat_map (fun e => opt_list (dec_ev e)) (sx_list (sx_nth (snd p) 2))))
      (combine (dec_labels case) (sx_list i)).

Fixpoint handle_balance (ls : list label) (h : Z) : Z :=
  match ls with
  | [] => h
  | LClone :: r => handle_balance r (h + 1)
  | LDropHandle :: r => handle_balance r (h - 1)
  | _ :: r => handle_balance r h
  end.

Fixpoint has_drop_b (o : list ev) : bool :=
  match o with [] => false | EDropStream :: _ => true | _ :: r => has_drop_b r end.

Definition c05_sched_spec (case i : sx) : bool :=
  let steps := steps_of case i in
  let ls := all_labels case in
  let log := impl_events i in
  let writer_done := sx_bool (sx_nth (last (sx_list i) (L [])) 0) in
  nothing_after_drop log &&
  (* drop(join handle) returned *)
  match split_at is_jjoin steps [] [] with
  | Some (ls_before_join, evs_before_join, rest) =>
    let evs_at_return := evs_before_join ++ match rest with (_, e) :: _ => e | [] => [] end in
    closed_properly evs_at_return &&
    match split_at is_jstore steps [] [] with
    | Some (ls_before_store, _, _) => all_accounted (pushes ls_before_store) evs_at_return log
    | None => false
    end
  | None => true
  end &&
  (* forgotten handle and no queue handle left: the thread must have ended, everything written *)
  (if existsb is_forget ls && Z.eqb (handle_balance ls 1) 0
   then writer_done && closed_properly log && all_accounted (pushes ls) log log
   else true) &&
  (* however it ended: if the thread is gone, the stream was flushed and dropped *)
  (if writer_done then closed_properly log else negb (has_drop_b log)).

(* unscheduled runs (tag 1: shutdown through the join handle after all producers finished; tag 3: handle
   forgotten, all queues dropped, the harness waited for the stream's drop; tag 4: a global sink's AttachHandle
   dropped, appends before and after) *)
Definition c05_stress_spec (case i : sx) : bool :=
  let log := stress_events i in
  let threads := sx_nat (sx_arg case 2) in
  let per := sx_nat (sx_arg case 3) in
  c01_stress_spec case i && closed_properly log && nothing_after_drop log &&
  Nat.eqb (length (nexts log) + count_over log) (threads * per).

Definition c05_forget_spec (case i : sx) : bool :=
  let log := stress_events i in
  let threads := sx_nat (sx_arg case 2) in
  let per := sx_nat (sx_arg case 3) in
  sx_bool (sx_nth i 1) &&                      (* the stream was dropped within the waiting time *)
  closed_properly log && nothing_after_drop log &&
  Nat.eqb (length (nexts log) + count_over log) (threads * per) &&
  c01_stress_spec case i.

Fixpoint until_drop (o : list ev) : list ev :=
  match o with [] => [] | EDropStream :: _ => [EDropStream] | e :: r => e :: until_drop r end.

Definition c05_attach_spec (case i : sx) : bool :=
  let full := stress_events i in
  let log := until_drop full in
  nothing_after_drop full && Nat.eqb (length (nexts full)) (length (nexts log)) &&
  let before := sx_nat (sx_arg case 1) in
  let cap_ := sx_nat (sx_arg case 0) in
  closed_properly log && nothing_after_drop log &&
  (* everything appended before the drop is written (capacity permitting), nothing appended after it is *)
  is_subseq (nexts log) (thread_seq 1 before) &&
  Nat.eqb (length (nexts log) + count_over log) before &&
  (if Nat.leb before cap_ then Nat.eqb (count_over log) 0 else true).

(* tag 5: the AttachHandle of a global sink is dropped while other threads are inside `try_append` (one of them may be
   held there, i.e. under the sink's read lock).  i = ((all events) (events when drop(AttachHandle) returned)).
   When the drop returns the stream has been flushed and dropped; the entries thread 1 appended before the drop began
   are written (or counted as displaced); nothing reaches the stream afterwards; no entry is written twice. *)
Definition c05_attach_race_spec (case i : sx) : bool :=
  let full := stress_events i in
  let at_ret := flat_map (fun e => opt_list (dec_ev e)) (sx_list (sx_nth i 1)) in
  let before := sx_nat (sx_arg case 1) in
  (* a racing appender bumps the overflow counter after its force_push displaced an entry: when the drop returns,
     each of them (and the held one) may have one displacement not yet in the log — the full log has them all *)
  let missing := filter (fun e => negb (mem_ent e (nexts at_ret))) (thread_seq 1 before) in
  closed_properly at_ret && nothing_after_drop full &&
  Nat.eqb (length (nexts full)) (length (nexts at_ret)) &&
  Nat.leb (length missing) (count_over at_ret + sx_nat (sx_arg case 2) + 1) &&
  Nat.leb (length missing) (count_over full) &&
  nodup_ent (nexts full).

Definition c05_holds (x : sx) : sx :=
  let case := sx_nth x 0 in let i := sx_nth x 1 in
  of_bool match sx_tag case with
          | 0%Z => c05_sched_spec case i
          | 1%Z => c05_stress_spec case i
          | 3%Z => c05_forget_spec case i
          | 5%Z => c05_attach_race_spec case i
          | _ => c05_attach_spec case i
          end.
