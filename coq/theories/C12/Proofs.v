(* C12 — proofs (part 1): exact weight. *)
From Coq Require Import List ZArith NArith Bool Lia.
From MV Require Import C12.Model C12.Spec.
Import ListNotations.
Local Open Scope N_scope.

Lemma weight_exact_two_values : forall I k, weight_exact I k = w_floor I \/ weight_exact I k = w_floor I + 1.
Proof. intros I k. unfold weight_exact. destruct (k <? w_threshold I); [left|right]; reflexivity. Qed.
