(* C12 — the bit-exact weight computation (rate_to_n_alpha / rate_to_n over Flocq binary64) is the exact-rational
   weight of Spec.v applied to the correctly rounded inverse rate. *)
From Coq Require Import List ZArith NArith Reals QArith Qreals Lra Lia Bool.
From Flocq Require Import Core.Core Relative IEEE754.BinarySingleNaN IEEE754.Binary IEEE754.Bits.
From MV Require Import SFloat.Defs SFloat.Facts C12.Model C12.Spec C12.ProofsFloat C12.ProofsWeight.
Local Open Scope R_scope.

(* ---------------------------------------------------------------- `x as u64` of a positive finite float *)
Lemma pos_finite_form : forall x : f64, Binary.is_finite 53 1024 x = true -> 0 < R64 x ->
  exists m e H, x = Binary.B754_finite 53 1024 false m e H.
Proof.
  intros x F P. destruct x as [s|s|s pl H|s m e H]; try discriminate.
  - cbn in P. lra.
  - destruct s.
    + exfalso. cbn in P. unfold F2R in P. cbn [Fnum Fexp cond_Zopp] in P.
      assert (0 < bpow radix2 e) by apply bpow_gt_0.
      assert (IZR (Z.neg m) < 0) by (apply IZR_lt; lia). nra.
    + exists m, e, H. reflexivity.
Qed.

Lemma f64_as_u64_pos : forall x : f64, Binary.is_finite 53 1024 x = true -> 0 < R64 x ->
  f64_as_u64 x = N.min u64_max (Z.to_N (Zfloor (R64 x))).
Proof.
  intros x F P. destruct (pos_finite_form x F P) as (m & e & H & E). subst x. unfold f64_as_u64.
  f_equal. f_equal. apply eq_IZR. rewrite (Binary.Btrunc_correct 53 1024 (eq_refl _)).
  rewrite round_FIX_IZR. rewrite Ztrunc_floor by lra. reflexivity.
Qed.

Lemma one64_value : R64 f64_one = 1 /\ Binary.is_finite 53 1024 f64_one = true.
Proof. unfold f64_one. destruct (u64_as_f64_exact 1 ltac:(lia)) as [A B]. split; [rewrite A; reflexivity|exact B]. Qed.

Lemma threshold_value : R32 saturation_threshold = bpow radix2 (-63) /\ Binary.is_finite 24 128 saturation_threshold = true.
Proof.
  split.
  - rewrite R32_via_FF.
    replace (Binary.B2FF 24 128 saturation_threshold) with (Binary.F754_finite false 8388608 (-86)) by (vm_compute; reflexivity).
    unfold Binary.FF2R, F2R. cbn [Fnum Fexp cond_Zopp].
    change (IZR (Zpos 8388608)) with (bpow radix2 23). rewrite <- bpow_plus. reflexivity.
  - vm_compute. reflexivity.
Qed.

Lemma draw64_value : forall u, R64 (draw64 u) = IZR (Z.of_N (draw64_k u)) * bpow radix2 (-53) /\
  Binary.is_finite 53 1024 (draw64 u) = true.
Proof.
  intros u. unfold draw64. fold (draw64_k u). pose proof (draw64_k_lt u) as K.
  destruct (u64_as_f64_exact (draw64_k u) ltac:(lia)) as [V F]. destruct scale53_value as [SV SF].
  pose proof (Binary.Bmult_correct 53 1024 (eq_refl _) (eq_refl _) binop_nan_pl64 mode_NE scale53 (u64_as_f64 (draw64_k u))) as C.
  cbn [round_mode] in C. change (SpecFloat.fexp 53 1024) with fmt64 in C. rewrite SV, V, SF, F in C.
  assert (G : generic_format radix2 fmt64 (bpow radix2 (-53) * IZR (Z.of_N (draw64_k u)))).
  { replace (bpow radix2 (-53) * IZR (Z.of_N (draw64_k u))) with (F2R (Float radix2 (Z.of_N (draw64_k u)) (-53)))
      by (unfold F2R; cbn [Fnum Fexp]; ring).
    apply (format_m_e 53 1024 (eq_refl _)); [|cbn; lia]. rewrite Z.abs_eq by lia. lia. }
  rewrite (round_generic radix2 fmt64 ZnearestE _ G) in C.
  assert (B : Rabs (bpow radix2 (-53) * IZR (Z.of_N (draw64_k u))) < bpow radix2 1024).
  { rewrite Rabs_pos_eq.
    - apply Rlt_trans with (bpow radix2 (-53) * bpow radix2 53).
      + apply Rmult_lt_compat_l; [apply bpow_gt_0|]. change (bpow radix2 53) with (IZR (2 ^ 53)). apply IZR_lt. lia.
      + rewrite <- bpow_plus. apply bpow_lt. lia.
    - apply Rmult_le_pos; [apply bpow_ge_0 | apply IZR_le; lia]. }
  rewrite (Rlt_bool_true _ _ B) in C. destruct C as (C1 & C2 & _). unfold f64_mul, b64_mult.
  split; [rewrite C1; ring | exact C2].
Qed.

Section Rate.
  Variable rate : f32.
  Hypothesis Ffin : Binary.is_finite 24 128 rate = true.
  Hypothesis Hpos : 0 < R32 rate.
  Hypothesis Hle1 : R32 rate <= 1.

  (* the inverse rate as the code computes it: one correctly rounded binary64 division *)
  Definition inv_real : R := rnd64 (1 / R32 rate).
  Let r := f32_as_f64 rate.
  Let inv := f64_div f64_one r.

  Lemma r_value : R64 r = R32 rate /\ Binary.is_finite 53 1024 r = true.
  Proof. apply f32_as_f64_exact. exact Ffin. Qed.

  Lemma rate_ge_min : bpow radix2 (-149) <= R32 rate.
  Proof.
    assert (S : Binary.is_finite_strict 24 128 rate = true).
    { destruct rate; try discriminate; [cbn in Hpos; lra | reflexivity]. }
    pose proof (Binary.abs_B2R_ge_emin 24 128 rate S) as H. rewrite Rabs_pos_eq in H by lra. exact H.
  Qed.

  Lemma one_in_fmt64 : generic_format radix2 fmt64 1.
  Proof. change 1 with (bpow radix2 0). apply generic_format_bpow. unfold FLT_exp. lia. Qed.

  Lemma inv_real_ge_1 : 1 <= inv_real.
  Proof.
    unfold inv_real. apply round_ge_generic; [apply FLT_exp_valid; reflexivity | apply valid_rnd_N | apply one_in_fmt64 |].
    apply Rle_trans with (1 / 1); [lra|]. unfold Rdiv. apply Rmult_le_compat_l; [lra|]. apply Rinv_le_contravar; lra.
  Qed.

  Lemma inv_le_bound : forall e : Z, (-1074 <= e)%Z -> bpow radix2 (- e) <= R32 rate -> inv_real <= bpow radix2 e.
  Proof.
    intros e He H. unfold inv_real.
    apply round_le_generic; [apply FLT_exp_valid; reflexivity | apply valid_rnd_N | |].
    - apply generic_format_bpow. unfold FLT_exp. lia.
    - assert (P : 0 < bpow radix2 (- e)) by apply bpow_gt_0.
      replace (bpow radix2 e) with (1 / bpow radix2 (- e)) by (rewrite bpow_opp; field; apply Rgt_not_eq, bpow_gt_0).
      unfold Rdiv. apply Rmult_le_compat_l; [lra|]. apply Rinv_le_contravar; assumption.
  Qed.

  Lemma inv_value : R64 inv = inv_real /\ Binary.is_finite 53 1024 inv = true /\ 0 < R64 inv.
  Proof.
    destruct r_value as [RV RF]. destruct one64_value as [OV OF].
    assert (NZ : R64 r <> 0) by (rewrite RV; lra).
    pose proof (Binary.Bdiv_correct 53 1024 (eq_refl _) (eq_refl _) binop_nan_pl64 mode_NE f64_one r NZ) as C.
    cbn [round_mode] in C. change (SpecFloat.fexp 53 1024) with fmt64 in C. rewrite OV, RV in C.
    fold inv_real in C.
    assert (B : Rabs inv_real < bpow radix2 1024).
    { pose proof inv_real_ge_1. rewrite Rabs_pos_eq by lra.
      apply Rle_lt_trans with (bpow radix2 149); [apply inv_le_bound; [lia | apply rate_ge_min] | apply bpow_lt; lia]. }
    rewrite (Rlt_bool_true _ _ B) in C. destruct C as (C1 & C2 & _).
    unfold inv, f64_div, b64_div. rewrite C1, C2, OF. pose proof inv_real_ge_1. repeat split; try reflexivity. lra.
  Qed.

  (* the integer part: n = floor(inv) as long as the cast does not saturate *)
  Lemma n_value : inv_real <= bpow radix2 63 -> fst (rate_to_n_alpha rate) = Z.to_N (Zfloor inv_real).
  Proof.
    intros H. unfold rate_to_n_alpha. cbn [fst]. fold r. fold inv. destruct inv_value as (V & F & P).
    rewrite (f64_as_u64_pos inv F P), V. apply N.min_r.
    assert (Zfloor inv_real <= 2 ^ 63)%Z.
    { apply le_IZR. apply Rle_trans with inv_real; [apply Zfloor_lb|]. change (IZR (2 ^ 63)) with (bpow radix2 63). exact H. }
    unfold u64_max. lia.
  Qed.

  Lemma saturates_iff : f32_lt rate saturation_threshold = true <-> R32 rate < bpow radix2 (-63).
  Proof.
    destruct threshold_value as [TV TF]. rewrite (f32_lt_correct rate saturation_threshold Ffin TF), TV. reflexivity.
  Qed.

  (* below 2^-63: the largest 64-bit value *)
  Theorem weight_saturates : R32 rate < bpow radix2 (-63) -> forall u, rate_to_n rate u = u64_max.
  Proof. intros H u. unfold rate_to_n. apply saturates_iff in H. rewrite H. reflexivity. Qed.

  (* from 2^-63 up: the weight is floor(inv) or floor(inv) + 1, where inv, the computed inverse, lies in [1, 2^63] *)
  Theorem weight_two_values : bpow radix2 (-63) <= R32 rate -> forall u,
    (1 <= inv_real <= bpow radix2 63) /\
    (rate_to_n rate u = Z.to_N (Zfloor inv_real) \/ rate_to_n rate u = (Z.to_N (Zfloor inv_real) + 1)%N).
  Proof.
    intros H u. assert (B : inv_real <= bpow radix2 63) by (apply inv_le_bound; [lia | exact H]).
    split; [split; [apply inv_real_ge_1 | exact B]|].
    unfold rate_to_n. destruct (f32_lt rate saturation_threshold) eqn:S.
    - apply saturates_iff in S. lra.
    - rewrite (n_value B).
      assert (Z.to_N (Zfloor inv_real) <= 2 ^ 63)%N.
      { assert (Zfloor inv_real <= 2 ^ 63)%Z.
        { apply le_IZR. apply Rle_trans with inv_real; [apply Zfloor_lb|]. change (IZR (2 ^ 63)) with (bpow radix2 63). exact B. }
        lia. }
      destruct (f64_lt (draw64 u) (snd (rate_to_n_alpha rate))); [left; reflexivity|right].
      apply N.min_r. unfold u64_max. lia.
  Qed.

  (* the computed inverse is a multiple of 2^-52 *)
  Lemma inv_dyadic : exists I : Z, (0 < I)%Z /\ inv_real = IZR I * bpow radix2 (-52).
  Proof.
    assert (G : generic_format radix2 fmt64 inv_real).
    { unfold inv_real. apply generic_format_round; [apply FLT_exp_valid; reflexivity | apply valid_rnd_N]. }
    pose proof inv_real_ge_1 as G1.
    set (m := Ztrunc (scaled_mantissa radix2 fmt64 inv_real)) in *.
    set (ce := cexp radix2 fmt64 inv_real) in *.
    assert (CE : (-52 <= ce)%Z).
    { unfold ce, cexp, FLT_exp.
      assert (1 <= mag radix2 inv_real)%Z.
      { apply mag_ge_bpow. cbn. rewrite Rabs_pos_eq by lra. lra. }
      lia. }
    exists (m * 2 ^ (ce + 52))%Z.
    assert (E : inv_real = IZR (m * 2 ^ (ce + 52)) * bpow radix2 (-52)).
    { rewrite G at 1. fold m. fold ce. unfold F2R. cbn [Fnum Fexp]. rewrite mult_IZR.
      change 2%Z with (radix_val radix2). rewrite IZR_Zpower by lia.
      rewrite Rmult_assoc, <- bpow_plus. replace (ce + 52 + -52)%Z with ce by lia. reflexivity. }
    split; [|exact E].
    apply lt_IZR. assert (P : 0 < bpow radix2 (-52)) by apply bpow_gt_0.
    assert (0 < IZR (m * 2 ^ (ce + 52)) * bpow radix2 (-52)) by (rewrite <- E; lra).
    destruct (Rle_or_lt (IZR (m * 2 ^ (ce + 52))) 0) as [L|L]; [|exact L].
    exfalso. nra.
  Qed.

  (* below 2^53 the bit-exact computation *is* the exact-rational weight of the specification, applied to the
     computed inverse I / 2^52 and the 53-bit draw *)
  Theorem weight_exact_link : inv_real < bpow radix2 53 ->
    exists I : N, inv_real = IZR (Z.of_N I) * bpow radix2 (-52) /\ (two52 <= I)%N /\
      forall u, rate_to_n rate u = weight_exact I (draw64_k u).
  Proof.
    intros Hlt. destruct inv_dyadic as (Iz & Ipos & E). exists (Z.to_N Iz).
    rewrite Z2N.id by lia. split; [exact E|].
    pose proof inv_real_ge_1 as G1.
    assert (P52 : 0 < bpow radix2 (-52)) by apply bpow_gt_0.
    assert (Ilo : (2 ^ 52 <= Iz)%Z).
    { apply le_IZR. change (IZR (2 ^ 52)) with (bpow radix2 52).
      assert (bpow radix2 52 * bpow radix2 (-52) = 1) by (rewrite <- bpow_plus; reflexivity). nra. }
    assert (Ihi : (Iz < 2 ^ 105)%Z).
    { apply lt_IZR. change (IZR (2 ^ 105)) with (bpow radix2 105).
      assert (bpow radix2 105 * bpow radix2 (-52) = bpow radix2 53) by (rewrite <- bpow_plus; reflexivity). nra. }
    split; [rewrite two52_val; lia|].
    (* floor *)
    assert (FL : Zfloor inv_real = (Iz / 2 ^ 52)%Z).
    { rewrite E. replace (IZR Iz * bpow radix2 (-52)) with (IZR Iz / IZR (2 ^ 52)).
      - apply Zfloor_div. lia.
      - change (IZR (2 ^ 52)) with (bpow radix2 52). unfold Rdiv. f_equal. }
    set (nz := (Iz / 2 ^ 52)%Z) in *.
    assert (NB : (nz * 2 ^ 52 <= Iz < (nz + 1) * 2 ^ 52)%Z).
    { unfold nz. pose proof (Z.div_mod Iz (2 ^ 52) ltac:(lia)). pose proof (Z.mod_pos_bound Iz (2 ^ 52) ltac:(lia)). lia. }
    assert (NZ1 : (1 <= nz)%Z) by (unfold nz; apply Z.div_le_lower_bound; lia).
    assert (NZ2 : (nz < 2 ^ 53)%Z) by (unfold nz; apply Z.div_lt_upper_bound; lia).
    assert (NS : bpow radix2 (-63) <= R32 rate).
    { destruct (Rle_or_lt (bpow radix2 (-63)) (R32 rate)) as [L|L]; [exact L|]. exfalso.
      assert (bpow radix2 63 <= inv_real).
      { unfold inv_real. apply round_ge_generic; [apply FLT_exp_valid; reflexivity | apply valid_rnd_N | |].
        - apply generic_format_bpow. unfold FLT_exp. lia.
        - replace (bpow radix2 63) with (1 / bpow radix2 (-63)) by (change (bpow radix2 (-63)) with (bpow radix2 (- (63))); rewrite (bpow_opp radix2 63); field; apply Rgt_not_eq, bpow_gt_0).
          unfold Rdiv. apply Rmult_le_compat_l; [lra|]. apply Rinv_le_contravar; lra. }
      assert (bpow radix2 53 < bpow radix2 63) by (apply bpow_lt; lia). lra. }
    assert (B63 : inv_real <= bpow radix2 63) by (apply inv_le_bound; [lia | exact NS]).
    pose proof (n_value B63) as NV. rewrite FL in NV.
    intros u. unfold rate_to_n.
    destruct (f32_lt rate saturation_threshold) eqn:S; [apply saturates_iff in S; lra|].
    rewrite NV. unfold rate_to_n_alpha in *. cbn [fst snd] in *. fold r in NV |- *. fold inv in NV |- *. rewrite NV.
    set (n := Z.to_N nz) in *.
    assert (Nn : Z.of_N n = nz) by (unfold n; rewrite Z2N.id; lia).
    destruct inv_value as (IV & IF & _).
    destruct (u64_as_f64_exact (n + 1) ltac:(lia)) as [XV XF].
    (* alpha = (n + 1) - inv, exactly *)
    set (d := ((nz + 1) * 2 ^ 52 - Iz)%Z).
    assert (D : (0 < d <= 2 ^ 52)%Z) by (unfold d; lia).
    assert (AV : R64 (f64_sub (u64_as_f64 (n + 1)) inv) = IZR d * bpow radix2 (-52) /\
                 Binary.is_finite 53 1024 (f64_sub (u64_as_f64 (n + 1)) inv) = true).
    { pose proof (Binary.Bminus_correct 53 1024 (eq_refl _) (eq_refl _) binop_nan_pl64 mode_NE (u64_as_f64 (n + 1)) inv XF IF) as C.
      cbn [round_mode] in C. change (SpecFloat.fexp 53 1024) with fmt64 in C. rewrite XV, IV, E in C.
      assert (EQ : IZR (Z.of_N (n + 1)) - IZR Iz * bpow radix2 (-52) = F2R (Float radix2 d (-52))).
      { unfold F2R, d. cbn [Fnum Fexp]. rewrite N2Z.inj_add, Nn. rewrite minus_IZR, mult_IZR, plus_IZR.
        change (IZR (2 ^ 52)) with (bpow radix2 52). change (Z.of_N 1) with 1%Z.
        assert (HB : bpow radix2 52 * bpow radix2 (-52) = 1) by (rewrite <- bpow_plus; reflexivity).
        transitivity ((IZR nz + 1) * (bpow radix2 52 * bpow radix2 (-52)) - IZR Iz * bpow radix2 (-52)); [rewrite HB; ring | rewrite ?plus_IZR; ring]. }
      rewrite EQ in C.
      assert (G : generic_format radix2 fmt64 (F2R (Float radix2 d (-52)))).
      { apply (format_m_e 53 1024 (eq_refl _)); [|cbn; lia]. rewrite Z.abs_eq by lia. lia. }
      rewrite (round_generic radix2 fmt64 ZnearestE _ G) in C.
      assert (B : Rabs (F2R (Float radix2 d (-52))) < bpow radix2 1024).
      { unfold F2R. cbn [Fnum Fexp]. rewrite Rabs_pos_eq.
        - apply Rle_lt_trans with (bpow radix2 52 * bpow radix2 (-52)).
          + apply Rmult_le_compat_r; [lra|]. change (bpow radix2 52) with (IZR (2 ^ 52)). apply IZR_le. lia.
          + rewrite <- bpow_plus. apply bpow_lt. lia.
        - apply Rmult_le_pos; [apply IZR_le; lia | lra]. }
      rewrite (Rlt_bool_true _ _ B) in C. destruct C as (C1 & C2 & _). unfold f64_sub, b64_minus.
      split; [rewrite C1; reflexivity | exact C2]. }
    destruct AV as [AV AF]. destruct (draw64_value u) as [DV DF].
    pose proof (f64_lt_correct (draw64 u) (f64_sub (u64_as_f64 (n + 1)) inv) DF AF) as LT. rewrite DV, AV in LT.
    (* the threshold of the specification *)
    assert (WF : w_floor (Z.to_N Iz) = n).
    { unfold w_floor. rewrite two52_val. unfold n, nz. rewrite Z2N.inj_div by lia. reflexivity. }
    assert (WT : Z.of_N (w_threshold (Z.to_N Iz)) = (2 * d)%Z).
    { unfold w_threshold. rewrite WF, two52_val. unfold d. rewrite N2Z.inj_mul, N2Z.inj_sub.
      - rewrite N2Z.inj_mul, N2Z.inj_add, Nn, Z2N.id by lia. reflexivity.
      - apply N2Z.inj_le. rewrite N2Z.inj_mul, N2Z.inj_add, Nn, Z2N.id by lia. change (Z.of_N (2 ^ 52)) with (2 ^ 52)%Z. change (Z.of_N 1) with 1%Z. lia. }
    unfold weight_exact. rewrite WF.
    assert (KK : (IZR (Z.of_N (draw64_k u)) * bpow radix2 (-53) < IZR d * bpow radix2 (-52)) <->
                 (draw64_k u < w_threshold (Z.to_N Iz))%N).
    { assert (H2 : bpow radix2 (-52) = 2 * bpow radix2 (-53)).
      { replace (-52)%Z with (1 + -53)%Z by lia. rewrite bpow_plus. reflexivity. }
      assert (P53 : 0 < bpow radix2 (-53)) by apply bpow_gt_0.
      rewrite H2. split; intros H.
      - apply N2Z.inj_lt. rewrite WT. apply lt_IZR. rewrite mult_IZR. nra.
      - apply N2Z.inj_lt in H. rewrite WT in H. apply IZR_lt in H. rewrite mult_IZR in H. nra. }
    destruct LT as [LT1 LT2].
    destruct (draw64_k u <? w_threshold (Z.to_N Iz))%N eqn:K.
    - apply N.ltb_lt in K. apply KK in K. rewrite (LT2 K). reflexivity.
    - apply N.ltb_ge in K. destruct (f64_lt (draw64 u) (f64_sub (u64_as_f64 (n + 1)) inv)) eqn:L.
      + specialize (LT1 eq_refl). apply KK in LT1. lia.
      + apply N.min_r. unfold u64_max. lia.
  Qed.

  (* every rate >= 2^-52 falls under the exact case *)
  Corollary weight_exact_link_rate : bpow radix2 (-52) <= R32 rate ->
    exists I : N, inv_real = IZR (Z.of_N I) * bpow radix2 (-52) /\ (two52 <= I)%N /\
      forall u, rate_to_n rate u = weight_exact I (draw64_k u).
  Proof.
    intros H. apply weight_exact_link.
    apply Rle_lt_trans with (bpow radix2 52); [apply inv_le_bound; [lia | exact H] | apply bpow_lt; lia].
  Qed.

  (* the computed inverse is the correctly rounded 1/rate: within half an ulp, i.e. relative 2^-53 *)
  Theorem inv_real_error : Rabs (inv_real - 1 / R32 rate) <= bpow radix2 (-53) * Rabs (1 / R32 rate).
  Proof.
    unfold inv_real.
    assert (B : bpow radix2 (-1022) <= Rabs (1 / R32 rate)).
    { rewrite Rabs_pos_eq.
      - apply Rle_trans with 1; [change 1 with (bpow radix2 0); apply bpow_le; lia|].
        apply Rle_trans with (1 / 1); [lra|]. unfold Rdiv. apply Rmult_le_compat_l; [lra|]. apply Rinv_le_contravar; lra.
      - apply Rlt_le. apply Rdiv_lt_0_compat; lra. }
    pose proof (relative_error_N_FLT radix2 (-1074) 53 ltac:(lia) (fun x => negb (Z.even x)) (1 / R32 rate) B) as H.
    replace (bpow radix2 (-53)) with (/ 2 * bpow radix2 (-53 + 1)).
    - exact H.
    - change (-53 + 1)%Z with (1 + -53)%Z. rewrite bpow_plus. change (bpow radix2 1) with 2. field.
  Qed.
End Rate.

(* discharging the premises of the theorems above for a concrete rate through its rational value *)
Lemma rate_premises_by_Q : forall (rate : f32) (q : Q), f32_to_Q rate = Some q ->
  Qle_bool (1 # 2 ^ 52) q = true -> Qle_bool q 1 = true ->
  Binary.is_finite 24 128 rate = true /\ 0 < R32 rate /\ R32 rate <= 1 /\ bpow radix2 (-52) <= R32 rate.
Proof.
  intros rate q HQ L U. destruct (f32_to_Q_correct rate q HQ) as [V F].
  apply Qle_bool_iff in L. apply Qle_bool_iff in U. apply Qle_Rle in L. apply Qle_Rle in U. rewrite V in L, U.
  assert (B : Q2R (1 # 2 ^ 52) = bpow radix2 (-52)).
  { unfold Q2R. cbn [Qnum Qden]. change (bpow radix2 (-52)) with (/ IZR (Z.pow_pos 2 52)). rewrite Rmult_1_l. reflexivity. }
  rewrite B in L. replace (Q2R 1) with 1 in U by (unfold Q2R; cbn; field).
  assert (0 < bpow radix2 (-52)) by apply bpow_gt_0.
  repeat split; try assumption. lra.
Qed.
Lemma rate_tiny_by_Q : forall (rate : f32) (q : Q), f32_to_Q rate = Some q -> Qle_bool q (1 # 2 ^ 64) = true ->
  Binary.is_finite 24 128 rate = true /\ R32 rate < bpow radix2 (-63).
Proof.
  intros rate q HQ U. destruct (f32_to_Q_correct rate q HQ) as [V F]. split; [exact F|].
  apply Qle_bool_iff in U. apply Qle_Rle in U. rewrite V in U.
  assert (B : Q2R (1 # 2 ^ 64) = bpow radix2 (-64)).
  { unfold Q2R. cbn [Qnum Qden]. change (bpow radix2 (-64)) with (/ IZR (Z.pow_pos 2 64)). rewrite Rmult_1_l. reflexivity. }
  rewrite B in U. assert (bpow radix2 (-64) < bpow radix2 (-63)) by (apply bpow_lt; lia). lra.
Qed.

(* ---------------------------------------------------------------- unbiased, end to end *)
Lemma draw64_k_of_shift : forall k : N, (k < 2 ^ 53)%N -> draw64_k (k * 2 ^ 11) = k.
Proof.
  intros k H. unfold draw64_k. rewrite N.mod_small.
  - rewrite N.shiftr_div_pow2. apply N.div_mul. discriminate.
  - change (2 ^ 64)%N with (2 ^ 53 * 2 ^ 11)%N. apply N.mul_lt_mono_pos_r; [reflexivity | exact H].
Qed.

(* For every f32 rate in [2^-52, 1]: over the 2^53 equally likely values of the 53-bit draw, the weights the real
   computation hands out add up to exactly 2^53 times the computed inverse rate - its mean is the inverse rate. *)
Theorem weight_unbiased : forall rate : f32,
  Binary.is_finite 24 128 rate = true -> 0 < R32 rate -> R32 rate <= 1 -> bpow radix2 (-52) <= R32 rate ->
  IZR (Z.of_N (sum_below (fun k => rate_to_n rate (k * 2 ^ 11)) two53)) = bpow radix2 53 * inv_real rate.
Proof.
  intros rate F P L H. destruct (weight_exact_link_rate rate F P L H) as (I & E & _ & W).
  assert (S : sum_below (fun k => rate_to_n rate (k * 2 ^ 11)) two53 = sum_below (weight_exact I) two53).
  { rewrite two53_val. generalize (N.le_refl (2 ^ 53)%N). generalize (2 ^ 53)%N at 1 3 4. intros n.
    induction n as [|n IH] using N.peano_ind; intros Hn; [reflexivity|].
    rewrite !sum_below_succ, IH by lia. rewrite W, draw64_k_of_shift by lia. reflexivity. }
  rewrite S, weight_mean_exact, E. rewrite N2Z.inj_mul, mult_IZR. change (Z.of_N 2) with 2%Z.
  assert (B53 : bpow radix2 53 = bpow radix2 1 * bpow radix2 52) by (rewrite <- bpow_plus; reflexivity).
  assert (B : bpow radix2 52 * bpow radix2 (-52) = 1) by (rewrite <- bpow_plus; reflexivity).
  rewrite B53. set (b1 := bpow radix2 1). assert (B1 : b1 = 2) by reflexivity. rewrite B1.
  transitivity (2 * IZR (Z.of_N I) * (bpow radix2 52 * bpow radix2 (-52))); [rewrite B; ring | ring].
Qed.
