(* C12 — wire codec and entry points. Depends on Model/Spec only. *)
(* DISPATCH 1200 c12_model *)
(* DISPATCH 1201 c12_spec_holds *)
(* DISPATCH 1202 c12_congress_model_holds *)
(* DISPATCH 1203 c12_congress_spec_holds *)
From Coq Require Import List ZArith NArith QArith Qabs Qround Bool.
From Flocq Require Import IEEE754.Binary IEEE754.Bits.
From MV Require Import Common.Sx SFloat.Defs C12.Model C12.Spec.
Import ListNotations.

Definition dec_kind (x : sx) : obs_kind :=
  match sx_tag x with 0%Z => KUnsigned | 1%Z => KFloating | _ => KRepeated (sx_n (sx_arg x 0)) end.
Definition enc_decision (o : option f32) : sx :=
  match o with None => L [] | Some r => L [of_n (f32_bits r)] end.

(* cases:
   (0 rate u32)                    FixedFractionSample::format            -> (rate-handed-on)? as () or (bits)
   (2 rate)                        rate_to_n_alpha                         -> (n alpha_bits)
   (3 rate u64)                    rate_to_n                               -> n
   (4 rate u64)                    SampledEmf::format_with_sample_rate     -> () error | (multiplicity)
   (6 rate u32 u64 (metrics..))    FixedFractionSample<SampledEmf>         -> () nothing | ((counts..)..) *)
Definition c12_model (x : sx) : sx :=
  let rate := f32_of_bits (sx_n (sx_arg x 0)) in
  match sx_tag x with
  | 0%Z => enc_decision (fixed_format rate (sx_n (sx_arg x 1)))
  | 2%Z => let na := rate_to_n_alpha rate in L [of_n (fst na); of_n (f64_bits (snd na))]
  | 3%Z => of_n (rate_to_n rate (sx_n (sx_arg x 1)))
  | 4%Z => of_option of_n (sampled_emf_multiplicity rate (sx_n (sx_arg x 1)))
  | _ => of_option (fun css => L (map (fun cs => L (map of_n cs)) css))
           (fixed_emf_pipeline rate (sx_n (sx_arg x 1)) (sx_n (sx_arg x 2))
              (map (fun m => map dec_kind (sx_list m)) (sx_list (sx_arg x 3))))
  end.

(* ---- property predicate on the implementation's output: (case impl) -> 1 *)
Definition rate_q (x : sx) : option Q := f32_to_Q (f32_of_bits (sx_n x)).
Definition in_unit_interval (q : Q) : bool := negb (Qle_bool q 0) && Qle_bool q 1.

Definition counts_ok (rate : Q) (metrics : list (list obs_kind)) (css : list (list N)) : bool :=
  (* one multiplicity m for the whole record, m a permitted weight, every count derived from it.
     Candidates for m: any plain count, any exact quotient count/occurrences, floor, ceiling, saturation. *)
  let cands := flat_map (fun p => flat_map (fun q =>
                  match fst q with
                  | KRepeated occ =>
                      if (0 <? occ)%N && (snd q <? u64_max)%N && (snd q mod occ =? 0)%N then [(snd q / occ)%N] else []
                  | _ => [snd q]
                  end) (combine (fst p) (snd p))) (combine metrics css) in
  let check m :=
      weight_ok rate m &&
      Nat.eqb (length metrics) (length css) &&
      forallb (fun p => Nat.eqb (length (fst p)) (length (snd p)) &&
                        forallb (fun q => N.eqb (snd q) (count_of m (fst q))) (combine (fst p) (snd p)))
              (combine metrics css) in
  let inv := Qinv rate in
  existsb check (cands ++ [Z.to_N (q_floor inv); Z.to_N (q_ceil inv); u64_max]).

Definition c12_spec_holds (x : sx) : sx :=
  let case := sx_nth x 0 in
  let impl := sx_nth x 1 in
  let rbits := sx_arg case 0 in
  of_bool
  match rate_q rbits with
  | None => true                       (* non-finite rate: outside the property *)
  | Some rate =>
    match sx_tag case with
    | 0%Z =>
        (* emitted iff draw <= rate; the rate handed on is the rate compared against *)
        if in_unit_interval rate then
          match sx_list impl with
          | [] => negb (spec_emit rate (sx_n (sx_arg case 1)))
          | r :: _ => spec_emit rate (sx_n (sx_arg case 1)) && Z.eqb (sx_z r) (sx_z rbits)
          end
        else true
    | 2%Z =>
        if in_unit_interval rate && Qle_bool (Qmake 1 (2 ^ 63)) rate then
          match f64_to_Q (f64_of_bits (sx_n (sx_nth impl 1))) with
          | Some alpha =>
              (* below 2^53 the split is exactly unbiased; above, alpha degenerates to 0 or 2 and only
                 "within 1" is promised *)
              if Qle_bool (inject_Z (2 ^ 53)) (Qinv rate) then weight_ok rate (sx_n (sx_nth impl 0))
              else split_ok rate (sx_n (sx_nth impl 0)) alpha && weight_ok rate (sx_n (sx_nth impl 0))
          | None => false
          end
        else true
    | 3%Z => if in_unit_interval rate then weight_ok rate (sx_n impl) else true
    | 4%Z =>
        if in_unit_interval rate then match sx_list impl with [m] => weight_ok rate (sx_n m) | _ => false end
        else if Qle_bool rate 0 then match sx_list impl with [] => true | _ => false end
        else true
    | _ =>
        if in_unit_interval rate then
          let metrics := map (fun m => map dec_kind (sx_list m)) (sx_list (sx_arg case 3)) in
          match sx_list impl with
          | [] => negb (spec_emit rate (sx_n (sx_arg case 1)))
          | css :: _ => spec_emit rate (sx_n (sx_arg case 1)) &&
                        counts_ok rate metrics (map (fun cs => map sx_n (sx_list cs)) (sx_list css))
          end
        else true
    end
  end.

(* ---------------------------------------------------------------------------- congressional sampler *)
(* case (5 target (op..)), op = (0 ((k v)..) u32) | (1)
   impl ((0 decision rate_bits consumed) | (1 seen ((group rate avg cur noobs size)..)) ..), one per op *)
Definition dec_group (x : sx) : group := map (fun p => (sx_n (sx_nth p 0), sx_n (sx_nth p 1))) (sx_list x).

Definition close (tol : Q) (a b : Q) : bool :=
  Qle_bool (Qabs (a - b)) (tol * (if Qle_bool (Qabs a) (Qabs b) then Qabs b else Qabs a)).
Definition f32q (x : sx) : Q := match f32_to_Q (f32_of_bits (sx_n x)) with Some q => q | None => (-1)%Q end.

Definition tol_model : Q := Qmake 1 10000.     (* f32 arithmetic, unspecified summation order *)

(* one reported group state against the model's *)
Definition gstate_close (sampling : bool) (want : gstate) (got : sx) : bool :=
  close tol_model (g_rate want) (f32q (sx_nth got 1))
  && close tol_model (g_avg want) (f32q (sx_nth got 2))
  && N.eqb (g_cur want) (sx_n (sx_nth got 3))
  && N.eqb (g_noobs want) (sx_n (sx_nth got 4))
  && (negb sampling || close tol_model (g_size want) (f32q (sx_nth got 5))).

Fixpoint congress_check (c : congress) (ops : list sx) (outs : list sx) : bool :=
  match ops, outs with
  | [], [] => true
  | op :: ops', out :: outs' =>
      match sx_tag op with
      | 0%Z =>
          let g := dec_group (sx_arg op 0) in
          let r := observe c g in
          (* the rate the implementation used is the model's (within tolerance; exactly 1.0 for a new group, and after an
             interval at or below target by the specification predicate); its decision is the decision function
             applied to its own rate, bit for bit *)
          let rbits := sx_n (sx_arg out 1) in
          let d := congress_decide (f32_of_bits rbits) (sx_n (sx_arg op 1)) in
          close tol_model (snd r) (f32q (sx_arg out 1))
          && (match lookup_group c g with Some _ => true | None => N.eqb rbits (f32_bits f32_one) end)   (* a new group starts at exactly 1.0 *)
          && match fst d, sx_list (sx_arg out 0) with
             | None, [] => true
             | Some r', [b] => N.eqb (f32_bits r') (sx_n b)
             | _, _ => false
             end
          && N.eqb (snd d) (sx_n (sx_arg out 2))
          && congress_check (fst r) ops' outs'
      | _ =>
          let seen := c_cur c in
          let c' := update_rates c in
          let gs := sx_list (sx_arg out 1) in
          N.eqb seen (sx_n (sx_arg out 0))
          && Nat.eqb (length gs) (length (c_groups c'))
          && forallb (fun got => match lookup_group c' (dec_group (sx_nth got 0)) with
                                 | Some want => gstate_close (negb (N.leb seen (c_target c))) want got
                                 | None => false
                                 end) gs
          && congress_check c' ops' outs'
      end
  | _, _ => false
  end.

Definition c12_congress_model_holds (x : sx) : sx :=
  let case := sx_nth x 0 in
  of_bool (congress_check (c_init (sx_n (sx_arg case 0))) (sx_list (sx_arg case 1)) (sx_list (sx_nth x 1))).

(* the property's clauses on the implementation's own numbers after every end of interval, with the f32 slack *)
Definition tol_inv : Q := Qmake 1 100000.
Definition impl_after_interval_ok (target : N) (out : sx) : bool :=
  let seen := sx_n (sx_arg out 0) in
  let gs := map (fun g => (f32q (sx_nth g 1), f32q (sx_nth g 2))) (sx_list (sx_arg out 1)) in   (* (rate, avg) *)
  forallb (fun g => negb (Qle_bool (fst g) 0) && Qle_bool (fst g) 1 && negb (Qle_bool (snd g) 0)) gs
  && (if N.leb seen target then forallb (fun g => Qeq_bool (fst g) 1) gs
      else Qle_bool (qsum (map (fun g => fst g * snd g) gs)) (q_of_N target * (1 + tol_inv))
           && forallb (fun g => forallb (fun h => implb (Qle_bool (snd g) (snd h)) (Qle_bool (fst h) (fst g * (1 + tol_inv)))) gs) gs).

Definition c12_congress_spec_holds (x : sx) : sx :=
  let case := sx_nth x 0 in
  let target := sx_n (sx_arg case 0) in
  of_bool (forallb (fun out => match sx_tag out with
                               | 0%Z =>
                                   (* every rate handed out lies in (0,1] and is the rate passed on when emitted *)
                                   let r := f32q (sx_arg out 1) in
                                   negb (Qle_bool r 0) && Qle_bool r 1
                                   && match sx_list (sx_arg out 0) with [b] => Z.eqb (sx_z b) (sx_z (sx_arg out 1)) | _ => true end
                               | _ => impl_after_interval_ok target out
                               end) (sx_list (sx_nth x 1))).
