(* C12 — mechanism model of sampling:
     metrique-writer/src/sample/mod.rs      FixedFractionSample::format
     metrique-writer/src/sample/congress.rs CongressSample::{format, sample_rate, update_rates}, GroupState, ExpMovingAverage
     metrique-writer-format-emf/src/emf.rs  rate_to_n_alpha, rate_to_n, SampledEmf::format_with_sample_rate, Counts
     rand 0.9 StandardUniform for f32 / f64 (the draws).
   Decision and weight are bit-exact (Flocq binary32 / binary64); the congressional rate computation is over
   exact rationals (the code's f32 arithmetic is compared within a tolerance, summation order being unspecified).
   No proofs here. *)
From Coq Require Import List ZArith NArith QArith Bool.
From Flocq Require Import Core.Core IEEE754.Binary IEEE754.BinarySingleNaN IEEE754.Bits.
From MV Require Import SFloat.Defs.
Import ListNotations.
Local Open Scope N_scope.

(* ================================================================ draws (rand 0.9, StandardUniform) *)
(* f32: value = next_u32() >> 8; scale = 1.0 / ((1u32 << 24) as f32); scale * (value as f32) *)
Definition scale24 : f32 := f32_div f32_one (u32_as_f32 (2 ^ 24)).
Definition draw32 (u : N) : f32 := f32_mul scale24 (u32_as_f32 (N.shiftr (u mod 2 ^ 32) 8)).
(* f64: value = next_u64() >> 11; scale = 1.0 / ((1u64 << 53) as f64) *)
Definition scale53 : f64 := f64_div f64_one (u64_as_f64 (2 ^ 53)).
Definition draw64 (u : N) : f64 := f64_mul scale53 (u64_as_f64 (N.shiftr (u mod 2 ^ 64) 11)).

(* ================================================================ decisions *)
(* what reaches the inner SampledFormat: None = entry dropped, Some r = format_with_sample_rate(entry, out, r) *)

(* FixedFractionSample::format: `if self.rng.random::<f32>() <= self.rate` *)
Definition fixed_format (rate : f32) (u : N) : option f32 :=
  if f32_le (draw32 u) rate then Some rate else None.

(* FixedFractionSample::with_rng: assert!(rate.is_finite() && 0.0 < rate && rate <= 1.0) *)
Definition f32_zero : f32 := Binary.B754_zero 24 128 false.
Definition fixed_rate_ok (rate : f32) : bool :=
  Binary.is_finite 24 128 rate && f32_lt f32_zero rate && f32_le rate f32_one.

(* CongressSample::format: `if rate == 1.0 || self.rng.random::<f32>() <= rate`; the draw is only taken when
   the rate is not 1.0.  Result: (what reaches the inner format, number of u32 draws consumed) *)
Definition congress_decide (rate : f32) (u : N) : option f32 * N :=
  if f32_eq rate f32_one then (Some rate, 0)
  else (if f32_le (draw32 u) rate then Some rate else None, 1).

(* ================================================================ weight (emf.rs) *)
Definition rate_to_n_alpha (rate : f32) : N * f64 :=
  let r := f32_as_f64 rate in
  let inv_rate := f64_div f64_one r in
  let inv_rate_int := f64_as_u64 inv_rate in
  (inv_rate_int, f64_sub (u64_as_f64 (inv_rate_int + 1)) inv_rate).

(* 1.0 / (i64::MAX as f32) *)
Definition i64_max : N := 9223372036854775807.
Definition saturation_threshold : f32 := f32_div f32_one (u32_as_f32 i64_max).

Definition rate_to_n (rate : f32) (u : N) : N :=
  if f32_lt rate saturation_threshold then u64_max
  else
    let na := rate_to_n_alpha rate in
    if f64_lt (draw64 u) (snd na) then fst na else N.min u64_max (fst na + 1).   (* n.saturating_add(1) *)

(* SampledEmf::format_with_sample_rate: Err(Validation) for rate <= 0 or NaN, else Some multiplicity *)
Definition sampled_emf_multiplicity (rate : f32) (u : N) : option N :=
  if f32_le rate f32_zero || Binary.is_nan 24 128 rate then None else Some (rate_to_n rate u).

(* the Counts entry of one observation under a multiplicity (write_observation) *)
Inductive obs_kind := KUnsigned | KFloating | KRepeated (occurrences : N).
Definition count_of (multiplicity : N) (o : obs_kind) : N :=
  match o with
  | KUnsigned | KFloating => multiplicity
  | KRepeated occ => N.min u64_max (occ * multiplicity)                       (* saturating_mul *)
  end.

(* FixedFractionSample<SampledEmf<R2>, R1>::format on an entry whose metrics carry the given observations:
   None = nothing written; Some css = the Counts arrays, one per metric *)
Definition fixed_emf_pipeline (rate : f32) (u32draw u64draw : N) (metrics : list (list obs_kind)) : option (list (list N)) :=
  match fixed_format rate u32draw with
  | None => None
  | Some r =>
      match sampled_emf_multiplicity r u64draw with
      | None => None
      | Some m => Some (map (map (count_of m)) metrics)
      end
  end.

(* ================================================================ congressional sampler, over Q *)
Local Open Scope Q_scope.

Definition group := list (N * N).          (* (element name id, element value id), sorted before lookup *)

Definition pair_leb (a b : N * N) : bool :=
  (N.ltb (fst a) (fst b) || (N.eqb (fst a) (fst b) && N.leb (snd a) (snd b)))%bool.
Fixpoint insert_sorted (x : N * N) (l : group) : group :=
  match l with
  | [] => [x]
  | y :: r => if pair_leb x y then x :: l else y :: insert_sorted x r
  end.
Definition sort_group (g : group) : group := fold_right insert_sorted [] g.
Fixpoint group_eqb (a b : group) : bool :=
  match a, b with
  | [], [] => true
  | x :: a', y :: b' => (N.eqb (fst x) (fst y) && N.eqb (snd x) (snd y) && group_eqb a' b')%bool
  | _, _ => false
  end.

(* GroupState + ExpMovingAverage *)
Record gstate := mk_g {
  g_cur : N;            (* current_observed *)
  g_noobs : N;          (* consecutive_no_observations *)
  g_samples : N;        (* average_observed.samples *)
  g_avg : Q;            (* average_observed.value *)
  g_rate : Q;           (* sample_rate *)
  g_size : Q            (* size_in_congress *)
}.
Definition g_new : gstate := mk_g 0 0 0 0 1 0.        (* GroupState { sample_rate: 1.0, ..Default::default() } *)

Definition ema_window : N := 16.
Definition no_observations_ttl : N := 8.               (* EXP_MOVING_AVERAGE_WINDOW / 2 *)
Definition q_of_N (n : N) : Q := inject_Z (Z.of_N n).

(* ExpMovingAverage::add_sample *)
Definition ema_add (samples : N) (value : Q) (sample : Q) : N * Q :=
  let s := N.min ema_window (samples + 1) in
  let decay := 1 / q_of_N s in
  (s, Qred (decay * sample + (1 - decay) * value)).

(* GroupState::update_and_retain: (retain?, new state) *)
Definition update_and_retain (g : gstate) : bool * gstate :=
  if N.ltb 0 (g_cur g) then
    let sv := ema_add (g_samples g) (g_avg g) (q_of_N (g_cur g)) in
    (true, mk_g 0 0 (fst sv) (snd sv) (g_rate g) (g_size g))
  else if N.leb no_observations_ttl (g_noobs g) then (false, mk_g 0 (g_noobs g) (g_samples g) (g_avg g) (g_rate g) (g_size g))
  else (true, mk_g 0 (g_noobs g + 1) (g_samples g) (g_avg g) (g_rate g) (g_size g)).

Record congress := mk_c {
  c_target : N;                        (* target_observed *)
  c_cur : N;                           (* current_observed *)
  c_groups : list (group * gstate)
}.
Definition c_init (target : N) : congress := mk_c target 0 [].

Fixpoint bump (k : group) (l : list (group * gstate)) : list (group * gstate) * Q :=
  match l with
  | [] => ([(k, mk_g 1 0 0 0 1 0)], 1)          (* or_insert_with(sample_rate 1.0); record_observation *)
  | (k', g) :: r =>
      if group_eqb k k' then ((k', mk_g (g_cur g + 1) (g_noobs g) (g_samples g) (g_avg g) (g_rate g) (g_size g)) :: r, g_rate g)
      else let br := bump k r in ((k', g) :: fst br, snd br)
  end.

(* CongressSample::sample_rate without the clock: count, find-or-insert, record, return the group's rate *)
Definition observe (c : congress) (g : group) : congress * Q :=
  let br := bump (sort_group g) (c_groups c) in
  (mk_c (c_target c) (c_cur c + 1) (fst br), snd br).

Definition qmin (a b : Q) : Q := if Qle_bool a b then a else b.
Definition qsum (l : list Q) : Q := fold_right Qplus 0 l.

Definition retain_groups (l : list (group * gstate)) : list (group * gstate) :=
  flat_map (fun kg => let r := update_and_retain (snd kg) in if fst r then [(fst kg, snd r)] else []) l.

(* size_in_congress of one group *)
Definition size_in_congress (flat_rate senate : Q) (average : Q) : Q :=
  let house := flat_rate * average in
  if negb (Qle_bool senate house) (* house < senate *) then qmin average senate else house.

(* CongressSample::update_rates *)
Definition update_rates (c : congress) : congress :=
  let groups := retain_groups (c_groups c) in
  let current := q_of_N (c_cur c) in
  let target := q_of_N (c_target c) in
  if N.leb (c_cur c) (c_target c) then
    (* rates all 1.0; the sizes are still recomputed by the code but never read again before being overwritten;
       with current = 0 or no groups they are infinities/NaN in f32 and are not modelled *)
    mk_c (c_target c) 0 (map (fun kg => (fst kg, let g := snd kg in mk_g (g_cur g) (g_noobs g) (g_samples g) (g_avg g) 1 (g_size g))) groups)
  else
    let flat_rate := target / current in
    let senate := target / q_of_N (N.of_nat (length groups)) in
    let sized := map (fun kg => (fst kg, let g := snd kg in
                   mk_g (g_cur g) (g_noobs g) (g_samples g) (g_avg g) (g_rate g) (Qred (size_in_congress flat_rate senate (g_avg g))))) groups in
    let congress_size := qsum (map (fun kg => g_size (snd kg)) sized) in
    let scale_factor := target / congress_size in
    mk_c (c_target c) 0
      (map (fun kg => (fst kg, let g := snd kg in
         mk_g (g_cur g) (g_noobs g) (g_samples g) (g_avg g)
              (if Qle_bool (g_avg g) 0 then 1 else Qred (qmin (g_size g * scale_factor / g_avg g) 1)) (g_size g))) sized).

Inductive cop := Observe (g : group) | EndInterval.
Definition cstep (c : congress) (o : cop) : congress :=
  match o with
  | Observe g => fst (observe c g)
  | EndInterval => update_rates c
  end.
Definition crun (target : N) (ops : list cop) : congress := fold_left cstep ops (c_init target).

Definition lookup_group (c : congress) (g : group) : option gstate :=
  match find (fun kg => group_eqb (fst kg) (sort_group g)) (c_groups c) with Some kg => Some (snd kg) | None => None end.
