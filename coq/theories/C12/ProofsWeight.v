(* C12 — the exact-rational abstraction of the weight: floor/ceiling and the exact mean (counting argument). *)
From Coq Require Import List ZArith NArith QArith Bool Lia Morphisms.
From MV Require Import C12.Model C12.Spec.
Import ListNotations.
Local Open Scope N_scope.

Lemma sum_below_succ : forall f n, sum_below f (N.succ n) = sum_below f n + f n.
Proof.
  intros f n. unfold sum_below. rewrite N.recursion_succ; [reflexivity|reflexivity|].
  intros x y Hxy a b Hab. subst. reflexivity.
Qed.

Lemma sum_below_ext : forall f g, (forall k, f k = g k) -> forall n, sum_below f n = sum_below g n.
Proof.
  intros f g E n. induction n as [|n IH] using N.peano_ind; [reflexivity|].
  rewrite !sum_below_succ, IH, E. reflexivity.
Qed.

(* counting: a function that is [a] below a threshold and [b] from it on *)
Lemma sum_below_threshold : forall A a b n,
  sum_below (fun k => if k <? A then a else b) n = N.min A n * a + (n - N.min A n) * b.
Proof.
  intros A a b n. induction n as [|n IH] using N.peano_ind.
  - unfold sum_below. rewrite N.recursion_0. rewrite N.min_0_r. lia.
  - rewrite sum_below_succ, IH. destruct (n <? A) eqn:E.
    + apply N.ltb_lt in E. rewrite (N.min_r A n) by lia. rewrite (N.min_r A (N.succ n)) by lia. lia.
    + apply N.ltb_ge in E. rewrite (N.min_l A n) by lia. rewrite (N.min_l A (N.succ n)) by lia. nia.
Qed.

Lemma two52_pos : 0 < two52.
Proof. reflexivity. Qed.
Lemma two53_double : two53 = 2 * two52.
Proof. reflexivity. Qed.
Lemma two52_val : two52 = 2 ^ 52.
Proof. reflexivity. Qed.
Lemma two53_val : two53 = 2 ^ 53.
Proof. reflexivity. Qed.
Ltac abstract_two52 :=
  rewrite ?two53_double in *; pose proof two52_pos; generalize dependent two52; intros.

Lemma floor_bounds : forall I, w_floor I * two52 <= I /\ I < (w_floor I + 1) * two52.
Proof.
  intros I. unfold w_floor.
  assert (Z : two52 <> 0) by discriminate.
  generalize dependent two52. intros t Z.
  pose proof (N.div_mod I t Z) as D.
  pose proof (N.mod_lt I t Z) as M.
  remember (I / t) as q. remember (I mod t) as r. clear Heqq Heqr.
  split; nia.
Qed.
Global Opaque two52 two53.

Lemma threshold_le : forall I, w_threshold I <= two53.
Proof.
  intros I. unfold w_threshold. pose proof (floor_bounds I) as [L U].
  remember (w_floor I) as n. clear Heqn. abstract_two52. nia.
Qed.

(* the 2^53 equally likely draws: how many yield the floor, how many the floor + 1 *)
Theorem weight_counts : forall I,
  sum_below (fun k => if weight_exact I k =? w_floor I then 1 else 0) two53 = w_threshold I.
Proof.
  intros I.
  assert (E : forall k, (if weight_exact I k =? w_floor I then 1 else 0) = (if k <? w_threshold I then 1 else 0)).
  { intros k. unfold weight_exact. destruct (k <? w_threshold I).
    - rewrite N.eqb_refl. reflexivity.
    - destruct (w_floor I + 1 =? w_floor I) eqn:E; [apply N.eqb_eq in E; lia|reflexivity]. }
  transitivity (sum_below (fun k => if k <? w_threshold I then 1 else 0) two53).
  - unfold sum_below. generalize two53. intros n. induction n as [|n IH] using N.peano_ind.
    + rewrite !N.recursion_0. reflexivity.
    + fold (sum_below (fun k => if weight_exact I k =? w_floor I then 1 else 0) (N.succ n)).
      fold (sum_below (fun k => if k <? w_threshold I then 1 else 0) (N.succ n)).
      rewrite !sum_below_succ. unfold sum_below at 1 2. rewrite IH, E. reflexivity.
  - rewrite sum_below_threshold. pose proof (threshold_le I). rewrite N.min_l by assumption. lia.
Qed.

(* exact mean: the sum of the weight over all 2^53 draws is 2^53 * inv  (inv = I / 2^52) *)
Theorem weight_mean_exact : forall I, sum_below (weight_exact I) two53 = 2 * I.
Proof.
  intros I. unfold weight_exact. rewrite sum_below_threshold.
  pose proof (threshold_le I) as T. rewrite N.min_l by assumption.
  unfold w_threshold in *. pose proof (floor_bounds I) as [L U].
  remember (w_floor I) as n. clear Heqn. abstract_two52. nia.
Qed.

(* floor or ceiling: at least the floor, and above the floor only when inv is not an integer (so floor + 1 is the
   ceiling) *)
Theorem weight_floor_or_ceiling : forall I k, k < two53 ->
  (weight_exact I k = w_floor I /\ w_floor I * two52 <= I < (w_floor I + 1) * two52) \/
  (weight_exact I k = w_floor I + 1 /\ w_floor I * two52 < I < (w_floor I + 1) * two52).
Proof.
  intros I k Hk. pose proof (floor_bounds I) as [L U]. unfold weight_exact.
  destruct (k <? w_threshold I) eqn:E.
  - left. split; [reflexivity|lia].
  - right. split; [reflexivity|]. apply N.ltb_ge in E. unfold w_threshold in E.
    remember (w_floor I) as n. clear Heqn. abstract_two52. nia.
Qed.

(* an integer inverse rate is always reproduced exactly *)
Corollary weight_integer_inverse : forall n k, k < two53 -> weight_exact (n * two52) k = n.
Proof.
  intros n k Hk. destruct (weight_floor_or_ceiling (n * two52) k Hk) as [[E _]|[_ [L _]]].
  - rewrite E. unfold w_floor. apply N.div_mul. discriminate.
  - unfold w_floor in L. rewrite N.div_mul in L by discriminate. lia.
Qed.

(* ---------------------------------------------------------------- how many of the 2^24 draws emit *)
(* With the code's `draw <= rate` the number of emitting draws is floor(rate * 2^24) + 1 (capped at 2^24): the
   emission probability is (floor(rate * 2^24) + 1) / 2^24, which exceeds the rate by at most 2^-24 - negligible for
   rates well above 2^-24, but for rates at or below 2^-24 at least one draw in 2^24 (k = 0) always emits. *)
Theorem emitting_draws : forall num den, 0 < den ->
  sum_below (fun k => if emits_k num den k then 1 else 0) (2 ^ 24) = N.min (2 ^ 24) (num * 2 ^ 24 / den + 1).
Proof.
  intros num den Hd.
  assert (E : forall k, (if emits_k num den k then 1 else 0) = (if k <? num * 2 ^ 24 / den + 1 then 1 else 0)).
  { intros k. unfold emits_k. set (M := num * 2 ^ 24).
    pose proof (N.div_mod M den ltac:(lia)) as DM. pose proof (N.mod_lt M den ltac:(lia)) as ML.
    remember (M / den) as q. remember (M mod den) as r. clear Heqq Heqr.
    destruct (k * den <=? M) eqn:A; destruct (k <? q + 1) eqn:B; try reflexivity; exfalso.
    - apply N.leb_le in A. apply N.ltb_ge in B. nia.
    - apply N.leb_gt in A. apply N.ltb_lt in B. nia. }
  rewrite (sum_below_ext _ _ E). rewrite sum_below_threshold. lia.
Qed.

(* [emits_k] is the specification's decision for a rate num/den, on the 24-bit part of the generator's u32 *)
Lemma spec_emit_is_emits_k : forall (num : N) (den : positive) (u : N),
  spec_emit (Qmake (Z.of_N num) den) u = emits_k num (Npos den) (N.shiftr (u mod 2 ^ 32) 8).
Proof.
  intros num den u. unfold spec_emit, emits_k, draw32_q, QArith_base.Qle_bool. cbn [QArith_base.Qnum QArith_base.Qden].
  set (k := N.shiftr (u mod 2 ^ 32) 8).
  destruct (k * N.pos den <=? num * 2 ^ 24) eqn:E.
  - apply N.leb_le in E. apply Z.leb_le. apply N2Z.inj_le in E. rewrite !N2Z.inj_mul in E. exact E.
  - apply N.leb_gt in E. apply Z.leb_gt. apply N2Z.inj_lt in E. rewrite !N2Z.inj_mul in E. exact E.
Qed.
