(* C12 — specification: what the user is promised, in exact arithmetic.
   - decision: an entry is emitted iff its draw (a multiple of 2^-24 in [0,1)) is at most the rate, and that same
     rate is handed on;
   - weight: with inv = 1/rate (as the binary64 the code computes, a dyadic rational), the weight is floor(inv) or
     ceil(inv), chosen by a threshold on the 2^53 equally likely draws so that the mean is exactly inv;
   - congressional rates: in (0,1], all 1 below target, otherwise within budget and monotone. *)
From Coq Require Import List ZArith NArith QArith Qabs Qround Bool.
From MV Require Import SFloat.Defs C12.Model.
Import ListNotations.

(* ================================================================ decision *)
Local Open Scope Q_scope.
(* the draw a u32 from the generator denotes *)
Definition draw32_q (u : N) : Q := Qmake (Z.of_N (N.shiftr (u mod 2 ^ 32) 8)) (2 ^ 24).
Definition draw64_q (u : N) : Q := Qmake (Z.of_N (N.shiftr (u mod 2 ^ 64) 11)) (2 ^ 53).

Definition spec_emit (rate : Q) (u : N) : bool := Qle_bool (draw32_q u) rate.

(* ================================================================ weight, exact *)
Local Open Scope N_scope.
(* inv = I / 2^52 with 2^52 <= I (inv >= 1): every binary64 >= 1 is of this form.
   k ranges over the 2^53 equally likely values of (next_u64() >> 11). *)
Definition two52 : N := 2 ^ 52.
Definition two53 : N := 2 ^ 53.
Definition w_floor (I : N) : N := I / two52.
(* alpha * 2^53, an integer because inv has at most 52 fractional bits *)
Definition w_threshold (I : N) : N := 2 * ((w_floor I + 1) * two52 - I).
Definition weight_exact (I k : N) : N := if k <? w_threshold I then w_floor I else w_floor I + 1.

(* sum of f over 0 .. n-1 *)
Definition sum_below (f : N -> N) (n : N) : N := N.recursion 0 (fun i acc => acc + f i) n.

(* floor and ceiling of a non-negative rational *)
Local Open Scope Q_scope.
Definition q_floor (q : Q) : Z := Qfloor q.
Definition q_ceil (q : Q) : Z := Qceiling q.

(* the property's clause on a weight n for a rate (exact rational rate, 0 < rate <= 1):
   - rate < 2^-63: the largest 64-bit value;
   - 1/rate < 2^53: floor or ceiling of 1/rate;
   - otherwise within 1 of 1/rate, up to the binary64 rounding of 1/rate (relative 2^-53) *)
Definition u64_max_z : Z := 18446744073709551615%Z.
Definition weight_ok (rate : Q) (n : N) : bool :=
  let inv := Qinv rate in
  if negb (Qle_bool (Qmake 1 (2 ^ 63)) rate) then Z.eqb (Z.of_N n) u64_max_z
  else if negb (Qle_bool (inject_Z (2 ^ 53)) inv) then
    Z.eqb (Z.of_N n) (q_floor inv) || Z.eqb (Z.of_N n) (q_ceil inv)
  else Qle_bool (Qabs (inject_Z (Z.of_N n) - inv)) (1 + inv * Qmake 1 (2 ^ 53)).

(* unbiasedness in terms of the (n, alpha) split: alpha in [0,1] and n*alpha + (n+1)*(1-alpha) = 1/rate up to the
   binary64 rounding of 1/rate *)
Definition split_ok (rate : Q) (n : N) (alpha : Q) : bool :=
  let inv := Qinv rate in
  Qle_bool 0 alpha && Qle_bool alpha 1
  && Qle_bool (Qabs (inject_Z (Z.of_N n) + 1 - alpha - inv)) (inv * Qmake 1 (2 ^ 53)).

(* ================================================================ congressional rates *)
Definition groups_of (c : congress) : list gstate := map snd (c_groups c).

Definition rates_in_range (c : congress) : bool :=
  forallb (fun g => negb (Qle_bool (g_rate g) 0) && Qle_bool (g_rate g) 1) (groups_of c).
Definition all_rates_one (c : congress) : bool := forallb (fun g => Qeq_bool (g_rate g) 1) (groups_of c).
Definition averages_positive (c : congress) : bool := forallb (fun g => negb (Qle_bool (g_avg g) 0)) (groups_of c).
(* sum(average volume x rate) <= target *)
Definition budget (c : congress) : Q := qsum (map (fun g => g_avg g * g_rate g) (groups_of c)).
Definition within_budget (c : congress) : bool := Qle_bool (budget c) (q_of_N (c_target c)).
(* a rarer group is never sampled at a lower rate than a more frequent one *)
Definition monotone (c : congress) : bool :=
  forallb (fun g => forallb (fun h => implb (Qle_bool (g_avg g) (g_avg h)) (Qle_bool (g_rate h) (g_rate g))) (groups_of c)) (groups_of c).

(* what holds right after an end of interval that closed with [seen] observations *)
Definition after_interval_ok (seen : N) (c : congress) : bool :=
  rates_in_range c && averages_positive c &&
  (if N.leb seen (c_target c) then all_rates_one c else within_budget c && monotone c).

(* ================================================================ how many draws emit *)
(* for a rate num/den: the 24-bit draw k/2^24 is at most the rate *)
Definition emits_k (num den k : N) : bool := (k * den <=? num * 2 ^ 24)%N.
