(* C12 — the bit-exact (Flocq) mechanism refines the exact specifications:
   draws are the multiples of 2^-24 / 2^-53 the specification speaks about, the decision is `draw <= rate`
   over the reals, the saturation threshold is 2^-63. *)
From Coq Require Import List ZArith NArith Reals QArith Qreals Lra Lia Bool.
From Flocq Require Import Core.Core IEEE754.BinarySingleNaN IEEE754.Binary IEEE754.Bits.
From MV Require Import SFloat.Defs SFloat.Facts C12.Model C12.Spec.
Local Open Scope R_scope.

(* B2R through the proof-free representation, for constants *)
Lemma R32_via_FF : forall x : f32, R32 x = Binary.FF2R radix2 (Binary.B2FF 24 128 x).
Proof. intros x. symmetry. apply Binary.FF2R_B2FF. Qed.
Lemma R64_via_FF : forall x : f64, R64 x = Binary.FF2R radix2 (Binary.B2FF 53 1024 x).
Proof. intros x. symmetry. apply Binary.FF2R_B2FF. Qed.

Lemma scale24_value : R32 scale24 = bpow radix2 (-24) /\ Binary.is_finite 24 128 scale24 = true.
Proof.
  split.
  - rewrite R32_via_FF.
    replace (Binary.B2FF 24 128 scale24) with (Binary.F754_finite false 8388608 (-47)) by (vm_compute; reflexivity).
    unfold Binary.FF2R, F2R. cbn [Fnum Fexp cond_Zopp].
    change (IZR (Zpos 8388608)) with (bpow radix2 23). rewrite <- bpow_plus. reflexivity.
  - vm_compute. reflexivity.
Qed.
Lemma scale53_value : R64 scale53 = bpow radix2 (-53) /\ Binary.is_finite 53 1024 scale53 = true.
Proof.
  split.
  - rewrite R64_via_FF.
    replace (Binary.B2FF 53 1024 scale53) with (Binary.F754_finite false 4503599627370496 (-105)) by (vm_compute; reflexivity).
    unfold Binary.FF2R, F2R. cbn [Fnum Fexp cond_Zopp].
    change (IZR (Zpos 4503599627370496)) with (bpow radix2 52). rewrite <- bpow_plus. reflexivity.
  - vm_compute. reflexivity.
Qed.

Definition draw32_k (u : N) : N := N.shiftr (u mod 2 ^ 32) 8.
Definition draw64_k (u : N) : N := N.shiftr (u mod 2 ^ 64) 11.
Lemma draw32_k_lt : forall u, (draw32_k u < 2 ^ 24)%N.
Proof.
  intros u. unfold draw32_k. rewrite N.shiftr_div_pow2.
  apply N.div_lt_upper_bound; [discriminate|]. change (2 ^ 8 * 2 ^ 24)%N with (2 ^ 32)%N. apply N.mod_lt. discriminate.
Qed.
Lemma draw64_k_lt : forall u, (draw64_k u < 2 ^ 53)%N.
Proof.
  intros u. unfold draw64_k. rewrite N.shiftr_div_pow2.
  apply N.div_lt_upper_bound; [discriminate|]. change (2 ^ 11 * 2 ^ 53)%N with (2 ^ 64)%N. apply N.mod_lt. discriminate.
Qed.

(* the f32 draw is exactly k * 2^-24 *)
Lemma draw32_value : forall u, R32 (draw32 u) = IZR (Z.of_N (draw32_k u)) * bpow radix2 (-24) /\
  Binary.is_finite 24 128 (draw32 u) = true.
Proof.
  intros u. unfold draw32. fold (draw32_k u). pose proof (draw32_k_lt u) as K.
  destruct (u32_as_f32_exact (draw32_k u) ltac:(lia)) as [V F]. destruct scale24_value as [SV SF].
  pose proof (Binary.Bmult_correct 24 128 (eq_refl _) (eq_refl _) binop_nan_pl32 mode_NE scale24 (u32_as_f32 (draw32_k u))) as C.
  cbn [round_mode] in C. change (SpecFloat.fexp 24 128) with fmt32 in C. rewrite SV, V, SF, F in C.
  assert (G : generic_format radix2 fmt32 (bpow radix2 (-24) * IZR (Z.of_N (draw32_k u)))).
  { replace (bpow radix2 (-24) * IZR (Z.of_N (draw32_k u))) with (F2R (Float radix2 (Z.of_N (draw32_k u)) (-24)))
      by (unfold F2R; cbn [Fnum Fexp]; ring).
    apply (format_m_e 24 128 (eq_refl _)); [|cbn; lia]. rewrite Z.abs_eq by lia. lia. }
  rewrite (round_generic radix2 fmt32 ZnearestE _ G) in C.
  assert (B : Rabs (bpow radix2 (-24) * IZR (Z.of_N (draw32_k u))) < bpow radix2 128).
  { rewrite Rabs_pos_eq.
    - apply Rlt_trans with (bpow radix2 (-24) * bpow radix2 24).
      + apply Rmult_lt_compat_l; [apply bpow_gt_0|]. change (bpow radix2 24) with (IZR (2 ^ 24)). apply IZR_lt. lia.
      + rewrite <- bpow_plus. apply bpow_lt. lia.
    - apply Rmult_le_pos; [apply bpow_ge_0 | apply IZR_le; lia]. }
  rewrite (Rlt_bool_true _ _ B) in C. destruct C as (C1 & C2 & _). unfold f32_mul, b32_mult.
  split; [rewrite C1; ring | exact C2].
Qed.

(* the decision over the reals *)
Theorem fixed_format_real : forall rate u, Binary.is_finite 24 128 rate = true ->
  (IZR (Z.of_N (draw32_k u)) * bpow radix2 (-24) <= R32 rate -> fixed_format rate u = Some rate) /\
  (R32 rate < IZR (Z.of_N (draw32_k u)) * bpow radix2 (-24) -> fixed_format rate u = None).
Proof.
  intros rate u F. destruct (draw32_value u) as [V DF]. unfold fixed_format.
  pose proof (f32_le_correct (draw32 u) rate DF F) as L. rewrite V in L. destruct L as [L1 L2]. split; intros H.
  - rewrite (L2 H). reflexivity.
  - destruct (f32_le (draw32 u) rate) eqn:E; [|reflexivity]. specialize (L1 eq_refl). lra.
Qed.

Lemma draw32_q_value : forall u, Q2R (draw32_q u) = IZR (Z.of_N (draw32_k u)) * bpow radix2 (-24).
Proof.
  intros u. unfold draw32_q, Q2R. cbn [Qnum Qden]. fold (draw32_k u).
  change (bpow radix2 (-24)) with (/ IZR (Z.pow_pos 2 24)). reflexivity.
Qed.

(* ... and against the specification: emitted iff spec_emit, and the rate handed on is the rate compared against *)
Theorem fixed_format_spec : forall rate u q, f32_to_Q rate = Some q ->
  fixed_format rate u = if spec_emit q u then Some rate else None.
Proof.
  intros rate u q HQ. destruct (f32_to_Q_correct rate q HQ) as [V F].
  destruct (fixed_format_real rate u F) as [A B]. unfold spec_emit.
  destruct (Qle_bool (draw32_q u) q) eqn:E.
  - apply Qle_bool_iff in E. apply Qle_Rle in E. rewrite draw32_q_value, V in E. apply A. exact E.
  - apply B. rewrite <- V, <- draw32_q_value. apply Rnot_le_lt. intros H. apply Rle_Qle in H.
    apply Qle_bool_iff in H. congruence.
Qed.

(* the congressional sampler's decision: a rate of exactly 1 emits without consuming a draw, any other rate
   decides like the fixed-fraction sampler and consumes one draw *)
Theorem congress_decide_spec : forall rate u q, f32_to_Q rate = Some q ->
  congress_decide rate u =
    if Qeq_bool q 1 then (Some rate, 0%N) else (if spec_emit q u then Some rate else None, 1%N).
Proof.
  intros rate u q HQ. destruct (f32_to_Q_correct rate q HQ) as [V F]. unfold congress_decide.
  assert (O : R32 f32_one = 1 /\ Binary.is_finite 24 128 f32_one = true).
  { unfold f32_one. destruct (u32_as_f32_exact 1 ltac:(lia)) as [A B]. split; [rewrite A; reflexivity | exact B]. }
  destruct O as [O1 O2]. pose proof (f32_eq_correct rate f32_one F O2) as EQ. rewrite O1, <- V in EQ.
  destruct EQ as [EQ1 EQ2].
  destruct (Qeq_bool q 1) eqn:E.
  - apply Qeq_bool_iff in E. apply Qeq_eqR in E. replace (Q2R 1) with 1 in E by (unfold Q2R; cbn; field).
    rewrite (EQ2 E). reflexivity.
  - destruct (f32_eq rate f32_one) eqn:E2.
    + specialize (EQ1 eq_refl). rename EQ1 into E3. exfalso. assert (H : (q == 1)%Q).
      { apply eqR_Qeq. rewrite E3. unfold Q2R. cbn. field. }
      apply Qeq_bool_iff in H. congruence.
    + fold (fixed_format rate u). rewrite (fixed_format_spec rate u q HQ). reflexivity.
Qed.

(* every rate the constructor accepts is a finite rational in (0,1] *)
Theorem fixed_rate_ok_spec : forall rate, fixed_rate_ok rate = true ->
  exists q, f32_to_Q rate = Some q /\ (0 < q)%Q /\ (q <= 1)%Q.
Proof.
  intros rate H. unfold fixed_rate_ok in H. apply andb_prop in H. destruct H as [H H3]. apply andb_prop in H. destruct H as [F H2].
  destruct (f32_to_Q_finite rate F) as [q HQ]. exists q. split; [exact HQ|].
  destruct (f32_to_Q_correct rate q HQ) as [V _].
  assert (O : R32 f32_one = 1 /\ Binary.is_finite 24 128 f32_one = true).
  { unfold f32_one. destruct (u32_as_f32_exact 1 ltac:(lia)) as [A B]. split; [rewrite A; reflexivity | exact B]. }
  destruct O as [O1 O2].
  apply (f32_lt_correct f32_zero rate (eq_refl _) F) in H2. apply (f32_le_correct rate f32_one F O2) in H3.
  rewrite O1 in H3. change (R32 f32_zero) with 0 in H2. rewrite <- V in H2, H3. split.
  - apply Rlt_Qlt. replace (Q2R 0) with 0 by (unfold Q2R; cbn; field). exact H2.
  - apply Rle_Qle. replace (Q2R 1) with 1 by (unfold Q2R; cbn; field). exact H3.
Qed.

(* the whole pipeline FixedFractionSample<SampledEmf>: when something is written, the entry passed the fixed-fraction
   decision, and one and the same integer - the weight drawn for the handed-on rate - multiplies every count *)
Theorem pipeline_one_multiplicity : forall rate u1 u2 metrics css,
  fixed_emf_pipeline rate u1 u2 metrics = Some css ->
  fixed_format rate u1 = Some rate /\
  css = map (map (count_of (rate_to_n rate u2))) metrics.
Proof.
  intros rate u1 u2 metrics css H. unfold fixed_emf_pipeline in H.
  assert (R : forall r, fixed_format rate u1 = Some r -> r = rate).
  { intros r E. unfold fixed_format in E. destruct (f32_le (draw32 u1) rate); congruence. }
  destruct (fixed_format rate u1) as [r|] eqn:E; [|discriminate].
  pose proof (R r eq_refl) as Er. subst r. split; [reflexivity|].
  unfold sampled_emf_multiplicity in H. destruct (f32_le rate f32_zero || Binary.is_nan 24 128 rate)%bool; [discriminate|].
  inversion H. reflexivity.
Qed.
