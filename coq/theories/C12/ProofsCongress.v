(* C12 — the congressional sampler over exact rationals: for every history of observations and interval ends,
   the rates lie in (0,1], are all 1 after an interval at or below target, and otherwise stay within the budget
   and are monotone (a rarer group is never sampled at a lower rate). *)
From Coq Require Import List ZArith NArith QArith Qabs Bool Lia Lqa Setoid Morphisms.
From MV Require Import SFloat.Defs C12.Model C12.Spec.
Import ListNotations.
Local Open Scope Q_scope.

(* ---------------------------------------------------------------- small facts about Q *)
Lemma Qle_bool_false : forall a b, Qle_bool a b = false -> b < a.
Proof. intros a b E. apply Qnot_le_lt. intros H. apply Qle_bool_iff in H. congruence. Qed.

Lemma qmin_spec : forall a b, (a <= b -> qmin a b == a) /\ (b <= a -> qmin a b == b) /\ qmin a b <= a /\ qmin a b <= b.
Proof.
  intros a b. unfold qmin. destruct (Qle_bool a b) eqn:E.
  - apply Qle_bool_iff in E. repeat split; intros; try reflexivity; try lra.
  - apply Qle_bool_false in E. repeat split; intros; try reflexivity; try lra.
Qed.
Lemma qmin_pos : forall a b, 0 < a -> 0 < b -> 0 < qmin a b.
Proof. intros a b Ha Hb. unfold qmin. destruct (Qle_bool a b); assumption. Qed.
Lemma qmin_mono_l : forall a a' b, a <= a' -> qmin a b <= qmin a' b.
Proof.
  intros a a' b H. destruct (qmin_spec a b) as (A1 & A2 & A3 & A4). destruct (qmin_spec a' b) as (B1 & B2 & B3 & B4).
  destruct (Qlt_le_dec a' b) as [L|L].
  - rewrite (B1 ltac:(lra)). lra.
  - rewrite (B2 L). lra.
Qed.

Lemma q_of_N_pos : forall n, (0 < n)%N -> 1 <= q_of_N n.
Proof.
  intros n H. unfold q_of_N. change 1 with (inject_Z 1). rewrite <- Zle_Qle. lia.
Qed.
Lemma q_of_N_le : forall a b, (a <= b)%N -> q_of_N a <= q_of_N b.
Proof. intros a b H. unfold q_of_N. rewrite <- Zle_Qle. lia. Qed.
Lemma q_of_N_lt : forall a b, (a < b)%N -> q_of_N a < q_of_N b.
Proof. intros a b H. unfold q_of_N. rewrite <- Zlt_Qlt. lia. Qed.

(* ---------------------------------------------------------------- sums *)
Lemma qsum_cons : forall x l, qsum (x :: l) = x + qsum l.
Proof. reflexivity. Qed.
Lemma qsum_nil : qsum [] = 0.
Proof. reflexivity. Qed.
Lemma qsum_le : forall (X : Type) (f h : X -> Q) l, (forall x, In x l -> f x <= h x) -> qsum (map f l) <= qsum (map h l).
Proof.
  intros X f h l. induction l as [|x l IH]; intros H; cbn [map]; rewrite ?qsum_cons, ?qsum_nil.
  - lra.
  - specialize (H x (or_introl eq_refl)) as Hx. specialize (IH (fun y Hy => H y (or_intror Hy))). lra.
Qed.
Lemma qsum_scale : forall (X : Type) (f : X -> Q) s l, qsum (map (fun x => f x * s) l) == qsum (map f l) * s.
Proof.
  intros X f s l. induction l as [|x l IH]; cbn [map]; rewrite ?qsum_cons, ?qsum_nil.
  - ring.
  - rewrite IH. ring.
Qed.
Lemma qsum_pos : forall (X : Type) (f : X -> Q) l, l <> [] -> (forall x, In x l -> 0 < f x) -> 0 < qsum (map f l).
Proof.
  intros X f l. induction l as [|x l IH]; intros NE H; [congruence|]. cbn [map]. rewrite qsum_cons.
  specialize (H x (or_introl eq_refl)) as Hx.
  destruct l as [|y l'].
  - cbn [map]. rewrite qsum_nil. lra.
  - assert (0 < qsum (map f (y :: l'))) by (apply IH; [discriminate | intros z Hz; apply H; right; exact Hz]). lra.
Qed.

(* ---------------------------------------------------------------- the size / average ratio is antitone *)
Lemma size_pos : forall flat senate a, 0 < flat -> 0 < senate -> 0 < a -> 0 < size_in_congress flat senate a.
Proof.
  intros flat senate a Hf Hs Ha. unfold size_in_congress.
  destruct (Qle_bool senate (flat * a)); cbn [negb].
  - apply Qmult_lt_0_compat; assumption.
  - apply qmin_pos; assumption.
Qed.

Lemma size_cross : forall flat senate a b, 0 < flat -> flat <= 1 -> 0 < senate -> 0 < a -> a <= b ->
  size_in_congress flat senate b * a <= size_in_congress flat senate a * b.
Proof.
  intros flat senate a b Hf Hf1 Hs Ha Hab. unfold size_in_congress.
  assert (Mab : flat * a <= flat * b) by (apply Qmult_le_l; assumption).
  destruct (Qle_bool senate (flat * a)) eqn:Ea; destruct (Qle_bool senate (flat * b)) eqn:Eb; cbn [negb].
  - lra.
  - apply Qle_bool_iff in Ea. apply Qle_bool_false in Eb. exfalso. lra.
  - apply Qle_bool_iff in Eb. apply Qle_bool_false in Ea.
    destruct (qmin_spec a senate) as (M1 & M2 & M3 & M4).
    destruct (Qlt_le_dec a senate) as [L|L].
    + rewrite (M1 ltac:(lra)).
      assert (0 <= (1 - flat) * (a * b)) by (apply Qmult_le_0_compat; [lra | apply Qmult_le_0_compat; lra]). lra.
    + rewrite (M2 L).
      assert (0 <= (senate - flat * a) * b) by (apply Qmult_le_0_compat; lra). lra.
  - apply Qle_bool_false in Ea. apply Qle_bool_false in Eb.
    destruct (qmin_spec a senate) as (A1 & A2 & A3 & A4).
    destruct (qmin_spec b senate) as (B1 & B2 & B3 & B4).
    destruct (Qlt_le_dec a senate) as [La|La]; destruct (Qlt_le_dec b senate) as [Lb|Lb].
    + rewrite (A1 ltac:(lra)), (B1 ltac:(lra)). lra.
    + rewrite (A1 ltac:(lra)), (B2 Lb).
      assert (0 <= (b - senate) * a) by (apply Qmult_le_0_compat; lra). lra.
    + lra.
    + rewrite (A2 La), (B2 Lb).
      assert (0 <= senate * (b - a)) by (apply Qmult_le_0_compat; lra). lra.
Qed.

(* ---------------------------------------------------------------- the invariant of reachable states *)
Definition total_cur (l : list (group * gstate)) : N := fold_right (fun kg acc => (g_cur (snd kg) + acc)%N) 0%N l.

(* a group is either fresh (never saw an interval end, at least one observation) or has a moving average >= 1 *)
Definition good (g : gstate) : Prop :=
  (g_samples g = 0%N -> (1 <= g_cur g)%N) /\ (g_samples g <> 0%N -> 1 <= g_avg g) /\ 0 < g_rate g /\ g_rate g <= 1.
Definition Inv (c : congress) : Prop :=
  Forall (fun kg => good (snd kg)) (c_groups c) /\ c_cur c = total_cur (c_groups c).

(* right after an interval end *)
Definition settled (g : gstate) : Prop :=
  g_cur g = 0%N /\ g_samples g <> 0%N /\ 1 <= g_avg g /\ 0 < g_rate g /\ g_rate g <= 1.
Lemma settled_good : forall g, settled g -> good g.
Proof. intros g (A & B & C & D & E). repeat split; try assumption; intros; congruence. Qed.

Lemma inv_init : forall target, Inv (c_init target).
Proof. intros target. split; [constructor|reflexivity]. Qed.

Lemma bump_props : forall k l, Forall (fun kg => good (snd kg)) l ->
  Forall (fun kg => good (snd kg)) (fst (bump k l)) /\ total_cur (fst (bump k l)) = (total_cur l + 1)%N /\
  0 < snd (bump k l) /\ snd (bump k l) <= 1.
Proof.
  intros k l. induction l as [|[k' g] l IH]; intros H.
  - cbn. repeat split; try lra. constructor; [|constructor]. cbn. repeat split; cbn; intros; try lia; try lra.
  - inversion H as [|? ? Hg Hl]; subst. cbn [bump]. destruct (group_eqb k k').
    + cbn [fst snd]. destruct Hg as (G1 & G2 & G3 & G4). cbn [snd] in *. repeat split; try assumption.
      * constructor; [|assumption]. cbn. repeat split; cbn; try assumption. intros. lia.
      * cbn. lia.
    + specialize (IH Hl) as (I1 & I2 & I3 & I4). cbn [fst snd]. repeat split; try assumption.
      * constructor; assumption.
      * change (total_cur ((k', g) :: fst (bump k l))) with (g_cur g + total_cur (fst (bump k l)))%N.
        rewrite I2. change (total_cur ((k', g) :: l)) with (g_cur g + total_cur l)%N. cbn [snd]. lia.
Qed.

Lemma observe_inv : forall c g, Inv c -> Inv (fst (observe c g)) /\ 0 < snd (observe c g) /\ snd (observe c g) <= 1.
Proof.
  intros c g [H1 H2]. unfold observe. destruct (bump_props (sort_group g) (c_groups c) H1) as (B1 & B2 & B3 & B4).
  cbn [fst snd]. repeat split; try assumption. cbn [c_cur c_groups]. rewrite B2, H2. reflexivity.
Qed.

(* ---------------------------------------------------------------- the moving average stays >= 1 *)
Lemma ema_ge_one : forall samples value sample, 1 <= sample -> (samples <> 0%N -> 1 <= value) ->
  fst (ema_add samples value sample) <> 0%N /\ 1 <= snd (ema_add samples value sample).
Proof.
  intros samples value sample Hs Hv. unfold ema_add. cbn [fst snd]. split.
  - unfold ema_window. lia.
  - rewrite Qred_correct.
    set (s := N.min ema_window (samples + 1)).
    assert (S1 : (1 <= s)%N) by (unfold s, ema_window; lia).
    assert (Q1 : 1 <= q_of_N s) by (apply q_of_N_pos; lia).
    destruct (N.eq_dec samples 0) as [Z|NZ].
    + assert (E : s = 1%N) by (unfold s, ema_window; subst; reflexivity). rewrite E.
      assert (E1 : 1 / q_of_N 1 == 1) by reflexivity. rewrite E1. lra.
    + specialize (Hv NZ).
      assert (D0 : 0 < 1 / q_of_N s) by (apply Qlt_shift_div_l; lra).
      assert (D1 : 1 / q_of_N s <= 1) by (apply Qle_shift_div_r; lra).
      set (d := 1 / q_of_N s) in *.
      assert (0 <= d * (sample - 1)) by (apply Qmult_le_0_compat; lra).
      assert (0 <= (1 - d) * (value - 1)) by (apply Qmult_le_0_compat; lra).
      lra.
Qed.

Lemma update_and_retain_settled : forall g, good g -> fst (update_and_retain g) = true -> settled (snd (update_and_retain g)).
Proof.
  intros g (G1 & G2 & G3 & G4) R. unfold update_and_retain in *.
  destruct (N.ltb 0 (g_cur g)) eqn:E.
  - apply N.ltb_lt in E. cbn [snd].
    destruct (ema_ge_one (g_samples g) (g_avg g) (q_of_N (g_cur g)) (q_of_N_pos _ E) G2) as [A B].
    repeat split; cbn; assumption.
  - apply N.ltb_ge in E. assert (NZ : g_samples g <> 0%N) by (intros Z; specialize (G1 Z); lia).
    destruct (N.leb no_observations_ttl (g_noobs g)); cbn [fst snd] in *; [discriminate|].
    repeat split; cbn; try assumption; try lia. apply G2. exact NZ.
Qed.

Lemma retain_settled : forall l, Forall (fun kg => good (snd kg)) l -> Forall (fun kg => settled (snd kg)) (retain_groups l).
Proof.
  intros l H. unfold retain_groups. induction l as [|[k g] l IH]; cbn; [constructor|].
  inversion H as [|? ? Hg Hl]; subst. cbn [snd] in Hg.
  destruct (fst (update_and_retain g)) eqn:R; cbn.
  - constructor; [apply update_and_retain_settled; assumption | apply IH; assumption].
  - apply IH; assumption.
Qed.

Lemma retain_nonempty : forall l, (0 < total_cur l)%N -> retain_groups l <> [].
Proof.
  intros l. induction l as [|[k g] l IH]; intros H; [cbn in H; lia|].
  change (total_cur ((k, g) :: l)) with (g_cur g + total_cur l)%N in H.
  unfold retain_groups. cbn [flat_map fst snd].
  destruct (N.ltb 0 (g_cur g)) eqn:E.
  - unfold update_and_retain. rewrite E. cbn. discriminate.
  - apply N.ltb_ge in E. assert (H0 : (0 < total_cur l)%N) by lia. specialize (IH H0).
    destruct (fst (update_and_retain g)); cbn; [discriminate|]. exact IH.
Qed.

(* ---------------------------------------------------------------- update_rates, unfolded into per-group maps *)
Definition set_rate_one (g : gstate) : gstate := mk_g (g_cur g) (g_noobs g) (g_samples g) (g_avg g) 1 (g_size g).
Definition sized_g (flat senate : Q) (g : gstate) : gstate :=
  mk_g (g_cur g) (g_noobs g) (g_samples g) (g_avg g) (g_rate g) (Qred (size_in_congress flat senate (g_avg g))).
Definition final_g (scale : Q) (g : gstate) : gstate :=
  mk_g (g_cur g) (g_noobs g) (g_samples g) (g_avg g)
       (if Qle_bool (g_avg g) 0 then 1 else Qred (qmin (g_size g * scale / g_avg g) 1)) (g_size g).

Lemma map_snd_map : forall (F : gstate -> gstate) (l : list (group * gstate)),
  map snd (map (fun kg => (fst kg, F (snd kg))) l) = map F (map snd l).
Proof. intros F l. rewrite !map_map. reflexivity. Qed.

(* the same function written with the per-group maps *)
Definition update_rates' (c : congress) : congress :=
  let groups := retain_groups (c_groups c) in
  if N.leb (c_cur c) (c_target c) then
    mk_c (c_target c) 0 (map (fun kg => (fst kg, set_rate_one (snd kg))) groups)
  else
    let flat := q_of_N (c_target c) / q_of_N (c_cur c) in
    let senate := q_of_N (c_target c) / q_of_N (N.of_nat (length groups)) in
    let sized := map (fun kg => (fst kg, sized_g flat senate (snd kg))) groups in
    let scale := q_of_N (c_target c) / qsum (map (fun kg => g_size (snd kg)) sized) in
    mk_c (c_target c) 0 (map (fun kg => (fst kg, final_g scale (snd kg))) sized).
Lemma update_rates_unfold : forall c, update_rates c = update_rates' c.
Proof. reflexivity. Qed.

Section Sampling.
  Variable c : congress.
  Hypothesis HI : Inv c.
  Hypothesis Htarget : (0 < c_target c)%N.

  Let retained := retain_groups (c_groups c).
  Let gs := map snd retained.
  Let T := q_of_N (c_target c).
  Let C := q_of_N (c_cur c).
  Let flat := T / C.
  Let senate := T / q_of_N (N.of_nat (length retained)).
  Let sized := map (sized_g flat senate) gs.
  Let csize := qsum (map g_size sized).
  Let scale := T / csize.

  Lemma gs_settled : Forall settled gs.
  Proof.
    unfold gs, retained. destruct HI as [H _]. apply retain_settled in H.
    rewrite Forall_map. exact H.
  Qed.

  Lemma below_groups : (c_cur c <= c_target c)%N -> groups_of (update_rates c) = map set_rate_one gs.
  Proof.
    intros L. rewrite update_rates_unfold. unfold update_rates', groups_of. apply N.leb_le in L. rewrite L. cbn [c_groups].
    apply (map_snd_map set_rate_one).
  Qed.

  Lemma above_groups : (c_target c < c_cur c)%N -> groups_of (update_rates c) = map (final_g scale) sized.
  Proof.
    intros L. rewrite update_rates_unfold. unfold update_rates', groups_of. apply N.leb_gt in L. rewrite L. cbn [c_groups].
    rewrite (map_snd_map (final_g _)). rewrite (map_snd_map (sized_g _ _)).
    unfold scale, csize, sized, gs, retained, senate, flat, T, C.
    repeat f_equal. rewrite !map_map. reflexivity.
  Qed.

  Section Above.
    Hypothesis Habove : (c_target c < c_cur c)%N.

    Lemma T_pos : 0 < T. Proof. unfold T. pose proof (q_of_N_pos _ Htarget). lra. Qed.
    Lemma C_pos : 0 < C. Proof. unfold C. assert (0 < c_cur c)%N by lia. pose proof (q_of_N_pos _ H). lra. Qed.
    Lemma flat_pos : 0 < flat. Proof. unfold flat. apply Qlt_shift_div_l; [apply C_pos | pose proof T_pos; lra]. Qed.
    Lemma flat_le_one : flat <= 1.
    Proof.
      unfold flat. apply Qle_shift_div_r; [apply C_pos|]. unfold T, C. pose proof (q_of_N_lt _ _ Habove). lra.
    Qed.
    Lemma retained_nonempty : retained <> [].
    Proof. unfold retained. apply retain_nonempty. destruct HI as [_ E]. rewrite <- E. lia. Qed.
    Lemma senate_pos : 0 < senate.
    Proof.
      unfold senate. apply Qlt_shift_div_l.
      - assert (0 < N.of_nat (length retained))%N.
        { pose proof retained_nonempty. destruct retained; [congruence|cbn; lia]. }
        pose proof (q_of_N_pos _ H). lra.
      - pose proof T_pos. lra.
    Qed.

    Lemma sized_props : forall g, In g sized ->
      exists g0, In g0 gs /\ settled g0 /\ g_avg g = g_avg g0 /\ g_size g == size_in_congress flat senate (g_avg g0) /\ 0 < g_size g.
    Proof.
      intros g H. unfold sized in H. apply in_map_iff in H. destruct H as (g0 & E & I). subst g.
      pose proof gs_settled as S. rewrite Forall_forall in S. specialize (S g0 I).
      exists g0. split; [exact I|]. split; [exact S|]. split; [reflexivity|]. cbn [sized_g g_size]. split.
      - apply Qred_correct.
      - rewrite Qred_correct. destruct S as (_ & _ & A & _). apply size_pos; [apply flat_pos | apply senate_pos | lra].
    Qed.

    Lemma csize_pos : 0 < csize.
    Proof.
      unfold csize. apply qsum_pos.
      - unfold sized, gs. pose proof retained_nonempty. destruct retained; [congruence|discriminate].
      - intros g H. destruct (sized_props g H) as (g0 & _ & _ & _ & _ & P). exact P.
    Qed.
    Lemma scale_pos : 0 < scale.
    Proof. unfold scale. apply Qlt_shift_div_l; [apply csize_pos | pose proof T_pos; lra]. Qed.

    (* the final rate of one group *)
    Lemma final_rate : forall g, In g sized ->
      g_rate (final_g scale g) == qmin (g_size g * scale / g_avg g) 1 /\ 1 <= g_avg g.
    Proof.
      intros g H. destruct (sized_props g H) as (g0 & _ & (_ & _ & A & _) & E & _ & _).
      assert (A' : 1 <= g_avg g) by (rewrite E; exact A). split; [|exact A'].
      unfold final_g. cbn [g_rate]. destruct (Qle_bool (g_avg g) 0) eqn:Z.
      - apply Qle_bool_iff in Z. lra.
      - apply Qred_correct.
    Qed.

    Lemma above_rates_in_range : forall g, In g sized -> 0 < g_rate (final_g scale g) /\ g_rate (final_g scale g) <= 1.
    Proof.
      intros g H. destruct (final_rate g H) as [E A]. rewrite E.
      destruct (sized_props g H) as (_ & _ & _ & _ & _ & P).
      destruct (qmin_spec (g_size g * scale / g_avg g) 1) as (_ & _ & _ & M). split; [|exact M].
      apply qmin_pos; [|lra]. apply Qlt_shift_div_l; [lra|]. pose proof scale_pos.
      assert (0 < g_size g * scale) by (apply Qmult_lt_0_compat; assumption). lra.
    Qed.

    Lemma above_budget : qsum (map (fun g => g_avg g * g_rate g) (map (final_g scale) sized)) <= T.
    Proof.
      rewrite map_map.
      apply Qle_trans with (qsum (map (fun g => g_size g * scale) sized)).
      - apply qsum_le. intros g H. destruct (final_rate g H) as [E A]. cbn [final_g g_avg].
        change (g_rate (final_g scale g)) with (g_rate (final_g scale g)).
        assert (R : g_rate (final_g scale g) <= g_size g * scale / g_avg g).
        { rewrite E. destruct (qmin_spec (g_size g * scale / g_avg g) 1) as (_ & _ & M & _). exact M. }
        assert (EQ : g_size g * scale == g_avg g * (g_size g * scale / g_avg g)) by (field; lra).
        rewrite EQ. apply Qmult_le_l; [lra|]. exact R.
      - rewrite qsum_scale. fold csize. unfold scale. pose proof csize_pos.
        assert (EQ : csize * (T / csize) == T) by (field; lra). rewrite EQ. lra.
    Qed.

    Lemma above_monotone : forall g h, In g sized -> In h sized -> g_avg g <= g_avg h ->
      g_rate (final_g scale h) <= g_rate (final_g scale g).
    Proof.
      intros g h Hg Hh L. destruct (final_rate g Hg) as [Eg Ag]. destruct (final_rate h Hh) as [Eh Ah].
      rewrite Eg, Eh. apply qmin_mono_l.
      destruct (sized_props g Hg) as (g0 & _ & _ & Ea & Es & _). destruct (sized_props h Hh) as (h0 & _ & _ & Eb & Et & _).
      rewrite Es, Et. rewrite <- Ea, <- Eb.
      set (a := g_avg g) in *. set (b := g_avg h) in *.
      pose proof (size_cross flat senate a b flat_pos flat_le_one senate_pos ltac:(lra) L) as X.
      pose proof scale_pos as SP.
      assert (K : 0 <= scale / (a * b)).
      { apply Qle_shift_div_l; [apply Qmult_lt_0_compat; lra | lra]. }
      assert (E1 : size_in_congress flat senate b * scale / b == (size_in_congress flat senate b * a) * (scale / (a * b))) by (field; lra).
      assert (E2 : size_in_congress flat senate a * scale / a == (size_in_congress flat senate a * b) * (scale / (a * b))) by (field; lra).
      rewrite E1, E2. apply Qmult_le_compat_r; assumption.
    Qed.
  End Above.
End Sampling.

(* ---------------------------------------------------------------- the invariant is preserved by an interval end *)
Lemma update_rates_inv : forall c, Inv c -> (0 < c_target c)%N -> Inv (update_rates c) /\ Forall settled (groups_of (update_rates c)).
Proof.
  intros c HI HT.
  assert (S : Forall settled (groups_of (update_rates c))).
  { destruct (N.le_gt_cases (c_cur c) (c_target c)) as [L|L].
    - rewrite (below_groups c L). pose proof (gs_settled c HI) as G. rewrite Forall_map.
      eapply Forall_impl; [|exact G]. intros g (A & B & D & E & F). repeat split; cbn; try assumption; lra.
    - rewrite (above_groups c L). rewrite Forall_forall. intros g' H. apply in_map_iff in H. destruct H as (g & E & I). subst g'.
      destruct (above_rates_in_range c HI HT L g I) as [R1 R2].
      destruct (sized_props c HI HT L g I) as (g0 & _ & (A & B & D & _) & Ea & _ & _).
      unfold sized_g in *.
      assert (In g (map (sized_g (q_of_N (c_target c) / q_of_N (c_cur c))
                 (q_of_N (c_target c) / q_of_N (N.of_nat (length (retain_groups (c_groups c))))))
                 (map snd (retain_groups (c_groups c))))) by exact I.
      apply in_map_iff in H. destruct H as (g1 & E1 & I1). subst g.
      pose proof (gs_settled c HI) as G. rewrite Forall_forall in G. specialize (G g1 I1). destruct G as (A1 & B1 & D1 & _).
      repeat split; cbn; try assumption. }
  split; [|exact S].
  split.
  - unfold groups_of in S. rewrite Forall_map in S. eapply Forall_impl; [|exact S]. intros kg H. apply settled_good. exact H.
  - assert (Z : c_cur (update_rates c) = 0%N) by (unfold update_rates; destruct (N.leb _ _); reflexivity).
    rewrite Z. unfold groups_of in S. rewrite Forall_map in S.
    induction (c_groups (update_rates c)) as [|kg l IH]; [reflexivity|].
    inversion S as [|? ? Hk Hl]; subst. cbn. destruct Hk as (A & _). rewrite A. apply IH. exact Hl.
Qed.

Lemma cstep_inv : forall c o, (0 < c_target c)%N -> Inv c -> Inv (cstep c o) /\ c_target (cstep c o) = c_target c.
Proof.
  intros c o HT HI. destruct o as [g|]; cbn [cstep].
  - split; [apply observe_inv; exact HI | reflexivity].
  - split; [apply update_rates_inv; assumption | unfold update_rates; destruct (N.leb _ _); reflexivity].
Qed.

Lemma crun_inv : forall target ops, (0 < target)%N -> Inv (crun target ops) /\ c_target (crun target ops) = target.
Proof.
  intros target ops HT. unfold crun.
  assert (G : forall c, (0 < c_target c)%N -> Inv c -> Inv (fold_left cstep ops c) /\ c_target (fold_left cstep ops c) = c_target c).
  { induction ops as [|o ops IH]; intros c H1 H2; cbn; [split; [assumption|reflexivity]|].
    destruct (cstep_inv c o H1 H2) as [I E]. destruct (IH (cstep c o) ltac:(rewrite E; exact H1) I) as [I2 E2].
    split; [exact I2 | rewrite E2; exact E]. }
  apply (G (c_init target) HT (inv_init target)).
Qed.

(* ---------------------------------------------------------------- the theorems *)

(* every rate handed to an entry lies in (0,1] *)
Theorem congress_rate_handed_out : forall target ops g, (0 < target)%N ->
  0 < snd (observe (crun target ops) g) /\ snd (observe (crun target ops) g) <= 1.
Proof.
  intros target ops g HT. destruct (crun_inv target ops HT) as [I _].
  destruct (observe_inv (crun target ops) g I) as (_ & A & B). split; assumption.
Qed.

(* after every end of interval, for every history *)
Theorem congress_after_interval : forall target ops, (0 < target)%N ->
  let before := crun target ops in
  let after := update_rates before in
  (forall g, In g (groups_of after) -> 0 < g_rate g /\ g_rate g <= 1 /\ 1 <= g_avg g) /\
  ((c_cur before <= target)%N -> forall g, In g (groups_of after) -> g_rate g == 1) /\
  ((target < c_cur before)%N ->
     qsum (map (fun g => g_avg g * g_rate g) (groups_of after)) <= q_of_N target /\
     forall g h, In g (groups_of after) -> In h (groups_of after) -> g_avg g <= g_avg h -> g_rate h <= g_rate g).
Proof.
  intros target ops HT before after. destruct (crun_inv target ops HT) as [I ET]. fold before in I, ET.
  assert (HT' : (0 < c_target before)%N) by (rewrite ET; exact HT).
  split; [|split].
  - destruct (update_rates_inv before I HT') as [_ S]. rewrite Forall_forall in S.
    intros g H. destruct (S g H) as (_ & _ & A & B & D). repeat split; assumption.
  - intros L g H. rewrite <- ET in L. unfold after in H. rewrite (below_groups before L) in H.
    apply in_map_iff in H. destruct H as (g0 & E & _). subst g. reflexivity.
  - intros L. rewrite <- ET in L. unfold after. rewrite (above_groups before L). split.
    + rewrite <- ET. apply above_budget; assumption.
    + intros g h Hg Hh Le. apply in_map_iff in Hg. destruct Hg as (g1 & E1 & I1). apply in_map_iff in Hh. destruct Hh as (h1 & E2 & I2).
      subst g h. cbn [final_g g_avg] in Le. apply above_monotone; assumption.
Qed.

(* the boolean form used by the correspondence *)
Corollary congress_after_interval_bool : forall target ops, (0 < target)%N ->
  after_interval_ok (c_cur (crun target ops)) (update_rates (crun target ops)) = true.
Proof.
  intros target ops HT. destruct (congress_after_interval target ops HT) as (A & B & D).
  destruct (crun_inv target ops HT) as [_ ET].
  assert (ET' : c_target (update_rates (crun target ops)) = target).
  { unfold update_rates. destruct (N.leb _ _); cbn; exact ET. }
  unfold after_interval_ok. rewrite ET'.
  apply andb_true_intro. split; [apply andb_true_intro; split|].
  - unfold rates_in_range. apply forallb_forall. intros g H. destruct (A g H) as (R1 & R2 & _).
    apply andb_true_intro. split.
    + destruct (Qle_bool (g_rate g) 0) eqn:E; [apply Qle_bool_iff in E; lra|reflexivity].
    + apply Qle_bool_iff. exact R2.
  - unfold averages_positive. apply forallb_forall. intros g H. destruct (A g H) as (_ & _ & R3).
    destruct (Qle_bool (g_avg g) 0) eqn:E; [apply Qle_bool_iff in E; lra|reflexivity].
  - destruct (N.leb (c_cur (crun target ops)) target) eqn:L.
    + apply N.leb_le in L. unfold all_rates_one. apply forallb_forall. intros g H. apply Qeq_bool_iff. apply B; assumption.
    + apply N.leb_gt in L. destruct (D L) as [D1 D2]. apply andb_true_intro. split.
      * unfold within_budget, budget. rewrite ET'. apply Qle_bool_iff. exact D1.
      * unfold monotone. apply forallb_forall. intros g Hg. apply forallb_forall. intros h Hh.
        destruct (Qle_bool (g_avg g) (g_avg h)) eqn:E; cbn [implb]; [|reflexivity].
        apply Qle_bool_iff in E. apply Qle_bool_iff. apply D2; assumption.
Qed.

(* the first update on the empty state is a no-op *)
Lemma update_rates_empty : forall target, update_rates (c_init target) = c_init target.
Proof. intros target. destruct target; reflexivity. Qed.

(* a group disappears exactly after NO_OBSERVATIONS_TTL + 1 = 9 consecutive empty intervals *)
Lemma retain_counts_down : forall g, g_cur g = 0%N ->
  fst (update_and_retain g) = negb (N.leb no_observations_ttl (g_noobs g)).
Proof.
  intros g Z. unfold update_and_retain. rewrite Z. cbn. destruct (N.leb no_observations_ttl (g_noobs g)); reflexivity.
Qed.
