(* EMF family — wire codec and entry points. *)
(* DISPATCH 200 emf_run *)
From Coq Require Import List ZArith NArith Bool.
From MV Require Import Common.Sx Common.Bytes Emf.Model.
Import ListNotations.

Definition dec_unit (x : sx) : unit_ := match x with L [B n] => UName n | _ => UNone end.
Definition dec_strs (x : sx) : list bytes := map sx_bytes (sx_list x).
Definition dec_obs (x : sx) : obs :=
  match sx_tag x with
  | 0%Z => OUnsigned (sx_n (sx_arg x 0))
  | 1%Z => OFloat (sx_n (sx_arg x 0))
  | _ => ORepeated (sx_n (sx_arg x 0)) (sx_n (sx_arg x 1))
  end.
Definition dec_flag (x : sx) : flag :=
  match sx_z x with 1%Z => FHigh | 2%Z => FNoMetric | 3%Z => FForeign | _ => FNone end.
Definition dec_pair (x : sx) : bytes * bytes := (sx_bytes (sx_nth x 0), sx_bytes (sx_nth x 1)).
Definition dec_vcall (x : sx) : vcall :=
  match sx_tag x with
  | 1%Z => VString (sx_bytes (sx_arg x 0))
  | 2%Z => VError (dec_strs (sx_arg x 0))
  | 3%Z => VMetric (map dec_obs (sx_list (sx_arg x 0))) (dec_unit (sx_arg x 1))
                   (map dec_pair (sx_list (sx_arg x 2))) (dec_flag (sx_arg x 3))
  | _ => VNone
  end.
Definition dec_citem (x : sx) : citem :=
  match sx_tag x with
  | 0%Z => CSplit
  | 1%Z => CUnroutable
  | 2%Z => CEntryDims (map dec_strs (sx_list (sx_arg x 0)))
  | _ => COther
  end.
Definition dec_item (x : sx) : item :=
  match sx_tag x with
  | 0%Z => ITimestamp (sx_z (sx_arg x 0))
  | 1%Z => IConfig (dec_citem (sx_arg x 0))
  | _ => IValue (sx_bytes (sx_arg x 0)) (dec_vcall (sx_arg x 1))
  end.
Definition dec_directive (x : sx) : directive :=
  mk_directive (map dec_strs (sx_list (sx_nth x 0)))
               (map (fun m => (sx_bytes (sx_nth m 0), dec_unit (sx_nth m 1), sx_option sx_n (sx_nth m 2))) (sx_list (sx_nth x 1)))
               (sx_bytes (sx_nth x 2)).
Definition dec_ctor (x : sx) : ctor :=
  match sx_z (sx_nth x 0) with
  | 0%Z => AllValidations
  | 1%Z => Builder
  | 2%Z => BuilderSkip (sx_bool (sx_nth x 1))
  | _ => NoValidations
  end.
(* config = ((ctor b debug_assertions) namespaces default_dims directives log_group? allow_ignored) *)
Definition dec_config (x : sx) : config :=
  let k := sx_nth x 0 in
  let skip := ctor_skip (sx_bool (sx_nth k 2)) (dec_ctor k) in
  mk_config skip skip skip
            (dec_strs (sx_nth x 1)) (map dec_strs (sx_list (sx_nth x 2)))
            (map dec_directive (sx_list (sx_nth x 3))) (sx_option sx_bytes (sx_nth x 4)) (sx_bool (sx_nth x 5)).
Definition dec_wresp (x : sx) : wresp :=
  match sx_tag x with 0%Z => Accept (sx_n (sx_arg x 0)) | 1%Z => Interrupted | 2%Z => Zero | _ => Fail end.
Definition dec_call (x : sx) : call :=
  mk_call (sx_option sx_n (sx_nth x 0)) (map dec_item (sx_list (sx_nth x 1))) (sx_n (sx_nth x 2))
          (map (fun p => (sx_n (sx_nth p 0), sx_bytes (sx_nth p 1))) (sx_list (sx_nth x 3)))
          (map dec_wresp (sx_list (sx_nth x 4))).

(* lines: split after every newline (10) *)
Fixpoint split_lines (s cur : bytes) : list bytes :=
  match s with
  | [] => match cur with [] => [] | _ => [rev cur] end
  | c :: r => if N.eqb c 10 then rev (c :: cur) :: split_lines r [] else split_lines r (c :: cur)
  end.
Fixpoint insert_bytes (x : bytes) (l : list bytes) : list bytes :=
  match l with [] => [x] | y :: r => if bytes_leb x y then x :: l else y :: insert_bytes x r end.
Definition sort_bytes (l : list bytes) : list bytes := fold_right insert_bytes [] l.

(* A validation message is compared by the field it blames, not by its wording (no property fixes the wording):
   "for `NAME`: text" becomes NAME (up to the first back-tick), any other message becomes the empty string. *)
Fixpoint until_tick (s : bytes) : bytes :=
  match s with [] => [] | c :: r => if N.eqb c 96 then [] else c :: until_tick r end.
Definition blamed (m : bytes) : bytes :=
  match m with
  | 102%N :: 111%N :: 114%N :: 32%N :: 96%N :: r => until_tick r
  | _ => []
  end.

Definition enc_result (sorted : bool) (ro : result * bytes) : sx :=
  let '(r, out) := ro in
  let r' := match r with
            | ROk => L [A 0%Z]
            | RValidation msgs => L [A 1%Z; L (map B (sort_bytes (map blamed msgs)))]
            | RIo z => L [A 2%Z; of_bool z]
            end in
  L [r'; if sorted then L (map B (sort_bytes (split_lines out []))) else B out].

(* case = (config (call…) sorted?) ; result = one (result output) per call *)
Definition emf_run (x : sx) : sx :=
  let c := dec_config (sx_nth x 0) in
  let ks := map dec_call (sx_list (sx_nth x 1)) in
  let sorted := sx_bool (sx_nth x 2) in
  L (map (enc_result sorted) (run_calls c (fresh c) ks)).

(* DISPATCH 300 emf_spec_run *)
(* the reference interpretation: for an accepted call, the printed documents of Spec.emf_docs (sorted lines);
   for a rejected call the model's verdict.  Single calls on a fresh formatter, all-accepting writer. *)
From MV Require Import Json.Json Emf.Spec.
Definition spec_call (c : config) (k : call) : sx :=
  let '(_, r, out) := format_call c (fresh c) k in
  match r with
  | ROk =>
      let docs := emf_docs c (c_mult k) (c_entry k) (c_now k) (c_ftab k) in
      L [L [A 0%Z]; L (map B (sort_bytes (map (fun d => print d ++ [10%N]) docs)))]
  | _ => enc_result true (r, out)
  end.
Definition emf_spec_run (x : sx) : sx :=
  let c := dec_config (sx_nth x 0) in
  L (map (spec_call c) (map dec_call (sx_list (sx_nth x 1)))).
