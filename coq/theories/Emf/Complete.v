(* C08 — completeness: with the validations on, each listed defect leads to a validation error (and no output). *)
From Coq Require Import String.
From Coq Require Import List NArith ZArith Bool Lia.
From MV Require Import Common.Sx Common.Bytes Emf.Model Emf.ErrorNothing Emf.Validate.
Import ListNotations.

Definition rejected (c : config) (s : fstate) mult (e : entry) now ftab script : Prop :=
  exists s' msgs, format c s mult e now ftab script = (s', RValidation msgs, []).

Lemma grows_not_nil w w' : grows w w' -> errors w <> [] -> errors w' <> [].
Proof. intros [l H] Hne. rewrite H. destruct (errors w); [congruence | discriminate]. Qed.

(* an error recorded after any prefix of the entry means the whole entry is rejected *)
Lemma reject_after_prefix c s mult e1 e2 now ftab script :
  errors (fold_left (do_item c ftab mult) e1 (init_writer c (st s))) <> [] ->
  rejected c s mult (e1 ++ e2) now ftab script.
Proof.
  intros Hne. unfold rejected, format. rewrite fold_left_app.
  set (w1 := fold_left _ e1 _) in *.
  pose proof (grows_not_nil _ _ (grows_fold_items c ftab mult e2 w1) Hne) as Hne2.
  destruct (finish_errors_reject c now _ (dimensions s) (counts s) script Hne2) as [msgs Hm].
  eexists _, msgs. exact Hm.
Qed.

Lemma add_error_ne w e : errors (add_error w e) <> [].
Proof. cbn. destruct (errors w); discriminate. Qed.

(* ------------------------------------------------------------ more than one timestamp (unconditional) *)
Lemma ts_persists c ftab mult w i : w_timestamp w <> None -> w_timestamp (do_item c ftab mult w i) <> None.
Proof.
  intros H. destruct i as [t | ci | name v]; cbn [do_item].
  - destruct (w_timestamp w); cbn; discriminate.
  - unfold do_config. destruct ci as [| | d |]; try exact H.
    destruct (negb _); [exact H|]. destruct (match entry_dims w with Some _ => true | None => false end); [exact H|].
    destruct d; [exact H|]. destruct (negb (skip_unique c) || negb (skip_dims c)); cbn -[fold_left concat flat_map]; [|exact H].
    pose proof (fold_check_frame c (concat (l :: d)) w) as F. cbv zeta in F. destruct F as (_ & _ & C & _). rewrite C. exact H.
  - unfold do_value. pose proof (grows_validate_name c w name) as _.
    assert (Hn : w_timestamp (fst (validate_name c w name)) = w_timestamp w).
    { unfold validate_name. destruct (skip_names c); [reflexivity|].
      destruct (bytes_eqb name []); [reflexivity|]. destruct (bytes_eqb name (bs "_aws")); reflexivity. }
    destruct (validate_name c w name) as [w1 ok]. cbn [fst] in Hn. destruct ok; cbn [negb]; [|rewrite Hn; exact H].
    rewrite <- Hn in H. destruct v as [| s | msgs | os u dims fl].
    + exact H.
    + unfold do_string. destruct (skip_unique c); [exact H|].
      match goal with |- context [validate_string ?ww ?nn] => pose proof (validate_string_frame ww nn) as F end.
      cbv zeta in F. destruct F as (_ & _ & C & _). rewrite C. exact H.
    + clear Hn. revert w1 H. induction msgs as [|m ms IH]; intros w1 H; cbn; [exact H|]. apply IH. exact H.
    + unfold do_metric.
      set (w2 := if negb _ && negb (allow_split w1) then _ else w1).
      assert (H2 : w_timestamp w2 = w_timestamp w1) by (unfold w2; destruct (negb _ && negb _); reflexivity).
      destruct (allow_ignored c || _).
      * destruct (write_metric ftab mult name os u fl _ _) as [fb mb].
        destruct (negb (skip_unique c) && negb (unroutable w2)); cbn [set_state w_timestamp].
        -- pose proof (validate_metric_frame w2 name 0) as F. cbv zeta in F. destruct F as (_ & _ & C & _). rewrite C, H2. exact H.
        -- rewrite H2. exact H.
      * match goal with |- context [write_metric ?a ?b ?cc ?d ?e ?f ?g ?h] => destruct (write_metric a b cc d e f g h) as [fb mb] end.
        destruct (negb (skip_unique c) && negb (unroutable w2)); cbn [set_state w_timestamp].
        -- match goal with |- context [validate_metric w2 name ?i] => pose proof (validate_metric_frame w2 name i) as F end.
           cbv zeta in F. destruct F as (_ & _ & C & _). rewrite C, H2. exact H.
        -- rewrite H2. exact H.
Qed.

Lemma ts_persists_fold c ftab mult e : forall w, w_timestamp w <> None -> w_timestamp (fold_left (do_item c ftab mult) e w) <> None.
Proof. induction e as [|i e IH]; intros w H; cbn; [exact H|]. apply IH. apply ts_persists. exact H. Qed.

Lemma two_timestamps_rejected c s mult e1 t1 e2 t2 e3 now ftab script :
  rejected c s mult (e1 ++ ITimestamp t1 :: e2 ++ ITimestamp t2 :: e3) now ftab script.
Proof.
  replace (e1 ++ ITimestamp t1 :: e2 ++ ITimestamp t2 :: e3)
    with ((e1 ++ ITimestamp t1 :: e2 ++ [ITimestamp t2]) ++ e3)
    by (rewrite <- !app_assoc; cbn; rewrite <- app_assoc; reflexivity).
  apply reject_after_prefix.
  rewrite fold_left_app. cbn [fold_left]. rewrite fold_left_app. cbn [fold_left].
  set (w1 := fold_left _ e1 _).
  set (w2 := fold_left _ e2 (do_item c ftab mult w1 (ITimestamp t1))).
  assert (H : w_timestamp w2 <> None).
  { apply ts_persists_fold. cbn [do_item]. destruct (w_timestamp w1); cbn; discriminate. }
  cbn [do_item]. destruct (w_timestamp w2) as [t|]; [|congruence]. apply add_error_ne.
Qed.

(* ------------------------------------------------------------ empty or reserved name *)
Lemma bytes_eqb_refl (a : bytes) : bytes_eqb a a = true.
Proof. induction a as [|x a IH]; cbn [bytes_eqb]; [reflexivity|]. rewrite N.eqb_refl, IH. reflexivity. Qed.

Lemma bad_name_rejected c s mult e1 name v e2 now ftab script :
  skip_names c = false -> name = [] \/ name = bs "_aws" ->
  rejected c s mult (e1 ++ IValue name v :: e2) now ftab script.
Proof.
  intros Hs Hn. replace (e1 ++ IValue name v :: e2) with ((e1 ++ [IValue name v]) ++ e2) by (rewrite <- app_assoc; reflexivity).
  apply reject_after_prefix. rewrite fold_left_app. cbn [fold_left do_item].
  unfold do_value, validate_name. rewrite Hs.
  destruct (bytes_eqb name []) eqn:H0; [apply add_error_ne|].
  destruct Hn as [Hn | Hn]; [subst name; discriminate H0|].
  rewrite Hn at 1. rewrite bytes_eqb_refl. apply add_error_ne.
Qed.

(* ------------------------------------------------------------ per-metric dimensions without split mode *)
Fixpoint has_split (e : entry) : bool :=
  match e with [] => false | IConfig CSplit :: _ => true | _ :: r => has_split r end.

Lemma allow_split_frame_item c ftab mult w i :
  allow_split w = false -> (match i with IConfig CSplit => False | _ => True end) ->
  allow_split (do_item c ftab mult w i) = false.
Proof.
  intros H Hi. destruct i as [t | ci | name v]; cbn [do_item].
  - destruct (w_timestamp w); cbn; exact H.
  - unfold do_config. destruct ci as [| | d |]; try exact H; try contradiction.
    destruct (negb _); [exact H|]. destruct (match entry_dims w with Some _ => true | None => false end); [exact H|].
    destruct d; [exact H|]. destruct (negb (skip_unique c) || negb (skip_dims c)); cbn -[fold_left concat flat_map]; [|exact H].
    pose proof (fold_check_frame c (concat (l :: d)) w) as F. cbv zeta in F. destruct F as (_ & _ & _ & D & _). rewrite D. exact H.
  - unfold do_value.
    assert (Hn : allow_split (fst (validate_name c w name)) = allow_split w).
    { unfold validate_name. destruct (skip_names c); [reflexivity|].
      destruct (bytes_eqb name []); [reflexivity|]. destruct (bytes_eqb name (bs "_aws")); reflexivity. }
    destruct (validate_name c w name) as [w1 ok]. cbn [fst] in Hn. destruct ok; cbn [negb]; [|rewrite Hn; exact H].
    rewrite <- Hn in H. destruct v as [| s | msgs | os u dims fl].
    + exact H.
    + unfold do_string. destruct (skip_unique c); [exact H|].
      match goal with |- context [validate_string ?ww ?nn] => pose proof (validate_string_frame ww nn) as F end.
      cbv zeta in F. destruct F as (_ & _ & _ & D & _). rewrite D. exact H.
    + clear Hn. revert w1 H. induction msgs as [|m ms IH]; intros w1 H; cbn; [exact H|]. apply IH. exact H.
    + unfold do_metric.
      set (w2 := if negb _ && negb (allow_split w1) then _ else w1).
      assert (H2 : allow_split w2 = allow_split w1) by (unfold w2; destruct (negb _ && negb _); reflexivity).
      assert (U2 : unroutable w2 = unroutable w1) by (unfold w2; destruct (negb _ && negb _); reflexivity).
      destruct (allow_ignored c || _).
      * destruct (write_metric ftab mult name os u fl _ _) as [fb mb].
        destruct (negb (skip_unique c) && negb (unroutable w2)); cbn [set_state allow_split].
        -- pose proof (validate_metric_frame w2 name 0) as F. cbv zeta in F. destruct F as (_ & _ & _ & D & _). rewrite D, H2. exact H.
        -- rewrite H2. exact H.
      * match goal with |- context [write_metric ?a ?b ?cc ?d ?e ?f ?g ?h] => destruct (write_metric a b cc d e f g h) as [fb mb] end.
        destruct (negb (skip_unique c) && negb (unroutable w2)); cbn [set_state allow_split].
        -- match goal with |- context [validate_metric w2 name ?i] => pose proof (validate_metric_frame w2 name i) as F end.
           cbv zeta in F. destruct F as (_ & _ & _ & D & _). rewrite D, H2. exact H.
        -- rewrite H2. exact H.
Qed.

Lemma allow_split_frame_fold c ftab mult e : forall w,
  allow_split w = false -> has_split e = false -> allow_split (fold_left (do_item c ftab mult) e w) = false.
Proof.
  induction e as [|i e IH]; intros w H Hs; cbn [fold_left]; [exact H|].
  apply IH.
  - apply allow_split_frame_item; [exact H|]. destruct i as [| [| | |] |]; cbn in Hs; try exact I. discriminate.
  - destruct i as [| [| | |] |]; cbn in Hs; try exact Hs. discriminate.
Qed.

Lemma validate_name_false c w name w' : validate_name c w name = (w', false) -> errors w' <> [].
Proof.
  unfold validate_name. destruct (skip_names c); [discriminate|].
  destruct (bytes_eqb name []); [intros H; inversion H; apply add_error_ne|].
  destruct (bytes_eqb name (bs "_aws")); [intros H; inversion H; apply add_error_ne | discriminate].
Qed.
Lemma validate_name_true c w name w' : validate_name c w name = (w', true) -> w' = w.
Proof.
  unfold validate_name. destruct (skip_names c); [intros H; inversion H; reflexivity|].
  destruct (bytes_eqb name []); [discriminate|].
  destruct (bytes_eqb name (bs "_aws")); [discriminate | intros H; inversion H; reflexivity].
Qed.

Lemma dims_without_split_rejected c s mult e1 name os u d0 dims fl e2 now ftab script :
  allow_ignored c = false -> has_split e1 = false ->
  rejected c s mult (e1 ++ IValue name (VMetric os u (d0 :: dims) fl) :: e2) now ftab script.
Proof.
  intros Hai Hsp.
  replace (e1 ++ IValue name (VMetric os u (d0 :: dims) fl) :: e2)
    with ((e1 ++ [IValue name (VMetric os u (d0 :: dims) fl)]) ++ e2) by (rewrite <- app_assoc; reflexivity).
  apply reject_after_prefix. rewrite fold_left_app. cbn [fold_left do_item].
  set (w1 := fold_left _ e1 _).
  assert (Hal : allow_split w1 = false) by (apply allow_split_frame_fold; [reflexivity | exact Hsp]).
  unfold do_value.
  destruct (validate_name c w1 name) as [w1' ok] eqn:Hv. destruct ok; cbn [negb].
  - apply validate_name_true in Hv. subst w1'.
    eapply grows_not_nil.
    + unfold do_metric. rewrite Hai. cbn [orb negb andb]. rewrite Hal. cbn [negb andb].
      match goal with |- context [write_metric ?a ?b ?cc ?d ?e ?f ?g ?h] => destruct (write_metric a b cc d e f g h) as [fb mb] end.
      destruct (negb (skip_unique c) && negb _).
      * eapply grows_trans; [apply grows_validate_metric|]. apply grows_same_errors. reflexivity.
      * apply grows_same_errors. reflexivity.
    + apply add_error_ne.
  - exact (validate_name_false _ _ _ _ Hv).
Qed.

(* ------------------------------------------------------------ the unroutable flag (only the in-band error report sets it) *)
Fixpoint has_unroutable (e : entry) : bool :=
  match e with [] => false | IConfig CUnroutable :: _ => true | _ :: r => has_unroutable r end.

Lemma unroutable_frame_item c ftab mult w i :
  unroutable w = false -> (match i with IConfig CUnroutable => False | _ => True end) ->
  unroutable (do_item c ftab mult w i) = false.
Proof.
  intros H Hi. destruct i as [t | ci | name v]; cbn [do_item].
  - destruct (w_timestamp w); cbn; exact H.
  - unfold do_config. destruct ci as [| | d |]; try exact H; try contradiction.
    destruct (negb _); [exact H|]. destruct (match entry_dims w with Some _ => true | None => false end); [exact H|].
    destruct d; [exact H|]. destruct (negb (skip_unique c) || negb (skip_dims c)); cbn -[fold_left concat flat_map]; [|exact H].
    pose proof (fold_check_frame c (concat (l :: d)) w) as F. cbv zeta in F. destruct F as (_ & _ & _ & _ & E). rewrite E. exact H.
  - unfold do_value.
    assert (Hn : unroutable (fst (validate_name c w name)) = unroutable w).
    { unfold validate_name. destruct (skip_names c); [reflexivity|].
      destruct (bytes_eqb name []); [reflexivity|]. destruct (bytes_eqb name (bs "_aws")); reflexivity. }
    destruct (validate_name c w name) as [w1 ok]. cbn [fst] in Hn. destruct ok; cbn [negb]; [|rewrite Hn; exact H].
    rewrite <- Hn in H. destruct v as [| s | msgs | os u dims fl].
    + exact H.
    + unfold do_string. destruct (skip_unique c); [exact H|].
      match goal with |- context [validate_string ?ww ?nn] => pose proof (validate_string_frame ww nn) as F end.
      cbv zeta in F. destruct F as (_ & _ & _ & _ & E). rewrite E. exact H.
    + clear Hn. revert w1 H. induction msgs as [|m ms IH]; intros w1 H; cbn; [exact H|]. apply IH. exact H.
    + unfold do_metric.
      set (w2 := if negb _ && negb (allow_split w1) then _ else w1).
      assert (U2 : unroutable w2 = unroutable w1) by (unfold w2; destruct (negb _ && negb _); reflexivity).
      destruct (allow_ignored c || _).
      * destruct (write_metric ftab mult name os u fl _ _) as [fb mb].
        destruct (negb (skip_unique c) && negb (unroutable w2)); cbn [set_state unroutable].
        -- pose proof (validate_metric_frame w2 name 0) as F. cbv zeta in F. destruct F as (_ & _ & _ & _ & E). rewrite E, U2. exact H.
        -- rewrite U2. exact H.
      * match goal with |- context [write_metric ?a ?b ?cc ?d ?e ?f ?g ?h] => destruct (write_metric a b cc d e f g h) as [fb mb] end.
        destruct (negb (skip_unique c) && negb (unroutable w2)); cbn [set_state unroutable].
        -- match goal with |- context [validate_metric w2 name ?i] => pose proof (validate_metric_frame w2 name i) as F end.
           cbv zeta in F. destruct F as (_ & _ & _ & _ & E). rewrite E, U2. exact H.
        -- rewrite U2. exact H.
Qed.

Lemma unroutable_frame_fold c ftab mult e : forall w,
  unroutable w = false -> has_unroutable e = false -> unroutable (fold_left (do_item c ftab mult) e w) = false.
Proof.
  induction e as [|i e IH]; intros w H Hs; cbn [fold_left]; [exact H|].
  apply IH.
  - apply unroutable_frame_item; [exact H|]. destruct i as [| [| | |] |]; cbn in Hs; try exact I. discriminate.
  - destruct i as [| [| | |] |]; cbn in Hs; try exact Hs. discriminate.
Qed.

Lemma has_unroutable_app a b : has_unroutable (a ++ b) = has_unroutable a || has_unroutable b.
Proof. induction a as [|[| [| | |] |] a IH]; cbn; auto. Qed.

(* ------------------------------------------------------------ two values under one name *)
From MV Require Import Emf.VMap.

Definition errs (w : writer) : Prop := errors w <> [].

(* the effect of writing a string value [n] with the uniqueness check on *)
Lemma after_string c ftab mult w n a :
  skip_unique c = false ->
  errs (do_item c ftab mult w (IValue n (VString a))) \/
  vm_get (vmap (do_item c ftab mult w (IValue n (VString a)))) n = Some KString.
Proof.
  intros Hu. cbn [do_item]. unfold do_value.
  destruct (validate_name c w n) as [w1 ok] eqn:Hv. destruct ok; cbn [negb].
  - apply validate_name_true in Hv. subst w1. unfold do_string. rewrite Hu.
    set (w' := set_state w _). unfold validate_string.
    change (vmap w') with (vmap w).
    destruct (vm_get (vmap w) n) as [[| idx |]|] eqn:Hk.
    + left. apply add_error_ne.
    + left. apply add_error_ne.
    + right. cbn [vmap set_vmap]. apply vm_get_set_same.
    + right. cbn [vmap set_vmap]. apply vm_get_set_same.
  - left. exact (validate_name_false _ _ _ _ Hv).
Qed.

Lemma string_again c ftab mult w n b :
  skip_unique c = false -> vm_get (vmap w) n = Some KString ->
  errs (do_item c ftab mult w (IValue n (VString b))).
Proof.
  intros Hu Hk. cbn [do_item]. unfold do_value.
  destruct (validate_name c w n) as [w1 ok] eqn:Hv. destruct ok; cbn [negb].
  - apply validate_name_true in Hv. subst w1. unfold do_string. rewrite Hu.
    set (w' := set_state w _). unfold validate_string. change (vmap w') with (vmap w). rewrite Hk.
    apply add_error_ne.
  - exact (validate_name_false _ _ _ _ Hv).
Qed.

Lemma metric_on_string c ftab mult w n os u dims fl :
  skip_unique c = false -> unroutable w = false -> vm_get (vmap w) n = Some KString ->
  errs (do_item c ftab mult w (IValue n (VMetric os u dims fl))).
Proof.
  intros Hu Hr Hk. cbn [do_item]. unfold do_value.
  destruct (validate_name c w n) as [w1 ok] eqn:Hv. destruct ok; cbn [negb].
  - apply validate_name_true in Hv. subst w1. unfold do_metric.
    set (w2 := if negb _ && negb (allow_split w) then _ else w).
    assert (V2 : vmap w2 = vmap w) by (unfold w2; destruct (negb _ && negb _); reflexivity).
    assert (U2 : unroutable w2 = false) by (unfold w2; destruct (negb _ && negb _); exact Hr).
    assert (G2 : grows w w2) by (unfold w2; destruct (negb _ && negb _); [apply grows_add_error | apply grows_refl]).
    rewrite Hu, U2. cbn [negb andb].
    assert (Hvm : forall idx, errs (validate_metric w2 n idx)).
    { intros idx. unfold validate_metric. rewrite V2, Hk. apply add_error_ne. }
    destruct (allow_ignored c || _).
    + destruct (write_metric ftab mult n os u fl _ _) as [fb mb]. apply (Hvm 0).
    + match goal with |- context [write_metric ?a ?b ?cc ?d ?e ?f ?g ?h] => destruct (write_metric a b cc d e f g h) as [fb mb] end.
      apply Hvm.
  - exact (validate_name_false _ _ _ _ Hv).
Qed.

(* state of a fold, split at an item *)
Lemma split3 {T} (a : list T) x b : a ++ x :: b = (a ++ [x]) ++ b.
Proof. rewrite <- app_assoc. reflexivity. Qed.

Lemma split5 {T} (a : list T) x b y c0 : a ++ x :: b ++ y :: c0 = (a ++ x :: b ++ [y]) ++ c0.
Proof. rewrite <- app_assoc. cbn [app]. rewrite <- app_assoc. reflexivity. Qed.
Lemma split5' {T} (a : list T) x b y c0 : a ++ x :: b ++ y :: c0 = ((a ++ x :: b) ++ [y]) ++ c0.
Proof. rewrite <- !app_assoc. reflexivity. Qed.

Lemma errs_fold c ftab mult e w : errs w -> errs (fold_left (do_item c ftab mult) e w).
Proof. intros H. exact (grows_not_nil _ _ (grows_fold_items c ftab mult e w) H). Qed.

Lemma dup_string_string_rejected c s mult e1 n a e2 b e3 now ftab script :
  skip_unique c = false ->
  rejected c s mult (e1 ++ IValue n (VString a) :: e2 ++ IValue n (VString b) :: e3) now ftab script.
Proof.
  intros Hu.
  rewrite split5.
  apply reject_after_prefix.
  rewrite fold_left_app. cbn [fold_left]. rewrite fold_left_app. cbn [fold_left].
  set (w1 := fold_left _ e1 _).
  destruct (after_string c ftab mult w1 n a Hu) as [He | Hk].
  - apply (grows_not_nil _ _ (grows_do_item _ _ _ _ _)). apply errs_fold. exact He.
  - set (w2 := fold_left _ e2 _).
    apply string_again; [exact Hu|].
    pose proof (ksteps_fold_items c ftab mult e2 n (do_item c ftab mult w1 (IValue n (VString a)))) as K.
    rewrite Hk in K. apply ksteps_from_string in K. exact K.
Qed.

Lemma dup_string_metric_rejected c s mult e1 n a e2 os u dims fl e3 now ftab script :
  skip_unique c = false -> has_unroutable (e1 ++ IValue n (VString a) :: e2) = false ->
  rejected c s mult (e1 ++ IValue n (VString a) :: e2 ++ IValue n (VMetric os u dims fl) :: e3) now ftab script.
Proof.
  intros Hu Hun.
  rewrite split5'.
  apply reject_after_prefix.
  rewrite fold_left_app. cbn [fold_left].
  set (w2 := fold_left _ (e1 ++ IValue n (VString a) :: e2) _).
  assert (Hr : unroutable w2 = false) by (apply unroutable_frame_fold; [reflexivity | exact Hun]).
  unfold w2 in *. rewrite fold_left_app in *. cbn [fold_left] in *.
  set (w1 := fold_left _ e1 _) in *.
  destruct (after_string c ftab mult w1 n a Hu) as [He | Hk].
  - apply (grows_not_nil _ _ (grows_do_item _ _ _ _ _)). apply errs_fold. exact He.
  - apply metric_on_string; [exact Hu | exact Hr |].
    pose proof (ksteps_fold_items c ftab mult e2 n (do_item c ftab mult w1 (IValue n (VString a)))) as K.
    rewrite Hk in K. apply ksteps_from_string in K. exact K.
Qed.

(* a global metric [n] (no per-metric dimensions) written first *)
Lemma after_global_metric c ftab mult w n os u fl :
  skip_unique c = false -> unroutable w = false ->
  errs (do_item c ftab mult w (IValue n (VMetric os u [] fl))) \/
  exists j, vm_get (vmap (do_item c ftab mult w (IValue n (VMetric os u [] fl)))) n = Some (KMetric j) /\ In 0 j.
Proof.
  intros Hu Hr. cbn [do_item]. unfold do_value.
  destruct (validate_name c w n) as [w1 ok] eqn:Hv. destruct ok; cbn [negb].
  - apply validate_name_true in Hv. subst w1. unfold do_metric.
    rewrite Bool.orb_true_r. cbn [negb andb]. rewrite Hu, Hr. cbn [negb andb].
    destruct (write_metric ftab mult n os u fl _ _) as [fb mb]. cbn [set_state vmap errors].
    change (errors (set_state (validate_metric w n 0) _)) with (errors (validate_metric w n 0)).
    unfold errs. cbn [set_state errors vmap].
    unfold validate_metric. destruct (vm_get (vmap w) n) as [[| idx |]|] eqn:Hk.
    + left. apply add_error_ne.
    + destruct (existsb (Nat.eqb 0) idx) eqn:Hex.
      * left. apply add_error_ne.
      * right. exists (0 :: idx). cbn [vmap set_vmap]. rewrite vm_get_set_same. split; [reflexivity | left; reflexivity].
    + left. apply add_error_ne.
    + cbn [existsb]. right. exists [0]. cbn [vmap set_vmap]. rewrite vm_get_set_same. split; [reflexivity | left; reflexivity].
  - left. exact (validate_name_false _ _ _ _ Hv).
Qed.

Lemma string_on_metric c ftab mult w n j b :
  skip_unique c = false -> vm_get (vmap w) n = Some (KMetric j) ->
  errs (do_item c ftab mult w (IValue n (VString b))).
Proof.
  intros Hu Hk. cbn [do_item]. unfold do_value.
  destruct (validate_name c w n) as [w1 ok] eqn:Hv. destruct ok; cbn [negb].
  - apply validate_name_true in Hv. subst w1. unfold do_string. rewrite Hu.
    set (w' := set_state w _). unfold validate_string. change (vmap w') with (vmap w). rewrite Hk.
    apply add_error_ne.
  - exact (validate_name_false _ _ _ _ Hv).
Qed.

Lemma global_metric_again c ftab mult w n j os u fl :
  skip_unique c = false -> unroutable w = false -> vm_get (vmap w) n = Some (KMetric j) -> In 0 j ->
  errs (do_item c ftab mult w (IValue n (VMetric os u [] fl))).
Proof.
  intros Hu Hr Hk Hin. cbn [do_item]. unfold do_value.
  destruct (validate_name c w n) as [w1 ok] eqn:Hv. destruct ok; cbn [negb].
  - apply validate_name_true in Hv. subst w1. unfold do_metric.
    rewrite Bool.orb_true_r. cbn [negb andb]. rewrite Hu, Hr. cbn [negb andb].
    destruct (write_metric ftab mult n os u fl _ _) as [fb mb].
    unfold errs. cbn [set_state errors]. unfold validate_metric. rewrite Hk.
    assert (Hex : existsb (Nat.eqb 0) j = true) by (apply existsb_exists; exists 0; split; [exact Hin | reflexivity]).
    rewrite Hex. apply add_error_ne.
  - exact (validate_name_false _ _ _ _ Hv).
Qed.

Lemma dup_metric_string_rejected c s mult e1 n os u fl e2 b e3 now ftab script :
  skip_unique c = false -> has_unroutable e1 = false ->
  rejected c s mult (e1 ++ IValue n (VMetric os u [] fl) :: e2 ++ IValue n (VString b) :: e3) now ftab script.
Proof.
  intros Hu Hun. rewrite split5. apply reject_after_prefix.
  rewrite fold_left_app. cbn [fold_left]. rewrite fold_left_app. cbn [fold_left].
  set (w1 := fold_left _ e1 _).
  assert (Hr : unroutable w1 = false) by (apply unroutable_frame_fold; [reflexivity | exact Hun]).
  destruct (after_global_metric c ftab mult w1 n os u fl Hu Hr) as [He | [j [Hk Hin]]].
  - apply (grows_not_nil _ _ (grows_do_item _ _ _ _ _)). apply errs_fold. exact He.
  - pose proof (ksteps_fold_items c ftab mult e2 n (do_item c ftab mult w1 (IValue n (VMetric os u [] fl)))) as K.
    rewrite Hk in K. apply ksteps_from_metric in K. destruct K as [j' [Hk' _]].
    eapply string_on_metric; [exact Hu | exact Hk'].
Qed.

Lemma dup_metric_metric_rejected c s mult e1 n os u fl e2 os' u' fl' e3 now ftab script :
  skip_unique c = false -> has_unroutable (e1 ++ IValue n (VMetric os u [] fl) :: e2) = false ->
  rejected c s mult (e1 ++ IValue n (VMetric os u [] fl) :: e2 ++ IValue n (VMetric os' u' [] fl') :: e3) now ftab script.
Proof.
  intros Hu Hun. rewrite split5'. apply reject_after_prefix.
  rewrite fold_left_app. cbn [fold_left].
  set (w2 := fold_left _ (e1 ++ IValue n (VMetric os u [] fl) :: e2) _).
  assert (Hr2 : unroutable w2 = false) by (apply unroutable_frame_fold; [reflexivity | exact Hun]).
  unfold w2 in *. rewrite fold_left_app in *. cbn [fold_left] in *.
  set (w1 := fold_left _ e1 _) in *.
  assert (Hr1 : unroutable w1 = false).
  { apply unroutable_frame_fold; [reflexivity|]. rewrite has_unroutable_app in Hun. apply orb_false_elim in Hun. tauto. }
  destruct (after_global_metric c ftab mult w1 n os u fl Hu Hr1) as [He | [j [Hk Hin]]].
  - apply (grows_not_nil _ _ (grows_do_item _ _ _ _ _)). apply errs_fold. exact He.
  - pose proof (ksteps_fold_items c ftab mult e2 n (do_item c ftab mult w1 (IValue n (VMetric os u [] fl)))) as K.
    rewrite Hk in K. apply ksteps_from_metric in K. destruct K as [j' [Hk' Hincl]].
    eapply global_metric_again; [exact Hu | exact Hr2 | exact Hk' | apply Hincl; exact Hin].
Qed.

(* ------------------------------------------------------------ declared dimensions *)
Lemma vmap_base_unfound c d : In d (concat (default_dims c)) -> vm_get (vmap_base c) d = Some KUnfound.
Proof.
  unfold vmap_base. generalize (concat (default_dims c)) as l.
  assert (G : forall l m, (vm_get m d = Some KUnfound \/ In d l) ->
             (forall q, vm_get m q = None \/ vm_get m q = Some KUnfound) ->
             vm_get (fold_left (fun m d0 => match vm_get m d0 with Some _ => m | None => vm_set m d0 KUnfound end) l m) d = Some KUnfound).
  { induction l as [|x l IH]; intros m H Hall; cbn [fold_left].
    - destruct H as [H | []]. exact H.
    - apply IH.
      + destruct H as [H | [-> | H]].
        * left. destruct (vm_get m x) eqn:Ex; [exact H|]. rewrite vm_get_set.
          destruct (bytes_eqb x d); [reflexivity | exact H].
        * left. destruct (vm_get m d) eqn:Ed.
          -- destruct (Hall d) as [Hn | Hn]; congruence.
          -- apply vm_get_set_same.
        * right. exact H.
      + intros q. destruct (vm_get m x); [apply Hall|]. rewrite vm_get_set.
        destruct (bytes_eqb x q); [right; reflexivity | apply Hall]. }
  intros l Hin. apply G; [right; exact Hin | intros q; left; reflexivity].
Qed.

Lemma metric_on_dimension c ftab mult w n os u dims fl :
  skip_unique c = false -> unroutable w = false ->
  (vm_get (vmap w) n = Some KUnfound \/ vm_get (vmap w) n = Some KString) ->
  errs (do_item c ftab mult w (IValue n (VMetric os u dims fl))).
Proof.
  intros Hu Hr [Hk | Hk]; [|apply metric_on_string; assumption].
  cbn [do_item]. unfold do_value.
  destruct (validate_name c w n) as [w1 ok] eqn:Hv. destruct ok; cbn [negb].
  - apply validate_name_true in Hv. subst w1. unfold do_metric.
    set (w2 := if negb _ && negb (allow_split w) then _ else w).
    assert (V2 : vmap w2 = vmap w) by (unfold w2; destruct (negb _ && negb _); reflexivity).
    assert (U2 : unroutable w2 = false) by (unfold w2; destruct (negb _ && negb _); exact Hr).
    rewrite Hu, U2. cbn [negb andb].
    assert (Hvm : forall idx, errs (validate_metric w2 n idx)).
    { intros idx. unfold validate_metric. rewrite V2, Hk. apply add_error_ne. }
    destruct (allow_ignored c || _).
    + destruct (write_metric ftab mult n os u fl _ _) as [fb mb]. apply (Hvm 0).
    + match goal with |- context [write_metric ?a ?b ?cc ?d ?e ?f ?g ?h] => destruct (write_metric a b cc d e f g h) as [fb mb] end.
      apply Hvm.
  - exact (validate_name_false _ _ _ _ Hv).
Qed.

Lemma metric_under_dimension_rejected c s mult e1 d os u dims fl e2 now ftab script :
  skip_unique c = false -> skip_dims c = false -> In d (concat (default_dims c)) -> has_unroutable e1 = false ->
  rejected c s mult (e1 ++ IValue d (VMetric os u dims fl) :: e2) now ftab script.
Proof.
  intros Hu Hd Hin Hun. rewrite split3. apply reject_after_prefix.
  rewrite fold_left_app. cbn [fold_left].
  set (w1 := fold_left _ e1 _).
  assert (Hr : unroutable w1 = false) by (apply unroutable_frame_fold; [reflexivity | exact Hun]).
  apply metric_on_dimension; [exact Hu | exact Hr |].
  pose proof (ksteps_fold_items c ftab mult e1 d (init_writer c (st s))) as K.
  unfold init_writer in K at 1. cbn [vmap] in K. rewrite Hd in K. rewrite (vmap_base_unfound c d Hin) in K.
  apply ksteps_from_unfound in K. exact K.
Qed.

(* ------------------------------------------------------------ a declared dimension that is never written *)
Fixpoint writes_string (d : bytes) (e : entry) : bool :=
  match e with
  | [] => false
  | IValue n (VString _) :: r => bytes_eqb n d || writes_string d r
  | _ :: r => writes_string d r
  end.

Lemma unfound_validate_metric w name idx d :
  vm_get (vmap w) d = Some KUnfound -> vm_get (vmap (validate_metric w name idx)) d = Some KUnfound.
Proof.
  intros Hd. unfold validate_metric. destruct (vm_get (vmap w) name) as [[| idx' |]|] eqn:Hk; try exact Hd.
  - destruct (existsb _ _); [exact Hd|]. cbn [vmap set_vmap]. rewrite vm_get_set.
    destruct (bytes_eqb name d) eqn:E; [|exact Hd]. apply bytes_eqb_eq in E. subst. congruence.
  - cbn [existsb vmap set_vmap]. rewrite !vm_get_set.
    destruct (bytes_eqb name d) eqn:E; [|exact Hd]. apply bytes_eqb_eq in E. subst. congruence.
Qed.
Lemma unfound_validate_string w name d :
  bytes_eqb name d = false ->
  vm_get (vmap w) d = Some KUnfound -> vm_get (vmap (validate_string w name)) d = Some KUnfound.
Proof.
  intros Hne Hd. unfold validate_string. destruct (vm_get (vmap w) name) as [[| idx' |]|]; try exact Hd;
    cbn [vmap set_vmap]; rewrite vm_get_set, Hne; exact Hd.
Qed.
Lemma unfound_check_entry_dim c w x d :
  vm_get (vmap w) d = Some KUnfound -> vm_get (vmap (check_entry_dim c w x)) d = Some KUnfound.
Proof.
  intros Hd. unfold check_entry_dim. destruct (vm_get (vmap w) x) as [[| idx' |]|] eqn:Hk; try exact Hd.
  - destruct (skip_unique c); exact Hd.
  - cbn [vmap set_vmap]. rewrite vm_get_set. destruct (bytes_eqb x d); [reflexivity | exact Hd].
Qed.
Lemma unfound_fold_check c xs d : forall w,
  vm_get (vmap w) d = Some KUnfound -> vm_get (vmap (fold_left (check_entry_dim c) xs w)) d = Some KUnfound.
Proof. induction xs as [|x xs IH]; intros w H; cbn [fold_left]; [exact H|]. apply IH. apply unfound_check_entry_dim. exact H. Qed.

Lemma unfound_do_item c ftab mult w i d :
  vm_get (vmap w) d = Some KUnfound -> writes_string d [i] = false ->
  vm_get (vmap (do_item c ftab mult w i)) d = Some KUnfound.
Proof.
  intros Hd Hw. destruct i as [t | ci | name v]; cbn [do_item].
  - destruct (w_timestamp w); cbn; exact Hd.
  - unfold do_config. destruct ci as [| | x |]; try exact Hd.
    destruct (negb _); [exact Hd|].
    destruct (match entry_dims w with Some _ => true | None => false end); [exact Hd|].
    destruct x as [|x0 xr]; [exact Hd|].
    destruct (negb (skip_unique c) || negb (skip_dims c)); cbn [vmap]; [|exact Hd].
    apply unfound_fold_check. exact Hd.
  - unfold do_value. pose proof (vmap_validate_name c w name) as Hn.
    destruct (validate_name c w name) as [w1 ok]. cbn [fst] in Hn. rewrite <- Hn in Hd.
    destruct ok; cbn [negb]; [|exact Hd].
    destruct v as [| s0 | msgs | os u dims fl].
    + exact Hd.
    + cbn in Hw. rewrite Bool.orb_false_r in Hw.
      unfold do_string. destruct (skip_unique c); [exact Hd|].
      apply unfound_validate_string; [exact Hw | exact Hd].
    + rewrite vmap_fold_errors. exact Hd.
    + unfold do_metric.
      set (w2 := if negb _ && negb (allow_split w1) then _ else w1).
      assert (V2 : vmap w2 = vmap w1) by (unfold w2; destruct (negb _ && negb _); reflexivity).
      rewrite <- V2 in Hd.
      destruct (allow_ignored c || _).
      * destruct (write_metric ftab mult name os u fl _ _) as [fb mb].
        destruct (negb (skip_unique c) && negb (unroutable w2)); cbn [set_state vmap]; [|exact Hd].
        apply unfound_validate_metric. exact Hd.
      * match goal with |- context [write_metric ?a ?b ?cc ?dd ?e ?f ?g ?h] => destruct (write_metric a b cc dd e f g h) as [fb mb] end.
        destruct (negb (skip_unique c) && negb (unroutable w2)); cbn [set_state vmap]; [|exact Hd].
        apply unfound_validate_metric. exact Hd.
Qed.

Lemma writes_string_cons d i e : writes_string d (i :: e) = writes_string d [i] || writes_string d e.
Proof. destruct i as [| |n [| | |]]; cbn; rewrite ?Bool.orb_false_r; reflexivity. Qed.

Lemma unfound_fold c ftab mult e d : forall w,
  vm_get (vmap w) d = Some KUnfound -> writes_string d e = false ->
  vm_get (vmap (fold_left (do_item c ftab mult) e w)) d = Some KUnfound.
Proof.
  induction e as [|i e IH]; intros w H Hw; cbn [fold_left]; [exact H|].
  rewrite writes_string_cons in Hw. apply orb_false_elim in Hw as [H1 H2].
  apply IH; [|exact H2]. apply unfound_do_item; assumption.
Qed.

Lemma missing_in_vmap (m : list (bytes * kind)) d :
  vm_get m d = Some KUnfound ->
  flat_map (fun kv => match snd kv with KUnfound => [for_field (fst kv) (bs "missing dimension")] | _ => [] end) m <> [].
Proof.
  induction m as [|[k v] r IH]; cbn [vm_get flat_map]; [discriminate|].
  destruct (bytes_eqb k d).
  - intros H. inversion H; subst. cbn. discriminate.
  - intros H. specialize (IH H). cbn [fst snd]. destruct v; cbn [app]; try exact IH. discriminate.
Qed.

Lemma missing_dimension_rejected c s mult e d now ftab script :
  skip_dims c = false -> In d (concat (default_dims c)) ->
  writes_string d e = false -> has_unroutable e = false ->
  rejected c s mult e now ftab script.
Proof.
  intros Hd Hin Hw Hun. unfold rejected, format.
  set (w := fold_left _ e _).
  assert (Hk : vm_get (vmap w) d = Some KUnfound).
  { apply unfound_fold; [|exact Hw]. unfold init_writer. cbn [vmap]. rewrite Hd. apply vmap_base_unfound. exact Hin. }
  assert (Hr : unroutable w = false) by (apply unroutable_frame_fold; [reflexivity | exact Hun]).
  unfold finish. rewrite Hd, Hr. cbn [negb andb].
  pose proof (missing_in_vmap (vmap w) d Hk) as Hm. unfold missing_dim_errors.
  destruct (errors w ++ _) as [|x xs] eqn:He.
  - exfalso. apply app_eq_nil in He. destruct He as [_ He]. exact (Hm He).
  - eexists _, _. reflexivity.
Qed.

(* ------------------------------------------------------------ entry-dimension configuration: empty, repeated, late *)
Lemma entry_dims_empty_rejected c s mult e1 e2 now ftab script :
  rejected c s mult (e1 ++ IConfig (CEntryDims []) :: e2) now ftab script.
Proof.
  rewrite split3. apply reject_after_prefix. rewrite fold_left_app. cbn [fold_left do_item do_config].
  destruct (negb _); [apply add_error_ne|].
  destruct (match entry_dims _ with Some _ => true | None => false end); apply add_error_ne.
Qed.

Lemma entry_dims_some_persists c ftab mult w i :
  entry_dims w <> None -> entry_dims (do_item c ftab mult w i) <> None.
Proof.
  intros H. destruct i as [t | ci | name v]; cbn [do_item].
  - destruct (w_timestamp w); cbn; exact H.
  - unfold do_config. destruct ci as [| | d |]; try exact H.
    destruct (negb _); [exact H|]. destruct (entry_dims w) eqn:E; [cbn [add_error entry_dims]; rewrite E; discriminate | congruence].
  - unfold do_value.
    assert (Hn : entry_dims (fst (validate_name c w name)) = entry_dims w).
    { unfold validate_name. destruct (skip_names c); [reflexivity|].
      destruct (bytes_eqb name []); [reflexivity|]. destruct (bytes_eqb name (bs "_aws")); reflexivity. }
    destruct (validate_name c w name) as [w1 ok]. cbn [fst] in Hn. destruct ok; cbn [negb]; [|rewrite Hn; exact H].
    rewrite <- Hn in H. destruct v as [| s0 | msgs | os u dims fl].
    + exact H.
    + unfold do_string. destruct (skip_unique c); [exact H|].
      match goal with |- context [validate_string ?ww ?nn] => pose proof (validate_string_frame ww nn) as F end.
      cbv zeta in F. destruct F as (_ & B & _). rewrite B. exact H.
    + clear Hn. revert w1 H. induction msgs as [|m ms IH]; intros w1 H; cbn; [exact H|]. apply IH. exact H.
    + unfold do_metric.
      set (w2 := if negb _ && negb (allow_split w1) then _ else w1).
      assert (H2 : entry_dims w2 = entry_dims w1) by (unfold w2; destruct (negb _ && negb _); reflexivity).
      destruct (allow_ignored c || _).
      * destruct (write_metric ftab mult name os u fl _ _) as [fb mb].
        destruct (negb (skip_unique c) && negb (unroutable w2)); cbn [set_state entry_dims].
        -- pose proof (validate_metric_frame w2 name 0) as F. cbv zeta in F. destruct F as (_ & B & _). rewrite B, H2. exact H.
        -- rewrite H2. exact H.
      * match goal with |- context [write_metric ?a ?b ?cc ?d ?e ?f ?g ?h] => destruct (write_metric a b cc d e f g h) as [fb mb] end.
        destruct (negb (skip_unique c) && negb (unroutable w2)); cbn [set_state entry_dims].
        -- match goal with |- context [validate_metric w2 name ?i] => pose proof (validate_metric_frame w2 name i) as F end.
           cbv zeta in F. destruct F as (_ & B & _). rewrite B, H2. exact H.
        -- rewrite H2. exact H.
Qed.
Lemma entry_dims_some_fold c ftab mult e : forall w,
  entry_dims w <> None -> entry_dims (fold_left (do_item c ftab mult) e w) <> None.
Proof. induction e as [|i e IH]; intros w H; cbn [fold_left]; [exact H|]. apply IH. apply entry_dims_some_persists. exact H. Qed.

Lemma entry_dims_twice_rejected c s mult e1 d1 e2 d2 e3 now ftab script :
  rejected c s mult (e1 ++ IConfig (CEntryDims d1) :: e2 ++ IConfig (CEntryDims d2) :: e3) now ftab script.
Proof.
  rewrite split5. apply reject_after_prefix.
  rewrite fold_left_app. cbn [fold_left]. rewrite fold_left_app. cbn [fold_left].
  set (w1 := fold_left _ e1 _).
  set (w1' := do_item c ftab mult w1 (IConfig (CEntryDims d1))).
  assert (H1 : errs w1' \/ entry_dims w1' <> None).
  { unfold w1'. cbn [do_item do_config].
    destruct (negb _); [left; apply add_error_ne|].
    destruct (entry_dims w1) eqn:E; [left; apply add_error_ne|].
    destruct d1 as [|x xs]; [left; apply add_error_ne|].
    right. cbn [entry_dims]. discriminate. }
  destruct H1 as [He | Hs].
  - apply (grows_not_nil _ _ (grows_do_item _ _ _ _ _)). apply errs_fold. exact He.
  - set (w2 := fold_left _ e2 w1').
    assert (H2 : entry_dims w2 <> None) by (apply entry_dims_some_fold; exact Hs).
    cbn [do_item do_config]. destruct (negb _); [apply add_error_ne|].
    destruct (entry_dims w2); [apply add_error_ne | congruence].
Qed.

Lemma ds_update_nonempty m d : ds_update m d <> [].
Proof. destruct m as [|d' r]; cbn; [discriminate|]. destruct (key_eqb _ _); discriminate. Qed.

Lemma dsmap_nonempty_persists c ftab mult w i :
  dsmap (w_state w) <> [] -> dsmap (w_state (do_item c ftab mult w i)) <> [].
Proof.
  intros H. destruct i as [t | ci | name v]; cbn [do_item].
  - destruct (w_timestamp w); cbn; exact H.
  - unfold do_config. destruct ci as [| | d |]; try exact H.
    destruct (negb _); [exact H|]. destruct (match entry_dims w with Some _ => true | None => false end); [exact H|].
    destruct d; [exact H|]. destruct (negb (skip_unique c) || negb (skip_dims c)); cbn -[fold_left concat flat_map]; [|exact H].
    pose proof (fold_check_frame c (concat (l :: d)) w) as F. cbv zeta in F. destruct F as (A & _). rewrite A. exact H.
  - unfold do_value.
    assert (Hn : w_state (fst (validate_name c w name)) = w_state w).
    { unfold validate_name. destruct (skip_names c); [reflexivity|].
      destruct (bytes_eqb name []); [reflexivity|]. destruct (bytes_eqb name (bs "_aws")); reflexivity. }
    destruct (validate_name c w name) as [w1 ok]. cbn [fst] in Hn. destruct ok; cbn [negb]; [|rewrite Hn; exact H].
    rewrite <- Hn in H. destruct v as [| s0 | msgs | os u dims fl].
    + exact H.
    + unfold do_string. destruct (skip_unique c); [exact H|].
      match goal with |- context [validate_string ?ww ?nn] => pose proof (validate_string_frame ww nn) as F end.
      cbv zeta in F. destruct F as (A & _). rewrite A. exact H.
    + clear Hn. revert w1 H. induction msgs as [|m ms IH]; intros w1 H; cbn; [exact H|]. apply IH. exact H.
    + unfold do_metric.
      set (w2 := if negb _ && negb (allow_split w1) then _ else w1).
      assert (H2 : w_state w2 = w_state w1) by (unfold w2; destruct (negb _ && negb _); reflexivity).
      destruct (allow_ignored c || _).
      * rewrite H2. destruct (write_metric ftab mult name os u fl _ _) as [fb mb]. cbn [set_state w_state dsmap]. exact H.
      * match goal with |- context [write_metric ?a ?b ?cc ?d ?e ?f ?g ?h] => destruct (write_metric a b cc d e f g h) as [fb mb] end.
        cbn [set_state w_state dsmap]. apply ds_update_nonempty.
Qed.
Lemma dsmap_nonempty_fold c ftab mult e : forall w,
  dsmap (w_state w) <> [] -> dsmap (w_state (fold_left (do_item c ftab mult) e w)) <> [].
Proof. induction e as [|i e IH]; intros w H; cbn [fold_left]; [exact H|]. apply IH. apply dsmap_nonempty_persists. exact H. Qed.

Lemma entry_dims_late_rejected c s mult e1 name os u d0 dims fl e2 d e3 now ftab script :
  allow_ignored c = false ->
  rejected c s mult (e1 ++ IValue name (VMetric os u (d0 :: dims) fl) :: e2 ++ IConfig (CEntryDims d) :: e3) now ftab script.
Proof.
  intros Hai. rewrite split5. apply reject_after_prefix.
  rewrite fold_left_app. cbn [fold_left]. rewrite fold_left_app. cbn [fold_left].
  set (w1 := fold_left _ e1 _).
  set (w1' := do_item c ftab mult w1 (IValue name (VMetric os u (d0 :: dims) fl))).
  assert (H1 : errs w1' \/ dsmap (w_state w1') <> []).
  { unfold w1'. cbn [do_item]. unfold do_value.
    destruct (validate_name c w1 name) as [w1n ok] eqn:Hv. destruct ok; cbn [negb].
    - right. unfold do_metric. rewrite Hai. cbn [orb].
      match goal with |- context [write_metric ?a ?b ?cc ?dd ?e ?f ?g ?h] => destruct (write_metric a b cc dd e f g h) as [fb mb] end.
      cbn [set_state w_state dsmap]. apply ds_update_nonempty.
    - left. exact (validate_name_false _ _ _ _ Hv). }
  destruct H1 as [He | Hs].
  - apply (grows_not_nil _ _ (grows_do_item _ _ _ _ _)). apply errs_fold. exact He.
  - set (w2 := fold_left _ e2 w1').
    assert (H2 : dsmap (w_state w2) <> []) by (apply dsmap_nonempty_fold; exact Hs).
    cbn [do_item do_config]. destruct (dsmap (w_state w2)); [congruence|]. cbn [negb]. apply add_error_ne.
Qed.
