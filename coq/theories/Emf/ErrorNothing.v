(* A validation error is built before the first write: nothing reaches the writer. *)
From Coq Require Import List NArith ZArith Bool.
From MV Require Import Common.Sx Common.Bytes Emf.Model.
Import ListNotations.

Lemma finish_validation_no_bytes c now w dim cnt script s msgs out :
  finish c now w dim cnt script = (s, RValidation msgs, out) -> out = [] /\ msgs <> [].
Proof.
  unfold finish.
  destruct (errors w ++ (if negb (skip_dims c) && negb (unroutable w) then missing_dim_errors w else [])) as [|e es] eqn:He.
  - destruct (finish_dsets c _ _ (dsmap (w_state w)) script [] false) as [[[[ds' sc] rec] emitted] res].
    destruct res; try (intros H; inversion H; fail).
    destruct (negb emitted || negb (pb_is_empty (fields (w_state w)))).
    + destruct (write_all_vectored sc _ rec) as [[sc2 rec2] res2].
      destruct res2; intros H; inversion H.
    + intros H; inversion H.
  - intros H; inversion H; subst. split; [reflexivity | discriminate].
Qed.

Lemma format_validation_no_bytes c s mult e now ftab script s' msgs out :
  format c s mult e now ftab script = (s', RValidation msgs, out) -> out = [] /\ msgs <> [].
Proof. unfold format. apply finish_validation_no_bytes. Qed.

(* Conversely, whenever any error was recorded the call is rejected. *)
Lemma finish_errors_reject c now w dim cnt script :
  errors w <> [] -> exists msgs, finish c now w dim cnt script = (mk_fstate (w_state w) dim cnt, RValidation msgs, []).
Proof.
  intros Hne. unfold finish.
  destruct (errors w) as [|e es] eqn:He; [congruence|].
  cbn [app]. eexists. reflexivity.
Qed.
