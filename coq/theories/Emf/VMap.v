(* The validation map as a finite map: lookup/update laws and how one entry item may change a key's kind. *)
From Coq Require Import String.
From Coq Require Import List NArith ZArith Bool Lia.
From MV Require Import Common.Sx Common.Bytes Emf.Model Emf.Validate.
Import ListNotations.

Lemma bytes_eqb_eq a : forall b, bytes_eqb a b = true -> a = b.
Proof.
  induction a as [|x a IH]; intros [|y b] H; cbn [bytes_eqb] in H; try discriminate; [reflexivity|].
  apply andb_prop in H as [H1 H2]. apply N.eqb_eq in H1. subst. f_equal. apply IH. exact H2.
Qed.
Lemma bytes_eqb_refl' (a : bytes) : bytes_eqb a a = true.
Proof. induction a as [|x a IH]; cbn [bytes_eqb]; [reflexivity|]. rewrite N.eqb_refl, IH. reflexivity. Qed.
Lemma bytes_eqb_neq a b : a <> b -> bytes_eqb a b = false.
Proof. intros H. destruct (bytes_eqb a b) eqn:E; [|reflexivity]. apply bytes_eqb_eq in E. contradiction. Qed.

Lemma vm_get_set m k v q :
  vm_get (vm_set m k v) q = if bytes_eqb k q then Some v else vm_get m q.
Proof.
  induction m as [|[k' v'] r IH]; cbn [vm_set vm_get].
  - reflexivity.
  - destruct (bytes_eqb k' k) eqn:E1; cbn [vm_get].
    + apply bytes_eqb_eq in E1. subst k'. destruct (bytes_eqb k q); reflexivity.
    + rewrite IH. destruct (bytes_eqb k' q) eqn:E2; [|reflexivity].
      apply bytes_eqb_eq in E2. subst q. destruct (bytes_eqb k k') eqn:E3; [|reflexivity].
      apply bytes_eqb_eq in E3. subst. rewrite bytes_eqb_refl' in E1. discriminate.
Qed.

Lemma vm_get_set_same m k v : vm_get (vm_set m k v) k = Some v.
Proof. rewrite vm_get_set, bytes_eqb_refl'. reflexivity. Qed.
Lemma vm_get_set_other m k v q : k <> q -> vm_get (vm_set m k v) q = vm_get m q.
Proof. intros H. rewrite vm_get_set, (bytes_eqb_neq _ _ H). reflexivity. Qed.

(* how the kind recorded for one key may change in one step *)
Inductive kstep : option kind -> option kind -> Prop :=
| ks_same o : kstep o o
| ks_new k : kstep None (Some k)
| ks_found : kstep (Some KUnfound) (Some KString)
| ks_idx i x : kstep (Some (KMetric i)) (Some (KMetric (x :: i))).

Lemma kstep_trans a b c : kstep a b -> kstep b c ->
  (* composite steps stay within the closure below *)
  True.
Proof. trivial. Qed.

(* reflexive-transitive closure, as a predicate that is easy to use *)
Inductive ksteps : option kind -> option kind -> Prop :=
| kss_refl o : ksteps o o
| kss_step a b c : kstep a b -> ksteps b c -> ksteps a c.

Lemma ksteps_one a b : kstep a b -> ksteps a b.
Proof. intros H. eapply kss_step; [exact H | apply kss_refl]. Qed.
Lemma ksteps_trans a b c : ksteps a b -> ksteps b c -> ksteps a c.
Proof. induction 1; intros; [assumption|]. eapply kss_step; [eassumption|]. auto. Qed.

Lemma kstep_set_vmap w k v q :
  kstep (vm_get (vmap w) k) (Some v) ->
  ksteps (vm_get (vmap w) q) (vm_get (vmap (set_vmap w (vm_set (vmap w) k v))) q).
Proof.
  intros H. cbn [vmap set_vmap]. rewrite vm_get_set.
  destruct (bytes_eqb k q) eqn:E; [|apply kss_refl].
  apply bytes_eqb_eq in E. subst q. apply ksteps_one. exact H.
Qed.

Lemma ksteps_validate_metric w name idx q :
  ksteps (vm_get (vmap w) q) (vm_get (vmap (validate_metric w name idx)) q).
Proof.
  unfold validate_metric. destruct (vm_get (vmap w) name) as [k|] eqn:Hk.
  - destruct k as [| idx' |]; try apply kss_refl.
    destruct (existsb (Nat.eqb idx) idx'); [apply kss_refl|].
    apply kstep_set_vmap. rewrite Hk. constructor.
  - cbn [existsb]. eapply ksteps_trans.
    + apply (kstep_set_vmap w name (KMetric []) q). rewrite Hk. constructor.
    + apply kstep_set_vmap. cbn [vmap set_vmap]. rewrite vm_get_set_same. constructor.
Qed.

Lemma ksteps_validate_string w name q :
  ksteps (vm_get (vmap w) q) (vm_get (vmap (validate_string w name)) q).
Proof.
  unfold validate_string. destruct (vm_get (vmap w) name) as [[| idx |]|] eqn:Hk; try apply kss_refl.
  - apply kstep_set_vmap. rewrite Hk. constructor.
  - apply kstep_set_vmap. rewrite Hk. constructor.
Qed.

Lemma ksteps_check_entry_dim c w d q :
  ksteps (vm_get (vmap w) q) (vm_get (vmap (check_entry_dim c w d)) q).
Proof.
  unfold check_entry_dim. destruct (vm_get (vmap w) d) as [[| idx |]|] eqn:Hk; try apply kss_refl.
  - destruct (skip_unique c); apply kss_refl.
  - apply kstep_set_vmap. rewrite Hk. constructor.
Qed.
Lemma ksteps_fold_check c ds q : forall w,
  ksteps (vm_get (vmap w) q) (vm_get (vmap (fold_left (check_entry_dim c) ds w)) q).
Proof.
  induction ds as [|d ds IH]; intros w; cbn [fold_left]; [apply kss_refl|].
  eapply ksteps_trans; [apply ksteps_check_entry_dim | apply IH].
Qed.

Lemma vmap_validate_name c w name : vmap (fst (validate_name c w name)) = vmap w.
Proof.
  unfold validate_name. destruct (skip_names c); [reflexivity|].
  destruct (bytes_eqb name []); [reflexivity|]. destruct (bytes_eqb name (bs "_aws")); reflexivity.
Qed.
Lemma vmap_fold_errors (msgs : list bytes) name : forall w,
  vmap (fold_left (fun w m => add_error w (for_field name m)) msgs w) = vmap w.
Proof. induction msgs as [|m ms IH]; intros w; cbn; [reflexivity|]. rewrite IH. reflexivity. Qed.

Lemma ksteps_do_metric c ftab mult w name os u dims fl q :
  ksteps (vm_get (vmap w) q) (vm_get (vmap (do_metric c ftab mult w name os u dims fl)) q).
Proof.
  unfold do_metric.
  set (w1 := if negb _ && negb (allow_split w) then _ else w).
  assert (H1 : vmap w1 = vmap w) by (unfold w1; destruct (negb _ && negb _); reflexivity).
  rewrite <- H1.
  destruct (allow_ignored c || _).
  - destruct (write_metric ftab mult name os u fl _ _) as [fb mb].
    destruct (negb (skip_unique c) && negb (unroutable w1)); cbn [set_state vmap]; [|apply kss_refl].
    apply ksteps_validate_metric.
  - match goal with |- context [write_metric ?a ?b ?cc ?d ?e ?f ?g ?h] => destruct (write_metric a b cc d e f g h) as [fb mb] end.
    destruct (negb (skip_unique c) && negb (unroutable w1)); cbn [set_state vmap]; [|apply kss_refl].
    apply ksteps_validate_metric.
Qed.

Lemma ksteps_do_item c ftab mult w i q :
  ksteps (vm_get (vmap w) q) (vm_get (vmap (do_item c ftab mult w i)) q).
Proof.
  destruct i as [t | ci | name v]; cbn [do_item].
  - destruct (w_timestamp w); cbn; apply kss_refl.
  - unfold do_config. destruct ci as [| | d |]; try apply kss_refl.
    destruct (negb _); [apply kss_refl|].
    destruct (match entry_dims w with Some _ => true | None => false end); [apply kss_refl|].
    destruct d as [|d0 dr]; [apply kss_refl|].
    destruct (negb (skip_unique c) || negb (skip_dims c)); cbn [vmap]; [|apply kss_refl].
    apply ksteps_fold_check.
  - unfold do_value. pose proof (vmap_validate_name c w name) as Hn.
    destruct (validate_name c w name) as [w1 ok]. cbn [fst] in Hn. rewrite <- Hn.
    destruct ok; cbn [negb]; [|apply kss_refl].
    destruct v as [| s | msgs | os u dims fl].
    + apply kss_refl.
    + unfold do_string. destruct (skip_unique c); [apply kss_refl|].
      match goal with |- context [validate_string ?ww name] => apply (ksteps_validate_string ww name q) end.
    + rewrite vmap_fold_errors. apply kss_refl.
    + apply ksteps_do_metric.
Qed.

Lemma ksteps_fold_items c ftab mult e q : forall w,
  ksteps (vm_get (vmap w) q) (vm_get (vmap (fold_left (do_item c ftab mult) e w)) q).
Proof.
  induction e as [|i e IH]; intros w; cbn [fold_left]; [apply kss_refl|].
  eapply ksteps_trans; [apply ksteps_do_item | apply IH].
Qed.

(* consequences used by the completeness lemmas *)
Lemma ksteps_from_string o : ksteps (Some KString) o -> o = Some KString.
Proof.
  remember (Some KString) as a. intros H. induction H as [|a b c0 Hs Hss IH]; [reflexivity|].
  subst a. inversion Hs; subst; apply IH; reflexivity.
Qed.
Lemma ksteps_from_metric i o : ksteps (Some (KMetric i)) o -> exists j, o = Some (KMetric j) /\ incl i j.
Proof.
  remember (Some (KMetric i)) as a. intros H. revert i Heqa.
  induction H as [o|a b c0 Hs Hss IH]; intros i ->.
  - exists i. split; [reflexivity | apply incl_refl].
  - inversion Hs; subst.
    + apply IH. reflexivity.
    + destruct (IH (x :: i) eq_refl) as [j [Hj Hi]]. exists j. split; [exact Hj|].
      intros y Hy. apply Hi. right. exact Hy.
Qed.
Lemma ksteps_from_unfound o : ksteps (Some KUnfound) o -> o = Some KUnfound \/ o = Some KString.
Proof.
  remember (Some KUnfound) as a. intros H. induction H as [|a b c0 Hs Hss IH]; [left; reflexivity|].
  subst a. inversion Hs; subst.
  - apply IH. reflexivity.
  - right. apply ksteps_from_string. exact Hss.
Qed.
