(* Executable property predicates applied to the IMPLEMENTATION's bytes (the verified-syntax parser of Json.v). *)
(* DISPATCH 201 c02_pred *)
(* DISPATCH 801 c08_nodup_pred *)
From Coq Require Import String.
From Coq Require Import List ZArith NArith Bool.
From MV Require Import Common.Sx Common.Bytes Json.Json.
Import ListNotations.

Definition is_jstr (j : json) : bool := match j with JStr _ => true | _ => false end.
Definition metric_def_ok (j : json) : bool :=
  match j with JObj m => match obj_get m (bs "Name") with Some (JStr _) => true | _ => false end | _ => false end.
Definition directive_ok (j : json) : bool :=
  match j with
  | JObj m =>
    match obj_get m (bs "Namespace"), obj_get m (bs "Dimensions"), obj_get m (bs "Metrics") with
    | Some (JStr _), Some (JArr ds), Some (JArr ms) =>
        forallb (fun d => match d with JArr names => forallb is_jstr names | _ => false end) ds &&
        forallb metric_def_ok ms
    | _, _, _ => false
    end
  | _ => false
  end.
Definition aws_ok (j : json) : bool :=
  match j with
  | JObj a =>
    match obj_get a (bs "Timestamp"), obj_get a (bs "CloudWatchMetrics") with
    | Some (JNum t), Some (JArr ds) => is_int_text t && negb (match ds with [] => true | _ => false end) && forallb directive_ok ds
    | _, _ => false
    end
  | _ => false
  end.

(* one newline-terminated line is a syntactically valid JSON object whose (first) `_aws` member has the EMF shape *)
Definition line_ok (line : bytes) : bool :=
  match rev line with
  | 10%N :: body_rev =>
    negb (existsb (N.eqb 10) body_rev) &&
    match parse (rev body_rev) with
    | Some (JObj m) => match obj_get m (bs "_aws") with Some a => aws_ok a | None => false end
    | _ => false
    end
  | _ => false
  end.

Fixpoint split_lines (s cur : bytes) : list bytes :=
  match s with
  | [] => match cur with [] => [] | _ => [rev cur] end
  | c :: r => if N.eqb c 10 then rev (c :: cur) :: split_lines r [] else split_lines r (c :: cur)
  end.

(* implementation output per call: ((kind …) lines|bytes) *)
Definition out_lines (x : sx) : list bytes :=
  match x with
  | L ls => map sx_bytes ls
  | B b => split_lines b []
  | _ => []
  end.

Definition call_ok (r : sx) : bool :=
  let kind := sx_z (sx_nth (sx_nth r 0) 0) in
  let lines := out_lines (sx_nth r 1) in
  match kind with
  | 0%Z => negb (match lines with [] => true | _ => false end) && forallb line_ok lines
  | 1%Z => match lines with [] => true | _ => false end
  | 2%Z => true        (* an I/O error may leave a partial line; C16 decides those *)
  | _ => false         (* panic *)
  end.

(* input: (case impl) *)
Definition c02_pred (x : sx) : sx := of_bool (forallb call_ok (sx_list (sx_nth x 1))).

Definition line_nodup (line : bytes) : bool :=
  match parse line with
  | Some (JObj m) => negb (has_dup (map fst m))
  | _ => false
  end.
Definition call_nodup (r : sx) : bool :=
  match sx_z (sx_nth (sx_nth r 0) 0) with
  | 0%Z => forallb line_nodup (out_lines (sx_nth r 1))
  | _ => true
  end.
(* are validations promised to be on?  config head = (ctor b debug_assertions): all_validations always;
   builder() / builder().skip_all_validations(false) only with debug assertions *)
Definition validations_promised (cfg : sx) : bool :=
  let k := sx_nth cfg 0 in
  match sx_z (sx_nth k 0) with
  | 0%Z => true
  | 1%Z => sx_bool (sx_nth k 2)
  | 2%Z => negb (sx_bool (sx_nth k 1)) && sx_bool (sx_nth k 2)
  | _ => false
  end.
Definition c08_nodup_pred (x : sx) : sx :=
  if validations_promised (sx_nth (sx_nth x 0) 0)
  then of_bool (forallb call_nodup (sx_list (sx_nth x 1)))
  else of_bool true.
