(* EMF — the reference interpretation: which JSON documents an accepted entry denotes.
   No string buffers here: members and declarations are JSON values; the documents are printed at the end. *)
From Coq Require Import String.
From Coq Require Import List NArith ZArith Bool.
From MV Require Import Common.Sx Common.Bytes Common.F64 Json.Json Emf.Model.
Import ListNotations.

(* ---------------------------------------------------------------- values *)
(* one observation as (value literal, count literal); None when it is skipped (NaN) *)
Definition obs_json (ftab : list (N * bytes)) (mult : option N) (o : obs) : option (json * json) :=
  match write_observation ftab mult o with
  | Some (v, c) => Some (JNum v, JNum c)
  | None => None
  end.

Definition kept (ftab : list (N * bytes)) (mult : option N) (os : list obs) : list (json * json) :=
  flat_map (fun o => match obs_json ftab mult o with Some p => [p] | None => [] end) os.

(* the JSON value of a metric: a plain number, or aligned Values / Counts arrays; None when nothing usable *)
Definition metric_value (ftab : list (N * bytes)) (mult : option N) (os : list obs) : option json :=
  match os, mult with
  | [OUnsigned v], None => Some (JNum (render_dec v))
  | [OFloat b], None =>
      match clamp_to_finite b with Some f => Some (JNum (write_float ftab f)) | None => None end
  | _, _ =>
      match kept ftab mult os with
      | [] => None
      | ks => Some (JObj [(bs "Values", JArr (map fst ks)); (bs "Counts", JArr (map snd ks))])
      end
  end.

Definition metric_decl (name : bytes) (u : unit_) (fl : flag) : json :=
  JObj ((bs "Name", JStr name) ::
        (match u with UNone => [] | UName n => [(bs "Unit", JStr n)] end) ++
        (match fl with FHigh => [(bs "StorageResolution", JNum (bs "1"))] | _ => [] end)).

(* ---------------------------------------------------------------- abstract record state *)
Record aset := mk_aset {
  as_key : list (bytes * bytes);
  as_each : list (list bytes);        (* the base dimension sets in force when the record was opened *)
  as_members : list (bytes * json);
  as_decls : list json }.

Record astate := mk_astate {
  a_strings : list (bytes * json);
  a_members : list (bytes * json);
  a_decls : list json;
  a_sets : list aset;
  a_edims : option (list (list bytes));
  a_ts : option Z;
  a_split : bool }.

Definition a_init : astate := mk_astate [] [] [] [] None None false.

Fixpoint as_find (m : list aset) (key : list (bytes * bytes)) : option aset :=
  match m with [] => None | d :: r => if key_eqb (as_key d) key then Some d else as_find r key end.
Fixpoint as_update (m : list aset) (d : aset) : list aset :=
  match m with
  | [] => [d]
  | d' :: r => if key_eqb (as_key d') (as_key d) then d :: r else d' :: as_update r d
  end.

Definition add_metric (ftab : list (N * bytes)) (mult : option N) (name : bytes) (os : list obs) (u : unit_) (fl : flag)
           (members : list (bytes * json)) (decls : list json) : list (bytes * json) * list json :=
  match metric_value ftab mult os with
  | None => (members, decls)
  | Some v => (members ++ [(name, v)],
               match fl with FNoMetric => decls | _ => decls ++ [metric_decl name u fl] end)
  end.

Definition base_dims (c : config) (a : astate) : list (list bytes) :=
  match a_edims a with Some e => e | None => default_dims c end.

Definition astep (c : config) (ftab : list (N * bytes)) (mult : option N) (a : astate) (i : item) : astate :=
  match i with
  | ITimestamp t => mk_astate (a_strings a) (a_members a) (a_decls a) (a_sets a) (a_edims a) (Some t) (a_split a)
  | IConfig CSplit => mk_astate (a_strings a) (a_members a) (a_decls a) (a_sets a) (a_edims a) (a_ts a) true
  | IConfig (CEntryDims d) =>
      mk_astate (a_strings a) (a_members a) (a_decls a) (a_sets a)
                (Some (flat_map (fun base => map (fun e => base ++ e) d) (default_dims c))) (a_ts a) (a_split a)
  | IConfig _ => a
  | IValue name VNone => a
  | IValue name (VError _) => a
  | IValue name (VString s) =>
      mk_astate (a_strings a ++ [(name, JStr s)]) (a_members a) (a_decls a) (a_sets a) (a_edims a) (a_ts a) (a_split a)
  | IValue name (VMetric os u dims fl) =>
      if allow_ignored c || match dims with [] => true | _ => false end then
        let '(m, d) := add_metric ftab mult name os u fl (a_members a) (a_decls a) in
        mk_astate (a_strings a) m d (a_sets a) (a_edims a) (a_ts a) (a_split a)
      else
        let key := sort_dims dims in
        let s0 := match as_find (a_sets a) key with
                  | Some s => s
                  | None => mk_aset key (base_dims c a) [] []
                  end in
        let '(m, d) := add_metric ftab mult name os u fl (as_members s0) (as_decls s0) in
        mk_astate (a_strings a) (a_members a) (a_decls a)
                  (as_update (a_sets a) (mk_aset (as_key s0) (as_each s0) m d)) (a_edims a) (a_ts a) (a_split a)
  end.

Definition abuild (c : config) (ftab : list (N * bytes)) (mult : option N) (e : entry) : astate :=
  fold_left (astep c ftab mult) e a_init.

(* ---------------------------------------------------------------- documents *)
Definition dims_json (sets : list (list bytes)) : json := JArr (map (fun l => JArr (map JStr l)) sets).
Definition directive_doc (ns : bytes) (sets : list (list bytes)) (decls : list json) : json :=
  JObj [(bs "Namespace", JStr ns); (bs "Dimensions", dims_json sets); (bs "Metrics", JArr decls)].
Definition unit_doc (u : unit_) : json := match u with UNone => JStr (bs "None") | UName n => JStr n end.
Definition metric_def_doc (m : bytes * unit_ * option N) : json :=
  let '(name, u, sr) := m in
  JObj ([(bs "Name", JStr name); (bs "Unit", unit_doc u)] ++
        match sr with Some r => [(bs "StorageResolution", JNum (render_dec r))] | None => [] end).
Definition extra_directive_doc (d : directive) : json :=
  JObj [(bs "Dimensions", dims_json (d_dims d)); (bs "Metrics", JArr (map metric_def_doc (d_metrics d)));
        (bs "Namespace", JStr (d_namespace d))].

Definition aws_doc (c : config) (ts : N) (directives : list json) : json :=
  JObj ([(bs "CloudWatchMetrics", JArr directives)] ++
        (match log_group c with Some g => [(bs "LogGroupName", JStr g)] | None => [] end) ++
        [(bs "Timestamp", JNum (render_dec ts))]).

Definition set_doc (c : config) (ts : N) (strings : list (bytes * json)) (s : aset) : json :=
  let sets := map (fun base => base ++ map fst (as_key s)) (as_each s) in
  JObj ((bs "_aws", aws_doc c ts (map (fun ns => directive_doc ns sets (as_decls s)) (namespaces c))) ::
        map (fun kv => (fst kv, JStr (snd kv))) (as_key s) ++ as_members s ++ strings).

Definition global_doc (c : config) (ts : N) (a : astate) : json :=
  JObj ((bs "_aws", aws_doc c ts (map (fun ns => directive_doc ns (base_dims c a) (a_decls a)) (namespaces c) ++
                                   map extra_directive_doc (directives c))) ::
        a_members a ++ a_strings a).

Definition emf_docs (c : config) (mult : option N) (e : entry) (now_ms : N) (ftab : list (N * bytes)) : list json :=
  let a := abuild c ftab mult e in
  let ts := match a_ts a with Some t => millis t | None => now_ms end in
  let split := filter (fun s => negb (match as_members s with [] => true | _ => false end)) (a_sets a) in
  map (set_doc c ts (a_strings a)) split ++
  (if (match split with [] => true | _ => false end) || negb (match a_members a with [] => true | _ => false end)
   then [global_doc c ts a] else []).
