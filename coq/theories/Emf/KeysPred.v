(* C08: the class of entries excused by the known finding (dimension keys are never validated), decided in Coq, and the
   predicate that tolerates a record with two members of one name ONLY inside that class. *)
(* DISPATCH 802 c08_nodup_strict *)
From Coq Require Import String.
From Coq Require Import List NArith ZArith Bool.
From MV Require Import Common.Sx Common.Bytes Json.Json Emf.Model Emf.Spec Emf.Complete Emf.VMap Emf.Sound Emf.SoundRouting
                       Emf.Codec Emf.Pred.
Import ListNotations.

Definition mem_b (x : bytes) (l : list bytes) : bool := existsb (bytes_eqb x) l.
Fixpoint nodup_b (l : list bytes) : bool :=
  match l with [] => true | x :: r => negb (mem_b x r) && nodup_b r end.

Definition keys_okb (a : astate) : bool :=
  forallb (fun s => let ks := map fst (as_key s) in
                    nodup_b ks && negb (mem_b (bs "_aws") ks) &&
                    forallb (fun k => negb (mem_b k (names (as_members s))) && negb (mem_b k (names (a_strings a)))) ks)
          (a_sets a).

Lemma mem_b_in x l : mem_b x l = true <-> In x l.
Proof.
  unfold mem_b. rewrite existsb_exists. split.
  - intros (y & Hy & He). apply bytes_eqb_eq in He. subst y. exact Hy.
  - intros H. exists x. split; [exact H | apply bytes_eqb_refl'].
Qed.
Lemma mem_b_false x l : mem_b x l = false -> ~ In x l.
Proof. intros H Hin. apply mem_b_in in Hin. rewrite Hin in H. discriminate. Qed.
Lemma nodup_b_sound l : nodup_b l = true -> NoDup l.
Proof.
  induction l as [|x r IH]; cbn [nodup_b]; [constructor|]. intros H. apply andb_true_iff in H as [H1 H2].
  constructor; [apply mem_b_false; apply negb_true_iff; exact H1 | apply IH; exact H2].
Qed.

Lemma keys_okb_sound a : keys_okb a = true -> keys_ok a.
Proof.
  unfold keys_okb, keys_ok. rewrite forallb_forall. intros H. apply Forall_forall. intros s Hs.
  specialize (H s Hs). cbv zeta in H. apply andb_true_iff in H as [H H3]. apply andb_true_iff in H as [H1 H2].
  split; [apply nodup_b_sound; exact H1|]. split; [apply mem_b_false; apply negb_true_iff; exact H2|].
  intros k Hk. rewrite forallb_forall in H3. specialize (H3 k Hk). apply andb_true_iff in H3 as [A B].
  split; apply mem_b_false; apply negb_true_iff; assumption.
Qed.

(* the executable form of the soundness theorem: for a configuration that validates and an entry outside the excused
   class, an accepted call yields records without two members of one name *)
Theorem sound_with_routing_b c s mult e now ftab script s' out :
  skip_unique c = false -> skip_names c = false -> has_unroutable e = false ->
  keys_okb (abuild c ftab mult e) = true ->
  format c s mult e now ftab script = (s', ROk, out) ->
  Forall (fun d => NoDup (map fst (Content.members_of d))) (emf_docs c mult e now ftab).
Proof. intros Hu Hs Hun Hk Hf. eapply sound_with_routing; try eassumption. apply keys_okb_sound. exact Hk. Qed.

(* input: (case impl), case = (config (call…) sorted tag); the implementation's records of call i are checked when the
   configuration promises validations and the i-th entry is outside the excused class *)
Definition strict_call (c : config) (kr : call * sx) : bool :=
  let '(k, r) := kr in
  if keys_okb (abuild c (c_ftab k) (c_mult k) (c_entry k)) && negb (has_unroutable (c_entry k))
  then call_nodup r else true.

Definition c08_nodup_strict (x : sx) : sx :=
  let case := sx_nth x 0 in
  if validations_promised (sx_nth case 0)
  then of_bool (forallb (strict_call (dec_config (sx_nth case 0)))
                        (combine (map dec_call (sx_list (sx_nth case 1))) (sx_list (sx_nth x 1))))
  else of_bool true.
