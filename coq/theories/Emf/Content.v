(* C03 — what the documents of the reference interpretation contain, in terms of the entry. *)
From Coq Require Import String.
From Coq Require Import List NArith ZArith Bool Lia.
From MV Require Import Common.Sx Common.Bytes Common.F64 Json.Json Emf.Model Emf.Spec.
Import ListNotations.

Definition members_of (j : json) : list (bytes * json) := match j with JObj m => m | _ => [] end.

(* ---------------------------------------------------------------- strings *)
Definition strings_of (e : entry) : list (bytes * json) :=
  flat_map (fun i => match i with IValue n (VString s) => [(n, JStr s)] | _ => [] end) e.

Lemma astep_strings c ftab mult a i :
  a_strings (astep c ftab mult a i) = a_strings a ++ strings_of [i].
Proof.
  destruct i as [t | [| | d |] | name [| s | msgs | os u dims fl]]; cbn [astep strings_of flat_map app a_strings];
    rewrite ?app_nil_r; try reflexivity.
  destruct (allow_ignored c || _).
  - destruct (add_metric _ _ _ _ _ _ _ _); cbn [a_strings]; rewrite ?app_nil_r; reflexivity.
  - destruct (add_metric _ _ _ _ _ _ _ _); cbn [a_strings]; rewrite ?app_nil_r; reflexivity.
Qed.

Lemma fold_strings c ftab mult e : forall a,
  a_strings (fold_left (astep c ftab mult) e a) = a_strings a ++ strings_of e.
Proof.
  induction e as [|i r IH]; intros a; cbn [fold_left]; [cbn; rewrite app_nil_r; reflexivity|].
  rewrite IH, astep_strings. unfold strings_of. cbn [flat_map]. rewrite app_nil_r, <- app_assoc. reflexivity.
Qed.

Lemma abuild_strings c ftab mult e : a_strings (abuild c ftab mult e) = strings_of e.
Proof. unfold abuild. rewrite fold_strings. reflexivity. Qed.

(* every record ends with exactly the entry's string properties, in order, with their exact text *)
Lemma docs_strings c mult e now ftab d :
  In d (emf_docs c mult e now ftab) -> exists front, members_of d = front ++ strings_of e.
Proof.
  unfold emf_docs. rewrite abuild_strings. set (a := abuild c ftab mult e). intros Hin.
  apply in_app_or in Hin as [Hin | Hin].
  - apply in_map_iff in Hin as [s [<- _]]. unfold set_doc. cbn [members_of].
    eexists (_ :: _ ++ _). cbn [app]. rewrite <- app_assoc. reflexivity.
  - destruct (_ || _); [|contradiction]. destruct Hin as [<- | []]. unfold global_doc. cbn [members_of].
    rewrite <- (abuild_strings c ftab mult e). fold a. eexists (_ :: _). cbn [app]. reflexivity.
Qed.

Lemma string_in_every_record c mult e now ftab n s d :
  In (IValue n (VString s)) e -> In d (emf_docs c mult e now ftab) -> In (n, JStr s) (members_of d).
Proof.
  intros Hi Hd. destruct (docs_strings c mult e now ftab d Hd) as [front ->].
  apply in_or_app. right. unfold strings_of. apply in_flat_map. exists (IValue n (VString s)).
  split; [exact Hi | left; reflexivity].
Qed.

(* ---------------------------------------------------------------- timestamp *)
Fixpoint last_ts (e : entry) (acc : option Z) : option Z :=
  match e with [] => acc | ITimestamp t :: r => last_ts r (Some t) | _ :: r => last_ts r acc end.

Lemma fold_ts c ftab mult e : forall a, a_ts (fold_left (astep c ftab mult) e a) = last_ts e (a_ts a).
Proof.
  induction e as [|i r IH]; intros a; cbn [fold_left last_ts]; [reflexivity|]. rewrite IH.
  destruct i as [t | [| | d |] | name [| s | msgs | os u dims fl]]; cbn [astep a_ts]; try reflexivity.
  destruct (allow_ignored c || _); destruct (add_metric _ _ _ _ _ _ _ _); reflexivity.
Qed.

Lemma abuild_ts c ftab mult e : a_ts (abuild c ftab mult e) = last_ts e None.
Proof. unfold abuild. rewrite fold_ts. reflexivity. Qed.

Definition doc_ts (e : entry) (now : N) : N := match last_ts e None with Some t => millis t | None => now end.

(* every record's metadata block is the one for the entry's timestamp (whole epoch milliseconds, 0 before the
   epoch, the supplied clock when the entry has none), with one directive per configured namespace *)
Lemma docs_timestamp c mult e now ftab d :
  In d (emf_docs c mult e now ftab) ->
  exists sets decls extra members,
    d = JObj ((bs "_aws", aws_doc c (doc_ts e now)
                 (map (fun ns => directive_doc ns sets decls) (namespaces c) ++ extra)) :: members).
Proof.
  unfold emf_docs, doc_ts. rewrite abuild_ts.
  set (a := abuild c ftab mult e). intros Hin.
  apply in_app_or in Hin as [Hin | Hin].
  - apply in_map_iff in Hin as [s [<- _]]. unfold set_doc. eexists _, _, [], _. rewrite app_nil_r. reflexivity.
  - destruct (_ || _); [|contradiction]. destruct Hin as [<- | []]. unfold global_doc.
    eexists _, _, _, _. reflexivity.
Qed.

Lemma millis_spec t : millis t = if (t <? 0)%Z then 0%N else Z.to_N (t / 1000000).
Proof. reflexivity. Qed.

(* ---------------------------------------------------------------- metrics of entries without per-metric routing *)
Definition all_global (c : config) (e : entry) : Prop :=
  allow_ignored c = true \/ forall name os u dims fl, In (IValue name (VMetric os u dims fl)) e -> dims = [].

Definition gmembers ftab mult (e : entry) : list (bytes * json) :=
  flat_map (fun i => match i with
                     | IValue n (VMetric os _ _ _) => match metric_value ftab mult os with Some v => [(n, v)] | None => [] end
                     | _ => [] end) e.
Definition gdecls ftab mult (e : entry) : list json :=
  flat_map (fun i => match i with
                     | IValue n (VMetric os u _ fl) =>
                         match metric_value ftab mult os, fl with
                         | Some _, FNoMetric => []
                         | Some _, _ => [metric_decl n u fl]
                         | None, _ => []
                         end
                     | _ => [] end) e.

Lemma fold_global c ftab mult e : all_global c e -> forall a,
  a_sets a = [] ->
  let a' := fold_left (astep c ftab mult) e a in
  a_members a' = a_members a ++ gmembers ftab mult e /\ a_decls a' = a_decls a ++ gdecls ftab mult e /\ a_sets a' = [].
Proof.
  intros Hg. induction e as [|i r IH]; intros a Hs; cbn [fold_left].
  - cbn. rewrite !app_nil_r. auto.
  - assert (Hg' : all_global c r).
    { destruct Hg as [Hg | Hg]; [left; exact Hg | right; intros; eapply Hg; right; eassumption]. }
    assert (Hstep : a_members (astep c ftab mult a i) = a_members a ++ gmembers ftab mult [i] /\
                    a_decls (astep c ftab mult a i) = a_decls a ++ gdecls ftab mult [i] /\
                    a_sets (astep c ftab mult a i) = []).
    { destruct i as [t | [| | d |] | name [| s | msgs | os u dims fl]]; cbn [astep gmembers gdecls flat_map app a_members a_decls a_sets];
        rewrite ?app_nil_r; auto.
      assert (Hd : allow_ignored c || match dims with [] => true | _ => false end = true).
      { destruct Hg as [-> | Hg]; [reflexivity|]. rewrite (Hg name os u dims fl (or_introl eq_refl)). apply orb_true_r. }
      rewrite Hd. unfold add_metric. destruct (metric_value ftab mult os); cbn; rewrite ?app_nil_r; auto.
      destruct fl; cbn; rewrite ?app_nil_r; auto. }
    destruct Hstep as (S1 & S2 & S3).
    destruct (IH Hg' (astep c ftab mult a i) S3) as (I1 & I2 & I3). cbv zeta in *.
    rewrite I1, I2, I3, S1, S2. unfold gmembers, gdecls. cbn [flat_map]. rewrite !app_nil_r, <- !app_assoc. auto.
Qed.

Lemma abuild_global c ftab mult e : all_global c e ->
  a_members (abuild c ftab mult e) = gmembers ftab mult e /\
  a_decls (abuild c ftab mult e) = gdecls ftab mult e /\ a_sets (abuild c ftab mult e) = [].
Proof. intros Hg. exact (fold_global c ftab mult e Hg a_init eq_refl). Qed.

(* an entry without per-metric routing yields exactly one record: metadata, then one member per metric with a
   usable value (in order), then the string properties (in order) *)
Lemma global_only_docs c mult e now ftab : all_global c e ->
  exists a, emf_docs c mult e now ftab = [global_doc c (doc_ts e now) a] /\
            a_members a = gmembers ftab mult e /\ a_decls a = gdecls ftab mult e /\ a_strings a = strings_of e.
Proof.
  intros Hg. destruct (abuild_global c ftab mult e Hg) as (M & D & S).
  exists (abuild c ftab mult e). unfold emf_docs, doc_ts. rewrite abuild_ts.
  rewrite S. cbn [filter map app orb]. repeat split; auto. apply abuild_strings.
Qed.

(* ---------------------------------------------------------------- values, means, counts *)
Definition mult_or_1 (mult : option N) : N := match mult with Some m => m | None => 1%N end.

Lemma obs_unsigned ftab mult v :
  obs_json ftab mult (OUnsigned v) = Some (JNum (render_dec v), JNum (render_dec (mult_or_1 mult))).
Proof. reflexivity. Qed.

Lemma obs_float ftab mult b :
  obs_json ftab mult (OFloat b) =
  match clamp_to_finite b with
  | Some f => Some (JNum (write_float ftab f), JNum (render_dec (mult_or_1 mult)))
  | None => None
  end.
Proof. unfold obs_json, write_observation. destruct (clamp_to_finite b); reflexivity. Qed.

(* a repeated observation is reported as its mean (binary64 quotient, 0 for zero occurrences) with a count of
   occurrences x multiplicity, saturating at u64::MAX *)
Lemma obs_repeated ftab mult total occ :
  obs_json ftab mult (ORepeated total occ) =
  match clamp_to_finite (if (occ =? 0)%N then f64_zero_bits else f64_div_bits total occ) with
  | Some f => Some (JNum (write_float ftab f), JNum (render_dec (N.min (occ * mult_or_1 mult) u64_max)))
  | None => None
  end.
Proof. unfold obs_json, write_observation. destruct (clamp_to_finite _); reflexivity. Qed.

(* infinities are clamped to the largest finite double of the same sign; NaN is dropped; finite values are kept *)
Lemma clamp_pos_inf : clamp_to_finite 9218868437227405312%N = Some f64_max_bits.
Proof. vm_compute. reflexivity. Qed.
Lemma clamp_neg_inf : clamp_to_finite 18442240474082181120%N = Some f64_neg_max_bits.
Proof. vm_compute. reflexivity. Qed.
Lemma clamp_nan b : f64_is_nan b = true -> clamp_to_finite b = None.
Proof. unfold clamp_to_finite. intros ->. reflexivity. Qed.
Lemma clamp_finite b : f64_is_nan b = false -> f64_is_inf b = false -> clamp_to_finite b = Some b.
Proof. unfold clamp_to_finite. intros -> ->. reflexivity. Qed.

(* a metric with no usable observation appears nowhere: neither as a member nor as a declaration *)
Lemma metric_value_none_iff ftab mult os :
  metric_value ftab mult os = None <-> kept ftab mult os = [].
Proof.
  unfold metric_value.
  assert (G : match kept ftab mult os with
              | [] => None
              | ks => Some (JObj [(bs "Values", JArr (map fst ks)); (bs "Counts", JArr (map snd ks))])
              end = None <-> kept ftab mult os = []).
  { destruct (kept ftab mult os); split; intros; congruence. }
  destruct os as [|[n | b | t occ] [|o2 r]]; destruct mult as [m|]; try exact G.
  - unfold kept, obs_json, write_observation. cbn. split; discriminate.
  - unfold kept. cbn [flat_map]. rewrite obs_float. destruct (clamp_to_finite b); cbn; split; congruence.
Qed.

Lemma add_metric_skipped ftab mult name os u fl members decls :
  kept ftab mult os = [] -> add_metric ftab mult name os u fl members decls = (members, decls).
Proof. intros H. unfold add_metric. apply metric_value_none_iff in H. rewrite H. reflexivity. Qed.

(* the plain-number form is used exactly for an unsampled single unsigned / finite-or-infinite float observation *)
Lemma metric_value_scalar_unsigned ftab v : metric_value ftab None [OUnsigned v] = Some (JNum (render_dec v)).
Proof. reflexivity. Qed.
Lemma metric_value_sampled_is_histogram ftab m os v :
  metric_value ftab (Some m) os = Some v ->
  exists ks, v = JObj [(bs "Values", JArr (map fst ks)); (bs "Counts", JArr (map snd ks))] /\ ks = kept ftab (Some m) os /\ ks <> [].
Proof.
  unfold metric_value.
  assert (G : match kept ftab (Some m) os with
              | [] => None
              | ks => Some (JObj [(bs "Values", JArr (map fst ks)); (bs "Counts", JArr (map snd ks))])
              end = Some v ->
              exists ks, v = JObj [(bs "Values", JArr (map fst ks)); (bs "Counts", JArr (map snd ks))] /\
                         ks = kept ftab (Some m) os /\ ks <> []).
  { destruct (kept ftab (Some m) os) as [|p ps]; [discriminate|]. intros H; inversion H.
    exists (p :: ps). repeat split; discriminate. }
  destruct os as [|[n | b | t occ] [|o2 r]]; exact G.
Qed.
