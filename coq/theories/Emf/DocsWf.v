(* The documents of the reference interpretation are well-formed JSON values with the EMF metadata shape. *)
From Coq Require Import String.
From Coq Require Import List NArith ZArith Bool Lia.
From MV Require Import Common.Sx Common.Bytes Common.F64 Json.Json Json.Valid Json.Dec Emf.Model Emf.Spec.
Import ListNotations.

Lemma wf_arr l : wf (JArr l) <-> Forall wf l.
Proof.
  change (wf (JArr l)) with (wf_list l). induction l as [|x r IH]; cbn [wf_list]; [split; auto|].
  split.
  - intros [Hx Hr]. constructor; [exact Hx | apply IH; exact Hr].
  - intros H. inversion H; subst. split; [assumption | apply IH; assumption].
Qed.
Lemma wf_obj m : wf (JObj m) <-> Forall (fun kv => wf (snd kv)) m.
Proof.
  change (wf (JObj m)) with (wf_members m). induction m as [|[k v] r IH]; cbn [wf_members]; [split; auto|].
  split.
  - intros [Hx Hr]. constructor; [exact Hx | apply IH; exact Hr].
  - intros H. inversion H; subst. split; [assumption | apply IH; assumption].
Qed.

(* the float-printer hypothesis, restricted to the observations of this entry: every value literal the
   formatter prints is a JSON number token *)
Definition floats_ok (ftab : list (N * bytes)) (mult : option N) (e : entry) : Prop :=
  forall name os u dims fl o v c,
    In (IValue name (VMetric os u dims fl)) e -> In o os ->
    write_observation ftab mult o = Some (v, c) -> number_text v.

Definition obs_ok ftab mult (os : list obs) : Prop :=
  forall o v c, In o os -> write_observation ftab mult o = Some (v, c) -> number_text v.

Lemma count_text_number ftab mult o v c : write_observation ftab mult o = Some (v, c) -> number_text c.
Proof.
  unfold write_observation. destruct o as [n | b | t occ].
  - intros H; inversion H; apply render_dec_number.
  - destruct (clamp_to_finite b); [|discriminate]. intros H; inversion H; apply render_dec_number.
  - destruct (clamp_to_finite _); [|discriminate]. intros H; inversion H; apply render_dec_number.
Qed.

Lemma kept_wf ftab mult os : obs_ok ftab mult os ->
  Forall wf (map fst (kept ftab mult os)) /\ Forall wf (map snd (kept ftab mult os)).
Proof.
  unfold kept, obs_json. induction os as [|o r IH]; intros Hok; cbn [flat_map map]; [split; constructor|].
  assert (Hr : obs_ok ftab mult r) by (intros o' v c Hin; apply Hok; right; exact Hin).
  destruct (IH Hr) as [I1 I2].
  destruct (write_observation ftab mult o) as [[v c]|] eqn:E; cbn [app map fst snd]; [|split; assumption].
  split; constructor; try assumption.
  - exact (Hok o v c (or_introl eq_refl) E).
  - exact (count_text_number _ _ _ _ _ E).
Qed.

Lemma metric_value_wf ftab mult os v : obs_ok ftab mult os -> metric_value ftab mult os = Some v -> wf v.
Proof.
  intros Hok. pose proof (kept_wf ftab mult os Hok) as [K1 K2].
  assert (G : match kept ftab mult os with
              | [] => None
              | ks => Some (JObj [(bs "Values", JArr (map fst ks)); (bs "Counts", JArr (map snd ks))])
              end = Some v -> wf v).
  { destruct (kept ftab mult os) as [|p ps] eqn:E; [discriminate|]. intros H; inversion H; subst v. clear H.
    apply wf_obj. constructor; [apply wf_arr; exact K1 | constructor; [apply wf_arr; exact K2 | constructor]]. }
  unfold metric_value.
  destruct os as [|[n | b | t occ] [|o2 r]]; destruct mult as [m|]; try exact G.
  - intros H; inversion H. apply render_dec_number.
  - destruct (clamp_to_finite b) as [f|] eqn:Ec; [|discriminate]. intros H; inversion H.
    apply (Hok (OFloat b) (write_float ftab f) (render_dec 1)); [left; reflexivity|].
    unfold write_observation. rewrite Ec. reflexivity.
Qed.

Lemma metric_decl_wf name u fl : wf (metric_decl name u fl).
Proof.
  unfold metric_decl. apply wf_obj. constructor; [exact I|]. apply Forall_app. split.
  - destruct u; constructor; [exact I | constructor].
  - destruct fl; constructor; try exact I; try constructor.
Qed.

Definition members_wf (l : list (bytes * json)) : Prop := Forall (fun kv => wf (snd kv)) l.

Record AWf (a : astate) : Prop := {
  aw_strings : members_wf (a_strings a);
  aw_members : members_wf (a_members a);
  aw_decls : Forall wf (a_decls a);
  aw_sets : Forall (fun s => members_wf (as_members s) /\ Forall wf (as_decls s)) (a_sets a)
}.

Lemma add_metric_wf ftab mult name os u fl members decls :
  obs_ok ftab mult os -> members_wf members -> Forall wf decls ->
  members_wf (fst (add_metric ftab mult name os u fl members decls)) /\
  Forall wf (snd (add_metric ftab mult name os u fl members decls)).
Proof.
  intros Hok Hm Hd. unfold add_metric.
  destruct (metric_value ftab mult os) as [v|] eqn:E; cbn [fst snd]; [|split; assumption].
  pose proof (metric_value_wf _ _ _ _ Hok E) as Hv. split.
  - apply Forall_app. split; [exact Hm | constructor; [exact Hv | constructor]].
  - destruct fl; try exact Hd; apply Forall_app; (split; [exact Hd | constructor; [apply metric_decl_wf | constructor]]).
Qed.

Lemma as_find_in m key s : as_find m key = Some s -> In s m.
Proof. induction m as [|d r IH]; cbn; [discriminate|]. destruct (key_eqb _ _); [intros H; inversion H; left; reflexivity | intros H; right; apply IH; exact H]. Qed.
Lemma as_update_forall (P : aset -> Prop) m d : Forall P m -> P d -> Forall P (as_update m d).
Proof.
  induction 1 as [|x r Hx Hr IH]; intros Hd; cbn; [constructor; [exact Hd | constructor]|].
  destruct (key_eqb _ _); constructor; auto.
Qed.

Lemma astep_wf c ftab mult a i :
  (forall name os u dims fl, i = IValue name (VMetric os u dims fl) -> obs_ok ftab mult os) ->
  AWf a -> AWf (astep c ftab mult a i).
Proof.
  intros Hok [W1 W2 W3 W4]. destruct i as [t | [| | d |] | name [| s | msgs | os u dims fl]]; cbn [astep];
    try (constructor; assumption).
  - constructor; cbn; try assumption. apply Forall_app. split; [exact W1 | constructor; [exact I | constructor]].
  - specialize (Hok name os u dims fl eq_refl).
    destruct (allow_ignored c || _).
    + pose proof (add_metric_wf ftab mult name os u fl _ _ Hok W2 W3) as [A B].
      destruct (add_metric ftab mult name os u fl (a_members a) (a_decls a)) as [m d]. constructor; cbn; assumption.
    + set (s0 := match as_find (a_sets a) (sort_dims dims) with Some s => s | None => _ end).
      assert (H0 : members_wf (as_members s0) /\ Forall wf (as_decls s0)).
      { unfold s0. destruct (as_find (a_sets a) (sort_dims dims)) as [s|] eqn:E.
        - apply as_find_in in E. rewrite Forall_forall in W4. apply W4. exact E.
        - cbn. split; constructor. }
      destruct H0 as [H1 H2].
      pose proof (add_metric_wf ftab mult name os u fl _ _ Hok H1 H2) as [A B].
      destruct (add_metric ftab mult name os u fl (as_members s0) (as_decls s0)) as [m d].
      constructor; cbn; try assumption. apply as_update_forall; [exact W4 | cbn; split; assumption].
Qed.

Lemma abuild_wf c ftab mult e : floats_ok ftab mult e -> AWf (abuild c ftab mult e).
Proof.
  unfold abuild. intros Hf.
  assert (G : forall e' a, (forall i, In i e' -> In i e) -> AWf a -> AWf (fold_left (astep c ftab mult) e' a)).
  { induction e' as [|i r IH]; intros a Hsub Ha; cbn [fold_left]; [exact Ha|].
    apply IH; [intros j Hj; apply Hsub; right; exact Hj|].
    apply astep_wf; [|exact Ha]. intros name os u dims fl ->. intros o v cc Ho Hw.
    eapply Hf; [apply Hsub; left; reflexivity | exact Ho | exact Hw]. }
  apply G; [auto|]. constructor; cbn; constructor.
Qed.

(* ---------------------------------------------------------------- documents *)
Lemma dims_json_wf sets : wf (dims_json sets).
Proof.
  unfold dims_json. apply wf_arr. apply Forall_forall. intros j Hj. apply in_map_iff in Hj as [l [<- _]].
  apply wf_arr. apply Forall_forall. intros x Hx. apply in_map_iff in Hx as [s [<- _]]. exact I.
Qed.
Lemma directive_doc_wf ns sets decls : Forall wf decls -> wf (directive_doc ns sets decls).
Proof.
  intros Hd. unfold directive_doc. apply wf_obj.
  constructor; [exact I | constructor; [apply dims_json_wf | constructor; [apply wf_arr; exact Hd | constructor]]].
Qed.
Lemma extra_directive_doc_wf d : wf (extra_directive_doc d).
Proof.
  unfold extra_directive_doc. apply wf_obj.
  constructor; [apply dims_json_wf | constructor; [|constructor; [exact I | constructor]]].
  apply wf_arr. apply Forall_forall. intros j Hj. apply in_map_iff in Hj as [[[n u] sr] [<- _]].
  unfold metric_def_doc. apply wf_obj. constructor; [exact I|]. constructor; [destruct u; exact I|].
  destruct sr; constructor; [apply render_dec_number | constructor].
Qed.
Lemma aws_doc_wf c ts dirs : Forall wf dirs -> wf (aws_doc c ts dirs).
Proof.
  intros Hd. unfold aws_doc. apply wf_obj. cbn [app].
  constructor; [apply wf_arr; exact Hd|]. apply Forall_app. split.
  - destruct (log_group c); constructor; [exact I | constructor].
  - constructor; [apply render_dec_number | constructor].
Qed.

Lemma emf_docs_wf c mult e now ftab :
  floats_ok ftab mult e -> Forall wf (emf_docs c mult e now ftab).
Proof.
  intros Hf. pose proof (abuild_wf c ftab mult e Hf) as [W1 W2 W3 W4].
  unfold emf_docs. set (a := abuild c ftab mult e) in *.
  apply Forall_app. split.
  - apply Forall_forall. intros d Hd. apply in_map_iff in Hd as [s [<- Hs]].
    apply filter_In in Hs as [Hs _]. rewrite Forall_forall in W4. destruct (W4 s Hs) as [S1 S2].
    unfold set_doc. apply wf_obj. constructor.
    + apply aws_doc_wf. apply Forall_forall. intros j Hj. apply in_map_iff in Hj as [ns [<- _]].
      apply directive_doc_wf. exact S2.
    + apply Forall_app. split; [|apply Forall_app; split; assumption].
      apply Forall_forall. intros kv Hkv. apply in_map_iff in Hkv as [p [<- _]]. exact I.
  - destruct (_ || _); [|constructor]. constructor; [|constructor].
    unfold global_doc. apply wf_obj. constructor.
    + apply aws_doc_wf. apply Forall_app. split.
      * apply Forall_forall. intros j Hj. apply in_map_iff in Hj as [ns [<- _]]. apply directive_doc_wf. exact W3.
      * apply Forall_forall. intros j Hj. apply in_map_iff in Hj as [d [<- _]]. apply extra_directive_doc_wf.
    + apply Forall_app. split; assumption.
Qed.
