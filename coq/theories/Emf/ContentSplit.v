(* C03 — what the records contain when metrics are routed to dimension-set records (split mode), in terms of the entry:
   every metric with a usable value is a member of exactly the record of its (sorted) dimension list — or of the record
   without per-metric dimensions when it has none or the formatter ignores them — with its declaration beside it unless
   flagged no-metric; nothing else is a metric member of any record. *)
From Coq Require Import String.
From Coq Require Import List NArith ZArith Bool Lia.
From MV Require Import Common.Sx Common.Bytes Common.F64 Json.Json Emf.Model Emf.Spec Emf.Content Emf.VMap.
Import ListNotations.

(* ---------------------------------------------------------------- keys *)
Lemma pair_eqb_eq a b : pair_eqb a b = true <-> a = b.
Proof.
  unfold pair_eqb. destruct a as [a1 a2], b as [b1 b2]. cbn [fst snd]. rewrite andb_true_iff. split.
  - intros [H1 H2]. apply bytes_eqb_eq in H1. apply bytes_eqb_eq in H2. subst. reflexivity.
  - intros H. inversion H; subst. split; apply bytes_eqb_refl'.
Qed.
Lemma key_eqb_eq : forall a b, key_eqb a b = true <-> a = b.
Proof.
  induction a as [|x a IH]; intros [|y b]; cbn [key_eqb]; try (split; [discriminate | intros H; inversion H]); [split; reflexivity|].
  rewrite andb_true_iff, pair_eqb_eq, IH. split; [intros [-> ->]; reflexivity | intros H; inversion H; split; reflexivity].
Qed.
Lemma key_eqb_refl a : key_eqb a a = true.
Proof. apply key_eqb_eq. reflexivity. Qed.
Lemma key_eqb_neq a b : a <> b -> key_eqb a b = false.
Proof. intros H. destruct (key_eqb a b) eqn:E; [apply key_eqb_eq in E; contradiction | reflexivity]. Qed.

(* ---------------------------------------------------------------- find after update *)
Lemma as_find_update_same m d : as_find (as_update m d) (as_key d) = Some d.
Proof.
  induction m as [|x r IH]; cbn [as_update as_find]; [rewrite key_eqb_refl; reflexivity|].
  destruct (key_eqb (as_key x) (as_key d)) eqn:E; cbn [as_find]; [rewrite key_eqb_refl; reflexivity|].
  rewrite E. exact IH.
Qed.
Lemma as_find_update_other m d key : as_key d <> key -> as_find (as_update m d) key = as_find m key.
Proof.
  intros Hn. induction m as [|x r IH]; cbn [as_update as_find]; [rewrite (key_eqb_neq _ _ Hn); reflexivity|].
  destruct (key_eqb (as_key x) (as_key d)) eqn:E; cbn [as_find].
  - apply key_eqb_eq in E. rewrite E. rewrite (key_eqb_neq _ _ Hn). reflexivity.
  - destruct (key_eqb (as_key x) key); [reflexivity | exact IH].
Qed.
Lemma as_find_key m key s : as_find m key = Some s -> as_key s = key.
Proof.
  induction m as [|x r IH]; cbn [as_find]; [discriminate|].
  destruct (key_eqb (as_key x) key) eqn:E; [intros H; inversion H; subst; apply key_eqb_eq; exact E | exact IH].
Qed.

(* ---------------------------------------------------------------- where an item goes *)
(* None: the record without per-metric dimensions; Some key: the dimension-set record of that sorted dimension list *)
Definition route (c : config) (dims : list (bytes * bytes)) : option (list (bytes * bytes)) :=
  if allow_ignored c || match dims with [] => true | _ => false end then None else Some (sort_dims dims).

Definition okey_eqb (a b : option (list (bytes * bytes))) : bool :=
  match a, b with None, None => true | Some x, Some y => key_eqb x y | _, _ => false end.

(* the members / declarations the entry contributes to record r, in entry order *)
Definition members_for (c : config) ftab mult (r : option (list (bytes * bytes))) (e : entry) : list (bytes * json) :=
  flat_map (fun i => match i with
                     | IValue n (VMetric os _ dims _) =>
                         if okey_eqb (route c dims) r
                         then match metric_value ftab mult os with Some v => [(n, v)] | None => [] end else []
                     | _ => [] end) e.
Definition decls_for (c : config) ftab mult (r : option (list (bytes * bytes))) (e : entry) : list json :=
  flat_map (fun i => match i with
                     | IValue n (VMetric os u dims fl) =>
                         if okey_eqb (route c dims) r
                         then match metric_value ftab mult os, fl with
                              | Some _, FNoMetric => []
                              | Some _, _ => [metric_decl n u fl]
                              | None, _ => []
                              end else []
                     | _ => [] end) e.
Definition routed_to (c : config) (key : list (bytes * bytes)) (e : entry) : bool :=
  existsb (fun i => match i with IValue _ (VMetric _ _ dims _) => okey_eqb (route c dims) (Some key) | _ => false end) e.

Lemma add_metric_eq ftab mult name os u fl members decls :
  add_metric ftab mult name os u fl members decls =
  (members ++ match metric_value ftab mult os with Some v => [(name, v)] | None => [] end,
   decls ++ match metric_value ftab mult os, fl with
            | Some _, FNoMetric => [] | Some _, _ => [metric_decl name u fl] | None, _ => [] end).
Proof.
  unfold add_metric. destruct (metric_value ftab mult os); [|rewrite !app_nil_r; reflexivity].
  destruct fl; rewrite ?app_nil_r; reflexivity.
Qed.

(* ---------------------------------------------------------------- one step *)
Definition set_members (a : astate) (key : list (bytes * bytes)) : list (bytes * json) :=
  match as_find (a_sets a) key with Some s => as_members s | None => [] end.
Definition set_decls (a : astate) (key : list (bytes * bytes)) : list json :=
  match as_find (a_sets a) key with Some s => as_decls s | None => [] end.
Definition has_set (a : astate) (key : list (bytes * bytes)) : bool :=
  match as_find (a_sets a) key with Some _ => true | None => false end.

Lemma astep_content c ftab mult a i :
  a_members (astep c ftab mult a i) = a_members a ++ members_for c ftab mult None [i] /\
  a_decls (astep c ftab mult a i) = a_decls a ++ decls_for c ftab mult None [i] /\
  forall key,
    set_members (astep c ftab mult a i) key = set_members a key ++ members_for c ftab mult (Some key) [i] /\
    set_decls (astep c ftab mult a i) key = set_decls a key ++ decls_for c ftab mult (Some key) [i] /\
    has_set (astep c ftab mult a i) key = has_set a key || routed_to c key [i].
Proof.
  unfold members_for, decls_for, routed_to, set_members, set_decls, has_set.
  destruct i as [t | [| | d |] | name [| s0 | msgs | os u dims fl]];
    cbn [astep flat_map existsb app a_members a_decls a_sets]; rewrite ?app_nil_r, ?orb_false_r;
    try (split; [reflexivity | split; [reflexivity | intros key; rewrite ?app_nil_r, ?orb_false_r; repeat split; reflexivity]]).
  unfold route.
  destruct (allow_ignored c || match dims with [] => true | _ => false end) eqn:Eg.
  - (* the record without per-metric dimensions *)
    rewrite add_metric_eq. cbn [okey_eqb a_members a_decls a_sets]. rewrite !app_nil_r.
    split; [reflexivity | split; [reflexivity|]]. intros key. rewrite !app_nil_r, orb_false_r. repeat split; reflexivity.
  - (* a dimension-set record *)
    set (k0 := sort_dims dims).
    set (s0 := match as_find (a_sets a) k0 with Some s => s | None => mk_aset k0 (base_dims c a) [] [] end).
    rewrite add_metric_eq. cbn [okey_eqb a_members a_decls a_sets]. rewrite !app_nil_r.
    split; [reflexivity | split; [reflexivity|]]. intros key.
    assert (K0 : as_key s0 = k0).
    { unfold s0. destruct (as_find (a_sets a) k0) eqn:Ef; [eapply as_find_key; exact Ef | reflexivity]. }
    rewrite K0.
    destruct (key_eqb k0 key) eqn:Ek.
    + apply key_eqb_eq in Ek. subst key.
      match goal with |- context [as_find (as_update _ ?X) k0] =>
        pose proof (as_find_update_same (a_sets a) X) as HX; cbn [as_key] in HX; rewrite HX end.
      cbn [as_members as_decls]. rewrite !app_nil_r, orb_true_r.
      unfold s0. destruct (as_find (a_sets a) k0); cbn [as_members as_decls]; repeat split; reflexivity.
    + match goal with |- context [as_find (as_update _ ?X) key] =>
        assert (Hn : as_key X <> key) by (cbn [as_key]; intros ->; rewrite key_eqb_refl in Ek; discriminate);
        rewrite (as_find_update_other (a_sets a) X key Hn) end.
      rewrite !app_nil_r, orb_false_r. repeat split; reflexivity.
Qed.

(* ---------------------------------------------------------------- all steps *)
Lemma flat_map_cons_app {A B} (f : A -> list B) x l : flat_map f (x :: l) = flat_map f [x] ++ flat_map f l.
Proof. cbn [flat_map]. rewrite app_nil_r. reflexivity. Qed.

Lemma fold_content c ftab mult e : forall a,
  let a' := fold_left (astep c ftab mult) e a in
  a_members a' = a_members a ++ members_for c ftab mult None e /\
  a_decls a' = a_decls a ++ decls_for c ftab mult None e /\
  forall key,
    set_members a' key = set_members a key ++ members_for c ftab mult (Some key) e /\
    set_decls a' key = set_decls a key ++ decls_for c ftab mult (Some key) e /\
    has_set a' key = has_set a key || routed_to c key e.
Proof.
  induction e as [|i e IH]; intros a; cbn [fold_left].
  - unfold members_for, decls_for, routed_to. cbn. rewrite !app_nil_r.
    split; [reflexivity | split; [reflexivity|]]. intros key. rewrite !app_nil_r, orb_false_r. repeat split; reflexivity.
  - specialize (IH (astep c ftab mult a i)). cbv zeta in IH. destruct IH as (I1 & I2 & I3).
    destruct (astep_content c ftab mult a i) as (S1 & S2 & S3).
    unfold members_for, decls_for in *.
    rewrite I1, I2, S1, S2.
    rewrite (flat_map_cons_app _ i e). rewrite (flat_map_cons_app (fun i0 => match i0 with IValue n (VMetric os u dims fl) => _ | _ => [] end) i e).
    rewrite <- !app_assoc. split; [reflexivity | split; [reflexivity|]]. intros key.
    destruct (I3 key) as (J1 & J2 & J3). destruct (S3 key) as (T1 & T2 & T3).
    rewrite J1, J2, J3, T1, T2, T3. unfold routed_to. cbn [existsb]. rewrite orb_false_r.
    rewrite (flat_map_cons_app _ i e).
    rewrite (flat_map_cons_app (fun i0 => match i0 with IValue n (VMetric os u dims fl) => _ | _ => [] end) i e).
    rewrite <- !app_assoc, orb_assoc. repeat split; reflexivity.
Qed.

(* the records of an entry, in terms of the entry *)
Theorem abuild_content c ftab mult e :
  let a := abuild c ftab mult e in
  a_members a = members_for c ftab mult None e /\
  a_decls a = decls_for c ftab mult None e /\
  forall key,
    match as_find (a_sets a) key with
    | Some s => routed_to c key e = true /\ as_key s = key /\
                as_members s = members_for c ftab mult (Some key) e /\ as_decls s = decls_for c ftab mult (Some key) e
    | None => routed_to c key e = false
    end.
Proof.
  cbv zeta. unfold abuild. destruct (fold_content c ftab mult e a_init) as (M & D & K).
  cbn [a_init a_members a_decls app] in M, D. split; [exact M | split; [exact D|]]. intros key.
  destruct (K key) as (K1 & K2 & K3). unfold set_members, set_decls, has_set in *. cbn [a_init a_sets as_find app orb] in K1, K2, K3.
  destruct (as_find (a_sets (fold_left (astep c ftab mult) e a_init)) key) as [s|] eqn:Ef.
  - repeat split; [symmetry; exact K3 | eapply as_find_key; exact Ef | exact K1 | exact K2].
  - symmetry. exact K3.
Qed.

(* ---------------------------------------------------------------- dimension-set records have pairwise different keys *)
Lemma as_update_keys_nodup d : forall m, NoDup (map as_key m) -> NoDup (map as_key (as_update m d)).
Proof.
  induction m as [|x r IH]; cbn [as_update map]; intros H; [constructor; [intros [] | constructor]|].
  inversion H as [|? ? Hx Hr]; subst.
  destruct (key_eqb (as_key x) (as_key d)) eqn:E; cbn [map].
  - apply key_eqb_eq in E. rewrite <- E. constructor; assumption.
  - constructor; [|apply IH; exact Hr].
    intros Hin. apply in_map_iff in Hin as (y & Hy & Hin).
    assert (Hc : In y r \/ y = d).
    { clear - Hin. induction r as [|z r IH]; cbn [as_update] in Hin; [destruct Hin as [<- | []]; right; reflexivity|].
      destruct (key_eqb (as_key z) (as_key d)).
      - destruct Hin as [<- | Hin]; [right; reflexivity | left; right; exact Hin].
      - destruct Hin as [<- | Hin]; [left; left; reflexivity|]. destruct (IH Hin) as [H | H]; [left; right; exact H | right; exact H]. }
    destruct Hc as [Hc | ->].
    + apply Hx. rewrite <- Hy. apply in_map. exact Hc.
    + rewrite Hy in E. rewrite key_eqb_refl in E. discriminate.
Qed.

Lemma astep_keys_nodup c ftab mult a i : NoDup (map as_key (a_sets a)) -> NoDup (map as_key (a_sets (astep c ftab mult a i))).
Proof.
  intros H. destruct i as [t | [| | d |] | name [| s0 | msgs | os u dims fl]]; cbn [astep a_sets]; try exact H.
  destruct (allow_ignored c || _).
  - destruct (add_metric _ _ _ _ _ _ _ _). exact H.
  - destruct (add_metric _ _ _ _ _ _ _ _). cbn [a_sets]. apply as_update_keys_nodup. exact H.
Qed.

Lemma abuild_keys_nodup c ftab mult e : NoDup (map as_key (a_sets (abuild c ftab mult e))).
Proof.
  unfold abuild. assert (G : forall e a, NoDup (map as_key (a_sets a)) -> NoDup (map as_key (a_sets (fold_left (astep c ftab mult) e a)))).
  { clear. induction e as [|i e IH]; intros a H; cbn [fold_left]; [exact H|]. apply IH. apply astep_keys_nodup. exact H. }
  apply G. constructor.
Qed.

(* ---------------------------------------------------------------- the documents *)
(* every record is either the record without per-metric dimensions, carrying exactly the usable metrics routed nowhere,
   or the record of one sorted dimension list, carrying exactly the usable metrics routed to it (at least one) *)
Theorem docs_content c mult e now ftab d :
  In d (emf_docs c mult e now ftab) ->
  (exists a, d = global_doc c (doc_ts e now) a /\
             a_members a = members_for c ftab mult None e /\ a_decls a = decls_for c ftab mult None e /\
             a_strings a = strings_of e) \/
  (exists s, d = set_doc c (doc_ts e now) (strings_of e) s /\ routed_to c (as_key s) e = true /\
             as_members s = members_for c ftab mult (Some (as_key s)) e /\ as_members s <> [] /\
             as_decls s = decls_for c ftab mult (Some (as_key s)) e).
Proof.
  unfold emf_docs, doc_ts. rewrite abuild_ts, abuild_strings.
  destruct (abuild_content c ftab mult e) as (M & D & K). set (a := abuild c ftab mult e) in *.
  intros Hin. apply in_app_or in Hin as [Hin | Hin].
  - right. apply in_map_iff in Hin as [s [<- Hs]]. apply filter_In in Hs as [Hs Hne].
    exists s. split; [reflexivity|].
    assert (Hfind : exists s1, as_find (a_sets a) (as_key s) = Some s1).
    { clear - Hs. induction (a_sets a) as [|x r IH]; [destruct Hs|]. cbn [as_find].
      destruct (key_eqb (as_key x) (as_key s)) eqn:E; [eexists; reflexivity|].
      destruct Hs as [-> | Hs]; [rewrite key_eqb_refl in E; discriminate | exact (IH Hs)]. }
    destruct Hfind as (s1 & Hf). specialize (K (as_key s)). rewrite Hf in K. destruct K as (K1 & K2 & K3 & K4).
    (* s is the first set with its key: sets have pairwise different keys, so s1 = s; we only need members of s itself *)
    assert (Hs1 : s1 = s).
    { clear - Hs Hf. pose proof (abuild_keys_nodup c ftab mult e) as Hnd. fold a in Hnd.
      revert Hs Hf Hnd. induction (a_sets a) as [|x r IH]; [intros []|]. cbn [as_find map].
      intros Hs Hf Hnd. inversion Hnd as [|? ? Hx Hr]; subst.
      destruct (key_eqb (as_key x) (as_key s)) eqn:E.
      - inversion Hf; subst x. destruct Hs as [-> | Hs]; [reflexivity|].
        exfalso. apply Hx. apply key_eqb_eq in E. rewrite E. apply in_map. exact Hs.
      - destruct Hs as [-> | Hs]; [rewrite key_eqb_refl in E; discriminate | exact (IH Hs Hf Hr)]. }
    subst s1. repeat split; try assumption.
    intros Hnil. rewrite Hnil in Hne. discriminate.
  - left. destruct (_ || _); [|contradiction]. destruct Hin as [<- | []].
    exists a. repeat split; try assumption. unfold a. apply abuild_strings.
Qed.

Lemma as_find_in'' m key s : as_find m key = Some s -> In s m.
Proof.
  induction m as [|d r IH]; cbn; [discriminate|].
  destruct (key_eqb _ _); [intros H; inversion H; left; reflexivity | intros H; right; apply IH; exact H].
Qed.

Lemma okey_eqb_refl r : okey_eqb r r = true.
Proof. destruct r; cbn; [apply key_eqb_refl | reflexivity]. Qed.

(* conversely: a metric with a usable value is a member of the record it is routed to, and that record is emitted *)
Theorem metric_in_its_record c mult e now ftab n os u dims fl v :
  In (IValue n (VMetric os u dims fl)) e -> metric_value ftab mult os = Some v ->
  match route c dims with
  | None => exists a, In (global_doc c (doc_ts e now) a) (emf_docs c mult e now ftab) /\ In (n, v) (a_members a) /\
                      (fl <> FNoMetric -> In (metric_decl n u fl) (a_decls a))
  | Some key => exists s, In (set_doc c (doc_ts e now) (strings_of e) s) (emf_docs c mult e now ftab) /\ as_key s = key /\
                          In (n, v) (as_members s) /\ (fl <> FNoMetric -> In (metric_decl n u fl) (as_decls s))
  end.
Proof.
  intros Hin Hv. destruct (abuild_content c ftab mult e) as (M & D & K).
  assert (Hm : In (n, v) (members_for c ftab mult (route c dims) e)).
  { unfold members_for. apply in_flat_map. exists (IValue n (VMetric os u dims fl)). split; [exact Hin|].
    rewrite okey_eqb_refl, Hv. left. reflexivity. }
  assert (Hd : fl <> FNoMetric -> In (metric_decl n u fl) (decls_for c ftab mult (route c dims) e)).
  { intros Hf. unfold decls_for. apply in_flat_map. exists (IValue n (VMetric os u dims fl)). split; [exact Hin|].
    rewrite okey_eqb_refl, Hv. destruct fl; try (left; reflexivity). contradiction. }
  unfold emf_docs, doc_ts. rewrite abuild_ts, abuild_strings. set (a := abuild c ftab mult e) in *.
  destruct (route c dims) as [key|] eqn:Er.
  - specialize (K key).
    assert (Hr : routed_to c key e = true).
    { unfold routed_to. apply existsb_exists. exists (IValue n (VMetric os u dims fl)). split; [exact Hin|].
      rewrite Er. cbn. apply key_eqb_refl. }
    destruct (as_find (a_sets a) key) as [s|] eqn:Ef; [|rewrite Hr in K; discriminate].
    destruct K as (_ & K2 & K3 & K4). exists s. repeat split; try assumption.
    + apply in_or_app. left. apply in_map. apply filter_In. split; [eapply as_find_in''; exact Ef|].
      rewrite K3. destruct (members_for c ftab mult (Some key) e); [destruct Hm | reflexivity].
    + rewrite K3. exact Hm.
    + intros Hf. rewrite K4. apply Hd. exact Hf.
  - exists a. repeat split.
    + apply in_or_app. right. rewrite M.
      destruct (members_for c ftab mult None e) eqn:Em; [destruct Hm|]. cbn [negb]. rewrite orb_true_r. left. reflexivity.
    + rewrite M. exact Hm.
    + intros Hf. rewrite D. apply Hd. exact Hf.
Qed.
