(* C08, soundness clause with per-metric routing: with the uniqueness and name checks on, every record of an accepted
   entry has pairwise different member names, PROVIDED the dimension keys of its dimension-set records do not collide
   with the record's other members (dimension keys are the one kind of member the formatter never validates: known
   finding C08-dim-key-unvalidated; `keys_ok` is exactly the complement of that class).

   Method: an invariant between the writer's name map (`vmap`: name -> string | metric written to records idx) and the
   members of the reference interpretation's records, preserved by every step that adds no error. *)
From Coq Require Import String.
From Coq Require Import List NArith ZArith Bool Lia Permutation.
From MV Require Import Common.Sx Common.Bytes Json.Json Emf.Model Emf.Spec Emf.Validate Emf.Complete Emf.Content
                       Emf.VMap Emf.Sound.
Import ListNotations.

Definition names {A} (l : list (bytes * A)) : list bytes := map fst l.

(* the name map says: `n` is a metric already written to the record with index j *)
Definition P (j : nat) (w : writer) (n : bytes) : Prop :=
  exists idx, vm_get (vmap w) n = Some (KMetric idx) /\ In j idx.
Definition S_ (w : writer) (n : bytes) : Prop := vm_get (vmap w) n = Some KString.

Definition SetInv (w : writer) (d : dset) (s : aset) : Prop :=
  ds_key d = as_key s /\ (forall n, In n (names (as_members s)) -> P (ds_index d) w n) /\ NoDup (names (as_members s)).

Record J (w : writer) (a : astate) : Prop := {
  j_unr : unroutable w = false;
  j_str : forall n, In n (names (a_strings a)) -> S_ w n;
  j_glob : forall n, In n (names (a_members a)) -> P 0 w n;
  j_sets : Forall2 (SetInv w) (dsmap (w_state w)) (a_sets a);
  j_nd_str : NoDup (names (a_strings a));
  j_nd_glob : NoDup (names (a_members a))
}.

(* ---------------------------------------------------------------- monotonicity along ksteps *)
Lemma P_mono j (o o' : option kind) :
  ksteps o o' -> (exists idx, o = Some (KMetric idx) /\ In j idx) -> exists idx, o' = Some (KMetric idx) /\ In j idx.
Proof.
  intros Hk (idx & -> & Hin). destruct (ksteps_from_metric idx o' Hk) as (i2 & -> & Hincl).
  exists i2. split; [reflexivity | apply Hincl; exact Hin].
Qed.
Lemma S_mono (o o' : option kind) : ksteps o o' -> o = Some KString -> o' = Some KString.
Proof. intros Hk ->. exact (ksteps_from_string o' Hk). Qed.

Definition vm_le (w w' : writer) : Prop := forall q, ksteps (vm_get (vmap w) q) (vm_get (vmap w') q).

Lemma P_le j w w' n : vm_le w w' -> P j w n -> P j w' n.
Proof. intros H. apply P_mono. apply H. Qed.
Lemma S_le w w' n : vm_le w w' -> S_ w n -> S_ w' n.
Proof. intros H. apply S_mono. apply H. Qed.

Lemma setinv_le w w' d s : vm_le w w' -> SetInv w d s -> SetInv w' d s.
Proof. intros H (A & B & C). repeat split; try assumption. intros n Hn. eapply P_le; [exact H | apply B; exact Hn]. Qed.

Lemma forall2_impl {A B} (R R' : A -> B -> Prop) l1 l2 :
  (forall x y, R x y -> R' x y) -> Forall2 R l1 l2 -> Forall2 R' l1 l2.
Proof. intros H. induction 1; constructor; auto. Qed.

(* ---------------------------------------------------------------- find / update on aligned lists *)
Lemma find_aligned w key : forall ds sets, Forall2 (SetInv w) ds sets ->
  match ds_find ds key, as_find sets key with
  | Some d, Some s => SetInv w d s
  | None, None => True
  | _, _ => False
  end.
Proof.
  induction 1 as [|d s ds sets H0 HF IH]; cbn [ds_find as_find]; [exact I|].
  destruct H0 as (K & B & C). rewrite <- K.
  destruct (key_eqb (ds_key d) key); [repeat split; assumption | exact IH].
Qed.

Lemma update_aligned w d' s' : SetInv w d' s' -> forall ds sets, Forall2 (SetInv w) ds sets ->
  Forall2 (SetInv w) (ds_update ds d') (as_update sets s').
Proof.
  intros H'. induction 1 as [|d s ds sets H0 HF IH]; cbn [ds_update as_update].
  - constructor; [exact H' | constructor].
  - destruct H0 as (K & B & C). destruct H' as (K' & B' & C').
    rewrite <- K, <- K'. destruct (key_eqb (ds_key d) (ds_key d')).
    + constructor; [repeat split; assumption | exact HF].
    + constructor; [repeat split; assumption | apply IH].
Qed.

(* ---------------------------------------------------------------- what a clean validate_* tells *)
Lemma existsb_eqb_in j idx : In j idx -> existsb (Nat.eqb j) idx = true.
Proof. intros H. apply existsb_exists. exists j. split; [exact H | apply Nat.eqb_refl]. Qed.

Lemma validate_metric_clean w name j :
  errors w = [] -> errors (validate_metric w name j) = [] ->
  ~ P j w name /\ ~ S_ w name /\ P j (validate_metric w name j) name.
Proof.
  intros He Hno. unfold validate_metric in *. unfold P, S_.
  destruct (vm_get (vmap w) name) as [[| idx |]|] eqn:Eg.
  - exfalso. exact (add_error_not_nil _ _ Hno).
  - destruct (existsb (Nat.eqb j) idx) eqn:Ex; [exfalso; exact (add_error_not_nil _ _ Hno)|].
    repeat split.
    + intros (i2 & Hi & Hin). inversion Hi; subst i2. rewrite (existsb_eqb_in j idx Hin) in Ex. discriminate.
    + discriminate.
    + exists (j :: idx). cbn [vmap set_vmap]. rewrite vm_get_set_same. split; [reflexivity | left; reflexivity].
  - exfalso. exact (add_error_not_nil _ _ Hno).
  - cbn [existsb] in *. repeat split.
    + intros (i2 & Hi & _). discriminate.
    + discriminate.
    + exists [j]. cbn [vmap set_vmap]. rewrite vm_get_set_same. split; [reflexivity | left; reflexivity].
Qed.

Lemma validate_string_clean w name :
  errors w = [] -> errors (validate_string w name) = [] ->
  ~ S_ w name /\ (forall j, ~ P j w name) /\ S_ (validate_string w name) name.
Proof.
  intros He Hno. unfold validate_string in *. unfold P, S_.
  destruct (vm_get (vmap w) name) as [[| idx |]|] eqn:Eg.
  - exfalso. exact (add_error_not_nil _ _ Hno).
  - exfalso. exact (add_error_not_nil _ _ Hno).
  - repeat split; [discriminate | intros j (i2 & Hi & _); discriminate |].
    cbn [vmap set_vmap]. apply vm_get_set_same.
  - repeat split; [discriminate | intros j (i2 & Hi & _); discriminate |].
    cbn [vmap set_vmap]. apply vm_get_set_same.
Qed.

(* ---------------------------------------------------------------- members after add_metric *)
Lemma add_metric_names ftab mult name os u fl members decls :
  names (fst (add_metric ftab mult name os u fl members decls)) = names members \/
  names (fst (add_metric ftab mult name os u fl members decls)) = names members ++ [name].
Proof.
  unfold add_metric. destruct (metric_value ftab mult os); cbn [fst]; [right | left; reflexivity].
  unfold names. rewrite map_app. reflexivity.
Qed.

Lemma nodup_snoc (l : list bytes) x : NoDup l -> ~ In x l -> NoDup (l ++ [x]).
Proof.
  intros H Hn. apply (Permutation_NoDup (l := x :: l)); [|constructor; assumption].
  apply Permutation_cons_append.
Qed.

Lemma fold_add_error_frame_state (msgs : list bytes) name : forall w,
  dsmap (w_state (fold_left (fun w m => add_error w (for_field name m)) msgs w)) = dsmap (w_state w).
Proof. induction msgs as [|m ms IH]; intros w; cbn [fold_left]; [reflexivity|]. rewrite IH. reflexivity. Qed.

(* ---------------------------------------------------------------- one step *)
Lemma vm_le_item c ftab mult w i : vm_le w (do_item c ftab mult w i).
Proof. intros q. apply ksteps_do_item. Qed.

Lemma j_step c ftab mult w a i :
  skip_unique c = false ->
  (match i with IConfig CUnroutable => False | _ => True end) ->
  J w a -> errors w = [] -> errors (do_item c ftab mult w i) = [] ->
  J (do_item c ftab mult w i) (astep c ftab mult a i).
Proof.
  intros Hu Hi HJ He Hno.
  pose proof (vm_le_item c ftab mult w i) as Hle.
  assert (Hunr : unroutable (do_item c ftab mult w i) = false) by (apply unroutable_frame_item; [apply HJ | exact Hi]).
  (* everything known before stays known *)
  assert (Keep : J (do_item c ftab mult w i) a ->
                 J (do_item c ftab mult w i) a) by auto.
  destruct i as [t | ci | name v].
  - (* timestamp: nothing about names or records changes *)
    cbn [astep]. cbn [do_item] in *.
    destruct HJ as [A B C D E F].
    assert (Hst : dsmap (w_state (match w_timestamp w with
                    | Some _ => add_error (mk_writer (w_state w) (vmap w) (entry_dims w) (Some t) (errors w) (allow_split w) (unroutable w)) (bs "multiple timestamps written")
                    | None => mk_writer (w_state w) (vmap w) (entry_dims w) (Some t) (errors w) (allow_split w) (unroutable w) end)) = dsmap (w_state w))
      by (destruct (w_timestamp w); reflexivity).
    constructor; cbn [a_strings a_members a_sets]; try assumption.
    + intros n Hn. eapply S_le; [exact Hle | apply B; exact Hn].
    + intros n Hn. eapply P_le; [exact Hle | apply C; exact Hn].
    + rewrite Hst. eapply forall2_impl; [|exact D]. intros x y. apply setinv_le. exact Hle.
  - (* configuration *)
    assert (Hsame : a_strings (astep c ftab mult a (IConfig ci)) = a_strings a /\
                    a_members (astep c ftab mult a (IConfig ci)) = a_members a /\
                    a_sets (astep c ftab mult a (IConfig ci)) = a_sets a)
      by (destruct ci; cbn [astep a_strings a_members a_sets]; repeat split; reflexivity).
    destruct Hsame as (H1 & H2 & H3).
    assert (Hst : dsmap (w_state (do_item c ftab mult w (IConfig ci))) = dsmap (w_state w)).
    { cbn [do_item]. unfold do_config. destruct ci as [| | d |]; try reflexivity.
      destruct (negb _); [reflexivity|]. destruct (match entry_dims w with Some _ => true | None => false end); [reflexivity|].
      destruct d; [reflexivity|]. cbn [w_state].
      destruct (negb (skip_unique c) || negb (skip_dims c)); [|reflexivity].
      pose proof (fold_check_frame c (concat (l :: d)) w) as F. cbv zeta in F. destruct F as (F & _). rewrite F. reflexivity. }
    destruct HJ as [A B C D E F].
    constructor; rewrite ?H1, ?H2, ?H3; try assumption.
    + intros n Hn. eapply S_le; [exact Hle | apply B; exact Hn].
    + intros n Hn. eapply P_le; [exact Hle | apply C; exact Hn].
    + rewrite Hst. eapply forall2_impl; [|exact D]. intros x y. apply setinv_le. exact Hle.
  - (* a value *)
    cbn [do_item] in *. unfold do_value in *.
    destruct (validate_name c w name) as [w1 ok] eqn:Hv. destruct ok; cbn [negb] in *.
    2: { exfalso. exact (validate_name_false _ _ _ _ Hv Hno). }
    apply validate_name_true in Hv. subst w1.
    destruct HJ as [A B C D E F].
    destruct v as [| s0 | msgs | os u dims fl].
    + (* nothing *) cbn [astep]. constructor; assumption.
    + (* string property *)
      cbn [astep]. unfold do_string in *. rewrite Hu in *.
      set (w1 := set_state w _) in *.
      assert (Ev : vmap w1 = vmap w) by reflexivity.
      assert (Ee : errors w1 = []) by exact He.
      destruct (validate_string_clean w1 name Ee Hno) as (NS & NP & SS).
      pose proof (validate_string_frame w1 name) as V. cbv zeta in V. destruct V as (V1 & _).
      constructor; cbn [a_strings a_members a_sets].
      * exact Hunr.
      * unfold names. rewrite map_app. intros n Hn. apply in_app_or in Hn as [Hn | [<- | []]].
        -- eapply S_le; [exact Hle | apply B; exact Hn].
        -- exact SS.
      * intros n Hn. eapply P_le; [exact Hle | apply C; exact Hn].
      * rewrite V1. change (dsmap (w_state w1)) with (dsmap (w_state w)).
        eapply forall2_impl; [|exact D]. intros x y. apply setinv_le. exact Hle.
      * unfold names. rewrite map_app. apply nodup_snoc; [exact E|].
        intros Hin. apply NS. unfold S_. rewrite Ev. apply B. exact Hin.
      * exact F.
    + (* an error value: impossible without an error unless the list is empty *)
      cbn [astep].
      pose proof (fold_add_error_frame_state msgs name w) as V.
      constructor; try assumption.
      * intros n Hn. eapply S_le; [exact Hle | apply B; exact Hn].
      * intros n Hn. eapply P_le; [exact Hle | apply C; exact Hn].
      * rewrite V. eapply forall2_impl; [|exact D]. intros x y. apply setinv_le. exact Hle.
    + (* a metric *)
      cbn [astep]. unfold do_metric in *. rewrite Hu in *. cbn [negb andb] in *.
      set (w1 := if negb _ && negb (allow_split w) then _ else w) in *.
      assert (S1 : w_state w1 = w_state w) by (unfold w1; destruct (negb _ && negb _); reflexivity).
      assert (V1 : vmap w1 = vmap w) by (unfold w1; destruct (negb _ && negb _); reflexivity).
      assert (U1 : unroutable w1 = false) by (unfold w1; destruct (negb _ && negb _); exact A).
      assert (E1 : errors w1 = []).
      { unfold w1 in *. destruct (negb _ && negb (allow_split w)); [|exact He].
        exfalso. destruct (allow_ignored c || match dims with [] => true | _ => false end).
        - destruct (write_metric _ _ _ _ _ _ _ _) in Hno. cbn [errors set_state] in Hno.
          pose proof (grows_validate_metric (add_error w (for_field name split_msg)) name 0) as G.
          rewrite U1 in Hno. cbn [negb] in Hno.
          exact (add_error_not_nil _ _ (grows_nil _ _ G Hno)).
        - destruct (write_metric _ _ _ _ _ _ _ _) in Hno. cbn [errors set_state] in Hno.
          rewrite U1 in Hno. cbn [negb] in Hno.
          match type of Hno with errors (validate_metric ?ww ?nn ?jj) = [] =>
            pose proof (grows_validate_metric ww nn jj) as G end.
          exact (add_error_not_nil _ _ (grows_nil _ _ G Hno)). }
      rewrite S1, U1 in *. cbn [negb] in *.
      destruct (allow_ignored c || match dims with [] => true | _ :: _ => false end).
      * (* global record *)
        destruct (write_metric ftab mult name os u fl (fields (w_state w)) (metrics (w_state w))) as [fb mb].
        cbn [errors set_state] in Hno.
        destruct (validate_metric_clean w1 name 0 E1 Hno) as (NP & NS & PP).
        pose proof (validate_metric_frame w1 name 0) as V. cbv zeta in V. destruct V as (Vs & _).
        pose proof (add_metric_names ftab mult name os u fl (a_members a) (a_decls a)) as HN.
        destruct (add_metric ftab mult name os u fl (a_members a) (a_decls a)) as [m' d'] eqn:Ea. cbn [fst] in HN.
        constructor; cbn [a_strings a_members a_sets set_state unroutable w_state dsmap vmap].
        -- exact Hunr.
        -- intros n Hn. eapply S_le; [exact Hle | apply B; exact Hn].
        -- intros n Hn. destruct HN as [HN | HN]; rewrite HN in Hn.
           ++ eapply P_le; [exact Hle | apply C; exact Hn].
           ++ apply in_app_or in Hn as [Hn | [<- | []]]; [eapply P_le; [exact Hle | apply C; exact Hn]|].
              destruct PP as (idx & Hg & Hin). exists idx. split; [exact Hg | exact Hin].
        -- eapply forall2_impl; [|exact D]. intros x y. apply setinv_le. exact Hle.
        -- exact E.
        -- destruct HN as [HN | HN]; rewrite HN; [exact F|]. apply nodup_snoc; [exact F|].
           intros Hin. apply NP. unfold P. rewrite V1. apply C. exact Hin.
      * (* a dimension-set record *)
        set (key := sort_dims dims) in *.
        pose proof (find_aligned w key _ _ D) as HF.
        set (each := match entry_dims w1 with Some e => e | None => each_dims_enc c end) in *.
        set (d0 := match ds_find (dsmap (w_state w)) key with Some d => d | None => dset_new c each key _ end) in *.
        set (s0 := match as_find (a_sets a) key with Some s => s | None => mk_aset key (base_dims c a) [] [] end).
        assert (R0 : SetInv w d0 s0).
        { unfold d0, s0. destruct (ds_find (dsmap (w_state w)) key), (as_find (a_sets a) key); try contradiction; [exact HF|].
          repeat split; cbn [dset_new ds_key as_key as_members names map]; [contradiction | constructor]. }
        destruct (write_metric ftab mult name os u fl (ds_fields d0) (ds_metrics d0)) as [fb mb].
        cbn [errors set_state] in Hno.
        destruct (validate_metric_clean w1 name (ds_index d0) E1 Hno) as (NP & NS & PP).
        pose proof (validate_metric_frame w1 name (ds_index d0)) as V. cbv zeta in V. destruct V as (Vs & _).
        pose proof (add_metric_names ftab mult name os u fl (as_members s0) (as_decls s0)) as HN.
        destruct (add_metric ftab mult name os u fl (as_members s0) (as_decls s0)) as [m' d'] eqn:Ea. cbn [fst] in HN.
        destruct R0 as (K0 & B0 & C0).
        constructor; cbn [a_strings a_members a_sets set_state unroutable w_state dsmap vmap].
        -- exact Hunr.
        -- intros n Hn. eapply S_le; [exact Hle | apply B; exact Hn].
        -- intros n Hn. eapply P_le; [exact Hle | apply C; exact Hn].
        -- apply update_aligned.
           ++ repeat split; cbn [ds_key ds_index as_key as_members].
              ** exact K0.
              ** intros n Hn. destruct HN as [HN | HN]; rewrite HN in Hn.
                 --- eapply P_le; [exact Hle | apply B0; exact Hn].
                 --- apply in_app_or in Hn as [Hn | [<- | []]]; [eapply P_le; [exact Hle | apply B0; exact Hn]|].
                     destruct PP as (idx & Hg & Hin). exists idx. split; [exact Hg | exact Hin].
              ** destruct HN as [HN | HN]; rewrite HN; [exact C0|]. apply nodup_snoc; [exact C0|].
                 intros Hin. apply NP. unfold P. rewrite V1. apply B0. exact Hin.
           ++ eapply forall2_impl; [|exact D]. intros x y. apply setinv_le. exact Hle.
        -- exact E.
        -- exact F.
Qed.

(* ---------------------------------------------------------------- all steps *)
Lemma j_fold c ftab mult e : forall w a,
  skip_unique c = false -> has_unroutable e = false ->
  J w a -> errors (fold_left (do_item c ftab mult) e w) = [] ->
  J (fold_left (do_item c ftab mult) e w) (fold_left (astep c ftab mult) e a).
Proof.
  induction e as [|i e IH]; intros w a Hu Hun HJ Hno; cbn [fold_left] in *; [exact HJ|].
  assert (Hi : match i with IConfig CUnroutable => False | _ => True end)
    by (destruct i as [| [| | |] |]; cbn in Hun; try exact I; discriminate).
  assert (Hun' : has_unroutable e = false) by (destruct i as [| [| | |] |]; cbn in Hun; try exact Hun; discriminate).
  pose proof (grows_nil _ _ (grows_fold_items c ftab mult e (do_item c ftab mult w i)) Hno) as H1.
  pose proof (grows_nil _ _ (grows_do_item c ftab mult w i) H1) as H0.
  apply IH; try assumption. apply j_step; assumption.
Qed.

Lemma j_init c s : J (init_writer c s) a_init.
Proof.
  constructor; cbn; try reflexivity; try constructor; intros n [].
Qed.

(* ---------------------------------------------------------------- the records *)
(* the dimension keys of every dimension-set record are pairwise different, none is `_aws`, and none is the name of
   another member of that record (a metric routed to it, or a string property) *)
Definition keys_ok (a : astate) : Prop :=
  Forall (fun s => NoDup (map fst (as_key s)) /\ ~ In (bs "_aws") (map fst (as_key s)) /\
                   forall k, In k (map fst (as_key s)) -> ~ In k (names (as_members s)) /\ ~ In k (names (a_strings a)))
         (a_sets a).

Lemma nodup_app3 (k m s : list bytes) :
  NoDup k -> NoDup m -> NoDup s ->
  (forall x, In x k -> ~ In x m /\ ~ In x s) -> (forall x, In x m -> ~ In x s) -> NoDup (k ++ m ++ s).
Proof.
  intros Hk Hm Hs Hkm Hms.
  assert (Hms' : NoDup (m ++ s)).
  { clear Hkm Hk. induction Hm as [|x m Hx Hm IH]; cbn [app]; [exact Hs|].
    constructor.
    - intros Hin. apply in_app_or in Hin as [Hin | Hin]; [exact (Hx Hin) | exact (Hms x (or_introl eq_refl) Hin)].
    - apply IH. intros y Hy. apply Hms. right. exact Hy. }
  induction Hk as [|x k Hx Hk IH]; cbn [app]; [exact Hms'|].
  constructor.
  - intros Hin. apply in_app_or in Hin as [Hin | Hin]; [exact (Hx Hin)|].
    destruct (Hkm x (or_introl eq_refl)) as [A B]. apply in_app_or in Hin as [Hin | Hin]; [exact (A Hin) | exact (B Hin)].
  - apply IH. intros y Hy. apply Hkm. right. exact Hy.
Qed.

Lemma value_names_item n v e : In (IValue n v) e -> sm v -> In n (value_names e).
Proof.
  intros Hin Hs. unfold value_names. apply in_flat_map. exists (IValue n v). split; [exact Hin|].
  destruct v; try contradiction; left; reflexivity.
Qed.

Lemma in_as_update s' d : forall m, In s' (as_update m d) -> In s' m \/ s' = d.
Proof.
  induction m as [|x r IH]; cbn [as_update]; intros Hs.
  - destruct Hs as [<- | []]. right. reflexivity.
  - destruct (key_eqb (as_key x) (as_key d)).
    + destruct Hs as [<- | Hs]; [right; reflexivity | left; right; exact Hs].
    + destruct Hs as [<- | Hs]; [left; left; reflexivity|]. destruct (IH Hs) as [H | H]; [left; right; exact H | right; exact H].
Qed.
Lemma as_find_in' m key s : as_find m key = Some s -> In s m.
Proof.
  induction m as [|d r IH]; cbn; [discriminate|].
  destruct (key_eqb _ _); [intros H; inversion H; left; reflexivity | intros H; right; apply IH; exact H].
Qed.

(* where member names come from: a value of the entry *)
Lemma astep_member_names c ftab mult a i n :
  (In n (names (a_members (astep c ftab mult a i))) -> In n (names (a_members a)) \/ exists v, i = IValue n v) /\
  (forall s', In s' (a_sets (astep c ftab mult a i)) -> In n (names (as_members s')) ->
     (exists s, In s (a_sets a) /\ In n (names (as_members s))) \/ exists v, i = IValue n v).
Proof.
  destruct i as [t | [| | d |] | name [| s0 | msgs | os u dims fl]]; cbn [astep a_members a_sets];
    try (split; [intros H; left; exact H | intros s' Hs Hn; left; exists s'; split; assumption]).
  destruct (allow_ignored c || match dims with [] => true | _ => false end).
  - pose proof (add_metric_names ftab mult name os u fl (a_members a) (a_decls a)) as HN.
    destruct (add_metric ftab mult name os u fl (a_members a) (a_decls a)) as [m' d']. cbn [fst] in HN.
    cbn [a_members a_sets]. split.
    + intros H. destruct HN as [HN | HN]; rewrite HN in H; [left; exact H|].
      apply in_app_or in H as [H | [<- | []]]; [left; exact H | right; eexists; reflexivity].
    + intros s' Hs Hn. left. exists s'. split; assumption.
  - set (s0 := match as_find (a_sets a) (sort_dims dims) with Some s => s | None => _ end).
    pose proof (add_metric_names ftab mult name os u fl (as_members s0) (as_decls s0)) as HN.
    destruct (add_metric ftab mult name os u fl (as_members s0) (as_decls s0)) as [m' d']. cbn [fst] in HN.
    cbn [a_members a_sets]. split; [intros H; left; exact H|].
    intros s' Hs Hn.
    assert (Hcases : In s' (a_sets a) \/ s' = mk_aset (as_key s0) (as_each s0) m' d') by (apply in_as_update; exact Hs).
    destruct Hcases as [Hold | ->]; [left; exists s'; split; assumption|].
    cbn [as_members] in Hn. destruct HN as [HN | HN]; rewrite HN in Hn.
    + left. exists s0. split; [|exact Hn]. unfold s0 in *.
      destruct (as_find (a_sets a) (sort_dims dims)) as [sf|] eqn:Ef; [eapply as_find_in'; exact Ef | destruct Hn].
    + apply in_app_or in Hn as [Hn | [<- | []]]; [|right; eexists; reflexivity].
      left. exists s0. split; [|exact Hn]. unfold s0 in *.
      destruct (as_find (a_sets a) (sort_dims dims)) as [sf|] eqn:Ef; [eapply as_find_in'; exact Ef | destruct Hn].
Qed.

Lemma fold_member_names c ftab mult n : forall e a,
  let a' := fold_left (astep c ftab mult) e a in
  (In n (names (a_members a')) -> In n (names (a_members a)) \/ exists v, In (IValue n v) e) /\
  (forall s', In s' (a_sets a') -> In n (names (as_members s')) ->
     (exists s, In s (a_sets a) /\ In n (names (as_members s))) \/ exists v, In (IValue n v) e).
Proof.
  induction e as [|i e IH]; intros a; cbn [fold_left].
  - split; [intros H; left; exact H | intros s' Hs Hn; left; exists s'; split; assumption].
  - specialize (IH (astep c ftab mult a i)). cbv zeta in IH. destruct IH as [I1 I2].
    destruct (astep_member_names c ftab mult a i n) as [A1 A2]. split.
    + intros H. destruct (I1 H) as [H1 | [v Hv]]; [|right; exists v; right; exact Hv].
      destruct (A1 H1) as [H2 | [v ->]]; [left; exact H2 | right; exists v; left; reflexivity].
    + intros s' Hs Hn. destruct (I2 s' Hs Hn) as [(s1 & Hs1 & Hn1) | [v Hv]]; [|right; exists v; right; exact Hv].
      destruct (A2 s1 Hs1 Hn1) as [H2 | [v ->]]; [left; exact H2 | right; exists v; left; reflexivity].
Qed.

(* ---------------------------------------------------------------- the theorem *)
Theorem sound_with_routing c s mult e now ftab script s' out :
  skip_unique c = false -> skip_names c = false -> has_unroutable e = false ->
  format c s mult e now ftab script = (s', ROk, out) ->
  keys_ok (abuild c ftab mult e) ->
  Forall (fun d => NoDup (map fst (members_of d))) (emf_docs c mult e now ftab).
Proof.
  intros Hu Hs Hun Hf Hk.
  pose proof Hf as Hf0. unfold format in Hf0.
  destruct (finish_ok_no_errors _ _ _ _ _ _ _ _ Hf0) as [Hno _].
  pose proof (j_fold c ftab mult e (init_writer c (st s)) a_init Hu Hun (j_init c (st s)) Hno) as HJ.
  fold (abuild c ftab mult e) in HJ. set (a := abuild c ftab mult e) in *.
  set (w := fold_left (do_item c ftab mult) e (init_writer c (st s))) in *.
  destruct HJ as [A B C D E F].
  (* no member is called _aws *)
  assert (Haws_v : forall n v, In (IValue n v) e -> n <> bs "_aws").
  { intros n v Hin. exact (proj2 (accepted_no_reserved c s mult e now ftab script s' out n v Hs Hf Hin)). }
  assert (Haws_g : ~ In (bs "_aws") (names (a_members a))).
  { intros Hin. destruct (fold_member_names c ftab mult (bs "_aws") e a_init) as [I1 _].
    destruct (I1 Hin) as [[] | [v Hv]]. exact (Haws_v _ v Hv eq_refl). }
  assert (Haws_s : ~ In (bs "_aws") (names (a_strings a))).
  { unfold a. rewrite abuild_strings. intros Hin. apply string_names_in in Hin.
    destruct (in_names_split _ _ Hin) as (e2 & v2 & e3 & He & _).
    apply (Haws_v (bs "_aws") v2); [rewrite He; apply in_or_app; right; left; reflexivity | reflexivity]. }
  (* a string name is never a metric of any record *)
  assert (Hsp : forall j n, S_ w n -> ~ P j w n).
  { intros j n Hs1 (idx & Hg & _). unfold S_ in Hs1. rewrite Hs1 in Hg. discriminate. }
  unfold emf_docs. fold a. apply Forall_app. split.
  - (* dimension-set records *)
    apply Forall_forall. intros d Hd. apply in_map_iff in Hd as [s1 [<- Hin]].
    apply filter_In in Hin as [Hin _].
    unfold keys_ok in Hk. rewrite Forall_forall in Hk. destruct (Hk s1 Hin) as (K1 & K2 & K3).
    (* the record's invariant *)
    assert (HS : exists d1, SetInv w d1 s1).
    { clear - D Hin. induction D as [|x y l1 l2 H0 HF IH]; [destruct Hin|].
      destruct Hin as [<- | Hin]; [exists x; exact H0 | exact (IH Hin)]. }
    destruct HS as (d1 & _ & B1 & C1).
    unfold set_doc. cbn [members_of map fst]. rewrite !map_app. rewrite map_map. cbn [fst].
    constructor.
    + intros Hin2. apply in_app_or in Hin2 as [Hin2 | Hin2]; [exact (K2 Hin2)|].
      apply in_app_or in Hin2 as [Hin2 | Hin2]; [|exact (Haws_s Hin2)].
      destruct (fold_member_names c ftab mult (bs "_aws") e a_init) as [_ I2].
      destruct (I2 s1 Hin Hin2) as [(s2 & [] & _) | [v Hv]]. exact (Haws_v _ v Hv eq_refl).
    + apply nodup_app3; [exact K1 | exact C1 | exact E | intros x Hx; exact (K3 x Hx) |].
      intros x Hx Hx2. exact (Hsp (ds_index d1) x (B x Hx2) (B1 x Hx)).
  - (* the record without per-metric dimensions *)
    destruct (_ || _); [|constructor]. constructor; [|constructor].
    unfold global_doc. cbn [members_of map fst]. rewrite map_app.
    constructor.
    + intros Hin. apply in_app_or in Hin as [Hin | Hin]; [exact (Haws_g Hin) | exact (Haws_s Hin)].
    + apply (nodup_app3 [] _ _); [constructor | exact F | exact E | intros x [] |].
      intros x Hx Hx2. exact (Hsp 0%nat x (B x Hx2) (C x Hx)).
Qed.
