(* EMF family (C02, C03, C08, C14, C16) — mechanism model of metrique-writer-format-emf/src/{emf,buf,json_string}.rs.
   The model follows the code's string buffers, comma logic, truncation, maps and early returns literally.
   No proofs in this file. *)
From Coq Require Import String.
From Coq Require Import List NArith ZArith Bool.
From MV Require Import Common.Sx Common.Bytes Common.F64.
Import ListNotations.
Local Open Scope N_scope.

(* ------------------------------------------------------------------ inputs *)

Inductive obs := OUnsigned (n : N) | OFloat (bits : N) | ORepeated (total_bits : N) (occ : N).
Inductive unit_ := UNone | UName (name : bytes).
Inductive flag := FNone | FHigh | FNoMetric | FForeign.
Inductive vcall :=
| VNone                                   (* the value wrote nothing (e.g. an absent Option) *)
| VString (s : bytes)
| VError (msgs : list bytes)              (* ValueWriter::error with these messages *)
| VMetric (os : list obs) (u : unit_) (dims : list (bytes * bytes)) (fl : flag).
Inductive citem := CSplit | CUnroutable | CEntryDims (d : list (list bytes)) | COther.
Inductive item :=
| ITimestamp (nanos : Z)                  (* SystemTime as nanoseconds relative to the epoch *)
| IConfig (c : citem)
| IValue (name : bytes) (v : vcall).
Definition entry := list item.

Record directive := mk_directive {
  d_dims : list (list bytes);
  d_metrics : list (bytes * unit_ * option N);   (* name, unit, storage resolution (1 | 60) *)
  d_namespace : bytes }.

Record config := mk_config {
  skip_unique : bool;
  skip_dims : bool;
  skip_names : bool;
  namespaces : list bytes;                 (* non-empty *)
  default_dims : list (list bytes);        (* non-empty *)
  directives : list directive;
  log_group : option bytes;
  allow_ignored : bool }.

(* writer behaviour for one write_vectored call *)
Inductive wresp := Accept (k : N) | Interrupted | Zero | Fail.

(* ------------------------------------------------------------------ JSON string escaping (serde_json) *)

Definition hex_digit (n : N) : N := if n <? 10 then 48 + n else 87 + n.   (* lower case *)
Definition escape_byte (c : N) : bytes :=
  if c =? 34 then [92; 34]
  else if c =? 92 then [92; 92]
  else if c =? 8 then [92; 98]
  else if c =? 12 then [92; 102]
  else if c =? 10 then [92; 110]
  else if c =? 13 then [92; 114]
  else if c =? 9 then [92; 116]
  else if c <? 32 then [92; 117; 48; 48; hex_digit (c / 16); hex_digit (c mod 16)]
  else [c].
Definition escape (s : bytes) : bytes := flat_map escape_byte s.
Definition jstr (s : bytes) : bytes := 34 :: escape s ++ [34].

Fixpoint join (sep : bytes) (l : list bytes) : bytes :=
  match l with
  | [] => []
  | [x] => x
  | x :: r => x ++ sep ++ join sep r
  end.
Definition comma : bytes := [44].
(* serde_json::to_string(&[String]) *)
Definition jarr_strings (l : list bytes) : bytes := 91 :: join comma (map jstr l) ++ [93].

(* JsonEncodedArray::extend_with_strings on an already encoded array *)
Fixpoint extend_loop (acc : bytes) (first : bool) (names : list bytes) : bytes :=
  match names with
  | [] => acc
  | n :: r => extend_loop ((if first then acc else acc ++ comma) ++ jstr n) false r
  end.
Definition extend_with_strings (enc : bytes) (names : list bytes) : bytes :=
  let first := Nat.eqb (List.length enc) 2 in
  extend_loop (removelast enc) first names ++ [93].

(* ------------------------------------------------------------------ PrefixedStringBuf *)

Record pbuf := mk_pbuf { plen : nat; pdata : bytes }.
Definition pb_new (prefix : bytes) : pbuf := mk_pbuf (List.length prefix) prefix.
Definition pb_is_empty (b : pbuf) : bool := Nat.eqb (List.length (pdata b)) (plen b).
Definition pb_clear (b : pbuf) : pbuf := mk_pbuf (plen b) (firstn (plen b) (pdata b)).
Definition pb_push (b : pbuf) (s : bytes) : pbuf := mk_pbuf (plen b) (pdata b ++ s).
Definition pb_truncate (b : pbuf) (n : nat) : pbuf := mk_pbuf (plen b) (firstn n (pdata b)).
Definition pb_len (b : pbuf) : nat := List.length (pdata b).
Definition pb_extend_within (b : pbuf) (st en : nat) : pbuf :=
  mk_pbuf (plen b) (pdata b ++ firstn (en - st) (skipn st (pdata b))).

(* ------------------------------------------------------------------ formatter state *)

Record dset := mk_dset {
  ds_key : list (bytes * bytes);           (* sorted (name, value) pairs *)
  ds_fields : pbuf;
  ds_metrics : pbuf;
  ds_after_ns : nat;
  ds_index : nat }.

(* the buffers an entry's write calls touch ... *)
Record state := mk_state {
  string_fields : pbuf;
  fields : pbuf;
  metrics : pbuf;
  decl : pbuf;
  dsmap : list dset }.
(* ... and the whole persistent formatter state: dimensions_buf is only used inside finish (cleared first),
   counts_buf only inside write_metric_value (cleared before and after use) *)
Record fstate := mk_fstate { st : state; dimensions : pbuf; counts : pbuf }.

Definition ns_enc (c : config) : list bytes := map jstr (namespaces c).
Definition each_dims_enc (c : config) : list bytes := map jarr_strings (default_dims c).
Definition first_ns (c : config) : bytes := hd [] (ns_enc c).
Definition dims_after_ns : bytes := bs ",""Dimensions"":[".
Definition dims_prefix (c : config) : bytes :=
  bs "{""_aws"":{""CloudWatchMetrics"":[{""Namespace"":" ++ first_ns c ++ dims_after_ns.
Definition after_ns_index (c : config) : nat := List.length (dims_prefix c) - List.length dims_after_ns.
Definition lg_and_ts (c : config) : bytes :=
  match log_group c with
  | Some g => bs "],""LogGroupName"":" ++ jstr g ++ bs ",""Timestamp"":"
  | None => bs "],""Timestamp"":"
  end.

Definition unit_json (u : unit_) : bytes := match u with UNone => jstr (bs "None") | UName n => jstr n end.
Definition metric_def_json (m : bytes * unit_ * option N) : bytes :=
  let '(name, u, sr) := m in
  bs "{""Name"":" ++ jstr name ++ bs ",""Unit"":" ++ unit_json u ++
  (match sr with Some r => bs ",""StorageResolution"":" ++ render_dec r | None => [] end) ++ bs "}".
Definition directive_json (d : directive) : bytes :=
  bs "{""Dimensions"":[" ++ join comma (map jarr_strings (d_dims d)) ++ bs "],""Metrics"":[" ++
  join comma (map metric_def_json (d_metrics d)) ++ bs "],""Namespace"":" ++ jstr (d_namespace d) ++ bs "}".
Definition extra_directives (c : config) : bytes := flat_map (fun d => comma ++ directive_json d) (directives c).

Definition fresh (c : config) : fstate :=
  mk_fstate (mk_state (pb_new []) (pb_new (bs "}")) (pb_new (bs "],""Metrics"":[")) (pb_new (extra_directives c)) [])
            (pb_new (dims_prefix c)) (pb_new (bs "],""Counts"":[")).

(* ------------------------------------------------------------------ per-call writer *)

Inductive kind := KString | KMetric (idx : list nat) | KUnfound.

Record writer := mk_writer {
  w_state : state;
  vmap : list (bytes * kind);
  entry_dims : option (list bytes);
  w_timestamp : option Z;
  errors : list bytes;                     (* in push order *)
  allow_split : bool;
  unroutable : bool }.

Fixpoint vm_get (m : list (bytes * kind)) (k : bytes) : option kind :=
  match m with
  | [] => None
  | (k', v) :: r => if bytes_eqb k' k then Some v else vm_get r k
  end.
Fixpoint vm_set (m : list (bytes * kind)) (k : bytes) (v : kind) : list (bytes * kind) :=
  match m with
  | [] => [(k, v)]
  | (k', v') :: r => if bytes_eqb k' k then (k', v) :: r else (k', v') :: vm_set r k v
  end.

Definition vmap_base (c : config) : list (bytes * kind) :=
  fold_left (fun m d => match vm_get m d with Some _ => m | None => vm_set m d KUnfound end)
            (concat (default_dims c)) [].

Definition for_field (name msg : bytes) : bytes := bs "for `" ++ name ++ bs "`: " ++ msg.
Definition add_error (w : writer) (e : bytes) : writer :=
  mk_writer (w_state w) (vmap w) (entry_dims w) (w_timestamp w) (errors w ++ [e]) (allow_split w) (unroutable w).
Definition set_state (w : writer) (s : state) : writer :=
  mk_writer s (vmap w) (entry_dims w) (w_timestamp w) (errors w) (allow_split w) (unroutable w).
Definition set_vmap (w : writer) (m : list (bytes * kind)) : writer :=
  mk_writer (w_state w) m (entry_dims w) (w_timestamp w) (errors w) (allow_split w) (unroutable w).

(* ------------------------------------------------------------------ numbers *)

(* dtoa text for a finite float is an input (table bits -> text); an unknown float prints as "?" *)
Fixpoint ftab_get (t : list (N * bytes)) (b : N) : bytes :=
  match t with
  | [] => [63]
  | (b', s) :: r => if N.eqb b' b then s else ftab_get r b
  end.
Definition write_float (ftab : list (N * bytes)) (b : N) : bytes :=
  strip_suffix (ftab_get ftab b) (bs ".0").

Definition u64_max : N := 18446744073709551615.
Definition sat_mul (a b : N) : N := N.min (a * b) u64_max.

(* write_observation: Some (value text, count text), None when skipped (NaN) *)
Definition write_observation (ftab : list (N * bytes)) (mult : option N) (o : obs) : option (bytes * bytes) :=
  let m := match mult with Some x => x | None => 1 end in
  match o with
  | OUnsigned v => Some (render_dec v, render_dec m)
  | OFloat b =>
      match clamp_to_finite b with
      | Some f => Some (write_float ftab f, render_dec m)
      | None => None
      end
  | ORepeated total occ =>
      let mean := if occ =? 0 then f64_zero_bits else f64_div_bits total occ in
      match clamp_to_finite mean with
      | Some f => Some (write_float ftab f, render_dec (sat_mul occ m))
      | None => None
      end
  end.

(* the loop of write_metric_value over the 2nd.. observations: (values text, counts text, wrote_anything).
   The separator is pushed when something was written before, and truncated again when the observation is
   skipped (repaired mechanism, see known_findings.json: fixed C02). *)
Fixpoint values_loop (ftab : list (N * bytes)) (mult : option N) (os : list obs)
         (buf cnt : bytes) (wrote_any : bool) : bytes * bytes * bool :=
  match os with
  | [] => (buf, cnt, wrote_any)
  | o :: r =>
      let buf1 := if wrote_any then buf ++ comma else buf in
      let cnt1 := if wrote_any then cnt ++ comma else cnt in
      match write_observation ftab mult o with
      | Some (v, c) => values_loop ftab mult r (buf1 ++ v) (cnt1 ++ c) true
      | None => values_loop ftab mult r (firstn (List.length buf) buf1) (firstn (List.length cnt) cnt1) wrote_any
      end
  end.

Definition counts_prefix : bytes := bs "],""Counts"":[".

(* the Values/Counts form: every case of write_metric_value but the two scalar ones *)
Definition general_value (ftab : list (N * bytes)) (mult : option N) (name : bytes) (first : obs) (rest : list obs)
  : bytes * bool :=
  let head := comma ++ jstr name ++ [58] in
  let '(b0, c0, w0) :=
    match write_observation ftab mult first with
    | Some (v, c) => (v, c, true)
    | None => ([], [], false)
    end in
  let '(buf, cnt, any) := values_loop ftab mult rest b0 c0 w0 in
  (head ++ bs "{""Values"":[" ++ buf ++ counts_prefix ++ cnt ++ bs "]}", any).

(* write_metric_value: (text appended to fields_buf, written?) — false when the metric is skipped *)
Definition write_metric_value (ftab : list (N * bytes)) (mult : option N) (name : bytes) (first : obs) (rest : list obs)
  : bytes * bool (* appended text, ok *) :=
  let head := comma ++ jstr name ++ [58] in
  match first, rest, mult with
  | OUnsigned v, [], None => (head ++ render_dec v, true)
  | OFloat b, [], None =>
      match clamp_to_finite b with
      | Some f => (head ++ write_float ftab f, true)
      | None => (head, false)
      end
  | _, _, _ => general_value ftab mult name first rest
  end.

(* write_metric on (fields_buf, metrics_buf): returns the new pair *)
Definition write_metric (ftab : list (N * bytes)) (mult : option N) (name : bytes) (os : list obs) (u : unit_) (fl : flag)
           (fb mb : pbuf) : pbuf * pbuf :=
  match os with
  | [] => (fb, mb)
  | first :: rest =>
      let idx := pb_len fb in
      let '(txt, ok) := write_metric_value ftab mult name first rest in
      let fb1 := pb_push fb txt in
      if negb ok then (pb_truncate fb1 idx, mb)
      else match fl with
           | FNoMetric => (fb1, mb)
           | _ =>
             let mb1 := if pb_is_empty mb then mb else pb_push mb comma in
             let mb2 := pb_push mb1 (bs "{""Name"":" ++ jstr name) in
             let mb3 := match u with UNone => mb2 | UName n => pb_push mb2 (bs ",""Unit"":" ++ jstr n) end in
             let mb4 := match fl with FHigh => pb_push mb3 (bs ",""StorageResolution"":1}") | _ => pb_push mb3 (bs "}") end in
             (fb1, mb4)
           end
  end.

(* ------------------------------------------------------------------ dimension sets *)

Definition pair_leb (a b : bytes * bytes) : bool :=
  if bytes_eqb (fst a) (fst b) then bytes_leb (snd a) (snd b) else bytes_leb (fst a) (fst b).
Fixpoint insert_sorted (x : bytes * bytes) (l : list (bytes * bytes)) : list (bytes * bytes) :=
  match l with
  | [] => [x]
  | y :: r => if pair_leb x y then x :: l else y :: insert_sorted x r
  end.
Definition sort_dims (l : list (bytes * bytes)) : list (bytes * bytes) := fold_right insert_sorted [] l.

Definition pair_eqb (a b : bytes * bytes) : bool := bytes_eqb (fst a) (fst b) && bytes_eqb (snd a) (snd b).
Fixpoint key_eqb (a b : list (bytes * bytes)) : bool :=
  match a, b with
  | [], [] => true
  | x :: a', y :: b' => pair_eqb x y && key_eqb a' b'
  | _, _ => false
  end.

Definition dset_new (c : config) (each : list bytes) (key : list (bytes * bytes)) (index : nat) : dset :=
  let dims_str := join comma (map (fun d => extend_with_strings d (map fst key)) each) in
  let head := bs "{""_aws"":{""CloudWatchMetrics"":[{""Namespace"":" ++ first_ns c in
  let mb := head ++ bs ",""Dimensions"":[" ++ dims_str ++ bs "],""Metrics"":[" in
  let fb := bs "}" ++ flat_map (fun kv => comma ++ jstr (fst kv) ++ [58] ++ jstr (snd kv)) key in
  mk_dset key (pb_new fb) (pb_new mb) (List.length head) index.

Fixpoint ds_find (m : list dset) (key : list (bytes * bytes)) : option dset :=
  match m with
  | [] => None
  | d :: r => if key_eqb (ds_key d) key then Some d else ds_find r key
  end.
Fixpoint ds_update (m : list dset) (d : dset) : list dset :=
  match m with
  | [] => [d]
  | d' :: r => if key_eqb (ds_key d') (ds_key d) then d :: r else d' :: ds_update r d
  end.

(* ------------------------------------------------------------------ EntryWriter *)

Definition validate_name (c : config) (w : writer) (name : bytes) : writer * bool :=
  if skip_names c then (w, true)
  else if bytes_eqb name [] then (add_error w (for_field [] (bs "name can't be empty")), false)
  else if bytes_eqb name (bs "_aws") then (add_error w (for_field (bs "_aws") (bs "name can't be `_aws`")), false)
  else (w, true).

Definition dup (name : bytes) : bytes := for_field name (bs "duplicate field").

Definition validate_string (w : writer) (name : bytes) : writer :=
  match vm_get (vmap w) name with
  | Some (KMetric _) | Some KString => add_error w (dup name)
  | Some KUnfound => set_vmap w (vm_set (vmap w) name KString)
  | None => set_vmap w (vm_set (vmap w) name KString)
  end.

Definition do_string (c : config) (w : writer) (name value : bytes) : writer :=
  let s := w_state w in
  let s' := mk_state (pb_push (string_fields s) (comma ++ jstr name ++ [58] ++ jstr value))
                     (fields s) (metrics s) (decl s) (dsmap s) in
  let w1 := set_state w s' in
  if skip_unique c then w1 else validate_string w1 name.

Definition validate_metric (w : writer) (name : bytes) (index : nat) : writer :=
  let k := match vm_get (vmap w) name with Some k => k | None => KMetric [] end in
  let w0 := match vm_get (vmap w) name with Some _ => w | None => set_vmap w (vm_set (vmap w) name (KMetric [])) end in
  match k with
  | KUnfound => add_error w0 (for_field name (bs "can't use metric in dimension field"))
  | KMetric idx =>
      if existsb (Nat.eqb index) idx then add_error w0 (dup name)
      else set_vmap w0 (vm_set (vmap w0) name (KMetric (index :: idx)))
  | KString => add_error w0 (dup name)
  end.

Definition split_msg : bytes :=
  bs "can't use per-metric dimensions without split entries - you probably want to remove WithDimensions<>".

Definition do_metric (c : config) (ftab : list (N * bytes)) (mult : option N) (w : writer)
           (name : bytes) (os : list obs) (u : unit_) (dims : list (bytes * bytes)) (fl : flag) : writer :=
  let is_global := allow_ignored c || match dims with [] => true | _ => false end in
  let w1 := if negb is_global && negb (allow_split w) then add_error w (for_field name split_msg) else w in
  let s := w_state w1 in
  if is_global then
    let w2 := if negb (skip_unique c) && negb (unroutable w1) then validate_metric w1 name 0 else w1 in
    let '(fb, mb) := write_metric ftab mult name os u fl (fields s) (metrics s) in
    set_state w2 (mk_state (string_fields s) fb mb (decl s) (dsmap s))
  else
    let key := sort_dims dims in
    let each := match entry_dims w1 with Some e => e | None => each_dims_enc c end in
    let d := match ds_find (dsmap s) key with
             | Some d => d
             | None => dset_new c each key (Datatypes.S (List.length (dsmap s)))
             end in
    let w2 := if negb (skip_unique c) && negb (unroutable w1) then validate_metric w1 name (ds_index d) else w1 in
    let '(fb, mb) := write_metric ftab mult name os u fl (ds_fields d) (ds_metrics d) in
    let d' := mk_dset (ds_key d) fb mb (ds_after_ns d) (ds_index d) in
    set_state w2 (mk_state (string_fields s) (fields s) (metrics s) (decl s) (ds_update (dsmap s) d')).

Definition do_value (c : config) (ftab : list (N * bytes)) (mult : option N) (w : writer) (name : bytes) (v : vcall) : writer :=
  let '(w1, ok) := validate_name c w name in
  if negb ok then w1 else
  match v with
  | VNone => w1
  | VString s => do_string c w1 name s
  | VError msgs => fold_left (fun w m => add_error w (for_field name m)) msgs w1
  | VMetric os u dims fl => do_metric c ftab mult w1 name os u dims fl
  end.

Definition check_entry_dim (c : config) (w : writer) (dim : bytes) : writer :=
  match vm_get (vmap w) dim with
  | Some KUnfound | Some KString => w
  | Some (KMetric _) => if skip_unique c then w else add_error w (dup dim)
  | None => set_vmap w (vm_set (vmap w) dim KUnfound)
  end.

Definition do_config (c : config) (w : writer) (ci : citem) : writer :=
  match ci with
  | CEntryDims d =>
      if negb (match dsmap (w_state w) with [] => true | _ => false end) then
        add_error w (bs "entry dimensions must be configured before emitting a metric with custom dimensions")
      else if match entry_dims w with Some _ => true | None => false end then
        add_error w (bs "entry dimensions cannot be set twice")
      else if match d with [] => true | _ => false end then
        add_error w (bs "entry dimensions cannot be empty")
      else
        let w1 := if negb (skip_unique c) || negb (skip_dims c)
                  then fold_left (check_entry_dim c) (concat d) w else w in
        let enc := flat_map (fun base => map (fun e => extend_with_strings base e) d) (each_dims_enc c) in
        mk_writer (w_state w1) (vmap w1) (Some enc) (w_timestamp w1) (errors w1) (allow_split w1) (unroutable w1)
  | CSplit => mk_writer (w_state w) (vmap w) (entry_dims w) (w_timestamp w) (errors w) true (unroutable w)
  | CUnroutable => mk_writer (w_state w) (vmap w) (entry_dims w) (w_timestamp w) (errors w) (allow_split w) true
  | COther => w
  end.

Definition do_item (c : config) (ftab : list (N * bytes)) (mult : option N) (w : writer) (i : item) : writer :=
  match i with
  | ITimestamp t =>
      let w1 := mk_writer (w_state w) (vmap w) (entry_dims w) (Some t) (errors w) (allow_split w) (unroutable w) in
      match w_timestamp w with Some _ => add_error w1 (bs "multiple timestamps written") | None => w1 end
  | IConfig ci => do_config c w ci
  | IValue name v => do_value c ftab mult w name v
  end.

(* ------------------------------------------------------------------ write_all_vectored *)

Inductive wres := WOk | WZero | WFail.

(* advance_slices: drop empty leading slices and [count] bytes *)
Fixpoint advance (slices : list bytes) (count : nat) : list bytes :=
  match slices with
  | [] => []
  | s :: r => if Nat.leb (List.length s) count then advance r (count - List.length s)
              else skipn count s :: r
  end.
Definition total_len (slices : list bytes) : nat := List.length (concat slices).

(* one response per loop iteration (structural on the script); an exhausted script accepts everything *)
Fixpoint write_all (script : list wresp) (slices : list bytes) (received : bytes)
  : list wresp * bytes * wres :=
  match slices with
  | [] => (script, received, WOk)
  | _ =>
      match script with
      | [] => ([], received ++ concat slices, WOk)
      | Accept k :: sc =>
          let n := Nat.min (Nat.max 1 (N.to_nat k)) (total_len slices) in
          write_all sc (advance slices n) (received ++ firstn n (concat slices))
      | Interrupted :: sc => write_all sc slices received
      | Zero :: sc => (sc, received, WZero)
      | Fail :: sc => (sc, received, WFail)
      end
  end.
Definition write_all_vectored (script : list wresp) (bufs : list bytes) (received : bytes) :=
  write_all script (advance bufs 0) received.

(* ------------------------------------------------------------------ finish *)

Inductive result := ROk | RValidation (msgs : list bytes) | RIo (zero : bool).

Definition missing_dim_errors (w : writer) : list bytes :=
  flat_map (fun kv => match snd kv with KUnfound => [for_field (fst kv) (bs "missing dimension")] | _ => [] end) (vmap w).

Definition millis (t : Z) : N := if (t <? 0)%Z then 0 else Z.to_N (t / 1000000)%Z.

Definition finish_dset (c : config) (ts : bytes) (d : dset) : dset :=
  let mb1 := pb_push (ds_metrics d) (bs "]}") in
  let mlen := pb_len mb1 in
  let mb2 := fold_left (fun mb ns => pb_extend_within (pb_push mb (bs ",{""Namespace"":" ++ ns)) (ds_after_ns d) mlen)
                       (tl (ns_enc c)) mb1 in
  let mb3 := pb_push mb2 (lg_and_ts c ++ ts) in
  mk_dset (ds_key d) (ds_fields d) mb3 (ds_after_ns d) (ds_index d).

(* the loop over dimension_set_map.values_mut(): all entries are finished up to the failing write *)
Fixpoint finish_dsets (c : config) (ts : bytes) (sf : bytes) (ds : list dset) (script : list wresp) (received : bytes) (emitted : bool)
  : list dset * list wresp * bytes * bool * wres :=
  match ds with
  | [] => ([], script, received, emitted, WOk)
  | d :: r =>
      let d' := finish_dset c ts d in
      if pb_is_empty (ds_fields d') then
        let '(r', sc, rec, em, res) := finish_dsets c ts sf r script received emitted in
        (d' :: r', sc, rec, em, res)
      else
        let '(sc, rec, res) := write_all_vectored script [pdata (ds_metrics d'); pdata (ds_fields d'); sf] received in
        match res with
        | WOk => let '(r', sc', rec', em, res') := finish_dsets c ts sf r sc rec true in (d' :: r', sc', rec', em, res')
        | _ => (d' :: r, sc, rec, true, res)
        end
  end.

Definition finish (c : config) (now_ms : N) (w : writer) (dim cnt : pbuf) (script : list wresp) : fstate * result * bytes :=
  let errs := errors w ++ (if negb (skip_dims c) && negb (unroutable w) then missing_dim_errors w else []) in
  let ts := render_dec (match w_timestamp w with Some t => millis t | None => now_ms end) in
  let s := w_state w in
  match errs with
  | _ :: _ => (mk_fstate s dim cnt, RValidation errs, [])
  | [] =>
    let decl1 := pb_push (decl s) (lg_and_ts c ++ ts) in
    let sf1 := pb_push (string_fields s) (bs "}" ++ [10]) in
    let '(ds', sc, rec, emitted, res) := finish_dsets c ts (pdata sf1) (dsmap s) script [] false in
    let s1 := mk_fstate (mk_state sf1 (fields s) (metrics s) decl1 ds') dim cnt in
    match res with
    | WZero => (s1, RIo true, rec)
    | WFail => (s1, RIo false, rec)
    | WOk =>
      if negb emitted || negb (pb_is_empty (fields s)) then
        let dims_list := match entry_dims w with Some e => e | None => each_dims_enc c end in
        let dim1 := pb_push (pb_clear dim) (join comma dims_list) in
        let mb1 := pb_push (metrics s) (bs "]}") in
        let mlen := pb_len mb1 in
        let mb2 := fold_left (fun mb ns =>
                     pb_extend_within (pb_push mb (bs ",{""Namespace"":" ++ ns ++ skipn (after_ns_index c) (pdata dim1))) 0 mlen)
                     (tl (ns_enc c)) mb1 in
        let s2 := mk_fstate (mk_state sf1 (fields s) mb2 decl1 ds') dim1 cnt in
        let '(sc2, rec2, res2) :=
          write_all_vectored sc [pdata dim1; pdata mb2; pdata decl1; pdata (fields s); pdata sf1] rec in
        match res2 with
        | WOk => (s2, ROk, rec2)
        | WZero => (s2, RIo true, rec2)
        | WFail => (s2, RIo false, rec2)
        end
      else (s1, ROk, rec)
    end
  end.

(* ------------------------------------------------------------------ format_with_multiplicity *)

Definition prologue (s : state) : state :=
  mk_state (pb_clear (string_fields s)) (pb_clear (fields s)) (pb_clear (metrics s)) (pb_clear (decl s)) [].

Definition init_writer (c : config) (s : state) : writer :=
  mk_writer (prologue s) (if skip_dims c then [] else vmap_base c) None None [] false false.

Definition format (c : config) (s : fstate) (mult : option N) (e : entry)
           (now_ms : N) (ftab : list (N * bytes)) (script : list wresp) : fstate * result * bytes :=
  let w := fold_left (do_item c ftab mult) e (init_writer c (st s)) in
  finish c now_ms w (dimensions s) (counts s) script.

(* a sequence of calls on one formatter *)
Record call := mk_call { c_mult : option N; c_entry : entry; c_now : N; c_ftab : list (N * bytes); c_script : list wresp }.
Definition format_call (c : config) (s : fstate) (k : call) := format c s (c_mult k) (c_entry k) (c_now k) (c_ftab k) (c_script k).
Fixpoint run_calls (c : config) (s : fstate) (ks : list call) : list (result * bytes) :=
  match ks with
  | [] => []
  | k :: r => let '(s', res, out) := format_call c s k in (res, out) :: run_calls c s' r
  end.

(* constructors: Emf::all_validations / builder().build() / builder().skip_all_validations(b) / no_validations,
   as functions of the build profile's debug_assertions bit *)
Inductive ctor := AllValidations | Builder | BuilderSkip (b : bool) | NoValidations.
Definition builder_default (debug_assertions : bool) : bool := negb debug_assertions.   (* skip flags *)
Definition ctor_skip (debug_assertions : bool) (k : ctor) : bool :=
  match k with
  | AllValidations => false                 (* always validates (repaired: see known_findings.json, fixed C08) *)
  | Builder => builder_default debug_assertions
  | BuilderSkip b => builder_default debug_assertions || b
  | NoValidations => true
  end.
