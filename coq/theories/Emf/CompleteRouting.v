(* C08, completeness for split mode: writing two metrics under one name INTO THE SAME RECORD is rejected, whichever
   record that is — the one without per-metric dimensions or the record of a sorted dimension list — and whether or not
   either of them has a usable value.  (Complete.v had this for the record without per-metric dimensions only.)
   The same name in two DIFFERENT records is legitimate (one member per record) and is accepted. *)
From Coq Require Import String.
From Coq Require Import List NArith ZArith Bool Lia.
From MV Require Import Common.Sx Common.Bytes Json.Json Emf.Model Emf.Spec Emf.Validate Emf.Complete Emf.Content
                       Emf.VMap Emf.Sound Emf.SoundRouting Emf.ContentSplit.
Import ListNotations.

(* ---------------------------------------------------------------- ds_find after ds_update *)
Lemma ds_find_update_same m d : ds_find (ds_update m d) (ds_key d) = Some d.
Proof.
  induction m as [|x r IH]; cbn [ds_update ds_find]; [rewrite key_eqb_refl; reflexivity|].
  destruct (key_eqb (ds_key x) (ds_key d)) eqn:E; cbn [ds_find]; [rewrite key_eqb_refl; reflexivity|].
  rewrite E. exact IH.
Qed.
Lemma ds_find_update_other m d key : ds_key d <> key -> ds_find (ds_update m d) key = ds_find m key.
Proof.
  intros Hn. induction m as [|x r IH]; cbn [ds_update ds_find]; [rewrite (key_eqb_neq _ _ Hn); reflexivity|].
  destruct (key_eqb (ds_key x) (ds_key d)) eqn:E; cbn [ds_find].
  - apply key_eqb_eq in E. rewrite E. rewrite (key_eqb_neq _ _ Hn). reflexivity.
  - destruct (key_eqb (ds_key x) key); [reflexivity | exact IH].
Qed.
Lemma ds_find_key m key d : ds_find m key = Some d -> ds_key d = key.
Proof.
  induction m as [|x r IH]; cbn [ds_find]; [discriminate|].
  destruct (key_eqb (ds_key x) key) eqn:E; [intros H; inversion H; subst; apply key_eqb_eq; exact E | exact IH].
Qed.

(* ---------------------------------------------------------------- which metric names were written to which record *)
Definition written (c : config) (r : option (list (bytes * bytes))) (e : entry) : list bytes :=
  flat_map (fun i => match i with
                     | IValue n (VMetric _ _ dims _) => if okey_eqb (route c dims) r then [n] else []
                     | _ => [] end) e.

(* the name map knows every metric name written so far, with the index of its record *)
Record W (c : config) (w : writer) (e : entry) : Prop := {
  w_unr : unroutable w = false;
  w_glob : forall n, In n (written c None e) -> P 0 w n;
  w_sets : forall key n, In n (written c (Some key) e) ->
             exists d, ds_find (dsmap (w_state w)) key = Some d /\ P (ds_index d) w n
}.

Lemma written_snoc c r e i : written c r (e ++ [i]) = written c r e ++ written c r [i].
Proof. unfold written. rewrite flat_map_app. reflexivity. Qed.

Lemma dsmap_frame_item c ftab mult w i :
  (match i with IValue _ (VMetric _ _ _ _) => False | _ => True end) ->
  dsmap (w_state (do_item c ftab mult w i)) = dsmap (w_state w).
Proof.
  intros Hi. destruct i as [t | ci | name v]; cbn [do_item].
  - destruct (w_timestamp w); reflexivity.
  - unfold do_config. destruct ci as [| | d |]; try reflexivity.
    destruct (negb _); [reflexivity|]. destruct (match entry_dims w with Some _ => true | None => false end); [reflexivity|].
    destruct d; [reflexivity|]. cbn [w_state].
    destruct (negb (skip_unique c) || negb (skip_dims c)); [|reflexivity].
    pose proof (fold_check_frame c (concat (l :: d)) w) as F. cbv zeta in F. destruct F as (F & _). rewrite F. reflexivity.
  - unfold do_value. destruct (validate_name c w name) as [w1 ok] eqn:Hv. destruct ok; cbn [negb].
    2: { unfold validate_name in Hv. destruct (skip_names c); [inversion Hv|].
         destruct (bytes_eqb name []); [inversion Hv; reflexivity|].
         destruct (bytes_eqb name (bs "_aws")); inversion Hv; reflexivity. }
    apply validate_name_true in Hv. subst w1.
    destruct v as [| s0 | msgs | os u dims fl]; try contradiction; try reflexivity.
    + unfold do_string. destruct (skip_unique c); [reflexivity|].
      match goal with |- context [validate_string ?ww name] =>
        pose proof (validate_string_frame ww name) as V; cbv zeta in V; destruct V as (V1 & _); rewrite V1 end. reflexivity.
    + apply fold_add_error_frame_state.
Qed.

Lemma w_step c ftab mult w e i :
  skip_unique c = false ->
  (match i with IConfig CUnroutable => False | _ => True end) ->
  W c w e -> errors w = [] -> errors (do_item c ftab mult w i) = [] ->
  W c (do_item c ftab mult w i) (e ++ [i]).
Proof.
  intros Hu Hi [A B C] He Hno.
  pose proof (vm_le_item c ftab mult w i) as Hle.
  assert (Hunr : unroutable (do_item c ftab mult w i) = false) by (apply unroutable_frame_item; assumption).
  destruct i as [t | ci | name v].
  1,2: (constructor; [exact Hunr | |]; [intros n Hn | intros key n Hn]; rewrite written_snoc in Hn; cbn in Hn; rewrite app_nil_r in Hn;
        [eapply P_le; [exact Hle | apply B; exact Hn] |
         destruct (C key n Hn) as (d & Hf & Hp); exists d; split; [rewrite dsmap_frame_item; [exact Hf | exact I] | eapply P_le; [exact Hle | exact Hp]]]).
  destruct v as [| s0 | msgs | os u dims fl].
  1,2,3: (constructor; [exact Hunr | |]; [intros n Hn | intros key n Hn]; rewrite written_snoc in Hn; cbn in Hn; rewrite app_nil_r in Hn;
          [eapply P_le; [exact Hle | apply B; exact Hn] |
           destruct (C key n Hn) as (d & Hf & Hp); exists d; split; [rewrite dsmap_frame_item; [exact Hf | exact I] | eapply P_le; [exact Hle | exact Hp]]]).
  (* a metric *)
  cbn [do_item] in *. unfold do_value in *.
  destruct (validate_name c w name) as [w1 ok] eqn:Hv. destruct ok; cbn [negb] in *.
  2: { exfalso. exact (validate_name_false _ _ _ _ Hv Hno). }
  apply validate_name_true in Hv. subst w1.
  unfold do_metric in *. rewrite Hu in *. cbn [negb andb] in *.
  set (w1 := if negb _ && negb (allow_split w) then _ else w) in *.
  assert (S1 : w_state w1 = w_state w) by (unfold w1; destruct (negb _ && negb _); reflexivity).
  assert (V1 : vmap w1 = vmap w) by (unfold w1; destruct (negb _ && negb _); reflexivity).
  assert (U1 : unroutable w1 = false) by (unfold w1; destruct (negb _ && negb _); exact A).
  assert (E1 : errors w1 = []).
  { unfold w1 in *. destruct (negb _ && negb (allow_split w)); [|exact He].
    exfalso. destruct (allow_ignored c || match dims with [] => true | _ => false end).
    - destruct (write_metric _ _ _ _ _ _ _ _) in Hno. cbn [errors set_state] in Hno.
      rewrite U1 in Hno. cbn [negb] in Hno.
      match type of Hno with errors (validate_metric ?ww ?nn ?jj) = [] => pose proof (grows_validate_metric ww nn jj) as G end.
      exact (add_error_not_nil _ _ (grows_nil _ _ G Hno)).
    - destruct (write_metric _ _ _ _ _ _ _ _) in Hno. cbn [errors set_state] in Hno.
      rewrite U1 in Hno. cbn [negb] in Hno.
      match type of Hno with errors (validate_metric ?ww ?nn ?jj) = [] => pose proof (grows_validate_metric ww nn jj) as G end.
      exact (add_error_not_nil _ _ (grows_nil _ _ G Hno)). }
  rewrite S1, U1 in *. cbn [negb] in *.
  assert (Hnew : forall r n, In n (written c r [IValue name (VMetric os u dims fl)]) -> okey_eqb (route c dims) r = true /\ n = name).
  { intros r n Hn. unfold written in Hn. cbn [flat_map] in Hn. rewrite app_nil_r in Hn.
    destruct (okey_eqb (route c dims) r); [destruct Hn as [<- | []]; split; reflexivity | destruct Hn]. }
  unfold route in Hnew.
  destruct (allow_ignored c || match dims with [] => true | _ :: _ => false end) eqn:Eg.
  - (* the record without per-metric dimensions *)
    destruct (write_metric ftab mult name os u fl (fields (w_state w)) (metrics (w_state w))) as [fb mb].
    cbn [errors set_state] in Hno.
    destruct (validate_metric_clean w1 name 0 E1 Hno) as (_ & _ & PP).
    constructor; cbn [set_state unroutable w_state dsmap vmap].
    + exact Hunr.
    + intros n Hn. rewrite written_snoc in Hn. apply in_app_or in Hn as [Hn | Hn]; [eapply P_le; [exact Hle | apply B; exact Hn]|].
      destruct (Hnew None n Hn) as [_ ->]. destruct PP as (idx & Hg & Hin). exists idx. split; assumption.
    + intros key n Hn. rewrite written_snoc in Hn. apply in_app_or in Hn as [Hn | Hn].
      * destruct (C key n Hn) as (d & Hf & Hp). exists d. split; [exact Hf | eapply P_le; [exact Hle | exact Hp]].
      * destruct (Hnew (Some key) n Hn) as [Hk _]. cbn in Hk. discriminate.
  - (* the record of a sorted dimension list *)
    set (k0 := sort_dims dims) in *.
    set (each := match entry_dims w1 with Some e0 => e0 | None => each_dims_enc c end) in *.
    set (d0 := match ds_find (dsmap (w_state w)) k0 with Some d => d | None => dset_new c each k0 _ end) in *.
    assert (K0 : ds_key d0 = k0).
    { unfold d0. destruct (ds_find (dsmap (w_state w)) k0) eqn:Ef; [eapply ds_find_key; exact Ef | reflexivity]. }
    destruct (write_metric ftab mult name os u fl (ds_fields d0) (ds_metrics d0)) as [fb mb].
    cbn [errors set_state] in Hno.
    destruct (validate_metric_clean w1 name (ds_index d0) E1 Hno) as (_ & _ & PP).
    constructor; cbn [set_state unroutable w_state dsmap vmap].
    + exact Hunr.
    + intros n Hn. rewrite written_snoc in Hn. apply in_app_or in Hn as [Hn | Hn]; [eapply P_le; [exact Hle | apply B; exact Hn]|].
      destruct (Hnew None n Hn) as [Hk _]. cbn in Hk. discriminate.
    + intros key n Hn. rewrite written_snoc in Hn.
      set (d1 := mk_dset (ds_key d0) fb mb (ds_after_ns d0) (ds_index d0)).
      destruct (key_eqb k0 key) eqn:Ek.
      * apply key_eqb_eq in Ek. subst key. exists d1. split.
        -- pose proof (ds_find_update_same (dsmap (w_state w)) d1) as HX. cbn [d1 ds_key] in HX. rewrite K0 in HX. exact HX.
        -- cbn [d1 ds_index]. apply in_app_or in Hn as [Hn | Hn].
           ++ destruct (C k0 n Hn) as (d & Hf & Hp). eapply P_le; [exact Hle|].
              assert (Hd : ds_index d0 = ds_index d) by (unfold d0; rewrite Hf; reflexivity). rewrite Hd. exact Hp.
           ++ destruct (Hnew (Some k0) n Hn) as [_ ->]. destruct PP as (idx & Hg & Hin). exists idx. split; assumption.
      * apply in_app_or in Hn as [Hn | Hn].
        -- destruct (C key n Hn) as (d & Hf & Hp). exists d. split.
           ++ rewrite ds_find_update_other; [exact Hf|]. change (ds_key d0 <> key). rewrite K0. intros ->. rewrite key_eqb_refl in Ek. discriminate.
           ++ eapply P_le; [exact Hle | exact Hp].
        -- destruct (Hnew (Some key) n Hn) as [Hk _]. cbn [okey_eqb] in Hk. fold k0 in Hk. rewrite Ek in Hk. discriminate.
Qed.

Lemma w_init c s : W c (init_writer c s) [].
Proof. constructor; cbn; [reflexivity | intros n [] | intros key n []]. Qed.

(* all steps, as long as no error was recorded *)
Lemma w_fold c ftab mult : forall e2 w e1,
  skip_unique c = false -> has_unroutable e2 = false ->
  W c w e1 -> errors (fold_left (do_item c ftab mult) e2 w) = [] ->
  W c (fold_left (do_item c ftab mult) e2 w) (e1 ++ e2).
Proof.
  induction e2 as [|i e2 IH]; intros w e1 Hu Hun HW Hno; cbn [fold_left] in *; [rewrite app_nil_r; exact HW|].
  assert (Hi : match i with IConfig CUnroutable => False | _ => True end)
    by (destruct i as [| [| | |] |]; cbn in Hun; try exact I; discriminate).
  assert (Hun' : has_unroutable e2 = false) by (destruct i as [| [| | |] |]; cbn in Hun; try exact Hun; discriminate).
  pose proof (grows_nil _ _ (grows_fold_items c ftab mult e2 (do_item c ftab mult w i)) Hno) as H1.
  pose proof (grows_nil _ _ (grows_do_item c ftab mult w i) H1) as H0.
  replace (e1 ++ i :: e2) with ((e1 ++ [i]) ++ e2) by (rewrite <- app_assoc; reflexivity).
  apply IH; try assumption. apply w_step; assumption.
Qed.

(* a second metric of the same name routed to the same record records an error *)
Lemma second_metric_errors c ftab mult w e n os u dims fl :
  skip_unique c = false -> W c w e -> errors w = [] ->
  In n (written c (route c dims) e) ->
  errors (do_item c ftab mult w (IValue n (VMetric os u dims fl))) <> [].
Proof.
  intros Hu [A B C] He Hin Hno.
  cbn [do_item] in Hno. unfold do_value in Hno.
  destruct (validate_name c w n) as [w1 ok] eqn:Hv. destruct ok; cbn [negb] in Hno.
  2: { exact (validate_name_false _ _ _ _ Hv Hno). }
  apply validate_name_true in Hv. subst w1.
  unfold do_metric in Hno. rewrite Hu in Hno. cbn [negb andb] in Hno.
  set (w1 := if negb _ && negb (allow_split w) then _ else w) in *.
  assert (S1 : w_state w1 = w_state w) by (unfold w1; destruct (negb _ && negb _); reflexivity).
  assert (V1 : vmap w1 = vmap w) by (unfold w1; destruct (negb _ && negb _); reflexivity).
  assert (U1 : unroutable w1 = false) by (unfold w1; destruct (negb _ && negb _); exact A).
  rewrite S1, U1 in Hno. cbn [negb] in Hno.
  unfold route in Hin.
  destruct (allow_ignored c || match dims with [] => true | _ :: _ => false end) eqn:Eg.
  - destruct (write_metric ftab mult n os u fl (fields (w_state w)) (metrics (w_state w))) as [fb mb].
    cbn [errors set_state] in Hno.
    destruct (B n Hin) as (idx & Hg & Hi0).
    unfold validate_metric in Hno. rewrite V1, Hg in Hno. rewrite (existsb_eqb_in 0 idx Hi0) in Hno.
    exact (add_error_not_nil _ _ Hno).
  - set (k0 := sort_dims dims) in *.
    destruct (C k0 n Hin) as (d & Hf & (idx & Hg & Hi0)).
    rewrite Hf in Hno.
    destruct (write_metric ftab mult n os u fl (ds_fields d) (ds_metrics d)) as [fb mb].
    cbn [errors set_state] in Hno.
    unfold validate_metric in Hno. rewrite V1, Hg in Hno. rewrite (existsb_eqb_in (ds_index d) idx Hi0) in Hno.
    exact (add_error_not_nil _ _ Hno).
Qed.

(* two metrics of one name in one record: rejected, wherever that record is *)
Theorem dup_metric_metric_same_record_rejected c s mult e1 n os u dims fl e2 os' u' dims' fl' e3 now ftab script :
  skip_unique c = false ->
  has_unroutable (e1 ++ IValue n (VMetric os u dims fl) :: e2) = false ->
  route c dims = route c dims' ->
  rejected c s mult (e1 ++ IValue n (VMetric os u dims fl) :: e2 ++ IValue n (VMetric os' u' dims' fl') :: e3) now ftab script.
Proof.
  intros Hu Hun Hr.
  set (pre := e1 ++ IValue n (VMetric os u dims fl) :: e2) in *.
  replace (e1 ++ IValue n (VMetric os u dims fl) :: e2 ++ IValue n (VMetric os' u' dims' fl') :: e3)
    with ((pre ++ [IValue n (VMetric os' u' dims' fl')]) ++ e3)
    by (unfold pre; repeat rewrite <- app_assoc; cbn [app]; repeat rewrite <- app_assoc; reflexivity).
  apply reject_after_prefix. rewrite fold_left_app. cbn [fold_left].
  set (w := fold_left (do_item c ftab mult) pre (init_writer c (st s))).
  destruct (errors w) as [|m ms] eqn:Ew.
  - (* no error so far: the name map knows n in that record *)
    pose proof (w_fold c ftab mult pre (init_writer c (st s)) [] Hu Hun (w_init c (st s)) Ew) as HW. cbn [app] in HW. fold w in HW.
    apply (second_metric_errors c ftab mult w pre n os' u' dims' fl' Hu HW Ew).
    rewrite <- Hr. unfold written, pre. rewrite flat_map_app. apply in_or_app. right. cbn [flat_map].
    rewrite okey_eqb_refl. left. reflexivity.
  - (* an earlier error is kept *)
    pose proof (grows_do_item c ftab mult w (IValue n (VMetric os' u' dims' fl'))) as [l Hl].
    rewrite Hl, Ew. discriminate.
Qed.

(* and the same name in two different records is fine: e.g. one metric name under two dimension lists *)
Example same_name_two_records_accepted :
  let c := mk_config false false false [bs "ns"] [[]] [] None false in
  let e := [ITimestamp 5; IConfig CSplit;
            IValue (bs "m") (VMetric [OUnsigned 1] UNone [(bs "d", bs "a")] FNone);
            IValue (bs "m") (VMetric [OUnsigned 2] UNone [(bs "d", bs "b")] FNone);
            IValue (bs "m") (VMetric [OUnsigned 3] UNone [] FNone)] in
  snd (fst (format c (fresh c) None e 0%N [] [])) = ROk.
Proof. vm_compute. reflexivity. Qed.
