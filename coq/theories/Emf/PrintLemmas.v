(* Shapes of printed JSON, and the agreement of the formatter's hand-rolled encoders with the printer. *)
From Coq Require Import String.
From Coq Require Import List NArith ZArith Bool Lia.
From MV Require Import Common.Sx Common.Bytes Json.Json Emf.Model.
Import ListNotations.

(* ",key:value" — how every member after the first is laid out *)
Definition cm (kv : bytes * json) : bytes := comma ++ print_str (fst kv) ++ [58%N] ++ print (snd kv).
Definition member (kv : bytes * json) : bytes := print_str (fst kv) ++ [58%N] ++ print (snd kv).

Definition obj_go := fix go (m : list (bytes * json)) (first : bool) : bytes :=
  match m with
  | [] => []
  | (k, v) :: r => (if first then [] else [44%N]) ++ print_str k ++ [58%N] ++ print v ++ go r false
  end.
Definition arr_go := fix go (l : list json) (first : bool) : bytes :=
  match l with
  | [] => []
  | x :: r => (if first then [] else [44%N]) ++ print x ++ go r false
  end.

Lemma print_obj_unfold m : print (JObj m) = 123%N :: obj_go m true ++ [125%N].
Proof. reflexivity. Qed.
Lemma print_arr_unfold l : print (JArr l) = 91%N :: arr_go l true ++ [93%N].
Proof. reflexivity. Qed.

Lemma obj_go_false m : obj_go m false = concat (map cm m).
Proof.
  induction m as [|[k v] r IH]; [reflexivity|].
  cbn [obj_go map concat]. fold obj_go. rewrite IH. unfold cm, comma. cbn [fst snd].
  rewrite <- !app_assoc. reflexivity.
Qed.
Lemma obj_go_true kv r : obj_go (kv :: r) true = member kv ++ concat (map cm r).
Proof.
  destruct kv as [k v]. cbn [obj_go]. fold obj_go. rewrite obj_go_false. unfold member. cbn [fst snd app].
  rewrite <- !app_assoc. reflexivity.
Qed.

Lemma print_obj_cons kv r : print (JObj (kv :: r)) = 123%N :: member kv ++ concat (map cm r) ++ [125%N].
Proof. rewrite print_obj_unfold, obj_go_true, <- app_assoc. reflexivity. Qed.
Lemma print_obj_nil : print (JObj []) = [123%N; 125%N].
Proof. reflexivity. Qed.

Lemma arr_go_false l : arr_go l false = concat (map (fun x => comma ++ print x) l).
Proof.
  induction l as [|x r IH]; [reflexivity|]. cbn [arr_go map concat]. fold arr_go. rewrite IH.
  unfold comma. rewrite <- !app_assoc. reflexivity.
Qed.
Lemma join_cons2 (x y : bytes) r : join comma (x :: y :: r) = x ++ comma ++ join comma (y :: r).
Proof. reflexivity. Qed.
Lemma join_cons_comma (x : bytes) (r : list bytes) :
  join comma (x :: r) = x ++ concat (map (fun y => comma ++ y) r).
Proof.
  revert x; induction r as [|y r IH]; intros x.
  - cbn. rewrite app_nil_r. reflexivity.
  - rewrite join_cons2, IH. cbn [map concat]. rewrite <- !app_assoc. reflexivity.
Qed.
Lemma arr_go_true l : arr_go l true = join comma (map print l).
Proof.
  destruct l as [|x r]; [reflexivity|]. cbn [arr_go map]. fold arr_go. rewrite arr_go_false, join_cons_comma.
  cbn [app]. rewrite map_map. reflexivity.
Qed.
Lemma print_arr l : print (JArr l) = 91%N :: join comma (map print l) ++ [93%N].
Proof. rewrite print_arr_unfold, arr_go_true. reflexivity. Qed.

(* appending to a comma-joined list *)
Lemma join_snoc (l : list bytes) (x : bytes) :
  join comma (l ++ [x]) = join comma l ++ (match l with [] => [] | _ => comma end) ++ x.
Proof.
  destruct l as [|y r]; [reflexivity|].
  change ((y :: r) ++ [x]) with (y :: (r ++ [x])).
  rewrite !join_cons_comma, map_app, concat_app. cbn [map concat]. rewrite app_nil_r, <- !app_assoc. reflexivity.
Qed.
Lemma concat_map_snoc {A} (f : A -> bytes) l x : concat (map f (l ++ [x])) = concat (map f l) ++ f x.
Proof. rewrite map_app, concat_app. cbn. rewrite app_nil_r. reflexivity. Qed.

(* the formatter's string encoder is the printer's *)
Lemma jstr_print_str s : jstr s = print_str s.
Proof. reflexivity. Qed.

Lemma jarr_strings_print l : jarr_strings l = print (JArr (map JStr l)).
Proof. unfold jarr_strings. rewrite print_arr, map_map. reflexivity. Qed.

Lemma jstr_length s : 2 <= length (jstr s).
Proof. unfold jstr. cbn [length]. rewrite app_length. cbn. lia. Qed.

Lemma extend_loop_spec names : forall acc first,
  extend_loop acc first names =
  acc ++ match names with
         | [] => []
         | n :: r => (if first then [] else comma) ++ jstr n ++ concat (map (fun x => comma ++ jstr x) r)
         end.
Proof.
  induction names as [|n r IH]; intros acc first; cbn [extend_loop]; [rewrite app_nil_r; reflexivity|].
  rewrite IH. destruct r as [|n2 r2].
  - cbn [map concat]. rewrite !app_nil_r. destruct first; rewrite <- ?app_assoc; reflexivity.
  - cbn [map concat]. destruct first; rewrite <- !app_assoc; reflexivity.
Qed.

Lemma removelast_app_single {A} (l : list A) (x : A) : removelast (l ++ [x]) = l.
Proof. apply removelast_last. Qed.

Lemma extend_with_strings_spec l names :
  extend_with_strings (jarr_strings l) names = jarr_strings (l ++ names).
Proof.
  unfold extend_with_strings, jarr_strings.
  change (91%N :: join comma (map jstr l) ++ [93%N]) with ((91%N :: join comma (map jstr l)) ++ [93%N]).
  rewrite removelast_app_single. rewrite extend_loop_spec.
  destruct names as [|n r].
  - rewrite !app_nil_r. reflexivity.
  - destruct l as [|x xs].
    + change (join comma (map jstr [])) with (@nil N). cbn [app length Nat.eqb].
      change (map jstr (n :: r)) with (jstr n :: map jstr r). rewrite join_cons_comma, map_map. reflexivity.
    + assert (Hlen : Nat.eqb (length ((91%N :: join comma (map jstr (x :: xs))) ++ [93%N])) 2 = false).
      { apply PeanoNat.Nat.eqb_neq. rewrite app_length. cbn [length map]. rewrite join_cons_comma, app_length.
        pose proof (jstr_length x). cbn [length]. lia. }
      rewrite Hlen. rewrite (List.map_app jstr (x :: xs) (n :: r)). cbn [map app].
      rewrite !join_cons_comma. rewrite map_app, concat_app. cbn [map concat].
      rewrite !map_map. cbn [app]. rewrite <- !app_assoc. reflexivity.
Qed.
