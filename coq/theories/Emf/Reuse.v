(* C14 — the formatter's persistent buffers cannot carry information from one call to the next. *)
From Coq Require Import String.
From Coq Require Import List NArith ZArith Bool Lia.
From MV Require Import Common.Sx Common.Bytes Emf.Model.
Import ListNotations.

Definition has_prefix (b : pbuf) (prefix : bytes) : Prop :=
  plen b = length prefix /\ firstn (plen b) (pdata b) = prefix.

(* what every formatter state reachable from [fresh c] satisfies *)
Record Inv (c : config) (s : fstate) : Prop := {
  inv_sf : has_prefix (string_fields (st s)) [];
  inv_f : has_prefix (fields (st s)) (bs "}");
  inv_m : has_prefix (metrics (st s)) (bs "],""Metrics"":[");
  inv_decl : has_prefix (decl (st s)) (extra_directives c);
  inv_dim : has_prefix (dimensions s) (dims_prefix c)
}.

Lemma has_prefix_new p : has_prefix (pb_new p) p.
Proof. unfold has_prefix, pb_new; cbn. split; [reflexivity | apply firstn_all]. Qed.

Lemma has_prefix_push b p x : has_prefix b p -> has_prefix (pb_push b x) p.
Proof.
  intros [Hl Hf]. unfold has_prefix, pb_push; cbn. split; [exact Hl|].
  assert (plen b <= length (pdata b)).
  { rewrite <- Hf in Hl. rewrite firstn_length in Hl. lia. }
  rewrite firstn_app. replace (plen b - length (pdata b)) with 0 by lia.
  cbn. rewrite app_nil_r. exact Hf.
Qed.

Lemma has_prefix_clear b p : has_prefix b p -> pb_clear b = pb_new p.
Proof. intros [Hl Hf]. unfold pb_clear, pb_new. rewrite Hf, Hl. reflexivity. Qed.

Lemma has_prefix_extend b p s e : has_prefix b p -> has_prefix (pb_extend_within b s e) p.
Proof. intros H. unfold pb_extend_within. apply (has_prefix_push b p _ H). Qed.

Lemma has_prefix_truncate b p n : has_prefix b p -> plen b <= n -> has_prefix (pb_truncate b n) p.
Proof.
  intros [Hl Hf] Hn. unfold has_prefix, pb_truncate; cbn. split; [exact Hl|].
  rewrite firstn_firstn. replace (Nat.min (plen b) n) with (plen b) by lia. exact Hf.
Qed.

Lemma has_prefix_len b p : has_prefix b p -> plen b <= pb_len b.
Proof. intros [Hl Hf]. unfold pb_len. rewrite <- Hf in Hl. rewrite firstn_length in Hl. lia. Qed.

Lemma inv_fresh c : Inv c (fresh c).
Proof. constructor; apply has_prefix_new. Qed.

(* after the clearing prologue a reachable state is exactly the fresh one *)
Lemma prologue_fresh c s : Inv c s -> prologue (st s) = prologue (st (fresh c)).
Proof.
  intros [H1 H2 H3 H4 H5]. unfold prologue. cbn.
  rewrite (has_prefix_clear _ _ H1), (has_prefix_clear _ _ H2), (has_prefix_clear _ _ H3), (has_prefix_clear _ _ H4).
  rewrite !(has_prefix_clear _ _ (has_prefix_new _)). reflexivity.
Qed.

Lemma dim_clear_fresh c s : Inv c s -> pb_clear (dimensions s) = pb_clear (dimensions (fresh c)).
Proof.
  intros [_ _ _ _ H5]. rewrite (has_prefix_clear _ _ H5). cbn.
  rewrite (has_prefix_clear _ _ (has_prefix_new _)). reflexivity.
Qed.

(* finish reads the dimensions buffer only through pb_clear, and never reads the counts buffer *)
Lemma finish_dim_irrelevant c now w dim1 dim2 cnt1 cnt2 script :
  pb_clear dim1 = pb_clear dim2 ->
  snd (fst (finish c now w dim1 cnt1 script)) = snd (fst (finish c now w dim2 cnt2 script)) /\
  snd (finish c now w dim1 cnt1 script) = snd (finish c now w dim2 cnt2 script).
Proof.
  intros Hd. unfold finish.
  destruct (errors w ++ _) as [|e es]; [|split; reflexivity].
  destruct (finish_dsets c _ _ (dsmap (w_state w)) script [] false) as [[[[ds' sc] rec] emitted] res].
  destruct res; try (split; reflexivity).
  destruct (negb emitted || negb (pb_is_empty (fields (w_state w)))); [|split; reflexivity].
  rewrite Hd.
  destruct (write_all_vectored sc _ rec) as [[sc2 rec2] res2].
  destruct res2; split; reflexivity.
Qed.

Lemma format_history_free c s mult e now ftab script :
  Inv c s ->
  snd (fst (format c s mult e now ftab script)) = snd (fst (format c (fresh c) mult e now ftab script)) /\
  snd (format c s mult e now ftab script) = snd (format c (fresh c) mult e now ftab script).
Proof.
  intros HI. unfold format, init_writer.
  rewrite (prologue_fresh c s HI).
  apply finish_dim_irrelevant. apply dim_clear_fresh. exact HI.
Qed.

(* ---------------------------------------------------------------- the invariant is preserved by every call *)

Record InvS (c : config) (s : state) : Prop := {
  is_sf : has_prefix (string_fields s) [];
  is_f : has_prefix (fields s) (bs "}");
  is_m : has_prefix (metrics s) (bs "],""Metrics"":[");
  is_decl : has_prefix (decl s) (extra_directives c)
}.

Lemma has_prefix_clear' b p : has_prefix b p -> has_prefix (pb_clear b) p.
Proof. intros H. rewrite (has_prefix_clear b p H). apply has_prefix_new. Qed.

Lemma invs_prologue c s : InvS c s -> InvS c (prologue s).
Proof. intros [H1 H2 H3 H4]. constructor; cbn; apply has_prefix_clear'; assumption. Qed.

Lemma write_metric_prefix ftab mult name os u fl fb mb pf pm :
  has_prefix fb pf -> has_prefix mb pm ->
  has_prefix (fst (write_metric ftab mult name os u fl fb mb)) pf /\
  has_prefix (snd (write_metric ftab mult name os u fl fb mb)) pm.
Proof.
  intros Hf Hm. unfold write_metric. destruct os as [|first rest]; [split; assumption|].
  destruct (write_metric_value ftab mult name first rest) as [txt ok].
  destruct ok; cbn [negb].
  - destruct fl; cbn [fst snd]; split;
      repeat first [ assumption | apply has_prefix_push
                   | match goal with |- has_prefix (if ?b then _ else _) _ => destruct b end
                   | match goal with |- has_prefix (match ?u with UNone => _ | UName _ => _ end) _ => destruct u end ].
  - cbn [fst snd]. split; [|assumption].
    apply has_prefix_truncate; [apply has_prefix_push; assumption|].
    cbn. apply (has_prefix_len _ _ Hf).
Qed.

Lemma add_error_state w e : w_state (add_error w e) = w_state w.
Proof. reflexivity. Qed.
Lemma set_vmap_state w m : w_state (set_vmap w m) = w_state w.
Proof. reflexivity. Qed.
Lemma validate_metric_state w name idx : w_state (validate_metric w name idx) = w_state w.
Proof.
  unfold validate_metric. destruct (vm_get (vmap w) name) as [[| idx' |]|]; cbn;
    try reflexivity; destruct (existsb _ _); reflexivity.
Qed.
Lemma validate_string_state w name : w_state (validate_string w name) = w_state w.
Proof. unfold validate_string. destruct (vm_get (vmap w) name) as [[| |]|]; reflexivity. Qed.
Lemma validate_name_state c w name : w_state (fst (validate_name c w name)) = w_state w.
Proof.
  unfold validate_name. destruct (skip_names c); [reflexivity|].
  destruct (bytes_eqb name []); [reflexivity|]. destruct (bytes_eqb name (bs "_aws")); reflexivity.
Qed.
Lemma fold_add_error_state (msgs : list bytes) name : forall w,
  w_state (fold_left (fun w m => add_error w (for_field name m)) msgs w) = w_state w.
Proof. induction msgs as [|m ms IH]; intros w; cbn; [reflexivity|]. rewrite IH. reflexivity. Qed.
Lemma check_entry_dim_state c w d : w_state (check_entry_dim c w d) = w_state w.
Proof.
  unfold check_entry_dim. destruct (vm_get (vmap w) d) as [[| |]|]; try reflexivity.
  destruct (skip_unique c); reflexivity.
Qed.
Lemma fold_check_entry_dim_state c ds : forall w, w_state (fold_left (check_entry_dim c) ds w) = w_state w.
Proof. induction ds as [|d ds IH]; intros w; cbn; [reflexivity|]. rewrite IH. apply check_entry_dim_state. Qed.

Lemma do_string_invs c w name v : InvS c (w_state w) -> InvS c (w_state (do_string c w name v)).
Proof.
  intros [H1 H2 H3 H4]. unfold do_string.
  destruct (skip_unique c); [|rewrite validate_string_state]; cbn;
    (constructor; cbn; [apply has_prefix_push|..]; assumption).
Qed.

Lemma do_metric_invs c ftab mult w name os u dims fl :
  InvS c (w_state w) -> InvS c (w_state (do_metric c ftab mult w name os u dims fl)).
Proof.
  intros HI. unfold do_metric.
  set (w1 := if negb _ && negb (allow_split w) then _ else w).
  assert (Hw1 : w_state w1 = w_state w) by (unfold w1; destruct (negb _ && negb _); reflexivity).
  destruct (allow_ignored c || _).
  - rewrite Hw1.
    pose proof (write_metric_prefix ftab mult name os u fl (fields (w_state w)) (metrics (w_state w)) _ _
                 (is_f _ _ HI) (is_m _ _ HI)) as [Hf Hm].
    destruct (write_metric ftab mult name os u fl (fields (w_state w)) (metrics (w_state w))) as [fb mb].
    cbn [fst snd] in *. cbn. destruct HI as [H1 H2 H3 H4]. constructor; cbn; assumption.
  - rewrite Hw1.
    match goal with |- context [write_metric ?a ?b ?cc ?d ?e ?f ?g ?h] => destruct (write_metric a b cc d e f g h) as [fb mb] end.
    cbn. destruct HI as [H1 H2 H3 H4]. constructor; cbn; assumption.
Qed.

Lemma do_item_invs c ftab mult w i : InvS c (w_state w) -> InvS c (w_state (do_item c ftab mult w i)).
Proof.
  intros HI. destruct i as [t | ci | name v]; cbn [do_item].
  - destruct (w_timestamp w); cbn; exact HI.
  - unfold do_config. destruct ci as [| | d |]; try exact HI.
    destruct (negb _); [exact HI|]. destruct (match entry_dims w with Some _ => true | None => false end); [exact HI|].
    destruct d as [|d0 dr]; [exact HI|]. cbn -[fold_left concat flat_map].
    destruct (negb (skip_unique c) || negb (skip_dims c)); [rewrite fold_check_entry_dim_state|]; exact HI.
  - unfold do_value. pose proof (validate_name_state c w name) as Hn.
    destruct (validate_name c w name) as [w1 ok]. cbn [fst] in Hn. destruct ok; cbn [negb]; [|rewrite Hn; exact HI].
    rewrite <- Hn in HI. destruct v as [| s | msgs | os u dims fl].
    + exact HI.
    + apply do_string_invs. exact HI.
    + rewrite fold_add_error_state. exact HI.
    + apply do_metric_invs. exact HI.
Qed.

Lemma fold_do_item_invs c ftab mult e : forall w,
  InvS c (w_state w) -> InvS c (w_state (fold_left (do_item c ftab mult) e w)).
Proof. induction e as [|i e IH]; intros w HI; cbn; [exact HI|]. apply IH. apply do_item_invs. exact HI. Qed.

Lemma fold_push_extend_prefix (nss : list bytes) p (g : bytes -> bytes) st_ en : forall mb,
  has_prefix mb p ->
  has_prefix (fold_left (fun mb ns => pb_extend_within (pb_push mb (g ns)) st_ en) nss mb) p.
Proof.
  induction nss as [|ns nss IH]; intros mb H; cbn; [exact H|].
  apply IH. apply has_prefix_extend. apply has_prefix_push. exact H.
Qed.

Lemma finish_inv c now w dim cnt script :
  InvS c (w_state w) -> has_prefix dim (dims_prefix c) ->
  Inv c (fst (fst (finish c now w dim cnt script))).
Proof.
  intros [H1 H2 H3 H4] Hd. unfold finish.
  pose proof (has_prefix_clear _ _ Hd) as Hclr.
  assert (Hnew : has_prefix (pb_new (dims_prefix c)) (dims_prefix c)) by apply has_prefix_new.
  Ltac solve_pref :=
    repeat first [ assumption | apply has_prefix_push | apply fold_push_extend_prefix ].
  destruct (errors w ++ _) as [|e es]; [|constructor; cbn; assumption].
  destruct (finish_dsets c _ _ (dsmap (w_state w)) script [] false) as [[[[ds' sc] rec] emitted] res].
  destruct res; cbn [fst]; try (constructor; cbn; solve_pref; fail).
  destruct (negb emitted || negb (pb_is_empty (fields (w_state w)))); cbn [fst];
    [|constructor; cbn; solve_pref].
  destruct (write_all_vectored sc _ rec) as [[sc2 rec2] res2].
  destruct res2; cbn [fst]; (constructor; cbn; solve_pref; rewrite Hclr; solve_pref).
Qed.

Lemma format_inv c s mult e now ftab script : Inv c s -> Inv c (fst (fst (format c s mult e now ftab script))).
Proof.
  intros [H1 H2 H3 H4 H5]. unfold format. apply finish_inv; [|exact H5].
  apply fold_do_item_invs. unfold init_writer. cbn [w_state]. apply invs_prologue.
  constructor; assumption.
Qed.

(* reachable states: any sequence of calls starting from a freshly built formatter *)
Inductive Reach (c : config) : fstate -> Prop :=
| reach_fresh : Reach c (fresh c)
| reach_call s k : Reach c s -> Reach c (fst (fst (format_call c s k))).

Lemma reach_inv c s : Reach c s -> Inv c s.
Proof. induction 1 as [|s k HR IH]; [apply inv_fresh | apply format_inv; exact IH]. Qed.

Lemma history_free c s k :
  Reach c s ->
  snd (fst (format_call c s k)) = snd (fst (format_call c (fresh c) k)) /\
  snd (format_call c s k) = snd (format_call c (fresh c) k).
Proof. intros HR. unfold format_call. apply format_history_free. apply reach_inv. exact HR. Qed.

(* the per-call observations of a whole sequence are those of each call on a fresh formatter *)
Lemma run_calls_reach c ks : forall s, Reach c s ->
  run_calls c s ks = map (fun k => let '(_, r, o) := format_call c (fresh c) k in (r, o)) ks.
Proof.
  induction ks as [|k ks IH]; intros s HR; [reflexivity|].
  cbn [run_calls map]. pose proof (history_free c s k HR) as [Hr Ho].
  pose proof (reach_call c s k HR) as HR'.
  destruct (format_call c s k) as [[s' r] o]. destruct (format_call c (fresh c) k) as [[s'' r'] o'].
  cbn [fst snd] in *. subst. f_equal. apply IH. exact HR'.
Qed.
