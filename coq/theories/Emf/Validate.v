(* C08 — validation only gates checks: it never changes what an accepted entry's bytes are. *)
From Coq Require Import String.
From Coq Require Import List NArith ZArith Bool Lia.
From MV Require Import Common.Sx Common.Bytes Emf.Model.
Import ListNotations.

(* ---------------------------------------------------------------- errors only ever grow *)

Definition grows (w w' : writer) : Prop := exists l, errors w' = errors w ++ l.

Lemma grows_refl w : grows w w.
Proof. exists []. rewrite app_nil_r. reflexivity. Qed.
Lemma grows_trans a b c : grows a b -> grows b c -> grows a c.
Proof. intros [l1 H1] [l2 H2]. exists (l1 ++ l2). rewrite H2, H1, app_assoc. reflexivity. Qed.
Lemma grows_add_error w e : grows w (add_error w e).
Proof. exists [e]. reflexivity. Qed.
Lemma grows_same_errors w w' : errors w' = errors w -> grows w w'.
Proof. intros H. exists []. rewrite app_nil_r. exact H. Qed.

Lemma grows_validate_metric w name idx : grows w (validate_metric w name idx).
Proof.
  unfold validate_metric.
  destruct (vm_get (vmap w) name) as [k|].
  - destruct k as [| idx' |].
    + apply grows_add_error.
    + destruct (existsb (Nat.eqb idx) idx'); [apply grows_add_error | apply grows_same_errors; reflexivity].
    + apply grows_add_error.
  - cbn [existsb]. apply grows_same_errors. reflexivity.
Qed.
Lemma grows_validate_string w name : grows w (validate_string w name).
Proof.
  unfold validate_string. destruct (vm_get (vmap w) name) as [[| |]|];
    try apply grows_add_error; apply grows_same_errors; reflexivity.
Qed.
Lemma grows_validate_name c w name : grows w (fst (validate_name c w name)).
Proof.
  unfold validate_name. destruct (skip_names c); [apply grows_refl|].
  destruct (bytes_eqb name []); [apply grows_add_error|].
  destruct (bytes_eqb name (bs "_aws")); [apply grows_add_error | apply grows_refl].
Qed.
Lemma grows_fold_errors (msgs : list bytes) name : forall w,
  grows w (fold_left (fun w m => add_error w (for_field name m)) msgs w).
Proof.
  induction msgs as [|m ms IH]; intros w; cbn; [apply grows_refl|].
  eapply grows_trans; [apply grows_add_error | apply IH].
Qed.
Lemma grows_check_entry_dim c w d : grows w (check_entry_dim c w d).
Proof.
  unfold check_entry_dim. destruct (vm_get (vmap w) d) as [[| |]|]; try apply grows_refl.
  - destruct (skip_unique c); [apply grows_refl | apply grows_add_error].
  - apply grows_same_errors. reflexivity.
Qed.
Lemma grows_fold_check c ds : forall w, grows w (fold_left (check_entry_dim c) ds w).
Proof.
  induction ds as [|d ds IH]; intros w; cbn; [apply grows_refl|].
  eapply grows_trans; [apply grows_check_entry_dim | apply IH].
Qed.

Lemma grows_do_string c w name v : grows w (do_string c w name v).
Proof.
  unfold do_string. destruct (skip_unique c).
  - apply grows_same_errors. reflexivity.
  - eapply grows_trans; [|apply grows_validate_string]. apply grows_same_errors. reflexivity.
Qed.

Lemma grows_do_metric c ftab mult w name os u dims fl : grows w (do_metric c ftab mult w name os u dims fl).
Proof.
  unfold do_metric.
  set (w1 := if negb _ && negb (allow_split w) then _ else w).
  assert (H1 : grows w w1) by (unfold w1; destruct (negb _ && negb _); [apply grows_add_error | apply grows_refl]).
  destruct (allow_ignored c || _).
  - destruct (write_metric ftab mult name os u fl _ _) as [fb mb].
    eapply grows_trans; [exact H1|].
    destruct (negb (skip_unique c) && negb (unroutable w1)).
    + eapply grows_trans; [apply grows_validate_metric|]. apply grows_same_errors. reflexivity.
    + apply grows_same_errors. reflexivity.
  - match goal with |- context [write_metric ?a ?b ?cc ?d ?e ?f ?g ?h] => destruct (write_metric a b cc d e f g h) as [fb mb] end.
    eapply grows_trans; [exact H1|].
    destruct (negb (skip_unique c) && negb (unroutable w1)).
    + eapply grows_trans; [apply grows_validate_metric|]. apply grows_same_errors. reflexivity.
    + apply grows_same_errors. reflexivity.
Qed.

Lemma grows_do_item c ftab mult w i : grows w (do_item c ftab mult w i).
Proof.
  destruct i as [t | ci | name v]; cbn [do_item].
  - destruct (w_timestamp w); [eapply grows_trans; [|apply grows_add_error]|]; apply grows_same_errors; reflexivity.
  - unfold do_config. destruct ci as [| | d |]; try (apply grows_same_errors; reflexivity).
    destruct (negb _); [apply grows_add_error|].
    destruct (match entry_dims w with Some _ => true | None => false end); [apply grows_add_error|].
    destruct d as [|d0 dr]; [apply grows_add_error|].
    destruct (negb (skip_unique c) || negb (skip_dims c)).
    + eapply grows_trans; [apply (grows_fold_check c (concat (d0 :: dr)) w)|]. apply grows_same_errors. reflexivity.
    + apply grows_same_errors. reflexivity.
  - unfold do_value. pose proof (grows_validate_name c w name) as Hn.
    destruct (validate_name c w name) as [w1 ok]. cbn [fst] in Hn. destruct ok; cbn [negb]; [|exact Hn].
    eapply grows_trans; [exact Hn|]. destruct v as [| s | msgs | os u dims fl].
    + apply grows_refl.
    + apply grows_do_string.
    + apply grows_fold_errors.
    + apply grows_do_metric.
Qed.

Lemma grows_fold_items c ftab mult e : forall w, grows w (fold_left (do_item c ftab mult) e w).
Proof.
  induction e as [|i e IH]; intros w; cbn; [apply grows_refl|].
  eapply grows_trans; [apply grows_do_item | apply IH].
Qed.

Lemma grows_nil w w' : grows w w' -> errors w' = [] -> errors w = [].
Proof. intros [l H] H0. rewrite H0 in H. symmetry in H. apply app_eq_nil in H. tauto. Qed.

(* ---------------------------------------------------------------- validations on vs. off *)

Definition all_off (c : config) : config :=
  mk_config true true true (namespaces c) (default_dims c) (directives c) (log_group c) (allow_ignored c).

Record Sim (w1 w2 : writer) : Prop := {
  sim_state : w_state w1 = w_state w2;
  sim_ed : entry_dims w1 = entry_dims w2;
  sim_ts : w_timestamp w1 = w_timestamp w2;
  sim_split : allow_split w1 = allow_split w2;
  sim_unr : unroutable w1 = unroutable w2;
  sim_e1 : errors w1 = [];
  sim_e2 : errors w2 = []
}.

Lemma add_error_not_nil w e : errors (add_error w e) = [] -> False.
Proof. cbn. intros H. apply app_eq_nil in H. destruct H as [_ H]. discriminate. Qed.

Lemma validate_metric_frame w name idx :
  let w' := validate_metric w name idx in
  w_state w' = w_state w /\ entry_dims w' = entry_dims w /\ w_timestamp w' = w_timestamp w /\
  allow_split w' = allow_split w /\ unroutable w' = unroutable w.
Proof.
  unfold validate_metric. destruct (vm_get (vmap w) name) as [[| idx' |]|]; cbn;
    try (destruct (existsb _ _)); cbn; repeat split; reflexivity.
Qed.
Lemma validate_string_frame w name :
  let w' := validate_string w name in
  w_state w' = w_state w /\ entry_dims w' = entry_dims w /\ w_timestamp w' = w_timestamp w /\
  allow_split w' = allow_split w /\ unroutable w' = unroutable w.
Proof. unfold validate_string. destruct (vm_get (vmap w) name) as [[| |]|]; cbn; repeat split; reflexivity. Qed.
Lemma check_entry_dim_frame c w d :
  let w' := check_entry_dim c w d in
  w_state w' = w_state w /\ entry_dims w' = entry_dims w /\ w_timestamp w' = w_timestamp w /\
  allow_split w' = allow_split w /\ unroutable w' = unroutable w.
Proof.
  unfold check_entry_dim. destruct (vm_get (vmap w) d) as [[| |]|]; cbn; try (destruct (skip_unique c)); cbn;
    repeat split; reflexivity.
Qed.
Lemma fold_check_frame c ds : forall w,
  let w' := fold_left (check_entry_dim c) ds w in
  w_state w' = w_state w /\ entry_dims w' = entry_dims w /\ w_timestamp w' = w_timestamp w /\
  allow_split w' = allow_split w /\ unroutable w' = unroutable w.
Proof.
  induction ds as [|d ds IH]; intros w; cbn; [repeat split; reflexivity|].
  specialize (IH (check_entry_dim c w d)). cbv zeta in IH.
  pose proof (check_entry_dim_frame c w d) as F. cbv zeta in F.
  destruct IH as (A & B & C & D & E). destruct F as (A' & B' & C' & D' & E').
  repeat split; congruence.
Qed.

Lemma sim_do_string c w1 w2 name v :
  Sim w1 w2 -> errors (do_string c w1 name v) = [] -> Sim (do_string c w1 name v) (do_string (all_off c) w2 name v).
Proof.
  intros [Hs He Ht Hsp Hu E1 E2] Hno. unfold do_string in *. cbn [skip_unique all_off].
  destruct (skip_unique c).
  - constructor; cbn; try congruence.
  - set (w1' := set_state w1 _) in *.
    pose proof (validate_string_frame w1' name) as F. cbv zeta in F. destruct F as (A & B & C & D & E).
    constructor.
    + rewrite A. unfold w1'. cbn. rewrite Hs. reflexivity.
    + rewrite B. exact He.
    + rewrite C. exact Ht.
    + rewrite D. exact Hsp.
    + rewrite E. exact Hu.
    + exact Hno.
    + exact E2.
Qed.

Lemma sim_do_metric c ftab mult w1 w2 name os u dims fl :
  Sim w1 w2 -> errors (do_metric c ftab mult w1 name os u dims fl) = [] ->
  Sim (do_metric c ftab mult w1 name os u dims fl) (do_metric (all_off c) ftab mult w2 name os u dims fl).
Proof.
  intros [Hs He Ht Hsp Hu E1 E2] Hno. unfold do_metric in *.
  cbn [allow_ignored skip_unique all_off negb andb] in *.
  change (each_dims_enc (all_off c)) with (each_dims_enc c).
  destruct (allow_ignored c || match dims with [] => true | _ :: _ => false end) eqn:Hg; cbn [negb andb] in *.
  - (* global *)
    rewrite <- Hs.
    destruct (write_metric ftab mult name os u fl (fields (w_state w1)) (metrics (w_state w1))) as [fb mb].
    destruct (negb (skip_unique c) && negb (unroutable w1)).
    + pose proof (validate_metric_frame w1 name 0) as F. cbv zeta in F. destruct F as (A & B & C & D & E).
      constructor; cbn in *; try congruence.
    + constructor; cbn in *; try congruence.
  - (* routed to a dimension set *)
    destruct (negb (allow_split w1)) eqn:Hal.
    + (* split error in the validating run: impossible *)
      exfalso. cbn [negb andb] in Hno.
      match type of Hno with context [write_metric ?a ?b ?cc ?d ?e ?f ?g ?h] => destruct (write_metric a b cc d e f g h) as [fb mb] end.
      destruct (negb (skip_unique c) && negb _).
      * pose proof (grows_validate_metric (add_error w1 (for_field name split_msg)) name
                     (ds_index match ds_find (dsmap (w_state (add_error w1 (for_field name split_msg)))) (sort_dims dims) with
                               | Some d => d
                               | None => dset_new c match entry_dims (add_error w1 (for_field name split_msg)) with Some e => e | None => each_dims_enc c end
                                           (sort_dims dims) (Datatypes.S (length (dsmap (w_state (add_error w1 (for_field name split_msg))))))
                               end)) as G.
        cbn in Hno. apply (grows_nil _ _ G) in Hno. exact (add_error_not_nil _ _ Hno).
      * cbn in Hno. apply app_eq_nil in Hno. destruct Hno as [_ Hno]. discriminate.
    + rewrite <- Hsp, Hal. cbn [negb andb]. rewrite <- Hs, <- He.
      change (first_ns (all_off c)) with (first_ns c).
      replace (dset_new (all_off c)) with (dset_new c) by reflexivity.
      match goal with |- context [write_metric ?a ?b ?cc ?d ?e ?f ?g ?h] => destruct (write_metric a b cc d e f g h) as [fb mb] end.
      destruct (negb (skip_unique c) && negb (unroutable w1)).
      * match goal with |- context [validate_metric w1 name ?i] =>
          pose proof (validate_metric_frame w1 name i) as F end.
        cbv zeta in F. destruct F as (A & B & C & D & E).
        constructor; cbn in *; try congruence.
      * constructor; cbn in *; try congruence.
Qed.

Lemma sim_do_item c ftab mult w1 w2 i :
  Sim w1 w2 -> errors (do_item c ftab mult w1 i) = [] ->
  Sim (do_item c ftab mult w1 i) (do_item (all_off c) ftab mult w2 i).
Proof.
  intros HS Hno. pose proof HS as [Hs He Ht Hsp Hu E1 E2].
  destruct i as [t | ci | name v]; cbn [do_item] in *.
  - rewrite <- Ht. destruct (w_timestamp w1).
    + exfalso. exact (add_error_not_nil _ _ Hno).
    + constructor; cbn; congruence.
  - unfold do_config in *. destruct ci as [| | d |].
    + constructor; cbn; congruence.
    + constructor; cbn; congruence.
    + rewrite <- Hs, <- He. cbn [skip_unique skip_dims all_off negb orb].
      change (each_dims_enc (all_off c)) with (each_dims_enc c).
      destruct (negb match dsmap (w_state w1) with [] => true | _ :: _ => false end);
        [exfalso; exact (add_error_not_nil _ _ Hno)|].
      destruct (match entry_dims w1 with Some _ => true | None => false end);
        [exfalso; exact (add_error_not_nil _ _ Hno)|].
      destruct d as [|d0 dr]; [exfalso; exact (add_error_not_nil _ _ Hno)|].
      destruct (negb (skip_unique c) || negb (skip_dims c)).
      * pose proof (fold_check_frame c (concat (d0 :: dr)) w1) as F. cbv zeta in F. destruct F as (A & B & C & D & E).
        constructor; cbn in *; try congruence.
      * constructor; cbn in *; congruence.
    + exact HS.
  - unfold do_value in *. cbn [skip_names all_off validate_name].
    unfold validate_name in *. cbn [skip_names all_off].
    destruct (skip_names c).
    + cbn [negb] in *. destruct v as [| s | msgs | os u dims fl].
      * exact HS.
      * apply sim_do_string; assumption.
      * destruct msgs as [|m ms]; [exact HS|]. exfalso. cbn [fold_left] in Hno.
        pose proof (grows_fold_errors ms name (add_error w1 (for_field name m))) as G.
        apply (grows_nil _ _ G) in Hno. exact (add_error_not_nil _ _ Hno).
      * apply sim_do_metric; assumption.
    + destruct (bytes_eqb name []); [exfalso; exact (add_error_not_nil _ _ Hno)|].
      destruct (bytes_eqb name (bs "_aws")); [exfalso; exact (add_error_not_nil _ _ Hno)|].
      cbn [negb] in *. destruct v as [| s | msgs | os u dims fl].
      * exact HS.
      * apply sim_do_string; assumption.
      * destruct msgs as [|m ms]; [exact HS|]. exfalso. cbn [fold_left] in Hno.
        pose proof (grows_fold_errors ms name (add_error w1 (for_field name m))) as G.
        apply (grows_nil _ _ G) in Hno. exact (add_error_not_nil _ _ Hno).
      * apply sim_do_metric; assumption.
Qed.

Lemma sim_fold c ftab mult e : forall w1 w2,
  Sim w1 w2 -> errors (fold_left (do_item c ftab mult) e w1) = [] ->
  Sim (fold_left (do_item c ftab mult) e w1) (fold_left (do_item (all_off c) ftab mult) e w2).
Proof.
  induction e as [|i e IH]; intros w1 w2 HS Hno; cbn [fold_left] in *; [exact HS|].
  apply IH; [|exact Hno]. apply sim_do_item; [exact HS|].
  exact (grows_nil _ _ (grows_fold_items c ftab mult e (do_item c ftab mult w1 i)) Hno).
Qed.

Lemma finish_ok_no_errors c now w dim cnt script s out :
  finish c now w dim cnt script = (s, ROk, out) ->
  errors w = [] /\ (negb (skip_dims c) && negb (unroutable w) = true -> missing_dim_errors w = []).
Proof.
  unfold finish.
  destruct (errors w ++ _) as [|e es] eqn:He; [|intros Hd; discriminate].
  intros _. apply app_eq_nil in He. destruct He as [H1 H2]. split; [exact H1|].
  intros Hb. rewrite Hb in H2. exact H2.
Qed.

Lemma finish_dsets_all_off c ts sf ds : forall script rec em,
  finish_dsets (all_off c) ts sf ds script rec em = finish_dsets c ts sf ds script rec em.
Proof.
  induction ds as [|d ds IH]; intros script rec em; cbn [finish_dsets]; [reflexivity|].
  change (finish_dset (all_off c) ts d) with (finish_dset c ts d).
  destruct (pb_is_empty (ds_fields (finish_dset c ts d))).
  - rewrite IH. reflexivity.
  - destruct (write_all_vectored script _ rec) as [[sc rec'] res]. destruct res; try reflexivity.
    rewrite IH. reflexivity.
Qed.

Lemma finish_sim c now w1 w2 dim cnt script s out :
  Sim w1 w2 ->
  finish c now w1 dim cnt script = (s, ROk, out) ->
  exists s', finish (all_off c) now w2 dim cnt script = (s', ROk, out).
Proof.
  intros [Hs He Ht Hsp Hu E1 E2] Hf. unfold finish in *.
  cbn [skip_dims all_off negb andb]. rewrite E2. cbn [app].
  destruct (errors w1 ++ _) as [|e es]; [|discriminate].
  rewrite <- Hs, <- He, <- Ht.
  change (lg_and_ts (all_off c)) with (lg_and_ts c).
  change (each_dims_enc (all_off c)) with (each_dims_enc c).
  change (ns_enc (all_off c)) with (ns_enc c).
  change (after_ns_index (all_off c)) with (after_ns_index c).
  rewrite finish_dsets_all_off.
  destruct (finish_dsets c _ _ (dsmap (w_state w1)) script [] false) as [[[[ds' sc] rec] emitted] res].
  destruct res; try discriminate.
  destruct (negb emitted || negb (pb_is_empty (fields (w_state w1)))).
  - destruct (write_all_vectored sc _ rec) as [[sc2 rec2] res2].
    destruct res2; try discriminate. inversion Hf; subst. eexists. reflexivity.
  - inversion Hf; subst. eexists. reflexivity.
Qed.

(* Whatever validation switches are on: an accepted entry's bytes are exactly what the formatter writes with every
   validation disabled (validation never alters output), for every formatter state, entry, multiplicity, writer. *)
Lemma validation_transparent c s mult e now ftab script s1 out :
  format c s mult e now ftab script = (s1, ROk, out) ->
  exists s2, format (all_off c) s mult e now ftab script = (s2, ROk, out).
Proof.
  unfold format. intros Hf.
  pose proof (finish_ok_no_errors _ _ _ _ _ _ _ _ Hf) as [Hno _].
  eapply finish_sim; [|exact Hf].
  apply sim_fold; [|exact Hno].
  unfold init_writer. constructor; cbn; reflexivity.
Qed.
