(* C02 keystone — the buffer mechanism prints exactly the documents of the reference interpretation. *)
From Coq Require Import String.
From Coq Require Import List NArith ZArith Bool Lia.
From MV Require Import Common.Sx Common.Bytes Common.F64 Json.Json Emf.Model Emf.Spec Emf.PrintLemmas.
Import ListNotations.

(* closed byte-string literals are computed to explicit lists so that both sides normalise alike *)
Ltac lits :=
  repeat match goal with
         | |- context [bs ?s] => let v := eval vm_compute in (bs s) in change (bs s) with v
         | |- context [print_str ?l] =>
             match l with
             | context [bs] => fail 1
             | _ => is_closed_list l; let v := eval vm_compute in (print_str l) in change (print_str l) with v
             end
         end
with is_closed_list l :=
  match l with
  | nil => idtac
  | cons ?x ?r => match x with N0 => idtac | Npos _ => idtac end; is_closed_list r
  end.
Ltac flat := repeat (rewrite <- ?app_assoc; cbn [app]).

(* ---------------------------------------------------------------- observations *)
Definition kb (ftab : list (N * bytes)) (mult : option N) (os : list obs) : list (bytes * bytes) :=
  flat_map (fun o => match write_observation ftab mult o with Some p => [p] | None => [] end) os.

Lemma kept_kb ftab mult os : kept ftab mult os = map (fun p => (JNum (fst p), JNum (snd p))) (kb ftab mult os).
Proof.
  unfold kept, kb, obs_json. induction os as [|o r IH]; [reflexivity|]. cbn [flat_map].
  rewrite IH. destruct (write_observation ftab mult o) as [[v c]|]; cbn [map app fst snd]; reflexivity.
Qed.

Definition seps (any : bool) (l : list bytes) : bytes :=
  if any then concat (map (fun y => comma ++ y) l) else join comma l.

Lemma firstn_app_exact {A} (a b : list A) : firstn (length a) (a ++ b) = a.
Proof. rewrite firstn_app, PeanoNat.Nat.sub_diag, firstn_all. cbn. apply app_nil_r. Qed.

Lemma values_loop_spec ftab mult os : forall buf cnt any,
  values_loop ftab mult os buf cnt any =
  (buf ++ seps any (map fst (kb ftab mult os)), cnt ++ seps any (map snd (kb ftab mult os)),
   any || negb (match kb ftab mult os with [] => true | _ => false end)).
Proof.
  induction os as [|o r IH]; intros buf cnt any; cbn [values_loop kb flat_map].
  - unfold seps. destruct any; cbn; rewrite !app_nil_r; reflexivity.
  - fold (kb ftab mult r). destruct (write_observation ftab mult o) as [[v c]|].
    + rewrite IH. cbn [app map fst snd]. unfold seps.
      destruct any; cbn [map concat orb negb].
      * rewrite <- !app_assoc. reflexivity.
      * rewrite !join_cons_comma. rewrite <- !app_assoc. reflexivity.
    + cbn [app]. destruct any.
      * rewrite !firstn_app_exact. apply IH.
      * rewrite !firstn_all. apply IH.
Qed.

Lemma print_jnums (l : list bytes) : map print (map JNum l) = l.
Proof. induction l as [|x r IH]; [reflexivity|]. cbn. rewrite IH. reflexivity. Qed.

(* the Values/Counts text, in terms of the kept observations ... *)
Lemma general_value_text ftab mult name first rest :
  general_value ftab mult name first rest =
  ((comma ++ jstr name ++ [58%N]) ++ bs "{""Values"":[" ++ join comma (map fst (kb ftab mult (first :: rest))) ++
     counts_prefix ++ join comma (map snd (kb ftab mult (first :: rest))) ++ bs "]}",
   negb (match kb ftab mult (first :: rest) with [] => true | _ => false end)).
Proof.
  unfold general_value. cbn [kb flat_map]. fold (kb ftab mult rest).
  destruct (write_observation ftab mult first) as [[v c]|].
  - rewrite values_loop_spec. cbn [app orb negb].
    change (map fst ((v, c) :: kb ftab mult rest)) with (v :: map fst (kb ftab mult rest)).
    change (map snd ((v, c) :: kb ftab mult rest)) with (c :: map snd (kb ftab mult rest)).
    rewrite !join_cons_comma. unfold seps. reflexivity.
  - rewrite values_loop_spec. cbn [app orb]. unfold seps. reflexivity.
Qed.

(* ... is the printed member *)
Lemma values_counts_print name (K : list (bytes * bytes)) :
  (comma ++ jstr name ++ [58%N]) ++ bs "{""Values"":[" ++ join comma (map fst K) ++
     counts_prefix ++ join comma (map snd K) ++ bs "]}"
  = cm (name, JObj [(bs "Values", JArr (map JNum (map fst K))); (bs "Counts", JArr (map JNum (map snd K)))]).
Proof.
  unfold cm. cbn [fst snd]. rewrite print_obj_cons. unfold member, cm. cbn [fst snd].
  change (map (fun kv : bytes * json => comma ++ print_str (fst kv) ++ [58%N] ++ print (snd kv))
              [(bs "Counts", JArr (map JNum (map snd K)))])
    with [comma ++ print_str (bs "Counts") ++ [58%N] ++ print (JArr (map JNum (map snd K)))].
  cbn [concat]. rewrite !print_arr, !print_jnums.
  rewrite jstr_print_str. unfold counts_prefix, comma. lits. flat. reflexivity.
Qed.

Lemma general_value_spec ftab mult name first rest :
  general_value ftab mult name first rest =
  (cm (name, JObj [(bs "Values", JArr (map JNum (map fst (kb ftab mult (first :: rest)))));
                   (bs "Counts", JArr (map JNum (map snd (kb ftab mult (first :: rest)))))]),
   negb (match kb ftab mult (first :: rest) with [] => true | _ => false end)).
Proof. rewrite general_value_text, values_counts_print. reflexivity. Qed.

Lemma write_metric_value_spec ftab mult name first rest :
  match metric_value ftab mult (first :: rest) with
  | Some v => write_metric_value ftab mult name first rest = (cm (name, v), true)
  | None => snd (write_metric_value ftab mult name first rest) = false
  end.
Proof.
  assert (G : match kept ftab mult (first :: rest) with
              | [] => snd (general_value ftab mult name first rest) = false
              | ks => general_value ftab mult name first rest =
                      (cm (name, JObj [(bs "Values", JArr (map fst ks)); (bs "Counts", JArr (map snd ks))]), true)
              end).
  { rewrite general_value_spec, kept_kb. destruct (kb ftab mult (first :: rest)) as [|p ps]; [reflexivity|].
    cbn [map negb]. rewrite !map_map. cbn [fst snd]. reflexivity. }
  unfold metric_value, write_metric_value.
  destruct first as [v | b | t occ]; destruct rest as [|r1 rs]; destruct mult as [m|];
    try exact G.
  - (* OUnsigned, [], None *)
    unfold cm. cbn [fst snd print]. rewrite jstr_print_str. reflexivity.
  - (* OFloat, [], None *)
    destruct (clamp_to_finite b); [|reflexivity].
    unfold cm. cbn [fst snd print]. rewrite jstr_print_str. reflexivity.
Qed.

(* ---------------------------------------------------------------- declarations *)
Lemma metric_decl_print name u fl :
  print (metric_decl name u fl) =
  bs "{""Name"":" ++ jstr name ++
  (match u with UNone => [] | UName n => bs ",""Unit"":" ++ jstr n end) ++
  (match fl with FHigh => bs ",""StorageResolution"":1}" | _ => bs "}" end).
Proof.
  unfold metric_decl. rewrite print_obj_cons. unfold member. cbn [fst snd print].
  rewrite !jstr_print_str.
  destruct u as [|n]; destruct fl; cbn [app map concat]; unfold cm, comma; cbn [fst snd print];
    rewrite ?jstr_print_str; lits; flat; reflexivity.
Qed.

Lemma metric_decl_nonempty name u fl : print (metric_decl name u fl) <> [].
Proof. unfold metric_decl. rewrite print_obj_cons. discriminate. Qed.

Definition r_cm (l : list (bytes * json)) : bytes := concat (map cm l).
Definition r_decls (l : list json) : bytes := join comma (map print l).

Lemma r_cm_snoc l x : r_cm (l ++ [x]) = r_cm l ++ cm x.
Proof. unfold r_cm. apply concat_map_snoc. Qed.
Lemma r_decls_snoc l x : r_decls (l ++ [x]) = r_decls l ++ (match l with [] => [] | _ => comma end) ++ print x.
Proof. unfold r_decls. rewrite map_app. cbn [map]. rewrite join_snoc. destruct l; reflexivity. Qed.

Lemma r_decls_nil_iff l : Forall (fun j => print j <> []) l -> (r_decls l = [] <-> l = []).
Proof.
  intros HF. split; [|intros ->; reflexivity].
  destruct l as [|x r]; [reflexivity|]. unfold r_decls. cbn [map]. rewrite join_cons_comma.
  inversion HF; subst. destruct (print x); [congruence | discriminate].
Qed.

(* ---------------------------------------------------------------- one metric on a (fields, metrics) buffer pair *)
Record BufRel (fb mb : pbuf) (P H : bytes) (members : list (bytes * json)) (decls : list json) : Prop := {
  br_f : pdata fb = P ++ r_cm members;
  br_fp : plen fb <= length P;
  br_m : pdata mb = H ++ r_decls decls;
  br_mp : plen mb = length H;
  br_ne : Forall (fun j => print j <> []) decls
}.

Lemma write_metric_rel ftab mult name os u fl fb mb P H members decls :
  BufRel fb mb P H members decls ->
  let '(fb', mb') := write_metric ftab mult name os u fl fb mb in
  let '(members', decls') := add_metric ftab mult name os u fl members decls in
  BufRel fb' mb' P H members' decls' /\ plen fb' = plen fb /\ plen mb' = plen mb.
Proof.
  intros [Hf Hfp Hm Hmp Hne]. unfold write_metric, add_metric.
  destruct os as [|first rest].
  - (* no observation: nothing happens; the reference has no usable value either *)
    assert (Hmv : metric_value ftab mult [] = None) by (unfold metric_value; destruct mult; reflexivity).
    rewrite Hmv. split; [constructor; assumption | split; reflexivity].
  - pose proof (write_metric_value_spec ftab mult name first rest) as Hv.
    destruct (metric_value ftab mult (first :: rest)) as [v|].
    + rewrite Hv. cbn [negb].
      assert (Hf' : pdata (pb_push fb (cm (name, v))) = P ++ r_cm (members ++ [(name, v)])).
      { cbn [pb_push pdata]. rewrite Hf, r_cm_snoc, app_assoc. reflexivity. }
      destruct fl; try (split; [constructor; try assumption; cbn [pb_push plen]; assumption | split; reflexivity]).
      all: split; [|split; [reflexivity|destruct (pb_is_empty mb); destruct u; reflexivity]].
      all: constructor; [exact Hf' | cbn [pb_push plen]; exact Hfp | | destruct (pb_is_empty mb); destruct u; cbn; exact Hmp
                        | apply Forall_app; split; [exact Hne | constructor; [apply metric_decl_nonempty | constructor]]].
      all: rewrite r_decls_snoc, metric_decl_print.
      all: assert (He : pb_is_empty mb = match decls with [] => true | _ => false end)
          by (unfold pb_is_empty; rewrite Hm, Hmp, app_length;
              destruct decls as [|d0 ds]; [cbn; rewrite PeanoNat.Nat.add_0_r; apply PeanoNat.Nat.eqb_refl|];
              apply PeanoNat.Nat.eqb_neq; intros Heq;
              assert (Hz : length (r_decls (d0 :: ds)) = 0) by lia;
              apply length_zero_iff_nil in Hz; apply (r_decls_nil_iff _ Hne) in Hz; discriminate).
      all: rewrite He; destruct decls as [|d0 ds]; destruct u as [|un]; cbn [pb_push pdata app];
           rewrite Hm; flat; reflexivity.
    + (* skipped: the name is truncated away again *)
      destruct (write_metric_value ftab mult name first rest) as [txt ok]. cbn [snd] in Hv. subst ok. cbn [negb].
      split; [|split; reflexivity].
      constructor; try assumption.
      cbn [pb_truncate pb_push pdata]. unfold pb_len. rewrite firstn_app_exact. exact Hf.
Qed.
